// Package c05 decides C05 ("equal numbers are indistinguishable however computed; conversions follow spec").
//
// Engine E1 (bounded-exhaustive enumeration): the space is the set of expression trees of bounded depth over every
// number-producing / number-converting operation of the engine (ops.go) with leaves from a boundary pool
// (pool.go). Because every operation is a pure function of the *representation* of its operand values, trees are
// enumerated level by level over the set of distinct reachable value representations (Go type tag + bits /
// UTF-16 content): level d applies every operation to every operand tuple that contains at least one value first
// reached at level d-1. That visits, for every tree of depth <= d, an evaluation with identical operands.
//
// Oracles, evaluated on every single application:
//
//	(i)   reference model verif/ref/nummodel (ECMA-262 semantics in plain Go / math/big): the real result must be
//	      SameValue-equal to the model's (only approximately for what the specification leaves to the implementation);
//	(ii)  canonical representation (white box, goja.VerifRepr + raw bits): a Number is an int iff it is integral,
//	      |x| <= 2^53 and not -0, NaN has the one canonical bit pattern. Two canonical values of one bucket
//	      (mathematical value + zero sign) are the identical Go value, hence mutually indistinguishable; every
//	      distinct representation that is ever seen is additionally run through the behavioural observers
//	      (Object.is both ways, ===, switch, Map/Set, includes/indexOf, property key, String(), ...) against the
//	      canonical twin and against every other representation seen in the same bucket;
//	(iii) argument positions (argpos.go): every integer-taking built-in argument position fed each pool value must
//	      behave exactly as when fed ToNumber(v) and ToIntegerOrInfinity(ToNumber(v)) computed by the model.
package c05

import (
	"encoding/json"
	"fmt"
	"math"
	"os"
	"runtime/debug"
	"runtime/pprof"
	"sort"
	"strings"
	"sync"
	"time"
	"unicode/utf16"

	"verif/core"
	nm "verif/ref/nummodel"

	"github.com/dop251/goja"
)

func init() {
	core.Register(&core.Check{
		ID:    "C05",
		Level: "exploration",
		Rule: "level-wise exhaustive enumeration of expression trees: every operation (arithmetic, bitwise, shift, update and compound assignment on var/closure/property/element targets, unary, comparisons, Math.*, Number/parseInt/parseFloat, Number.prototype and String round trips, JSON, 9 typed-array element types x 8 store routes, DataView x endianness, BigInt round trips, Date) " +
			"applied to every operand tuple over the distinct value representations reachable at the previous level (leaves: boundary numbers, booleans/null/undefined, numeric strings as native ASCII / native UTF-16 / Go-imported scanned+unscanned with every Unicode white space, objects with valueOf/toString/Symbol.toPrimitive/wrappers); " +
			"plus every source-literal form, every Go numeric kind through ToValue, and every integer-taking built-in argument position x pool value. " +
			"A case is non-trivial when its result was produced by the engine and compared with the reference model (not skipped as unmodelled); cases are distinct by construction (distinct operation x operand representations).",
		Run:    run,
		Replay: replay,
	})
}

func utf16Dec(u []uint16) []rune { return utf16.Decode(u) }

// ---------- representation keys ----------

const (
	tUndef uint8 = iota
	tNull
	tBool
	tInt
	tFloat
	tASCII
	tUTF16
	tImported
	tObject
	tOther
)

type rkey struct {
	tag  uint8
	bits uint64
	s    string
}

var canonNaNBits = math.Float64bits(goja.NaN().ToFloat())

func unitsKey(u []uint16) string {
	b := make([]byte, 2*len(u))
	for i, c := range u {
		b[2*i] = byte(c >> 8)
		b[2*i+1] = byte(c)
	}
	return string(b)
}

// classify reads the representation and content of a result value.
func classify(v goja.Value) (rkey, nm.Val) {
	switch rep := goja.VerifRepr(v); rep {
	case "int":
		i := v.ToInteger()
		return rkey{tag: tInt, bits: uint64(i)}, nm.Num(float64(i))
	case "float":
		f := v.ToFloat()
		return rkey{tag: tFloat, bits: math.Float64bits(f)}, nm.Num(f)
	case "ascii":
		u := goja.VerifUnits(v)
		return rkey{tag: tASCII, s: unitsKey(u)}, nm.StrU(u)
	case "utf16":
		u := goja.VerifUnits(v)
		return rkey{tag: tUTF16, s: unitsKey(u)}, nm.StrU(u)
	case "bool":
		if v.ToBoolean() {
			return rkey{tag: tBool, bits: 1}, nm.Boolean(true)
		}
		return rkey{tag: tBool}, nm.Boolean(false)
	case "null":
		return rkey{tag: tNull}, nm.Val{K: nm.Null}
	case "undefined":
		return rkey{tag: tUndef}, nm.Val{K: nm.Undefined}
	case "object":
		return rkey{tag: tObject}, nm.Val{K: nm.Object}
	default:
		if strings.HasPrefix(rep, "imported") {
			u := goja.VerifUnits(v)
			return rkey{tag: tImported, s: unitsKey(u)}, nm.StrU(u)
		}
		return rkey{tag: tOther, s: rep}, nm.Val{K: nm.Object}
	}
}

// canonical reports whether a Number representation is the canonical one; why names the deviation.
func canonical(k rkey) (ok bool, why string) {
	switch k.tag {
	case tInt:
		i := int64(k.bits)
		if i > 1<<53 || i < -(1<<53) {
			return false, "int beyond 2^53"
		}
	case tFloat:
		f := math.Float64frombits(k.bits)
		switch {
		case math.IsNaN(f):
			if k.bits != canonNaNBits {
				return false, "NaN with non-canonical bits"
			}
		case math.IsInf(f, 0):
		case f == 0:
			if !math.Signbit(f) {
				return false, "+0 held as float"
			}
		case f == math.Trunc(f) && math.Abs(f) <= 1<<53:
			if math.Abs(f) == 1<<53 {
				return false, "2^53 held as float"
			}
			return false, "integral value held as float"
		}
	}
	return true, ""
}

func numClass(f float64) string {
	a := math.Abs(f)
	switch {
	case math.IsNaN(f):
		return "NaN"
	case math.IsInf(f, 1):
		return "+Inf"
	case math.IsInf(f, -1):
		return "-Inf"
	case f == 0 && math.Signbit(f):
		return "-0"
	case f == 0:
		return "+0"
	}
	s := "+"
	if f < 0 {
		s = "-"
	}
	if a < 2.2250738585072014e-308 {
		return s + "subnormal"
	}
	if a == math.Trunc(a) {
		switch {
		case a < 1<<31:
			return s + "int<2^31"
		case a < 1<<32:
			return s + "int<2^32"
		case a < 1<<53:
			return s + "int<2^53"
		case a == 1<<53:
			return s + "2^53"
		case a < 1<<63:
			return s + "int<2^63"
		}
		return s + "int>=2^63"
	}
	switch {
	case a < 1:
		return s + "frac<1"
	case a < 1<<31:
		return s + "frac<2^31"
	}
	return s + "frac>=2^31"
}

// ---------- values and derivations ----------

// Expr is the derivation of a value: a leaf of the pool or an operation applied to derived values.
type Expr struct {
	Leaf string  `json:"leaf,omitempty"`
	Op   string  `json:"op,omitempty"`
	Args []*Expr `json:"args,omitempty"`
}

func (e *Expr) String() string {
	if e.Op == "" {
		return leafShow(e.Leaf)
	}
	if strings.HasPrefix(e.Op, "const:") {
		for _, c := range constOps {
			if c.name == e.Op[6:] {
				return "(" + c.js + ")"
			}
		}
	}
	op := opByName[e.Op]
	if op == nil {
		return e.Op + "(?)"
	}
	args := make([]string, len(e.Args))
	for i, a := range e.Args {
		args[i] = a.String()
	}
	return op.show(args...)
}

func leafShow(name string) string {
	switch {
	case strings.HasPrefix(name, "num:"):
		return name[4:]
	case strings.HasPrefix(name, "str:native:"):
		return name[len("str:native:"):]
	case strings.HasPrefix(name, "str:"):
		i := strings.Index(name[4:], ":")
		return "GoString(" + name[4+i+1:] + ")/*" + name[4:4+i] + "*/"
	case strings.HasPrefix(name, "obj:"):
		rest := name[4:]
		i := strings.Index(rest, ":")
		return "{" + rest[:i] + ":" + leafShow(rest[i+1:]) + "}"
	}
	return name
}

type value struct {
	key   rkey
	v     goja.Value // shareable primitive; nil for leaves and re-imported strings
	lf    *leaf
	lfIdx int
	gs    string // imported string results are re-created from this Go string for every use
	m     nm.Val
	num   float64 // ToNumber(m)
	depth int
	expr  *Expr
	first int64 // global index of the evaluation that first produced it (deterministic tie-break)
	// memoised classes (filled by prep() before a value is shared between workers)
	cCls, cConv string
}

// prep computes the memoised classes; called single-threaded before the value becomes visible to other workers.
func (x *value) prep() { x.class(); convClass(x) }

func (x *value) desc() string   { return x.expr.String() }
func (x *value) String() string { return x.desc() }

// operand class used in signatures
func (x *value) class() string {
	if x.cCls == "" {
		x.cCls = x.class0()
	}
	return x.cCls
}

func (x *value) class0() string {
	m := x.m
	pre := ""
	if m.K == nm.Object {
		pre = "object->"
		m = *m.Prim
	}
	switch m.K {
	case nm.Undefined:
		return pre + "undefined"
	case nm.Null:
		return pre + "null"
	case nm.Bool:
		return pre + "boolean"
	case nm.Number:
		rep := ""
		if pre == "" {
			switch x.key.tag {
			case tInt:
				rep = "int "
			case tFloat:
				rep = "float "
				if ok, _ := canonical(x.key); !ok {
					rep = "noncanonical-float "
				}
			}
		}
		return pre + rep + numClass(m.N)
	case nm.String:
		rep := "ascii"
		if !isASCIIUnits(m.S) {
			rep = "utf16"
		}
		if pre == "" {
			if x.key.tag == tImported || (x.lf != nil && strings.HasPrefix(x.lf.rep, "imported")) {
				rep = "imported-" + rep
			}
		} else if x.lf != nil && strings.Contains(x.lf.name, ":str:imported") {
			rep = "imported-" + rep
		}
		return pre + rep + " string " + strShape(m.S)
	}
	return pre + "?"
}

// strShape names the lexical class of a string as a numeric literal.
func strShape(u []uint16) string {
	t := nm.TrimUnits(u)
	pad := ""
	if len(t) != len(u) {
		pad = "ws-padded "
		for _, c := range u {
			if c >= 0x80 && nm.IsStrWhiteSpaceChar(c) {
				pad = "unicode-ws-padded "
				break
			}
		}
	}
	return pad + bodyShape(t)
}

func bodyShape(t []uint16) string {
	if len(t) == 0 {
		return "empty"
	}
	for _, c := range t {
		if c >= 0x80 || c < 0x20 {
			if len(t) > 0 && (t[0] == 0x85 || t[len(t)-1] == 0x85) {
				return "NEL-padded"
			}
			return "non-ASCII/control"
		}
	}
	s := string(utf16.Decode(t))
	ls := strings.ToLower(s)
	v := nm.StringToNumber(t)
	body := strings.TrimLeft(s, "+-")
	lbody := strings.ToLower(body)
	radix := func(p string) string {
		if strings.HasPrefix(lbody, "0"+p) {
			if len(body) != len(s) {
				return "signed "
			}
			return ""
		}
		return "-"
	}
	for _, p := range []struct{ p, n string }{{"x", "hex"}, {"b", "bin"}, {"o", "oct"}} {
		if r := radix(p.p); r != "-" {
			if math.IsNaN(v) {
				if r == "signed " {
					return "signed 0" + p.p + " literal"
				}
				if strings.ContainsAny(body[2:], "+-") {
					return "0" + p.p + " followed by sign"
				}
				if p.p == "x" && strings.ContainsAny(lbody, "p.") {
					return "hex float"
				}
				return "malformed 0" + p.p + " literal"
			}
			if v >= 1<<63 {
				return p.n + " literal >=2^63"
			}
			if v > 1<<53 {
				return p.n + " literal >2^53"
			}
			return p.n + " literal"
		}
	}
	if strings.Contains(s, "_") {
		return "with underscore"
	}
	if body == "Infinity" && len(s)-len(body) <= 1 {
		return "Infinity"
	}
	if math.IsNaN(v) {
		switch strings.TrimLeft(ls, "+-") {
		case "inf", "infinity", "nan", "infinit":
			return "inf/nan word"
		}
		return "not numeric"
	}
	isInt := !strings.ContainsAny(s, ".eE")
	switch {
	case math.IsInf(v, 0):
		return "decimal overflowing to Infinity"
	case isInt && math.Abs(v) >= 1<<63:
		return "decimal integer >=2^63"
	case isInt && math.Abs(v) > 1<<53:
		return "decimal integer >2^53"
	case isInt && v == 0 && strings.HasPrefix(s, "-"):
		if s != "-0" {
			return "-0 written with several zeros"
		}
		return "-0"
	case isInt:
		return "decimal integer"
	case v == 0 && strings.ContainsAny(s, "123456789"):
		return "decimal underflowing to 0"
	case v == 0 && strings.HasPrefix(s, "-"):
		return "-0"
	case math.Abs(v) >= 1<<63:
		return "decimal float >=2^63"
	}
	return "decimal float"
}

func resultClass(v nm.Val) string {
	switch v.K {
	case nm.Number:
		return numClass(v.N)
	case nm.String:
		return "string"
	case nm.Bool:
		return v.Show()
	case nm.Throw:
		return "throws " + v.Err
	case nm.Undefined:
		return "undefined"
	case nm.Null:
		return "null"
	}
	return "object"
}

// ---------- worker ----------

type worker struct {
	run          *core.Run
	u            *universe
	rt           *goja.Runtime
	fns          []goja.Callable
	fromCharCode goja.Callable
	mkObj        map[string]goja.Callable
	obs          goja.Callable
	pos          []goja.Callable
	leafCache    []goja.Value
	showLoaded   bool
	probes       map[probeKey]probeRes
	probeKeys    map[probeKey]rkey
	or0, str     goja.Callable
	driver       goja.Callable
	sink         goja.Value
	batchOut     []outcome
	fnVals       []goja.Value
	fails        map[string]*failRec
	newVals      map[rkey]*value
	clsCount     map[string]int
	evals, skips int64
	outcomes     map[[2]string]struct{}
	noText       bool
}

type failRec struct {
	idx   int64
	count int64
	what  string
	cs    Case
}

// Case is what a replay file holds.
type Case struct {
	Kind string  `json:"kind"` // op | observe | argpos | gokind | literal | const
	Expr *Expr   `json:"expr,omitempty"`
	Text string  `json:"text,omitempty"` // human readable form
	Pos  string  `json:"pos,omitempty"`
	Arg  *Expr   `json:"arg,omitempty"`
	Name string  `json:"name,omitempty"`
	Sig  string  `json:"sig,omitempty"`
	Args []*Expr `json:"args,omitempty"`
}

// universe is the immutable part shared by all workers of one run.
type universe struct {
	leaves []*leaf
	ops    []*Op
}

var (
	uniOnce    sync.Once
	uni        *universe
	opByName   = map[string]*Op{}
	leafByName = map[string]int{}
)

func getUniverse() *universe {
	uniOnce.Do(func() {
		uni = &universe{leaves: buildLeaves(), ops: buildOps()}
		for _, o := range uni.ops {
			if opByName[o.Name] != nil {
				panic("duplicate op " + o.Name)
			}
			opByName[o.Name] = o
		}
		for i, l := range uni.leaves {
			if _, dup := leafByName[l.name]; dup {
				panic("duplicate leaf " + l.name)
			}
			leafByName[l.name] = i
		}
	})
	return uni
}

func mustFn(rt *goja.Runtime, src string) goja.Callable {
	v, err := rt.RunString(src)
	if err != nil {
		panic(fmt.Sprintf("cannot compile %s: %v", src, err))
	}
	f, ok := goja.AssertFunction(v)
	if !ok {
		panic("not a function: " + src)
	}
	return f
}

var (
	progOnce sync.Once
	opProgs  []*goja.Program
	posProgs []*goja.Program
	showProg *goja.Program
	obsProg  *goja.Program
)

func newWorker(r *core.Run) *worker {
	u := getUniverse()
	progOnce.Do(func() {
		for _, o := range u.ops {
			opProgs = append(opProgs, goja.MustCompile(o.Name, o.JS, false))
		}
		for _, p := range positions {
			posProgs = append(posProgs, goja.MustCompile(p.name, posSource(p), false))
		}
		showProg = goja.MustCompile("show", showHelper, false)
		obsProg = goja.MustCompile("observers", observerSource, false)
	})
	w := &worker{run: r, u: u, rt: goja.New(), fails: map[string]*failRec{}, newVals: map[rkey]*value{}, clsCount: map[string]int{}, outcomes: map[[2]string]struct{}{}}
	w.fromCharCode = mustFn(w.rt, "(function(){return String.fromCharCode.apply(null, arguments)})")
	fac, err := w.rt.RunString(objFactories)
	if err != nil {
		panic(err)
	}
	w.mkObj = map[string]goja.Callable{}
	for _, k := range []string{"valueOf", "toString", "toPrimitive", "wrapper"} {
		f, _ := goja.AssertFunction(fac.ToObject(w.rt).Get(k))
		w.mkObj[k] = f
	}
	w.fns = make([]goja.Callable, len(u.ops))
	w.fnVals = make([]goja.Value, len(u.ops))
	w.pos = make([]goja.Callable, len(positions))
	w.leafCache = make([]goja.Value, len(u.leaves))
	return w
}

// fn returns the compiled function of operation i on this runtime (instantiated on first use).
func (w *worker) fn(i int) goja.Callable {
	if f := w.fns[i]; f != nil {
		return f
	}
	v, err := w.rt.RunProgram(opProgs[i])
	if err != nil {
		panic(fmt.Sprintf("op %s: %v", w.u.ops[i].Name, err))
	}
	w.fns[i], _ = goja.AssertFunction(v)
	w.fnVals[i] = v
	return w.fns[i]
}

func (w *worker) fnValue(i int) goja.Value {
	w.fn(i)
	return w.fnVals[i]
}

func (w *worker) posFn(i int) goja.Callable {
	if f := w.pos[i]; f != nil {
		return f
	}
	if !w.showLoaded {
		if _, err := w.rt.RunProgram(showProg); err != nil {
			panic(err)
		}
		w.showLoaded = true
	}
	v, err := w.rt.RunProgram(posProgs[i])
	if err != nil {
		panic(fmt.Sprintf("position %s: %v", positions[i].name, err))
	}
	w.pos[i], _ = goja.AssertFunction(v)
	return w.pos[i]
}

func (w *worker) observer() goja.Callable {
	if w.obs == nil {
		v, err := w.rt.RunProgram(obsProg)
		if err != nil {
			panic(err)
		}
		w.obs, _ = goja.AssertFunction(v)
	}
	return w.obs
}

func (w *worker) mat(x *value) goja.Value {
	if x.lf != nil {
		if x.lf.fresh {
			return x.lf.mk(w)
		}
		if v := w.leafCache[x.lfIdx]; v != nil {
			return v
		}
		v := x.lf.mk(w)
		w.leafCache[x.lfIdx] = v
		return v
	}
	if x.v == nil {
		return w.rt.ToValue(x.gs)
	}
	return x.v
}

func excName(w *worker, err error) string {
	if e, ok := err.(*goja.Exception); ok {
		return excValueName(e.Value())
	}
	return fmt.Sprintf("%T", err)
}

type outcome struct {
	key    rkey
	val    goja.Value
	m      nm.Val
	thrown string
}

func (w *worker) apply(op *Op, a, b *value) outcome {
	var res goja.Value
	var err error
	if op.Ar == 1 {
		res, err = w.fn(op.idx)(goja.Undefined(), w.mat(a))
	} else {
		res, err = w.fn(op.idx)(goja.Undefined(), w.mat(a), w.mat(b))
	}
	if err != nil {
		n := excName(w, err)
		return outcome{thrown: n, m: nm.Thrown(n), key: rkey{tag: tOther, s: "throw " + n}}
	}
	k, m := classify(res)
	return outcome{key: k, val: res, m: m}
}

func (w *worker) model(op *Op, a, b *value) (nm.Expect, bool) {
	if op.MN != nil {
		if op.Ar == 1 {
			return op.MN(a.num, 0), true
		}
		return op.MN(a.num, b.num), true
	}
	if op.Ar == 1 {
		return op.MV(&a.m, nil)
	}
	return op.MV(&a.m, &b.m)
}

func (w *worker) fail(idx int64, sig, what string, cs Case) {
	if f := w.fails[sig]; f != nil {
		f.count++
		if idx < f.idx {
			f.idx, f.what, f.cs = idx, what, cs
		}
		return
	}
	w.fails[sig] = &failRec{idx: idx, count: 1, what: what, cs: cs}
}

// eval runs one application with all oracles; collect = remember new result representations for the next level.
func (w *worker) eval(idx int64, op *Op, a, b *value, depth int, collect int) {
	w.evalGot(idx, op, a, b, w.apply(op, a, b), depth, collect)
}

type batchItem struct {
	idx  int64
	a, b *value
}

const batchDriver = `(function(f, as, bs, sink){
  for (var i = 0; i < as.length; i++) {
    var r, ok = true;
    try { r = f(as[i], bs[i]) } catch (e) { ok = false; r = e }
    sink(i, ok, r);
  }
})`

// evalBatch applies op to all items inside ONE call into the runtime (the operation itself is executed exactly as
// in apply; only the Go<->JS transitions and the per-call stack allocation of the engine are saved).
func (w *worker) evalBatch(op *Op, items []batchItem, depth int, collect int) {
	if len(items) == 0 {
		return
	}
	if w.driver == nil {
		w.driver = mustFn(w.rt, batchDriver)
		w.sink = w.rt.ToValue(func(call goja.FunctionCall) goja.Value {
			i := int(call.Argument(0).ToInteger())
			if call.Argument(1).ToBoolean() {
				res := call.Argument(2)
				k, m := classify(res)
				w.batchOut[i] = outcome{key: k, val: res, m: m}
			} else {
				n := excValueName(call.Argument(2))
				w.batchOut[i] = outcome{thrown: n, m: nm.Thrown(n), key: rkey{tag: tOther, s: "throw " + n}}
			}
			return goja.Undefined()
		})
	}
	as := make([]interface{}, len(items))
	bs := as
	if op.Ar == 2 {
		bs = make([]interface{}, len(items))
	}
	for i, it := range items {
		as[i] = w.mat(it.a)
		if op.Ar == 2 {
			bs[i] = w.mat(it.b)
		}
	}
	if cap(w.batchOut) < len(items) {
		w.batchOut = make([]outcome, len(items))
	}
	w.batchOut = w.batchOut[:len(items)]
	fv := w.fnValue(op.idx)
	if _, err := w.driver(goja.Undefined(), fv, w.rt.NewArray(as...), w.rt.NewArray(bs...), w.sink); err != nil {
		panic(fmt.Sprintf("batch driver failed for %s: %v", op.Name, err))
	}
	for i, it := range items {
		w.evalGot(it.idx, op, it.a, it.b, w.batchOut[i], depth, collect)
	}
}

func excValueName(v goja.Value) string {
	if o, ok := v.(*goja.Object); ok {
		if n := o.Get("name"); n != nil {
			return n.String()
		}
	}
	return "throw " + v.String()
}

func (w *worker) evalGot(idx int64, op *Op, a, b *value, got outcome, depth int, collect int) {
	exp, modelled := w.model(op, a, b)
	w.evals++
	if !modelled {
		w.skips++
	}
	w.noText = true
	fs := w.judge(op, a, b, got, exp, modelled)
	w.noText = false
	if fs != nil {
		fresh := false
		for _, f := range fs {
			if rec := w.fails[f[0]]; rec == nil || idx < rec.idx {
				fresh = true
			}
		}
		if !fresh {
			for _, f := range fs {
				w.fails[f[0]].count++
			}
		} else {
			e := mkExpr(op, a, b)
			for _, f := range w.judge(op, a, b, got, exp, modelled) { // again, with the texts
				w.fail(idx, f[0], f[1], Case{Kind: "op", Expr: e, Text: e.String(), Sig: f[0]})
			}
		}
	}
	oc := [2]string{op.Fam, resultClass(got.m)}
	if _, ok := w.outcomes[oc]; !ok {
		w.outcomes[oc] = struct{}{}
		w.run.Outcome(oc[0] + "|" + oc[1])
	}
	if collect == collectNone || got.thrown != "" || got.key.tag >= tObject {
		return
	}
	if collect == collectCapped {
		// bounded memory at the deep levels: only Numbers, and per class only the capK first-reached ones
		// (chunks reach a worker in increasing index order, so these are its capK smallest indices of the class)
		if got.m.K != nm.Number {
			return
		}
		if _, ok := w.newVals[got.key]; !ok {
			c := numRepClass(got.key, got.m.N)
			if w.clsCount[c] >= capK {
				return
			}
			w.clsCount[c]++
		}
	}
	if nv, ok := w.newVals[got.key]; ok {
		if idx < nv.first {
			nv.first = idx
			nv.expr = mkExpr(op, a, b)
		}
		return
	}
	nv := &value{key: got.key, v: got.val, m: got.m, num: nm.ToNumber(got.m), depth: depth, first: idx, expr: mkExpr(op, a, b)}
	if got.key.tag == tImported {
		nv.v = nil
		nv.gs = got.val.String()
	}
	w.newVals[got.key] = nv
}

const (
	collectNone = iota
	collectAll
	collectCapped
	capK = 40
)

// numRepClass: coarse class of a Number representation (tag, canonical or not, magnitude class, exact small values)
func numRepClass(k rkey, f float64) string {
	c := numClass(f)
	if a := math.Abs(f); a == 0.5 || a == 1 || a == 1.5 || a == 2 {
		c = nm.ShowNum(f)
	}
	if ok, _ := canonical(k); !ok {
		c += " noncanonical"
	}
	if k.tag == tInt {
		return "int " + c
	}
	return "float " + c
}

func mkExpr(op *Op, a, b *value) *Expr {
	e := &Expr{Op: op.Name, Args: []*Expr{a.expr}}
	if op.Ar == 2 {
		e.Args = append(e.Args, b.expr)
	}
	return e
}

// ---------- exploration ----------

type job struct {
	op   *Op
	A, B []*value
}

func (j *job) size() int64 {
	if j.op.Ar == 1 {
		return int64(len(j.A))
	}
	return int64(len(j.A)) * int64(len(j.B))
}

type explorer struct {
	r      *core.Run
	u      *universe
	all    []*value        // every reachable value, in deterministic order
	known  map[rkey]*value // representation -> value
	fails  map[string]*failRec
	bounds map[string]interface{}
}

// runJobs evaluates all jobs in parallel; new representations are merged deterministically. Returns false if cut.
func (ex *explorer) runJobs(jobs []job, depth int, collect int, label string) (newVals []*value, complete bool) {
	offs := make([]int64, len(jobs)+1)
	for i := range jobs {
		offs[i+1] = offs[i] + jobs[i].size()
	}
	total := offs[len(jobs)]
	var mu sync.Mutex
	merged := map[rkey]*value{}
	var workers []*worker
	complete = ex.r.Parallel(total, 4096, func(wk int, lo, hi int64) {
		w := newWorkerCached(ex.r, wk)
		ji := sort.Search(len(jobs), func(i int) bool { return offs[i+1] > lo })
		var batch []batchItem
		cur := -1
		for idx := lo; idx < hi; idx++ {
			for offs[ji+1] <= idx {
				ji++
			}
			if ji != cur || len(batch) >= 512 {
				if cur >= 0 {
					w.evalBatch(jobs[cur].op, batch, depth, collect)
				}
				batch, cur = batch[:0], ji
			}
			j := &jobs[ji]
			rel := idx - offs[ji]
			if j.op.Ar == 1 {
				batch = append(batch, batchItem{idx, j.A[rel], nil})
			} else {
				nb := int64(len(j.B))
				batch = append(batch, batchItem{idx, j.A[rel/nb], j.B[rel%nb]})
			}
		}
		if cur >= 0 {
			w.evalBatch(jobs[cur].op, batch, depth, collect)
		}
		mu.Lock()
		found := false
		for _, x := range workers {
			if x == w {
				found = true
			}
		}
		if !found {
			workers = append(workers, w)
		}
		mu.Unlock()
	})
	for _, w := range workers {
		ex.r.Eval(w.evals)
		ex.r.NontrivialN(w.evals - w.skips)
		ex.r.Add("unmodelled_skipped", w.skips)
		w.evals, w.skips = 0, 0
		if complete { // the values of a level that was cut are not needed: the next level does not run
			for k, nv := range w.newVals {
				if _, ok := ex.known[k]; ok {
					continue
				}
				if old, ok := merged[k]; !ok || nv.first < old.first {
					merged[k] = nv
				}
			}
		}
		w.newVals = map[rkey]*value{}
		w.clsCount = map[string]int{}
		ex.mergeWorkerFails(w)
	}
	for _, nv := range merged {
		newVals = append(newVals, nv)
	}
	sort.Slice(newVals, func(i, j int) bool { return newVals[i].first < newVals[j].first })
	if collect == collectCapped {
		cnt := map[string]int{}
		kept := newVals[:0]
		for _, nv := range newVals {
			if c := numRepClass(nv.key, nv.m.N); cnt[c] < capK {
				cnt[c]++
				kept = append(kept, nv)
			}
		}
		newVals = kept
	}
	for _, nv := range newVals {
		nv.prep()
		ex.known[nv.key] = nv
		ex.all = append(ex.all, nv)
	}
	ex.flushFails(label)
	if os.Getenv("C05_DUMP") != "" {
		fmt.Fprintf(os.Stderr, "[%6.1fs] %s: %d evaluations in %d jobs, %d new values, complete=%v\n", time.Since(ex.r.Start).Seconds(), label, total, len(jobs), len(newVals), complete)
	}
	return newVals, complete
}

// flushFails confirms (5x on fresh runtimes) and reports the failures gathered so far; each signature's recorded
// case is the one with the smallest enumeration index, so reports are deterministic.
func (ex *explorer) flushFails(label string) {
	if os.Getenv("C05_DUMP") != "" {
		defer func(t0 time.Time) {
			fmt.Fprintf(os.Stderr, "[%6.1fs] flush %s took %.1fs (%d signatures)\n", time.Since(ex.r.Start).Seconds(), label, time.Since(t0).Seconds(), len(ex.fails))
		}(time.Now())
	}
	sigs := make([]string, 0, len(ex.fails))
	for s := range ex.fails {
		sigs = append(sigs, s)
	}
	sort.Strings(sigs)
	for _, s := range sigs {
		f := ex.fails[s]
		if f.idx >= 0 { // not yet reported
			okN := 0
			for i := 0; i < 5; i++ {
				if hasSig(replayCase(ex.r, f.cs), s) {
					okN++
				}
			}
			if okN != 5 {
				ex.r.Violation("nondeterministic|"+s, fmt.Sprintf("reproduced %d/5 times on fresh runtimes: %s", okN, f.what), f.cs)
				delete(ex.fails, s)
				continue
			}
			f.idx = -1
		}
		for i := int64(0); i < f.count; i++ {
			ex.r.Violation(s, f.what, f.cs)
		}
		if os.Getenv("C05_DUMP") != "" && f.count > 0 {
			fmt.Printf("FAIL[%s] %6d  %s\n      e.g. %s\n", label, f.count, s, f.what)
		}
		f.count = 0
	}
}

func hasSig(fs [][2]string, sig string) bool {
	for _, f := range fs {
		if f[0] == sig {
			return true
		}
	}
	return false
}

var (
	wcMu    sync.Mutex
	wcCache = map[int]*worker{}
)

// one worker (runtime) per Parallel goroutine index for the whole run
func newWorkerCached(r *core.Run, wk int) *worker {
	wcMu.Lock()
	defer wcMu.Unlock()
	if w := wcCache[wk]; w != nil && w.run == r {
		return w
	}
	w := newWorker(r)
	wcCache[wk] = w
	return w
}

func (ex *explorer) leafValues() []*value {
	w := newWorker(ex.r)
	var res []*value
	for i, l := range ex.u.leaves {
		v := l.mk(w)
		k, m := classify(v)
		if l.kind == "obj" {
			k = rkey{tag: tObject, bits: uint64(i)}
			m = l.m
		} else {
			// the leaf's content must be what the pool says (guards the harness itself)
			if !nm.Same(m, l.m) {
				panic(fmt.Sprintf("leaf %s: content %s, expected %s", l.name, m.Show(), l.m.Show()))
			}
			if l.kind == "str" {
				k.bits = uint64(i) // distinct string leaves stay distinct operands even with equal content (fresh/unscanned variants)
				wantRep := map[string]bool{"native": k.tag == tASCII || k.tag == tUTF16, "imported": k.tag == tImported, "imported-scanned": k.tag == tImported}[l.rep]
				if !wantRep {
					panic(fmt.Sprintf("leaf %s has representation %s", l.name, goja.VerifRepr(v)))
				}
			}
		}
		lv := &value{key: k, lf: l, lfIdx: i, m: l.m, num: nm.ToNumber(l.m), depth: 0, expr: &Expr{Leaf: l.name}, first: int64(i) - 1<<40}
		lv.prep()
		res = append(res, lv)
	}
	return res
}

// stringRelevant: unary operations whose operand conversion is a string-to-number conversion worth applying to every
// string produced at depth 1 (concatenations) even in the quick tier.
func stringRelevant(op *Op) bool {
	switch op.Name {
	case "Number(%s)", "parseInt(%s)", "parseFloat(%s)", "(+%s)", "(-%s)", "(~%s)", "Math.abs(%s)", "isNaN(%s)", "(t=new Float64Array(1), t[0]=%s, t[0])", "(t=new Int32Array(1), t[0]=%s, t[0])", "(var x=%s; ++x)":
		return true
	}
	return false
}

func filter(vs []*value, f func(*value) bool) []*value {
	var res []*value
	for _, v := range vs {
		if f(v) {
			res = append(res, v)
		}
	}
	return res
}

// representatives keeps the first k values of every coarse class (values are in deterministic first-reached order).
func representatives(vs []*value, k int) []*value {
	cnt := map[string]int{}
	var res []*value
	for _, v := range vs {
		c := v.kindWord() + " " + convClass(v)
		switch v.m.K {
		case nm.Number:
			// exact small values stay distinct classes
			if a := math.Abs(v.m.N); a == 0 || a == 0.5 || a == 1 || a == 1.5 || a == 2 {
				c += "=" + nm.ShowNum(v.m.N)
			}
		case nm.String:
			c += fmt.Sprint(" tag", v.key.tag)
		}
		if cnt[c] < k {
			cnt[c]++
			res = append(res, v)
		}
	}
	return res
}

func run(r *core.Run) {
	r.Assume("amd64 build of Go: float->int conversions of out-of-range values follow the hardware (the model does not depend on it, the engine's behaviour may)")
	r.Assume("the reference model nummodel is trusted: Go float64 arithmetic is IEEE-754 round-to-nearest-even; strconv.ParseFloat/FormatFloat are correctly rounded / shortest; its integer conversions are cross-checked against math/big in its unit tests")
	r.Assume("Math.* transcendental functions, sqrt, cbrt, hypot, ** / Math.pow outside their listed special cases, and parseInt beyond 20 significant digits (radix 10) or with a non power-of-two radix are implementation-approximated in ECMA-262: only a loose sanity relation (relative error < 2^-40) is demanded there")
	r.Assume("Date arguments that overflow Go's int (documented incompatibility) and Go strings that are not valid UTF-8 are outside the alphabet")
	if pf := os.Getenv("C05_PROF"); pf != "" {
		f, _ := os.Create(pf)
		pprof.StartCPUProfile(f)
		defer pprof.StopCPUProfile()
	}
	debug.SetGCPercent(400)
	debug.SetMemoryLimit(8 << 30)
	u := getUniverse()
	ex := &explorer{r: r, u: u, known: map[rkey]*value{}, fails: map[string]*failRec{}, bounds: map[string]interface{}{}}
	complete := true

	// 0. fixed regression corpus: the minimal inputs of the listed findings (runs first, a few ms)
	runRegression(ex)

	// 1. leaves
	leaves := ex.leafValues()
	for _, v := range leaves {
		ex.known[v.key] = v
		ex.all = append(ex.all, v)
	}
	for i, v := range leaves {
		if i%97 == 0 {
			r.Sample(map[string]interface{}{"leaf": v.lf.name, "model_value": v.m.Show(), "class": v.class()})
		}
	}
	r.Set("pool_leaves", len(leaves))
	r.Set("operations", len(u.ops))

	// 2. nullary producers, literal forms, Go numeric kinds
	consts := runConsts(ex)
	complete = runLiterals(ex, false) && complete
	runGoKinds(ex)

	// 3. level 1. unary: every operation on every leaf. binary: scalars (all numbers, booleans, null, undefined) x
	// scalars in full; every leaf x the small partner pool P (core numbers, one string of every representation and
	// lexical class, objects) in both positions. The compound-assignment variants (same VM instruction through
	// other reference kinds): scalars x scalars and P x P.
	isScalar := func(v *value) bool { return v.lf.kind != "str" && v.lf.kind != "obj" }
	P := filter(leaves, func(v *value) bool { return v.lf.core })
	notP := filter(leaves, func(v *value) bool { return !v.lf.core })
	scalars := filter(leaves, isScalar)
	scalarsNotP := filter(notP, isScalar)
	var jobs []job
	for _, op := range u.ops {
		switch {
		case op.Ar == 1:
			jobs = append(jobs, job{op: op, A: leaves})
		case op.Fam == "compound":
			jobs = append(jobs, job{op: op, A: scalars, B: scalars}, job{op: op, A: filter(P, func(v *value) bool { return !isScalar(v) }), B: P}, job{op: op, A: filter(P, isScalar), B: filter(P, func(v *value) bool { return !isScalar(v) })})
		default:
			jobs = append(jobs, job{op: op, A: leaves, B: P}, job{op: op, A: P, B: notP}, job{op: op, A: scalarsNotP, B: scalarsNotP})
		}
	}
	new1, ok := ex.runJobs(jobs, 1, collectAll, "depth1")
	new1 = append(consts, new1...)
	nums1 := filter(new1, func(v *value) bool { return v.m.K == nm.Number })
	strs1 := filter(new1, func(v *value) bool { return v.m.K == nm.String })
	ex.bounds["depth 1"] = fmt.Sprintf("%d operations: unary x all %d leaves; binary: %d scalars x scalars in full and all leaves x %d partner-pool leaves in both positions (complete=%v); %d new value representations (%d numbers, %d strings)",
		len(u.ops), len(leaves), len(scalars), len(P), ok, len(new1), len(nums1), len(strs1))
	complete = complete && ok
	if fn := os.Getenv("C05_DUMPVALS"); fn != "" {
		f, _ := os.Create(fn)
		for _, v := range new1 {
			fmt.Fprintf(f, "%d %x %q <- %s\n", v.key.tag, v.key.bits, v.key.s, v.desc())
		}
		f.Close()
	}
	ex.observe(new1, "depth1")

	// 4. argument positions: pool + every non-canonical number reached so far
	complete = runArgPositions(ex, leaves, new1) && complete

	// 5. level 2 (operands of depth 1 are the distinct value representations reached there)
	if ok {
		rep1 := representatives(new1, r.Pick(2, 3))
		strRep1, strRep2 := representatives(strs1, 1), representatives(strs1, 2)
		partners := P
		if r.Thorough() {
			partners = leaves
		}
		jobs = jobs[:0]
		for _, op := range u.ops {
			if !op.Deep {
				continue
			}
			if op.Ar == 1 {
				if r.Thorough() || stringRelevant(op) {
					jobs = append(jobs, job{op: op, A: new1})
				} else {
					jobs = append(jobs, job{op: op, A: nums1}, job{op: op, A: strRep1})
				}
				continue
			}
			if r.Thorough() {
				jobs = append(jobs, job{op: op, A: nums1, B: partners}, job{op: op, A: partners, B: nums1})
				jobs = append(jobs, job{op: op, A: strRep2, B: partners}, job{op: op, A: partners, B: strRep2})
				jobs = append(jobs, job{op: op, A: nums1, B: rep1}, job{op: op, A: rep1, B: nums1})
			} else {
				jobs = append(jobs, job{op: op, A: rep1, B: partners}, job{op: op, A: partners, B: rep1}, job{op: op, A: rep1, B: rep1})
			}
		}
		collect2 := collectNone
		if r.Thorough() {
			collect2 = collectCapped
		}
		new2, ok2 := ex.runJobs(jobs, 2, collect2, "depth2")
		if r.Thorough() {
			ex.bounds["depth 2"] = fmt.Sprintf("every deep operation; unary: all %d depth-1 values; binary: all %d numeric depth-1 values x (all %d leaves and %d class representatives of depth-1 values) in both positions, string-valued depth-1 results by class representative; complete=%v",
				len(new1), len(nums1), len(partners), len(rep1), ok2)
		} else {
			ex.bounds["depth 2"] = fmt.Sprintf("every deep operation; unary: all %d numeric depth-1 values (string-to-number operations: all %d depth-1 values); binary: %d class representatives of depth-1 values x (%d partner-pool leaves and themselves) in both positions; complete=%v",
				len(nums1), len(new1), len(rep1), len(partners), ok2)
		}
		complete = complete && ok2
		if r.Thorough() && ok2 {
			ex.observe(new2, "depth2")
			complete = runLiterals(ex, true) && complete
			// 6. level 3 (pruned): class representatives of depth-2 values
			rep2 := representatives(new2, 3)
			nums2 := filter(new2, func(v *value) bool { return v.m.K == nm.Number })
			jobs = jobs[:0]
			for _, op := range u.ops {
				if !op.Deep {
					continue
				}
				if op.Ar == 1 {
					jobs = append(jobs, job{op: op, A: nums2})
					continue
				}
				jobs = append(jobs, job{op: op, A: rep2, B: P}, job{op: op, A: P, B: rep2}, job{op: op, A: rep2, B: rep1}, job{op: op, A: rep1, B: rep2})
			}
			_, ok3 := ex.runJobs(jobs, 3, collectNone, "depth3")
			ex.bounds["depth 3 (pruned)"] = fmt.Sprintf("unary deep operations on %d numeric depth-2 values (the first 40 reached of every representation class); binary deep operations on %d class representatives of depth-2 values x (partner pool + depth-1 representatives), both positions; complete=%v", len(nums2), len(rep2), ok3)
			complete = complete && ok3
		}
	}
	ex.flushFails("end")
	r.Set("bounds_completed", ex.bounds)
	r.Set("reachable_value_representations", len(ex.all))
	r.Exhaustive(complete)
	for i, v := range ex.all {
		if v.depth > 0 && (i%997 == 0) {
			r.Sample(map[string]interface{}{"expr": v.desc(), "value": v.m.Show(), "depth": v.depth})
		}
	}
}

// ---------- replay ----------

// evalExpr re-evaluates a derivation on w's runtime.
func (w *worker) evalExpr(e *Expr) (*value, error) {
	if e.Op == "" {
		i, ok := leafByName[e.Leaf]
		if !ok {
			return nil, fmt.Errorf("unknown leaf %q", e.Leaf)
		}
		return leafValue(w, i), nil
	}
	if strings.HasPrefix(e.Op, "const:") {
		for _, c := range constOps {
			if c.name == e.Op[6:] {
				v, err := w.rt.RunString(c.js)
				if err != nil {
					return nil, err
				}
				k, m := classify(v)
				return &value{key: k, v: v, m: m, num: nm.ToNumber(m), expr: e}, nil
			}
		}
		return nil, fmt.Errorf("unknown constant %q", e.Op)
	}
	op := opByName[e.Op]
	if op == nil || len(e.Args) != op.Ar {
		return nil, fmt.Errorf("unknown op %q", e.Op)
	}
	args := make([]*value, 2)
	for i, a := range e.Args {
		v, err := w.evalExpr(a)
		if err != nil {
			return nil, err
		}
		args[i] = v
	}
	got := w.apply(op, args[0], args[1])
	if got.thrown != "" {
		return nil, fmt.Errorf("inner expression %s throws %s", e.String(), got.thrown)
	}
	nv := &value{key: got.key, v: got.val, m: got.m, num: nm.ToNumber(got.m), expr: e}
	if got.key.tag == tImported {
		nv.v, nv.gs = nil, got.val.String()
	}
	return nv, nil
}

// replayCase re-executes one recorded case on a fresh runtime and returns its failures.
func replayCase(r *core.Run, c Case) [][2]string {
	w := newWorker(r)
	switch c.Kind {
	case "op":
		op := opByName[c.Expr.Op]
		if op == nil {
			return [][2]string{{"replay|bad", "unknown op " + c.Expr.Op}}
		}
		args := make([]*value, 2)
		for i, a := range c.Expr.Args {
			v, err := w.evalExpr(a)
			if err != nil {
				return [][2]string{{"replay|bad", err.Error()}}
			}
			args[i] = v
		}
		got := w.apply(op, args[0], args[1])
		exp, modelled := w.model(op, args[0], args[1])
		return w.judge(op, args[0], args[1], got, exp, modelled)
	case "observe":
		v, err := w.evalExpr(c.Expr)
		if err != nil {
			return [][2]string{{"replay|bad", err.Error()}}
		}
		var others []*value
		for _, a := range c.Args {
			o, err := w.evalExpr(a)
			if err != nil {
				return [][2]string{{"replay|bad", err.Error()}}
			}
			others = append(others, o)
		}
		return w.observeOne(v, others)
	case "argpos":
		v, err := w.evalExpr(c.Arg)
		if err != nil {
			return [][2]string{{"replay|bad", err.Error()}}
		}
		for i := range positions {
			if positions[i].name == c.Pos {
				return w.checkPosition(i, v)
			}
		}
		return [][2]string{{"replay|bad", "unknown position " + c.Pos}}
	case "const":
		return checkConst(w, c.Name)
	case "literal":
		return checkLiteral(w, c.Text, c.Name)
	case "gokind":
		return checkGoKind(w, c.Name)
	}
	return [][2]string{{"replay|bad", "unknown case kind " + c.Kind}}
}

func replay(r *core.Run, raw json.RawMessage) {
	var c Case
	if err := json.Unmarshal(raw, &c); err != nil {
		r.Violation("replay|bad", err.Error(), nil)
		return
	}
	r.Eval(1)
	for _, f := range replayCase(r, c) {
		if c.Sig == "" || f[0] == c.Sig || strings.HasPrefix(f[0], "replay|") {
			r.Violation(f[0], f[1], c)
		}
	}
}
