// Package c03 decides C03 (a Runtime stays consistent and reusable after every kind of abrupt outcome).
package c03

import (
	"encoding/json"
	"fmt"
	"runtime/debug"
	"strings"
	"sync/atomic"
	"time"

	"verif/core"
)

func init() {
	core.Register(&core.Check{
		ID:    "C03",
		Level: "fault_enumeration",
		Rule: "evaluations = (history, fault position) pairs: a history is a sequence of API calls (entry kind x program shape) on one live Runtime, " +
			"each call under no fault or under one fault of the alphabet {JS throw / Go panic with a Value / with an *Exception / with a GoError / with a foreign Go value at the k-th log probe, " +
			"Value panic at the k-th host native, call-depth limit L in 0..64} (thorough: also two faults in one call and two faulted calls per history); " +
			"every log position k of the unfaulted execution and every L is enumerated for every shape x entry kind; " +
			"plus histories of top-level declaration scripts (every script of <= 2, thorough 3, var/let/const/class/function/property/preventExtensions items over two names x every probe position) " +
			"searched to depth 2 (thorough: closure) over the states of the global environment, where the failing call is rejected by GlobalDeclarationInstantiation or aborted in its body; " +
			"a pair is non-trivial when the fault really fired inside the call (the probe threw / StackOverflowError was raised / the script was rejected at instantiation)",
		Run:    run,
		Replay: replay,
	})
}

// Call is one transition of a history.
type Call struct {
	Entry  string  `json:"entry"`
	Shape  string  `json:"shape"`
	Faults []Fault `json:"faults,omitempty"`
}

func (c Call) String() string {
	var fs []string
	for _, f := range c.Faults {
		fs = append(fs, f.String())
	}
	if len(fs) == 0 {
		return c.Entry + ":" + c.Shape
	}
	return c.Entry + ":" + c.Shape + "[" + strings.Join(fs, ",") + "]"
}

// Case is what a replay file holds: a history executed on a brand-new runtime; every call is judged.
type Case struct {
	Part    string `json:"part"`
	History []Call `json:"history,omitempty"`
	// Scripts: part "globals": a history of top-level declaration scripts on a brand-new light runtime
	Scripts []GCall `json:"scripts,omitempty"`
	Detail  string  `json:"detail,omitempty"`
}

type failure struct{ sig, what string }

// partBudget: end of the current part's share of the wall-clock budget.
type partBudget struct {
	end time.Time
	cut atomic.Bool
}

var cur = &partBudget{}

// expired: the run's budget or the current part's share of it is used up.
func expired(r *core.Run) bool {
	if r.Expired() {
		return true
	}
	if time.Now().After(cur.end) {
		cur.cut.Store(true)
		return true
	}
	return false
}

func run(r *core.Run) {
	r.Assume("the host natives of the harness propagate errors the documented way (panic(err) for an error returned by a Callable / RunProgram); a native that swallows an uncatchable error is outside the property")
	r.Assume("a generator or async function whose body was aborted by an uncatchable error is not resumed afterwards (ECMAScript does not define its state); the stateful shapes replace such a generator before its next use")
	r.Assume("entry kinds under Runtime.Try (Object.Get, ToNumber, ForOf, an ExportTo'd func without error result) are followed by an empty RunProgram so that pending promise jobs run, as the next host call would do")
	debug.SetGCPercent(400) // thousands of short-lived runtimes: trade memory (small here) for fewer collections
	secs := map[string]float64{}
	type part struct {
		name   string
		f      func(*core.Run) bool
		weight float64
	}
	parts := []part{{"regression", regression, 0}, {"globals", globalsPart, 1}, {"single", single, 3}, {"histories", histories, 3}}
	if r.Thorough() {
		parts = append(parts, part{"pairs", pairs, 4})
	}
	complete := true
	var cutParts []string
	for i, p := range parts {
		// thorough tier: every part gets its share of what is left of the budget, so that a capped run has still
		// executed every part (each part enumerates its bounds upward); quick tier: no shares, the parts must complete
		cur = &partBudget{end: r.Deadline}
		if r.Thorough() && p.weight > 0 {
			rest := 0.0
			for _, q := range parts[i:] {
				rest += q.weight
			}
			cur.end = time.Now().Add(time.Duration(float64(time.Until(r.Deadline)) * p.weight / rest))
		}
		t0 := time.Now()
		ok := p.f(r)
		secs[p.name] = float64(int(time.Since(t0).Seconds()*10)) / 10
		if !ok || cur.cut.Load() {
			complete = false
			cutParts = append(cutParts, p.name)
		}
	}
	if len(cutParts) > 0 {
		r.Set("parts_cut_by_budget", cutParts)
	}
	r.Set("part_seconds", secs)
	r.Exhaustive(complete)
}

func replay(r *core.Run, raw json.RawMessage) {
	var c Case
	if err := json.Unmarshal(raw, &c); err != nil {
		r.Violation("replay|bad", err.Error(), nil)
		return
	}
	if len(c.Scripts) > 0 {
		for _, f := range gJudgeHistory(c.Scripts, r) {
			r.Violation(f.sig, f.what, c)
		}
		return
	}
	if c.Part == "route" && len(c.History) == 1 && len(c.History[0].Faults) == 1 {
		// differential between the native failure and the JS throw at the same probe
		r.Eval(2)
		if k := c.History[0]; routeFails(k) {
			r.Violation("route-differs|"+k.Faults[0].Kind+"|"+boundary(k.Entry)+"|"+family(k.Shape), c.Detail, c)
		}
		return
	}
	for _, f := range judgeHistory(c.History, r) {
		r.Violation(f.sig, f.what, c)
	}
}

func dedupe(fs []failure) []failure {
	seen := map[string]bool{}
	var out []failure
	for _, f := range fs {
		if !seen[f.sig] {
			seen[f.sig] = true
			out = append(out, f)
		}
	}
	return out
}

func short(s string) string {
	if len(s) > 400 {
		return s[:400] + "…"
	}
	return s
}

func sprintLog(l []string) string { return fmt.Sprintf("[%s]", strings.Join(l, " ")) }
