// Package c03 decides C03 (a Runtime stays consistent and reusable after every kind of abrupt outcome).
package c03

import (
	"encoding/json"
	"fmt"
	"runtime/debug"
	"strings"
	"time"

	"verif/core"
)

func init() {
	core.Register(&core.Check{
		ID:    "C03",
		Level: "fault_enumeration",
		Rule: "evaluations = (history, fault position) pairs: a history is a sequence of API calls (entry kind x program shape) on one live Runtime, " +
			"each call under no fault or under one fault of the alphabet {JS throw / Go panic with a Value / with an *Exception / with a GoError / with a foreign Go value at the k-th log probe, " +
			"Value panic at the k-th host native, call-depth limit L in 0..64} (thorough: also two faults in one call and two faulted calls per history); " +
			"every log position k of the unfaulted execution and every L is enumerated for every shape x entry kind; " +
			"a pair is non-trivial when the fault really fired inside the call (the probe threw / StackOverflowError was raised)",
		Run:    run,
		Replay: replay,
	})
}

// Call is one transition of a history.
type Call struct {
	Entry  string  `json:"entry"`
	Shape  string  `json:"shape"`
	Faults []Fault `json:"faults,omitempty"`
}

func (c Call) String() string {
	var fs []string
	for _, f := range c.Faults {
		fs = append(fs, f.String())
	}
	if len(fs) == 0 {
		return c.Entry + ":" + c.Shape
	}
	return c.Entry + ":" + c.Shape + "[" + strings.Join(fs, ",") + "]"
}

// Case is what a replay file holds: a history executed on a brand-new runtime; every call is judged.
type Case struct {
	Part    string `json:"part"`
	History []Call `json:"history"`
	Detail  string `json:"detail,omitempty"`
}

type failure struct{ sig, what string }

func run(r *core.Run) {
	r.Assume("the host natives of the harness propagate errors the documented way (panic(err) for an error returned by a Callable / RunProgram); a native that swallows an uncatchable error is outside the property")
	r.Assume("a generator or async function whose body was aborted by an uncatchable error is not resumed afterwards (ECMAScript does not define its state); the stateful shapes replace such a generator before its next use")
	r.Assume("entry kinds under Runtime.Try (Object.Get, ToNumber, ForOf, an ExportTo'd func without error result) are followed by an empty RunProgram so that pending promise jobs run, as the next host call would do")
	debug.SetGCPercent(400) // thousands of short-lived runtimes: trade memory (small here) for fewer collections
	secs := map[string]float64{}
	timed := func(name string, f func(*core.Run) bool) bool {
		t0 := time.Now()
		ok := f(r)
		secs[name] = float64(int(time.Since(t0).Seconds()*10)) / 10
		return ok
	}
	complete := timed("regression", regression)
	complete = timed("single", single) && complete
	complete = timed("histories", histories) && complete
	if r.Thorough() {
		complete = timed("pairs", pairs) && complete
	}
	r.Set("part_seconds", secs)
	r.Exhaustive(complete)
}

func replay(r *core.Run, raw json.RawMessage) {
	var c Case
	if err := json.Unmarshal(raw, &c); err != nil {
		r.Violation("replay|bad", err.Error(), nil)
		return
	}
	for _, f := range judgeHistory(c.History, r) {
		r.Violation(f.sig, f.what, c)
	}
}

func dedupe(fs []failure) []failure {
	seen := map[string]bool{}
	var out []failure
	for _, f := range fs {
		if !seen[f.sig] {
			seen[f.sig] = true
			out = append(out, f)
		}
	}
	return out
}

func short(s string) string {
	if len(s) > 400 {
		return s[:400] + "…"
	}
	return s
}

func sprintLog(l []string) string { return fmt.Sprintf("[%s]", strings.Join(l, " ")) }
