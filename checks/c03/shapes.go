package c03

import (
	"strings"

	"verif/lib/shapes"
)

// extra are the C03-specific program shapes, loaded on top of the shared catalogue verif/lib/shapes (which is also
// swept by C15). They add (a) the callback-inside-a-built-in families of the property text, (b) shapes that keep
// reference / iterator / scope records live at the probe points, (c) a deep recursion so that every call-depth
// limit 0..64 really fires. Conventions are those of lib/shapes: every observable step calls log(tag); catch blocks,
// finally blocks and iterator return() methods log tags starting with "catch", "finally", "ret".
var extra = []shapes.Shape{
	sh("reduce", `function main(){ var s=[1,2,3].reduce(function(a,x){ log('rd'+x); return a+x }, 0); var t=[1,2].reduceRight(function(a,x){ log('rr'+x); return a+x }); log('red'+s+t); return s+t }`),
	sh("finders", `function main(){ var a=[1,2]; a.filter(function(x){ log('fi'+x); return true }); a.some(function(x){ log('so'+x); return false }); a.every(function(x){ log('ev'+x); return true }); a.find(function(x){ log('fd'+x); return x==2 }); a.findIndex(function(x){ log('fx'+x); return false }); a.flatMap(function(x){ log('fm'+x); return [x] }); return 'fs' }`),
	sh("jsoncb", `function main(){ var s=JSON.stringify({a:1,b:[1]}, function(k,v){ log('rep'+k); return v }); var p=JSON.parse('{"a":[1,2]}', function(k,v){ log('rev'+k); return v }); JSON.stringify({get g(){ log('jg'); return 1 }, d:{toJSON(){ log('tojson2'); return {} }}}); log('js'+s.length); return 'js' }`),
	sh("setmap", `function main(){ new Set([1,2]).forEach(function(x){ log('sf'+x) }); new Int8Array([3,1,2]).sort(function(a,b){ log('tc'); return a-b }); new Int8Array([1,2]).map(function(x){ log('tm'+x); return x }); Array.from({length:2}, function(v,i){ log('al'+i); return i }); 'aXbX'.replaceAll('X', function(){ log('ra'); return 'y' }); return 'sm' }`),
	sh("toprim", `function main(){ var n=0; var o={[Symbol.toPrimitive](h){ log('tp'+h+(n++)); return 1 }}; var a=+o; var b=`+"`${o}`"+`; var c=o<2; var d=(o==1); var e=({1:'x'})[o]; var f=Number(o)+String(o); var g=[1,2].indexOf(1, o); 'abc'.slice(o); Math.max(o, o); log('tpr'+a+b+c+d+e); return f }`),
	sh("propkey", `function main(){ var ko={toString(){ log('kts'); return 'kk' }}; var o={[(log('k1'),'a')]:(log('v1'),1), [ko]:(log('v2'),2)}; class PK { [(log('ck'),'m')](){ return 1 } static [ko](){ return 2 } } var x=o[ko]; o[ko]=3; delete o[ko]; (ko in o); log('pk'+x); return Object.keys(o).join() }`),
	sh("proxy2", `function main(){ var h={ set(t,k,v){ log('trap-set'); t[k]=v; return true }, deleteProperty(t,k){ log('trap-del'); return delete t[k] }, defineProperty(t,k,d){ log('trap-def'); return Reflect.defineProperty(t,k,d) }, getOwnPropertyDescriptor(t,k){ log('trap-gopd'); return Reflect.getOwnPropertyDescriptor(t,k) }, getPrototypeOf(t){ log('trap-gpo'); return null }, apply(t,th,a){ log('trap-apply'); return 1 }, construct(t,a){ log('trap-construct'); return {} }, ownKeys(t){ log('trap-ownkeys'); return Reflect.ownKeys(t) } };
var p=new Proxy({}, h); p.x=1; Object.defineProperty(p,'y',{value:2,configurable:true,enumerable:true}); Object.getOwnPropertyDescriptor(p,'x'); for (var k in p) log('forin'+k); Object.assign({}, p); delete p.x; Object.getPrototypeOf(p); var fp=new Proxy(function(){}, h); fp(); new fp(); return 'p2' }`),
	sh("iterclose", `function main(){ try { for (var v of mkiter('c',3)) { log('bc'+v); if (v==1) throw 5 } } catch (e) { log('catch-ic'+e) } try { var [a]=mkiter('k',2); log('ic2') } finally { log('finally-ic') } (function(){ for (var w of mkiter('r',2)) { log('br'+w); return w } })(); return 'ic' }`),
	sh("iterbuiltins", `function main(){ new Map(mkiter2('mp',[[1,2],[3,4]])); Object.fromEntries(mkiter2('oe',[['a',1]])); new WeakSet(mkiter2('ws',[{}])); Promise.all(mkiter2('pa',[1,2])).then(function(v){ log('pall'+v.length) }); Promise.race(mkiter2('pr',[1])).then(function(v){ log('prace'+v) }); new Int8Array(mkiter2('ta',[1,2])); log('ib'); return 'ib' }
function mkiter2(tag,arr){ return { [Symbol.iterator](){ var i=0; return { next(){ log(tag+'next'+i); return i<arr.length?{value:arr[i++],done:false}:{done:true} }, return(){ log('ret'+tag); return {} } } } } }`),
	sh("promises", `function main(){ Promise.resolve(1).finally(function(){ log('pfinally') }).then(function(v){ log('pthen'+v) }); Promise.reject(2).catch(function(e){ log('pcatch'+e); throw 3 }).then(null, function(e){ log('prej'+e) }); new Promise(function(res,rej){ log('pexec'); rej(4) }).then(null,function(e){ log('prej'+e); return { then(r){ log('thenable2'); r(6) } } }).then(function(v){ log('pchain'+v) }); Promise.allSettled([1]).then(function(){ log('psettled') }); log('psync'); return 'pr' }`),
	sh("asyncchain", `async function ac1(n){ try { log('ac1-'+n); await null; if (n>0) return await ac1(n-1); log('ac1-bottom'); return 0 } finally { log('finally-ac'+n) } }
async function ac2(){ for (var v of mkiter('aw',2)) { log('aw'+v); await {then(r){ log('thenable-aw'); r(v) }} } log('ac2-end'); var f=async()=>{ log('arrow'); await 0; log('arrow2') }; await f(); return 'ac2' }
function main(){ ac1(1).then(function(v){ log('ac-done'+v) }); ac2().then(function(v){ log(v) }, function(){ log('ac2-fail') }); return 'ac' }`),
	sh("symbols", `function main(){ var hi={[Symbol.hasInstance](v){ log('hasinst'); return true }}; var r1=({}) instanceof hi; class SA extends Array { static get [Symbol.species](){ log('species'); return Array } } var sa=new SA(1,2,3); sa.map(function(x){ log('sm'+x); return x }); sa.slice(0); var ts={get [Symbol.toStringTag](){ log('tstag'); return 'T' }}; var s=Object.prototype.toString.call(ts); var cs={get [Symbol.isConcatSpreadable](){ log('spreadable'); return false }}; [].concat(cs); log('sy'+r1+s); return 'sy' }`),
	sh("regexp", `function main(){ var re=/a/g; re.exec=function(s){ log('exec'); return null }; 'aa'.replace(re,'b'); re.test('a'); 'ab'.split({[Symbol.split](s,l){ log('symsplit'); return [] }}); 'abc'.replace(/b/, function(m){ log('rf'+m); return m }); var li={valueOf(){ log('lastIndex'); return 0 }}; var r2=/b/y; r2.lastIndex=li; r2.test('b'); 'x'.match({[Symbol.match](){ log('symmatch'); return null }}); [...'ab'.matchAll(/./g)].forEach(function(m){ log('ma'+m[0]) }); return 're' }`),
	sh("accessors", `function main(){ var src={get a(){ log('ga'); return 1 }, get b(){ log('gb'); return 2 }}; Object.assign({}, src); var c={...src}; Object.entries(src); Object.defineProperties({}, {x:{get value(){ log('gval'); return 1 }}}); Array.prototype.slice.call({length:{valueOf(){ log('len'); return 1 }}, get 0(){ log('g0'); return 0 }}); var {a, ...rest}=src; Object.freeze(new Proxy({},{preventExtensions(t){ log('trap-pe'); return Reflect.preventExtensions(t) }})); log('ac'+c.a); return 'ac' }`),
	sh("classes", `class CA { constructor(){ log('a-ctor') } am(){ log('am'); return 1 } static sm(){ log('sm'); return 2 } }
class CB extends CA { #p=(log('priv'),1); q=(log('pub'),2); static { try { log('sblock') } finally { } } constructor(){ log('b0'); try { super(); log('b1') } finally { log('finally-cb') } } get x(){ log('gx'); return this.#p } #pm(){ log('pm'); return super.am() } run(){ return this.#pm()+CB.sm() } static sm(){ log('bsm'); return super.sm() } }
function main(){ var b=new CB(); var r=b.x+b.run(); log('cl'+r); return Reflect.construct(CA, [], CB) instanceof CB }`),
	sh("finallyflow", `function ff1(){ try { log('f1'); return 1 } finally { log('finally-f1') } }
function ff2(){ for (var i=0;i<2;i++){ try { log('f2'+i); continue } finally { log('finally-f2'); if (i==1) break } } return 2 }
function ff3(){ try { try { throw 1 } finally { log('finally-f3a') } } catch (e) { log('catch-f3'); try { throw 2 } catch (e2) { log('catch-f3b') } finally { log('finally-f3b') } } return 3 }
function ff4(){ L: try { log('f4'); break L } finally { log('finally-f4'); } try { return 4 } finally { try { log('finally-f4b') } finally { log('finally-f4c') } } }
function main(){ return ff1()+ff2()+ff3()+ff4() }`),
	sh("defaults", `function fd(a=(log('d1'),1), {b=(log('d2'),2)}={}, [c=(log('d3'),3)]=mkiter('q',1), ...r){ log('dbody'+a+b+c); return a+b+c }
function main(){ var {x=(log('d4'),4), y:{z=(log('d5'),5)}={}}={}; var f=(p=(log('d6'),6))=>p; return fd()+fd(1,{b:2},[3],4)+x+z+f() }`),
	sh("closures", `function main(){ var fns=[]; for (let i=0;i<2;i++){ log('it'+i); fns.push(function(){ log('cl'+i); return i }) } { let blk=1; try { log('blk'); fns.push(function(){ return blk }) } finally { log('finally-blk') } } switch (1) { case 1: let sw=2; log('sw'); fns.push(function(){ return sw }) } try { throw 1 } catch (ce) { log('catch-cl'); fns.push(function(){ return ce }) } var s=0; for (var f of fns) s+=f(); return s }`),
	sh("withrefs", `function main(){ var o={p:1,q:2}; var hs=0; var px=new Proxy(o,{has(t,k){ if (typeof k=='string') log('has'+k); return k in t }}); with (px) { p=(log('rhs1'),5); q+=(log('rhs2'),1); var t=typeof zz; delete q; [p]=[(log('rhs3'),7)]; for (p of mkiter('wz',1)) log('wfor'+p) } log('wr'+o.p); return o.p }`),
	sh("dynrefs", `function main(){ eval(''); var a=1; a=(log('ra'),2); a+=(log('rb'),1); [a]=[(log('rc'),3)]; ({a}={a:(log('rd'),4)}); for (a of mkiter('z',1)) log('re'+a); a++; try { undef1=(log('ru'),1); log('ru2'+undef1); delete globalThis.undef1 } finally { log('finally-dr') } return a }`),
	sh("deeprec", `function rec2(n){ if (n==0) { log('bottom2'); return 0 } if (n%16==0) { try { log('lvl'+n); return 1+rec2(n-1) } finally { log('finally-lvl'+n) } } return 1+rec2(n-1) }
function main(){ try { return rec2(70) } catch (e) { log('catch-deep') } finally { log('finally-deep') } }`),
	sh("spreadcalls", `function sc(){ log('sc'+arguments.length); return arguments.length } class SC0 { constructor(...a){ log('sc0'+a.length) } } class SC1 extends SC0 { constructor(...a){ super(...a, ...mkiter('su',1)) } }
function main(){ var o={m:sc}; var r=sc(...mkiter('x',2))+o.m(1,...mkiter('y',1)); new SC1(...mkiter('w',1)); o?.m?.(...mkiter('oc',1)); var u; u?.m(...mkiter('no',1)); o?.[(log('ock'),'m')]?.((log('oca'),1)); return r }`),
	sh("globalacc", `Object.defineProperty(globalThis,'GA',{get(){ log('gget'); return 1 }, set(v){ log('gset') }, configurable:true});
function main(){ var x=GA; GA=2; var t=typeof GA; GA+=1; GA++; log('gacc'+x+t); return x }`),
	sh("tostrings", `function main(){ var e1={toString(){ log('ets1'); return 'a' }}, e2={toString(){ log('ets2'); return 'b' }}; var s=[e1,[e2,e1],e2].join('-'); var t=String([e1])+[e2]; var err=new Error({toString(){ log('emsg'); return 'm' }}); var l=[e1].toLocaleString(); ''.concat(e1,e2); 'x'.padStart(3,e1); parseInt(e2); log('ts'+s+t); return s }`),
	sh("sortnested", `function main(){ var a=[2,1,3].sort(function(x,y){ log('cmp1'); return callback(function(){ log('cb-in-cmp'); var b=[2,1].sort(function(p,q){ log('cmp2'); return p-q }); return runNested("log('nr-in-cmp'); "+(x-y)) }) }); log('sn'+a.join()); return 'sn' }`),
	sh("gendelegates", `function* gd1(){ try { log('gd1'); yield 1; yield 2 } finally { log('finally-gd1') } }
function* gd2(){ try { yield* gd1() } finally { log('finally-gd2') } }
function main(){ var [a]=gd2(); log('gda'+a); var it=gd2(); it.next(); try { it.throw(8) } catch (e) { log('catch-gd'+e) } var it2=gd2(); it2.next(); for (var v of it2) { log('gdv'+v); break } var s=[...gd1()].length; return s }`),
	sh("paraminit", `function* gdp(a=(log('gdp'),1)){ try { yield a } finally { log('finally-gdp') } }
async function adp(a=(log('adp'),2)){ log('adp-body'); await null; return a }
function main(){ var it; try { it=gdp(); log('gdp-made'); it.next(); it.return() } catch (e) { log('catch-pi') } adp().then(function(v){ log('adp'+v) }, function(e){ log('adp-rej') }); return 'pi' }`),
	sh("ctorreturn", `function CR(){ log('cr'); this.a=1; return hostGet({get o(){ log('cr-getter'); return {b:2} }}, 'o') } class CD extends CR { constructor(){ var r=super(); log('cd'+r.b) } }
function main(){ var x=new CR(); var y=new CD(); var z=new (CR.bind(null))(); var w=Reflect.construct(CR, [], CD); return x.b+y.b+z.b+w.b }`),
}

// scripts: shapes whose Src is top-level script code (no function around it), run only by the entry kind "script"
// (a top-level RunProgram). Operand-stack leaks of an abrupt path are hidden by a function return but not here.
// They use helpers of the other shapes (mkiter, gen, hg, CF, tag); only var declarations, so that they can be re-run.
var scripts = []shapes.Shape{
	sh("S_try", `log('s1'); try { log('s2'); try { throw 1 } catch (se) { log('catch-s') } finally { log('finally-s') } } finally { log('finally-s2') } log('s3'); 'st'`),
	sh("S_iter", `for (var sv of mkiter('sa',2)) { log('sv'+sv); if (sv==1) break } var [sx,sy]=mkiter('sd',3); [...mkiter('ss',1)]; Math.max(...mkiter('sm',1)); log('s-end'+sx+sy); 'si'`),
	sh("S_gen", `var sit=gen(); log('n'+sit.next().value); sit.next('v'); log('r'+sit.return(1).value); for (var sg of gen()) { log('sg'+sg); break } 'sg'`),
	sh("S_async", `async function saf(a=(log('sdef'),1)){ log('sa1'); await null; log('sa2') } saf(); saf(2).then(function(){ log('sthen') }); (async()=>{ log('arrow-s'); throw 1 })().catch(function(){ log('scatch-job') }); function* sgf(a=(log('sgdef'),1)){ yield a } sgf().next(); log('s-sync'); 'sa'`),
	sh("S_with", `var so={p:1}; with (so) { p=(log('sw1'),2); for (var si=0;si<2;si++){ try { if (si==0) continue; log('sw2') } finally { log('finally-sw') } } } switch (so.p) { case 2: log('case2'); default: log('dflt') } so?.q?.(log('never')); 'sw'`),
	sh("S_calls", `callback(function(){ log('sc1'); return hostGet(hg,'prop') }); [3,1,2].sort(function(a,b){ log('scmp'); return a-b }); new CF(); log('sc2'); tag`+"`x${(log('ssub'),1)}`"+`; runNested("log('snr')"); 'sc'`),
	sh("S_class", `{ class SK { static f=(log('sk-static'),1); #p=(log('sk-priv'),2); constructor(){ log('sk-ctor') } get v(){ return this.#p } } log('sk'+new SK().v) } var sq={[(log('sk-key'),'a')]:1}; 'sk'`),
}

func isScript(shape string) bool { return strings.HasPrefix(shape, "S_") }

// entriesOf: the entry kinds that apply to a shape.
func entriesOf(shape string) []string {
	if isScript(shape) {
		return []string{"script"}
	}
	return entries
}

func sh(name, src string) shapes.Shape { return shapes.Shape{Name: name, Src: src} }
