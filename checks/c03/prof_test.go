package c03

import (
	"testing"
)

func BenchmarkCase(b *testing.B) {
	getRef()
	w := newWorld()
	w.fresh = freshNone
	seq := []Call{fc("run", "tryfinally", "throw", 3), uc("run", "tryfinally"), sentinels[0], sentinels[5]}
	b.ResetTimer()
	for i := 0; i < b.N; i++ {
		for j, c := range seq {
			w.judgeCall(c, j == 0 || j == len(seq)-1)
		}
	}
}
