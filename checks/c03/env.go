package c03

import (
	"errors"
	"fmt"
	"math"
	"strings"

	"verif/lib/shapes"

	"github.com/dop251/goja"
)

// ---------------------------------------------------------------------------------------------------------------------
// faults

// Fault is one deviation injected into one API call.
//
//	throw   : the k-th invocation of log() executes a JavaScript `throw` statement (log is a script function then)
//	pval    : the k-th invocation of the Go native log() panics with a goja Value
//	pexc    : ... panics with a *goja.Exception
//	goerr   : ... panics with runtime.NewGoError(err) (what a reflect-wrapped func returning a Go error does)
//	foreign : ... panics with a non-goja Go value (an ordinary Go error)
//	nat     : the k-th host native other than log (callback, runNested, hostGet, hostForOf, hostThrow, runProg) panics
//	          with a goja Value on entry
//	limit   : the call runs under SetMaxCallStackSize(K)
type Fault struct {
	Kind string `json:"kind"`
	K    int    `json:"k"`
}

func (f Fault) String() string {
	if f.Kind == "" {
		return "none"
	}
	return fmt.Sprintf("%s@%d", f.Kind, f.K)
}

var logKinds = []string{"throw", "pval", "pexc", "goerr", "foreign"}

func isLogKind(k string) bool {
	switch k {
	case "throw", "pval", "pexc", "goerr", "foreign":
		return true
	}
	return false
}

func catchable(k string) bool {
	switch k {
	case "throw", "pval", "pexc", "goerr", "nat":
		return true
	}
	return false
}

type foreignPanic struct{ msg string }

func (f *foreignPanic) Error() string { return f.msg }

var errGo = errors.New("c03-go-error")

// ---------------------------------------------------------------------------------------------------------------------
// environment

type entryObjs struct {
	main    goja.Value
	call    goja.Callable
	ctor    goja.Constructor
	ctorVal goja.Value
	holder  *goja.Object
	coerce  *goja.Object
	iter    goja.Value
	thenFn  goja.Value
	expE    func() (goja.Value, error)
	expP    func() goja.Value
}

type env struct {
	*shapes.Env
	ents map[string]*entryObjs

	// fault control for the call in progress
	faults  []Fault
	logN    int
	natN    int
	fired   int
	firedAt int // len(Log) when the first fault fired

	payload   *goja.Object
	payloadEx *goja.Exception
	foreign   *foreignPanic

	logJS, logNative goja.Value
	jsLog            bool

	probeFn   goja.Callable
	mkEntry   goja.Callable
	thenStore goja.Callable
	reset     goja.Callable
	dump      goja.Callable
}

var allShapes []shapes.Shape
var shapeIdx = map[string]int{}

var progs = map[string]*goja.Program{}

func init() {
	allShapes = append(allShapes, shapes.Catalogue...)
	allShapes = append(allShapes, extra...)
	allShapes = append(allShapes, stateful...)
	allShapes = append(allShapes, scripts...)
	for i, s := range allShapes {
		if _, dup := shapeIdx[s.Name]; dup {
			panic("duplicate shape " + s.Name)
		}
		shapeIdx[s.Name] = i
		if isScript(s.Name) {
			progs["script/"+s.Name] = goja.MustCompile("script_"+s.Name+".js", s.Src, false)
			continue
		}
		progs["run/"+s.Name] = goja.MustCompile("run_"+s.Name+".js", "main_"+s.Name+"()", false)
		progs["nested/"+s.Name] = goja.MustCompile("nested_"+s.Name+".js", "callback(main_"+s.Name+")", false)
		progs["rerun/"+s.Name] = goja.MustCompile("rerun_"+s.Name+".js", "runProg('"+s.Name+"')", false)
	}
}

const helperSrc = `
var __fp = {fault: 1};
var __nl = __nlog;
function __jslog(t){ if (__nl(t) === true) throw __fp; }
function __mkEntry(m){ return {
  K: function K(){ this.v = m() },
  H: { get p(){ return m() } },
  V: { valueOf(){ return m() } },
  IT: { [Symbol.iterator](){ var n=0; return { next(){ return n++ ? {done:true} : {value:m(), done:false} }, return(){ log('ret-entry'); return {} } } } },
  TH: function(){ return m() }
} }
var __rv, __re, __rs = 0;
function __thenStore(p, f){ p.then(f).then(function(v){ __rv = v; __rs = 1 }, function(e){ __re = e; __rs = 2 }) }
let __pl = 0; const __pc = 'c'; var __pthen = 0;
function __probe(){
  var out = [];
  try { throw 7 } catch (e) { let z = e; out.push(z) }
  out.push(new Error('p').stack.split('\n').length);
  out.push(hostStackDepth());
  out.push(typeof log, __pc);
  function* g(){ try { yield 1; yield 2 } finally { out.push('gf') } }
  var it = g(); out.push(it.next().value); out.push(it.return(5).value);
  out.push(++__pl > 0);
  var [a, ...b] = [1, 2, 3]; out.push(a + b.length);
  out.push((function(){ return arguments.length })(1, 2));
  with ({w: 4}) { out.push(w) }
  Promise.resolve(1).then(function(v){ __pthen += v });
  (async function(){ await null; __pthen += 10 })();
  return out.join();
}
function __probe2(){ try { throw 8 } catch (e) { let z = e; return [z, new Error('q').stack.split('\n').length, hostStackDepth(), ++__pl > 0].join() } }
`

// setupProgs: the setup code of every shape (shared catalogue, extras, stateful), compiled once per process.
var setupProgs []*goja.Program

func init() {
	setupProgs = append(setupProgs, goja.MustCompile("helpers.js", helperSrc, false))
	for _, s := range allShapes {
		if !isScript(s.Name) {
			setupProgs = append(setupProgs, goja.MustCompile("shape_"+s.Name+".js", s.Src+"\nvar main_"+s.Name+" = main;", false))
		}
	}
}

// installNatives defines the host functions of verif/lib/shapes (same semantics as shapes.New, which compiles the whole
// catalogue on every call and is too slow for one runtime per failing case) plus the C03 additions.
func (e *env) installNatives() {
	r := e.R
	nat := func(name string) {
		if e.OnNative != nil {
			e.OnNative(name)
		}
	}
	r.Set("callback", func(call goja.FunctionCall) goja.Value {
		nat("callback")
		fn, ok := goja.AssertFunction(call.Argument(0))
		if !ok {
			panic(r.NewTypeError("not a function"))
		}
		v, err := fn(goja.Undefined())
		if err != nil {
			panic(err)
		}
		return v
	})
	r.Set("runNested", func(call goja.FunctionCall) goja.Value {
		nat("runNested")
		v, err := r.RunString(call.Argument(0).String())
		if err != nil {
			panic(err)
		}
		return v
	})
	r.Set("hostGet", func(call goja.FunctionCall) goja.Value {
		nat("hostGet")
		return call.Argument(0).ToObject(r).Get(call.Argument(1).String())
	})
	r.Set("hostForOf", func(call goja.FunctionCall) goja.Value {
		nat("hostForOf")
		n := 0
		r.ForOf(call.Argument(0), func(v goja.Value) bool { n++; return true })
		return r.ToValue(n)
	})
	r.Set("hostThrow", func(call goja.FunctionCall) goja.Value {
		nat("hostThrow")
		panic(r.ToValue(call.Argument(0).String()))
	})
	r.Set("hostStackDepth", func(call goja.FunctionCall) goja.Value {
		return r.ToValue(len(r.CaptureCallStack(0, nil)))
	})
	// runProg(name): re-entrant RunProgram of a pre-compiled program from inside a native function
	r.Set("runProg", func(call goja.FunctionCall) goja.Value {
		nat("runProg")
		v, err := r.RunProgram(progs["run/"+call.Argument(0).String()])
		if err != nil {
			panic(err)
		}
		return v
	})
	vTrue := r.ToValue(true)
	r.Set("__nlog", func(call goja.FunctionCall) goja.Value {
		tag := call.Argument(0).String()
		e.Log = append(e.Log, tag)
		e.logN++
		for _, f := range e.faults {
			if f.K == e.logN && isLogKind(f.Kind) {
				if e.fired == 0 {
					e.firedAt = len(e.Log)
				}
				e.fired++
				switch f.Kind {
				case "throw":
					return vTrue
				case "pval":
					panic(e.payload)
				case "pexc":
					panic(e.payloadEx)
				case "goerr":
					panic(r.NewGoError(errGo))
				case "foreign":
					panic(e.foreign)
				}
			}
		}
		return goja.Undefined()
	})
	r.Set("log", r.Get("__nlog"))
}

func newEnv() *env {
	e := &env{Env: &shapes.Env{R: goja.New()}, ents: map[string]*entryObjs{}}
	r := e.R
	e.foreign = &foreignPanic{"c03-foreign-panic"}
	e.OnNative = func(string) {
		e.natN++
		for _, f := range e.faults {
			if f.Kind == "nat" && f.K == e.natN {
				if e.fired == 0 {
					e.firedAt = len(e.Log)
				}
				e.fired++
				panic(e.payload)
			}
		}
	}
	e.installNatives()
	for _, p := range setupProgs {
		if _, err := r.RunProgram(p); err != nil {
			panic(fmt.Sprintf("setup: %v", err))
		}
	}
	e.payload = r.Get("__fp").(*goja.Object)
	e.payloadEx = r.Try(func() { panic(e.payload) })
	e.logJS = r.Get("__jslog")
	e.logNative = r.Get("__nlog")
	e.probeFn, _ = goja.AssertFunction(r.Get("__probe"))
	e.thenStore, _ = goja.AssertFunction(r.Get("__thenStore"))
	e.reset, _ = goja.AssertFunction(r.Get("__reset"))
	e.dump, _ = goja.AssertFunction(r.Get("__dump"))
	e.mkEntry, _ = goja.AssertFunction(r.Get("__mkEntry"))
	e.setLog(true)
	e.Log = e.Log[:0]
	return e
}

// ent returns the per-shape objects the entry kinds need (created on first use).
func (e *env) ent(shape string) *entryObjs {
	if o := e.ents[shape]; o != nil {
		return o
	}
	r := e.R
	m := r.Get("main_" + shape)
	o := &entryObjs{main: m}
	o.call, _ = goja.AssertFunction(m)
	hv, err := e.mkEntry(goja.Undefined(), m)
	if err != nil {
		panic(err)
	}
	h := hv.(*goja.Object)
	o.ctorVal = h.Get("K")
	o.ctor, _ = goja.AssertConstructor(o.ctorVal)
	o.holder = h.Get("H").(*goja.Object)
	o.coerce = h.Get("V").(*goja.Object)
	o.iter = h.Get("IT")
	o.thenFn = h.Get("TH")
	if err := r.ExportTo(m, &o.expE); err != nil {
		panic(err)
	}
	if err := r.ExportTo(m, &o.expP); err != nil {
		panic(err)
	}
	e.ents[shape] = o
	return o
}

func (e *env) setLog(js bool) {
	e.jsLog = js
	if js {
		e.R.Set("log", e.logJS)
	} else {
		e.R.Set("log", e.logNative)
	}
}

// ---------------------------------------------------------------------------------------------------------------------
// entry kinds = the API-call alphabet of the histories

var entries = []string{
	"run",      // Runtime.RunProgram
	"call",     // Callable obtained by AssertFunction
	"nested",   // RunProgram -> native -> Callable (re-entrant call from a native function)
	"rerun",    // RunProgram -> native -> RunProgram (re-entrant RunProgram from a native function)
	"ctor",     // Constructor obtained by AssertConstructor
	"new",      // Runtime.New
	"export",   // Go func() (Value, error) obtained by ExportTo
	"try",      // Runtime.Try around a Go func() Value obtained by ExportTo (panics with the *Exception)
	"get",      // Runtime.Try around Object.Get of an accessor property
	"tonum",    // Runtime.Try around Value.ToNumber of an object with a script valueOf
	"forof",    // Runtime.Try around Runtime.ForOf over a script iterator whose next() runs the shape
	"resolver", // resolve function of Runtime.NewPromise; the shape runs as a promise reaction job
}

// one more entry kind, "script": top-level RunProgram of a shape that IS top-level code (see scripts in shapes.go).

// boundary names the Go-boundary wrapper an entry kind goes through (signature component).
func boundary(entry string) string {
	switch entry {
	case "run", "nested", "rerun", "script":
		return "RunProgram"
	case "call", "ctor", "export", "resolver":
		return "Callable"
	}
	return "Try"
}

// tryFamily: entry kinds that run under Runtime.Try at top level: an uncatchable error surfaces as a Go panic there and
// the job queue is only drained by the next RunProgram / Callable (the harness runs an empty "tick" program).
func tryFamily(entry string) bool {
	switch entry {
	case "new", "try", "get", "tonum", "forof":
		return true
	}
	return false
}

var tickProg = goja.MustCompile("tick.js", "0", false)

type outcome struct {
	Val   string
	Err   string
	Log   []string
	Fired int
	// FiredAt is the length of the log when the (first) fault fired (the entry at which it fired included)
	FiredAt int
	Idle    goja.VerifIdleState
	// NatN: number of host-native entries (callback, runNested, ...) during the call
	NatN int
	// AfterAbort: log entries produced by the job-draining tick of the Try family after the call proper ended with an
	// uncatchable error (code of the aborted call that still ran)
	AfterAbort []string
}

func (o *outcome) String() string {
	return fmt.Sprintf("val=%s err=%s log=%v", o.Val, o.Err, o.Log)
}

func valStr(v goja.Value) (s string) {
	if v == nil {
		return "<nil>"
	}
	defer func() {
		if x := recover(); x != nil {
			s = fmt.Sprintf("<String() panics: %v>", x)
		}
	}()
	if o, ok := v.(*goja.Object); ok {
		// do not run script code while rendering
		return "object:" + o.ClassName()
	}
	return v.String()
}

// classify renders what the host received in a canonical, payload-independent way.
func (e *env) classify(err error, pan interface{}) string {
	if pan != nil {
		if pan == interface{}(e.foreign) {
			return "panic:foreign"
		}
		if perr, ok := pan.(error); ok {
			return "panic:" + e.classify(perr, nil)
		}
		return fmt.Sprintf("panic:%T:%.80v", pan, pan)
	}
	if err == nil {
		return ""
	}
	if errors.Is(err, errGo) {
		// (an ExportTo'd func with an error result hands out the wrapped Go error itself)
		return "exc:goerr"
	}
	switch x := err.(type) {
	case *goja.Exception:
		v := x.Value()
		if v != nil && v.SameAs(e.payload) {
			if x == e.payloadEx {
				return "exc:payload" // the very *Exception that was thrown
			}
			return "exc:payload"
		}
		if errors.Is(err, errGo) {
			return "exc:goerr"
		}
		return "exc:" + strings.SplitN(x.Error(), "\n", 2)[0]
	case *goja.StackOverflowError:
		return "overflow"
	case *goja.InterruptedError:
		return "interrupted"
	}
	return fmt.Sprintf("%T:%v", err, err)
}

func idleOf(r *goja.Runtime) goja.VerifIdleState {
	st := goja.VerifIdle(r)
	st.PC = 0
	st.Args = 0
	return st
}

// exec performs one API call (entry kind applied to a shape) under the given faults.
func (e *env) exec(entry, shape string, faults ...Fault) *outcome {
	r := e.R
	var o *entryObjs
	if entry != "script" {
		o = e.ent(shape)
	}
	e.Log = e.Log[:0]
	e.faults = faults
	e.logN, e.natN, e.fired, e.firedAt = 0, 0, 0, 0
	js := true
	limit := -1
	for _, f := range faults {
		switch f.Kind {
		case "pval", "pexc", "goerr", "foreign":
			js = false
		case "limit":
			limit = f.K
		}
	}
	for _, f := range faults {
		if f.Kind == "throw" {
			js = true
		}
	}
	if js != e.jsLog {
		e.setLog(js)
	}
	if limit >= 0 {
		r.SetMaxCallStackSize(limit)
	}
	var v goja.Value
	var err error
	var pan interface{}
	var tickErr error
	func() {
		defer func() { pan = recover() }()
		switch entry {
		case "run", "nested", "rerun", "script":
			v, err = r.RunProgram(progs[entry+"/"+shape])
		case "call":
			v, err = o.call(goja.Undefined())
		case "ctor":
			var obj *goja.Object
			obj, err = o.ctor(nil)
			if err == nil {
				v = obj.Get("v")
			}
		case "new":
			var obj *goja.Object
			obj, err = r.New(o.ctorVal)
			if err == nil {
				v = obj.Get("v")
			}
		case "export":
			v, err = o.expE()
		case "try":
			if ex := r.Try(func() { v = o.expP() }); ex != nil {
				err = ex
			}
		case "get":
			if ex := r.Try(func() { v = o.holder.Get("p") }); ex != nil {
				err = ex
			}
		case "tonum":
			if ex := r.Try(func() { v = r.ToValue(o.coerce.ToFloat()) }); ex != nil {
				err = ex
			}
		case "forof":
			if ex := r.Try(func() {
				r.ForOf(o.iter, func(cur goja.Value) bool { v = cur; return true })
			}); ex != nil {
				err = ex
			}
		case "resolver":
			p, resolve, _ := r.NewPromise()
			if _, err = e.thenStore(goja.Undefined(), r.ToValue(p), o.thenFn); err != nil {
				return
			}
			err = resolve(1)
			switch r.Get("__rs").ToInteger() {
			case 1:
				v = r.Get("__rv")
			case 2:
				if err == nil {
					err = r.Try(func() { panic(r.Get("__re")) })
				}
			}
			r.Set("__rs", 0)
			r.Set("__rv", goja.Undefined())
			r.Set("__re", goja.Undefined())
		default:
			panic("bad entry " + entry)
		}
	}()
	nAbort := len(e.Log)
	if tryFamily(entry) {
		// an uncatchable error passes through Runtime.Try as a panic with that error
		if perr, ok := pan.(error); ok && pan != interface{}(e.foreign) {
			switch perr.(type) {
			case *goja.StackOverflowError, *goja.InterruptedError:
				err, pan = perr, nil
			}
		}
		// let the pending jobs run, as a host would by its next call
		func() {
			defer func() {
				if x := recover(); x != nil && pan == nil {
					pan = x
				}
			}()
			_, tickErr = r.RunProgram(tickProg)
		}()
	}
	if limit >= 0 {
		r.SetMaxCallStackSize(math.MaxInt32)
	}
	e.faults = nil
	res := &outcome{Log: append([]string{}, e.Log...), Fired: e.fired, FiredAt: e.firedAt, NatN: e.natN, Idle: idleOf(r)}
	if err == nil && pan == nil && tickErr == nil {
		res.Val = valStr(v)
		if entry == "tonum" && v != nil {
			res.Val = "num"
		}
	}
	res.Err = e.classify(err, pan)
	if res.Err == "" && tickErr != nil {
		// call + tick are one host-level operation: its error is the first error
		res.Err = e.classify(tickErr, nil)
	} else if (res.Err == "overflow" || res.Err == "interrupted") && len(e.Log) > nAbort {
		res.AfterAbort = append([]string{}, e.Log[nAbort:]...)
		res.Log = res.Log[:nAbort]
	}
	return res
}

var probeRun = goja.MustCompile("probe_run.js", "__probe2()", false)

// probe runs the fixed behavioural probe through a Callable and through RunProgram and renders what it saw.
func (e *env) probe() (s string) {
	defer func() {
		if x := recover(); x != nil {
			s += fmt.Sprintf("|panic:%v", x)
		}
	}()
	r := e.R
	if e.jsLog == false {
		e.setLog(true)
	}
	n := len(e.Log)
	r.Set("__pthen", 0)
	v, err := e.probeFn(goja.Undefined())
	s = fmt.Sprint("call:", v, "/", err, "/then=", r.Get("__pthen"))
	r.Set("__pthen", 0)
	v, err = r.RunProgram(probeRun)
	s += fmt.Sprint(" run:", v, "/", err, "/then=", r.Get("__pthen"))
	if len(e.Log) != n {
		s += fmt.Sprint(" LOGGED:", e.Log[n:])
	}
	s += fmt.Sprintf(" idle:%+v", idleOf(r))
	return
}

func eq(a, b []string) bool {
	if len(a) != len(b) {
		return false
	}
	for i := range a {
		if a[i] != b[i] {
			return false
		}
	}
	return true
}

func isPrefix(p, full []string) bool {
	return len(p) <= len(full) && eq(p, full[:len(p)])
}

// idleDelta renders the fields of the idle state that differ as name=got(want).
func idleDelta(want, got goja.VerifIdleState) string {
	var d []string
	f := func(n string, x, y interface{}) {
		if x != y {
			d = append(d, fmt.Sprintf("%s=%v (idle: %v)", n, y, x))
		}
	}
	f("sp", want.SP, got.SP)
	f("sb", want.SB, got.SB)
	f("prg==nil", want.PrgNil, got.PrgNil)
	f("len(callStack)", want.CallStack, got.CallStack)
	f("len(tryStack)", want.TryStack, got.TryStack)
	f("len(iterStack)", want.IterStack, got.IterStack)
	f("len(refStack)", want.RefStack, got.RefStack)
	f("stash==global", want.StashGlobal, got.StashGlobal)
	f("privEnv==nil", want.PrivEnvNil, got.PrivEnvNil)
	f("len(jobQueue)", want.Jobs, got.Jobs)
	f("interrupted", want.Interrupted, got.Interrupted)
	f("len(toStringStack)", want.ToStringStack, got.ToStringStack)
	f("curAsyncRunner==nil", want.AsyncRunnerNil, got.AsyncRunnerNil)
	f("newTarget==nil", want.NewTargetNil, got.NewTargetNil)
	return strings.Join(d, ", ")
}

func idleDiff(a, b goja.VerifIdleState) string {
	var d []string
	f := func(n string, x, y interface{}) {
		if x != y {
			d = append(d, n)
		}
	}
	f("sp", a.SP, b.SP)
	f("sb", a.SB, b.SB)
	f("prg", a.PrgNil, b.PrgNil)
	f("callStack", a.CallStack, b.CallStack)
	f("tryStack", a.TryStack, b.TryStack)
	f("iterStack", a.IterStack, b.IterStack)
	f("refStack", a.RefStack, b.RefStack)
	f("stash", a.StashGlobal, b.StashGlobal)
	f("privEnv", a.PrivEnvNil, b.PrivEnvNil)
	f("jobs", a.Jobs, b.Jobs)
	f("interrupted", a.Interrupted, b.Interrupted)
	f("toStringStack", a.ToStringStack, b.ToStringStack)
	f("asyncRunner", a.AsyncRunnerNil, b.AsyncRunnerNil)
	f("newTarget", a.NewTargetNil, b.NewTargetNil)
	return strings.Join(d, ",")
}

// classifyTags names the kinds of cleanup code in a list of log tags.
func classifyTags(tags []string) string {
	kinds := map[string]bool{}
	for _, t := range tags {
		switch {
		case strings.HasPrefix(t, "catch"):
			kinds["catch"] = true
		case strings.HasPrefix(t, "finally"):
			kinds["finally"] = true
		case strings.HasPrefix(t, "ret"):
			kinds["iterator-return"] = true
		default:
			kinds["code"] = true
		}
	}
	var ks []string
	for _, k := range []string{"catch", "finally", "iterator-return", "code"} {
		if kinds[k] {
			ks = append(ks, k)
		}
	}
	return strings.Join(ks, "+")
}
