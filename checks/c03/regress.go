package c03

import "verif/core"

func h(calls ...Call) []Call { return calls }

func fc(entry, shape, kind string, k int) Call {
	return Call{Entry: entry, Shape: shape, Faults: []Fault{{kind, k}}}
}

func uc(entry, shape string) Call { return Call{Entry: entry, Shape: shape} }

// corpus: minimal histories, each judged on a brand-new runtime before the sweeps: one per listed finding (so that the
// quick tier reaches every finding deterministically and first) and the smallest witnesses of the mutants tried.
var corpus = [][]Call{
	// StackOverflowError raised when the frame of a generator / async function is pushed (between generator.enter() and step())
	h(fc("call", "generator", "limit", 1)),
	h(fc("call", "async", "limit", 1)),
	h(fc("run", "generator", "limit", 2)),
	h(fc("run", "async", "limit", 2)),
	h(fc("nested", "generator", "limit", 3)),
	h(fc("nested", "async", "limit", 3)),
	h(fc("rerun", "generator", "limit", 4)),
	h(fc("rerun", "async", "limit", 4)),
	h(fc("try", "generator", "limit", 1)),
	h(fc("try", "async", "limit", 1)),
	h(fc("new", "generator", "limit", 2)),
	h(fc("new", "async", "limit", 2)),
	// a foreign Go panic leaves vm.prg / the job queue behind
	h(fc("run", "loop", "foreign", 1)),
	h(fc("run", "generator", "foreign", 1)),
	h(fc("run", "async", "foreign", 1)),
	h(fc("run", "async", "foreign", 2)),
	h(fc("run", "async", "foreign", 4)),
	h(fc("call", "async", "foreign", 2)),
	h(fc("new", "async", "foreign", 4)),
	// uncatchable error through Runtime.Try / Runtime.New at top level keeps the queued jobs
	h(fc("new", "asyncreject", "limit", 4)),
	h(fc("get", "async", "limit", 5)),
}

func regression(r *core.Run) bool {
	for _, hist := range corpus {
		if r.Expired() {
			return false
		}
		fails := judgeHistory(hist, r)
		for _, c := range hist {
			if len(c.Faults) > 0 {
				r.NontrivialN(1)
			}
		}
		for _, f := range fails {
			r.Violation(f.sig, f.what, Case{Part: "regression", History: hist, Detail: f.what})
		}
	}
	r.Set("regression_corpus", len(corpus))
	return true
}
