package c03

import "verif/core"

func h(calls ...Call) []Call { return calls }

func fc(entry, shape, kind string, k int) Call {
	return Call{Entry: entry, Shape: shape, Faults: []Fault{{kind, k}}}
}

func uc(entry, shape string) Call { return Call{Entry: entry, Shape: shape} }

// corpus: minimal histories, each judged on a brand-new runtime before the sweeps: one per listed finding (so that the
// quick tier reaches every finding deterministically and first) and the smallest witnesses of the mutants tried.
var corpus = [][]Call{
	// StackOverflowError raised when the frame of a generator / async function is pushed (between generator.enter() and step())
	h(fc("call", "generator", "limit", 1)),
	h(fc("call", "async", "limit", 1)),
	h(fc("run", "generator", "limit", 2)),
	h(fc("run", "async", "limit", 2)),
	h(fc("nested", "generator", "limit", 3)),
	h(fc("nested", "async", "limit", 3)),
	h(fc("rerun", "generator", "limit", 4)),
	h(fc("rerun", "async", "limit", 4)),
	h(fc("try", "generator", "limit", 1)),
	h(fc("try", "async", "limit", 1)),
	h(fc("new", "generator", "limit", 2)),
	h(fc("new", "async", "limit", 2)),
	h(fc("script", "S_gen", "limit", 1)),
	// a foreign Go panic leaves vm.prg / the job queue behind
	h(fc("run", "loop", "foreign", 1)),
	h(fc("run", "generator", "foreign", 1)),
	h(fc("run", "async", "foreign", 1)),
	h(fc("run", "async", "foreign", 2)),
	h(fc("run", "async", "foreign", 4)),
	h(fc("call", "async", "foreign", 2)),
	h(fc("new", "async", "foreign", 4)),
	// uncatchable error through Runtime.Try / Runtime.New at top level keeps the queued jobs
	h(fc("new", "asyncreject", "limit", 4)),
	h(fc("get", "async", "limit", 5)),
	// smallest witnesses of the mutants in /verif/mutants/C03-*.patch (they pass on the unchanged tree, apart from the
	// listed foreign-panic findings)
	h(fc("call", "yieldstar", "goerr", 4), uc("call", "yieldstar")),                    // generator.nextThrow forgets popTryFrame
	h(fc("call", "genreturn", "foreign", 2)), h(fc("run", "gendelegates", "limit", 4)), // aborted generator keeps converted finally frames
	h(fc("export", "withrefs", "goerr", 2)),                                 // restoreStacks keeps reference records
	h(fc("call", "classes", "goerr", 1)),                                    // handleThrow keeps privEnv
	h(fc("call", "deep", "limit", 5)), h(fc("call", "async", "foreign", 2)), // handleThrow keeps sp for uncatchable errors
	h(fc("new", "asyncchain", "limit", 5)), h(fc("call", "async", "foreign", 3)), // curAsyncRunner reset not deferred
	h(uc("script", "S_async"), fc("script", "S_async", "throw", 1)), // async start keeps sp
}

func gs(items ...gItem) GCall { return GCall{Items: items} }

// gcorpus: histories of top-level declaration scripts (part G); the failing script must leave nothing behind.
var gcorpus = [][]GCall{
	// `let a` ; then `let b; var a` is rejected (var/let conflict): b must not exist afterwards (seeded defect C03-r2)
	{gs(gItem{"let", 0}), gs(gItem{"let", 1}, gItem{"var", 0}), gs(gItem{"let", 1})},
	// ... `function b(){}; var a` rejected: the function must not exist
	{gs(gItem{"const", 0}), gs(gItem{"function", 1}, gItem{"var", 0})},
	// ... `class b {}; var a`
	{gs(gItem{"class", 0}), gs(gItem{"class", 1}, gItem{"var", 0})},
	// non-extensible global object: `let a; var b` is rejected with a TypeError, a must not exist
	{gs(gItem{"pe", 0}), gs(gItem{"let", 0}, gItem{"var", 1}), gs(gItem{"gset", 0})},
	{gs(gItem{"pe", 0}), gs(gItem{"let", 0}, gItem{"function", 1})},
	// function/let and let/let, let/var conflicts
	{gs(gItem{"let", 0}), gs(gItem{"let", 1}, gItem{"function", 0})},
	{gs(gItem{"let", 0}), gs(gItem{"var", 1}, gItem{"let", 0})},
	{gs(gItem{"var", 0}), gs(gItem{"function", 1}, gItem{"let", 0})},
	// body aborted: the bindings exist, the later ones stay uninitialised
	{{Items: []gItem{{"let", 0}, {"const", 1}}, Fault: &Fault{"throw", 2}}, gs(gItem{"var", 1})},
	{{Items: []gItem{{"class", 0}, {"function", 1}}, Fault: &Fault{"limit", 0}}, gs(gItem{"let", 0})},
}

func regression(r *core.Run) bool {
	for _, hist := range gcorpus {
		for _, f := range gJudgeHistory(hist, r) {
			r.Violation(f.sig, f.what, Case{Part: "globals", Scripts: hist, Detail: f.what})
		}
	}
	for _, hist := range corpus {
		if expired(r) {
			return false
		}
		fails := judgeHistory(hist, r)
		for _, c := range hist {
			if len(c.Faults) > 0 {
				r.NontrivialN(1)
			}
		}
		for _, f := range fails {
			r.Violation(f.sig, f.what, Case{Part: "regression", History: hist, Detail: f.what})
		}
	}
	r.Set("regression_corpus", len(corpus)+len(gcorpus))
	return true
}
