package c03

import (
	"fmt"

	"verif/lib/shapes"
)

// Stateful shapes: their effects persist in script globals between calls, so "the next run behaves exactly as on a
// runtime that executed only the completed effects" has content. Each has a small reference model in Go (below) that
// predicts, from the model state and the fault, the complete log, the result, the error class and the next state.
//
//	counter   : nested frames with finally blocks; every log entry is followed by one increment of the global CN
//	globalgen : a global generator advanced one step per call; GB is set while next() runs and cleared in a finally
//	            (so an uncatchable abort inside the generator body leaves GB set and the next call replaces the generator)
//	pending   : call 1 creates a pending promise with a reaction, call 2 resolves it and then recurses deeper
//	            (so a stack overflow after the resolution must drop the queued reaction job)
var stateful = []shapes.Shape{
	sh("counter", `var CN=0;
function cstep(n){ log('c'+n+':'+CN); CN=(CN+1)%5; if (n<2) { try { cstep(n+1) } finally { log('finally-c'+n); CN=(CN+1)%5 } } log('u'+n); CN=(CN+1)%5 }
function main(){ cstep(0); return CN }`),
	sh("globalgen", `function* ggen(){ for (var i=0;i<2;i++){ try { log('gg'+i); yield i } finally { log('finally-gg'+i) } } log('ggend') }
var GG=ggen(), GB=false;
function main(){ log('pre'); if (GB) { GG=ggen() } GB=true; var r; try { r=GG.next() } finally { GB=false } log('ggr'+r.done); if (r.done) GG=ggen(); return r.value }`),
	sh("pending", `var PR=null;
function pdeep(n,f){ if (n==0) return f(); return pdeep(n-1,f) }
function main(){ if (!PR) { log('mk'); var r0; new Promise(function(r){ r0=r }).then(function(v){ log('pp'+v) }); PR=r0; log('mk2'); return 'mk' }
 log('rs'); var r=PR; PR=null; r('x'); log('rs2'); pdeep(3, function(){ log('deep') }); log('rs3'); return 'rs' }
function __reset(){ CN=0; GG=ggen(); GB=false; PR=null }
function __dump(){ return CN+'|'+GB+'|'+(PR?1:0) }`),
}

func isStateful(shape string) bool {
	switch shape {
	case "counter", "globalgen", "pending":
		return true
	}
	return false
}

// mstate is the model of the script globals touched by the stateful shapes.
type mstate struct {
	CN int  // counter value (mod 5)
	G  int  // global generator: 0 not started, 1 suspended at yield 0, 2 suspended at yield 1, 3 completed
	GB bool // generator busy flag left set by an uncatchable abort
	PR bool // a pending promise with one reaction exists
}

func (m mstate) key() string { return fmt.Sprintf("%d|%d|%v|%v", m.CN, m.G, m.GB, m.PR) }

// dump is what __dump() must return in this state.
func (m mstate) dump() string {
	pr := 0
	if m.PR {
		pr = 1
	}
	return fmt.Sprintf("%d|%v|%d", m.CN, m.GB, pr)
}

type simThrow struct{} // a catchable exception travelling through the simulated script
type simStop struct{}  // an uncatchable condition: everything stops

// sim executes the model of one stateful shape.
type sim struct {
	m      mstate
	log    []string
	n      int
	faultK int // the k-th log call throws (catchable); 0 = never
	stopJ  int // the (stopJ+1)-th log call never happens (uncatchable abort); -1 = never
	jobs   []func()
}

func (s *sim) logf(tag string) {
	if s.stopJ >= 0 && s.n == s.stopJ {
		panic(simStop{})
	}
	s.n++
	s.log = append(s.log, tag)
	if s.n == s.faultK {
		panic(simThrow{})
	}
}

func (s *sim) inc() { s.m.CN = (s.m.CN + 1) % 5 }

func (s *sim) cstep(n int) {
	s.logf(fmt.Sprintf("c%d:%d", n, s.m.CN))
	s.inc()
	if n < 2 {
		func() {
			defer func() {
				x := recover()
				if _, stop := x.(simStop); stop {
					panic(x)
				}
				// finally block (runs for normal and catchable completion)
				s.logf(fmt.Sprintf("finally-c%d", n))
				s.inc()
				if x != nil {
					panic(x)
				}
			}()
			s.cstep(n + 1)
		}()
	}
	s.logf(fmt.Sprintf("u%d", n))
	s.inc()
}

// genNext models GG.next(): returns (value, done); a catchable exception inside the body completes the generator.
func (s *sim) genNext() (val string, done bool) {
	body := func(f func()) {
		defer func() {
			if x := recover(); x != nil {
				if _, stop := x.(simStop); !stop {
					s.m.G = 3
				}
				panic(x)
			}
		}()
		f()
	}
	// try { log('gg'+i); yield i } finally { log('finally-gg'+i) }
	enterIter := func(i int) {
		func() {
			defer func() {
				if x := recover(); x != nil {
					if _, stop := x.(simStop); !stop {
						s.logf(fmt.Sprintf("finally-gg%d", i))
					}
					panic(x)
				}
			}()
			s.logf(fmt.Sprintf("gg%d", i))
		}()
	}
	switch s.m.G {
	case 0:
		body(func() { enterIter(0) })
		s.m.G = 1
		return "0", false
	case 1:
		body(func() {
			s.logf("finally-gg0")
			enterIter(1)
		})
		s.m.G = 2
		return "1", false
	case 2:
		body(func() {
			s.logf("finally-gg1")
			s.logf("ggend")
		})
		s.m.G = 3
		return "undefined", true
	}
	return "undefined", true
}

func (s *sim) mainOf(shape string) string {
	switch shape {
	case "counter":
		s.cstep(0)
		return fmt.Sprint(s.m.CN)
	case "globalgen":
		s.logf("pre")
		if s.m.GB {
			s.m.G = 0
		}
		s.m.GB = true
		var v string
		var done bool
		func() {
			defer func() {
				if x := recover(); x != nil {
					if _, stop := x.(simStop); !stop {
						s.m.GB = false
					}
					panic(x)
				}
				s.m.GB = false
			}()
			v, done = s.genNext()
		}()
		s.logf(fmt.Sprintf("ggr%v", done))
		if done {
			s.m.G = 0
		}
		return v
	case "pending":
		if !s.m.PR {
			s.logf("mk")
			s.m.PR = true
			s.logf("mk2")
			return "mk"
		}
		s.logf("rs")
		s.m.PR = false
		s.jobs = append(s.jobs, func() { s.logf("ppx") })
		s.logf("rs2")
		s.logf("deep")
		s.logf("rs3")
		return "rs"
	}
	panic("no model for " + shape)
}

type prediction struct {
	Log   []string
	Val   string
	Threw bool // a catchable exception reached the host
	Stop  bool // the uncatchable abort happened (the model reached the stop point)
	Next  mstate
}

// predict runs the model of shape from state m; faultK > 0: catchable fault at the k-th log call; stopJ >= 0: the run is
// aborted uncatchably right before its (stopJ+1)-th log call.
func predict(m mstate, shape string, faultK, stopJ int) (p prediction) {
	s := &sim{m: m, faultK: faultK, stopJ: stopJ}
	stopped := false
	func() {
		defer func() {
			if x := recover(); x != nil {
				switch x.(type) {
				case simThrow:
					p.Threw = true
				case simStop:
					stopped = true
				default:
					panic(x)
				}
			}
		}()
		p.Val = s.mainOf(shape)
	}()
	if !stopped {
		// leave(): drain the job queue; an exception in a job rejects a promise nobody looks at
		for len(s.jobs) > 0 {
			j := s.jobs[0]
			s.jobs = s.jobs[1:]
			func() {
				defer func() {
					if x := recover(); x != nil {
						if _, stop := x.(simStop); stop {
							stopped = true
							s.jobs = nil
						}
					}
				}()
				j()
			}()
		}
	}
	if stopped {
		// an abort inside the generator body leaves the generator unusable; GB stays set and the next call replaces it
		p.Stop = true
		p.Val = ""
	}
	if p.Threw {
		p.Val = ""
	}
	p.Log = s.log
	p.Next = s.m
	if p.Next.GB {
		// canonical form: a set GB means "generator will be replaced", its position no longer matters
		p.Next.G = 0
	}
	return
}
