package c03

import (
	"fmt"
	"strings"
	"sync"

	"verif/core"

	"github.com/dop251/goja"
)

// ---------------------------------------------------------------------------------------------------------------------
// reference data, computed once on runtimes that never see a fault

type refData struct {
	idle  goja.VerifIdleState
	probe string
	base  map[string]*outcome // entry/shape -> unfaulted outcome on a fresh runtime (stateless shapes)
}

var (
	refOnce sync.Once
	ref     *refData
	refErr  []failure
	// refCases[i]: the call that refErr[i] is about (zero Call: none)
	refCases []Call
)

func callKey(entry, shape string) string { return entry + "/" + shape }

func sameOutcome(a, b *outcome) bool {
	return a.Val == b.Val && a.Err == b.Err && eq(a.Log, b.Log) && eq(a.AfterAbort, b.AfterAbort)
}

func buildRef() {
	ref = &refData{base: map[string]*outcome{}}
	e1, e2 := newEnv(), newEnv()
	ref.idle = idleOf(e1.R)
	ref.probe = e1.probe()
	if p2 := e1.probe(); p2 != ref.probe {
		refErr = append(refErr, failure{"harness|probe-unstable", fmt.Sprintf("probe is not repeatable on a fresh runtime: %q vs %q", ref.probe, p2)})
		refCases = append(refCases, Call{})
	}
	for _, s := range allShapes {
		if isStateful(s.Name) {
			continue
		}
		for _, en := range entriesOf(s.Name) {
			// e1: all calls in catalogue order on one runtime; e2: a second runtime, native log, after a probe
			a := e1.exec(en, s.Name)
			e2.setLog(false)
			b := e2.exec(en, s.Name)
			c := e1.exec(en, s.Name)
			call := Call{Entry: en, Shape: s.Name}
			for _, o := range []*outcome{a, b} {
				if o.Idle != ref.idle {
					refErr = append(refErr, failure{"not-idle:" + idleDiff(ref.idle, o.Idle) + "|none|" + boundary(en) + "|" + family(s.Name),
						fmt.Sprintf("after %v the runtime is not idle: %s", call, idleDelta(ref.idle, o.Idle))})
					refCases = append(refCases, call)
					break
				}
			}
			if !sameOutcome(a, b) || !sameOutcome(a, c) {
				refErr = append(refErr, failure{"harness|baseline-unstable|" + callKey(en, s.Name),
					fmt.Sprintf("unfaulted %s is not repeatable: %v / %v / %v", callKey(en, s.Name), a, b, c)})
				refCases = append(refCases, call)
			}
			if strings.HasPrefix(a.Err, "panic") || a.Err == "overflow" {
				refErr = append(refErr, failure{"harness|baseline-fails|" + callKey(en, s.Name), fmt.Sprintf("unfaulted %s: %v", callKey(en, s.Name), a)})
				refCases = append(refCases, call)
			}
			ref.base[callKey(en, s.Name)] = a
		}
	}
	if p := e1.probe(); p != ref.probe {
		refErr = append(refErr, failure{"harness|probe-drifts", fmt.Sprintf("probe after all unfaulted calls: %q, fresh: %q", p, ref.probe)})
		refCases = append(refCases, Call{})
	}
}

func getRef() *refData {
	refOnce.Do(buildRef)
	return ref
}

// freshTab: outcome of a faulted call of a stateless shape when it is (nearly) the first thing a runtime does; filled by
// the single-call sweep, used by the history parts (a call inside a history must behave as on a fresh runtime).
var freshTab sync.Map // Call.String() -> *outcome

// ---------------------------------------------------------------------------------------------------------------------
// the world = one live runtime + what the oracle knows about it

type world struct {
	e     *env
	m     mstate
	fresh int // how the fresh-runtime differential of faulted calls is obtained
}

const (
	freshNone    = iota // not compared (the single-call sweep of the quick tier, which fills the table)
	freshTable          // compared when the table has the call
	freshCompute        // table, computed on a brand-new runtime when missing
)

func newWorld() *world { return &world{e: newEnv(), fresh: freshCompute} }

// freshOutcome is what a faulted call of a stateless shape does as the first call of a brand-new runtime.
func freshOutcome(c Call, compute bool) *outcome {
	if v, ok := freshTab.Load(c.String()); ok {
		return v.(*outcome)
	}
	if !compute {
		return nil
	}
	o := newEnv().exec(c.Entry, c.Shape, c.Faults...)
	freshTab.Store(c.String(), o)
	return o
}

func normTag(t string) string {
	t = strings.ReplaceAll(t, "[object Object]", "<F>")
	t = strings.ReplaceAll(t, "GoError: c03-go-error", "<F>")
	return t
}

func normLog(l []string) []string {
	out := make([]string, len(l))
	for i, t := range l {
		out[i] = normTag(t)
	}
	return out
}

func excClass(kind string) string {
	if kind == "goerr" {
		return "exc:goerr"
	}
	return "exc:payload"
}

// expectedVal renders the shape's return value the way the entry kind delivers it.
func expectedVal(entry, v string) string {
	if entry == "tonum" {
		return "num"
	}
	return v
}

// judgeCall executes one call on w and evaluates every oracle. ctx names the part for signatures.
func (w *world) judgeCall(c Call, probe bool) (o *outcome, fails []failure) {
	rd := getRef()
	add := func(sig, what string) {
		fails = append(fails, failure{sig + "|" + faultClass(c) + "|" + boundary(c.Entry) + "|" + family(c.Shape), short(what)})
	}
	e := w.e
	o = e.exec(c.Entry, c.Shape, c.Faults...)
	var f Fault
	if len(c.Faults) > 0 {
		f = c.Faults[0]
	}
	// -- what the host received
	if strings.HasPrefix(o.Err, "panic:") && !(o.Err == "panic:foreign" && hasKind(c, "foreign")) {
		add("go-panic-escaped:"+strings.SplitN(o.Err, "\n", 2)[0], fmt.Sprintf("%v: a Go panic escaped the call: %s", c, o.Err))
	}
	if o.Err == "overflow" && !hasKind(c, "limit") {
		add("spurious-overflow", fmt.Sprintf("%v: StackOverflowError without a call-depth limit", c))
	}
	if o.Err == "interrupted" {
		add("spurious-interrupt", fmt.Sprintf("%v: InterruptedError although nobody interrupted", c))
	}
	if o.Err == "overflow" && len(o.AfterAbort) > 0 {
		add("jobs-survive", fmt.Sprintf("%v: code of the aborted call ran during the next call: %v", c, o.AfterAbort))
	}
	if isStateful(c.Shape) {
		w.judgeStateful(c, o, add)
	} else if len(c.Faults) <= 1 {
		b := rd.base[callKey(c.Entry, c.Shape)]
		switch {
		case f.Kind == "":
			if !sameOutcome(o, b) {
				add("differs-from-fresh", fmt.Sprintf("%v: %v; on a fresh runtime: %v", c, o, b))
			}
		case f.Kind == "limit":
			if o.Err == "overflow" {
				if !isPrefix(o.Log, b.Log) {
					add("after-overflow:"+classifyTags(extraTags(o.Log, b.Log)), fmt.Sprintf("%v: log %v is not a prefix of the unfaulted log %v (script code ran after the StackOverflowError)", c, o.Log, b.Log))
				}
			} else if !sameOutcome(o, b) {
				add("limit-not-reached-differs", fmt.Sprintf("%v: no StackOverflowError, but %v; unfaulted: %v", c, o, b))
			}
		default:
			// a fault at the k-th log probe / host native
			k := f.K
			if o.Fired != 1 {
				add("harness|fault-not-fired", fmt.Sprintf("%v: fault fired %d times (execution is not deterministic?)", c, o.Fired))
				break
			}
			if isLogKind(f.Kind) && (len(o.Log) < k || !eq(o.Log[:k], b.Log[:k])) {
				add("prefix-differs", fmt.Sprintf("%v: log before the fault %v differs from the unfaulted log %v", c, o.Log, b.Log))
			}
			if f.Kind == "foreign" {
				if o.Err != "panic:foreign" {
					add("foreign-panic-swallowed", fmt.Sprintf("%v: the Go panic did not reach the host: %v", c, o))
				}
			} else if o.Err != "" && o.Err != b.Err && o.Err != excClass(f.Kind) {
				add("wrong-error", fmt.Sprintf("%v: host received %s, want %s or completion", c, o.Err, excClass(f.Kind)))
			}
		}
		if len(c.Faults) == 1 && w.fresh != freshNone {
			// differential: inside a history the faulted call behaves as it does on a brand-new runtime
			if fo := freshOutcome(c, w.fresh == freshCompute); fo != nil && !sameOutcome(o, fo) {
				add("differs-from-fresh", fmt.Sprintf("%v: %v; as the first call of a brand-new runtime: %v", c, o, fo))
			}
		}
	}
	if len(c.Faults) > 1 && o.Err != "" && o.Err != "exc:payload" && !(o.Err == "overflow" && hasKind(c, "limit")) && !strings.HasPrefix(o.Err, "panic:") {
		add("wrong-error", fmt.Sprintf("%v: host received %s, which is none of the injected failures", c, o.Err))
	}
	fails = append(fails, w.after(c, probe)...)
	return
}

// family names the kind of execution context a shape keeps live at its probe points (signature component: the same
// oracle failing for a generator shape and for a plain shape are different findings).
func family(shape string) string {
	switch shape {
	case "generator", "genreturn", "yieldstar", "gendelegates", "globalgen", "paraminit", "S_gen":
		return "generator"
	case "async", "asyncreject", "asyncchain", "promises", "iterbuiltins", "pending", "S_async":
		return "async"
	}
	return "sync"
}

func extraTags(got, want []string) []string {
	i := 0
	for i < len(got) && i < len(want) && got[i] == want[i] {
		i++
	}
	return got[i:]
}

func hasKind(c Call, kind string) bool {
	for _, f := range c.Faults {
		if f.Kind == kind {
			return true
		}
	}
	return false
}

func faultClass(c Call) string {
	if len(c.Faults) == 0 {
		return "none"
	}
	var ks []string
	for _, f := range c.Faults {
		ks = append(ks, f.Kind)
	}
	return strings.Join(ks, "+")
}

// after evaluates the state oracles that hold after EVERY call: white-box idle state, behavioural probe, script globals.
func (w *world) after(c Call, probe bool) (fails []failure) {
	rd := getRef()
	add := func(sig, what string) {
		fails = append(fails, failure{sig + "|" + faultClass(c) + "|" + boundary(c.Entry) + "|" + family(c.Shape), short(what)})
	}
	e := w.e
	if st := idleOf(e.R); st != rd.idle {
		// the white-box state explains whatever the probe would see: report the root only
		add("not-idle:"+idleDiff(rd.idle, st), fmt.Sprintf("after %v the runtime is not idle: %s", c, idleDelta(rd.idle, st)))
		return
	}
	if probe {
		if p := e.probe(); p != rd.probe {
			add("probe:"+probeDiff(rd.probe, p), fmt.Sprintf("after %v the probe gives %q, on a fresh runtime %q", c, p, rd.probe))
		}
	}
	d, err := e.dump(goja.Undefined())
	if err != nil || d.String() != w.m.dump() {
		add("globals", fmt.Sprintf("after %v the script globals are %v (err %v), the completed effects give %s", c, d, err, w.m.dump()))
	}
	return
}

// probeDiff names the parts of the probe output that differ.
func probeDiff(want, got string) string {
	ws, gs := strings.Fields(want), strings.Fields(got)
	var d []string
	for i := 0; i < len(ws) || i < len(gs); i++ {
		var a, b string
		if i < len(ws) {
			a = ws[i]
		}
		if i < len(gs) {
			b = gs[i]
		}
		if a != b {
			name := strings.SplitN(b, ":", 2)[0]
			if name == "" {
				name = strings.SplitN(a, ":", 2)[0]
			}
			d = append(d, name)
		}
	}
	if len(d) > 3 {
		d = d[:3]
	}
	return strings.Join(d, ",")
}

func (w *world) judgeStateful(c Call, o *outcome, add func(sig, what string)) {
	var f Fault
	if len(c.Faults) > 0 {
		f = c.Faults[0]
	}
	var p prediction
	switch {
	case len(c.Faults) > 1:
		panic("stateful shapes take one fault")
	case f.Kind == "":
		p = predict(w.m, c.Shape, 0, -1)
	case f.Kind == "limit":
		if o.Err == "overflow" {
			p = predict(w.m, c.Shape, 0, len(o.Log))
			if !p.Stop {
				add("model|overflow-after-last-probe", fmt.Sprintf("%v: StackOverflowError after %d log entries, the model completes there: %v", c, len(o.Log), o))
			}
		} else {
			p = predict(w.m, c.Shape, 0, -1)
		}
	case catchable(f.Kind) && isLogKind(f.Kind):
		p = predict(w.m, c.Shape, f.K, -1)
	default:
		panic("fault kind not in the alphabet of stateful shapes: " + f.Kind)
	}
	wantErr := ""
	if p.Threw {
		wantErr = excClass(f.Kind)
	}
	if p.Stop {
		wantErr = "overflow"
	}
	wantVal := ""
	if wantErr == "" {
		wantVal = expectedVal(c.Entry, p.Val)
	}
	if !eq(o.Log, p.Log) || o.Err != wantErr || o.Val != wantVal {
		add("model-differs", fmt.Sprintf("%v from state %s: %v; a runtime that executed only the completed effects gives val=%s err=%s log=%v", c, w.m.key(), o, wantVal, wantErr, p.Log))
	}
	w.m = p.Next
}

// judgeHistory runs a history on a brand-new runtime and judges every call.
func judgeHistory(h []Call, r *core.Run) (fails []failure) {
	w := newWorld()
	for _, c := range h {
		if r != nil {
			r.Eval(1)
		}
		_, fs := w.judgeCall(c, true)
		fails = append(fails, fs...)
	}
	return dedupe(fails)
}

// confirm re-runs a history five times on fresh runtimes and tells whether sig is reported every time.
func confirm(h []Call, sig string) bool {
	for i := 0; i < 5; i++ {
		found := false
		for _, f := range judgeHistory(h, nil) {
			if f.sig == sig {
				found = true
			}
		}
		if !found {
			return false
		}
	}
	return true
}
