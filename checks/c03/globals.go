package c03

import (
	"errors"
	"fmt"
	"math"
	"sort"
	"strings"
	"sync"

	"verif/core"

	"github.com/dop251/goja"
)

// Part G: the GLOBAL ENVIRONMENT after calls that fail. A top-level script can end abruptly in three ways the other parts
// do not produce: its GlobalDeclarationInstantiation is rejected (var/function vs let conflict, let vs let / let vs
// var conflict, a new var or function on a non-extensible global object) - then NOTHING of the script may exist
// afterwards -; or its body is aborted (throw at the k-th probe / StackOverflowError) - then all its bindings exist, the
// ones whose initialiser did not run stay uninitialised. Explicit-state search: state = the global environment of a live
// runtime (for a pool of two names: lexical binding kind + initialised?, own property of the global object, and the
// extensibility of the global object), transitions = all scripts of <= 2 (thorough: 3) declaration items x every fault
// position, every transition executed in lock-step on a small Go model of ECMA-262 GlobalDeclarationInstantiation and on
// the real runtime; after EVERY call the observable set of global bindings (typeof, value, own property descriptor,
// assignability, TDZ state per name; extensibility) must equal the model = a runtime that executed only the completed
// effects, and VerifIdle must equal the idle state.

var gNames = []string{"a", "b"}

var gKinds = []string{"var", "let", "const", "class", "function", "gset"}

// gItem is one statement of a script: kind applied to gNames[name]; kind "pe" = Object.preventExtensions(globalThis).
type gItem struct {
	Kind string `json:"kind"`
	Name int    `json:"name"`
}

func (it gItem) src(v int) string {
	n := gNames[it.Name]
	switch it.Kind {
	case "var":
		return fmt.Sprintf("var %s = %d;", n, v)
	case "let":
		return fmt.Sprintf("let %s = %d;", n, v)
	case "const":
		return fmt.Sprintf("const %s = %d;", n, v)
	case "class":
		return fmt.Sprintf("class %s {}", n)
	case "function":
		return fmt.Sprintf("function %s(){ return %d }", n, v)
	case "gset":
		return fmt.Sprintf("globalThis.%s = %d;", n, v)
	case "pe":
		return "Object.preventExtensions(globalThis);"
	}
	panic("bad item " + it.Kind)
}

// GCall is one transition: a script (items separated by log probes) under at most one fault
// (throw@k: the k-th probe throws; limit@0: StackOverflowError at the first probe).
type GCall struct {
	Items []gItem `json:"items"`
	Fault *Fault  `json:"fault,omitempty"`
}

func (c GCall) Source() string {
	var sb strings.Builder
	sb.WriteString("log('0'); ")
	for i, it := range c.Items {
		sb.WriteString(it.src(i + 1))
		fmt.Fprintf(&sb, " log('%d'); ", i+1)
	}
	sb.WriteString("'ok'")
	return sb.String()
}

func (c GCall) String() string {
	s := "`" + c.Source() + "`"
	if c.Fault != nil {
		s += "[" + c.Fault.String() + "]"
	}
	return s
}

// ---------------------------------------------------------------------------------------------------------------------
// model

type gName struct {
	Lex     int // 0 none, 1 let, 2 const, 3 class
	LexInit bool
	LexVal  string
	Obj     int // 0 none, 1 var, 2 function (both non-configurable), 3 configurable property
	ObjVal  string
}

type gState struct {
	N   [2]gName
	Ext bool
}

func newGState() gState { return gState{Ext: true} }

// key: the abstract state (values dropped).
func (s gState) key() string {
	var sb strings.Builder
	for _, n := range s.N {
		fmt.Fprintf(&sb, "%d%v%d|", n.Lex, n.LexInit, n.Obj)
	}
	fmt.Fprint(&sb, s.Ext)
	return sb.String()
}

// observe renders what the probe must report in this state.
func (s gState) observe() string {
	var parts []string
	for i, n := range s.N {
		var t, v, o, g string
		switch {
		case n.Lex != 0 && !n.LexInit:
			t, v, g = "TDZ", "ReferenceError", "ReferenceError"
		case n.Lex != 0:
			v = n.LexVal
			t = "number"
			if v == "fn" {
				t = "function"
			}
			g = "rw"
			if n.Lex == 2 {
				g = "TypeError"
			}
		case n.Obj != 0:
			v = n.ObjVal
			switch v {
			case "fn":
				t = "function"
			case "undefined":
				t = "undefined"
			default:
				t = "number"
			}
			g = "rw"
		default:
			t, v, g = "undefined", "ReferenceError", "ReferenceError"
		}
		o = "-"
		if n.Obj != 0 {
			c := "n"
			if n.Obj == 3 {
				c = "c"
			}
			o = c + n.ObjVal + "w"
		}
		parts = append(parts, gNames[i]+":"+t+","+v+","+o+","+g)
	}
	parts = append(parts, fmt.Sprint(s.Ext))
	return strings.Join(parts, " ")
}

// earlyError: the script is rejected by the parser (duplicate lexical name, lexical name that is also var-scoped).
func earlyError(items []gItem) bool {
	lex, vars := map[int]int{}, map[int]bool{}
	for _, it := range items {
		switch it.Kind {
		case "let", "const", "class":
			lex[it.Name]++
		case "var", "function":
			vars[it.Name] = true
		}
	}
	for n, c := range lex {
		if c > 1 || vars[n] {
			return true
		}
	}
	return false
}

type gPrediction struct {
	Rejected bool // GlobalDeclarationInstantiation throws (SyntaxError or TypeError), nothing is created
	Log      []string
	Err      string // "", "exc:payload", "overflow", "rejected"
	Next     gState
}

// gPredict: ECMA-262 GlobalDeclarationInstantiation + the straight-line body.
func gPredict(s gState, c GCall) (p gPrediction) {
	// 1. all checks, before anything is created
	for _, it := range c.Items {
		n := s.N[it.Name]
		switch it.Kind {
		case "let", "const", "class":
			// HasVarDeclaration / HasLexicalDeclaration / HasRestrictedGlobalProperty
			if n.Lex != 0 || n.Obj == 1 || n.Obj == 2 {
				p.Rejected = true
			}
		case "var":
			// HasLexicalDeclaration; CanDeclareGlobalVar
			if n.Lex != 0 || n.Obj == 0 && !s.Ext {
				p.Rejected = true
			}
		case "function":
			// HasLexicalDeclaration; CanDeclareGlobalFunction (existing properties of the alphabet are all writable+enumerable or configurable)
			if n.Lex != 0 || n.Obj == 0 && !s.Ext {
				p.Rejected = true
			}
		}
	}
	if p.Rejected {
		p.Err = "rejected"
		p.Next = s
		return
	}
	// 2. create: lexical bindings uninitialised, functions, vars
	for _, it := range c.Items {
		n := &s.N[it.Name]
		switch it.Kind {
		case "let":
			n.Lex, n.LexInit = 1, false
		case "const":
			n.Lex, n.LexInit = 2, false
		case "class":
			n.Lex, n.LexInit = 3, false
		}
	}
	for _, it := range c.Items {
		if it.Kind == "function" {
			n := &s.N[it.Name]
			n.Obj, n.ObjVal = 2, "fn"
		}
	}
	for _, it := range c.Items {
		if it.Kind == "var" {
			if n := &s.N[it.Name]; n.Obj == 0 {
				n.Obj, n.ObjVal = 1, "undefined"
			}
		}
	}
	// 3. body
	probe := 0
	logf := func() bool {
		if c.Fault != nil && c.Fault.Kind == "limit" {
			p.Err = "overflow"
			return false
		}
		probe++
		p.Log = append(p.Log, fmt.Sprint(probe-1))
		if c.Fault != nil && c.Fault.Kind == "throw" && c.Fault.K == probe {
			p.Err = "exc:payload"
			return false
		}
		return true
	}
	defer func() { p.Next = s }()
	if !logf() {
		return
	}
	for i, it := range c.Items {
		n := &s.N[it.Name]
		v := fmt.Sprint(i + 1)
		switch it.Kind {
		case "var":
			n.ObjVal = v
		case "let", "const":
			n.LexInit, n.LexVal = true, v
		case "class":
			n.LexInit, n.LexVal = true, "fn"
		case "gset":
			if n.Obj != 0 {
				n.ObjVal = v
			} else if s.Ext {
				n.Obj, n.ObjVal = 3, v
			}
		case "pe":
			s.Ext = false
		}
		if !logf() {
			return
		}
	}
	return
}

// ---------------------------------------------------------------------------------------------------------------------
// the real side: a light runtime (the global object may be made non-extensible, so every history gets a brand-new one)

const gSetupSrc = `
function __gp1(n, ty, rd, as){ var t, v, o, g;
  try { t = ty() } catch (e) { t = 'TDZ' }
  try { v = rd(); v = typeof v == 'function' ? 'fn' : String(v) } catch (e) { v = e.name }
  var d = Object.getOwnPropertyDescriptor(globalThis, n);
  o = d ? (d.configurable ? 'c' : 'n') + (typeof d.value == 'function' ? 'fn' : String(d.value)) + (d.writable ? 'w' : 'r') : '-';
  try { as(); g = 'rw' } catch (e) { g = e.name }
  return n + ':' + t + ',' + v + ',' + o + ',' + g }
function __gp(){ return [
  __gp1('a', function(){ return typeof a }, function(){ return a }, function(){ a = a }),
  __gp1('b', function(){ return typeof b }, function(){ return b }, function(){ b = b }),
  Object.isExtensible(globalThis)].join(' ') }
`

var gSetup = goja.MustCompile("gsetup.js", gSetupSrc, false)

var gProgs sync.Map // source -> *goja.Program or error

func gCompile(src string) (*goja.Program, error) {
	if v, ok := gProgs.Load(src); ok {
		if p, ok := v.(*goja.Program); ok {
			return p, nil
		}
		return nil, v.(error)
	}
	p, err := goja.Compile("g.js", src, false)
	if err != nil {
		gProgs.Store(src, err)
		return nil, err
	}
	gProgs.Store(src, p)
	return p, nil
}

type gWorld struct {
	r       *goja.Runtime
	m       gState
	probe   goja.Callable
	log     []string
	fault   *Fault
	logN    int
	payload goja.Value
	idle    goja.VerifIdleState
}

func newGWorld() *gWorld {
	w := &gWorld{r: goja.New(), m: newGState()}
	r := w.r
	w.payload = r.NewObject()
	r.Set("log", func(call goja.FunctionCall) goja.Value {
		w.log = append(w.log, call.Argument(0).String())
		w.logN++
		if w.fault != nil && w.fault.Kind == "throw" && w.fault.K == w.logN {
			panic(w.payload)
		}
		return goja.Undefined()
	})
	if _, err := r.RunProgram(gSetup); err != nil {
		panic(err)
	}
	w.probe, _ = goja.AssertFunction(r.Get("__gp"))
	w.idle = idleOf(r)
	return w
}

// judge executes one script call and compares with the model.
func (w *gWorld) judge(c GCall) (fired bool, fails []failure) {
	add := func(sig, what string) { fails = append(fails, failure{sig, short(what)}) }
	prg, err := gCompile(c.Source())
	if err != nil {
		add("harness|globals-compile", fmt.Sprintf("%v does not compile: %v", c, err))
		return
	}
	p := gPredict(w.m, c)
	before := w.m
	w.m = p.Next
	w.log, w.logN, w.fault = w.log[:0], 0, c.Fault
	if c.Fault != nil && c.Fault.Kind == "limit" {
		w.r.SetMaxCallStackSize(c.Fault.K)
	}
	var v goja.Value
	var pan interface{}
	func() {
		defer func() { pan = recover() }()
		v, err = w.r.RunProgram(prg)
	}()
	w.r.SetMaxCallStackSize(math.MaxInt32)
	w.fault = nil
	got := ""
	switch {
	case pan != nil:
		got = fmt.Sprintf("panic:%v", pan)
	case err == nil:
	default:
		var ex *goja.Exception
		var so *goja.StackOverflowError
		switch {
		case errors.As(err, &so):
			got = "overflow"
		case errors.As(err, &ex):
			if ex.Value().SameAs(w.payload) {
				got = "exc:payload"
			} else if o, ok := ex.Value().(*goja.Object); ok && (o.Get("name").String() == "SyntaxError" || o.Get("name").String() == "TypeError") && len(w.log) == 0 {
				got = "rejected"
			} else {
				got = "exc:" + ex.Value().String()
			}
		default:
			got = fmt.Sprintf("%T", err)
		}
	}
	fired = got != ""
	cls := "completed"
	if p.Err != "" {
		cls = p.Err
	}
	if got != p.Err || !eq(w.log, p.Log) || got == "" && valStr(v) != "ok" {
		add("globals|outcome-differs|"+cls, fmt.Sprintf("%v from global state {%s}: host received %q, value %s, log %v; ECMA-262 GlobalDeclarationInstantiation + body give %q, log %v", c, before.observe(), got, valStr(v), w.log, p.Err, p.Log))
	}
	if st := idleOf(w.r); st != w.idle {
		add("not-idle:"+idleDiff(w.idle, st)+"|globals|"+cls, fmt.Sprintf("after %v the runtime is not idle: %s", c, idleDelta(w.idle, st)))
		return
	}
	obs, perr := w.probe(goja.Undefined())
	if perr != nil || obs.String() != w.m.observe() {
		add("globals|bindings-differ|after-"+cls, fmt.Sprintf("after %v (from global state {%s}) the global bindings are {%v} (probe error %v); a runtime that executed only the completed effects has {%s}", c, before.observe(), obs, perr, w.m.observe()))
	}
	return
}

func gJudgeHistory(h []GCall, r *core.Run) (fails []failure) {
	w := newGWorld()
	for _, c := range h {
		fired, fs := w.judge(c)
		if r != nil {
			r.Eval(1)
			if fired {
				r.NontrivialN(1)
			}
		}
		fails = append(fails, fs...)
		if len(fs) > 0 {
			break
		}
	}
	return dedupe(fails)
}

// gAlphabet: every script of 1..maxItems items (parser-rejected ones dropped, cross-checked against the model) x every fault.
func gAlphabet(maxItems int) (al []GCall, mismatch []string) {
	var items []gItem
	for _, k := range gKinds {
		for n := range gNames {
			items = append(items, gItem{k, n})
		}
	}
	items = append(items, gItem{"pe", 0})
	var scripts [][]gItem
	var rec func(cur []gItem)
	rec = func(cur []gItem) {
		if len(cur) > 0 {
			scripts = append(scripts, append([]gItem{}, cur...))
		}
		if len(cur) == maxItems {
			return
		}
		for _, it := range items {
			rec(append(cur, it))
		}
	}
	rec(nil)
	sort.SliceStable(scripts, func(i, j int) bool { return len(scripts[i]) < len(scripts[j]) })
	for _, s := range scripts {
		c := GCall{Items: s}
		_, err := gCompile(c.Source())
		if (err != nil) != earlyError(s) {
			mismatch = append(mismatch, fmt.Sprintf("%v: compile error %v, model early error %v", c, err, earlyError(s)))
		}
		if err != nil {
			continue
		}
		al = append(al, c)
		for k := 1; k <= len(s)+1; k++ {
			al = append(al, GCall{Items: s, Fault: &Fault{"throw", k}})
		}
		al = append(al, GCall{Items: s, Fault: &Fault{"limit", 0}})
	}
	return
}

type gNode struct {
	m    gState
	path []GCall
}

func globalsPart(r *core.Run) bool {
	if r.Quick() {
		return globalsSearch(r, 2, 2, "globals_search")
	}
	// bounds upward: scripts of <= 2 items to closure of the state space, then scripts of <= 3 items to depth 3
	ok := globalsSearch(r, 2, 16, "globals_search")
	return ok && globalsSearch(r, 3, 3, "globals_search_3_items")
}

func globalsSearch(r *core.Run, maxItems, maxDepth int, evKey string) bool {
	al, mismatch := gAlphabet(maxItems)
	for _, m := range mismatch {
		r.Violation("harness|globals-early-error-model", m, nil)
	}
	seen := map[string]bool{newGState().key(): true}
	frontier := []gNode{{m: newGState()}}
	nStates, nTrans, depthDone := 1, int64(0), 0
	complete := true
	for depth := 1; depth <= maxDepth && len(frontier) > 0; depth++ {
		found := make([][]gNode, len(frontier))
		ok := r.Parallel(int64(len(frontier)), 1, func(_ int, lo, hi int64) {
			for ni := lo; ni < hi; ni++ {
				n := frontier[ni]
				for ti, t := range al {
					if ti&63 == 0 && expired(r) {
						return
					}
					// brand-new runtime, replay the path (judged), apply t
					hist := append(append([]GCall{}, n.path...), t)
					w := newGWorld()
					var fails []failure
					fired := false
					for _, c := range hist {
						var fs []failure
						fired, fs = w.judge(c)
						if len(fs) > 0 {
							fails = fs
							break
						}
					}
					r.Eval(1)
					if fired {
						r.NontrivialN(1)
					}
					if len(fails) > 0 {
						for _, f := range dedupe(fails) {
							if _, done := confirmed.Load(f.sig); done {
								r.Violation(f.sig, f.what, nil)
								continue
							}
							if gConfirm(hist, f.sig) {
								confirmed.Store(f.sig, true)
								r.Violation(f.sig, f.what, Case{Part: "globals", Scripts: hist, Detail: f.what})
							} else {
								r.Violation("nondeterministic|"+f.sig, "failure did not reproduce 5/5: "+f.what, Case{Part: "globals", Scripts: hist, Detail: f.what})
							}
						}
						continue
					}
					r.Outcome("g|" + fmt.Sprint(t.Fault) + "|" + w.m.key())
					found[ni] = append(found[ni], gNode{w.m, hist})
				}
			}
		})
		nTrans += int64(len(frontier)) * int64(len(al))
		if !ok || cur.cut.Load() {
			complete = false
			break
		}
		depthDone = depth
		var next []gNode
		for _, fs := range found {
			for _, n := range fs {
				if k := n.m.key(); !seen[k] {
					seen[k] = true
					next = append(next, n)
				}
			}
		}
		nStates += len(next)
		if len(next) > 0 {
			r.Sample(map[string]interface{}{"globals_search_depth": depth, "new_global_state": next[len(next)/2].m.observe(), "reached_by": gNames2(next[len(next)/2].path)})
		}
		frontier = next
	}
	r.Set(evKey, map[string]interface{}{
		"alphabet":           len(al),
		"depth_completed":    depthDone,
		"distinct_states":    nStates,
		"transitions":        nTrans,
		"state_space_closed": complete && len(frontier) == 0,
		"state_key":          "per pool name: lexical binding kind + initialised, own property kind of the global object; extensibility of the global object",
	})
	return complete
}

func gNames2(h []GCall) []string {
	var out []string
	for _, c := range h {
		out = append(out, c.String())
	}
	return out
}

func gConfirm(h []GCall, sig string) bool {
	for i := 0; i < 5; i++ {
		found := false
		for _, f := range gJudgeHistory(h, nil) {
			if f.sig == sig {
				found = true
			}
		}
		if !found {
			return false
		}
	}
	return true
}
