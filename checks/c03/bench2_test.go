package c03

import (
	"github.com/dop251/goja"
	"testing"
)

func benchSnippet(b *testing.B, src string) {
	w := newWorld()
	w.e.R.RunString("function __t(){" + src + "}")
	f, _ := goja.AssertFunction(w.e.R.Get("__t"))
	b.ResetTimer()
	for i := 0; i < b.N; i++ {
		f(goja.Undefined())
	}
}
func BenchmarkS_empty(b *testing.B) { benchSnippet(b, "") }
func BenchmarkS_stack(b *testing.B) {
	benchSnippet(b, "return new Error('p').stack.split('\\n').length")
}
func BenchmarkS_err(b *testing.B) { benchSnippet(b, "return new Error('p')") }
func BenchmarkS_gen(b *testing.B) {
	benchSnippet(b, "function* g(){ try { yield 1; yield 2 } finally { } } var it = g(); it.next(); it.return(5)")
}
func BenchmarkS_prom(b *testing.B) {
	benchSnippet(b, "Promise.resolve(1).then(function(v){ __pthen += v }); (async function(){ await null; __pthen += 10 })();")
}
func BenchmarkS_with(b *testing.B)  { benchSnippet(b, "with ({w: 4}) { return w }") }
func BenchmarkS_depth(b *testing.B) { benchSnippet(b, "return hostStackDepth()") }
func BenchmarkDump(b *testing.B) {
	w := newWorld()
	b.ResetTimer()
	for i := 0; i < b.N; i++ {
		w.e.dump(goja.Undefined())
	}
}
func BenchmarkS_p1(b *testing.B) { benchSnippet(b, "Promise.resolve(1)") }
func BenchmarkS_p2(b *testing.B) { benchSnippet(b, "Promise.resolve(1).then(function(v){ })") }
func BenchmarkS_p3(b *testing.B) { benchSnippet(b, "(async function(){ })()") }
func BenchmarkS_p4(b *testing.B) { benchSnippet(b, "(async function(){ await null })()") }
func BenchmarkS_g1(b *testing.B) { benchSnippet(b, "function* g(){ yield 1 }; g()") }
func BenchmarkS_g2(b *testing.B) { benchSnippet(b, "function* g(){ yield 1 }; g().next()") }
