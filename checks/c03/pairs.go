package c03

import (
	"fmt"
	"time"

	"verif/core"
)

// pairs (thorough tier): deviation bound 2.
//
//	P1  two faults inside one call: throw@k1 + {throw, pval}@k2 for every k1 < k2 of the execution under the first fault,
//	    and limit L + {throw, pval}@k for every distinct-outcome L and every k;
//	P2  every faulted call of the reduced alphabet followed by every unfaulted call (no state-key pruning);
//	P3  two faulted calls per history: a1 from the reduced alphabet of every shape x entry, a2 from the reduced alphabet
//	    of the sentinel shapes, followed by the unfaulted a2.
//
// Oracle: the state oracles after every call (idle, probe at the end, globals), no escaped panic, the host error is one of
// the injected ones; unfaulted calls equal their fresh baseline; single-fault calls equal their brand-new-runtime outcome.
func pairs(r *core.Run) bool {
	type job struct{ shape, entry string }
	var jobs []job
	for _, s := range allShapes {
		if isStateful(s.Name) {
			continue
		}
		for _, en := range entriesOf(s.Name) {
			jobs = append(jobs, job{s.Name, en})
		}
	}
	// the three sub-parts share what this part got of the budget
	partEnd := cur.end
	anyCut := false
	share := func(frac float64) {
		if cur.cut.Load() {
			anyCut = true
		}
		cur = &partBudget{end: time.Now().Add(time.Duration(float64(time.Until(partEnd)) * frac))}
	}
	defer func() {
		if anyCut {
			cur.cut.Store(true)
		}
	}()
	// P1
	share(0.25)
	ok := r.Parallel(int64(len(jobs)), 1, func(_ int, lo, hi int64) {
		for ji := lo; ji < hi; ji++ {
			j := jobs[ji]
			t := newTracker(r, "pairs", freshTable)
			b := getRef().base[callKey(j.entry, j.shape)]
			var firsts []Fault
			for k := 1; k <= len(b.Log); k++ {
				firsts = append(firsts, Fault{"throw", k})
			}
			for _, f := range reducedFaults(j.entry, j.shape) {
				if f.Kind == "limit" {
					firsts = append(firsts, f)
				}
			}
			for _, f1 := range firsts {
				o1 := freshOutcome(Call{Entry: j.entry, Shape: j.shape, Faults: []Fault{f1}}, true)
				from := 1
				if f1.Kind == "throw" {
					from = f1.K + 1
				}
				// positions of the second fault: every log entry of the execution under the first fault (+1 never reached)
				for k2 := from; k2 <= len(o1.Log)+len(o1.AfterAbort); k2++ {
					for _, kind := range []string{"throw", "pval"} {
						if expired(r) {
							return
						}
						c := Call{Entry: j.entry, Shape: j.shape, Faults: []Fault{f1, {kind, k2}}}
						o, _ := t.do([]Call{c, {Entry: j.entry, Shape: j.shape}, sentinels[(int(ji)+k2)%len(sentinels)]})
						r.Outcome("p1|" + faultClass(c) + "|" + o.Err + "|" + fmt.Sprint(o.Fired))
					}
				}
			}
		}
	})
	r.Set("pairs_two_faults_in_one_call_complete", ok && !cur.cut.Load())
	if !ok {
		return false
	}
	share(0.45)
	// P2: faulted call, then every unfaulted call
	var unfaulted []Call
	for _, s := range allShapes {
		for _, en := range entriesOf(s.Name) {
			unfaulted = append(unfaulted, Call{Entry: en, Shape: s.Name})
		}
	}
	ok = r.Parallel(int64(len(jobs)), 1, func(_ int, lo, hi int64) {
		for ji := lo; ji < hi; ji++ {
			j := jobs[ji]
			t := newTracker(r, "pairs", freshTable)
			for _, f := range reducedFaults(j.entry, j.shape) {
				c := Call{Entry: j.entry, Shape: j.shape, Faults: []Fault{f}}
				for lo := 0; lo < len(unfaulted); lo += 24 {
					if expired(r) {
						return
					}
					hi := lo + 24
					if hi > len(unfaulted) {
						hi = len(unfaulted)
					}
					t.do(append([]Call{c}, unfaulted[lo:hi]...))
				}
			}
		}
	})
	r.Set("pairs_faulted_then_every_unfaulted_call_complete", ok && !cur.cut.Load())
	if !ok {
		return false
	}
	share(1)
	// P3: two faulted calls
	var seconds []Call
	for _, s := range []string{"generator", "async", "forofnested", "nestedrun", "withrefs"} {
		for _, en := range []string{"run", "call", "get"} {
			for _, f := range reducedFaults(en, s) {
				seconds = append(seconds, Call{Entry: en, Shape: s, Faults: []Fault{f}})
			}
		}
	}
	ok = r.Parallel(int64(len(jobs)), 1, func(_ int, lo, hi int64) {
		for ji := lo; ji < hi; ji++ {
			j := jobs[ji]
			t := newTracker(r, "pairs", freshTable)
			for _, f := range reducedFaults(j.entry, j.shape) {
				c := Call{Entry: j.entry, Shape: j.shape, Faults: []Fault{f}}
				for _, c2 := range seconds {
					if expired(r) {
						return
					}
					t.do([]Call{c, c2, {Entry: c2.Entry, Shape: c2.Shape}})
				}
			}
		}
	})
	r.Set("pairs_two_faulted_calls", fmt.Sprintf("complete=%v, second calls=%d", ok && !cur.cut.Load(), len(seconds)))
	return ok
}
