// Package c03 holds the check for property C03.
package c03
