package c03

import "verif/core"

func regression(r *core.Run) bool { return true }
func histories(r *core.Run) bool  { return true }
func pairs(r *core.Run) bool      { return true }
