package c03

import (
	"fmt"
	"sort"
	"sync"

	"verif/core"

	"github.com/dop251/goja"
)

// ---------------------------------------------------------------------------------------------------------------------
// reduced fault alphabet for the history parts: every log position with the JS throw and the Value panic, every native
// position, one limit per distinct outcome (two limits that cut the execution at the same point are the same transition)

func reducedFaults(entry, shape string) (fs []Fault) {
	if isStateful(shape) {
		return faultsFor(entry, shape)
	}
	b := getRef().base[callKey(entry, shape)]
	for k := 1; k <= len(b.Log); k++ {
		fs = append(fs, Fault{"throw", k}, Fault{"pval", k})
	}
	for k := 1; k <= b.NatN; k++ {
		fs = append(fs, Fault{"nat", k})
	}
	// limits: one per distinct outcome; the execution is deterministic, so every limit above the first one under which the
	// call completes gives that same complete execution
	seen := map[string]bool{}
	for l := 0; l <= maxLimit; l++ {
		o := freshOutcome(Call{Entry: entry, Shape: shape, Faults: []Fault{{"limit", l}}}, true)
		if o.Err != "overflow" {
			fs = append(fs, Fault{"limit", l})
			break
		}
		if key := fmt.Sprint(len(o.Log)); !seen[key] {
			seen[key] = true
			fs = append(fs, Fault{"limit", l})
		}
	}
	return
}

var sentinelShapes = []string{"generator", "async", "forofnested", "nestedrun", "withrefs", "S_async"}

// historyAlphabet: the transitions applied to every state of the history search.
func historyAlphabet(thorough bool) (al []Call) {
	for _, s := range allShapes {
		for _, en := range entriesOf(s.Name) {
			al = append(al, Call{Entry: en, Shape: s.Name})
		}
	}
	faulted := func(shape string) {
		for _, en := range entriesOf(shape) {
			for _, f := range reducedFaults(en, shape) {
				al = append(al, Call{Entry: en, Shape: shape, Faults: []Fault{f}})
			}
		}
	}
	for _, s := range stateful {
		faulted(s.Name)
	}
	if thorough {
		for _, s := range allShapes {
			if !isStateful(s.Name) {
				faulted(s.Name)
			}
		}
	} else {
		for _, s := range sentinelShapes {
			faulted(s)
		}
	}
	return
}

type hnode struct {
	m    mstate
	path []Call
}

// restore brings w into the state reached by path: script globals reset (or a brand-new runtime), then the path replayed
// with every call judged.
func restore(w *world, path []Call, brandNew bool) (*world, []failure) {
	var fails []failure
	if brandNew || w == nil {
		w = newWorld()
	} else {
		if _, err := w.e.reset(goja.Undefined()); err != nil {
			fails = append(fails, failure{"harness|reset-failed", err.Error()})
		}
		w.m = mstate{}
	}
	for _, c := range path {
		_, fs := w.judgeCall(c, false)
		fails = append(fails, fs...)
	}
	return w, fails
}

// histories: explicit-state search over the runtimes reachable by sequences of API calls. The canonical key of a state is
// (white-box idle state, probe output, script globals, model state); the first three are asserted equal to the
// reference after every call, so distinct states differ in the model state. A history is extended only from a state whose
// key is new. From every state the whole history alphabet is applied.
func histories(r *core.Run) bool {
	maxDepth := r.Pick(2, 12)
	al := historyAlphabet(r.Thorough())
	const chunk = 96
	seen := map[string]bool{mstate{}.key(): true}
	frontier := []hnode{{}}
	complete := true
	depthDone := 0
	nStates, nTrans := 1, int64(0)
	for depth := 1; depth <= maxDepth && len(frontier) > 0; depth++ {
		type job struct{ node, lo, hi int }
		var jobs []job
		for ni := range frontier {
			for lo := 0; lo < len(al); lo += chunk {
				hi := lo + chunk
				if hi > len(al) {
					hi = len(al)
				}
				jobs = append(jobs, job{ni, lo, hi})
			}
		}
		found := make([][]hnode, len(jobs))
		var mu sync.Mutex
		trans := int64(0)
		ok := r.Parallel(int64(len(jobs)), 1, func(_ int, jlo, jhi int64) {
			for ji := jlo; ji < jhi; ji++ {
				j := jobs[ji]
				n := frontier[j.node]
				var w *world
				completedUnder := ""
				implied := int64(0)
				for ti := j.lo; ti < j.hi; ti++ {
					if expired(r) {
						return
					}
					t := al[ti]
					if len(t.Faults) == 1 && t.Faults[0].Kind == "limit" && t.Faults[0].K != maxLimit && completedUnder == callKey(t.Entry, t.Shape) {
						// this (entry, shape) completed under a smaller limit from this very state: a larger one cannot fire
						implied++
						continue
					}
					// first transition of a chunk: brand-new runtime; the others: reset route on the same runtime
					var fails []failure
					w, fails = restore(w, n.path, ti == j.lo)
					hist := append(append([]Call{}, n.path...), t)
					if len(fails) == 0 {
						var o *outcome
						o, fails = w.judgeCall(t, isStateful(t.Shape) || len(t.Faults) > 0)
						r.Eval(1)
						if o.Fired > 0 || o.Err == "overflow" {
							r.NontrivialN(1)
						}
						r.Outcome("h|" + faultClass(t) + "|" + o.Err)
						if len(t.Faults) == 1 && t.Faults[0].Kind == "limit" && o.Err != "overflow" {
							completedUnder = callKey(t.Entry, t.Shape)
						}
					}
					if len(fails) > 0 {
						reportHistory(r, hist, dedupe(fails))
						w = nil
						continue
					}
					if isStateful(t.Shape) {
						found[ji] = append(found[ji], hnode{w.m, hist})
					}
				}
				mu.Lock()
				trans += int64(j.hi-j.lo) - implied
				mu.Unlock()
				r.Add("limits_implied_by_monotonicity", implied)
			}
		})
		nTrans += trans
		if !ok || cur.cut.Load() {
			complete = false
			break
		}
		depthDone = depth
		var next []hnode
		for _, fs := range found {
			for _, n := range fs {
				if k := n.m.key(); !seen[k] {
					seen[k] = true
					next = append(next, n)
				}
			}
		}
		nStates += len(next)
		frontier = next
		if len(next) > 0 && r.WantSample(int64(depth)) {
			r.Sample(map[string]interface{}{"history_search_depth": depth, "new_state": next[0].m.key(), "reached_by": callNames(next[0].path)})
		}
	}
	closed := len(frontier) == 0 && complete
	var keys []string
	for k := range seen {
		keys = append(keys, k)
	}
	sort.Strings(keys)
	r.Set("history_search", map[string]interface{}{
		"alphabet":            len(al),
		"depth_completed":     depthDone,
		"distinct_states":     nStates,
		"transitions":         nTrans,
		"state_space_closed":  closed,
		"state_key":           "VerifIdle + probe + script globals (asserted equal to the reference after every call) + model state CN|G|GB|PR",
		"reached_model_state": keys,
	})
	return complete
}

// reportHistory confirms a failing history on brand-new runtimes, trying the last call alone first.
func reportHistory(r *core.Run, hist []Call, fails []failure) {
	for _, f := range fails {
		if _, done := confirmed.Load(f.sig); done {
			r.Violation(f.sig, f.what, nil)
			continue
		}
		last := hist[len(hist)-1:]
		switch {
		case !isStateful(last[0].Shape) && confirm(last, f.sig):
			confirmed.Store(f.sig, true)
			r.Violation(f.sig, f.what, Case{Part: "history", History: last, Detail: f.what})
		case confirm(hist, f.sig):
			confirmed.Store(f.sig, true)
			r.Violation(f.sig, f.what, Case{Part: "history", History: hist, Detail: f.what})
		default:
			r.Violation("nondeterministic|"+f.sig, "failure did not reproduce 5/5 on brand-new runtimes (found on the reset route): "+f.what, Case{Part: "history", History: hist, Detail: f.what})
		}
	}
}
