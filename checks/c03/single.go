package c03

import (
	"fmt"
	"strings"
	"sync"

	"verif/core"
)

// sentinels: unfaulted calls that follow every faulted call on the same runtime (they touch generators, async
// functions + jobs, iterator records, try frames, re-entrant natives, deep frames and the modelled globals).
var sentinels = []Call{
	{Entry: "run", Shape: "generator"},
	{Entry: "call", Shape: "async"},
	{Entry: "call", Shape: "forofnested"},
	{Entry: "run", Shape: "tryfinally"},
	{Entry: "nested", Shape: "nestedrun"},
	{Entry: "get", Shape: "yieldstar"},
	{Entry: "run", Shape: "counter"},
	{Entry: "call", Shape: "globalgen"},
	{Entry: "run", Shape: "pending"},
	{Entry: "resolver", Shape: "deep"},
	{Entry: "export", Shape: "withrefs"},
	{Entry: "new", Shape: "classes"},
	{Entry: "script", Shape: "S_async"},
	{Entry: "script", Shape: "S_iter"},
}

const maxLimit = 64

// faultsFor enumerates the single-fault alphabet of one (entry, shape): every log position and native position of the
// unfaulted execution x every payload kind, and every call-depth limit.
func faultsFor(entry, shape string) (fs []Fault) {
	if isStateful(shape) {
		// positions are state dependent: up to the longest log any state produces (+1: a position that is never reached)
		for k := 1; k <= 10; k++ {
			for _, kind := range logKinds {
				if kind != "foreign" {
					fs = append(fs, Fault{kind, k})
				}
			}
		}
	} else {
		b := getRef().base[callKey(entry, shape)]
		for k := 1; k <= len(b.Log); k++ {
			for _, kind := range logKinds {
				fs = append(fs, Fault{kind, k})
			}
		}
		for k := 1; k <= b.NatN; k++ {
			fs = append(fs, Fault{"nat", k})
		}
	}
	for l := 0; l <= maxLimit; l++ {
		fs = append(fs, Fault{"limit", l})
	}
	return
}

// tracker runs calls on a rolling world, judges them, and turns failures into confirmed violations.
type tracker struct {
	r       *core.Run
	part    string
	w       *world
	rolling []Call // everything executed on w so far
	// freshMode: see world.fresh
	freshMode int
}

func newTracker(r *core.Run, part string, fresh int) *tracker {
	t := &tracker{r: r, part: part, freshMode: fresh}
	t.fresh()
	return t
}

func (t *tracker) fresh() {
	t.w = newWorld()
	t.w.fresh = t.freshMode
	t.rolling = t.rolling[:0]
}

// do executes seq (one logical case: a call and its follow-ups) and reports. It returns the outcome of seq[0] and
// whether everything passed.
func (t *tracker) do(seq []Call) (first *outcome, ok bool) {
	ok = true
	for i, c := range seq {
		t.rolling = append(t.rolling, c)
		t.r.Eval(1)
		// behavioural probe after the first (faulted) call; thorough tier: also at the end of the case
		o, fails := t.w.judgeCall(c, i == 0 || i == len(seq)-1 && t.r.Thorough())
		if i == 0 {
			first = o
		}
		if o.Fired > 0 || o.Err == "overflow" {
			t.r.NontrivialN(1)
		}
		if len(fails) == 0 {
			continue
		}
		ok = false
		t.report(seq[:i+1], dedupe(fails))
		t.fresh()
		break
	}
	return
}

func (t *tracker) report(minimal []Call, fails []failure) {
	for _, f := range fails {
		if strings.HasPrefix(f.sig, "harness|") {
			t.r.Violation(f.sig, f.what, Case{Part: t.part, History: minimal, Detail: f.what})
			continue
		}
		// shortest reproducing history first: the failing call alone, then the case, then everything this runtime did
		if _, done := confirmed.Load(f.sig); done {
			t.r.Violation(f.sig, f.what, nil)
			continue
		}
		cands := [][]Call{minimal[len(minimal)-1:], minimal, append([]Call{}, t.rolling...)}
		reported := false
		for ci, h := range cands {
			if ci == 1 && len(minimal) == 1 {
				continue
			}
			if confirm(h, f.sig) {
				sig := f.sig
				if ci == 2 {
					sig = "history-dependent|" + sig
				} else {
					confirmed.Store(sig, true)
				}
				t.r.Violation(sig, f.what, Case{Part: t.part, History: h, Detail: f.what})
				reported = true
				break
			}
		}
		if !reported {
			t.r.Violation("nondeterministic|"+f.sig, "failure did not reproduce 5/5 on fresh runtimes: "+f.what, Case{Part: t.part, History: append([]Call{}, t.rolling...), Detail: f.what})
		}
	}
}

// confirmed: signatures already confirmed 5/5 on brand-new runtimes (with a minimal history stored as their replay case)
var confirmed sync.Map

func single(r *core.Run) bool {
	rd := getRef()
	for i, f := range refErr {
		c := Case{Part: "reference", Detail: f.what}
		if refCases[i].Entry != "" {
			c.History = []Call{refCases[i]}
		}
		r.Violation(f.sig, f.what, c)
	}
	type job struct{ shape, entry string }
	var jobs []job
	for _, s := range allShapes {
		for _, en := range entriesOf(s.Name) {
			jobs = append(jobs, job{s.Name, en})
		}
	}
	ok := r.Parallel(int64(len(jobs)), 1, func(_ int, lo, hi int64) {
		for ji := lo; ji < hi; ji++ {
			j := jobs[ji]
			// quick: this sweep fills the fresh-outcome table from its rolling runtime (re-created after every failure);
			// thorough: every faulted call is also executed as the first call of a brand-new runtime and compared
			t := newTracker(r, "single", r.Pick(freshNone, freshCompute))
			fs := faultsFor(j.entry, j.shape)
			var thrown *outcome // outcome of throw@k, the reference of the other catchable routes at the same k
			reached := -1       // smallest limit under which the call completed
			for fi, f := range fs {
				if expired(r) {
					return
				}
				if f.Kind == "limit" && reached >= 0 && f.K != maxLimit && r.Quick() {
					// the execution is deterministic and never got deeper than `reached`: a larger limit cannot fire
					// (quick tier: only the largest limit is still executed; the thorough tier executes them all)
					r.Add("limits_implied_by_monotonicity", 1)
					continue
				}
				c := Call{Entry: j.entry, Shape: j.shape, Faults: []Fault{f}}
				seq := []Call{c}
				if f.Kind == "limit" {
					seq = append(seq, c) // same limit again: same outcome
				}
				seq = append(seq, Call{Entry: j.entry, Shape: j.shape}, sentinels[(int(ji)+fi)%len(sentinels)])
				if r.Thorough() {
					seq = append(seq, sentinels[(int(ji)+fi+5)%len(sentinels)])
				}
				before := t.w.m
				o, pass := t.do(seq)
				r.Outcome(f.Kind + "|" + o.Err + "|" + fmt.Sprint(o.Fired))
				if f.Kind == "limit" && o.Err != "overflow" && reached < 0 && pass {
					reached = f.K
				}
				if !isStateful(j.shape) {
					if pass {
						freshTab.LoadOrStore(c.String(), o)
					}
					// route differential: all catchable ways of failing at the same probe are indistinguishable to the script
					if f.Kind == "throw" {
						thrown = o
					} else if catchable(f.Kind) && isLogKind(f.Kind) && thrown != nil && pass {
						want := thrown.Err
						if want == "exc:payload" {
							want = excClass(f.Kind)
						}
						if !eq(normLog(o.Log), normLog(thrown.Log)) || o.Val != thrown.Val || o.Err != want {
							sig := "route-differs|" + f.Kind + "|" + boundary(j.entry) + "|" + family(j.shape)
							what := fmt.Sprintf("%v: %v; the same failure raised by a JS throw statement in log(): %v", c, o, thrown)
							if confirmRoute(c) {
								r.Violation(sig, what, Case{Part: "route", History: []Call{c}, Detail: what})
							} else {
								r.Violation("history-dependent|"+sig, what, Case{Part: "single", History: append([]Call{}, t.rolling...), Detail: what})
							}
						}
					}
				}
				if (o.Fired > 0 || o.Err == "overflow") && (fi == len(fs)/3 || fi == len(fs)/3+1 || f.Kind == "limit" && f.K == 3) {
					smp := map[string]interface{}{"call": c.String(), "followed_by": callNames(seq[1:]), "log": o.Log, "host_received": o.Err, "fault_fired": o.Fired > 0 || o.Err == "overflow"}
					if isStateful(j.shape) {
						smp["model_state_before"] = before.key()
						smp["model_state_after"] = t.w.m.key()
					} else {
						smp["unfaulted_log"] = rd.base[callKey(j.entry, j.shape)].Log
					}
					r.Sample(smp)
				}
			}
		}
	})
	r.Set("single_call_sweep", fmt.Sprintf("%d shapes x %d entry kinds x (every log position x %d payload kinds + every native position + limits 0..%d)", len(allShapes)-len(scripts), len(entries), len(logKinds), maxLimit)+fmt.Sprintf(" + %d top-level scripts x the same faults", len(scripts)))
	return ok
}

func callNames(cs []Call) []string {
	var out []string
	for _, c := range cs {
		out = append(out, c.String())
	}
	return out
}

// routeFails compares a catchable native failure with the JS throw at the same probe on a brand-new runtime.
func routeFails(c Call) bool {
	w := newWorld()
	ref := Call{Entry: c.Entry, Shape: c.Shape, Faults: []Fault{{"throw", c.Faults[0].K}}}
	a := w.e.exec(ref.Entry, ref.Shape, ref.Faults...)
	o := w.e.exec(c.Entry, c.Shape, c.Faults...)
	want := a.Err
	if want == "exc:payload" {
		want = excClass(c.Faults[0].Kind)
	}
	return !eq(normLog(o.Log), normLog(a.Log)) || o.Val != a.Val || o.Err != want
}

func confirmRoute(c Call) bool {
	for i := 0; i < 5; i++ {
		if !routeFails(c) {
			return false
		}
	}
	return true
}
