package c03

import (
	"testing"
	"verif/lib/shapes"
)

func BenchmarkNewEnv(b *testing.B) {
	for i := 0; i < b.N; i++ {
		newEnv()
	}
}
func BenchmarkShapesNew(b *testing.B) {
	for i := 0; i < b.N; i++ {
		shapes.New()
	}
}
func BenchmarkJudge(b *testing.B) {
	w := newWorld()
	getRef()
	b.ResetTimer()
	for i := 0; i < b.N; i++ {
		w.judgeCall(Call{Entry: "run", Shape: "tryfinally", Faults: []Fault{{"throw", 2}}}, true)
	}
}
func BenchmarkExec(b *testing.B) {
	w := newWorld()
	b.ResetTimer()
	for i := 0; i < b.N; i++ {
		w.e.exec("run", "tryfinally")
	}
}
func BenchmarkProbe(b *testing.B) {
	w := newWorld()
	b.ResetTimer()
	for i := 0; i < b.N; i++ {
		w.e.probe()
	}
}
