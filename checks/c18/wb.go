package c18

// White-box walker of goja's orderedMap (map.go) through reflect + unsafe, read-only.
//
// The property's record says hook_needed: null, so instead of an accessor file inside /repo the
// walker discovers the layout of the unexported structs at start-up from live values
// (Object.self -> *mapObject/*setObject/*baseObject -> *orderedMap -> *mapEntry, and
// *mapIterObject/*setIterObject -> *orderedMapIter) and then reads the fields by offset.
// If a field it needs is missing (goja refactored), layout discovery fails and the check reports
// that as a violation of its own trusted base rather than silently dropping the white-box oracle.

import (
	"fmt"
	"math"
	"reflect"
	"unsafe"

	"github.com/dop251/goja"
)

type wbLayout struct {
	err string

	selfIdx int // index of field "self" in goja.Object

	omType                             reflect.Type // orderedMap
	omHashTable, omFirst, omLast       uintptr
	omSize                             uintptr
	htType                             reflect.Type // map[uint64]*mapEntry
	eKey, eValue, ePrev, eNext, eHNext uintptr
	itM, itCur                         uintptr

	// per concrete implementation type: index path of the *orderedMap field ("m" / "symValues")
	// resp. of the *orderedMapIter field ("iter")
	omField map[reflect.Type][]int
	itField map[reflect.Type][]int
}

var wb = &wbLayout{}

func fieldOff(t reflect.Type, name string, kind reflect.Kind) (uintptr, reflect.Type, error) {
	f, ok := t.FieldByName(name)
	if !ok {
		return 0, nil, fmt.Errorf("%s has no field %q", t, name)
	}
	if len(f.Index) != 1 {
		return 0, nil, fmt.Errorf("%s.%s is promoted", t, name)
	}
	if f.Type.Kind() != kind {
		return 0, nil, fmt.Errorf("%s.%s is %s, want kind %s", t, name, f.Type, kind)
	}
	return f.Offset, f.Type, nil
}

// selfOf returns the reflect.Value of the concrete implementation pointer stored in o.self.
func (l *wbLayout) selfOf(o *goja.Object) reflect.Value {
	return reflect.ValueOf(o).Elem().Field(l.selfIdx).Elem()
}

func (l *wbLayout) init() {
	defer func() {
		if x := recover(); x != nil {
			l.err = fmt.Sprint("layout discovery panicked: ", x)
		}
	}()
	vm := goja.New()
	ot := reflect.TypeOf(&goja.Object{}).Elem()
	sf, ok := ot.FieldByName("self")
	if !ok || len(sf.Index) != 1 {
		l.err = "goja.Object has no field self"
		return
	}
	l.selfIdx = sf.Index[0]
	l.omField = map[reflect.Type][]int{}
	l.itField = map[reflect.Type][]int{}

	mv, err := vm.RunString(`new Map()`)
	if err != nil {
		l.err = err.Error()
		return
	}
	self := l.selfOf(mv.(*goja.Object))
	if self.Kind() != reflect.Ptr || self.Elem().Kind() != reflect.Struct {
		l.err = "Map implementation is not a struct pointer"
		return
	}
	mf, ok := self.Elem().Type().FieldByName("m")
	if !ok || mf.Type.Kind() != reflect.Ptr || mf.Type.Elem().Kind() != reflect.Struct {
		l.err = "mapObject.m not found"
		return
	}
	l.omType = mf.Type.Elem()
	var e error
	fail := func() bool {
		if e != nil {
			l.err = e.Error()
			return true
		}
		return false
	}
	var et reflect.Type
	if l.omHashTable, l.htType, e = fieldOff(l.omType, "hashTable", reflect.Map); fail() {
		return
	}
	if l.omFirst, et, e = fieldOff(l.omType, "iterFirst", reflect.Ptr); fail() {
		return
	}
	if l.omLast, _, e = fieldOff(l.omType, "iterLast", reflect.Ptr); fail() {
		return
	}
	if l.omSize, _, e = fieldOff(l.omType, "size", reflect.Int); fail() {
		return
	}
	if l.htType.Key().Kind() != reflect.Uint64 || l.htType.Elem() != et {
		l.err = "unexpected hashTable type " + l.htType.String()
		return
	}
	et = et.Elem()
	var kt reflect.Type
	if l.eKey, kt, e = fieldOff(et, "key", reflect.Interface); fail() {
		return
	}
	if kt != reflect.TypeOf((*goja.Value)(nil)).Elem() {
		l.err = "mapEntry.key is not a goja.Value"
		return
	}
	if l.eValue, kt, e = fieldOff(et, "value", reflect.Interface); fail() {
		return
	}
	if kt != reflect.TypeOf((*goja.Value)(nil)).Elem() {
		l.err = "mapEntry.value is not a goja.Value"
		return
	}
	if l.ePrev, _, e = fieldOff(et, "iterPrev", reflect.Ptr); fail() {
		return
	}
	if l.eNext, _, e = fieldOff(et, "iterNext", reflect.Ptr); fail() {
		return
	}
	if l.eHNext, _, e = fieldOff(et, "hNext", reflect.Ptr); fail() {
		return
	}
	iv, err := vm.RunString(`new Map().entries()`)
	if err != nil {
		l.err = err.Error()
		return
	}
	iself := l.selfOf(iv.(*goja.Object))
	itf, ok := iself.Elem().Type().FieldByName("iter")
	if !ok || itf.Type.Kind() != reflect.Ptr {
		l.err = "mapIterObject.iter not found"
		return
	}
	if l.itM, kt, e = fieldOff(itf.Type.Elem(), "m", reflect.Ptr); fail() {
		return
	}
	if kt.Elem() != l.omType {
		l.err = "orderedMapIter.m is not *orderedMap"
		return
	}
	if l.itCur, _, e = fieldOff(itf.Type.Elem(), "cur", reflect.Ptr); fail() {
		return
	}
}

// omOf returns the address of the orderedMap behind a Map, a Set or the symbol-property table of an
// ordinary object (nil if the object has no such table (yet)).
func (l *wbLayout) omOf(o *goja.Object) (unsafe.Pointer, error) {
	self := l.selfOf(o)
	if self.Kind() != reflect.Ptr || self.IsNil() {
		return nil, fmt.Errorf("object implementation %s is not a pointer", self.Type())
	}
	t := self.Type()
	idx, ok := l.omField[t]
	if !ok {
		st := t.Elem()
		if f, ok := st.FieldByName("m"); ok && f.Type.Kind() == reflect.Ptr && f.Type.Elem() == l.omType {
			idx = f.Index
		} else if f, ok := st.FieldByName("symValues"); ok && f.Type.Kind() == reflect.Ptr && f.Type.Elem() == l.omType {
			idx = f.Index
		}
		l.omField[t] = idx
	}
	if idx == nil {
		return nil, fmt.Errorf("%s has no orderedMap field", t)
	}
	return self.Elem().FieldByIndex(idx).UnsafePointer(), nil
}

type wbDump struct {
	size     int
	live     []unsafe.Pointer // entries on the iterFirst/iterNext chain
	keys     []goja.Value
	vals     []goja.Value
	maxChain int // longest hash chain
	buckets  int
	problems []string
}

func ptrAt(p unsafe.Pointer, off uintptr) unsafe.Pointer {
	return *(*unsafe.Pointer)(unsafe.Add(p, off))
}

func valAt(p unsafe.Pointer, off uintptr) goja.Value {
	return *(*goja.Value)(unsafe.Add(p, off))
}

const wbBound = 256

// walk checks the structural invariants of one orderedMap:
//   - iterFirst..iterLast is a nil-terminated doubly linked list of live entries (key != nil) whose
//     length is size, with consistent back links;
//   - the hash chains partition exactly these entries, contain no removed entry and no empty chain, and
//     (for number keys, whose hash is a pure function of the value) hang under the right hash.
func (l *wbLayout) walk(om unsafe.Pointer) *wbDump {
	d := &wbDump{}
	if om == nil {
		return d
	}
	bad := func(f string, a ...interface{}) {
		if len(d.problems) < 8 {
			d.problems = append(d.problems, fmt.Sprintf(f, a...))
		}
	}
	d.size = *(*int)(unsafe.Add(om, l.omSize))
	first, last := ptrAt(om, l.omFirst), ptrAt(om, l.omLast)
	if (first == nil) != (last == nil) {
		bad("iterFirst/iterLast: exactly one of them is nil")
	}
	isLive := func(e unsafe.Pointer) bool {
		for _, x := range d.live {
			if x == e {
				return true
			}
		}
		return false
	}
	var prev unsafe.Pointer
	for e := first; e != nil; e = ptrAt(e, l.eNext) {
		if len(d.live) >= wbBound {
			bad("iterNext chain longer than %d (cycle?)", wbBound)
			break
		}
		if isLive(e) {
			bad("iterNext chain revisits an entry (cycle)")
			break
		}
		k := valAt(e, l.eKey)
		if k == nil {
			bad("removed entry (key==nil) is on the live iterNext chain at position %d", len(d.live))
		}
		if ptrAt(e, l.ePrev) != prev {
			bad("iterPrev of live entry %d does not point to its predecessor", len(d.live))
		}
		d.live = append(d.live, e)
		d.keys = append(d.keys, k)
		d.vals = append(d.vals, valAt(e, l.eValue))
		prev = e
	}
	if len(d.problems) == 0 && prev != last {
		bad("iterLast is not the last entry of the iterNext chain")
	}
	if d.size != len(d.live) {
		bad("size field %d != %d entries on the live chain", d.size, len(d.live))
	}
	ht := reflect.NewAt(l.htType, unsafe.Add(om, l.omHashTable)).Elem()
	if ht.IsNil() {
		bad("hashTable is nil")
		return d
	}
	var seen []unsafe.Pointer
	isSeen := func(e unsafe.Pointer) bool {
		for _, x := range seen {
			if x == e {
				return true
			}
		}
		return false
	}
	it := ht.MapRange()
	for it.Next() {
		h := it.Key().Uint()
		head := it.Value().UnsafePointer()
		d.buckets++
		if head == nil {
			bad("hashTable has an empty chain")
			continue
		}
		n := 0
		for e := head; e != nil; e = ptrAt(e, l.eHNext) {
			n++
			if n > wbBound {
				bad("hNext chain longer than %d (cycle?)", wbBound)
				break
			}
			if isSeen(e) {
				bad("entry is on two hash chains or twice on one")
				break
			}
			seen = append(seen, e)
			k := valAt(e, l.eKey)
			if k == nil {
				bad("removed entry (key==nil) is still on a hash chain")
				continue
			}
			if !isLive(e) {
				bad("hash chain entry is not on the live iterNext chain")
			}
			switch x := k.Export().(type) {
			case int64:
				if goja.VerifRepr(k) == "int" && h != uint64(x) {
					bad("integer key %d hangs under hash %#x", x, h)
				}
			case float64:
				want := math.Float64bits(x)
				if x == 0 {
					want = 0
				}
				if goja.VerifRepr(k) == "float" && h != want {
					bad("float key %v hangs under hash %#x, want %#x", x, h, want)
				}
			}
		}
		if n > d.maxChain {
			d.maxChain = n
		}
	}
	if len(seen) != len(d.live) && len(d.problems) == 0 {
		bad("hash chains hold %d entries, live chain %d", len(seen), len(d.live))
	}
	return d
}

// wbIter describes the hidden state of a Map/Set iterator object.
type wbIter struct {
	done     bool // iterator object dropped its orderedMapIter, or that one is closed
	curNil   bool
	curLive  bool
	back     int            // number of removed entries walked back over (iterPrev) from cur
	endsNil  bool           // the walk back ended at nil (=> next() restarts at iterFirst)
	resolved unsafe.Pointer // live entry the walk back ended at
	problem  string
}

func (l *wbLayout) iterOf(o *goja.Object) (res wbIter) {
	self := l.selfOf(o)
	t := self.Type()
	idx, ok := l.itField[t]
	if !ok {
		if f, ok := t.Elem().FieldByName("iter"); ok && f.Type.Kind() == reflect.Ptr {
			idx = f.Index
		}
		l.itField[t] = idx
	}
	if idx == nil {
		res.problem = t.String() + " has no iter field"
		return
	}
	it := self.Elem().FieldByIndex(idx).UnsafePointer()
	if it == nil || ptrAt(it, l.itM) == nil {
		res.done = true
		return
	}
	cur := ptrAt(it, l.itCur)
	if cur == nil {
		res.curNil = true
		res.endsNil = true
		return
	}
	if valAt(cur, l.eKey) != nil {
		res.curLive = true
		res.resolved = cur
		return
	}
	for cur != nil && valAt(cur, l.eKey) == nil {
		res.back++
		if res.back > wbBound {
			res.problem = "iterPrev chain of removed entries does not end (cycle?)"
			return
		}
		cur = ptrAt(cur, l.ePrev)
	}
	if cur == nil {
		res.endsNil = true
	} else {
		res.resolved = cur
	}
	return
}
