package c18

import (
	"fmt"
	"math/big"
	"os"
	"strings"
	"unsafe"

	"verif/ref/mapmodel"

	"github.com/dop251/goja"
)

type collKind int

const (
	collMap collKind = iota
	collSet
	collSym // the symbol-property table of an ordinary object
)

func (c collKind) String() string { return [...]string{"Map", "Set", "SymTab"}[c] }

// iterator kinds (Cursor.Kind)
const (
	kEntries = iota
	kKeys
	kValues
	kSymIter // collection[Symbol.iterator]() (what for-of uses)
	kForEach // Map/Set.prototype.forEach in progress
	kAssign  // SymTab only: Object.assign({}, obj) in progress
	kSpread  // SymTab only: ({...obj}) in progress
	nKinds
)

var kindNames = [...]string{"entries", "keys", "values", "@@iterator", "forEach", "assign", "spread"}

type opKind uint8

const (
	opSet     opKind = iota // A = rep: Map.set(k, v) / Set.add(k) / define symbol property
	opDel                   // A = rep
	opClear                 //
	opIter                  // A = iterator kind: create an iterator object
	opForEach               // A = kForEach|kSpread: start a callback-driven iteration; following ops run inside its callback
	opNext                  // A = cursor index: iterator.next() resp. return from the current callback
	opDrop                  // A = cursor index: stop using the iterator resp. throw out of the callback
)

type op struct {
	K opKind
	A uint8
}

var opNames = func() (t [7][256]string) {
	for k := 0; k < 7; k++ {
		for a := 0; a < 256; a++ {
			if (k == int(opSet) || k == int(opDel)) && a >= len(repDefs) || (k == int(opIter) || k == int(opForEach)) && a >= nKinds {
				continue
			}
			t[k][a] = op{opKind(k), uint8(a)}.name()
		}
	}
	return
}()

func (o op) String() string { return opNames[o.K][o.A] }

func (o op) name() string {
	switch o.K {
	case opSet:
		return "set(" + repDefs[o.A].name + ")"
	case opDel:
		return "delete(" + repDefs[o.A].name + ")"
	case opClear:
		return "clear()"
	case opIter:
		return "it=" + kindNames[o.A] + "()"
	case opForEach:
		return kindNames[o.A] + "{"
	case opNext:
		return fmt.Sprintf("next#%d", o.A)
	case opDrop:
		return fmt.Sprintf("drop#%d", o.A)
	}
	return "?"
}

func opsString(ops []op) []string {
	res := make([]string, len(ops))
	for i, o := range ops {
		res[i] = o.String()
	}
	return res
}

func parseOp(s string) (op, error) {
	for k := 0; k < nKinds; k++ {
		if s == "it="+kindNames[k]+"()" {
			return op{opIter, uint8(k)}, nil
		}
		if s == kindNames[k]+"{" {
			return op{opForEach, uint8(k)}, nil
		}
	}
	var n int
	switch {
	case s == "clear()":
		return op{K: opClear}, nil
	case strings.HasPrefix(s, "set(") && strings.HasSuffix(s, ")"):
		if i, ok := repByName[s[4:len(s)-1]]; ok {
			return op{opSet, uint8(i)}, nil
		}
	case strings.HasPrefix(s, "delete(") && strings.HasSuffix(s, ")"):
		if i, ok := repByName[s[7:len(s)-1]]; ok {
			return op{opDel, uint8(i)}, nil
		}
	case strings.HasPrefix(s, "next#"):
		if _, err := fmt.Sscanf(s, "next#%d", &n); err == nil {
			return op{opNext, uint8(n)}, nil
		}
	case strings.HasPrefix(s, "drop#"):
		if _, err := fmt.Sscanf(s, "drop#%d", &n); err == nil {
			return op{opDrop, uint8(n)}, nil
		}
	}
	return op{}, fmt.Errorf("cannot parse op %q", s)
}

// env is one worker's runtime with everything pre-resolved.
type env struct {
	vm        *goja.Runtime
	wb        *wbLayout
	fixed     []goja.Value
	keepAlive []interface{}

	mapCtor, setCtor goja.Value
	// [collMap|collSet] method tables
	set, get, has, del, clear, size, forEach [2]goja.Callable
	mkIter                                   [2][4]goja.Callable
	iterNext                                 [2]goja.Callable

	// symbol table helpers (JS)
	symDefine, symDelete, symHas, symGet, symList, symOwnKeys, symAssign, symSpread, symNewObj, symPut goja.Callable

	cur *run // the run the JS-visible callbacks belong to
	cb  goja.Value
}

type abortT struct{}

func newEnv() (*env, error) {
	e := &env{vm: goja.New(), wb: &wbLayout{}}
	e.wb.init()
	if e.wb.err != "" {
		return nil, fmt.Errorf("white-box layout: %s", e.wb.err)
	}
	if err := e.buildReps(); err != nil {
		return nil, err
	}
	vm := e.vm
	fn := func(src string) goja.Callable {
		v, err := vm.RunString(src)
		if err != nil {
			panic(err)
		}
		f, ok := goja.AssertFunction(v)
		if !ok {
			panic("not a function: " + src)
		}
		return f
	}
	for i, name := range []string{"Map", "Set"} {
		adder := "set"
		if i == 1 {
			adder = "add"
		}
		e.set[i] = fn(name + ".prototype." + adder)
		if i == 0 {
			e.get[i] = fn(name + ".prototype.get")
		}
		e.has[i] = fn(name + ".prototype.has")
		e.del[i] = fn(name + ".prototype.delete")
		e.clear[i] = fn(name + ".prototype.clear")
		e.size[i] = fn("Object.getOwnPropertyDescriptor(" + name + ".prototype,'size').get")
		e.forEach[i] = fn(name + ".prototype.forEach")
		e.mkIter[i][kEntries] = fn(name + ".prototype.entries")
		e.mkIter[i][kKeys] = fn(name + ".prototype.keys")
		e.mkIter[i][kValues] = fn(name + ".prototype.values")
		e.mkIter[i][kSymIter] = fn(name + ".prototype[Symbol.iterator]")
		e.iterNext[i] = fn("Object.getPrototypeOf(new " + name + "().entries()).next")
	}
	e.mapCtor = vm.Get("Map")
	e.setCtor = vm.Get("Set")
	e.cb = vm.ToValue(func(call goja.FunctionCall) goja.Value { return e.cur.callback(call) })
	vm.Set("__c18cb", e.cb)
	// every symbol property is an enumerable accessor whose getter reports to the checker, so that a
	// copy in progress (Object.assign / spread) calls back at each property it reaches
	e.symDefine = fn(`(function(o,s,id,v){Object.defineProperty(o,s,{get:function(){return __c18cb(id,v)},enumerable:true,configurable:true})})`)
	e.symDelete = fn(`(function(o,s){return delete o[s]})`)
	e.symHas = fn(`(function(o,s){return Object.prototype.hasOwnProperty.call(o,s)})`)
	e.symGet = fn(`(function(o,s){return o[s]})`)
	e.symList = fn(`(function(o){return Object.getOwnPropertySymbols(o)})`)
	e.symOwnKeys = fn(`(function(o){return Reflect.ownKeys(o)})`)
	e.symAssign = fn(`(function(o){return Object.assign({},o)})`)
	e.symSpread = fn(`(function(o){return {...o}})`)
	e.symNewObj = fn(`(function(){return {x:1}})`)
	e.symPut = fn(`(function(o,s,v){o[s]=v})`)
	return e, nil
}

type failure struct{ sig, what string }

type expectation struct {
	c   *mapmodel.Cursor
	ok  bool
	ent mapmodel.Entry
}

type loopRet int

const (
	retEnd loopRet = iota
	retNext
	retAbort
	retFail
)

type stateInfo struct {
	key        string
	nontrivial bool
	maxChain   int
	enabled    []op
}

// run executes one op path in lock-step on a fresh real collection and on the model.
type run struct {
	e    *env
	coll collKind
	cfg  *config
	ops  []op
	pc   int

	m     *mapmodel.Model
	obj   *goja.Object
	iters []*goja.Object // parallel to m.Cursors (nil for callback-driven cursors)
	fe    []*mapmodel.Cursor

	expect    *expectation
	fail      *failure
	finalDone bool
	draining  bool
	sweepAll  bool // replay mode: full observation sweep after every op
	inGet     bool // SymTab: a getter call issued by the checker's own get observation
	gotGet    goja.Value
	cbCount   int
	lastOp    string

	info   stateInfo
	symCur map[*mapmodel.Cursor]*symCursor
	counts struct{ steps, observations, drain, wbWalks, liveNotSnapshot int64 }
	out    func(string) // outcome sink
}

func (r *run) failf(sig, format string, a ...interface{}) {
	if r.fail == nil {
		r.fail = &failure{sig: r.coll.String() + "|" + sig, what: fmt.Sprintf(format, a...)}
	}
}

func (r *run) outcome(s string) {
	if r.out != nil {
		r.out(s)
	}
}

func (r *run) storedRep(c class) string {
	for _, e := range r.m.Entries {
		if !e.Empty && e.Class == int(c) {
			return repDefs[e.Rep].name
		}
	}
	return "absent"
}

func (r *run) execute() {
	defer func() {
		if x := recover(); x != nil {
			if _, ok := x.(abortT); ok && r.fail != nil {
				return
			}
			msg := fmt.Sprint(x)
			if ex, ok := x.(*goja.Exception); ok {
				msg = ex.Error()
			}
			if len(msg) > 120 {
				msg = msg[:120]
			}
			r.failf("panic|"+r.lastOp+"|"+stripDigits(msg), "Go panic / uncaught exception during %s: %v", r.lastOp, x)
		}
	}()
	e := r.e
	e.cur = r
	r.m = &mapmodel.Model{}
	var v goja.Value
	var err error
	switch r.coll {
	case collMap:
		v, err = e.vm.New(e.mapCtor)
	case collSet:
		v, err = e.vm.New(e.setCtor)
	default:
		v, err = e.symNewObj(goja.Undefined())
	}
	if err != nil {
		r.failf("new", "cannot create the collection: %v", err)
		return
	}
	r.obj = v.(*goja.Object)
	r.loop()
}

func stripDigits(s string) string {
	var sb strings.Builder
	for _, c := range s {
		if c >= '0' && c <= '9' {
			continue
		}
		sb.WriteRune(c)
	}
	return sb.String()
}

func (r *run) loop() loopRet {
	for r.fail == nil {
		if r.pc == len(r.ops) {
			if !r.finalDone {
				r.finalDone = true
				r.atEnd()
				if r.fail != nil {
					return retFail
				}
			}
			return retEnd
		}
		o := r.ops[r.pc]
		r.pc++
		r.lastOp = o.String()
		r.counts.steps++
		switch o.K {
		case opSet:
			r.doSet(int(o.A))
		case opDel:
			r.doDel(int(o.A))
		case opClear:
			r.m.Clear()
			if _, err := r.e.clear[r.coll](r.obj); err != nil {
				r.failf("clear|threw", "clear() threw %v", err)
			}
		case opIter:
			r.m.NewCursor(int(o.A))
			v, err := r.e.mkIter[r.coll][o.A](r.obj)
			if err != nil {
				r.failf("iter|threw", "%s() threw %v", kindNames[o.A], err)
				break
			}
			r.iters = append(r.iters, v.(*goja.Object))
		case opForEach:
			r.startForEach(int(o.A))
		case opNext:
			i := int(o.A)
			if i >= len(r.m.Cursors) {
				r.failf("harness", "next#%d: no such cursor", i)
				break
			}
			c := r.m.Cursors[i]
			if r.iters[i] == nil {
				if len(r.fe) == 0 || r.fe[len(r.fe)-1] != c {
					r.failf("harness", "next#%d: not the innermost callback iteration", i)
					break
				}
				r.advanceFE(c)
				return retNext
			}
			r.doNext(i)
		case opDrop:
			i := int(o.A)
			if i >= len(r.m.Cursors) {
				r.failf("harness", "drop#%d: no such cursor", i)
				break
			}
			c := r.m.Cursors[i]
			if r.iters[i] == nil {
				if len(r.fe) == 0 || r.fe[len(r.fe)-1] != c {
					r.failf("harness", "drop#%d: not the innermost callback iteration", i)
					break
				}
				r.dropCursor(c)
				return retAbort
			}
			r.dropCursor(c)
		}
		if r.fail == nil && r.sweepAll && r.pc < len(r.ops) {
			r.sweep(true)
		}
	}
	return retFail
}

func (r *run) dropCursor(c *mapmodel.Cursor) {
	for i, x := range r.m.Cursors {
		if x == c {
			r.m.Drop(i)
			r.iters = append(r.iters[:i:i], r.iters[i+1:]...)
			return
		}
	}
}

func (r *run) val(step int) int { return 1000 + step }

func (r *run) doSet(rep int) {
	e := r.e
	d := repDefs[rep]
	val := r.val(r.pc)
	r.m.Set(int(d.class), rep, val)
	k := e.rep(rep)
	switch r.coll {
	case collMap:
		res, err := e.set[0](r.obj, k, e.vm.ToValue(val))
		if err != nil {
			r.failf("set|threw", "set(%s) threw %v", d.name, err)
		} else if res != goja.Value(r.obj) {
			r.failf("set|result", "set(%s) did not return the map", d.name)
		}
	case collSet:
		res, err := e.set[1](r.obj, k)
		if err != nil {
			r.failf("add|threw", "add(%s) threw %v", d.name, err)
		} else if res != goja.Value(r.obj) {
			r.failf("add|result", "add(%s) did not return the set", d.name)
		}
	case collSym:
		if isDataRep(rep) {
			if _, err := e.symPut(goja.Undefined(), r.obj, k, e.vm.ToValue(val)); err != nil {
				r.failf("put|threw", "o[%s]=v threw %v", d.name, err)
			}
			break
		}
		if _, err := e.symDefine(goja.Undefined(), r.obj, k, e.vm.ToValue(rep), e.vm.ToValue(val)); err != nil {
			r.failf("define|threw", "defineProperty(%s) threw %v", d.name, err)
		}
	}
}

func (r *run) doDel(rep int) {
	e := r.e
	d := repDefs[rep]
	stored := r.storedRep(d.class)
	want := r.m.Delete(int(d.class))
	k := e.rep(rep)
	var res goja.Value
	var err error
	if r.coll == collSym {
		res, err = e.symDelete(goja.Undefined(), r.obj, k)
		if err == nil && !res.ToBoolean() {
			r.failf("delete|false", "delete o[%s] returned false", d.name)
		}
		return
	}
	res, err = e.del[r.coll](r.obj, k)
	if err != nil {
		r.failf("delete|threw", "delete(%s) threw %v", d.name, err)
		return
	}
	got := res.ToBoolean()
	if got {
		r.outcome("delete->true")
	} else {
		r.outcome("delete->false")
	}
	if got != want {
		r.failf(fmt.Sprintf("delete|key=%s|stored=%s|got=%v", d.name, stored, got),
			"delete(%s) returned %v, an insertion-ordered SameValueZero list (entry stored as %s) gives %v", d.name, got, stored, want)
	}
}

// implNext calls iterator.next() and decodes the result.
func (r *run) implNext(it *goja.Object, kind int) (done bool, k, v goja.Value) {
	e := r.e
	ci := 0
	if r.coll == collSet {
		ci = 1
	}
	res, err := e.iterNext[ci](it)
	if err != nil {
		r.failf("next|threw", "iterator.next() threw %v", err)
		return true, nil, nil
	}
	ro, ok := res.(*goja.Object)
	if !ok {
		r.failf("next|result-not-object", "iterator.next() returned %v", res)
		return true, nil, nil
	}
	dv := ro.Get("done")
	if dv == nil || dv.ExportType() == nil || dv.ExportType().Kind().String() != "bool" {
		r.failf("next|done-not-boolean", "iterator result has done=%v", dv)
		return true, nil, nil
	}
	val := ro.Get("value")
	if dv.ToBoolean() {
		if val != nil && !goja.IsUndefined(val) {
			r.failf("next|done-with-value", "iterator result {done:true} carries value %v", val)
		}
		return true, nil, nil
	}
	pair := func() (goja.Value, goja.Value) {
		po, ok := val.(*goja.Object)
		if !ok || po.ClassName() != "Array" {
			r.failf("next|entry-not-array", "entries iterator yielded %v", val)
			return nil, nil
		}
		if po.Get("length").ToInteger() != 2 {
			r.failf("next|entry-length", "entries iterator yielded an array of length %v", po.Get("length"))
			return nil, nil
		}
		return po.Get("0"), po.Get("1")
	}
	if r.coll == collSet {
		switch kind {
		case kEntries:
			a, b := pair()
			if r.fail == nil && !sameRaw(a, b) {
				r.failf("next|set-entry-pair", "Set entries iterator yielded [%v, %v]", a, b)
			}
			return false, a, nil
		default:
			return false, val, nil
		}
	}
	switch kind {
	case kKeys:
		return false, val, nil
	case kValues:
		return false, nil, val
	default:
		a, b := pair()
		return false, a, b
	}
}

// sameRaw: identical primitive (by exported value) or identical reference.
func sameRaw(a, b goja.Value) bool {
	if a == nil || b == nil {
		return a == nil && b == nil
	}
	switch a.(type) {
	case *goja.Object, *goja.Symbol:
		return a == b
	}
	switch b.(type) {
	case *goja.Object, *goja.Symbol:
		return false
	}
	ax, bx := a.Export(), b.Export()
	if af, ok := ax.(float64); ok {
		bf, ok := bx.(float64)
		return ok && (af == bf || af != af && bf != bf)
	}
	if ab, ok := ax.(*big.Int); ok {
		bb, ok := bx.(*big.Int)
		return ok && ab.Cmp(bb) == 0
	}
	return ax == bx
}

func (r *run) entryString(ent mapmodel.Entry) string {
	if r.coll == collMap {
		return fmt.Sprintf("[%s => %d]", repDefs[ent.Rep].name, ent.Val)
	}
	return repDefs[ent.Rep].name
}

// checkEntry compares a key (and value) handed out by the implementation with a model entry.
// k == nil / v == nil mean "this route does not expose it".
func (r *run) checkEntry(where string, ent mapmodel.Entry, k, v goja.Value) bool {
	return r.checkEntryTag(where, "", ent, k, v)
}

func (r *run) checkEntryTag(where, tag string, ent mapmodel.Entry, k, v goja.Value) bool {
	if k != nil {
		c, neg := r.e.classify(k)
		if int(c) != ent.Class {
			r.failf(where+tag+"|wrong-key", "%s: got key %v (%s), want %s", where, k, goja.VerifRepr(k), r.entryString(ent))
			return false
		}
		if neg {
			r.failf(where+tag+"|negative-zero-key", "%s: handed out -0 as a key (must be normalised to +0)", where)
			return false
		}
	}
	if v != nil && r.coll == collMap {
		if x, ok := v.Export().(int64); !ok || int(x) != ent.Val {
			r.failf(where+tag+"|wrong-value", "%s: got value %v for key %s, want %d", where, v, repDefs[ent.Rep].name, ent.Val)
			return false
		}
	}
	return true
}

func (r *run) doNext(i int) {
	c := r.m.Cursors[i]
	onEmpty, _ := r.m.OnEmpty(c)
	ent, ok := r.m.Next(c)
	done, k, v := r.implNext(r.iters[i], c.Kind)
	if r.fail != nil {
		return
	}
	where := nextNames[c.Kind]
	tag := ""
	ti := 0
	if onEmpty {
		tag = "|cursor-on-removed-entry"
		ti = 1
	}
	switch {
	case done && ok:
		r.failf(where+"|got=done|want=entry"+tag, "%s reported done although %s was still to be visited", where, r.entryString(ent))
	case !done && !ok:
		r.failf(where+"|got=entry|want=done"+tag, "%s yielded key %v although every present entry had been visited / the iterator was exhausted before", where, k)
	case !done:
		r.outcome(nextOutcomes[c.Kind][0][ti])
		r.checkEntryTag(where, tag, ent, k, v)
	default:
		r.outcome(nextOutcomes[c.Kind][1][ti])
	}
}

var nextNames, cbReturned, cbCalled [nKinds]string
var nextOutcomes [nKinds][2][2]string

func init() {
	for k := 0; k < nKinds; k++ {
		nextNames[k] = "next(" + kindNames[k] + ")"
		cbReturned[k] = kindNames[k] + "->returned"
		cbCalled[k] = kindNames[k] + "->callback"
		for t, tag := range []string{"", "|cursor-on-removed-entry"} {
			nextOutcomes[k][0][t] = nextNames[k] + "->entry" + tag
			nextOutcomes[k][1][t] = nextNames[k] + "->done" + tag
		}
	}
}

const cbBound = 200

func (r *run) startForEach(kind int) {
	e := r.e
	c := r.m.NewCursor(kind)
	r.iters = append(r.iters, nil)
	r.fe = append(r.fe, c)
	if r.coll == collSym {
		r.symStart(c)
	}
	r.advanceFE(c)
	var err error
	var res goja.Value
	switch {
	case r.coll == collSym && kind == kSpread:
		res, err = e.symSpread(goja.Undefined(), r.obj)
	case r.coll == collSym:
		res, err = e.symAssign(goja.Undefined(), r.obj)
	default:
		res, err = e.forEach[r.coll](r.obj, e.cb)
	}
	r.fe = r.fe[:len(r.fe)-1]
	if r.fail != nil {
		return
	}
	if err != nil {
		if ex, ok := err.(*goja.Exception); ok && ex.Value().ExportType() != nil && ex.Value().String() == "c18-abort" {
			return // dropped from inside the callback
		}
		r.failf(kindNames[kind]+"|threw", "%s threw %v", kindNames[kind], err)
		return
	}
	exp := r.expect
	r.expect = nil
	if exp == nil || exp.c != c {
		r.failf("harness", "lost the expectation of a callback iteration")
		return
	}
	if r.coll == collSym {
		r.symFinish(c, res)
		if r.fail != nil {
			return
		}
	} else if exp.ok {
		r.failf(kindNames[kind]+"|ended-early", "%s returned although %s was still to be visited", kindNames[kind], r.entryString(exp.ent))
		return
	}
	r.outcome(cbReturned[kind])
	r.dropCursor(c)
}

// callback is the function handed to forEach (args value, key, collection) and the body of every
// symbol-property getter (args rep id, value id).
func (r *run) callback(call goja.FunctionCall) goja.Value {
	e := r.e
	if r.fail != nil {
		panic(abortT{})
	}
	if r.coll == collSym && (r.inGet || len(r.fe) == 0) {
		r.gotGet = call.Argument(1)
		return call.Argument(1)
	}
	r.cbCount++
	if r.cbCount > cbBound {
		r.failf("callback|unbounded", "more than %d callbacks in one path: the iteration does not terminate", cbBound)
		panic(abortT{})
	}
	if len(r.fe) == 0 {
		r.failf("harness", "callback outside an iteration")
		panic(abortT{})
	}
	c := r.fe[len(r.fe)-1]
	name := kindNames[c.Kind]
	exp := r.expect
	r.expect = nil
	if exp == nil || exp.c != c {
		r.failf("harness", "callback without expectation")
		panic(abortT{})
	}
	var k, v goja.Value
	if r.coll == collSym {
		id := int(call.Argument(0).ToInteger())
		if id < 0 || id >= len(repDefs) {
			r.failf("harness", "bad getter id")
			panic(abortT{})
		}
		k = e.fixed[id]
		v = call.Argument(1)
	} else {
		v, k = call.Argument(0), call.Argument(1)
		if call.Argument(2) != goja.Value(r.obj) {
			r.failf(name+"|third-argument", "%s callback's third argument is not the collection", name)
			panic(abortT{})
		}
		if r.coll == collSet {
			if !sameRaw(k, v) {
				r.failf(name+"|set-args-differ", "Set forEach callback got (%v, %v)", v, k)
				panic(abortT{})
			}
			v = nil
		}
	}
	if !exp.ok && r.coll != collSym {
		r.failf(name+"|extra-callback", "%s called back with key %v although every present entry had been visited", name, k)
		panic(abortT{})
	}
	if r.coll == collSym {
		// the spec iterates a snapshot of the keys, goja iterates the live table; C18 only demands what
		// both agree on (see symtab.go): here the expectation is the live-table model
		if !r.checkSymVisit(c, exp, k, v) {
			panic(abortT{})
		}
	} else if !r.checkEntry(name, exp.ent, k, v) {
		panic(abortT{})
	}
	r.outcome(cbCalled[c.Kind])
	if r.draining {
		r.counts.drain++
		r.advanceFE(c)
		return r.cbResult(call)
	}
	switch r.loop() {
	case retNext:
		return r.cbResult(call)
	case retAbort:
		panic(e.vm.ToValue("c18-abort"))
	case retEnd:
		r.draining = true
		r.advanceFE(c)
		return r.cbResult(call)
	}
	panic(abortT{})
}

// advanceFE: the callback of iteration c returns (or the iteration starts): what must happen next.
// For SymTab copies the predictions are advanced when the next getter call arrives (symAdvance).
func (r *run) advanceFE(c *mapmodel.Cursor) {
	if r.coll == collSym {
		r.expect = &expectation{c: c}
		return
	}
	ent, ok := r.m.Next(c)
	r.expect = &expectation{c, ok, ent}
}

func (r *run) cbResult(call goja.FunctionCall) goja.Value {
	if r.coll == collSym {
		return call.Argument(1)
	}
	return goja.Undefined()
}

// atEnd runs at the end of the path (possibly nested inside callbacks): full observation sweep, state
// key, then every iterator object is drained (the collection is thrown away afterwards anyway); the
// callback iterations are drained while the Go stack unwinds.
func (r *run) atEnd() {
	// the read-only observations of the collection's content are repeated only when the last op may
	// have changed the content (the white-box walk, which runs every time, shows that it did not)
	full := r.sweepAll || len(r.ops) == 0
	if !full {
		switch r.ops[len(r.ops)-1].K {
		case opSet, opDel, opClear:
			full = true
		}
	}
	r.sweep(full)
	if r.fail != nil {
		return
	}
	r.computeKey()
	for i, it := range r.iters {
		if it == nil {
			continue
		}
		c := r.m.Cursors[i]
		for n := 0; ; n++ {
			r.lastOp = "drain next"
			wasDone := c.Done
			r.doNext(i)
			r.counts.drain++
			if r.fail != nil {
				return
			}
			if wasDone || n > cbBound {
				break
			}
			if c.Done {
				// one more call: an exhausted iterator stays exhausted
				r.doNext(i)
				r.counts.drain++
				break
			}
		}
	}
	r.lastOp = "drain callbacks"
}

// sweep: every read-only observation the property talks about, compared with the model; first the
// bounded white-box walk, so that a corrupted chain is reported before anything could spin on it.
// noWB (development aid, C18_NO_WB=1) switches the white-box oracle off, to see what the black-box
// oracle alone detects; every sweep is then a full one.
var noWB = os.Getenv("C18_NO_WB") != ""

func (r *run) sweep(full bool) {
	live := r.m.Live()
	if noWB {
		full = true
	} else if !r.sweepWB(live) {
		return
	}
	if !full {
		return
	}
	if r.coll == collSym {
		r.sweepSym(live)
		return
	}
	r.sweepContent(live)
}

// sweepWB: bounded white-box walk of the orderedMap and of every iterator object.
func (r *run) sweepWB(live []mapmodel.Entry) bool {
	e := r.e
	om, err := e.wb.omOf(r.obj)
	if err != nil {
		r.failf("wb|layout", "white-box walker: %v", err)
		return false
	}
	d := e.wb.walk(om)
	r.counts.wbWalks++
	if d.maxChain > r.info.maxChain {
		r.info.maxChain = d.maxChain
	}
	if len(d.problems) > 0 {
		r.failf("wb|"+stripDigits(d.problems[0]), "orderedMap integrity after %s: %s", r.lastOp, strings.Join(d.problems, "; "))
		return false
	}
	if len(d.keys) != len(live) {
		r.failf("wb|live-chain-length", "after %s the live chain holds %d entries %v, the model %d", r.lastOp, len(d.keys), d.keys, len(live))
		return false
	}
	for i, ent := range live {
		var v goja.Value
		if r.coll == collMap {
			v = d.vals[i]
		}
		if !r.checkEntry("wb|live-chain", ent, d.keys[i], v) {
			return false
		}
	}
	for i, it := range r.iters {
		if it == nil {
			continue
		}
		c := r.m.Cursors[i]
		wi := e.wb.iterOf(it)
		switch {
		case wi.problem != "":
			r.failf("wb|iter|"+stripDigits(wi.problem), "iterator #%d: %s", i, wi.problem)
		case wi.done != c.Done:
			r.failf(fmt.Sprintf("wb|iter|done=%v|want=%v", wi.done, c.Done), "iterator #%d: closed=%v, model done=%v", i, wi.done, c.Done)
		case !wi.done:
			p := r.m.Passed(c)
			var want unsafe.Pointer
			if p > 0 {
				want = d.live[p-1]
			}
			if wi.resolved != want {
				r.failf("wb|iter|position", "iterator #%d after %s: walking back from its current entry over %d removed entries ends at live position %d, the model has passed %d live entries",
					i, r.lastOp, wi.back, indexOfPtr(d.live, wi.resolved), p)
			}
		}
		if r.fail != nil {
			return false
		}
	}
	return true
}

// sweepContent: every read-only observation of a Map / Set.
func (r *run) sweepContent(live []mapmodel.Entry) {
	e := r.e
	ci := int(r.coll)
	// size
	sv, err := e.size[ci](r.obj)
	r.counts.observations++
	if err != nil {
		r.failf("size|threw", "size threw %v", err)
		return
	}
	if x, ok := sv.Export().(int64); !ok || int(x) != len(live) {
		r.failf("size", "size is %v after %s, number of live entries is %d", sv, r.lastOp, len(live))
		return
	}
	// has / get for every representation of the configuration
	for _, rep := range r.cfg.probes {
		dd := repDefs[rep]
		want := r.m.Has(int(dd.class))
		hv, err := e.has[ci](r.obj, e.rep(rep))
		r.counts.observations++
		if err != nil {
			r.failf("has|threw", "has(%s) threw %v", dd.name, err)
			return
		}
		got := hv.ToBoolean()
		if got {
			r.outcome("has->true")
		} else {
			r.outcome("has->false")
		}
		if got != want {
			r.failf(fmt.Sprintf("has|probe=%s|stored=%s|got=%v", dd.name, r.storedRep(dd.class), got),
				"has(%s) is %v; the collection holds %v (key stored as %s), SameValueZero lookup gives %v", dd.name, got, r.liveNames(), r.storedRep(dd.class), want)
			return
		}
	}
	if r.coll == collMap {
		for _, rep := range r.cfg.probes {
			dd := repDefs[rep]
			wv, want := r.m.Get(int(dd.class))
			gv, err := e.get[0](r.obj, e.rep(rep))
			r.counts.observations++
			if err != nil {
				r.failf("get|threw", "get(%s) threw %v", dd.name, err)
				return
			}
			switch {
			case !want && !goja.IsUndefined(gv):
				r.failf(fmt.Sprintf("get|probe=%s|stored=absent|got=value", dd.name), "get(%s) returned %v for an absent key", dd.name, gv)
			case want:
				if x, ok := gv.Export().(int64); !ok || int(x) != wv {
					r.failf(fmt.Sprintf("get|probe=%s|stored=%s|wrong", dd.name, r.storedRep(dd.class)), "get(%s) returned %v, want %d", dd.name, gv, wv)
				}
			}
			if r.fail != nil {
				return
			}
		}
	}
	// Go-side export
	r.counts.observations++
	exp := r.obj.Export()
	switch r.coll {
	case collMap:
		a, ok := exp.([][2]interface{})
		if !ok || len(a) != len(live) {
			r.failf("export|shape", "Export() of the Map is %T %v, want %d pairs", exp, exp, len(live))
			return
		}
		for i, ent := range live {
			if !r.exportedMatches(a[i][0], ent) {
				r.failf("export|key", "Export()[%d] has key %#v, want %s", i, a[i][0], repDefs[ent.Rep].name)
				return
			}
			if x, ok := a[i][1].(int64); !ok || int(x) != ent.Val {
				r.failf("export|value", "Export()[%d] has value %#v, want %d", i, a[i][1], ent.Val)
				return
			}
		}
	case collSet:
		a, ok := exp.([]interface{})
		if !ok || len(a) != len(live) {
			r.failf("export|shape", "Export() of the Set is %T %v, want %d elements", exp, exp, len(live))
			return
		}
		for i, ent := range live {
			if !r.exportedMatches(a[i], ent) {
				r.failf("export|key", "Export()[%d] is %#v, want %s", i, a[i], repDefs[ent.Rep].name)
				return
			}
		}
		var sl []interface{}
		if err := e.vm.ExportTo(r.obj, &sl); err != nil || len(sl) != len(live) {
			r.failf("exportTo|shape", "ExportTo(&[]interface{}) gave %v, %v; want %d elements", sl, err, len(live))
			return
		}
		for i, ent := range live {
			if !r.exportedMatches(sl[i], ent) {
				r.failf("exportTo|key", "ExportTo slice [%d] is %#v, want %s", i, sl[i], repDefs[ent.Rep].name)
				return
			}
		}
	}
	// a fresh complete iteration through @@iterator (the for-of route)
	it, err := e.mkIter[ci][kSymIter](r.obj)
	if err != nil {
		r.failf("iter|threw", "[Symbol.iterator]() threw %v", err)
		return
	}
	kind := kEntries
	if r.coll == collSet {
		kind = kValues
	}
	for i := 0; i <= len(live); i++ {
		done, k, v := r.implNext(it.(*goja.Object), kind)
		r.counts.observations++
		if r.fail != nil {
			return
		}
		if done != (i == len(live)) {
			r.failf("for-of|length", "a fresh iteration after %s yields %d entries, the collection has %d", r.lastOp, i, len(live))
			return
		}
		if !done && !r.checkEntry("for-of", live[i], k, v) {
			return
		}
	}
}

func indexOfPtr(l []unsafe.Pointer, p unsafe.Pointer) int {
	for i, x := range l {
		if x == p {
			return i
		}
	}
	return -1
}

func (r *run) liveNames() []string {
	var res []string
	for _, e := range r.m.Live() {
		res = append(res, repDefs[e.Rep].name)
	}
	return res
}

// exportedMatches compares an exported Go value with the key of a model entry (by class).
func (r *run) exportedMatches(x interface{}, ent mapmodel.Entry) bool {
	c := class(ent.Class)
	switch c {
	case cObj, cObj2:
		// exported as map[string]interface{} resp. []interface{}: only the shape is checked
		switch x.(type) {
		case map[string]interface{}, []interface{}:
			return true
		}
		return false
	case cSym, cSym2, cSym3, cSym4, cSymIter:
		_, ok := x.(string)
		return ok
	case cUndef, cNull:
		return x == nil
	}
	got, neg := r.e.classify(r.e.vm.ToValue(x))
	return got == c && !neg
}

// computeKey: the canonical state key. From the model: the live entries (which representation is
// stored), per cursor kind / number of live entries passed / done. White-box tags: per iterator object
// how many removed entries its current entry is away from a live one (capped) and whether that walk
// ends at the list head; for callback iterations (their iterator is a Go local) the model's history tag.
func (r *run) computeKey() {
	var sb strings.Builder
	live := r.m.Live()
	for _, ent := range live {
		fmt.Fprintf(&sb, "%d,", ent.Rep)
	}
	sb.WriteByte('|')
	nontrivial := false
	for i, c := range r.m.Cursors {
		fmt.Fprintf(&sb, "%d:", c.Kind)
		if c.Done {
			sb.WriteString("D;")
			continue
		}
		fmt.Fprintf(&sb, "%d", r.m.Passed(c))
		if it := r.iters[i]; it != nil {
			wi := r.e.wb.iterOf(it)
			b := wi.back
			if b > r.cfg.tagCap {
				b = r.cfg.tagCap
			}
			fmt.Fprintf(&sb, "t%d", b)
			if wi.endsNil && !wi.curNil {
				sb.WriteString("n")
			}
			if wi.back > 0 {
				nontrivial = true
			}
		} else {
			on, n := r.m.OnEmpty(c)
			if n > r.cfg.tagCap {
				n = r.cfg.tagCap
			}
			if on {
				fmt.Fprintf(&sb, "e%d", n)
				nontrivial = true
			}
		}
		sb.WriteByte(';')
	}
	if r.info.maxChain > 1 {
		nontrivial = true
	}
	r.info.key = sb.String()
	r.info.nontrivial = nontrivial
	r.info.enabled = r.cfg.enabled(r)
}
