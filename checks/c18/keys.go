package c18

import (
	"fmt"
	"math"
	"math/big"
	"unsafe"

	"github.com/dop251/goja"
)

// A rep is one concrete way of producing a key; a class is a SameValueZero equivalence class.
// The model only sees classes; the implementation only sees reps.

type class int

const (
	cN1    class = iota // the number 1
	cD1                 // 5e-324 (IEEE bits == 1: same hash as the integer 1)
	cN2                 // 2
	cD2                 // 1e-323 (bits == 2)
	cZ                  // +0 / -0
	cNaN                //
	cSa                 // "a"
	cSL                 // "aaaaaaaaaaaaaaaaaaaa" (20 units: an imported Go string of that size is scanned lazily)
	cSe                 // "é"
	cSeL                // "é" x 19
	cS1                 // "1"
	cB1                 // 1n
	cBig                // 2n**64n
	cT                  // true
	cNull               //
	cUndef              //
	cObj                // one object
	cSym                // one symbol
	cIA                 // the integer whose value is the address of that object (== the object's hash)
	cFA                 // the float whose IEEE bits are that address (same hash again)
	cISym               // the integer whose value is the address of the symbol
	cObj2               // a second object
	cSym2
	cSym3
	cSym4
	cSymIter // well-known Symbol.iterator
	nClasses
)

type repDef struct {
	name  string
	class class
	js    string // expression evaluated once per runtime; "" = produced from Go
	// fresh, if set, produces the value anew for every replay (lazily scanned imported strings change
	// state on first use)
	fresh func(e *env) goja.Value
	// wantRepr (white-box, informational): expected internal representation; if the runtime yields
	// another one the rep is reported in the evidence as "degenerate" (it still is a valid key).
	wantRepr string
}

const (
	strA  = "a"
	strL  = "aaaaaaaaaaaaaaaaaaaa"
	strE  = "é"
	strEL = "ééééééééééééééééééé"
)

var repDefs = []repDef{
	{name: "1", class: cN1, js: `1`, wantRepr: "int"},
	{name: "1.0f(-0++)", class: cN1, js: `(function(){var x=-0; x++; return x})()`, wantRepr: "float"},
	{name: "1(0.5+0.5)", class: cN1, js: `0.5+0.5`, wantRepr: "int"},
	{name: "5e-324", class: cD1, js: `5e-324`, wantRepr: "float"},
	{name: "2", class: cN2, js: `2`, wantRepr: "int"},
	{name: "1e-323", class: cD2, js: `Number.MIN_VALUE*2`, wantRepr: "float"},
	{name: "0", class: cZ, js: `0`, wantRepr: "int"},
	{name: "-0", class: cZ, js: `-0`, wantRepr: "float"},
	{name: "+0.0f(-(-0))", class: cZ, js: `-(-0)`, wantRepr: "float"},
	{name: "NaN", class: cNaN, js: `NaN`, wantRepr: "float"},
	{name: "0/0", class: cNaN, js: `0/0`, wantRepr: "float"},
	{name: "NaN(payload)", class: cNaN, js: `new Float64Array(new Uint8Array([255,255,255,255,255,255,255,255]).buffer)[0]`, wantRepr: "float"},
	{name: "NaN(go,-payload)", class: cNaN, fresh: func(e *env) goja.Value { return e.vm.ToValue(math.Float64frombits(0xFFF8000000000123)) }, wantRepr: "float"},
	{name: `"a"`, class: cSa, js: `'a'`, wantRepr: "ascii"},
	{name: `"a"(utf16-built)`, class: cSa, js: `'éaé'.substring(1,2)`, wantRepr: "ascii"},
	{name: `"a"(go)`, class: cSa, fresh: func(e *env) goja.Value { return e.vm.ToValue(strA) }, wantRepr: "ascii"},
	{name: `"a"x20`, class: cSL, js: `'aaaaaaaaaaaaaaaaaaaa'`, wantRepr: "ascii"},
	{name: `"a"x20(concat)`, class: cSL, js: `'éaaaaaaaaaa'.slice(1)+'aaaaaaaaaa'`, wantRepr: "ascii"},
	{name: `"a"x20(go,unscanned)`, class: cSL, fresh: func(e *env) goja.Value { return e.vm.ToValue(string(append([]byte(nil), strL...))) }, wantRepr: "imported:unscanned"},
	{name: `"é"`, class: cSe, js: `'é'`, wantRepr: "utf16"},
	{name: `"é"(fromCharCode)`, class: cSe, js: `String.fromCharCode(233)`, wantRepr: "utf16"},
	{name: `"é"(go)`, class: cSe, fresh: func(e *env) goja.Value { return e.vm.ToValue(strE) }, wantRepr: "imported:utf16"},
	{name: `"é"x19`, class: cSeL, js: `'é'.repeat(19)`, wantRepr: "utf16"},
	{name: `"é"x19(go,unscanned)`, class: cSeL, fresh: func(e *env) goja.Value { return e.vm.ToValue(string(append([]byte(nil), strEL...))) }, wantRepr: "imported:unscanned"},
	{name: `"1"`, class: cS1, js: `'1'`, wantRepr: "ascii"},
	{name: "1n", class: cB1, js: `1n`, wantRepr: "bigint"},
	{name: "BigInt('1')", class: cB1, js: `BigInt('1')`, wantRepr: "bigint"},
	{name: "2n-1n(go)", class: cB1, fresh: func(e *env) goja.Value { return e.vm.ToValue(big.NewInt(1)) }, wantRepr: "bigint"},
	{name: "2n**64n", class: cBig, js: `2n**64n`, wantRepr: "bigint"},
	{name: "BigInt('18446744073709551616')", class: cBig, js: `BigInt('18446744073709551616')`, wantRepr: "bigint"},
	{name: "true", class: cT, js: `true`, wantRepr: "bool"},
	{name: "1==1", class: cT, js: `1==1`, wantRepr: "bool"},
	{name: "null", class: cNull, js: `null`, wantRepr: "null"},
	{name: "undefined", class: cUndef, js: `undefined`, wantRepr: "undefined"},
	{name: "void 0(go)", class: cUndef, fresh: func(e *env) goja.Value { return goja.Undefined() }, wantRepr: "undefined"},
	{name: "obj", class: cObj, js: `({})`, wantRepr: "object"},
	{name: "sym", class: cSym, js: `Symbol('a')`, wantRepr: "symbol"},
	{name: "int(addr(obj))", class: cIA, wantRepr: "int"},
	{name: "float(bits=addr(obj))", class: cFA, wantRepr: "float"},
	{name: "int(addr(sym))", class: cISym, wantRepr: "int"},
	{name: "obj2", class: cObj2, js: `[]`, wantRepr: "object"},
	{name: "sym2(same description)", class: cSym2, js: `Symbol('a')`, wantRepr: "symbol"},
	{name: "Symbol.for('a')", class: cSym3, js: `Symbol.for('a')`, wantRepr: "symbol"},
	{name: "Symbol()", class: cSym4, js: `Symbol()`, wantRepr: "symbol"},
	{name: "Symbol.iterator", class: cSymIter, js: `Symbol.iterator`, wantRepr: "symbol"},
}

var repByName = func() map[string]int {
	m := map[string]int{}
	for i, d := range repDefs {
		if _, dup := m[d.name]; dup {
			panic("duplicate rep " + d.name)
		}
		m[d.name] = i
	}
	return m
}()

func reps(names ...string) []int {
	res := make([]int, len(names))
	for i, n := range names {
		j, ok := repByName[n]
		if !ok {
			panic("unknown rep " + n)
		}
		res[i] = j
	}
	return res
}

// buildReps evaluates the per-runtime reps.
func (e *env) buildReps() error {
	e.fixed = make([]goja.Value, len(repDefs))
	for i, d := range repDefs {
		if d.js == "" {
			continue
		}
		v, err := e.vm.RunString(d.js)
		if err != nil {
			return fmt.Errorf("rep %s: %v", d.name, err)
		}
		e.fixed[i] = v
	}
	obj := e.fixed[repByName["obj"]].(*goja.Object)
	sym := e.fixed[repByName["sym"]].(*goja.Symbol)
	// goja hashes objects and symbols by address, integers by value and floats by IEEE bits: these
	// three keys share one hash chain with the object (resp. the symbol) although no two are equal.
	oa := uint64(uintptr(unsafe.Pointer(obj)))
	sa := uint64(uintptr(unsafe.Pointer(sym)))
	e.fixed[repByName["int(addr(obj))"]] = e.vm.ToValue(int64(oa))
	e.fixed[repByName["float(bits=addr(obj))"]] = e.vm.ToValue(math.Float64frombits(oa))
	e.fixed[repByName["int(addr(sym))"]] = e.vm.ToValue(int64(sa))
	e.keepAlive = []interface{}{obj, sym}
	return nil
}

// rep returns the value of representation i for the current replay.
func (e *env) rep(i int) goja.Value {
	if f := repDefs[i].fresh; f != nil {
		return f(e)
	}
	return e.fixed[i]
}

// classify maps a value handed out by the implementation back to its SameValueZero class using only
// the public API (this is the checker's own definition of key identity; it never calls goja's SameAs).
// negZero reports an IEEE negative zero (Map/Set must never hand that out as a key).
func (e *env) classify(v goja.Value) (c class, negZero bool) {
	if v == nil {
		return -1, false
	}
	switch x := v.(type) {
	case *goja.Object:
		switch x {
		case e.fixed[repByName["obj"]]:
			return cObj, false
		case e.fixed[repByName["obj2"]]:
			return cObj2, false
		}
		return -1, false
	case *goja.Symbol:
		for _, n := range []string{"sym", "sym2(same description)", "Symbol.for('a')", "Symbol()", "Symbol.iterator"} {
			if e.fixed[repByName[n]] == goja.Value(x) {
				return repDefs[repByName[n]].class, false
			}
		}
		return -1, false
	}
	if goja.IsUndefined(v) {
		return cUndef, false
	}
	if goja.IsNull(v) {
		return cNull, false
	}
	var f float64
	switch x := v.Export().(type) {
	case int64:
		f = float64(x)
	case float64:
		f = x
	case bool:
		if x {
			return cT, false
		}
		return -1, false
	case string:
		switch x {
		case strA:
			return cSa, false
		case strL:
			return cSL, false
		case strE:
			return cSe, false
		case strEL:
			return cSeL, false
		case "1":
			return cS1, false
		}
		return -1, false
	case *big.Int:
		switch x.String() {
		case "1":
			return cB1, false
		case "18446744073709551616":
			return cBig, false
		}
		return -1, false
	default:
		return -1, false
	}
	switch {
	case math.IsNaN(f):
		return cNaN, false
	case f == 0:
		return cZ, math.Signbit(f)
	case f == 1:
		return cN1, false
	case f == 2:
		return cN2, false
	case f == 5e-324:
		return cD1, false
	case f == 1e-323:
		return cD2, false
	}
	oa := uint64(uintptr(unsafe.Pointer(e.fixed[repByName["obj"]].(*goja.Object))))
	sa := uint64(uintptr(unsafe.Pointer(e.fixed[repByName["sym"]].(*goja.Symbol))))
	switch {
	case f == float64(oa) && float64(oa) != math.Float64frombits(oa):
		return cIA, false
	case f == math.Float64frombits(oa):
		return cFA, false
	case f == float64(sa):
		return cISym, false
	}
	return -1, false
}
