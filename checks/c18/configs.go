package c18

import "verif/core"

func configs(r *core.Run) []*config { return allConfigs(r.Thorough()) }

type poolDef struct {
	name   string
	pool   []int
	probes []int // additional representations used only in has/get observations
}

// Each pool is chosen to collide in one respect and holds at most 4 SameValueZero classes, so that the
// state space over it is finite and small enough to be closed.
var pools = []poolDef{
	// integers and denormal floats whose IEEE bits equal the integer: a 2-entry hash chain plus a bystander
	{"hash-chain-numeric", reps("1", "5e-324", "2"), reps("1(0.5+0.5)", "1e-323")},
	// +0 / -0 / NaN in every representation
	{"zero-nan", reps("0", "-0", "+0.0f(-(-0))", "NaN", "NaN(payload)"), reps("0/0", "NaN(go,-payload)", "1")},
	// an object, the integer equal to its address and the float whose bits are its address: a 3-entry hash chain
	{"hash-chain-pointer", reps("obj", "int(addr(obj))", "float(bits=addr(obj))"), reps("sym", "int(addr(sym))", "obj2")},
	// ASCII strings: literal / cut out of a UTF-16 string / imported from Go (short: eager; 20 bytes: lazily scanned)
	{"ascii-strings", reps(`"a"`, `"a"(utf16-built)`, `"a"(go)`, `"a"x20`, `"a"x20(go,unscanned)`), reps(`"a"x20(concat)`, `"1"`)},
	{"unicode-strings", reps(`"é"`, `"é"(fromCharCode)`, `"é"(go)`, `"é"x19`, `"é"x19(go,unscanned)`), reps(`"a"`)},
	// 1 / "1" / 1n / true must stay apart
	{"type-confusion", reps("1", `"1"`, "1n"), reps("BigInt('1')", "2n-1n(go)", "true", "1==1")},
	{"nullish", reps("null", "undefined", "void 0(go)"), reps("0", `"1"`)},
	// booleans and BigInts produced differently must coincide
	{"bool-bigint", reps("true", "1==1", "2n**64n", "BigInt('18446744073709551616')"), reps("1", "1n", `"1"`)},
	{"references", reps("obj2", "sym", "sym2(same description)"), reps("obj", "Symbol.for('a')")},
}

// larger pools (3-4 classes, more representations), thorough tier only
var bigPools = []poolDef{
	{"hash-chains-numeric-4", reps("1", "5e-324", "2", "1e-323"), reps("1(0.5+0.5)")},
	{"zero-nan-7", reps("0", "-0", "+0.0f(-(-0))", "NaN", "0/0", "NaN(payload)", "NaN(go,-payload)"), reps("1")},
	{"hash-chain-pointer-4", reps("obj", "int(addr(obj))", "float(bits=addr(obj))", "sym"), reps("int(addr(sym))", "obj2")},
	{"ascii-strings-6", reps(`"a"`, `"a"(utf16-built)`, `"a"(go)`, `"a"x20`, `"a"x20(concat)`, `"a"x20(go,unscanned)`), reps(`"1"`)},
	{"unicode-ascii-strings-3", reps(`"é"`, `"é"(go)`, `"é"x19`, `"é"x19(go,unscanned)`, `"a"`, `"a"(go)`), nil},
	{"type-confusion-5", reps("1", `"1"`, "1n", "BigInt('1')", "2n-1n(go)"), reps("true", "1==1")},
	{"nullish-bool-number-4", reps("null", "undefined", "true", "1==1", "1"), reps("0", `"1"`)},
	{"bigint-refs-4", reps("2n**64n", "BigInt('18446744073709551616')", "obj2", "sym2(same description)"), reps("sym", "obj", "1n")},
}

// allConfigs: simplest first. The closure configurations (maxDepth 0) cover op sequences of any length
// over their alphabet, "all-representations" covers the interplay of every representation to a depth bound.
// The thorough tier runs the quick list first and then the extended configurations (every iterator kind,
// 3 live iterators, nested forEach), each within an equal share of the remaining budget.
func allConfigs(thorough bool) []*config {
	var res []*config
	add := func(name string, coll collKind, p poolDef, maxCur, maxDepth, tagCap int) *config {
		c := &config{name: coll.String() + "/" + name, coll: coll, pool: p.pool, probes: append(append([]int{}, p.pool...), p.probes...),
			maxCur: maxCur, maxCb: 1, maxDepth: maxDepth, tagCap: tagCap, clear: true}
		switch coll {
		case collMap:
			// the kind of an iterator object only selects the projection of the yielded entry: the
			// 2-iterator closures use one kind plus forEach, the other kinds get 1-iterator closures
			c.kinds, c.cbKinds = []int{kEntries}, []int{kForEach}
		case collSet:
			c.kinds, c.cbKinds = []int{kValues}, []int{kForEach}
		case collSym:
			c.kinds, c.cbKinds, c.clear = nil, []int{kAssign, kSpread}, false
			c.maxCb = maxCur
		}
		res = append(res, c)
		return c
	}
	// regression corpus for the listed finding (quarantined: the non-canonical float 1.0 is in no other pool)
	nc := poolDef{"noncanonical-1.0", reps("1", "1.0f(-0++)"), nil}
	add(nc.name, collMap, nc, 1, 2, 2)
	add(nc.name, collSet, nc, 1, 2, 2)
	// every representation together (except the quarantined one), to a depth bound
	var all []int
	for i, d := range repDefs {
		switch d.class {
		case cSym2, cSym3, cSym4, cSymIter:
			continue
		}
		if d.name != "1.0f(-0++)" {
			all = append(all, i)
		}
	}
	allP := poolDef{pool: all}
	add("all-representations", collMap, allP, 1, 2, 2)
	add("all-representations", collSet, allP, 1, 2, 2)
	for i, p := range pools {
		add(p.name, collMap, p, 2, 0, 2)
		add(p.name, collSet, p, 2, 0, 2)
		if i == 0 {
			// the symbol-property table of an ordinary object (accessor and data properties, see symtab.go)
			add("symbols", collSym, poolDef{pool: reps("sym", "Symbol.for('a')", "Symbol.iterator")}, 2, 0, 2)
			c := add("kinds/"+p.name, collMap, p, 1, 0, 2)
			c.kinds, c.cbKinds = []int{kKeys, kValues, kSymIter}, nil
			c = add("kinds/"+p.name, collSet, p, 1, 0, 2)
			c.kinds, c.cbKinds = []int{kEntries, kKeys, kSymIter}, nil
		}
	}
	if !thorough {
		return res
	}
	for _, p := range bigPools {
		add(p.name, collMap, p, 2, 0, 2)
		add(p.name, collSet, p, 2, 0, 2)
	}
	add("symbols-4", collSym, poolDef{pool: reps("sym", "sym2(same description)", "Symbol.for('a')", "Symbol.iterator")}, 2, 0, 2)
	add("symbols-5", collSym, poolDef{pool: reps("sym", "sym2(same description)", "Symbol.for('a')", "Symbol()", "Symbol.iterator")}, 2, 0, 2)
	ext := func(c *config) {
		c.name += "+ext"
		c.extended = true
	}
	ext(add("all-representations", collMap, allP, 2, 3, 3))
	ext(add("all-representations", collSet, allP, 2, 3, 3))
	ext(add("symbols", collSym, poolDef{pool: reps("sym", "sym2(same description)", "Symbol.for('a')", "Symbol()", "Symbol.iterator")}, 3, 0, 3))
	for _, p := range pools {
		c := add(p.name, collMap, p, 3, 0, 3)
		c.kinds, c.maxCb = []int{kEntries, kKeys, kValues, kSymIter}, 2
		ext(c)
		c = add(p.name, collSet, p, 3, 0, 3)
		c.kinds, c.maxCb = []int{kValues, kEntries, kKeys, kSymIter}, 2
		ext(c)
	}
	return res
}
