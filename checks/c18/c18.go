// Package c18 holds the check for property C18: Map and Set (and the symbol-property table of ordinary
// objects, which shares the data structure) are insertion-ordered SameValueZero dictionaries, even
// while mutated under live iterators.
//
// Engine E2: explicit-state breadth-first search over a REAL collection. A state is the shortest op
// path reaching it; a successor is computed on a fresh collection by replaying the path plus one op,
// every step in lock-step with ref/mapmodel (the ECMA-262 data list with ~empty~ holes and index
// cursors). States are de-duplicated by a canonical key (see computeKey). After the last op of every
// transition: bounded white-box walk of hashTable/hNext/iterPrev/iterNext, every read-only observation
// (size, has/get with every representation of the pool, Go-side Export, a fresh for-of style
// iteration), and finally all live iterators are drained against the model.
package c18

import (
	"crypto/sha1"
	"encoding/json"
	"fmt"
	"os"
	"runtime/pprof"
	"strings"
	"sync"
	"sync/atomic"
	"time"

	"verif/core"

	"github.com/dop251/goja"
)

func init() {
	core.Register(&core.Check{ID: "C18", Level: "model_checking", Rule: rule, Run: runCheck, Replay: replayCase})
}

const rule = "explicit-state BFS per configuration (collection kind x colliding key pool x iterator kinds x max live iterators): " +
	"a state is the shortest op path, successors = fresh real Map/Set/object + replay + one op of {set/add/define(k), delete(k), clear, new entries/keys/values/@@iterator iterator, " +
	"forEach/Object.assign/spread in progress (following ops run inside its callback), next#i / return-from-callback, drop#i / throw-from-callback}, " +
	"de-duplicated by (stored key representations in order; per iterator kind, live entries passed, done, white-box tombstone-chain tag); BFS runs until the frontier is empty (closure: sequences of ANY length over that alphabet) or to the depth bound. " +
	"Every transition is executed in lock-step with the ECMA-262 list model. A state is counted non-trivial when a live iterator sits on a removed entry or a hash chain holds >= 2 entries."

type config struct {
	name     string
	coll     collKind
	pool     []int // reps usable in set/delete
	probes   []int // reps used in has/get observations (pool plus foreign probes)
	kinds    []int // iterator-object kinds
	cbKinds  []int // callback-driven iteration kinds
	maxCur   int   // max simultaneously live iterators (objects + callback iterations)
	maxCb    int   // max nested callback iterations
	maxDepth int   // 0 = until closure
	tagCap   int
	clear    bool
	extended bool // thorough-tier extension: runs within a share of the remaining budget
}

type node struct {
	ops     []op
	enabled []op // ops enabled in this state (computed from the real run that reached it)
}

type succ struct {
	h       [16]byte
	key     string
	o       op
	fail    *failure
	nt      bool
	enabled []op
}

type worker struct {
	e        *env
	outcomes map[string]struct{}
	out      func(string)
}

func (w *worker) env() (*env, error) {
	if w.e == nil {
		e, err := newEnv()
		if err != nil {
			return nil, err
		}
		w.e = e
	}
	return w.e, nil
}

// enabled lists the ops enabled in the model state reached by path (computed on the model alone).
func (cfg *config) enabled(r *run) []op {
	m, fe := r.m, r.fe
	isCb := func(i int) bool { return r.iters[i] == nil }
	var res []op
	for _, rep := range cfg.pool {
		res = append(res, op{opSet, uint8(rep)})
	}
	for _, rep := range cfg.pool {
		res = append(res, op{opDel, uint8(rep)})
	}
	if cfg.clear {
		res = append(res, op{K: opClear})
	}
	for i := range m.Cursors {
		if isCb(i) && (len(fe) == 0 || fe[len(fe)-1] != m.Cursors[i]) {
			continue // only the innermost callback iteration can return / throw
		}
		res = append(res, op{opNext, uint8(i)})
	}
	if len(m.Cursors) < cfg.maxCur {
		for _, k := range cfg.kinds {
			res = append(res, op{opIter, uint8(k)})
		}
		if len(fe) < cfg.maxCb {
			for _, k := range cfg.cbKinds {
				res = append(res, op{opForEach, uint8(k)})
			}
		}
	}
	for i := range m.Cursors {
		if isCb(i) && (len(fe) == 0 || fe[len(fe)-1] != m.Cursors[i]) {
			continue
		}
		res = append(res, op{opDrop, uint8(i)})
	}
	return res
}

type stats struct {
	states, transitions, dups int64
	depth                     int
	closed                    bool
	cut                       bool
}

type explorer struct {
	r       *core.Run
	workers []*worker
	mu      sync.Mutex
	sampleN int64
	steps   atomic.Int64
	obs     atomic.Int64
	drain   atomic.Int64
	walks   atomic.Int64
	lns     atomic.Int64
	hang    []atomic.Int64 // per worker: unix-nano start of the current replay (0 = idle)
	hangOp  []atomic.Value
}

func (x *explorer) runPath(w int, cfg *config, ops []op, sweepAll bool) (*run, error) {
	e, err := x.workers[w].env()
	if err != nil {
		return nil, err
	}
	wk := x.workers[w]
	if wk.out == nil {
		wk.outcomes = map[string]struct{}{}
		wk.out = func(s string) {
			if _, ok := wk.outcomes[s]; !ok {
				wk.outcomes[s] = struct{}{}
				x.r.Outcome(s)
			}
		}
	}
	rn := &run{e: e, coll: cfg.coll, cfg: cfg, ops: ops, sweepAll: sweepAll, out: wk.out}
	if x.hang != nil {
		x.hangOp[w].Store(caseOf(cfg, ops))
		x.hang[w].Store(time.Now().UnixNano())
	}
	rn.execute()
	if x.hang != nil {
		x.hang[w].Store(0)
	}
	x.steps.Add(rn.counts.steps)
	x.obs.Add(rn.counts.observations)
	x.drain.Add(rn.counts.drain)
	x.walks.Add(rn.counts.wbWalks)
	x.lns.Add(rn.counts.liveNotSnapshot)
	if rn.fail != nil {
		x.workers[w].e = nil // a failed run may leave the runtime in an odd state: never reuse it
	}
	return rn, nil
}

type caseT struct {
	Config string   `json:"config"`
	Coll   string   `json:"collection"`
	Ops    []string `json:"ops"`
}

func caseOf(cfg *config, ops []op) caseT {
	return caseT{Config: cfg.name, Coll: cfg.coll.String(), Ops: opsString(ops)}
}

// confirm re-runs a failing path 5 times on fresh runtimes (full sweep after every op) and reports it
// only if it fails every time with the same signature.
func (x *explorer) confirm(cfg *config, ops []op, f *failure) {
	same := 0
	var other *failure
	for i := 0; i < 5; i++ {
		e, err := newEnv()
		if err != nil {
			break
		}
		rn := &run{e: e, coll: cfg.coll, cfg: cfg, ops: ops, sweepAll: true}
		rn.execute()
		if rn.fail != nil && rn.fail.sig == f.sig {
			same++
		} else if rn.fail != nil {
			other = rn.fail
		}
	}
	switch {
	case same == 5:
		x.r.Violation(f.sig, f.what, caseOf(cfg, ops))
	case other != nil:
		// with a sweep after every op the failure shows earlier / differently: report that one
		x.r.Violation(other.sig, other.what, caseOf(cfg, ops))
	default:
		x.r.Violation("nondeterministic|"+f.sig, fmt.Sprintf("failed %d of 5 re-runs: %s", same, f.what), caseOf(cfg, ops))
	}
}

// parallel is core.Run.Parallel with an additional local deadline (budget share of one configuration).
func (x *explorer) parallel(n int64, chunk int64, until time.Time, fn func(worker int, lo, hi int64)) bool {
	r := x.r
	var next atomic.Int64
	var wg sync.WaitGroup
	complete := atomic.Bool{}
	complete.Store(true)
	for w := 0; w < r.Workers; w++ {
		wg.Add(1)
		go func(w int) {
			defer wg.Done()
			for {
				lo := next.Add(chunk) - chunk
				if lo >= n {
					return
				}
				if r.Expired() || !until.IsZero() && time.Now().After(until) {
					complete.Store(false)
					return
				}
				hi := lo + chunk
				if hi > n {
					hi = n
				}
				fn(w, lo, hi)
			}
		}(w)
	}
	wg.Wait()
	return complete.Load()
}

func (x *explorer) explore(cfg *config, until time.Time) stats {
	r := x.r
	var st stats
	seen := map[[16]byte]struct{}{}
	reported := map[string]bool{}
	// the root
	rn, err := x.runPath(0, cfg, nil, false)
	if err != nil {
		r.Violation("harness|env", err.Error(), nil)
		return st
	}
	if rn.fail != nil {
		x.confirm(cfg, nil, rn.fail)
		return st
	}
	frontier := []node{{enabled: rn.info.enabled}}
	seen[sha16(rn.info.key)] = struct{}{}
	st.states = 1
	r.States(1)
	for depth := 1; len(frontier) > 0; depth++ {
		if cfg.maxDepth > 0 && depth > cfg.maxDepth {
			return st
		}
		if r.Expired() || !until.IsZero() && time.Now().After(until) {
			st.cut = true
			return st
		}
		results := make([][]succ, len(frontier))
		var trans atomic.Int64
		complete := x.parallel(int64(len(frontier)), 8, until, func(w int, lo, hi int64) {
			for i := lo; i < hi; i++ {
				nd := frontier[i]
				ops := nd.enabled
				out := make([]succ, 0, len(ops))
				for _, o := range ops {
					path := append(append(make([]op, 0, len(nd.ops)+1), nd.ops...), o)
					rn, err := x.runPath(w, cfg, path, false)
					if err != nil {
						out = append(out, succ{o: o, fail: &failure{"harness|env", err.Error()}})
						continue
					}
					trans.Add(1)
					if rn.fail != nil {
						out = append(out, succ{o: o, fail: rn.fail})
						continue
					}
					out = append(out, succ{h: sha16(rn.info.key), key: rn.info.key, o: o, nt: rn.info.nontrivial, enabled: rn.info.enabled})
				}
				results[i] = out
			}
		})
		if !complete {
			// a level cut by the deadline is discarded as a whole: the completed bound is depth-1
			st.cut = true
			return st
		}
		r.Transitions(trans.Load())
		r.Traces(trans.Load())
		r.Eval(trans.Load())
		st.transitions += trans.Load()
		var next []node
		for i, out := range results {
			for _, s := range out {
				path := append(append(make([]op, 0, len(frontier[i].ops)+1), frontier[i].ops...), s.o)
				if s.fail != nil {
					// the failing transition is reported (first case per signature, in BFS order =
					// smallest first) and the state behind it is not expanded
					if !reported[s.fail.sig] {
						reported[s.fail.sig] = true
						x.confirm(cfg, path, s.fail)
					} else {
						r.Violation(s.fail.sig, s.fail.what, caseOf(cfg, path))
					}
					continue
				}
				if _, dup := seen[s.h]; dup {
					st.dups++
					continue
				}
				seen[s.h] = struct{}{}
				st.states++
				if s.nt {
					r.NontrivialH(core.HashString(cfg.name + "/" + s.key))
				}
				n := x.sampleN
				x.sampleN++
				if r.WantSample(n) {
					r.Sample(map[string]interface{}{"config": cfg.name, "collection": cfg.coll.String(), "ops": opsString(path), "state_key": s.key})
				}
				next = append(next, node{ops: path, enabled: s.enabled})
			}
		}
		r.States(int64(len(next)))
		st.depth = depth
		frontier = next
	}
	st.closed = true
	return st
}

func sha16(s string) (h [16]byte) {
	x := sha1.Sum([]byte(s))
	copy(h[:], x[:16])
	return
}

func (x *explorer) watchdog() {
	for {
		time.Sleep(5 * time.Second)
		now := time.Now().UnixNano()
		for w := range x.hang {
			t := x.hang[w].Load()
			if t != 0 && now-t > int64(90*time.Second) {
				c, _ := json.Marshal(x.hangOp[w].Load())
				os.MkdirAll(core.Root+"/replays/C18", 0o755)
				p := core.Root + "/replays/C18/hang.json"
				os.WriteFile(p, []byte(`{"property":"C18","signature":"hang","case":`+string(c)+`}`), 0o644)
				fmt.Printf("VIOLATION property=C18 replay=%s signature=\"hang\" what=\"one op path did not finish within 90 s (a non-terminating walk over a corrupted chain inside goja)\"\n", p)
				os.Exit(1)
			}
		}
	}
}

func runCheck(r *core.Run) {
	if pf := os.Getenv("C18_PROF"); pf != "" {
		f, _ := os.Create(pf)
		pprof.StartCPUProfile(f)
		defer pprof.StopCPUProfile()
	}
	x := &explorer{r: r}
	for i := 0; i < r.Workers; i++ {
		x.workers = append(x.workers, &worker{})
	}
	x.hang = make([]atomic.Int64, r.Workers)
	x.hangOp = make([]atomic.Value, r.Workers)
	go x.watchdog()
	if _, err := newEnv(); err != nil {
		r.Violation("harness|env", err.Error(), nil)
		return
	}
	r.Assume("trusted base: ref/mapmodel (ECMA-262 data list with ~empty~ holes + index cursors), the checker's own SameValueZero classification of values through Export(), and the reflect/unsafe walker of orderedMap (layout discovered at start-up; a layout change is reported, not ignored)")
	r.Assume("state de-duplication merges states that agree on stored key representations in order, on each iterator's kind/progress/done flag and on the capped tombstone-chain tag; stored VALUES are not part of the key (they are compared on every path, but a state is expanded with the values of its first path only)")
	r.Assume("hash collisions are forced only where goja's hash is a pure function of the value (integers, floats, object/symbol addresses); string/BigInt hashes are seeded per runtime and cannot be made to collide deterministically")
	degenerate := []string{}
	if e, err := newEnv(); err == nil {
		for i, d := range repDefs {
			if got := reprOf(e, i); d.wantRepr != "" && got != d.wantRepr {
				degenerate = append(degenerate, fmt.Sprintf("%s: %s (expected %s)", d.name, got, d.wantRepr))
			}
		}
	}
	r.Set("degenerate_representations", degenerate)
	cfgs := configs(r)
	if only := os.Getenv("C18_ONLY"); only != "" { // development aid: run the configurations whose name contains this
		var sel []*config
		for _, c := range cfgs {
			if strings.Contains(c.name, only) {
				sel = append(sel, c)
			}
		}
		cfgs = sel
		r.Assume("C18_ONLY=" + only + ": partial run")
	}
	bounds := map[string]string{}
	allDone := true
	extCut := 0
	for ci, cfg := range cfgs {
		if r.Expired() {
			bounds[cfg.name] = "not started (deadline)"
			allDone = false
			continue
		}
		var until time.Time
		if cfg.extended {
			left := time.Until(r.Deadline) - 20*time.Second
			until = time.Now().Add(left / time.Duration(len(cfgs)-ci))
		}
		st := x.explore(cfg, until)
		var b string
		switch {
		case st.closed:
			b = fmt.Sprintf("CLOSED at depth %d: %d states, %d transitions (covers op sequences of any length)", st.depth, st.states, st.transitions)
		case st.cut:
			b = fmt.Sprintf("depth %d complete (cut by deadline / budget share): %d states, %d transitions", st.depth, st.states, st.transitions)
			if !cfg.extended {
				allDone = false
			} else {
				extCut++
			}
		default:
			b = fmt.Sprintf("depth %d complete (bound): %d states, %d transitions", st.depth, st.states, st.transitions)
		}
		bounds[cfg.name] = b
		if os.Getenv("C18_VERBOSE") != "" {
			fmt.Printf("%-40s %s (%.1fs)\n", cfg.name, b, time.Since(r.Start).Seconds())
		}
	}
	r.Set("bounds_completed", bounds)
	r.Add("replayed_ops", x.steps.Load())
	r.Add("observation_ops", x.obs.Load())
	r.Add("drain_steps", x.drain.Load())
	r.Add("whitebox_walks", x.walks.Load())
	r.Add("symtab_copies_live_order_not_snapshot_order", x.lns.Load())
	r.Set("extended_configurations_cut_by_budget_share", extCut)
	// exhaustive = every configuration of the tier was completed to closure resp. to its depth bound.
	// The thorough tier's "+ext" configurations (all iterator kinds x 3 live iterators x nested forEach) are
	// open-ended: each gets an equal share of the remaining budget and reports its deepest completed level.
	r.Exhaustive(allDone && extCut == 0)
	if allDone && extCut > 0 {
		r.Explain(fmt.Sprintf("every base configuration was completed (closures / depth bounds, see bounds_completed); %d open-ended \"+ext\" configurations were explored breadth-first to the depth their budget share allowed", extCut))
	}
}

func reprOf(e *env, i int) string {
	return goja.VerifRepr(e.rep(i))
}

func replayCase(r *core.Run, raw json.RawMessage) {
	var c caseT
	if err := json.Unmarshal(raw, &c); err != nil {
		r.Violation("harness|replay", "cannot decode case: "+err.Error(), nil)
		return
	}
	var cfg *config
	for _, k := range configs(r) {
		if k.name == c.Config {
			cfg = k
		}
	}
	if cfg == nil {
		// the configuration lists depend on the tier: look in the other one too
		for _, k := range allConfigs(true) {
			if k.name == c.Config {
				cfg = k
			}
		}
	}
	if cfg == nil {
		r.Violation("harness|replay", "unknown configuration "+c.Config, nil)
		return
	}
	var ops []op
	for _, s := range c.Ops {
		o, err := parseOp(s)
		if err != nil {
			r.Violation("harness|replay", err.Error(), nil)
			return
		}
		ops = append(ops, o)
	}
	e, err := newEnv()
	if err != nil {
		r.Violation("harness|env", err.Error(), nil)
		return
	}
	rn := &run{e: e, coll: cfg.coll, cfg: cfg, ops: ops, sweepAll: true}
	rn.execute()
	fmt.Printf("replay: %s %s %s\n", c.Coll, c.Config, strings.Join(c.Ops, " ; "))
	if rn.fail != nil {
		r.Violation(rn.fail.sig, rn.fail.what, c)
	}
}
