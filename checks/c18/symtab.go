package c18

// The symbol-property table of an ordinary object shares orderedMap with Map/Set (object.go symValues).
//
// Collection under test: an object literal {x:1}; keys are symbols only. Two property styles so that both
// insertion paths of object.go are used: "accessor" reps are (re)defined with Object.defineProperty as
// enumerable accessors whose getter reports to the checker; "data" reps are written with o[s] = v.
// delete o[s] removes. Observations: Object.getOwnPropertySymbols, Reflect.ownKeys, (*Object).Symbols(),
// hasOwnProperty, o[s], and a complete Object.assign({}, o).
//
// Live iteration: Object.assign({}, o) resp. ({...o}) in progress; every accessor property reached calls
// back and the following ops run inside that getter. ECMA-262 copies a snapshot of the key list
// ([[OwnPropertyKeys]] first, then Get for each key still present); goja walks the live table. Which of
// the two it should be is property C04's business, not C18's, so the oracle accepts a run of callbacks
// that is consistent with the live-table order OR with the snapshot order (one of them from start to
// end) and demands what both agree on: present entries are reached in insertion order, exactly once,
// removed ones are not reached, and the copy receives exactly the reached properties in that order.

import (
	"fmt"

	"verif/ref/mapmodel"

	"github.com/dop251/goja"
)

func isDataRep(rep int) bool {
	switch repDefs[rep].class {
	case cSym3, cSym4:
		return true
	}
	return false
}

type symCursor struct {
	liveOK, snapOK bool
	snap           []int // classes present when the copy started, in order
	snapPos        int
	seenLive       []mapmodel.Entry
	seenSnap       []mapmodel.Entry
}

func (r *run) symStart(c *mapmodel.Cursor) {
	sc := &symCursor{liveOK: true, snapOK: true}
	for _, e := range r.m.Live() {
		sc.snap = append(sc.snap, e.Class)
	}
	if r.symCur == nil {
		r.symCur = map[*mapmodel.Cursor]*symCursor{}
	}
	r.symCur[c] = sc
}

// symAdvance moves both predictions to the next accessor property (data properties in between are
// copied without a callback and only recorded).
func (r *run) symAdvance(c *mapmodel.Cursor, sc *symCursor) (le mapmodel.Entry, lok bool, se mapmodel.Entry, sok bool) {
	for {
		le, lok = r.m.Next(c)
		if !lok {
			break
		}
		sc.seenLive = append(sc.seenLive, le)
		if !isDataRep(le.Rep) {
			break
		}
	}
	for sc.snapPos < len(sc.snap) {
		cl := sc.snap[sc.snapPos]
		sc.snapPos++
		found := false
		for _, e := range r.m.Entries {
			if !e.Empty && e.Class == cl {
				se, found = e, true
				break
			}
		}
		if !found {
			continue
		}
		sc.seenSnap = append(sc.seenSnap, se)
		if !isDataRep(se.Rep) {
			sok = true
			break
		}
	}
	return
}

func (r *run) checkSymVisit(c *mapmodel.Cursor, exp *expectation, k, v goja.Value) bool {
	sc := r.symCur[c]
	name := kindNames[c.Kind]
	kc, _ := r.e.classify(k)
	val := -1
	if x, ok := v.Export().(int64); ok {
		val = int(x)
	}
	le, lok, se, sok := r.symAdvance(c, sc)
	sc.liveOK = sc.liveOK && lok && le.Class == int(kc) && le.Val == val
	sc.snapOK = sc.snapOK && sok && se.Class == int(kc) && se.Val == val
	if !sc.liveOK && !sc.snapOK {
		ls, ss := "end of copy", "end of copy"
		if lok {
			ls = repDefs[le.Rep].name
		}
		if sok {
			ss = repDefs[se.Rep].name
		}
		r.failf(name+"|wrong-visit", "%s in progress read %v (value %v); insertion order over the live table gives %s, over the key snapshot %s",
			name, k, v, ls, ss)
		return false
	}
	return true
}

func (r *run) symFinish(c *mapmodel.Cursor, res goja.Value) {
	sc := r.symCur[c]
	name := kindNames[c.Kind]
	_, lok, _, sok := r.symAdvance(c, sc)
	sc.liveOK = sc.liveOK && !lok
	sc.snapOK = sc.snapOK && !sok
	if !sc.liveOK && !sc.snapOK {
		r.failf(name+"|ended-early", "%s returned before every present property had been copied (or after skipping one)", name)
		return
	}
	seen := sc.seenLive
	if !sc.liveOK {
		seen = sc.seenSnap
	} else if !sc.snapOK {
		r.counts.liveNotSnapshot++
	}
	ro, ok := res.(*goja.Object)
	if !ok {
		r.failf(name+"|result", "%s returned %v", name, res)
		return
	}
	// a property reached twice (removed and re-added behind the cursor) is written twice into the copy:
	// it keeps its first position there and ends up with the last value
	var folded []mapmodel.Entry
outer:
	for _, ent := range seen {
		for i := range folded {
			if folded[i].Class == ent.Class {
				folded[i].Val = ent.Val
				continue outer
			}
		}
		folded = append(folded, ent)
	}
	r.compareSymbols(name+"|copy", ro, folded, true)
}

// compareSymbols: the own symbol keys of o, in order, are exactly ents (and, if values is set, o[s]
// are their values; on the copy these are data properties).
func (r *run) compareSymbols(where string, o *goja.Object, ents []mapmodel.Entry, values bool) {
	syms := o.Symbols()
	if len(syms) != len(ents) {
		r.failf(where+"|length", "%s: %d own symbol keys %v, want %d", where, len(syms), syms, len(ents))
		return
	}
	for i, ent := range ents {
		c, _ := r.e.classify(syms[i])
		if int(c) != ent.Class {
			r.failf(where+"|order", "%s: own symbol key #%d is %v, want %s", where, i, syms[i], repDefs[ent.Rep].name)
			return
		}
		if values {
			v := o.GetSymbol(syms[i])
			if x, ok := v.Export().(int64); !ok || int(x) != ent.Val {
				r.failf(where+"|value", "%s: value of %s is %v, want %d", where, repDefs[ent.Rep].name, v, ent.Val)
				return
			}
		}
	}
}

func (r *run) sweepSym(live []mapmodel.Entry) {
	e := r.e
	und := goja.Undefined()
	r.inGet = true
	defer func() { r.inGet = false }()
	// three listings of the own symbol keys
	r.compareSymbols("Symbols()", r.obj, live, false)
	if r.fail != nil {
		return
	}
	for li, f := range []goja.Callable{e.symList, e.symOwnKeys} {
		name := []string{"getOwnPropertySymbols", "Reflect.ownKeys"}[li]
		res, err := f(und, r.obj)
		r.counts.observations++
		if err != nil {
			r.failf(name+"|threw", "%s threw %v", name, err)
			return
		}
		ao := res.(*goja.Object)
		n := int(ao.Get("length").ToInteger())
		skip := 0
		if li == 1 {
			skip = 1 // the string key "x" comes first
			if n == 0 || ao.Get("0").String() != "x" {
				r.failf(name+"|string-key", "Reflect.ownKeys does not start with the string key")
				return
			}
		}
		if n-skip != len(live) {
			r.failf(name+"|length", "%s lists %d symbols after %s, the table holds %d", name, n-skip, r.lastOp, len(live))
			return
		}
		for i, ent := range live {
			c, _ := e.classify(ao.Get(fmt.Sprint(i + skip)))
			if int(c) != ent.Class {
				r.failf(name+"|order", "%s[%d] is %v, want %s", name, i, ao.Get(fmt.Sprint(i+skip)), repDefs[ent.Rep].name)
				return
			}
		}
	}
	for _, rep := range r.cfg.probes {
		dd := repDefs[rep]
		wv, want := r.m.Get(int(dd.class))
		hv, err := e.symHas(und, r.obj, e.rep(rep))
		r.counts.observations++
		if err != nil {
			r.failf("has|threw", "hasOwnProperty threw %v", err)
			return
		}
		if hv.ToBoolean() != want {
			r.failf(fmt.Sprintf("has|probe=%s|got=%v", dd.name, !want), "hasOwnProperty(%s) is %v, want %v", dd.name, !want, want)
			return
		}
		gv, err := e.symGet(und, r.obj, e.rep(rep))
		r.counts.observations++
		if err != nil {
			r.failf("get|threw", "o[%s] threw %v", dd.name, err)
			return
		}
		if want {
			if x, ok := gv.Export().(int64); !ok || int(x) != wv {
				r.failf(fmt.Sprintf("get|probe=%s|wrong", dd.name), "o[%s] is %v, want %d", dd.name, gv, wv)
				return
			}
		} else if !goja.IsUndefined(gv) {
			r.failf(fmt.Sprintf("get|probe=%s|absent-but-value", dd.name), "o[%s] is %v for an absent property", dd.name, gv)
			return
		}
	}
	// a complete copy, not interleaved with anything
	res, err := e.symAssign(und, r.obj)
	r.counts.observations++
	if err != nil {
		r.failf("assign|threw", "Object.assign threw %v", err)
		return
	}
	r.compareSymbols("assign(complete)", res.(*goja.Object), live, true)
}
