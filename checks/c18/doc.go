// Package c18 holds the check for property C18.
package c18
