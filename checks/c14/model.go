package c14

// The reference model: a structural walk over the chain description that says, without running anything,
// what every catch/finally block must log and what the host must finally get.

// value table indices (identity is known before the run)
const (
	vNum = iota
	vStr
	vUndef
	vNull
	vObj
	vValNull
	vVal1
	vValGet
	vErrUnused // pErr objects are created at the throw site (fresh)
	vGoErr
	vGoWrap
	vGoJoin
	vRet   // value returned by an innermost native that raises nothing
	vSW    // value returned by a swallowing catch
	vExObj // value inside the pre-made *Exception
	vR99   // value thrown by the return() method of the forof-step/return-throws iterator
	nVals
)

// Go error table
const (
	gSentinel = iota
	gWrap
	gJoin
)

// VTerm is an expected script value.
type VTerm struct {
	Idx   int    // >=0: values[Idx] (that very value); -1: an object created during the run
	Fresh int    // id of the created object (the same id must always be the same object)
	Class string // class of a created object: GoError | MyErr | TypeError
	Err   *ETerm // the Go error a GoError object carries (nil otherwise)
}

type ekind uint8

const (
	ekGo   ekind = iota // goErrs[Go], that very error value
	ekWrap              // fmt.Errorf("N<Frame>: %w", Inner)
	ekExc               // *goja.Exception carrying Val
	ekIntr              // *goja.InterruptedError carrying the token
	ekSOF               // *goja.StackOverflowError
)

// ETerm is an expected Go error.
type ETerm struct {
	Kind   ekind
	Go     int
	Frame  int
	Inner  *ETerm
	Val    VTerm
	Site   *Site // ekExc: expected top stack frame (nil: not determined by the property)
	Sticky bool  // ekExc: the value is an Error object, its stack is that of its creation
}

func (e *ETerm) hasUncatchable() bool {
	for e != nil {
		switch e.Kind {
		case ekIntr, ekSOF:
			return true
		case ekWrap:
			e = e.Inner
		case ekExc:
			e = e.Val.Err
		default:
			return false
		}
	}
	return false
}

func (e *ETerm) hasSentinel() bool {
	for e != nil {
		switch e.Kind {
		case ekGo:
			return true // all three table errors are or contain the sentinel
		case ekWrap:
			e = e.Inner
		case ekExc:
			e = e.Val.Err
		default:
			return false
		}
	}
	return false
}

type fkind uint8

const (
	fNormal fkind = iota
	fThrown
	fUncatchable
	fForeign
)

// flight is the condition travelling outwards through the chain.
type flight struct {
	Kind        fkind
	Val         VTerm  // fThrown: thrown value; fNormal: returned value
	Site        *Site  // fThrown
	Sticky      bool   // fThrown
	Err         *ETerm // fUncatchable
	Foreign     Payload
	IntrPending bool // fNormal: the interrupt flag was set by the native that returned
}

type rkind uint8

const (
	rRet rkind = iota
	rErr
	rThrough
)

// result is what a native frame holds after its exit call.
type result struct {
	Kind rkind
	Val  VTerm
	Err  *ETerm
	Fl   flight
}

type expLog struct {
	Tag    string
	Frame  int
	HasVal bool
	Val    VTerm
}

type hkind uint8

const (
	hxValue     hkind = iota // the host call returns Val
	hxErr                    // the host call returns error Err
	hxPanic                  // the host call panics with the goja error Err
	hxForeign                // the host call panics with the foreign value
	hxRejected               // job: the derived promise is rejected with Val
	hxFulfilled              // job: the derived promise is fulfilled with Val
)

type hostExp struct {
	Kind      hkind
	Val       VTerm
	Err       *ETerm
	Foreign   Payload
	MayClear  bool // the interrupt flag legitimately stays set; the host calls ClearInterrupt (documented)
	Crossings int  // number of Go/JS boundaries a non-normal condition crossed
}

type Expect struct {
	Log  []expLog
	Host hostExp
	// Uncatchable/Foreign at some point: no catch/finally above that point may log
	Final flight
}

type model struct {
	c         *Chain
	exp       *Expect
	fresh     int
	crossings int
}

func known(i int) VTerm { return VTerm{Idx: i} }

func (m *model) newFresh(class string, e *ETerm) VTerm {
	m.fresh++
	return VTerm{Idx: -1, Fresh: m.fresh, Class: class, Err: e}
}

func valueOfPayload(p Payload) VTerm {
	v := known(int(p))
	switch p {
	case pGoErr:
		v.Err = &ETerm{Kind: ekGo, Go: gSentinel}
	case pGoWrap:
		v.Err = &ETerm{Kind: ekGo, Go: gWrap}
	case pGoJoin:
		v.Err = &ETerm{Kind: ekGo, Go: gJoin}
	}
	return v
}

func isErrorObject(p Payload) bool { return p == pErr || p == pGoErr || p == pGoWrap || p == pGoJoin }

// predict is the reference model.
func predict(c *Chain) *Expect {
	m := &model{c: c, exp: &Expect{}}
	n := len(c.Frames)
	for i := 1; i <= n; i++ {
		m.exp.Log = append(m.exp.Log, expLog{Tag: "e", Frame: i})
	}
	var fl flight
	for i := n; i >= 1; i-- {
		f := c.Frames[i-1]
		if f.JS {
			if i == n {
				fl = m.jsRaise(i)
			} else {
				fl = m.cross(fl)
			}
			fl = m.jsTry(i, f.Try, fl)
		} else {
			var res result
			if i == n {
				res = m.nativeRaise(i)
			} else {
				res = m.exit(i, f.Exit, m.cross(fl))
			}
			fl = m.entry(i, f.Entry, res)
		}
	}
	fl = m.cross(fl)
	m.exp.Final = fl
	m.exp.Host = m.host(c.Host, fl)
	m.exp.Host.Crossings = m.crossings
	return m.exp
}

// cross counts a boundary crossed by a non-normal condition.
func (m *model) cross(fl flight) flight {
	if fl.Kind != fNormal || fl.IntrPending {
		m.crossings++
	}
	return fl
}

func (m *model) jsRaise(i int) flight {
	fr := jsFrameFor(i, m.c.Frames[i-1].Try, m.c.actionOf(i))
	switch p := m.c.Payload; p {
	case pInterrupt:
		return flight{Kind: fUncatchable, Err: &ETerm{Kind: ekIntr}}
	case pOverflow:
		return flight{Kind: fUncatchable, Err: &ETerm{Kind: ekSOF}}
	case pErr:
		return flight{Kind: fThrown, Val: m.newFresh("MyErr", nil), Site: fr.throw, Sticky: true}
	default:
		// GoError objects were created by the host before the run: their stack is not the throw site
		if isErrorObject(p) {
			return flight{Kind: fThrown, Val: valueOfPayload(p), Sticky: true}
		}
		return flight{Kind: fThrown, Val: valueOfPayload(p), Site: fr.throw}
	}
}

func (m *model) jsTry(i int, tk TryKind, fl flight) flight {
	if fl.Kind == fNormal && fl.IntrPending {
		// the flag is polled before the next instruction of this frame
		fl = flight{Kind: fUncatchable, Err: &ETerm{Kind: ekIntr}}
	}
	log := func(tag string, hasVal bool, v VTerm) {
		m.exp.Log = append(m.exp.Log, expLog{Tag: tag, Frame: i, HasVal: hasVal, Val: v})
	}
	switch fl.Kind {
	case fThrown:
		switch tk {
		case tCatch, tCatchFinally:
			log("c", true, fl.Val)
			if !fl.Sticky {
				fl.Site = jsFrameFor(i, tk, m.c.actionOf(i)).rethrow
			}
			if tk == tCatchFinally {
				log("f", false, VTerm{})
			}
		case tFinally:
			log("f", false, VTerm{})
		case tSwallow:
			log("c", true, fl.Val)
			fl = flight{Kind: fNormal, Val: known(vSW)}
		}
	case fNormal:
		if tk == tFinally || tk == tCatchFinally {
			log("f", false, VTerm{})
		}
	}
	return fl
}

func (m *model) nativeRaise(i int) result {
	switch p := m.c.Payload; p {
	case pRetSentinel:
		return result{Kind: rErr, Err: &ETerm{Kind: ekGo, Go: gSentinel}}
	case pRetWrap:
		return result{Kind: rErr, Err: &ETerm{Kind: ekGo, Go: gWrap}}
	case pRetJoin:
		return result{Kind: rErr, Err: &ETerm{Kind: ekGo, Go: gJoin}}
	case pRetNil:
		return result{Kind: rRet, Val: known(vRet)}
	case pException:
		return result{Kind: rErr, Err: &ETerm{Kind: ekExc, Val: known(vExObj), Site: preExSite}}
	case pForeignStruct, pForeignErr:
		return result{Kind: rThrough, Fl: flight{Kind: fForeign, Foreign: p}}
	case pInterrupt:
		return result{Kind: rRet, Val: known(vRet), Fl: flight{IntrPending: true}}
	case pErr:
		return result{Kind: rThrough, Fl: flight{Kind: fThrown, Val: m.newFresh("MyErr", nil), Site: mkErrSite, Sticky: true}}
	default:
		return result{Kind: rThrough, Fl: flight{Kind: fThrown, Val: valueOfPayload(p), Sticky: isErrorObject(p)}}
	}
}

func excOf(fl flight) *ETerm {
	return &ETerm{Kind: ekExc, Val: fl.Val, Site: fl.Site, Sticky: fl.Sticky}
}

// exit: what the native frame i holds after calling the next frame through convention x.
func (m *model) exit(i int, x Exit, fl flight) result {
	if x == xForOfStep || x == xForOfStepRT {
		return m.forOfStep(i, x == xForOfStepRT, fl)
	}
	switch fl.Kind {
	case fNormal:
		return result{Kind: rRet, Val: fl.Val, Fl: flight{IntrPending: fl.IntrPending}}
	case fThrown:
		switch x {
		case xCallable, xNew, xTryGet:
			return result{Kind: rErr, Err: excOf(fl)}
		case xExportFnErr:
			// documented: instances of GoError are unwrapped, their 'value' is returned instead
			if fl.Val.Err != nil {
				return result{Kind: rErr, Err: fl.Val.Err}
			}
			return result{Kind: rErr, Err: excOf(fl)}
		}
	case fUncatchable:
		switch x {
		case xCallable, xExportFnErr:
			return result{Kind: rErr, Err: fl.Err}
		}
	}
	return result{Kind: rThrough, Fl: fl}
}

// forOfStep: Runtime.ForOf "is a Go equivalent of for-of loop"; the step callback of frame i calls the next
// frame and panics with the error it gets. ECMAScript for-of semantics (IteratorClose): when the body
// completes abruptly by a throw, return() is called and the ORIGINAL exception propagates even if return()
// throws; when the body stops the loop normally, an exception thrown by return() propagates. While an
// uncatchable condition (or a foreign panic) unwinds no script code runs, so return() is not called.
func (m *model) forOfStep(i int, returnThrows bool, fl flight) result {
	logR := func() { m.exp.Log = append(m.exp.Log, expLog{Tag: "r", Frame: i}) }
	switch fl.Kind {
	case fThrown:
		logR()
		return result{Kind: rThrough, Fl: fl}
	case fNormal:
		if fl.IntrPending {
			// cannot happen: the callee of a native frame is a script frame
			return result{Kind: rThrough, Fl: flight{Kind: fUncatchable, Err: &ETerm{Kind: ekIntr}}}
		}
		logR()
		if returnThrows {
			return result{Kind: rThrough, Fl: flight{Kind: fThrown, Val: known(vR99), Site: r99Site}}
		}
		return result{Kind: rRet, Val: fl.Val}
	}
	return result{Kind: rThrough, Fl: fl}
}

// entry: what the script caller of native frame i observes.
func (m *model) entry(i int, e Entry, res result) flight {
	switch res.Kind {
	case rThrough:
		return res.Fl
	case rRet:
		return flight{Kind: fNormal, Val: res.Val, IntrPending: res.Fl.IntrPending}
	}
	err := res.Err
	if e == eReflErrWrap {
		err = &ETerm{Kind: ekWrap, Frame: i, Inner: err}
	}
	if err.Kind == ekExc {
		// "If the error is *Exception, it is thrown as is"
		return flight{Kind: fThrown, Val: err.Val, Site: err.Site, Sticky: err.Sticky}
	}
	if err.hasUncatchable() {
		return flight{Kind: fUncatchable, Err: err}
	}
	// "otherwise it's wrapped in a GoError"
	return flight{Kind: fThrown, Val: m.newFresh("GoError", err), Sticky: true}
}

func (m *model) host(h HostEdge, fl flight) hostExp {
	if h == hTryForOfStep {
		if fl.Kind == fNormal && fl.IntrPending {
			// the iterator's return() is script code: interrupted at its first instruction
			fl = flight{Kind: fUncatchable, Err: &ETerm{Kind: ekIntr}}
		}
		res := m.forOfStep(0, false, fl)
		if res.Kind == rRet {
			return hostExp{Kind: hxValue, Val: res.Val}
		}
		fl = res.Fl
		h = hTryGet // from here on: like any Try-wrapped panicking call
	}
	if fl.Kind == fNormal && fl.IntrPending {
		if h == hRun || h == hTryForOf {
			// script code (the global code, resp. the iterator's next()) continues after the native returned: interrupted at the next instruction
			fl = flight{Kind: fUncatchable, Err: &ETerm{Kind: ekIntr}}
		} else {
			// no script instruction runs any more; Interrupt's doc: the flag stays set, use ClearInterrupt
			hx := m.host(h, flight{Kind: fNormal, Val: fl.Val})
			hx.MayClear = true
			return hx
		}
	}
	switch fl.Kind {
	case fNormal:
		if h == hJob {
			return hostExp{Kind: hxFulfilled, Val: fl.Val}
		}
		return hostExp{Kind: hxValue, Val: fl.Val}
	case fThrown:
		switch h {
		case hExportFn:
			return hostExp{Kind: hxPanic, Err: excOf(fl)}
		case hExportFnErr:
			if fl.Val.Err != nil {
				return hostExp{Kind: hxErr, Err: fl.Val.Err}
			}
		case hJob:
			return hostExp{Kind: hxRejected, Val: fl.Val}
		}
		return hostExp{Kind: hxErr, Err: excOf(fl)}
	case fUncatchable:
		switch h {
		case hExportFn:
			return hostExp{Kind: hxPanic, Err: fl.Err}
		case hTryGet, hTryForOf, hTryJSProxy:
			// Try only catches script exceptions; nobody between the VM and the host clears the flag
			return hostExp{Kind: hxPanic, Err: fl.Err, MayClear: true}
		}
		return hostExp{Kind: hxErr, Err: fl.Err}
	}
	return hostExp{Kind: hxForeign, Foreign: fl.Foreign}
}
