// Package c14 decides C14 (errors cross the Go/JS boundary in both directions with identity preserved) by
// bounded-exhaustive enumeration of call chains: the host invokes a script function which invokes a native
// Go frame which invokes a script function ... through every calling convention of the property; the
// innermost frame raises every kind of payload; every script frame carries every try/catch/finally shape.
// A reference model (model.go) walks the chain description and says what every catch block must receive and
// what the host must finally get; the real chain is built and run on a fresh runtime (exec.go) and judged
// (judge.go).
package c14

import (
	"encoding/json"
	"fmt"
	"os"
	"runtime/debug"
	"runtime/pprof"
	"strings"
	"sync"
	"sync/atomic"

	"verif/core"
)

func init() {
	core.Register(&core.Check{
		ID:    "C14",
		Level: "exploration",
		Rule: "mixed-radix enumeration by rank of all call chains host -> frame1 -> ... -> frameN whose frames alternate between script functions " +
			"(5 try shapes: none, catch+rethrow, finally, catch+rethrow+finally, swallowing catch) and native Go frames (7 entry conventions x 10 exit conventions), " +
			"x 10 host edges x every payload the innermost frame can raise (14 script, 20 native). quick: script-first chains of depth <= 4 and native-first chains of depth <= 3 over the full alphabet; " +
			"thorough: depth <= 5 over the full alphabet, depth 6 with one payload per propagation class and 3 try shapes, depth 7-8 with the reduced alphabet and no two equal neighbouring frames (bounds_completed lists what was finished). " +
			"Each chain is built and run for real and compared with the structural model: event log of all catch/finally blocks, host result (type, Value identity, errors.Is/As/Unwrap, top stack frame), idle state, probe program. " +
			"A chain is non-trivial when a non-normal condition (exception, Go error, uncatchable, foreign panic) crossed at least one Go/JS boundary; chains are distinct by construction (distinct ranks).",
		Run:    run,
		Replay: replay,
	})
}

// ---------- enumeration ----------

type alphabet struct {
	name     string
	hosts    []HostEdge
	tries    []TryKind
	entries  []Entry
	exits    []Exit
	jsPay    []Payload
	natPay   []Payload
	adjacent bool // no two equal adjacent frames: neighbouring native frames differ in entry and in exit, neighbouring script frames differ in try shape
}

func fullAlphabet() *alphabet {
	a := &alphabet{name: "full", jsPay: jsPayloads, natPay: nativePayloads}
	for h := HostEdge(0); h < nHost; h++ {
		a.hosts = append(a.hosts, h)
	}
	for t := TryKind(0); t < nTry; t++ {
		a.tries = append(a.tries, t)
	}
	for e := Entry(0); e < nEntry; e++ {
		a.entries = append(a.entries, e)
	}
	for x := Exit(0); x < nExit; x++ {
		a.exits = append(a.exits, x)
	}
	return a
}

// repsAlphabet: all conventions, one payload per propagation class, try shapes none / catch+rethrow+finally / swallow.
func repsAlphabet() *alphabet {
	a := fullAlphabet()
	a.name = "reps"
	a.tries = []TryKind{tNone, tCatchFinally, tSwallow}
	a.jsPay, a.natPay = jsPayloadReps, nativePayloadReps
	return a
}

// prunedAlphabet: the deep stage (depth 7..8).
func prunedAlphabet() *alphabet {
	return &alphabet{name: "pruned", adjacent: true,
		hosts:   []HostEdge{hRun, hCallable, hExportFnErr, hTryGet, hJob},
		tries:   []TryKind{tNone, tCatch, tFinally, tCatchFinally},
		entries: []Entry{eFcall, eReflErr, eReflErrWrap, eGoProxy},
		exits:   []Exit{xCallable, xExportFnErr, xGet, xTryGet},
		jsPay:   jsPayloadReps, natPay: nativePayloadReps}
}

const stride = 1000003 // prime, larger than any radix; total*stride < 2^63 for every shape used

type shape struct {
	a       *alphabet
	firstJS bool
	depth   int
	radix   []int64
	total   int64
}

func newShape(a *alphabet, firstJS bool, depth int) *shape {
	s := &shape{a: a, firstJS: firstJS, depth: depth}
	// digit order (fastest first): payload, frames from the innermost outwards, host
	js := firstJS == (depth%2 == 1) // is the innermost frame a script frame?
	if js {
		s.radix = append(s.radix, int64(len(a.jsPay)))
	} else {
		s.radix = append(s.radix, int64(len(a.natPay)))
	}
	for i := depth; i >= 1; i-- {
		isJS := firstJS == (i%2 == 1)
		switch {
		case isJS:
			s.radix = append(s.radix, int64(len(a.tries)))
		case i == depth:
			s.radix = append(s.radix, int64(len(a.entries)))
		default:
			s.radix = append(s.radix, int64(len(a.entries)*len(a.exits)))
		}
	}
	s.radix = append(s.radix, int64(len(a.hosts)))
	s.total = 1
	for _, r := range s.radix {
		s.total *= r
	}
	return s
}

func (s *shape) String() string {
	p := "JN"
	if !s.firstJS {
		p = "NJ"
	}
	return fmt.Sprintf("%s/%s/depth=%d", s.a.name, strings.Repeat(p, 4)[:s.depth], s.depth)
}

// unrank returns chain number idx of the shape, or nil if the combination is outside the space
// (a host edge that cannot invoke the first frame, or excluded by the adjacency rule).
func (s *shape) unrank(idx int64) *Chain {
	a := s.a
	// fixed bijection of the rank space (stride coprime to every radix) so that a run cut by the deadline has
	// still covered every host edge / convention of the shape instead of only the first digits
	idx = idx * stride % s.total
	d := make([]int64, len(s.radix))
	for k, r := range s.radix {
		d[k] = idx % r
		idx /= r
	}
	c := &Chain{Frames: make([]Frame, s.depth)}
	k := 1
	for i := s.depth; i >= 1; i-- {
		isJS := s.firstJS == (i%2 == 1)
		switch {
		case isJS:
			c.Frames[i-1] = Frame{JS: true, Try: a.tries[d[k]]}
		case i == s.depth:
			c.Frames[i-1] = Frame{Entry: a.entries[d[k]]}
		default:
			c.Frames[i-1] = Frame{Entry: a.entries[d[k]/int64(len(a.exits))], Exit: a.exits[d[k]%int64(len(a.exits))]}
		}
		k++
	}
	c.Host = a.hosts[d[k]]
	if c.Frames[s.depth-1].JS {
		c.Payload = a.jsPay[d[0]]
	} else {
		c.Payload = a.natPay[d[0]]
	}
	if c.validate() != nil {
		return nil
	}
	if a.adjacent {
		for i := 2; i < s.depth; i++ {
			f, g := c.Frames[i], c.Frames[i-2]
			if f.JS {
				if f.Try == g.Try {
					return nil
				}
			} else if f.Entry == g.Entry || (i < s.depth-1 && f.Exit == g.Exit) {
				return nil
			}
		}
	}
	return c
}

// ---------- reporting ----------

type reporter struct {
	r    *core.Run
	mu   sync.Mutex
	memo map[string]*verdict // coarse key -> confirmed minimal chain
}

type verdict struct {
	sig, what string
	c         CaseJSON
}

func kindsOf(fs []failure) string {
	var ks []string
	seen := map[string]bool{}
	for _, f := range fs {
		if !seen[f.kind] {
			seen[f.kind] = true
			ks = append(ks, f.kind)
		}
	}
	return strings.Join(ks, "+")
}

// coarseKey: chains that fail with the same payload, host edge and set of exit conventions are attributed to
// the verdict found for the first of them (the reduction is not repeated). kinds is deliberately not part
// of the key: one defect shows in many ways depending on the frames around it.
func coarseKey(c *Chain, kinds string) string {
	var xm uint
	for i, f := range c.Frames {
		if !f.JS && i < len(c.Frames)-1 {
			xm |= 1 << f.Exit
		}
	}
	return fmt.Sprintf("%d|%d|%x", c.Payload, c.Host, xm)
}

// hostOfExit: the host edge that performs the same Go->script convention as a native's exit.
var hostOfExit = [...]HostEdge{xCallable: hCallable, xNew: hConstruct, xExportFn: hExportFn, xExportFnErr: hExportFnErr, xGet: hTryGet, xForOf: hTryForOf, xJSProxy: hTryJSProxy, xTryGet: hTryGet, xForOfStep: hTryForOfStep, xForOfStepRT: hTryForOfStep}

// shrink greedily reduces a failing chain to a minimal failing one. The signature is derived from the
// minimal chain, so that one root cause gets one signature however deep the chain was in which it showed.
// Reductions only remove frames or replace a convention by the simplest one (or by one that is already in
// the chain), so a chain is never attributed to a mechanism it does not contain.
func shrink(c *Chain) *Chain {
	var en *env // candidates run on a reused runtime while it stays idle and usable; the result is confirmed on fresh ones
	fails := func(d *Chain) bool {
		if d.validate() != nil {
			return false
		}
		var fs []failure
		fs, _, en = runOn(en, d)
		return len(fs) > 0
	}
	cur := c.clone()
	for changed := true; changed; {
		changed = false
		// drop the outer frames up to a native frame; the host then calls that native's callee the way the native did
		for k := len(cur.Frames) - 2; k >= 0; k-- {
			if f := cur.Frames[k]; !f.JS {
				d := cur.clone()
				d.Frames = d.Frames[k+1:]
				d.Host = hostOfExit[f.Exit]
				if fails(d) {
					cur, changed = d, true
					break
				}
			}
		}
		// remove two neighbouring frames (keeps alternation and the type of the innermost frame)
		for k := 0; k+1 < len(cur.Frames) && len(cur.Frames) > 2; k++ {
			d := cur.clone()
			d.Frames = append(d.Frames[:k], d.Frames[k+2:]...)
			if fails(d) {
				cur, changed = d, true
				k--
			}
		}
		// remove the outermost frame
		if len(cur.Frames) > 1 {
			d := cur.clone()
			d.Frames = d.Frames[1:]
			if fails(d) {
				cur, changed = d, true
			}
		}
		// the innermost native frame only raises a value: let the script frame above (or a plain script frame) throw it
		if n := len(cur.Frames); !cur.Frames[n-1].JS && (cur.Payload.isValue() || cur.Payload == pInterrupt) {
			d := cur.clone()
			if n == 1 {
				d.Frames[0] = Frame{JS: true}
			} else {
				d.Frames = d.Frames[:n-1]
			}
			if fails(d) {
				cur, changed = d, true
			}
		}
		// the simplest payload of the same kind
		if p := cur.Payload; p.isValue() && p != pNum || p == pRetSentinel || p == pRetWrap || p == pRetJoin || p == pRetNil || p == pException {
			d := cur.clone()
			d.Payload = pNum
			if fails(d) {
				cur, changed = d, true
			}
		}
		for _, h := range []HostEdge{hRun, hCallable} {
			if cur.Host > h {
				d := cur.clone()
				d.Host = h
				if fails(d) {
					cur, changed = d, true
					break
				}
			}
		}
		for i := range cur.Frames {
			f := cur.Frames[i]
			if f.JS && f.Try != tNone {
				d := cur.clone()
				d.Frames[i].Try = tNone
				if fails(d) {
					cur, changed = d, true
				}
			}
			if !f.JS && f.Entry != eFcall {
				d := cur.clone()
				d.Frames[i].Entry = eFcall
				if fails(d) {
					cur, changed = d, true
				}
			}
			if !f.JS && f.Exit != xCallable && i < len(cur.Frames)-1 {
				d := cur.clone()
				d.Frames[i].Exit = xCallable
				if fails(d) {
					cur, changed = d, true
				}
			}
		}
	}
	return cur
}

// report: c failed on a fresh runtime with failures fs.
func (rp *reporter) report(c *Chain, fs []failure) {
	if f := fs[0]; f.kind == "harness" {
		rp.r.Violation("harness|"+f.detail, "the harness could not build the chain: "+f.detail, c.JSON())
		return
	}
	key := coarseKey(c, kindsOf(fs))
	rp.mu.Lock()
	v := rp.memo[key]
	rp.mu.Unlock()
	if v == nil {
		min := shrink(c)
		rp.mu.Lock()
		v = rp.memo["min:"+min.String()]
		rp.mu.Unlock()
		if v == nil {
			v = confirm(min, kindsOf(fs))
			if strings.HasPrefix(v.sig, "nondeterministic|") {
				// the reduction (on a reused runtime) went astray: report the chain as it was found
				v = confirm(c, kindsOf(fs))
			}
		}
		rp.mu.Lock()
		rp.memo[key] = v
		rp.memo["min:"+min.String()] = v
		rp.mu.Unlock()
	}
	rp.r.Violation(v.sig, v.what, v.c)
}

// known: a failure of this class was already shrunk and confirmed; count it without further runs.
func (rp *reporter) known(c *Chain, fs []failure) bool {
	if fs[0].kind == "harness" {
		return false
	}
	rp.mu.Lock()
	v := rp.memo[coarseKey(c, kindsOf(fs))]
	rp.mu.Unlock()
	if v != nil {
		rp.r.Violation(v.sig, v.what, v.c)
	}
	return v != nil
}

// confirm re-runs the minimal chain on fresh runtimes.
func confirm(min *Chain, origKinds string) *verdict {
	first, _ := runChain(min)
	kinds := kindsOf(first)
	n := 0
	for i := 0; i < 5; i++ {
		fs2, _ := runChain(min)
		if len(fs2) > 0 && kindsOf(fs2) == kinds {
			n++
		}
	}
	var details []string
	for _, f := range first {
		details = append(details, f.detail)
	}
	v := &verdict{sig: kinds + "|" + min.String(), c: min.JSON()}
	v.what = fmt.Sprintf("chain [%s]: %s", min.String(), strings.Join(details, "; "))
	if n != 5 || len(first) == 0 {
		v.sig = "nondeterministic|" + origKinds + "|" + min.String()
		v.what = fmt.Sprintf("failure reproduces %d/5 times: %s", n, v.what)
	}
	return v
}

// worker runs cases on a reused runtime (a leak left by one case is then seen by the next ones); a failure is
// re-run on a fresh runtime before it is reported.
type worker struct {
	rp   *reporter
	en   *env
	hist []*Chain
}

const batch = 128

func (w *worker) do(c *Chain) outcome {
	if w.en != nil && len(w.hist) >= batch {
		w.en, w.hist = nil, nil
	}
	reused := w.en != nil
	fs, out, en := runOn(w.en, c)
	if len(fs) == 0 {
		w.en = en
		if en == nil {
			if verbose {
				discards.Add(1)
				discardMu.Lock()
				discardWhy[out.key]++
				discardMu.Unlock()
			}
			w.hist = nil
		} else {
			w.hist = append(w.hist, c)
		}
		return out
	}
	hist := w.hist
	if w.en = en; en == nil {
		w.hist = nil
	} else {
		w.hist = append(w.hist, c)
	}
	if w.rp.known(c, fs) {
		return out
	}
	if reused {
		fresh, _ := runChain(c)
		if len(fresh) == 0 {
			// only fails after the earlier cases of the batch: report with the history
			j := c.JSON()
			for _, h := range hist {
				j.Before = append(j.Before, h.JSON())
			}
			n := 0
			for i := 0; i < 5; i++ {
				if fs2 := runWithHistory(hist, c); kindsOf(fs2) == kindsOf(fs) {
					n++
				}
			}
			sig := "history-dependent|" + kindsOf(fs) + "|" + c.String()
			if n != 5 {
				sig = "nondeterministic|" + sig
			}
			w.rp.r.Violation(sig, fmt.Sprintf("chain [%s] fails only on a runtime that ran %d other chains before (reproduces %d/5): %s", c.String(), len(hist), n, fs[0].detail), j)
			return out
		}
		fs = fresh
	}
	w.rp.report(c, fs)
	return out
}

func runWithHistory(hist []*Chain, c *Chain) []failure {
	var en *env
	for _, h := range hist {
		_, _, en = runOn(en, h)
	}
	fs, _, _ := runOn(en, c)
	return fs
}

// ---------- run ----------

var verbose = os.Getenv("C14_VERBOSE") != ""
var discards atomic.Int64
var discardMu sync.Mutex
var discardWhy = map[string]int{}

func runShape(r *core.Run, rp *reporter, s *shape) bool {
	var evals, nontriv, skipped int64
	var mu sync.Mutex
	ok := r.Parallel(s.total, 256, func(w int, lo, hi int64) {
		var e, nt, sk int64
		wk := &worker{rp: rp}
		for idx := lo; idx < hi; idx++ {
			c := s.unrank(idx)
			if c == nil {
				sk++
				continue
			}
			out := wk.do(c)
			e++
			if out.crossing > 0 {
				nt++
			}
			r.Outcome(out.key)
			if idx > 64 && r.WantSample(idx) {
				r.Sample(map[string]interface{}{"shape": s.String(), "rank": idx, "chain": c.String()})
			}
		}
		r.Eval(e)
		r.NontrivialN(nt)
		mu.Lock()
		evals += e
		nontriv += nt
		skipped += sk
		mu.Unlock()
	})
	r.Add("chains_outside_space_skipped", skipped)
	if verbose {
		fmt.Fprintf(os.Stderr, "%s: ranks=%d chains=%d nontrivial=%d complete=%v\n", s, s.total, evals, nontriv, ok)
	}
	return ok
}

func run(r *core.Run) {
	// tiny live heap, high allocation rate: the default GC pacing makes the collector run continuously
	gcp := 200
	if v := os.Getenv("C14_GOGC"); v != "" {
		fmt.Sscan(v, &gcp)
	}
	defer debug.SetGCPercent(debug.SetGCPercent(gcp))
	r.Assume("runtimes (SetMaxCallStackSize(120)) are reused for up to 128 consecutive chains as long as they are idle and a probe program runs normally after each chain; a failing chain is re-run on a fresh runtime before it is reported; natives follow the documented idioms (panic with *Exception / Value / uncatchable error, return error, otherwise panic(NewGoError(err)))")
	r.Assume("the stack-position oracle applies to script throws of non-Error values (throw site, or the outermost rethrow site) and to Error objects created at the throw site; for values raised by natives only identity is judged")
	r.Assume("after a foreign (non-goja) Go panic reached the host the runtime's state is not judged: the property promises nothing about it")
	if pf := os.Getenv("C14_PROF"); pf != "" {
		if f, err := os.Create(pf); err == nil {
			pprof.StartCPUProfile(f)
			defer pprof.StopCPUProfile()
		}
	}
	rp := &reporter{r: r, memo: map[string]*verdict{}}
	bounds := map[string]interface{}{}
	complete := true

	// 0. regression corpus of the known findings
	for _, j := range regressionCorpus {
		c, err := parseCase(j)
		if err != nil {
			r.Violation("harness|corpus", err.Error(), j)
			continue
		}
		out := (&worker{rp: rp}).do(c)
		r.Eval(1)
		r.Outcome(out.key)
		if out.crossing > 0 {
			r.Nontrivial("corpus:" + c.String())
		}
	}

	full, reps, pruned := fullAlphabet(), repsAlphabet(), prunedAlphabet()
	var shapes []*shape
	add := func(a *alphabet, firstJS bool, from, to int) {
		for d := from; d <= to; d++ {
			shapes = append(shapes, newShape(a, firstJS, d))
		}
	}
	interleave := func(a *alphabet, maxJ, maxN int) {
		for d := 1; d <= maxJ || d <= maxN; d++ {
			if d <= maxJ {
				add(a, true, d, d)
			}
			if d <= maxN {
				add(a, false, d, d)
			}
		}
	}
	if sh := os.Getenv("C14_SHAPE"); sh != "" { // development aid: alphabet,J|N,depth
		var d int
		parts := strings.Split(sh, ",")
		fmt.Sscan(parts[2], &d)
		add(map[string]*alphabet{"full": full, "reps": reps, "pruned": pruned}[parts[0]], parts[1] == "J", d, d)
	} else if only := os.Getenv("C14_MAXDEPTH"); only != "" { // development aid
		var d int
		fmt.Sscan(only, &d)
		interleave(full, d, d-1)
	} else if r.Quick() {
		// depth 4 first with payload representatives: a run cut by the deadline on a busy machine has then
		// still completed depth 4 over all conventions
		interleave(full, 3, 3)
		add(reps, true, 4, 4)
		add(full, true, 4, 4)
	} else {
		// the deadline decides how far the run gets: first the quick space, then depth (reduced alphabet up to
		// depth 8), then breadth (all conventions at depth 5..6 with representative payloads, full alphabet at depth 4..5)
		interleave(full, 4, 3)
		add(pruned, true, 5, 8)
		add(reps, true, 5, 6)
		add(full, false, 4, 4)
		add(pruned, false, 5, 7)
		add(full, true, 5, 5)
		add(reps, false, 5, 5)
	}
	for _, s := range shapes {
		if !runShape(r, rp, s) {
			complete = false
			bounds[s.String()] = "cut by the deadline"
			break
		}
		bounds[s.String()] = fmt.Sprintf("complete (%d ranks)", s.total)
	}
	if verbose {
		fmt.Fprintln(os.Stderr, "discarded runtimes without failure:", discards.Load(), discardWhy, "memo entries:", len(rp.memo))
	}
	r.Set("bounds_completed", bounds)
	r.Exhaustive(complete)
}

func replay(r *core.Run, raw json.RawMessage) {
	var j CaseJSON
	if err := json.Unmarshal(raw, &j); err != nil {
		r.Violation("replay|bad", err.Error(), nil)
		return
	}
	c, err := parseCase(j)
	if err != nil {
		r.Violation("replay|bad", err.Error(), j)
		return
	}
	r.Eval(1)
	var hist []*Chain
	for _, b := range j.Before {
		h, err := parseCase(b)
		if err != nil {
			r.Violation("replay|bad", err.Error(), j)
			return
		}
		hist = append(hist, h)
	}
	fs := runWithHistory(hist, c)
	if len(fs) > 0 {
		var details []string
		for _, f := range fs {
			details = append(details, f.detail)
		}
		r.Violation(kindsOf(fs)+"|"+c.String(), fmt.Sprintf("chain [%s]: %s", c.String(), strings.Join(details, "; ")), j)
	}
}

// regressionCorpus: the minimal failing inputs of the findings listed in findings.d/C14.jsonl (run first).
var regressionCorpus = []CaseJSON{
	{Host: "exportfn_err", Frames: []string{"js:none"}, Payload: "{value:null}"},
	{Host: "exportfn_err", Frames: []string{"js:none"}, Payload: "{get value(){throw}}"},
	// the same two defects seen from inside a chain (a native calls the ExportTo'd func, the panic crosses script frames)
	{Host: "run", Frames: []string{"js:catch+finally", "go:fcall>exportfn_err", "js:none"}, Payload: "{value:null}"},
	{Host: "callable", Frames: []string{"js:catch", "go:reflerr>exportfn_err", "js:finally"}, Payload: "{get value(){throw}}"},
	{Host: "run", Frames: []string{"go:fcall>forof-step/return-throws", "js:none"}, Payload: "num"},
	{Host: "try(get)", Frames: []string{"js:catch", "go:dyn>forof-step/return-throws", "js:none"}, Payload: "Error-subclass"},
}
