package c14

import (
	"testing"

	"github.com/dop251/goja"
)

func BenchmarkNew(b *testing.B) {
	for i := 0; i < b.N; i++ {
		goja.New()
	}
}

func BenchmarkEnv(b *testing.B) {
	c, _ := parseCase(CaseJSON{Host: "run", Frames: []string{"js:catch", "go:fcall>callable", "js:none"}, Payload: "num"})
	for i := 0; i < b.N; i++ {
		newEnv().reset(c)
	}
}

func BenchmarkChain3(b *testing.B) {
	c, err := parseCase(CaseJSON{Host: "run", Frames: []string{"js:catch", "go:fcall>callable", "js:none"}, Payload: "num"})
	if err != nil {
		b.Fatal(err)
	}
	for i := 0; i < b.N; i++ {
		fs, _ := runChain(c)
		if len(fs) > 0 {
			b.Fatal(fs)
		}
	}
}

func BenchmarkChain3Reuse(b *testing.B) {
	c, err := parseCase(CaseJSON{Host: "run", Frames: []string{"js:catch", "go:fcall>callable", "js:none"}, Payload: "num"})
	if err != nil {
		b.Fatal(err)
	}
	var en *env
	for i := 0; i < b.N; i++ {
		var fs []failure
		fs, _, en = runOn(en, c)
		if len(fs) > 0 {
			b.Fatal(fs)
		}
	}
}
