package c14

import (
	"errors"
	"fmt"

	"github.com/dop251/goja"
)

// sentinelErr is a custom type so that errors.As can be checked as well as errors.Is.
type sentinelErr struct{ msg string }

func (e *sentinelErr) Error() string { return e.msg }

var (
	errSentinel = &sentinelErr{"sentinel"}
	errWrapped  = fmt.Errorf("ctx: %w", errSentinel)
	errJoined   = errors.Join(errors.New("other"), errSentinel)
	goErrs      = [3]error{gSentinel: errSentinel, gWrap: errWrapped, gJoin: errJoined}
	errPlain    = errors.New("plain go error")
)

type foreignT struct{ n int }

type intrToken struct{ n int }

type logEntry struct {
	Tag   string
	Frame int
	Val   goja.Value
}

const (
	maxCallStack = 120
	stepBudget   = 200000
)

// env is the world of one case: a fresh runtime, the value table, the event log.
type env struct {
	r      *goja.Runtime
	c      *Chain
	log    []logEntry
	vals   [nVals]goja.Value
	preEx  *goja.Exception
	token  *intrToken
	objs   []goja.Value // objs[i] = the object through which frame i (1-based) is invoked
	steps  int
	budget bool
	idle   goja.VerifIdleState
	goErr  *goja.Object // the GoError constructor
	myErr  *goja.Object
	tyErr  *goja.Object
	used   int // number of cases run on this runtime
}

type dynObj struct{ get func() goja.Value }

func (d *dynObj) Get(key string) goja.Value         { return d.get() }
func (d *dynObj) Set(key string, v goja.Value) bool { return false }
func (d *dynObj) Has(key string) bool               { return true }
func (d *dynObj) Delete(key string) bool            { return false }
func (d *dynObj) Keys() []string                    { return nil }

type setupError string

// newEnv makes a fresh runtime with the fixed part of the world (prelude, value table, LOG/INTR natives).
func newEnv() *env {
	en := &env{r: goja.New()}
	r := en.r
	r.SetMaxCallStackSize(maxCallStack)
	goja.VerifSetStepHook(r, func(r *goja.Runtime) {
		en.steps++
		if en.steps == stepBudget {
			en.budget = true
			r.Interrupt("c14 step budget")
		}
	})
	r.Set("LOG", func(call goja.FunctionCall) goja.Value {
		e := logEntry{Tag: call.Argument(0).String(), Frame: int(call.Argument(1).ToInteger())}
		if len(call.Arguments) > 2 {
			e.Val = call.Arguments[2]
		}
		en.log = append(en.log, e)
		return goja.Undefined()
	})
	r.Set("INTR", func(call goja.FunctionCall) goja.Value {
		r.Interrupt(en.token)
		return goja.Undefined()
	})
	if _, err := r.RunProgram(preludePrg); err != nil {
		panic(setupError("prelude: " + err.Error()))
	}
	en.vals[vNum] = r.ToValue(42)
	en.vals[vStr] = r.ToValue("boom")
	en.vals[vUndef] = goja.Undefined()
	en.vals[vNull] = goja.Null()
	en.vals[vObj] = r.Get("V_obj")
	en.vals[vValNull] = r.Get("V_valnull")
	en.vals[vVal1] = r.Get("V_val1")
	en.vals[vValGet] = r.Get("V_valget")
	en.vals[vRet] = r.Get("RET")
	en.vals[vSW] = r.Get("SW")
	en.vals[vExObj] = r.Get("EXOBJ")
	en.vals[vR99] = r.Get("R99")
	en.goErr = r.Get("GoError").(*goja.Object)
	en.myErr = r.Get("MyErr").(*goja.Object)
	en.tyErr = r.Get("TypeError").(*goja.Object)
	return en
}

// reset prepares the (fresh or reused) runtime for chain c.
func (en *env) reset(c *Chain) {
	r := en.r
	en.c = c
	en.log = en.log[:0]
	en.steps, en.budget = 0, false
	en.token = &intrToken{en.used}
	en.used++
	en.preEx = nil
	en.vals[vGoErr], en.vals[vGoWrap], en.vals[vGoJoin] = nil, nil, nil
	switch c.Payload {
	case pGoErr:
		en.vals[vGoErr] = r.NewGoError(errSentinel)
	case pGoWrap:
		en.vals[vGoWrap] = r.NewGoError(errWrapped)
	case pGoJoin:
		en.vals[vGoJoin] = r.NewGoError(errJoined)
	case pException:
		_, err := r.RunProgram(preExPrg)
		ex, ok := err.(*goja.Exception)
		if !ok {
			panic(setupError(fmt.Sprintf("pre-made exception: %v", err)))
		}
		en.preEx = ex
	}
	if c.Payload.isValue() && c.Payload != pErr {
		r.Set("P", en.vals[int(c.Payload)])
	}
}

func (en *env) logf(tag string, frame int) { en.log = append(en.log, logEntry{Tag: tag, Frame: frame}) }

// raiseErr is how a well-behaved native without an error return passes on a Go error it received.
func (en *env) raiseErr(err error) {
	if _, ok := err.(*goja.Exception); ok {
		panic(err)
	}
	var ie *goja.InterruptedError
	var so *goja.StackOverflowError
	if errors.As(err, &ie) || errors.As(err, &so) {
		panic(err)
	}
	panic(en.r.NewGoError(err))
}

// invoker performs one Go->script call convention on the function object next.
type invoker func() (goja.Value, error)

func (en *env) mustCall(fn string, arg goja.Value) goja.Value {
	f, ok := goja.AssertFunction(en.r.Get(fn))
	if !ok {
		panic(setupError(fn + " is not a function"))
	}
	v, err := f(goja.Undefined(), arg)
	if err != nil {
		panic(setupError(fn + ": " + err.Error()))
	}
	return v
}

func (en *env) getterHolder(next goja.Value) *goja.Object {
	o := en.r.NewObject()
	if err := o.DefineAccessorProperty("p", next, nil, goja.FLAG_FALSE, goja.FLAG_TRUE); err != nil {
		panic(setupError("DefineAccessorProperty: " + err.Error()))
	}
	return o
}

func (en *env) makeExit(i int, x Exit, next goja.Value) invoker {
	r := en.r
	switch x {
	case xForOfStep, xForOfStepRT:
		fn, ok := goja.AssertFunction(next)
		mk, ok2 := goja.AssertFunction(r.Get("MKSTEPITER"))
		if !ok || !ok2 {
			panic(setupError("AssertFunction failed"))
		}
		it, err := mk(goja.Undefined(), r.ToValue(i), r.ToValue(x == xForOfStepRT))
		if err != nil {
			panic(setupError("MKSTEPITER: " + err.Error()))
		}
		return func() (res goja.Value, _ error) {
			r.ForOf(it, func(goja.Value) bool {
				v, err := fn(goja.Undefined())
				if err != nil {
					en.raiseErr(err)
				}
				res = v
				return false
			})
			return
		}
	case xCallable:
		fn, ok := goja.AssertFunction(next)
		if !ok {
			panic(setupError("AssertFunction failed"))
		}
		return func() (goja.Value, error) { return fn(goja.Undefined()) }
	case xNew:
		return func() (goja.Value, error) {
			o, err := r.New(next)
			if err != nil {
				return nil, err
			}
			return o, nil
		}
	case xExportFn:
		var f func() goja.Value
		if err := r.ExportTo(next, &f); err != nil {
			panic(setupError("ExportTo: " + err.Error()))
		}
		return func() (goja.Value, error) { return f(), nil }
	case xExportFnErr:
		var f func() (goja.Value, error)
		if err := r.ExportTo(next, &f); err != nil {
			panic(setupError("ExportTo: " + err.Error()))
		}
		return f
	case xGet:
		o := en.getterHolder(next)
		return func() (goja.Value, error) { return o.Get("p"), nil }
	case xForOf:
		it := en.mustCall("MKITER", next)
		return func() (res goja.Value, err error) {
			r.ForOf(it, func(v goja.Value) bool { res = v; return false })
			return
		}
	case xJSProxy:
		p := en.mustCall("MKPROXY", next).(*goja.Object)
		return func() (goja.Value, error) { return p.Get("p"), nil }
	case xTryGet:
		o := en.getterHolder(next)
		return func() (v goja.Value, err error) {
			if ex := r.Try(func() { v = o.Get("p") }); ex != nil {
				return nil, ex
			}
			return
		}
	}
	panic(setupError("bad exit"))
}

// nativeRaise is the body of an innermost native frame.
func (en *env) nativeRaise() (goja.Value, error) {
	switch p := en.c.Payload; p {
	case pRetSentinel:
		return nil, errSentinel
	case pRetWrap:
		return nil, errWrapped
	case pRetJoin:
		return nil, errJoined
	case pRetNil:
		return en.vals[vRet], nil
	case pException:
		return nil, en.preEx
	case pForeignStruct:
		panic(foreignT{7})
	case pForeignErr:
		panic(errPlain)
	case pInterrupt:
		en.r.Interrupt(en.token)
		return en.vals[vRet], nil
	case pErr:
		panic(en.mustCall("MKERR", nil))
	default:
		panic(en.vals[int(p)])
	}
}

// makeNative builds the object through which script (or the host) invokes native frame i.
func (en *env) makeNative(i int, f Frame, body invoker) goja.Value {
	r := en.r
	run := func() (goja.Value, error) {
		en.logf("e", i)
		return body()
	}
	plain := func() goja.Value {
		v, err := run()
		if err != nil {
			en.raiseErr(err)
		}
		return v
	}
	switch f.Entry {
	case eFcall:
		return r.ToValue(func(goja.FunctionCall) goja.Value { return plain() })
	case eRefl:
		return r.ToValue(func() goja.Value { return plain() })
	case eReflErr:
		return r.ToValue(func() (goja.Value, error) { return run() })
	case eReflErrWrap:
		return r.ToValue(func() (goja.Value, error) {
			v, err := run()
			if err != nil {
				err = fmt.Errorf("N%d: %w", i, err)
			}
			return v, err
		})
	case eCtor:
		return r.ToValue(func(goja.ConstructorCall) *goja.Object {
			v := plain()
			o, _ := v.(*goja.Object)
			return o
		})
	case eGoProxy:
		p := r.NewProxy(r.NewObject(), &goja.ProxyTrapConfig{
			Get: func(target *goja.Object, property string, receiver goja.Value) goja.Value { return plain() },
		})
		return r.ToValue(p)
	case eDyn:
		return r.NewDynamicObject(&dynObj{get: plain})
	}
	panic(setupError("bad entry"))
}

// build creates all frame objects, innermost first.
func (en *env) build() {
	c := en.c
	n := len(c.Frames)
	en.objs = make([]goja.Value, n+2)
	for i := n; i >= 1; i-- {
		f := c.Frames[i-1]
		var obj goja.Value
		if f.JS {
			fr := jsFrameFor(i, f.Try, c.actionOf(i))
			v, err := en.r.RunProgram(fr.prg)
			if err != nil {
				panic(setupError("frame program: " + err.Error()))
			}
			obj = v
		} else {
			var body invoker
			if i == n {
				body = en.nativeRaise
			} else {
				body = en.makeExit(i, f.Exit, en.objs[i+1])
			}
			obj = en.makeNative(i, f, body)
		}
		en.objs[i] = obj
		en.r.Set(fmt.Sprintf("N%d", i), obj)
	}
}

// hostObs is what the host observed.
type hostObs struct {
	Panicked bool
	PanicVal interface{}
	Val      goja.Value
	Err      error
	Promise  *goja.Promise
}

func (en *env) hostCall() (obs hostObs) {
	r := en.r
	first := en.objs[1]
	var inv invoker
	switch en.c.Host {
	case hRun:
		act := aCall
		if !en.c.Frames[0].JS {
			act = invokeSyntax(en.c.Frames[0].Entry)
		}
		inv = func() (goja.Value, error) { return r.RunProgram(runPrgs[act]) }
	case hCallable:
		inv = en.makeExit(0, xCallable, first)
	case hConstruct:
		ctor, ok := goja.AssertConstructor(first)
		if !ok {
			panic(setupError("AssertConstructor failed"))
		}
		inv = func() (goja.Value, error) {
			o, err := ctor(nil)
			if err != nil {
				return nil, err
			}
			return o, nil
		}
	case hExportFn:
		inv = en.makeExit(0, xExportFn, first)
	case hExportFnErr:
		inv = en.makeExit(0, xExportFnErr, first)
	case hTryGet:
		inv = en.makeExit(0, xTryGet, first)
	case hTryForOf:
		f := en.makeExit(0, xForOf, first)
		inv = func() (v goja.Value, err error) {
			if ex := r.Try(func() { v, _ = f() }); ex != nil {
				return nil, ex
			}
			return
		}
	case hTryJSProxy:
		f := en.makeExit(0, xJSProxy, first)
		inv = func() (v goja.Value, err error) {
			if ex := r.Try(func() { v, _ = f() }); ex != nil {
				return nil, ex
			}
			return
		}
	case hTryForOfStep:
		f := en.makeExit(0, xForOfStep, first)
		inv = func() (v goja.Value, err error) {
			if ex := r.Try(func() { v, _ = f() }); ex != nil {
				return nil, ex
			}
			return
		}
	case hJob:
		mk, _ := goja.AssertFunction(r.Get("MKJOB"))
		inv = func() (goja.Value, error) {
			v, err := mk(goja.Undefined(), first)
			if v != nil {
				if p, ok := v.Export().(*goja.Promise); ok {
					obs.Promise = p
				}
			}
			return v, err
		}
	}
	en.idle = goja.VerifIdle(r)
	en.log = en.log[:0]
	defer func() {
		if x := recover(); x != nil {
			if se, ok := x.(setupError); ok {
				panic(se)
			}
			obs.Panicked = true
			obs.PanicVal = x
		}
	}()
	obs.Val, obs.Err = inv()
	return
}
