package c14

import (
	"errors"
	"fmt"
	"reflect"
	"strings"

	"github.com/dop251/goja"
)

// failure: kind classifies what deviates (it becomes the head of the signature), detail is human text.
type failure struct {
	kind   string
	detail string
}

type matcher struct {
	en    *env
	bound map[int]goja.Value
}

func (en *env) describe(v goja.Value) string {
	if v == nil {
		return "<nil>"
	}
	if o, ok := v.(*goja.Object); ok {
		for i, k := range en.vals {
			if k != nil && k == v {
				return valNames[i]
			}
		}
		s := ""
		if ex := en.r.Try(func() { s = o.ClassName() + ":" + o.String() }); ex != nil {
			s = o.ClassName()
		}
		return "object(" + s + ")"
	}
	return goja.VerifRepr(v) + ":" + v.String()
}

var valNames = [nVals]string{"the number 42", "the string \"boom\"", "undefined", "null", "the thrown plain object", "the thrown {value:null} object", "the thrown {value:1} object",
	"the thrown {get value(){}} object", "", "the thrown GoError(sentinel) object", "the thrown GoError(%w) object", "the thrown GoError(join) object",
	"the object returned by the innermost native", "the object returned by the swallowing catch", "the object inside the pre-made *Exception", "the object thrown by the iterator's return()"}

func descV(t VTerm) string {
	if t.Idx >= 0 {
		return valNames[t.Idx]
	}
	if t.Err != nil {
		return fmt.Sprintf("new %s#%d(%s)", t.Class, t.Fresh, descE(t.Err))
	}
	return fmt.Sprintf("new %s#%d", t.Class, t.Fresh)
}

func descE(e *ETerm) string {
	if e == nil {
		return "nil"
	}
	switch e.Kind {
	case ekGo:
		return [...]string{"sentinel", "wrapped", "joined"}[e.Go]
	case ekWrap:
		return fmt.Sprintf("wrap@N%d(%s)", e.Frame, descE(e.Inner))
	case ekExc:
		return fmt.Sprintf("Exception(%s)", descV(e.Val))
	case ekIntr:
		return "InterruptedError"
	case ekSOF:
		return "StackOverflowError"
	}
	return "?"
}

// matchValue: is actual the expected script value (that very value)?
func (m *matcher) matchValue(actual goja.Value, t VTerm) string {
	if actual == nil {
		return "got a nil Value, want " + descV(t)
	}
	if t.Idx >= 0 {
		want := m.en.vals[t.Idx]
		if !actual.SameAs(want) || !actual.StrictEquals(want) {
			return fmt.Sprintf("got %s, want %s", m.en.describe(actual), descV(t))
		}
		return ""
	}
	obj, ok := actual.(*goja.Object)
	if !ok {
		return fmt.Sprintf("got %s, want %s", m.en.describe(actual), descV(t))
	}
	if b, ok := m.bound[t.Fresh]; ok {
		if !b.SameAs(actual) {
			return fmt.Sprintf("got %s, want the same object as observed before for %s", m.en.describe(actual), descV(t))
		}
		return ""
	}
	for _, b := range m.bound {
		if b.SameAs(actual) {
			return fmt.Sprintf("got an object observed before as a different one, want %s", descV(t))
		}
	}
	for i, k := range m.en.vals {
		if k != nil && k == actual {
			return fmt.Sprintf("got %s, want %s", valNames[i], descV(t))
		}
	}
	m.bound[t.Fresh] = actual
	var ctor *goja.Object
	switch t.Class {
	case "GoError":
		ctor = m.en.goErr
	case "MyErr":
		ctor = m.en.myErr
	case "TypeError":
		ctor = m.en.tyErr
	}
	inst := false
	if ex := m.en.r.Try(func() { inst = m.en.r.InstanceOf(obj, ctor) }); ex != nil || !inst {
		return fmt.Sprintf("got %s, want an instance of %s", m.en.describe(actual), t.Class)
	}
	if t.Err != nil {
		var val goja.Value
		if ex := m.en.r.Try(func() { val = obj.Get("value") }); ex != nil || val == nil {
			return "GoError object has no readable 'value'"
		}
		ge, ok := val.Export().(error)
		if !ok {
			return fmt.Sprintf("GoError.value exports as %T, want an error", val.Export())
		}
		if d := m.matchErr(ge, t.Err, false); d != "" {
			return "GoError.value: " + d
		}
	}
	return ""
}

func comparable(x interface{}) bool { return x != nil && reflect.TypeOf(x).Comparable() }

// matchErr: is actual the expected Go error (that very error)? top: actual is what the host received, so
// the stack is checked too.
func (m *matcher) matchErr(actual error, e *ETerm, top bool) string {
	if actual == nil {
		return "got a nil error, want " + descE(e)
	}
	switch e.Kind {
	case ekGo:
		want := goErrs[e.Go]
		if !comparable(actual) || actual != want {
			return fmt.Sprintf("got %T(%v), want the original error %s", actual, actual, descE(e))
		}
	case ekWrap:
		switch actual.(type) {
		case *goja.Exception, *goja.InterruptedError, *goja.StackOverflowError:
			return fmt.Sprintf("got %T, want %s", actual, descE(e))
		}
		if !strings.HasPrefix(actual.Error(), fmt.Sprintf("N%d: ", e.Frame)) {
			return fmt.Sprintf("got %T(%v), want %s", actual, actual, descE(e))
		}
		return m.matchErr(errors.Unwrap(actual), e.Inner, false)
	case ekExc:
		ex, ok := actual.(*goja.Exception)
		if !ok {
			return fmt.Sprintf("got %T(%v), want %s", actual, actual, descE(e))
		}
		if d := m.matchValue(ex.Value(), e.Val); d != "" {
			return "Exception.Value(): " + d
		}
		// Go error identity through the Exception
		inner := errors.Unwrap(ex)
		if e.Val.Err == nil {
			if inner != nil {
				return fmt.Sprintf("unwrap: Exception.Unwrap() = %T(%v), want nil", inner, inner)
			}
		} else if d := m.matchErr(inner, e.Val.Err, false); d != "" {
			return "unwrap: Exception.Unwrap(): " + d
		}
		if got, want := errors.Is(ex, errSentinel), e.Val.Err.hasSentinel(); got != want {
			return fmt.Sprintf("unwrap: errors.Is(exception, sentinel) = %v, want %v", got, want)
		}
		var se *sentinelErr
		if got, want := errors.As(ex, &se), e.Val.Err.hasSentinel(); got != want || (got && se != errSentinel) {
			return fmt.Sprintf("unwrap: errors.As(exception, *sentinelErr) = %v, want %v", got, want)
		}
		if e.Site != nil {
			st := ex.Stack()
			if len(st) == 0 {
				return "stack: empty, want top frame " + e.Site.String()
			}
			pos := st[0].Position()
			if st[0].SrcName() != e.Site.Src || pos.Line != e.Site.Line || pos.Column != e.Site.Col {
				return fmt.Sprintf("stack: top frame %s:%d:%d (%s), want the throw site %s", st[0].SrcName(), pos.Line, pos.Column, st[0].FuncName(), e.Site)
			}
		}
	case ekIntr:
		ie, ok := actual.(*goja.InterruptedError)
		if !ok {
			return fmt.Sprintf("got %T(%v), want %s", actual, actual, descE(e))
		}
		if ie.Value() != interface{}(m.en.token) {
			return fmt.Sprintf("InterruptedError.Value() = %v, want the token passed to Interrupt", ie.Value())
		}
	case ekSOF:
		if _, ok := actual.(*goja.StackOverflowError); !ok {
			return fmt.Sprintf("got %T(%v), want %s", actual, actual, descE(e))
		}
	}
	if top && e.hasUncatchable() {
		var ie *goja.InterruptedError
		var so *goja.StackOverflowError
		if !errors.As(actual, &ie) && !errors.As(actual, &so) {
			return "errors.As does not find the uncatchable error in what the host received"
		}
	}
	return ""
}

func panicClass(x interface{}) string {
	switch v := x.(type) {
	case *goja.Exception:
		return "*Exception"
	case *goja.InterruptedError:
		return "*InterruptedError"
	case *goja.StackOverflowError:
		return "*StackOverflowError"
	case foreignT:
		return "foreign-struct"
	case error:
		if v == errPlain {
			return "foreign-error"
		}
		s := v.Error()
		switch {
		case strings.Contains(s, "nil pointer"):
			return "runtime-error:nil-pointer"
		case strings.Contains(s, "runtime error"):
			return "runtime-error"
		}
		return fmt.Sprintf("%T", x)
	case goja.Value:
		return "goja.Value"
	}
	return fmt.Sprintf("%T", x)
}

func idleDiff(a, b goja.VerifIdleState) string {
	var d []string
	f := func(n string, x, y interface{}) {
		if x != y {
			d = append(d, fmt.Sprintf("%s=%v", n, y))
		}
	}
	f("sp", a.SP, b.SP)
	f("sb", a.SB, b.SB)
	f("args", a.Args, b.Args)
	f("prg", a.PrgNil, b.PrgNil)
	f("callStack", a.CallStack, b.CallStack)
	f("tryStack", a.TryStack, b.TryStack)
	f("iterStack", a.IterStack, b.IterStack)
	f("refStack", a.RefStack, b.RefStack)
	f("stash", a.StashGlobal, b.StashGlobal)
	f("privEnv", a.PrivEnvNil, b.PrivEnvNil)
	f("jobs", a.Jobs, b.Jobs)
	f("interrupted", a.Interrupted, b.Interrupted)
	f("toStringStack", a.ToStringStack, b.ToStringStack)
	f("asyncRunner", a.AsyncRunnerNil, b.AsyncRunnerNil)
	f("newTarget", a.NewTargetNil, b.NewTargetNil)
	return strings.Join(d, ",")
}

func idleNames(s string) string {
	parts := strings.Split(s, ",")
	for i, p := range parts {
		if j := strings.IndexByte(p, '='); j >= 0 {
			parts[i] = p[:j]
		}
	}
	return strings.Join(parts, ",")
}

// outcome summarises what happened (for the distinct-outcome counter).
type outcome struct {
	key      string
	crossing int
}

// runChain executes one chain on a fresh runtime and judges it against the model.
func runChain(c *Chain) (fails []failure, out outcome) {
	fails, out, _ = runOn(nil, c)
	return
}

// runOn executes one chain on en (nil: a fresh runtime). It returns the runtime if it may be used for the
// next case (the case passed, the runtime is idle and the probe program ran normally).
func runOn(en *env, c *Chain) (fails []failure, out outcome, reuse *env) {
	exp := predict(c)
	var obs hostObs
	func() {
		defer func() {
			if x := recover(); x != nil {
				if se, ok := x.(setupError); ok {
					fails = append(fails, failure{"harness", "setup failed: " + string(se)})
					return
				}
				fails = append(fails, failure{"setup-panic|" + panicClass(x), fmt.Sprintf("Go panic while the chain was being built: %v", x)})
			}
		}()
		if en == nil {
			en = newEnv()
		}
		en.reset(c)
		en.build()
		obs = en.hostCall()
	}()
	if len(fails) > 0 {
		return fails, outcome{key: "setup-failure"}, nil
	}
	add := func(kind, format string, args ...interface{}) {
		fails = append(fails, failure{kind, fmt.Sprintf(format, args...)})
	}
	m := &matcher{en: en, bound: map[int]goja.Value{}}
	if en.budget {
		add("nontermination", "the case exceeded %d VM instructions", stepBudget)
		return fails, outcome{key: "budget"}, nil
	}

	// 1. the event log: what every catch/finally block observed, in order
	func() {
		defer func() {
			if x := recover(); x != nil {
				add("judge-panic|"+panicClass(x), "Go panic while the log was being compared: %v", x)
			}
		}()
		actual := en.log
		if exp.Final.Kind == fForeign {
			// whether finally blocks / iterator return() run while a foreign Go panic unwinds is not stated by the property
			actual = nil
			for _, e := range en.log {
				if e.Tag != "f" && e.Tag != "r" {
					actual = append(actual, e)
				}
			}
		}
		for _, e := range actual {
			if e.Tag == "g" {
				add("value-getter-invoked", "the 'value' getter of the thrown object was invoked by the engine")
				return
			}
		}
		for i := 0; i < len(actual) || i < len(exp.Log); i++ {
			if i >= len(actual) {
				w := exp.Log[i]
				add("log|missing|"+w.Tag, "missing log entry #%d: want %s of frame %d", i, w.Tag, w.Frame)
				return
			}
			a := actual[i]
			if i >= len(exp.Log) || a.Tag != exp.Log[i].Tag || a.Frame != exp.Log[i].Frame {
				switch {
				case a.Tag != "e" && exp.Final.Kind == fUncatchable:
					add("uncatchable-observed|"+a.Tag, "script block %q of frame %d ran while %s was propagating", a.Tag, a.Frame, descE(exp.Final.Err))
				case a.Tag == "c" && exp.Final.Kind == fForeign:
					add("foreign-panic-caught", "the catch block of frame %d ran while a foreign Go panic was propagating", a.Frame)
				case i >= len(exp.Log):
					add("log|extra|"+a.Tag, "unexpected log entry #%d: %s of frame %d", i, a.Tag, a.Frame)
				default:
					add("log|order", "log entry #%d is %s of frame %d, want %s of frame %d", i, a.Tag, a.Frame, exp.Log[i].Tag, exp.Log[i].Frame)
				}
				return
			}
			if w := exp.Log[i]; w.HasVal {
				if d := m.matchValue(a.Val, w.Val); d != "" {
					add("catch-value", "the catch block of frame %d received a wrong value: %s", a.Frame, d)
					return
				}
			}
		}
	}()

	// 2. what the host got
	hx := exp.Host
	func() {
		defer func() {
			if x := recover(); x != nil {
				add("judge-panic|"+panicClass(x), "Go panic while the host result was being inspected (errors.Is/As/Unwrap, Value): %v", x)
			}
		}()
		if obs.Panicked {
			switch hx.Kind {
			case hxForeign:
				ok := false
				switch hx.Foreign {
				case pForeignStruct:
					ok = comparable(obs.PanicVal) && obs.PanicVal == interface{}(foreignT{7})
				case pForeignErr:
					ok = comparable(obs.PanicVal) && obs.PanicVal == interface{}(errPlain)
				}
				if !ok {
					add("foreign-panic-converted|"+panicClass(obs.PanicVal), "the host recovered %T(%v), want the very value the native panicked with", obs.PanicVal, obs.PanicVal)
				}
			case hxPanic:
				err, ok := obs.PanicVal.(error)
				if !ok {
					add("host-panic|"+panicClass(obs.PanicVal), "the host call panicked with %T(%v), want panic(%s)", obs.PanicVal, obs.PanicVal, descE(hx.Err))
				} else if d := m.matchErr(err, hx.Err, true); d != "" {
					add("host-"+detailKind(d), "the host call panicked with a wrong error: %s", d)
				}
			default:
				add("host-panic|"+panicClass(obs.PanicVal), "Go panic escaped to the host: %T(%v)", obs.PanicVal, obs.PanicVal)
			}
			return
		}
		switch hx.Kind {
		case hxForeign:
			add("foreign-panic-swallowed", "the native panicked with a non-goja value but the host call returned (value %s, error %v)", en.describe(obs.Val), obs.Err)
		case hxPanic:
			add("host-result|no-panic", "the host call returned (value %s, error %v), want panic(%s)", en.describe(obs.Val), obs.Err, descE(hx.Err))
		case hxValue:
			if obs.Err != nil {
				add("host-result|unexpected-error", "the host call returned error %T(%v), want value %s", obs.Err, obs.Err, descV(hx.Val))
			} else if d := m.matchValue(obs.Val, hx.Val); d != "" {
				add("host-result|value", "the host call returned a wrong value: %s", d)
			}
		case hxErr:
			if obs.Err == nil {
				add("host-result|no-error", "the host call returned value %s and no error, want %s", en.describe(obs.Val), descE(hx.Err))
			} else if d := m.matchErr(obs.Err, hx.Err, true); d != "" {
				add("host-"+detailKind(d), "the host received a wrong error: %s", d)
			}
		case hxRejected, hxFulfilled:
			if obs.Err != nil {
				add("host-result|unexpected-error", "scheduling the job returned error %T(%v)", obs.Err, obs.Err)
			} else if obs.Promise == nil {
				add("harness", "no promise")
			} else {
				want := goja.PromiseStateRejected
				if hx.Kind == hxFulfilled {
					want = goja.PromiseStateFulfilled
				}
				if obs.Promise.State() != want {
					add("job|state", "the derived promise is in state %d, want %d", obs.Promise.State(), want)
				} else if d := m.matchValue(obs.Promise.Result(), hx.Val); d != "" {
					add("job|value", "the derived promise settled with a wrong value: %s", d)
				}
			}
		}
	}()

	// 3. afterwards the runtime is idle and usable. After a foreign Go panic the property promises nothing.
	out = outcome{crossing: hx.Crossings}
	out.key = fmt.Sprintf("%d|%d|%s", exp.Final.Kind, hx.Kind, logShape(en.log))
	if hx.Kind == hxForeign {
		// not judged; the runtime is reused only if it happens to be idle and usable
		if a, b := en.idle, goja.VerifIdle(en.r); len(fails) == 0 && obs.Panicked {
			a.PC, b.PC = 0, 0
			if a == b && en.probe() == "" {
				reuse = en
			} else {
				out.key += "|not-idle-after-foreign-panic"
			}
		}
	} else if !(obs.Panicked && hx.Kind != hxPanic) {
		if hx.MayClear {
			en.r.ClearInterrupt()
		}
		st := goja.VerifIdle(en.r)
		a, b := en.idle, st
		a.PC, b.PC = 0, 0
		if a != b {
			d := idleDiff(a, b)
			add("idle|"+idleNames(d), "the runtime is not idle after the host call returned: %s", d)
		} else if d := en.probe(); d != "" {
			add("probe", "%s", d)
		} else {
			reuse = en // idle and usable, even if the case itself deviated from the model
		}
	}
	return
}

func logShape(l []logEntry) string {
	var sb strings.Builder
	for _, e := range l {
		if e.Tag != "e" {
			fmt.Fprintf(&sb, "%s%d", e.Tag, e.Frame)
		}
	}
	return sb.String()
}

// detailKind maps a mismatch text to the signature head.
func detailKind(d string) string {
	switch {
	case strings.HasPrefix(d, "stack:"):
		return "stack"
	case strings.HasPrefix(d, "unwrap:"):
		return "unwrap"
	case strings.HasPrefix(d, "Exception.Value():"):
		return "value"
	}
	return "error"
}

func (en *env) probe() (d string) {
	defer func() {
		if x := recover(); x != nil {
			d = fmt.Sprintf("probe program panicked after the case: %v", x)
		}
	}()
	en.steps = 0
	v, err := en.r.RunProgram(probePrg)
	if err != nil {
		return "probe program failed after the case: " + err.Error()
	}
	if v.String() != "f,7,2" {
		return "probe program misbehaves after the case: " + v.String()
	}
	return ""
}
