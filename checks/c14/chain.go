package c14

import (
	"fmt"
	"strings"
)

// A Chain describes one call chain: the host (Go) invokes frame 1 through a host edge, every frame invokes
// the next one, the innermost frame raises the payload. Frames alternate between script functions (with a
// try/catch/finally shape) and native Go frames (entered from script through an Entry convention, calling
// the next script function through an Exit convention).

type HostEdge uint8

const (
	hRun          HostEdge = iota // Runtime.RunProgram of global code that invokes frame 1
	hCallable                     // goja.AssertFunction(f)(undefined)
	hConstruct                    // goja.AssertConstructor(f)(nil)
	hExportFn                     // ExportTo func() Value   (exceptions panic)
	hExportFnErr                  // ExportTo func() (Value, error)
	hTryGet                       // Try(func(){ obj.Get("p") })  getter = frame 1
	hTryForOf                     // Try(func(){ ForOf(iterable) }) next() calls frame 1
	hTryJSProxy                   // Try(func(){ proxy.Get("p") }) JS handler {get: frame 1}
	hJob                          // Promise.resolve().then(frame 1): run from the job queue
	hTryForOfStep                 // Try(func(){ ForOf(iterable, step) }): the step callback calls frame 1 (Callable) and panics with the error
	nHost
)

var hostNames = [...]string{"run", "callable", "construct", "exportfn", "exportfn_err", "try(get)", "try(forof)", "try(jsproxy)", "job", "try(forof-step)"}

type Entry uint8

const (
	eFcall       Entry = iota // func(goja.FunctionCall) goja.Value
	eRefl                     // reflect-wrapped func() goja.Value (raises by panic)
	eReflErr                  // reflect-wrapped func() (goja.Value, error): returns errors as they are
	eReflErrWrap              // same, but wraps every error with fmt.Errorf("N<i>: %w")
	eCtor                     // func(goja.ConstructorCall) *goja.Object, invoked with new
	eGoProxy                  // Proxy with a Go ProxyTrapConfig: Get trap, invoked as o.x
	eDyn                      // DynamicObject.Get, invoked as o.x
	nEntry
)

var entryNames = [...]string{"fcall", "refl", "reflerr", "reflerr_wrap", "ctor", "goproxy", "dyn"}

// funcLike entries yield a function object that Go can invoke directly (first frame of a native-first chain).
func (e Entry) funcLike() bool { return e <= eCtor }

type Exit uint8

const (
	xCallable    Exit = iota // AssertFunction(next)(undefined) -> (v, err)
	xNew                     // Runtime.New(next) -> (o, err)
	xExportFn                // ExportTo func() Value; panics pass through the native
	xExportFnErr             // ExportTo func() (Value, error)
	xGet                     // obj.Get("p") with next as getter; panics pass through
	xForOf                   // Runtime.ForOf over an iterable whose next() calls next; panics pass through
	xJSProxy                 // proxy.Get("p") with JS handler {get: next}; panics pass through
	xTryGet                  // Runtime.Try(func(){ obj.Get("p") }) -> *Exception
	xForOfStep               // Runtime.ForOf: the step callback calls next (Callable) and panics with the error; the iterator has a return() method
	xForOfStepRT             // same, the iterator's return() method throws
	nExit
)

var exitNames = [...]string{"callable", "new", "exportfn", "exportfn_err", "get", "forof", "jsproxy", "try(get)", "forof-step", "forof-step/return-throws"}

type TryKind uint8

const (
	tNone TryKind = iota
	tCatch
	tFinally
	tCatchFinally
	tSwallow
	nTry
)

var tryNames = [...]string{"none", "catch", "finally", "catch+finally", "swallow"}

type Payload uint8

const (
	// values: thrown by `throw P` in script, by panic(P) in a native
	pNum Payload = iota
	pStr
	pUndef
	pNull
	pObj
	pValNull // {value:null}
	pVal1    // {value:1}
	pValGet  // {get value(){ throw 2 }}
	pErr     // Error subclass instance created at the throw site
	pGoErr   // GoError object of the sentinel
	pGoWrap  // GoError object of fmt.Errorf("%w", sentinel)
	pGoJoin  // GoError object of errors.Join(other, sentinel)
	pInterrupt
	pOverflow // script only
	// native only
	pRetSentinel // return the Go error (reflerr) / panic(NewGoError(err)) (others)
	pRetWrap
	pRetJoin
	pRetNil        // nil error: normal return
	pException     // *goja.Exception obtained earlier: returned as error (reflerr) / panic(ex)
	pForeignStruct // panic(foreignT{7})
	pForeignErr    // panic(errors.New("plain"))
	nPayload
)

var payloadNames = [...]string{"num", "str", "undefined", "null", "obj", "{value:null}", "{value:1}", "{get value(){throw}}", "Error-subclass",
	"GoError(sentinel)", "GoError(%w)", "GoError(join)", "interrupt", "overflow",
	"goerr:sentinel", "goerr:%w", "goerr:join", "nil-error", "*Exception", "foreign-struct", "foreign-error"}

var jsPayloads = []Payload{pNum, pStr, pUndef, pNull, pObj, pValNull, pVal1, pValGet, pErr, pGoErr, pGoWrap, pGoJoin, pInterrupt, pOverflow}
var nativePayloads = []Payload{pNum, pStr, pUndef, pNull, pObj, pValNull, pVal1, pValGet, pErr, pGoErr, pGoWrap, pGoJoin, pInterrupt,
	pRetSentinel, pRetWrap, pRetJoin, pRetNil, pException, pForeignStruct, pForeignErr}

// one representative per propagation class (used by the deep, pruned stages of the thorough tier)
var jsPayloadReps = []Payload{pNum, pValNull, pErr, pGoWrap, pInterrupt, pOverflow}
var nativePayloadReps = []Payload{pObj, pGoErr, pInterrupt, pRetJoin, pRetNil, pException, pForeignStruct}

func (p Payload) isValue() bool { return p <= pGoJoin }

type Frame struct {
	JS    bool
	Try   TryKind // JS
	Entry Entry   // native
	Exit  Exit    // native, unused in the innermost frame
}

type Chain struct {
	Host    HostEdge
	Frames  []Frame
	Payload Payload
}

func (c *Chain) String() string {
	var sb strings.Builder
	sb.WriteString(hostNames[c.Host])
	for i, f := range c.Frames {
		sb.WriteString(" > ")
		sb.WriteString(f.str(i == len(c.Frames)-1))
	}
	sb.WriteString(" ! ")
	sb.WriteString(payloadNames[c.Payload])
	return sb.String()
}

func (f Frame) str(last bool) string {
	if f.JS {
		return "js:" + tryNames[f.Try]
	}
	if last {
		return "go:" + entryNames[f.Entry]
	}
	return "go:" + entryNames[f.Entry] + ">" + exitNames[f.Exit]
}

// CaseJSON is the replayable form of a chain.
type CaseJSON struct {
	Host    string   `json:"host"`
	Frames  []string `json:"frames"`
	Payload string   `json:"payload"`
	Text    string   `json:"text,omitempty"`
	// Before: chains run earlier on the same runtime (only for failures that do not reproduce on a fresh one)
	Before []CaseJSON `json:"before,omitempty"`
}

func (c *Chain) JSON() CaseJSON {
	j := CaseJSON{Host: hostNames[c.Host], Payload: payloadNames[c.Payload], Text: c.String()}
	for i, f := range c.Frames {
		j.Frames = append(j.Frames, f.str(i == len(c.Frames)-1))
	}
	return j
}

func indexOf(names []string, s string) int {
	for i, n := range names {
		if n == s {
			return i
		}
	}
	return -1
}

func parseCase(j CaseJSON) (*Chain, error) {
	c := &Chain{}
	h := indexOf(hostNames[:], j.Host)
	p := indexOf(payloadNames[:], j.Payload)
	if h < 0 || p < 0 {
		return nil, fmt.Errorf("bad host edge %q or payload %q", j.Host, j.Payload)
	}
	c.Host, c.Payload = HostEdge(h), Payload(p)
	for _, fs := range j.Frames {
		switch {
		case strings.HasPrefix(fs, "js:"):
			t := indexOf(tryNames[:], fs[3:])
			if t < 0 {
				return nil, fmt.Errorf("bad frame %q", fs)
			}
			c.Frames = append(c.Frames, Frame{JS: true, Try: TryKind(t)})
		case strings.HasPrefix(fs, "go:"):
			en, ex, has := strings.Cut(fs[3:], ">")
			e := indexOf(entryNames[:], en)
			x := 0
			if has {
				x = indexOf(exitNames[:], ex)
			}
			if e < 0 || x < 0 {
				return nil, fmt.Errorf("bad frame %q", fs)
			}
			c.Frames = append(c.Frames, Frame{Entry: Entry(e), Exit: Exit(x)})
		default:
			return nil, fmt.Errorf("bad frame %q", fs)
		}
	}
	if err := c.validate(); err != nil {
		return nil, err
	}
	return c, nil
}

// validate checks the structural rules of the chain space.
func (c *Chain) validate() error {
	n := len(c.Frames)
	if n == 0 {
		return fmt.Errorf("empty chain")
	}
	for i := 1; i < n; i++ {
		if c.Frames[i].JS == c.Frames[i-1].JS {
			return fmt.Errorf("frames %d and %d do not alternate", i, i+1)
		}
	}
	if !c.Frames[0].JS {
		e := c.Frames[0].Entry
		switch c.Host {
		case hRun:
		case hConstruct:
			return fmt.Errorf("construct host edge needs a script first frame")
		default:
			if !e.funcLike() {
				return fmt.Errorf("host edge %s cannot invoke a %s object", hostNames[c.Host], entryNames[e])
			}
			// ExportTo of a wrapped Go func into its own type returns the Go func itself: no boundary at all
			if c.Host == hExportFn && e == eRefl || c.Host == hExportFnErr && (e == eReflErr || e == eReflErrWrap) {
				return fmt.Errorf("ExportTo of a Go func into its own type is not a boundary")
			}
		}
	}
	last := c.Frames[n-1]
	ok := false
	list := nativePayloads
	if last.JS {
		list = jsPayloads
	}
	for _, p := range list {
		if p == c.Payload {
			ok = true
		}
	}
	if !ok {
		return fmt.Errorf("payload %s cannot be raised by the innermost frame", payloadNames[c.Payload])
	}
	return nil
}

func (c *Chain) clone() *Chain {
	d := *c
	d.Frames = append([]Frame(nil), c.Frames...)
	return &d
}
