// Package c14 holds the check for property C14.
package c14
