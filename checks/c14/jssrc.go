package c14

import (
	"fmt"
	"strings"
	"sync"

	"github.com/dop251/goja"
)

// Script frames are generated source texts, one program per (frame index, try shape, action). A program's
// completion value is the frame's function object. The frame refers to its callee through the global
// N<i+1>, to the payload through P, and logs through LOG. The positions of the throw statements are
// computed from the generated text, they are the "throw sites" of the oracle.

type action uint8

const (
	aCall     action = iota // return N<i+1>();
	aNew                    // return new N<i+1>();
	aGet                    // return N<i+1>.x;
	aThrowP                 // throw P;
	aThrowErr               // throw new MyErr("m");
	aIntr                   // INTR(); return SW;
	aRec                    // unbounded recursion
	nAction
)

type Site struct {
	Src       string
	Line, Col int
}

func (s *Site) String() string {
	if s == nil {
		return "<unknown>"
	}
	return fmt.Sprintf("%s:%d:%d", s.Src, s.Line, s.Col)
}

type jsFrame struct {
	prg     *goja.Program
	src     string
	throw   *Site // position reported for the innermost throw (aThrowP: the throw keyword, aThrowErr: the new expression)
	rethrow *Site // position of `throw e` in the catch block
}

func posOf(src string, off int) (line, col int) {
	line, col = 1, 1
	for i := 0; i < off; i++ {
		if src[i] == '\n' {
			line++
			col = 1
		} else {
			col++
		}
	}
	return
}

func genJS(i int, tk TryKind, act action) *jsFrame {
	name := fmt.Sprintf("J%d_%s_%d.js", i, tryNames[tk], act)
	var sb strings.Builder
	ind := strings.Repeat(" ", i)
	throwOff, rethrowOff := -1, -1
	sb.WriteString(strings.Repeat("\n", i))
	fmt.Fprintf(&sb, "(function J%d() {\n%sLOG(\"e\", %d);\n", i, ind, i)
	stmt := func(ind string) {
		sb.WriteString(ind)
		switch act {
		case aCall:
			fmt.Fprintf(&sb, "return N%d();\n", i+1)
		case aNew:
			fmt.Fprintf(&sb, "return new N%d();\n", i+1)
		case aGet:
			fmt.Fprintf(&sb, "return N%d.x;\n", i+1)
		case aThrowP:
			throwOff = sb.Len()
			sb.WriteString("throw P;\n")
		case aThrowErr:
			sb.WriteString("throw ")
			throwOff = sb.Len()
			sb.WriteString("new MyErr(\"m\");\n")
		case aIntr:
			sb.WriteString("INTR(); return SW;\n")
		case aRec:
			sb.WriteString("return (function rec() { return rec(); })();\n")
		}
	}
	if tk == tNone {
		stmt(ind)
	} else {
		fmt.Fprintf(&sb, "%stry {\n", ind)
		stmt(ind + "  ")
		if tk == tCatch || tk == tCatchFinally {
			fmt.Fprintf(&sb, "%s} catch (e) {\n%s  LOG(\"c\", %d, e);\n%s    ", ind, ind, i, ind)
			rethrowOff = sb.Len()
			sb.WriteString("throw e;\n")
		}
		if tk == tSwallow {
			fmt.Fprintf(&sb, "%s} catch (e) {\n%s  LOG(\"c\", %d, e);\n%s  return SW;\n", ind, ind, i, ind)
		}
		if tk == tFinally || tk == tCatchFinally {
			fmt.Fprintf(&sb, "%s} finally {\n%s  LOG(\"f\", %d);\n", ind, ind, i)
		}
		fmt.Fprintf(&sb, "%s}\n", ind)
	}
	sb.WriteString("})\n")
	src := sb.String()
	f := &jsFrame{src: src, prg: goja.MustCompile(name, src, false)}
	if throwOff >= 0 {
		l, c := posOf(src, throwOff)
		f.throw = &Site{name, l, c}
	}
	if rethrowOff >= 0 {
		l, c := posOf(src, rethrowOff)
		f.rethrow = &Site{name, l, c}
	}
	return f
}

var jsCache sync.Map // key int -> *jsFrame

func jsFrameFor(i int, tk TryKind, act action) *jsFrame {
	key := (i*int(nTry)+int(tk))*int(nAction) + int(act)
	if v, ok := jsCache.Load(key); ok {
		return v.(*jsFrame)
	}
	v, _ := jsCache.LoadOrStore(key, genJS(i, tk, act))
	return v.(*jsFrame)
}

// actionOf tells what the script frame i (1-based) of the chain does.
func (c *Chain) actionOf(i int) action {
	if i == len(c.Frames) {
		switch c.Payload {
		case pErr:
			return aThrowErr
		case pInterrupt:
			return aIntr
		case pOverflow:
			return aRec
		}
		return aThrowP
	}
	return invokeSyntax(c.Frames[i].Entry)
}

func invokeSyntax(e Entry) action {
	switch e {
	case eCtor:
		return aNew
	case eGoProxy, eDyn:
		return aGet
	}
	return aCall
}

const preludeSrc = `class MyErr extends Error {}
var SW = {sw: 1}, RET = {ret: 1};
var V_obj = {}, V_valnull = {value: null}, V_val1 = {value: 1}, V_valget = {get value() { LOG("g", 0); throw 2; }};
var EXOBJ = {ex: 1};
var MKERR = function MKERR() {
  return new MyErr("n");
};
var R99 = {r99: 1};
var MKSTEPITER = function (i, throws) {
  var it = {};
  it[Symbol.iterator] = function () {
    return {
      next: function () { return {value: 1, done: false}; },
      return: function () {
        LOG("r", i);
        if (throws)
          throw R99;
        return {};
      }
    };
  };
  return it;
};
var MKITER = function (nx) { var it = {}; it[Symbol.iterator] = function () { return {next: function () { return {value: nx(), done: false}; }}; }; return it; };
var MKPROXY = function (nx) { return new Proxy({}, {get: nx}); };
var MKJOB = function (h) { return Promise.resolve().then(h); };
`

var preludePrg = goja.MustCompile("prelude.js", preludeSrc, false)

// the *Exception payload is produced by this program: its stack names this throw site
const preExSrc = "\n  throw EXOBJ;"

var preExPrg = goja.MustCompile("preex.js", preExSrc, false)
var preExSite = &Site{"preex.js", 2, 3}

// an innermost native that raises an Error object gets it from the script function MKERR: the object's stack
// names this creation site
var r99Site = func() *Site {
	off := strings.Index(preludeSrc, "throw R99")
	l, c := posOf(preludeSrc, off)
	return &Site{"prelude.js", l, c}
}()

var mkErrSite = func() *Site {
	off := strings.Index(preludeSrc, `new MyErr("n")`)
	l, c := posOf(preludeSrc, off)
	return &Site{"prelude.js", l, c}
}()

var runPrgs = [3]*goja.Program{
	aCall: goja.MustCompile("host.js", "N1()", false),
	aNew:  goja.MustCompile("host.js", "new N1()", false),
	aGet:  goja.MustCompile("host.js", "N1.x", false),
}

const probeSrc = `(function(a, b){ var s = "f"; try { try { throw 7 } finally { s += "," } } catch (e) { s += e } return s + "," + arguments.length })(1,2)`

var probePrg = goja.MustCompile("probe.js", probeSrc, false)
