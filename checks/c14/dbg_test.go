package c14

import (
	"fmt"
	"testing"
)

func TestShrink(t *testing.T) {
	for _, j := range []CaseJSON{
		{Host: "run", Frames: []string{"go:fcall>forof-step/return-throws", "js:none", "go:fcall"}, Payload: "goerr:%w"},
		{Host: "job", Frames: []string{"js:catch", "go:dyn>forof-step/return-throws", "js:finally", "go:reflerr_wrap"}, Payload: "*Exception"},
		{Host: "try(forof)", Frames: []string{"js:catch", "go:dyn>exportfn_err", "js:finally", "go:ctor"}, Payload: "{value:null}"},
	} {
		c, err := parseCase(j)
		if err != nil {
			t.Fatal(err)
		}
		fmt.Println(c, "=>", shrink(c))
	}
}
