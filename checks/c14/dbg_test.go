package c14

import (
	"fmt"
	"testing"
)

func TestSizes(t *testing.T) {
	for _, a := range []*alphabet{fullAlphabet(), repsAlphabet(), prunedAlphabet()} {
		for d := 1; d <= 8; d++ {
			for _, fj := range []bool{true, false} {
				s := newShape(a, fj, d)
				fmt.Printf("%-28s ranks=%d\n", s.String(), s.total)
			}
		}
	}
}
