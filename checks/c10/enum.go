package c10

import (
	"strconv"

	pm "verif/ref/promisemodel"
)

// The program space: sequences of operations; every operation alternative has a weight 1 + extras (exotic
// values / misbehaving thenables / second handlers cost more); "all programs of weight w" for w = 1,2,3,...
// is enumerated exhaustively, simplest first. Promise variables are numbered in order of definition, so the
// enumeration is canonical up to renaming of promise variables by construction.

type alt struct {
	op    pm.Op
	cost  int   // total weight of the operation (>= 1)
	slots []int // capability slots R[s]/J[s] this operation may fill
}

type ectx struct {
	nP      int
	jsSlots []int  // slots possibly saved by earlier ops
	goSlots []int  // promise variables created by goNew
	tapped  uint32 // promise variables that are tapped or are aliases of another variable (Promise.resolve(pK) === pK)
	nOps    int
	closed  bool // previous op was a break / Go-side settle (or there is no previous op)
}

type limits struct {
	maxOps, maxP int
	maxOpCost    int // 0 = unlimited; 1 = kernel alphabet (only weight-1 operations)
}

func (c *ectx) after(a *alt) ectx {
	n := ectx{nP: c.nP, jsSlots: c.jsSlots, goSlots: c.goSlots, tapped: c.tapped, nOps: c.nOps + 1}
	if a.op.Defines() {
		n.nP++
	}
	if len(a.slots) > 0 {
		n.jsSlots = append(append([]int(nil), c.jsSlots...), a.slots...)
	}
	if a.op.K == pm.OpGoNew {
		n.goSlots = append(append([]int(nil), c.goSlots...), c.nP)
	}
	if a.op.K == pm.OpTap {
		n.tapped |= 1 << uint(a.op.P)
	}
	if a.op.K == pm.OpResolve && a.op.V.K == pm.VPVar {
		n.tapped |= 1 << uint(c.nP) // an alias: tapping it would tap the original a second time
	}
	n.closed = a.op.K == pm.OpBreak || a.op.K == pm.OpGoSettle
	return n
}

type wexpr struct {
	e     pm.Expr
	cost  int
	slots []int
}

// gen builds the alternatives for one position; ids/tags/constants are derived from the position so that
// every log entry identifies its origin.
type gen struct {
	c    *ectx
	base int // 10 * (op index + 1)
}

func (g *gen) tag(prefix string) string { return prefix + strconv.Itoa(g.c.nOps) }

func callArg(rej bool, v pm.Expr) pm.Call {
	return pm.Call{C: pm.Callee{K: pm.CalleeArg, Rej: rej}, V: v}
}

func (g *gen) thenable(id int, body []pm.Call, end pm.EndKind, v pm.Expr, save bool) pm.Expr {
	f := &pm.Func{Tag: "t" + strconv.Itoa(id), Body: body, End: end, V: v}
	if save {
		f.Save = 100 + id + 1
	}
	return pm.Obj(&pm.ObjSpec{ID: id, Then: pm.ThenFunc, Fn: f})
}

// vals lists the values usable in a "resolution" position (resolve(v), return v, await v, list items),
// each with its extra weight. own >= 0 adds the promise variable that is being defined by this operation.
// j distinguishes several value positions inside one operation.
func (g *gen) vals(own int, j int, lim int, pcost int) []wexpr {
	var res []wexpr
	add := func(e pm.Expr, cost int, slots ...int) {
		if cost <= lim {
			res = append(res, wexpr{e, cost, slots})
		}
	}
	id := g.base + j
	k := func(i int) pm.Expr { return pm.Const(id*10 + i) }
	add(k(0), 0)
	for p := 0; p < g.c.nP; p++ {
		add(pm.PVar(p), pcost)
	}
	if own >= 0 {
		add(pm.PVar(own), 1)
	}
	add(g.thenable(id, []pm.Call{callArg(false, k(1))}, 0, pm.Undef(), false), 1)
	add(pm.Obj(&pm.ObjSpec{ID: id}), 1)
	if lim >= 2 {
		add(g.thenable(id, []pm.Call{callArg(true, k(1))}, 0, pm.Undef(), false), 2)
		add(g.thenable(id, nil, pm.EndThrow, k(1), false), 2)
		add(g.thenable(id, []pm.Call{callArg(false, k(1)), callArg(false, k(2))}, 0, pm.Undef(), false), 2)
		add(g.thenable(id, []pm.Call{callArg(false, k(1)), callArg(true, k(2))}, 0, pm.Undef(), false), 2)
		add(g.thenable(id, []pm.Call{callArg(true, k(1)), callArg(false, k(2))}, 0, pm.Undef(), false), 2)
		add(g.thenable(id, []pm.Call{callArg(false, k(1))}, pm.EndThrow, k(2), false), 2)
		add(g.thenable(id, nil, 0, pm.Undef(), false), 2)
		add(g.thenable(id, nil, 0, pm.Undef(), true), 2, 100+id)
		for p := 0; p < g.c.nP; p++ {
			add(g.thenable(id, []pm.Call{callArg(false, pm.PVar(p))}, 0, pm.Undef(), false), 2)
		}
		add(pm.Obj(&pm.ObjSpec{ID: id, Then: pm.ThenGetterThrow, Throw: id*10 + 1}), 2)
		add(pm.Obj(&pm.ObjSpec{ID: id, Then: pm.ThenNonCallable}), 2)
		add(pm.Obj(&pm.ObjSpec{ID: id, Ctor: pm.CtorPromise}), 2)
	}
	if lim >= 3 {
		inner := g.thenable(id+5, []pm.Call{callArg(false, k(1))}, 0, pm.Undef(), false)
		add(g.thenable(id, []pm.Call{callArg(false, inner)}, 0, pm.Undef(), false), 3)
		f := &pm.Func{Tag: "t" + strconv.Itoa(id), Body: []pm.Call{callArg(false, k(1))}}
		add(pm.Obj(&pm.ObjSpec{ID: id, Then: pm.ThenFunc, Fn: f, Ctor: pm.CtorPromise}), 3)
		if own >= 0 {
			add(g.thenable(id, []pm.Call{callArg(false, pm.PVar(own))}, 0, pm.Undef(), false), 3)
		}
	}
	return res
}

// reasons lists values for a reject position.
func (g *gen) reasons(j int, lim int) []wexpr {
	id := g.base + j
	if lim < 0 {
		return nil
	}
	res := []wexpr{{e: pm.Const(id * 10)}}
	if lim >= 1 {
		for p := 0; p < g.c.nP; p++ {
			res = append(res, wexpr{e: pm.PVar(p), cost: 1})
		}
	}
	return res
}

type whandler struct {
	h     *pm.Handler
	cost  int
	slots []int
}

// handlers lists the handler alternatives for then/catch/finally. tag is the log tag, own the promise variable
// being defined, j the value-position index.
func (g *gen) handlers(tag string, own, j, lim int, logArg bool, pcost int) []whandler {
	var res []whandler
	add := func(h *pm.Handler, cost int, slots ...int) {
		if cost <= lim {
			res = append(res, whandler{h, cost, slots})
		}
	}
	fn := func(body []pm.Call, end pm.EndKind, v pm.Expr) *pm.Handler {
		return &pm.Handler{K: pm.HFunc, F: &pm.Func{Tag: tag, LogArg: logArg, Body: body, End: end, V: v}}
	}
	id := g.base + j
	for _, v := range g.vals(own, j, lim, pcost) {
		add(fn(nil, pm.EndReturn, v.e), v.cost, v.slots...)
	}
	if lim >= 1 {
		add(fn(nil, pm.EndThrow, pm.Const(id*10+3)), 1)
		add(&pm.Handler{K: pm.HNonCallable}, 1)
		// handlers that settle another promise through a saved capability / a Go resolver before returning
		for _, s := range g.c.jsSlots {
			for _, rej := range []bool{false, true} {
				add(fn([]pm.Call{{C: pm.Callee{K: pm.CalleeSlot, Slot: s, Rej: rej}, V: pm.Const(id*10 + 4)}}, pm.EndReturn, pm.Const(id*10+5)), 1)
			}
		}
		for _, s := range g.c.goSlots {
			for _, rej := range []bool{false, true} {
				add(fn([]pm.Call{{C: pm.Callee{K: pm.CalleeGo, Slot: s, Rej: rej}, V: pm.Const(id*10 + 4)}}, pm.EndReturn, pm.Const(id*10+5)), 1)
				// a Go native used directly as the handler
				add(&pm.Handler{K: pm.HNative, Tag: "n" + tag, C: pm.Callee{K: pm.CalleeGo, Slot: s, Rej: rej}, V: pm.Const(id*10 + 6)}, 1)
			}
			if lim >= 2 {
				for p := 0; p < g.c.nP; p++ {
					add(&pm.Handler{K: pm.HNative, Tag: "n" + tag, C: pm.Callee{K: pm.CalleeGo, Slot: s}, V: pm.PVar(p)}, 2)
				}
				add(&pm.Handler{K: pm.HNative, Tag: "n" + tag, C: pm.Callee{K: pm.CalleeGo, Slot: s},
					V: g.thenable(id, []pm.Call{callArg(false, pm.Const(id*10+1))}, 0, pm.Undef(), false)}, 2)
			}
		}
	}
	if lim >= 2 {
		for p := 0; p < g.c.nP; p++ {
			add(fn(nil, pm.EndThrow, pm.PVar(p)), 2)
		}
	}
	return res
}

// alts lists every operation alternative of weight <= lim in context c.
//
// Weight-1 operations (the "kernel" alphabet): new Promise(save resolvers), new Promise(res => res(pK)),
// Promise.resolve(c), Promise.reject(c), p.then(f) with f returning a constant or a promise, p.catch(f) /
// p.finally(f) with f returning a constant, async function awaiting pK, goNew, calls of saved / Go resolvers with
// a constant (or a promise for saved JS resolvers), break. Everything else costs extra.
func alts(c *ectx, lim int, L limits) []alt {
	if L.maxOpCost > 0 && lim > L.maxOpCost {
		lim = L.maxOpCost
	}
	if lim < 1 || c.nOps >= L.maxOps {
		return nil
	}
	g := &gen{c: c, base: 10 * (c.nOps + 1)}
	x := lim - 1 // extras budget
	var res []alt
	add := func(op pm.Op, extra int, slots ...int) {
		if extra <= x {
			res = append(res, alt{op: op, cost: 1 + extra, slots: slots})
		}
	}
	join := func(a ...[]int) []int {
		var r []int
		for _, s := range a {
			r = append(r, s...)
		}
		return r
	}
	own := c.nP
	canDefine := c.nP < L.maxP

	if canDefine {
		// --- new Promise(executor)
		xtag := g.tag("x")
		ex := func(save bool, body []pm.Call, end pm.EndKind, v pm.Expr) pm.Op {
			f := &pm.Func{Tag: xtag, Body: body, End: end, V: v}
			if save {
				f.Save = own + 1
			}
			return pm.Op{K: pm.OpNew, F: f}
		}
		add(ex(true, nil, 0, pm.Undef()), 0, own)
		for _, v := range g.vals(-1, 1, x, 0) {
			cost := v.cost
			if v.e.K == pm.VConst {
				cost = 1 // same as Promise.resolve(c) plus an executor log
			}
			add(ex(false, []pm.Call{callArg(false, v.e)}, 0, pm.Undef()), cost, v.slots...)
		}
		for _, v := range g.reasons(1, x-1) {
			add(ex(false, []pm.Call{callArg(true, v.e)}, 0, pm.Undef()), 1+v.cost)
		}
		if x >= 1 {
			k2, k3 := pm.Const(g.base*10+92), pm.Const(g.base*10+93)
			add(ex(false, nil, pm.EndThrow, k3), 1)
			for _, v := range g.vals(-1, 1, x-1, 0) {
				add(ex(false, []pm.Call{callArg(false, v.e), callArg(false, k2)}, 0, pm.Undef()), 1+v.cost, v.slots...)
				add(ex(false, []pm.Call{callArg(false, v.e), callArg(true, k2)}, 0, pm.Undef()), 1+v.cost, v.slots...)
				add(ex(false, []pm.Call{callArg(true, k2), callArg(false, v.e)}, 0, pm.Undef()), 1+v.cost, v.slots...)
				add(ex(false, []pm.Call{callArg(false, v.e)}, pm.EndThrow, k3), 1+v.cost, v.slots...)
			}
			add(ex(false, []pm.Call{callArg(true, k2), callArg(true, k3)}, 0, pm.Undef()), 1)
			add(ex(false, []pm.Call{callArg(true, k2)}, pm.EndThrow, k3), 1)
		}

		// --- then / catch / finally
		if c.nP > 0 {
			hf := g.handlers(g.tag("f"), own, 1, x, true, 0)
			var hr []whandler
			if x >= 1 {
				hr = g.handlers(g.tag("r"), own, 2, x-1, true, 0)
			}
			hc := g.handlers(g.tag("c"), own, 1, x, true, 1)
			hy := g.handlers(g.tag("y"), own, 1, x, false, 1)
			for p := 0; p < c.nP; p++ {
				for _, h := range hf {
					add(pm.Op{K: pm.OpThen, P: p, H1: h.h}, h.cost, h.slots...)
				}
				if x >= 1 {
					add(pm.Op{K: pm.OpThen, P: p}, 1) // then() without handlers
					for _, h2 := range hr {
						// then(undefined, h) is catch(h) with a direct call; weight +1
						add(pm.Op{K: pm.OpThen, P: p, H2: h2.h}, 1+h2.cost, h2.slots...)
						for _, h1 := range hf {
							if h1.cost+h2.cost+1 <= x {
								add(pm.Op{K: pm.OpThen, P: p, H1: h1.h, H2: h2.h}, 1+h1.cost+h2.cost, join(h1.slots, h2.slots)...)
							}
						}
					}
				}
				for _, h := range hc {
					add(pm.Op{K: pm.OpCatch, P: p, H1: h.h}, h.cost, h.slots...)
				}
				for _, h := range hy {
					add(pm.Op{K: pm.OpFinally, P: p, H1: h.h}, h.cost, h.slots...)
				}
				if x >= 1 {
					add(pm.Op{K: pm.OpFinally, P: p}, 1)
				}
			}
		}

		// --- Promise.resolve / Promise.reject
		for _, v := range g.vals(-1, 1, x, 1) {
			add(pm.Op{K: pm.OpResolve, V: v.e}, v.cost, v.slots...)
		}
		for _, v := range g.reasons(1, x) {
			add(pm.Op{K: pm.OpReject, V: v.e}, v.cost)
		}

		// --- combinators over lists of 0..3 items (weight 2 + one per further item)
		if x >= 1 {
			y := x - 1
			for _, kind := range []pm.OpKind{pm.OpAll, pm.OpAllSettled, pm.OpRace, pm.OpAny} {
				add(pm.Op{K: kind}, 1)
				for _, a := range g.vals(-1, 1, y, 0) {
					add(pm.Op{K: kind, Items: []pm.Expr{a.e}}, 1+a.cost, a.slots...)
					if y-1-a.cost < 0 {
						continue
					}
					for _, b := range g.vals(-1, 2, y-1-a.cost, 0) {
						add(pm.Op{K: kind, Items: []pm.Expr{a.e, b.e}}, 2+a.cost+b.cost, join(a.slots, b.slots)...)
						if y-2-a.cost-b.cost < 0 {
							continue
						}
						for _, d := range g.vals(-1, 3, y-2-a.cost-b.cost, 0) {
							add(pm.Op{K: kind, Items: []pm.Expr{a.e, b.e, d.e}}, 3+a.cost+b.cost+d.cost, join(a.slots, b.slots, d.slots)...)
						}
					}
				}
			}
		}

		// --- async functions with 0..2 awaits
		atag := g.tag("a")
		mk := func(aw []pm.Expr, end pm.EndKind, v pm.Expr) pm.Op {
			return pm.Op{K: pm.OpAsync, A: &pm.Async{Tag: atag, Awaits: aw, End: end, V: v}}
		}
		emitEnds := func(aw []pm.Expr, used int, slots []int) {
			if x-used < 0 {
				return
			}
			for _, e := range g.vals(own, 4, x-used, 1) {
				add(mk(aw, pm.EndReturn, e.e), used+e.cost, join(slots, e.slots)...)
			}
			if x-used >= 1 {
				add(mk(aw, pm.EndThrow, pm.Const(g.base*10+95)), used+1, slots...)
			}
		}
		emitEnds(nil, 1, nil)
		awaitCost := func(v wexpr) int {
			if v.e.K == pm.VConst {
				return 1
			}
			return v.cost
		}
		for _, a := range g.vals(own, 1, x, 0) {
			ca := awaitCost(a)
			emitEnds([]pm.Expr{a.e}, ca, a.slots)
			if x-1-ca < 0 {
				continue
			}
			for _, b := range g.vals(own, 2, x-1-ca, 0) {
				emitEnds([]pm.Expr{a.e, b.e}, 1+ca+b.cost, join(a.slots, b.slots))
			}
		}

		// --- Runtime.NewPromise
		add(pm.Op{K: pm.OpGoNew}, 0)
	}

	// --- calling saved resolving functions from the script
	for _, s := range c.jsSlots {
		cs := pm.Callee{K: pm.CalleeSlot, Slot: s}
		for _, v := range g.vals(-1, 1, x, 0) {
			add(pm.Op{K: pm.OpCall, C: cs, V: v.e}, v.cost, v.slots...)
		}
		cs.Rej = true
		for _, v := range g.reasons(1, x) {
			add(pm.Op{K: pm.OpCall, C: cs, V: v.e}, v.cost)
		}
	}
	// --- Go resolvers: from a native invoked by the script, and from Go between runs
	for _, s := range c.goSlots {
		for _, kind := range []pm.OpKind{pm.OpCall, pm.OpGoSettle} {
			cs := pm.Callee{K: pm.CalleeGo, Slot: s}
			for _, v := range g.vals(-1, 1, x, 1) {
				add(pm.Op{K: kind, C: cs, V: v.e}, v.cost, v.slots...)
			}
			cs.Rej = true
			for _, v := range g.reasons(1, x) {
				add(pm.Op{K: kind, C: cs, V: v.e}, v.cost)
			}
		}
	}
	// --- instrument a promise with logging then/constructor getters
	if x >= 1 {
		for p := 0; p < c.nP; p++ {
			if c.tapped&(1<<uint(p)) == 0 {
				add(pm.Op{K: pm.OpTap, P: p}, 1)
			}
		}
	}
	// --- return to Go
	if !c.closed {
		add(pm.Op{K: pm.OpBreak}, 0)
	}
	return res
}

// count returns the number of programs of total weight exactly w continuing context c.
func count(c *ectx, w int, L limits) int64 {
	if w == 0 {
		return 1
	}
	var n int64
	for _, a := range alts(c, w, L) {
		a := a
		if a.cost == w {
			if a.op.K != pm.OpBreak { // a trailing break is redundant
				n++
			}
			continue
		}
		nc := c.after(&a)
		n += count(&nc, w-a.cost, L)
	}
	return n
}

// walk calls fn for every program of total weight exactly w that extends prefix (in context c).
func walk(c *ectx, prefix []pm.Op, w int, L limits, fn func(ops []pm.Op) bool) bool {
	for _, a := range alts(c, w, L) {
		a := a
		if a.cost == w {
			if a.op.K == pm.OpBreak {
				continue
			}
			if !fn(append(prefix[:len(prefix):len(prefix)], a.op)) {
				return false
			}
			continue
		}
		nc := c.after(&a)
		if !walk(&nc, append(prefix[:len(prefix):len(prefix)], a.op), w-a.cost, L, fn) {
			return false
		}
	}
	return true
}

type prefix struct {
	c   ectx
	ops []pm.Op
	rem int // remaining weight (0 = complete program)
}

// prefixes lists the shards for weight w: every op sequence of `depth` ops (or a complete shorter program).
func prefixes(w, depth int, L limits) []prefix {
	var res []prefix
	var rec func(c *ectx, ops []pm.Op, rem, d int)
	rec = func(c *ectx, ops []pm.Op, rem, d int) {
		if rem == 0 {
			if len(ops) > 0 && ops[len(ops)-1].K != pm.OpBreak {
				res = append(res, prefix{*c, ops, 0})
			}
			return
		}
		if d == 0 {
			res = append(res, prefix{*c, ops, rem})
			return
		}
		for _, a := range alts(c, rem, L) {
			a := a
			nc := c.after(&a)
			rec(&nc, append(ops[:len(ops):len(ops)], a.op), rem-a.cost, d-1)
		}
	}
	root := ectx{closed: true}
	rec(&root, nil, w, depth)
	return res
}
