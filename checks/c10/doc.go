// Package c10 holds the check for property C10.
package c10
