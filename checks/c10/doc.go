// Package c10 decides C10 (promise jobs run exactly once, in the specification's FIFO order, before control
// returns to Go; rejection tracker; interrupt discards queued jobs) by bounded-exhaustive enumeration of
// promise-operation programs (engine E1) executed in lock-step on goja and on the reference model
// verif/ref/promisemodel.
package c10
