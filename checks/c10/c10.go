package c10

import (
	"encoding/json"
	"fmt"
	"regexp"
	"sort"
	"strings"
	"sync"

	"verif/core"
	pm "verif/ref/promisemodel"

	"github.com/dop251/goja"
)

func init() {
	core.Register(&core.Check{
		ID:    "C10",
		Level: "model_checking",
		Rule: "every promise-operation program (sequence of: new Promise(executor) / then / catch / finally / Promise.resolve / reject / all / allSettled / race / any / async function / Runtime.NewPromise / calls of saved resolving functions from script, from a native, from a native used as handler and from Go between runs / tap getters / return-to-Go) of total weight w = 1..W " +
			"(weight of an op = 1 + extras for exotic values, misbehaving thenables, second handlers, extra list items), canonical up to renaming of promise variables, is printed as JavaScript, run on a fresh runtime and compared line by line with the transcript of the reference model (global event log incl. rejection-tracker calls, promise State()/Result() and empty job queue at every return to Go); " +
			"interrupt variant: for every program of weight <= W' and every k, an Interrupt raised inside the k-th logging call must stop the run with InterruptedError, leave the transcript equal to the model's prefix, the queue empty, and a following program must run cleanly. " +
			"A program is non-trivial when at least one promise job ran; programs are distinct by construction.",
		Run:    run,
		Replay: replay,
	})
}

// Case is what a replay file holds.
type Case struct {
	Variant string     `json:"variant"` // "full" | "interrupt"
	K       int        `json:"k,omitempty"`
	JS      string     `json:"js"`
	Prog    pm.Program `json:"prog"`
	Want    []string   `json:"want,omitempty"`
	Got     []string   `json:"got,omitempty"`
	Note    string     `json:"note,omitempty"`
}

type failure struct {
	sig, what string
	c         Case
}

// ---- executing one program on both sides ----

type modelResult struct {
	transcript  []string
	transitions int
	jsLogs      int
	keys        []uint64
	completed   bool
	stopCtx     string
}

func runModel(p *pm.Program, stopAt int, wantKeys bool) (res modelResult) {
	defer func() {
		if x := recover(); x != nil {
			// a bug of the model or of the enumerator, never of goja: surfaces as a mismatch with this line
			res.transcript = []string{"!model-panic:" + firstLine(fmt.Sprint(x))}
		}
	}()
	m := pm.New(p)
	m.StopAtJSLog = stopAt
	if wantKeys {
		m.OnState = func(k uint64) { res.keys = append(res.keys, k) }
	}
	res.completed = m.Run()
	res.transcript = m.Transcript()
	res.transitions = m.Transitions
	res.jsLogs = m.JSLogs
	res.stopCtx = m.StopCtx
	return
}

type implResult struct {
	transcript  []string
	panicked    string
	interrupted bool
	requested   bool
	nested      bool
	steps       int
	frames      string
	post        []string // interrupt variant: problems found after the interrupted run
}

func runImpl(p *pm.Program, interruptAt int) (res implResult) {
	return runImplOpts(p, implOpts{interruptAt: interruptAt})
}

func runImplOpts(p *pm.Program, o implOpts) (res implResult) {
	var ir *implRun
	func() {
		defer func() {
			if x := recover(); x != nil {
				res.panicked = firstLine(fmt.Sprint(x))
			}
		}()
		ir = newImpl(o)
		ir.run(p)
	}()
	if ir == nil {
		return
	}
	if res.panicked != "" {
		ir.entries = append(ir.entries, ientry{raw: "!go-panic:" + res.panicked})
		func() {
			defer func() { recover() }()
			res.transcript = ir.transcript(p.NumVars())
		}()
		return
	}
	res.interrupted = ir.interrupted
	res.steps = ir.steps
	res.requested = ir.requested
	res.nested = ir.nestedDrain
	res.frames = ir.frames
	if o.interruptAt > 0 || o.stepAt > 0 {
		res.post = ir.afterInterrupt()
	}
	res.transcript = ir.transcript(p.NumVars())
	return
}

// afterInterrupt checks the state left behind by an interrupted run and runs a fresh program.
func (ir *implRun) afterInterrupt() (problems []string) {
	defer func() {
		if x := recover(); x != nil {
			problems = append(problems, "go-panic-after-interrupt:"+firstLine(fmt.Sprint(x)))
		}
	}()
	if !ir.interrupted {
		return
	}
	st := goja.VerifIdle(ir.r)
	// root cause first: the first problem names the signature
	if st.CallStack != 0 || st.TryStack != 0 || !st.AsyncRunnerNil {
		problems = append(problems, fmt.Sprintf("vm-not-unwound(callStack=%d,tryStack=%d,asyncRunnerNil=%v)", st.CallStack, st.TryStack, st.AsyncRunnerNil))
	}
	if st.Jobs != 0 {
		problems = append(problems, fmt.Sprintf("jobs-left=%d", st.Jobs))
	}
	if st.Interrupted {
		problems = append(problems, "interrupt-flag-still-set")
	}
	n := len(ir.entries)
	ir.interruptAt, ir.stepAt = 0, 0
	_, err := ir.r.RunProgram(postPrg)
	if err != nil {
		problems = append(problems, "next-run-error:"+firstLine(err.Error()))
	}
	var post []string
	for _, e := range ir.entries[n:] {
		s := e.tag
		if e.hasV {
			s += ":" + ir.show(e.v, 0)
		}
		post = append(post, s)
	}
	if strings.Join(post, " ") != "post:77 post2:78" {
		problems = append(problems, "next-run-log="+strings.Join(post, " "))
	}
	if j := goja.VerifIdle(ir.r).Jobs; j != 0 {
		problems = append(problems, fmt.Sprintf("next-run-jobs-left=%d", j))
	}
	ir.entries = ir.entries[:n]
	return
}

func equal(a, b []string) bool {
	if len(a) != len(b) {
		return false
	}
	for i := range a {
		if a[i] != b[i] {
			return false
		}
	}
	return true
}

func sameMultiset(a, b []string) bool {
	if len(a) != len(b) {
		return false
	}
	x := append([]string(nil), a...)
	y := append([]string(nil), b...)
	sort.Strings(x)
	sort.Strings(y)
	return equal(x, y)
}

// ---- program features used to classify failures ----

type features struct {
	native, goSettle, fakeCtor, loggingCtorObj bool
	kinds                                      map[string]bool
}

func scanExpr(e pm.Expr, f *features) {
	if e.K == pm.VObj && e.O != nil {
		if e.O.Ctor == pm.CtorPromise {
			f.fakeCtor = true
		} else {
			f.loggingCtorObj = true
		}
		if e.O.Fn != nil {
			scanFunc(e.O.Fn, f)
		}
		f.kinds["obj"] = true
	}
}

func scanFunc(fn *pm.Func, f *features) {
	if fn == nil {
		return
	}
	for _, c := range fn.Body {
		scanExpr(c.V, f)
	}
	scanExpr(fn.V, f)
}

func scanHandler(h *pm.Handler, f *features) {
	if h == nil {
		return
	}
	if h.K == pm.HNative {
		f.native = true
		f.kinds["nativeHandler"] = true
		scanExpr(h.V, f)
	}
	scanFunc(h.F, f)
}

func scan(p *pm.Program) *features {
	f := &features{kinds: map[string]bool{}}
	for i := range p.Ops {
		o := &p.Ops[i]
		f.kinds[o.K.String()] = true
		if o.K == pm.OpGoSettle {
			f.goSettle = true
		}
		scanFunc(o.F, f)
		scanHandler(o.H1, f)
		scanHandler(o.H2, f)
		scanExpr(o.V, f)
		for _, e := range o.Items {
			scanExpr(e, f)
		}
		if o.A != nil {
			for _, e := range o.A.Awaits {
				scanExpr(e, f)
			}
			scanExpr(o.A.V, f)
		}
	}
	return f
}

func (f *features) kindList() string {
	var ks []string
	for k := range f.kinds {
		if k != "break" {
			ks = append(ks, k)
		}
	}
	sort.Strings(ks)
	return strings.Join(ks, ",")
}

func firstDiff(want, got []string) (int, string, string) {
	for i := 0; i < len(want) || i < len(got); i++ {
		w, g := "<end>", "<end>"
		if i < len(want) {
			w = want[i]
		}
		if i < len(got) {
			g = got[i]
		}
		if w != g {
			return i, w, g
		}
	}
	return -1, "", ""
}

func lineKind(s string) string {
	switch {
	case strings.HasPrefix(s, "!"):
		if i := strings.IndexAny(s, ":="); i > 0 {
			return s[:i]
		}
		return s
	case strings.HasPrefix(s, "=="):
		return "state"
	case strings.HasPrefix(s, "T+"), strings.HasPrefix(s, "T-"), strings.HasPrefix(s, "T?"):
		return "tracker" + s[1:2]
	case s == "<end>":
		return "end"
	}
	// log entry: the tag's letters (x executor, f/r/c/y handlers, t then-method, og/oc object getters, gt/gc taps, a async, n native)
	i := 0
	for i < len(s) && (s[i] < '0' || s[i] > '9') && s[i] != ':' && s[i] != '.' {
		i++
	}
	return "log-" + s[:i]
}

const (
	sigCtorRead  = "promiseResolve|reads-constructor-of-non-promise-object"
	sigFakeCtor  = "promiseResolve|non-promise-object-with-constructor===Promise-taken-for-a-promise"
	sigFakePanic = "await|non-promise-object-with-constructor===Promise|go-panic"
	sigNested    = "native-handler-calls-NewPromise-resolver|nested-job-queue-drain-breaks-FIFO"
)

// compare evaluates the full-variant oracle and classifies every discrepancy.
func compare(p *pm.Program, want []string, impl *implResult) (fails []failure) {
	got := impl.transcript
	if equal(want, got) {
		return nil
	}
	js := p.Text()
	mk := func(sig, what string, g []string) failure {
		return failure{sig, what, Case{Variant: "full", JS: js, Prog: *p, Want: want, Got: g}}
	}
	f := scan(p)
	// (1) known defect class: [[Get]] "constructor" on a non-promise argument of PromiseResolve
	stripped := got[:0:0]
	nctor := 0
	for _, l := range got {
		if strings.HasPrefix(l, "oc:") {
			nctor++
			continue
		}
		stripped = append(stripped, l)
	}
	if nctor > 0 {
		fails = append(fails, mk(sigCtorRead, "PromiseResolve (Promise.resolve / await / finally / combinators) reads the 'constructor' property of an object that is not a promise (observable through a getter); the specification reads it only if IsPromise(x)", got))
		got = stripped
		if equal(want, got) {
			return
		}
	}
	i, w, g := firstDiff(want, got)
	where := fmt.Sprintf("first difference at transcript line %d: model %q, goja %q", i, w, g)
	// (2) object with constructor===Promise
	if f.fakeCtor {
		if impl.panicked != "" {
			return append(fails, mk(sigFakePanic, "await of a non-promise object whose 'constructor' is Promise panics in the host ("+impl.panicked+"); "+where, got))
		}
		return append(fails, mk(sigFakeCtor, "a non-promise object whose 'constructor' property is Promise is returned as is by PromiseResolve (no new promise, no thenable job); "+where, got))
	}
	if impl.panicked != "" {
		return append(fails, mk("go-panic|"+f.kindList(), "Go panic while running the program: "+impl.panicked, got))
	}
	// (3) nested drain through a native handler
	if impl.nested || f.native && sameMultiset(want, got) {
		return append(fails, mk(sigNested, "a Go native used directly as a reaction handler calls a resolver obtained from Runtime.NewPromise while the job queue is drained from a Go-side entry: the resolver drains the queue recursively, so later-enqueued jobs run before earlier ones; "+where, got))
	}
	class := "differs"
	if sameMultiset(want, got) {
		class = "order"
	} else if len(got) < len(want) {
		class = "missing"
	} else if len(got) > len(want) {
		class = "extra"
	}
	sig := fmt.Sprintf("transcript-%s|model:%s|goja:%s|ops:%s", class, lineKind(w), lineKind(g), f.kindList())
	return append(fails, mk(sig, where, got))
}

func compareInterrupt(p *pm.Program, k int, mr *modelResult, impl *implResult) (fails []failure) {
	want := mr.transcript
	js := p.Text()
	where := mr.stopCtx // where the interrupted log call was made from: script | job | go-settle [/async-start]
	at := ""
	if len(want) > 0 {
		at = want[len(want)-1]
	}
	mk := func(kind, what string) []failure {
		return []failure{{fmt.Sprintf("interrupt|%s|in:%s", kind, where), what, Case{Variant: "interrupt", K: k, JS: js, Prog: *p, Want: want, Got: impl.transcript, Note: strings.Join(impl.post, "; ")}}}
	}
	got := impl.transcript
	stripped := got[:0:0]
	for _, l := range got {
		if !strings.HasPrefix(l, "oc:") { // known defect, reported by the full variant
			stripped = append(stripped, l)
		}
	}
	got = stripped
	if impl.panicked != "" {
		return mk("go-panic", "Go panic: "+impl.panicked)
	}
	if !impl.interrupted {
		return mk("not-delivered", fmt.Sprintf("Interrupt raised inside log call #%d did not surface as InterruptedError from the run", k))
	}
	if !equal(want, got) {
		i, w, g := firstDiff(want, got)
		kind := "transcript-differs"
		if len(got) > len(want) && equal(want, got[:len(want)]) {
			kind = "code-ran-after-interrupt"
		}
		return mk(kind, fmt.Sprintf("interrupt inside log call #%d: first difference at line %d: model %q, goja %q", k, i, w, g))
	}
	// one signature per case: the first (most fundamental) problem names it, the others go into the text
	if len(impl.post) > 0 {
		pr := impl.post[0]
		kind := pr
		if i := strings.IndexAny(pr, "=:("); i > 0 {
			kind = pr[:i]
		}
		return mk(kind, fmt.Sprintf("after an Interrupt raised inside log call #%d (%s, in %s): %s", k, at, where, strings.Join(impl.post, "; ")))
	}
	return nil
}

// ---- exploration ----

type worker struct {
	states map[uint64]struct{}
}

type explorer struct {
	r       *core.Run
	workers []*worker
	mu      sync.Mutex
}

func newExplorer(r *core.Run) *explorer {
	e := &explorer{r: r}
	for i := 0; i < r.Workers; i++ {
		e.workers = append(e.workers, &worker{states: map[uint64]struct{}{}})
	}
	return e
}

func hashLines(l []string) uint64 {
	return core.HashString(strings.Join(l, "\n"))
}

// confirm re-executes a failing case 5 times on fresh state.
func confirm(fn func() []failure, sig string) bool {
	for i := 0; i < 5; i++ {
		ok := false
		for _, f := range fn() {
			if f.sig == sig {
				ok = true
			}
		}
		if !ok {
			return false
		}
	}
	return true
}

func (e *explorer) report(fails []failure, again func() []failure) {
	for _, f := range fails {
		if !e.r.IsKnown(f.sig) && !confirm(again, f.sig) {
			f.sig = "nondeterministic|" + f.sig
		}
		e.r.Violation(f.sig, f.what, f.c)
	}
}

// full runs one program in the full variant; returns the number of JS log calls (for the interrupt variant).
func (e *explorer) full(w *worker, p *pm.Program, idx int64) int {
	r := e.r
	mr := runModel(p, 0, true)
	ir := runImpl(p, 0)
	r.Eval(1)
	for _, k := range mr.keys {
		w.states[k] = struct{}{}
	}
	if mr.transitions > len(p.Ops) {
		r.NontrivialN(1)
	}
	r.OutcomeH(hashLines(mr.transcript))
	fails := compare(p, mr.transcript, &ir)
	if len(fails) == 0 {
		r.Traces(1)
		r.Transitions(int64(mr.transitions))
	} else {
		e.report(fails, func() []failure {
			ir := runImpl(p, 0)
			return compare(p, runModel(p, 0, false).transcript, &ir)
		})
	}
	if r.WantSample(idx) {
		r.Sample(map[string]interface{}{"js": p.Text(), "transcript": mr.transcript})
	}
	return mr.jsLogs
}

// baselineOK reports whether the uninterrupted run agrees with the model (apart from the listed
// constructor-read finding, which the interrupt oracles filter out). If it does not, the full variant reports
// the program and the interrupt variants skip it: their expected transcripts would be meaningless.
func baselineOK(p *pm.Program, want []string, base *implResult) bool {
	for _, f := range compare(p, want, base) {
		if f.sig != sigCtorRead {
			return false
		}
	}
	return true
}

func (e *explorer) interrupt(p *pm.Program) {
	r := e.r
	full := runModel(p, 0, false)
	n := full.jsLogs
	if n == 0 {
		return
	}
	if base := runImpl(p, 0); !baselineOK(p, full.transcript, &base) {
		r.Add("interrupt_skipped_baseline_differs", 1)
		return
	}
	for k := 1; k <= n; k++ {
		mr := runModel(p, k, false)
		ir := runImpl(p, k)
		r.Eval(1)
		r.Add("interrupt_runs", 1)
		fails := compareInterrupt(p, k, &mr, &ir)
		if len(fails) == 0 {
			r.Transitions(int64(mr.transitions))
			continue
		}
		k := k
		e.report(fails, func() []failure {
			ir := runImpl(p, k)
			mr := runModel(p, k, false)
			return compareInterrupt(p, k, &mr, &ir)
		})
	}
}

// fullCallable re-runs a program with every script segment entered through a Callable (AssertFunction)
// instead of RunProgram; the expected transcript is the same.
func (e *explorer) fullCallable(p *pm.Program) {
	r := e.r
	mr := runModel(p, 0, false)
	ir := runImplOpts(p, implOpts{callable: true})
	r.Eval(1)
	r.Add("callable_entry_runs", 1)
	tag := func(fs []failure) []failure {
		for i := range fs {
			fs[i].c.Variant = "full-callable"
			if fs[i].sig != sigCtorRead && fs[i].sig != sigFakeCtor && fs[i].sig != sigFakePanic && fs[i].sig != sigNested {
				fs[i].sig = "callable-entry|" + fs[i].sig
			}
		}
		return fs
	}
	fails := tag(compare(p, mr.transcript, &ir))
	if len(fails) == 0 {
		r.Transitions(int64(mr.transitions))
		return
	}
	e.report(fails, func() []failure {
		ir := runImplOpts(p, implOpts{callable: true})
		return tag(compare(p, runModel(p, 0, false).transcript, &ir))
	})
}

var reName = regexp.MustCompile(`\bp[0-9]+\b|\banon\b`)

func normNames(l []string) []string {
	res := make([]string, 0, len(l))
	for _, s := range l {
		if strings.HasPrefix(s, "oc:") {
			continue
		}
		res = append(res, reName.ReplaceAllString(s, "P"))
	}
	return res
}

func compareStep(p *pm.Program, k int, want []string, impl *implResult) []failure {
	// label: where (in the model) the last log call before the interrupt was made from
	nlogs := 0
	for _, l := range impl.transcript {
		if !strings.HasPrefix(l, "T") && !strings.HasPrefix(l, "==") && !strings.HasPrefix(l, "!") && !strings.HasPrefix(l, "oc:") && !strings.HasPrefix(l, "n") {
			nlogs++
		}
	}
	where := "none"
	if nlogs > 0 {
		where = runModel(p, nlogs, false).stopCtx
	}
	mk := func(kind, what string) []failure {
		return []failure{{fmt.Sprintf("interrupt-step|%s|last-log-in:%s", kind, where), what,
			Case{Variant: "istep", K: k, JS: p.Text(), Prog: *p, Want: want, Got: impl.transcript, Note: strings.Join(impl.post, "; ")}}}
	}
	if impl.panicked != "" {
		return mk("go-panic", "Go panic: "+impl.panicked)
	}
	if !impl.requested {
		return nil // k is beyond the end of the execution
	}
	if !impl.interrupted {
		return mk("not-delivered", fmt.Sprintf("Interrupt raised before VM instruction #%d did not surface as InterruptedError from the run", k))
	}
	got := normNames(impl.transcript)
	w := normNames(want)
	if len(got) > len(w) || !equal(got, w[:len(got)]) {
		i, a, b := firstDiff(w, got)
		return mk("transcript-not-a-prefix", fmt.Sprintf("interrupt before VM instruction #%d: the transcript is not a prefix of the uninterrupted one: line %d: expected %q, goja %q", k, i, a, b))
	}
	if len(impl.post) > 0 {
		pr := impl.post[0]
		kind := pr
		if i := strings.IndexAny(pr, "=:("); i > 0 {
			kind = pr[:i]
		}
		return mk(kind, fmt.Sprintf("after an Interrupt raised before VM instruction #%d (in %s): %s", k, impl.frames, strings.Join(impl.post, "; ")))
	}
	return nil
}

// istep: an Interrupt before every single VM instruction of the program (fault enumeration over all
// instruction boundaries, which include all job boundaries).
func (e *explorer) istep(p *pm.Program) {
	r := e.r
	mr := runModel(p, 0, false)
	base := runImplOpts(p, implOpts{countSteps: true})
	if !baselineOK(p, mr.transcript, &base) {
		r.Add("interrupt_skipped_baseline_differs", 1)
		return
	}
	for k := 1; k <= base.steps; k++ {
		ir := runImplOpts(p, implOpts{stepAt: k})
		r.Eval(1)
		r.Add("interrupt_step_runs", 1)
		fails := compareStep(p, k, mr.transcript, &ir)
		if len(fails) == 0 {
			continue
		}
		k := k
		e.report(fails, func() []failure {
			ir := runImplOpts(p, implOpts{stepAt: k})
			return compareStep(p, k, mr.transcript, &ir)
		})
	}
}

// level explores all programs of weight exactly w. It returns false if the budget expired first.
func (e *explorer) level(w int, L limits, mode byte) bool {
	r := e.r
	pf := prefixes(w, 2, L)
	var done sync.Map
	ok := r.Parallel(int64(len(pf)), 1, func(wi int, lo, hi int64) {
		wk := e.workers[wi]
		for i := lo; i < hi; i++ {
			pre := pf[i]
			n := int64(0)
			visit := func(ops []pm.Op) bool {
				n++
				if n&63 == 0 && r.Expired() {
					return false
				}
				p := &pm.Program{Ops: append([]pm.Op(nil), ops...)}
				switch mode {
				case 'i':
					e.interrupt(p)
				case 's':
					e.istep(p)
				case 'c':
					e.fullCallable(p)
				default:
					e.full(wk, p, i*1000+n)
				}
				return true
			}
			complete := true
			if pre.rem == 0 {
				visit(pre.ops)
			} else {
				c := pre.c
				complete = walk(&c, pre.ops, pre.rem, L, visit)
			}
			if !complete {
				done.Store("cut", true)
			}
			switch mode {
			case 'i':
				r.Add("interrupt_programs", n)
			case 's':
				r.Add("interrupt_step_programs", n)
			case 'c':
				r.Add("callable_entry_programs", n)
			default:
				r.Add("programs", n)
			}
		}
	})
	_, cut := done.Load("cut")
	return ok && !cut
}

func run(r *core.Run) {
	e := newExplorer(r)
	r.Assume("the reference model promisemodel implements ECMA-262 (2024) 27.2 and 27.7.5 for %Promise% only (no subclassing / Symbol.species, array literals as iterables)")
	r.Assume("the generated JavaScript uses only features whose semantics are not in question here (var, function, object literals with getters, calls)")
	r.Assume("goja.VerifIdle(r).Jobs (len(Runtime.jobQueue)) is the only white-box observation; everything else goes through the public API")

	// fixed regression corpus first (reaches every listed finding deterministically)
	for i, c := range corpus() {
		p := c.prog
		if c.golden != nil {
			if got := runModel(&p, 0, false).transcript; !equal(got, c.golden) {
				r.Violation("model-selftest|"+c.name, fmt.Sprintf("the reference model disagrees with the hand-derived transcript: model %q, expected %q", got, c.golden),
					Case{Variant: "full", JS: p.Text(), Prog: p, Want: c.golden, Got: got, Note: "model self-test"})
			}
			r.Add("golden_selftests", 1)
		}
		n := e.full(e.workers[0], &p, int64(i))
		e.fullCallable(&p)
		if c.interrupt && n > 0 {
			e.interrupt(&p)
			e.istep(&p)
		}
		r.Add("corpus_programs", 1)
	}

	// tick-ruler family: every single operation against an 8-tick ruler chain
	rp := rulerPrograms(r.Pick(3, 4))
	r.Parallel(int64(len(rp)), 16, func(wi int, lo, hi int64) {
		for i := lo; i < hi; i++ {
			e.full(e.workers[wi], &rp[i], i)
		}
		r.Add("ruler_programs", hi-lo)
	})

	// levels in order (simplest first); "full" = the whole alphabet up to a total weight, "kernel" = exactly n
	// operations of weight 1 (deep interleavings of plain chains); i* = the interrupt variant of the same space.
	type lvl struct {
		kind string // full | kernel | ifull | ikernel | cfull (Callable entry) | sfull (interrupt before every VM instruction) | ruler2 (w = 10*limA+limB)
		w    int
	}
	var plan []lvl
	maxOps, maxP := r.Pick(5, 6), 5
	if r.Quick() {
		plan = []lvl{{"full", 1}, {"full", 2}, {"full", 3}, {"ifull", 1}, {"ifull", 2}, {"ifull", 3}, {"cfull", 1}, {"cfull", 2}, {"cfull", 3},
			{"sfull", 1}, {"sfull", 2}, {"ruler2", 11}, {"full", 4}, {"ruler2", 22}, {"kernel", 5}, {"sfull", 3}, {"ikernel", 4}}
	} else {
		plan = []lvl{{"full", 1}, {"full", 2}, {"full", 3}, {"full", 4}, {"ifull", 1}, {"ifull", 2}, {"ifull", 3},
			{"cfull", 1}, {"cfull", 2}, {"cfull", 3}, {"sfull", 1}, {"sfull", 2}, {"ruler2", 22},
			{"full", 5}, {"ifull", 4}, {"cfull", 4}, {"sfull", 3}, {"ruler2", 33}, {"kernel", 6}, {"ikernel", 5}, {"sfull", 4}, {"full", 6}}
	}
	r.Set("max_ops", maxOps)
	r.Set("max_promises", maxP)
	bounds := map[string]int{"full_weight": 0, "kernel_ops": 0, "interrupt_full_weight": 0, "interrupt_kernel_ops": 0, "callable_entry_full_weight": 0, "interrupt_step_full_weight": 0, "ruler2_weights": 0}
	target := map[string]int{}
	names := map[string]string{"full": "full_weight", "kernel": "kernel_ops", "ifull": "interrupt_full_weight", "ikernel": "interrupt_kernel_ops", "cfull": "callable_entry_full_weight", "sfull": "interrupt_step_full_weight", "ruler2": "ruler2_weights"}
	for _, l := range plan {
		target[names[l.kind]] = l.w
	}
	r.Set("bounds_target", target)
	complete := true
	for _, l := range plan {
		if l.kind == "ruler2" {
			rp := rulerPrograms2(l.w/10, l.w%10)
			if !r.Parallel(int64(len(rp)), 16, func(wi int, lo, hi int64) {
				for i := lo; i < hi; i++ {
					e.full(e.workers[wi], &rp[i], i)
				}
				r.Add("ruler2_programs", hi-lo)
			}) {
				complete = false
				break
			}
			bounds["ruler2_weights"] = l.w
			r.Set("bounds_completed", bounds)
			continue
		}
		L := limits{maxOps: maxOps, maxP: maxP}
		if l.kind == "kernel" || l.kind == "ikernel" {
			L.maxOpCost = 1
			L.maxOps = l.w
		}
		if !e.level(l.w, L, l.kind[0]) {
			complete = false
			break
		}
		bounds[names[l.kind]] = l.w
		r.Set("bounds_completed", bounds)
	}
	r.Set("bounds_completed", bounds)
	all := map[uint64]struct{}{}
	for _, w := range e.workers {
		for k := range w.states {
			all[k] = struct{}{}
		}
	}
	r.States(int64(len(all)))
	r.Exhaustive(complete)
}

func replay(r *core.Run, raw json.RawMessage) {
	var c Case
	if err := json.Unmarshal(raw, &c); err != nil {
		r.Violation("bad-replay-file", err.Error(), nil)
		return
	}
	p := &c.Prog
	fmt.Println(p.Text())
	var fails []failure
	switch c.Variant {
	case "istep":
		mr := runModel(p, 0, false)
		ir := runImplOpts(p, implOpts{stepAt: c.K})
		fmt.Println("model (uninterrupted):", mr.transcript)
		fmt.Println("goja: ", ir.transcript, ir.post, "interrupted in", ir.frames)
		fails = compareStep(p, c.K, mr.transcript, &ir)
	case "full-callable":
		mr := runModel(p, 0, false)
		ir := runImplOpts(p, implOpts{callable: true})
		fmt.Println("model:", mr.transcript)
		fmt.Println("goja: ", ir.transcript)
		fails = compare(p, mr.transcript, &ir)
	case "interrupt":
		mr := runModel(p, c.K, false)
		ir := runImpl(p, c.K)
		fmt.Println("model:", mr.transcript)
		fmt.Println("goja: ", ir.transcript, ir.post)
		fails = compareInterrupt(p, c.K, &mr, &ir)
	default:
		mr := runModel(p, 0, false)
		ir := runImpl(p, 0)
		fmt.Println("model:", mr.transcript)
		fmt.Println("goja: ", ir.transcript)
		fails = compare(p, mr.transcript, &ir)
	}
	for _, f := range fails {
		r.Violation(f.sig, f.what, f.c)
	}
}
