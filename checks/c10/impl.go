package c10

import (
	"fmt"
	"reflect"
	"strconv"
	"strings"

	pm "verif/ref/promisemodel"

	"github.com/dop251/goja"
)

// ---- running an op program on the real engine ----

type ientry struct {
	tag   string
	v     goja.Value
	hasV  bool
	track *goja.Promise
	seg   []iobs
	isSeg bool
	raw   string // literal transcript line (anomalies)
}

type iobs struct {
	state  goja.PromiseState
	result goja.Value
	other  goja.Value // variable does not hold a promise
}

type implRun struct {
	r           *goja.Runtime
	entries     []ientry
	goRes       map[int]func(interface{}) error
	goRej       map[int]func(interface{}) error
	jsLogs      int
	interruptAt int    // >0: Interrupt raised inside the k-th log() call
	stepAt      int    // >0: Interrupt raised by the step hook before the k-th VM instruction
	steps       int    // VM instructions executed after the prelude
	requested   bool   // Interrupt() has been called
	frames      string // innermost function names at the moment of a step interrupt
	nestedDrain bool   // a NewPromise resolver called by a native handler ran promise jobs before returning
	callable    bool   // script segments are entered through a Callable (AssertFunction) instead of RunProgram
	names       map[*goja.Promise]string

	interrupted bool // the interrupt variant: the run that was interrupted returned InterruptedError
	anomalies   []string
}

var preludePrg = goja.MustCompile("prelude", pm.Prelude, false)
var postPrg = goja.MustCompile("post", `Promise.resolve(77).then(function(v){log("post",v)}); (async function(){var v=await 78;log("post2",v)})(); undefined`, false)

var typePromise = reflect.TypeOf((*goja.Promise)(nil))

func asPromise(v goja.Value) *goja.Promise {
	if o, ok := v.(*goja.Object); ok && o.ExportType() == typePromise {
		if p, ok := o.Export().(*goja.Promise); ok {
			return p
		}
	}
	return nil
}

type implOpts struct {
	interruptAt int
	stepAt      int
	countSteps  bool
	callable    bool
}

func newImpl(o implOpts) *implRun {
	ir := &implRun{r: goja.New(), goRes: map[int]func(interface{}) error{}, goRej: map[int]func(interface{}) error{},
		interruptAt: o.interruptAt, stepAt: o.stepAt, callable: o.callable}
	r := ir.r
	r.Set("log", func(call goja.FunctionCall) goja.Value {
		e := ientry{tag: call.Argument(0).String()}
		if len(call.Arguments) > 1 {
			e.v, e.hasV = call.Arguments[1], true
		}
		ir.entries = append(ir.entries, e)
		if e.tag == "oc" {
			// 'constructor' getter of a non-promise object: never reached in the model (known finding); not an
			// interrupt point so that the numbering of the other log calls stays aligned with the model
			return goja.Undefined()
		}
		ir.jsLogs++
		if ir.interruptAt > 0 && ir.jsLogs == ir.interruptAt {
			ir.requested = true
			r.Interrupt("c10")
		}
		return goja.Undefined()
	})
	r.Set("goNew", func(call goja.FunctionCall) goja.Value {
		slot := int(call.Argument(0).ToInteger())
		p, res, rej := r.NewPromise()
		ir.goRes[slot], ir.goRej[slot] = res, rej
		return r.ToValue(p)
	})
	settle := func(rej bool) func(call goja.FunctionCall) goja.Value {
		return func(call goja.FunctionCall) goja.Value {
			ir.goSettle(int(call.Argument(0).ToInteger()), rej, call.Argument(1))
			return goja.Undefined()
		}
	}
	r.Set("goRes", settle(false))
	r.Set("goRej", settle(true))
	r.Set("nativeH", func(call goja.FunctionCall) goja.Value {
		tag := call.Argument(0).String()
		slot := int(call.Argument(1).ToInteger())
		rej := call.Argument(2).ToBoolean()
		v := call.Argument(3)
		// the returned value is a Go native function object; the script passes it directly to then()
		return r.ToValue(func(call goja.FunctionCall) goja.Value {
			ir.entries = append(ir.entries, ientry{tag: tag, v: call.Argument(0), hasV: true})
			n := len(ir.entries)
			ir.goSettle(slot, rej, v)
			// Inside a resolving function only getters ('then' lookup) and the rejection tracker may run. An entry
			// logged by a handler / then-method / async continuation means that the resolver has run promise jobs,
			// i.e. it drained the job queue recursively (direct evidence for the nested-drain finding).
			for _, e := range ir.entries[n:] {
				if e.track == nil && e.raw == "" && !e.isSeg && e.tag != "og" && e.tag != "oc" && e.tag != "gt" && e.tag != "gc" {
					ir.nestedDrain = true
				}
			}
			return goja.Undefined()
		})
	})
	r.SetPromiseRejectionTracker(func(p *goja.Promise, op goja.PromiseRejectionOperation) {
		tag := "T+"
		if op == goja.PromiseRejectionHandle {
			tag = "T-"
		} else if op != goja.PromiseRejectionReject {
			tag = "T?" + strconv.Itoa(int(op))
		}
		ir.entries = append(ir.entries, ientry{tag: tag, track: p})
	})
	if _, err := r.RunProgram(preludePrg); err != nil {
		panic("prelude: " + err.Error())
	}
	if o.stepAt > 0 || o.countSteps {
		goja.VerifSetStepHook(r, func(r *goja.Runtime) {
			ir.steps++
			if ir.steps == ir.stepAt {
				ir.requested = true
				var names []string
				for _, f := range r.CaptureCallStack(3, nil) {
					n := f.FuncName()
					if n == "" {
						n = "<anonymous>"
					}
					names = append(names, n)
				}
				ir.frames = strings.Join(names, "<-")
				r.Interrupt("c10")
			}
		})
	}
	return ir
}

// goSettle calls a resolver returned by Runtime.NewPromise from inside a native; uncatchable errors are
// propagated upwards as the NewPromise documentation demands.
func (ir *implRun) goSettle(slot int, rej bool, v goja.Value) {
	f := ir.goRes[slot]
	if rej {
		f = ir.goRej[slot]
	}
	if f == nil {
		return
	}
	if err := f(v); err != nil {
		panic(err)
	}
}

func (ir *implRun) anomaly(format string, args ...interface{}) {
	s := "!" + fmt.Sprintf(format, args...)
	ir.anomalies = append(ir.anomalies, s)
	ir.entries = append(ir.entries, ientry{raw: s})
}

func (ir *implRun) observe(nvars int) {
	if j := goja.VerifIdle(ir.r).Jobs; j != 0 {
		ir.anomaly("jobs-left=%d", j)
	}
	obs := make([]iobs, nvars)
	for i := range obs {
		v := ir.r.Get("p" + strconv.Itoa(i))
		if p := asPromise(v); p != nil {
			obs[i] = iobs{state: p.State(), result: p.Result()}
		} else {
			obs[i] = iobs{other: v}
			if v == nil {
				obs[i].other = goja.Undefined()
			}
		}
	}
	ir.entries = append(ir.entries, ientry{isSeg: true, seg: obs})
}

// run executes the program segment by segment. In the interrupt variant it stops after the interrupted
// segment.
func (ir *implRun) run(p *pm.Program) {
	r := ir.r
	segs := p.Segments()
	nvars := 0
	for si, s := range segs {
		var err error
		if s.Go != nil {
			var v goja.Value
			switch s.Go.V.K {
			case pm.VConst:
				v = r.ToValue(s.Go.V.N)
			case pm.VPVar:
				v = r.Get("p" + strconv.Itoa(s.Go.V.N))
			case pm.VObj:
				// building the value is a run of its own (nothing is pending, so it is inert)
				v, err = r.RunString("(" + s.Go.V.JS() + ")")
				if err != nil {
					if _, ok := err.(*goja.InterruptedError); ok && ir.requested {
						ir.interrupted = true
						return
					}
					ir.anomaly("go-value-error:%v", err)
				}
			default:
				v = goja.Undefined()
			}
			f := ir.goRes[s.Go.C.Slot]
			if s.Go.C.Rej {
				f = ir.goRej[s.Go.C.Slot]
			}
			if f != nil {
				err = f(v)
			}
		} else {
			src := s.JS
			if ir.callable {
				// declare the segment as a function (nothing is pending, so this extra run is inert), then enter
				// the runtime through a Callable
				name := "__seg" + strconv.Itoa(si)
				decl := ""
				if si == 0 {
					decl = p.Decl()
				}
				prg, cerr := goja.Compile("seg", decl+"function "+name+"(){\n"+src+"}", false)
				if cerr != nil {
					panic("generated JS does not compile: " + cerr.Error() + "\n" + src)
				}
				if _, err = r.RunProgram(prg); err == nil {
					fn, ok := goja.AssertFunction(r.Get(name))
					if !ok {
						panic("segment function missing")
					}
					_, err = fn(goja.Undefined())
				}
			} else {
				if si == 0 {
					src = p.Decl() + src
				}
				prg, cerr := goja.Compile("seg", src, false)
				if cerr != nil {
					panic("generated JS does not compile: " + cerr.Error() + "\n" + src)
				}
				_, err = r.RunProgram(prg)
			}
			for _, oi := range s.Ops {
				if p.Ops[oi].Defines() {
					nvars++
				}
			}
		}
		if err != nil {
			if _, ok := err.(*goja.InterruptedError); ok && ir.requested {
				ir.interrupted = true
				return
			}
			ir.anomaly("error:%s", firstLine(err.Error()))
		}
		if ir.requested {
			// the interrupt was requested but the run returned normally
			ir.anomaly("interrupt-not-delivered")
			r.ClearInterrupt()
			return
		}
		ir.observe(nvars)
	}
}

func firstLine(s string) string {
	if i := strings.IndexByte(s, '\n'); i >= 0 {
		s = s[:i]
	}
	if len(s) > 120 {
		s = s[:120]
	}
	return s
}

// ---- rendering (same format as promisemodel) ----

func (ir *implRun) buildNames(nvars int) {
	ir.names = map[*goja.Promise]string{}
	for i := 0; i < nvars; i++ {
		if p := asPromise(ir.r.Get("p" + strconv.Itoa(i))); p != nil {
			if _, ok := ir.names[p]; !ok {
				ir.names[p] = "p" + strconv.Itoa(i)
			}
		}
	}
}

func (ir *implRun) name(p *goja.Promise) string {
	if n, ok := ir.names[p]; ok {
		return n
	}
	return "anon"
}

func (ir *implRun) show(v goja.Value, depth int) string {
	if v == nil || goja.IsUndefined(v) {
		return "u"
	}
	o, ok := v.(*goja.Object)
	if !ok {
		if goja.IsNull(v) {
			return "null"
		}
		return v.String()
	}
	if depth > 12 {
		return "..."
	}
	if p := asPromise(o); p != nil {
		return ir.name(p)
	}
	switch o.ClassName() {
	case "Array":
		return ir.showArray(o, depth)
	case "Error":
		name := o.Get("name").String()
		if name == "AggregateError" {
			if errs, ok := o.Get("errors").(*goja.Object); ok {
				return name + ir.showArray(errs, depth)
			}
		}
		return name
	case "Function":
		return "fn"
	}
	if id := o.Get("id"); id != nil && !goja.IsUndefined(id) {
		return "o" + id.String()
	}
	if st := o.Get("status"); st != nil && !goja.IsUndefined(st) {
		key := "value"
		if st.String() == "rejected" {
			key = "reason"
		}
		return "{" + st.String() + ":" + ir.show(o.Get(key), depth+1) + "}"
	}
	return "object"
}

func (ir *implRun) showArray(o *goja.Object, depth int) string {
	n := int(o.Get("length").ToInteger())
	s := make([]string, n)
	for i := range s {
		s[i] = ir.show(o.Get(strconv.Itoa(i)), depth+1)
	}
	return "[" + strings.Join(s, ",") + "]"
}

func (ir *implRun) transcript(nvars int) []string {
	ir.buildNames(nvars)
	res := make([]string, 0, len(ir.entries))
	for _, e := range ir.entries {
		switch {
		case e.raw != "":
			res = append(res, e.raw)
		case e.isSeg:
			var sb strings.Builder
			sb.WriteString("==")
			for i, s := range e.seg {
				sb.WriteString(" p" + strconv.Itoa(i) + "=")
				if s.other != nil {
					sb.WriteString("notpromise(" + ir.show(s.other, 0) + ")")
				} else {
					sb.WriteString(pm.StateString(int(s.state), ir.show(s.result, 0)))
				}
			}
			res = append(res, sb.String())
		case e.track != nil:
			res = append(res, e.tag+":"+ir.name(e.track))
		case e.hasV:
			res = append(res, e.tag+":"+ir.show(e.v, 0))
		default:
			res = append(res, e.tag)
		}
	}
	return res
}
