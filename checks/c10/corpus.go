package c10

import pm "verif/ref/promisemodel"

// Fixed regression corpus: minimal programs for every listed finding plus a few classic ordering scenarios.
// It is executed first in every tier, so listed findings are reached deterministically.

type corpusCase struct {
	name      string
	prog      pm.Program
	interrupt bool
	// golden, if set, is the transcript derived BY HAND from ECMA-262 (and known to agree with V8/SpiderMonkey):
	// a self-test of the reference model that guards against an error common to model and implementation.
	golden []string
}

func hret(tag string, v pm.Expr) *pm.Handler {
	return &pm.Handler{K: pm.HFunc, F: &pm.Func{Tag: tag, LogArg: true, End: pm.EndReturn, V: v}}
}

func hthrow(tag string, v pm.Expr) *pm.Handler {
	return &pm.Handler{K: pm.HFunc, F: &pm.Func{Tag: tag, LogArg: true, End: pm.EndThrow, V: v}}
}

func hnative(tag string, slot int, rej bool, v pm.Expr) *pm.Handler {
	return &pm.Handler{K: pm.HNative, Tag: tag, C: pm.Callee{K: pm.CalleeGo, Slot: slot, Rej: rej}, V: v}
}

func thenableRes(id int, v pm.Expr, ctor pm.CtorKind) pm.Expr {
	return pm.Obj(&pm.ObjSpec{ID: id, Then: pm.ThenFunc, Ctor: ctor, Fn: &pm.Func{Tag: "t" + itoa(id), Body: []pm.Call{callArg(false, v)}}})
}

func itoa(i int) string {
	if i == 0 {
		return "0"
	}
	s := ""
	for ; i > 0; i /= 10 {
		s = string(rune('0'+i%10)) + s
	}
	return s
}

func executor(tag string, save int, body ...pm.Call) *pm.Func {
	return &pm.Func{Tag: tag, Save: save, Body: body}
}

func corpus() []corpusCase {
	c := pm.Const
	goRes := func(slot int, v pm.Expr) pm.Op {
		return pm.Op{K: pm.OpGoSettle, C: pm.Callee{K: pm.CalleeGo, Slot: slot}, V: v}
	}
	goRej := func(slot int, v pm.Expr) pm.Op {
		return pm.Op{K: pm.OpGoSettle, C: pm.Callee{K: pm.CalleeGo, Slot: slot, Rej: true}, V: v}
	}
	return []corpusCase{
		{name: "ctor-read/Promise.resolve", prog: pm.Program{Ops: []pm.Op{
			{K: pm.OpResolve, V: pm.Obj(&pm.ObjSpec{ID: 11})},
		}}},
		{name: "ctor-read/await", interrupt: true, prog: pm.Program{Ops: []pm.Op{
			{K: pm.OpAsync, A: &pm.Async{Tag: "a0", Awaits: []pm.Expr{thenableRes(11, c(1), pm.CtorLogging)}, End: pm.EndReturn, V: c(2)}},
		}}},
		{name: "ctor-read/finally", prog: pm.Program{Ops: []pm.Op{
			{K: pm.OpResolve, V: c(1)},
			{K: pm.OpFinally, P: 0, H1: &pm.Handler{K: pm.HFunc, F: &pm.Func{Tag: "y1", End: pm.EndReturn, V: thenableRes(21, c(2), pm.CtorLogging)}}},
		}}},
		{name: "fake-ctor/Promise.resolve", prog: pm.Program{Ops: []pm.Op{
			{K: pm.OpResolve, V: pm.Obj(&pm.ObjSpec{ID: 11, Ctor: pm.CtorPromise})},
		}}},
		{name: "fake-ctor/finally", prog: pm.Program{Ops: []pm.Op{
			{K: pm.OpResolve, V: c(1)},
			{K: pm.OpFinally, P: 0, H1: &pm.Handler{K: pm.HFunc, F: &pm.Func{Tag: "y1", End: pm.EndReturn, V: thenableRes(21, c(2), pm.CtorPromise)}}},
			{K: pm.OpThen, P: 1, H1: hret("f2", c(3))},
		}}},
		{name: "fake-ctor/await", prog: pm.Program{Ops: []pm.Op{
			{K: pm.OpAsync, A: &pm.Async{Tag: "a0", Awaits: []pm.Expr{pm.Obj(&pm.ObjSpec{ID: 11, Ctor: pm.CtorPromise})}, End: pm.EndReturn, V: c(2)}},
		}}},
		{name: "nested-drain/native-handler", prog: pm.Program{Ops: []pm.Op{
			{K: pm.OpGoNew},
			{K: pm.OpGoNew},
			{K: pm.OpThen, P: 0, H1: hnative("n2", 1, false, c(5))},
			{K: pm.OpThen, P: 0, H1: hret("f3", c(6))},
			{K: pm.OpThen, P: 1, H1: hret("f4", c(7))},
			goRes(0, c(1)),
		}}},
		{name: "nested-drain/native-handler-reject", prog: pm.Program{Ops: []pm.Op{
			{K: pm.OpGoNew},
			{K: pm.OpGoNew},
			{K: pm.OpCatch, P: 0, H1: hnative("n2", 1, true, c(5))},
			{K: pm.OpCatch, P: 0, H1: hret("c3", c(6))},
			{K: pm.OpCatch, P: 1, H1: hret("c4", c(7))},
			goRej(0, c(1)),
		}}},
		// the same shape entered through RunProgram: no nested drain
		{name: "native-handler/from-script", interrupt: true, prog: pm.Program{Ops: []pm.Op{
			{K: pm.OpGoNew},
			{K: pm.OpGoNew},
			{K: pm.OpThen, P: 0, H1: hnative("n2", 1, false, c(5))},
			{K: pm.OpThen, P: 0, H1: hret("f3", c(6))},
			{K: pm.OpThen, P: 1, H1: hret("f4", c(7))},
			{K: pm.OpCall, C: pm.Callee{K: pm.CalleeGo, Slot: 0}, V: c(1)},
		}}},
		// classic: resolving with a promise costs two extra ticks
		{name: "order/resolve-with-promise", interrupt: true,
			golden: []string{"x1", "f3:1", "f4:3", "f2:1", "f5:4", "== p0=F(1) p1=F(1) p2=F(2) p3=F(3) p4=F(4) p5=F(5)"},
			prog: pm.Program{Ops: []pm.Op{
				{K: pm.OpResolve, V: c(1)},
				{K: pm.OpNew, F: executor("x1", 0, callArg(false, pm.PVar(0)))},
				{K: pm.OpThen, P: 1, H1: hret("f2", c(2))},
				{K: pm.OpThen, P: 0, H1: hret("f3", c(3))},
				{K: pm.OpThen, P: 3, H1: hret("f4", c(4))},
				{K: pm.OpThen, P: 4, H1: hret("f5", c(5))},
			}}},
		{name: "order/async-return-promise", interrupt: true,
			// await of a native promise: 1 tick; return of a promise from an async function: +2 ticks
			golden: []string{"a1.0", "a1.1:1", "f3:1", "f4:3", "f5:4", "f2:1", "== p0=F(1) p1=F(1) p2=F(2) p3=F(3) p4=F(4) p5=F(5)"},
			prog: pm.Program{Ops: []pm.Op{
				{K: pm.OpResolve, V: c(1)},
				{K: pm.OpAsync, A: &pm.Async{Tag: "a1", Awaits: []pm.Expr{pm.PVar(0)}, End: pm.EndReturn, V: pm.PVar(0)}},
				{K: pm.OpThen, P: 1, H1: hret("f2", c(2))},
				{K: pm.OpThen, P: 0, H1: hret("f3", c(3))},
				{K: pm.OpThen, P: 3, H1: hret("f4", c(4))},
				{K: pm.OpThen, P: 4, H1: hret("f5", c(5))},
			}}},
		{name: "order/finally-tick-count", interrupt: true,
			// p0.finally(f) settles its result 3 ticks after f ran (valueThunk, thenable job, reaction)
			golden: []string{"y1", "u1:1", "u2:10", "u3:11", "F:1", "u4:12", "u5:13", "== p0=F(1) p1=F(1) p2=F(3) p3=F(10) p4=F(11) p5=F(12) p6=F(13) p7=F(14)"},
			prog: pm.Program{Ops: []pm.Op{
				{K: pm.OpResolve, V: c(1)},
				{K: pm.OpFinally, P: 0, H1: &pm.Handler{K: pm.HFunc, F: &pm.Func{Tag: "y1", End: pm.EndReturn, V: c(2)}}},
				{K: pm.OpThen, P: 1, H1: hret("F", c(3))},
				{K: pm.OpThen, P: 0, H1: hret("u1", c(10))},
				{K: pm.OpThen, P: 3, H1: hret("u2", c(11))},
				{K: pm.OpThen, P: 4, H1: hret("u3", c(12))},
				{K: pm.OpThen, P: 5, H1: hret("u4", c(13))},
				{K: pm.OpThen, P: 6, H1: hret("u5", c(14))},
			}}},
		{name: "tracker/golden", interrupt: true,
			// reject without handler -> "reject"; first handler attached later -> "handle"; the derived promise of a
			// handler-less then() is rejected in a job -> "reject" for it
			golden: []string{"T+:p0", "== p0=R(1)", "T-:p0", "T+:p1", "== p0=R(1) p1=R(1)", "T-:p1", "c3:1", "== p0=R(1) p1=R(1) p2=F(2)"},
			prog: pm.Program{Ops: []pm.Op{
				{K: pm.OpReject, V: c(1)},
				{K: pm.OpBreak},
				{K: pm.OpThen, P: 0, H1: hret("f2", c(9))},
				{K: pm.OpBreak},
				{K: pm.OpCatch, P: 1, H1: hret("c3", c(2))},
			}}},
		{name: "tracker/reject-then-handle-across-runs", interrupt: true, prog: pm.Program{Ops: []pm.Op{
			{K: pm.OpReject, V: c(1)},
			{K: pm.OpThen, P: 0, H1: hret("f1", c(2))},
			{K: pm.OpBreak},
			{K: pm.OpCatch, P: 1, H1: hthrow("c3", c(3))},
			{K: pm.OpBreak},
			{K: pm.OpFinally, P: 2, H1: &pm.Handler{K: pm.HFunc, F: &pm.Func{Tag: "y5", End: pm.EndReturn, V: pm.PVar(0)}}},
		}}},
		// interrupt inside the first of two jobs started by a Go-side resolver call (runWrapped path)
		{name: "interrupt/go-settle-two-handlers", interrupt: true, prog: pm.Program{Ops: []pm.Op{
			{K: pm.OpGoNew},
			{K: pm.OpThen, P: 0, H1: hret("f1", c(2))},
			{K: pm.OpThen, P: 0, H1: hret("f2", c(3))},
			{K: pm.OpThen, P: 1, H1: hret("f3", c(4))},
			goRes(0, c(1)),
		}}},
		{name: "interrupt/go-reject-two-handlers", interrupt: true, prog: pm.Program{Ops: []pm.Op{
			{K: pm.OpGoNew},
			{K: pm.OpCatch, P: 0, H1: hthrow("c1", c(2))},
			{K: pm.OpCatch, P: 0, H1: hret("c2", c(3))},
			{K: pm.OpBreak},
			goRej(0, c(1)),
			{K: pm.OpCatch, P: 1, H1: hret("c5", c(4))},
		}}},
		{name: "combinators/mixed", interrupt: true, prog: pm.Program{Ops: []pm.Op{
			{K: pm.OpGoNew},
			{K: pm.OpReject, V: c(1)},
			{K: pm.OpAll, Items: []pm.Expr{pm.PVar(0), c(2), thenableRes(31, c(3), pm.CtorLogging)}},
			{K: pm.OpAllSettled, Items: []pm.Expr{pm.PVar(0), pm.PVar(1), c(4)}},
			{K: pm.OpAny, Items: []pm.Expr{pm.PVar(1), pm.PVar(0)}},
			{K: pm.OpRace, Items: []pm.Expr{pm.PVar(0), pm.PVar(1)}},
			goRes(0, c(9)),
		}}},
		{name: "tap/then-and-constructor-lookups", interrupt: true, prog: pm.Program{Ops: []pm.Op{
			{K: pm.OpResolve, V: c(1)},
			{K: pm.OpTap, P: 0},
			{K: pm.OpResolve, V: pm.PVar(0)},
			{K: pm.OpNew, F: executor("x3", 0, callArg(false, pm.PVar(0)))},
			{K: pm.OpFinally, P: 0, H1: &pm.Handler{K: pm.HFunc, F: &pm.Func{Tag: "y4", End: pm.EndReturn, V: pm.PVar(0)}}},
			{K: pm.OpAsync, A: &pm.Async{Tag: "a5", Awaits: []pm.Expr{pm.PVar(0)}, End: pm.EndReturn, V: pm.PVar(0)}},
			{K: pm.OpAll, Items: []pm.Expr{pm.PVar(0)}},
		}}},
	}
}

// rulerPrograms is the "tick ruler" family: for EVERY operation alternative of weight <= lim that defines a
// promise in a context with a fulfilled p0 and a rejected p1 (plus a pending p2 with saved resolvers that is
// settled later), the program  base; op; pX.then(f,r); u1=p0.then(..); u2=u1.then(..) ... (a chain of 8 ticks)
// pins down the exact tick in which the operation's promise settles relative to the ruler chain.
func rulerPrograms(lim int) []pm.Program {
	base := []pm.Op{
		{K: pm.OpResolve, V: pm.Const(1)},
		{K: pm.OpReject, V: pm.Const(2)},
	}
	c := ectx{nP: 2, nOps: 2}
	L := limits{maxOps: 99, maxP: 99}
	var res []pm.Program
	for _, a := range alts(&c, lim, L) {
		if !a.op.Defines() {
			continue
		}
		ops := append(append([]pm.Op(nil), base...), a.op)
		ops = append(ops, pm.Op{K: pm.OpThen, P: 2, H1: hret("F", pm.Const(3)), H2: hret("R", pm.Const(4))})
		prev := 0
		for i := 0; i < 8; i++ {
			ops = append(ops, pm.Op{K: pm.OpThen, P: prev, H1: hret("u"+itoa(i+1), pm.Const(10+i))})
			prev = 4 + i
		}
		res = append(res, pm.Program{Ops: ops})
	}
	return res
}

// rulerPrograms2 is the two-operation version of the tick ruler: every pair of operations (a of weight <= limA,
// then b of weight <= limB, b may use a's promise / resolvers) after the same base, probes on every promise they
// define, and the 8-tick ruler chain.
func rulerPrograms2(limA, limB int) []pm.Program {
	base := []pm.Op{
		{K: pm.OpResolve, V: pm.Const(1)},
		{K: pm.OpReject, V: pm.Const(2)},
	}
	c := ectx{nP: 2, nOps: 2}
	L := limits{maxOps: 99, maxP: 99}
	var res []pm.Program
	for _, a := range alts(&c, limA, L) {
		a := a
		if a.op.K == pm.OpBreak || a.op.K == pm.OpTap {
			continue
		}
		ca := c.after(&a)
		for _, b := range alts(&ca, limB, L) {
			if !a.op.Defines() && !b.op.Defines() {
				continue
			}
			ops := append(append([]pm.Op(nil), base...), a.op, b.op)
			n := 2
			var probes []pm.Op
			for i, o := range []pm.Op{a.op, b.op} {
				if o.Defines() {
					t := "A"
					if i == 1 {
						t = "B"
					}
					probes = append(probes, pm.Op{K: pm.OpThen, P: n, H1: hret("F"+t, pm.Const(3)), H2: hret("R"+t, pm.Const(4))})
					n++
				}
			}
			ops = append(ops, probes...)
			n += len(probes)
			prev := 0
			for i := 0; i < 8; i++ {
				ops = append(ops, pm.Op{K: pm.OpThen, P: prev, H1: hret("u"+itoa(i+1), pm.Const(10+i))})
				prev = n
				n++
			}
			res = append(res, pm.Program{Ops: ops})
		}
	}
	return res
}
