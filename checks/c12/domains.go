package c12

import (
	"math"
	"math/big"
	"sort"

	nm "verif/ref/nummodel12"
)

// ---------------------------------------------------------------------------------------------
// D1: all binary16 values widened to float64

func half(h uint16) float64 {
	sign := uint64(h>>15) << 63
	e := int(h>>10) & 0x1f
	f := uint64(h & 0x3ff)
	switch {
	case e == 0:
		// subnormal binary16: f * 2^-24 (exact in float64)
		return math.Float64frombits(sign | math.Float64bits(float64(f)*(1.0/16777216.0)))
	case e == 31:
		if f == 0 {
			return math.Float64frombits(sign | 0x7ff<<52)
		}
		return math.NaN()
	}
	return math.Float64frombits(sign | uint64(e-15+1023)<<52 | f<<42)
}

// isBinary16 reports whether the finite double x is exactly a binary16 value.
func isBinary16(x float64) bool {
	if x == 0 {
		return true
	}
	m, e := nm.Decompose(x)
	for m&1 == 0 {
		m >>= 1
		e++
	}
	// m odd, |x| = m*2^e ; binary16: m < 2^11, value >= 2^-24, < 2^16
	if m >= 1<<11 {
		return false
	}
	bl := 0
	for t := m; t != 0; t >>= 1 {
		bl++
	}
	return e >= -24 && e+bl <= 16
}

// ---------------------------------------------------------------------------------------------
// D2: every exponent x structured mantissa patterns: a b-bit prefix followed by all zeros / all ones,
// and all zeros / all ones followed by a b-bit suffix.

func d2Patterns(b int) []uint64 {
	seen := map[uint64]bool{}
	var res []uint64
	add := func(m uint64) {
		m &= 1<<52 - 1
		if !seen[m] {
			seen[m] = true
			res = append(res, m)
		}
	}
	rest := uint(52 - b)
	for p := uint64(0); p < 1<<uint(b); p++ {
		add(p << rest)
		add(p<<rest | (1<<rest - 1))
		add(p)
		add((1<<52-1)&^(1<<uint(b)-1) | p)
	}
	sort.Slice(res, func(i, j int) bool { return res[i] < res[j] })
	return res
}

// inD2 reports whether mantissa m belongs to the b-bit pattern family.
func inD2(m uint64, b int) bool {
	rest := uint(52 - b)
	low := m & (1<<rest - 1)
	if low == 0 || low == 1<<rest-1 {
		return true
	}
	high := m >> uint(b)
	return high == 0 || high == 1<<rest-1
}

// ---------------------------------------------------------------------------------------------
// D4: neighbourhoods of powers of ten and two, 2^53, and decimal halfway points

func nbr(x float64, j int) (float64, bool) {
	b := int64(math.Float64bits(x)) + int64(j)
	if b < 1 || b >= 0x7ff<<52 {
		return 0, false
	}
	return math.Float64frombits(uint64(b)), true
}

type d4opts struct {
	ulps    int   // neighbourhood radius
	exhK    int   // all s with <= exhK digits
	expLo   int   // decimal exponents of the halfway points
	expHi   int   // inclusive
	expStep int   // stride for |e| beyond the dense window
	dense   int   // |e| <= dense: every exponent
	extra   []int // additional exponents
	few     bool  // fewer seed shapes per digit count
	noSeeds bool  // only the powers of ten and two
}

// halfwaySeeds returns the digit strings s for which (s + 1/2) * 10^e is used.
func halfwaySeeds(exhK int, few bool) []*big.Int {
	var res []*big.Int
	seen := map[string]bool{}
	add := func(v *big.Int) {
		if v.Sign() <= 0 {
			return
		}
		k := v.String()
		if !seen[k] {
			seen[k] = true
			res = append(res, new(big.Int).Set(v))
		}
	}
	lim := int64(1)
	for i := 0; i < exhK; i++ {
		lim *= 10
	}
	for s := int64(1); s < lim; s++ {
		add(big.NewInt(s))
	}
	inc := "1234567890123456789"
	dec := "9876543210987654321"
	for k := 1; k <= 17; k++ {
		p := nm.Pow10(k - 1)
		add(p)                                                                   // 100…0
		add(new(big.Int).Add(p, big.NewInt(1)))                                  // 100…1
		add(new(big.Int).Sub(nm.Pow10(k), big.NewInt(1)))                        // 999…9
		add(new(big.Int).Sub(nm.Pow10(k), big.NewInt(2)))                        // 999…8
		f := new(big.Int).Mul(p, big.NewInt(5))                                  // 500…0
		add(f)                                                                   //
		add(new(big.Int).Sub(f, big.NewInt(1)))                                  // 499…9
		add(new(big.Int).Sub(new(big.Int).Mul(p, big.NewInt(2)), big.NewInt(1))) // 199…9
		a, _ := new(big.Int).SetString(inc[:k], 10)
		add(a)
		a, _ = new(big.Int).SetString(dec[:k], 10)
		add(a)
	}
	return res
}

func buildD4(o d4opts) []float64 {
	seen := map[uint64]bool{}
	var res []float64
	add := func(x float64) {
		if x == 0 || math.IsInf(x, 0) || math.IsNaN(x) {
			return
		}
		for j := -o.ulps; j <= o.ulps; j++ {
			y, ok := nbr(x, j)
			if !ok {
				continue
			}
			b := math.Float64bits(y)
			if seen[b] || isBinary16(y) {
				continue
			}
			seen[b] = true
			res = append(res, y)
		}
	}
	one := big.NewInt(1)
	// powers of ten 10^-324 … 10^308 (as nearest doubles)
	for k := -324; k <= 308; k++ {
		add(nm.RoundDecimal(one, k))
	}
	// powers of two (includes the 2^53 boundary)
	for k := -1074; k <= 1023; k++ {
		add(math.Ldexp(1, k))
	}
	add(math.MaxFloat64)
	add(1e21)
	add(1e-6)
	add(1e-7)
	// (s + 1/2) * 10^e  ==  (2s+1)*5 * 10^(e-1)
	var exps []int
	for e := o.expLo; e <= o.expHi; e++ {
		if e >= -o.dense && e <= o.dense || (o.expStep > 0 && e%o.expStep == 0) {
			exps = append(exps, e)
		}
	}
	exps = append(exps, o.extra...)
	if o.noSeeds {
		return res
	}
	for _, s := range halfwaySeeds(o.exhK, o.few) {
		d := new(big.Int).Lsh(s, 1)
		d.Add(d, one)
		d.Mul(d, big.NewInt(5))
		for _, e := range exps {
			add(nm.RoundDecimal(d, e-1))
		}
	}
	return res
}
