package c12

import (
	"fmt"
	"math"
	"math/big"
	"reflect"
	"strconv"
	"strings"

	"github.com/dop251/goja"

	nm "verif/ref/nummodel12"
)

// route bits of parseOne
const (
	rNumber = 1 << iota
	rPlus
	rParseFloat
	rParseInt // parseInt(s) and parseInt(s, 10)
	rJSON
	rLiteral
)

func isDigit(c byte) bool { return c >= '0' && c <= '9' }

// decimalShape reports whether the whole of s is [sign] (digits [. [digits]] | . digits) [e [sign] digits] and
// returns the pieces.
func decimalShape(s string) (ok bool, sign, ip, fp string, hasPoint, hasExp bool) {
	i := 0
	if i < len(s) && (s[i] == '+' || s[i] == '-') {
		sign = s[:1]
		i++
	}
	st := i
	for i < len(s) && isDigit(s[i]) {
		i++
	}
	ip = s[st:i]
	if i < len(s) && s[i] == '.' {
		hasPoint = true
		i++
		st = i
		for i < len(s) && isDigit(s[i]) {
			i++
		}
		fp = s[st:i]
	}
	if ip == "" && fp == "" {
		return
	}
	if i < len(s) && (s[i] == 'e' || s[i] == 'E') {
		hasExp = true
		i++
		if i < len(s) && (s[i] == '+' || s[i] == '-') {
			i++
		}
		st = i
		for i < len(s) && isDigit(s[i]) {
			i++
		}
		if i == st {
			return
		}
	}
	ok = i == len(s)
	return
}

// literalOK: s (after an optional sign, which becomes a unary operator) is an ECMAScript DecimalLiteral that is
// not a legacy octal-like form.
func literalOK(s string) bool {
	ok, _, ip, _, _, _ := decimalShape(s)
	if !ok {
		return false
	}
	return len(ip) <= 1 || ip[0] != '0'
}

// jsonOK: s is a JSON number.
func jsonOK(s string) bool {
	ok, sign, ip, fp, hasPoint, _ := decimalShape(s)
	if !ok || sign == "+" || ip == "" || (hasPoint && fp == "") {
		return false
	}
	return len(ip) == 1 || ip[0] != '0'
}

func ulpDist(a, b float64) uint64 {
	key := func(f float64) int64 {
		u := math.Float64bits(f)
		if u>>63 != 0 {
			return -int64(u &^ (1 << 63))
		}
		return int64(u)
	}
	d := key(a) - key(b)
	if d < 0 {
		d = -d
	}
	return uint64(d)
}

func parseClass(got float64, note string, want float64) string {
	switch {
	case note != "":
		if strings.HasPrefix(note, "panic:") {
			if i := strings.IndexByte(note, ' '); i > 0 {
				return note[:i]
			}
		}
		if strings.HasPrefix(note, "nonnumber:") {
			return "nonnumber"
		}
		return note
	case sameNum(got, want):
		return ""
	case math.IsNaN(got):
		return "NaN-for-valid-input"
	case math.IsNaN(want):
		return "number-for-invalid-input"
	case got == 0 && want == 0:
		return "zero-sign"
	case math.IsInf(got, 0) != math.IsInf(want, 0):
		return "overflow-boundary"
	case math.Signbit(got) != math.Signbit(want):
		return "sign"
	}
	return "not-nearest"
}

func sigDigits(s string) int {
	n := 0
	lead := true
	for _, c := range []byte(s) {
		if c == 'e' || c == 'E' {
			break
		}
		if isDigit(c) {
			if c == '0' && lead {
				continue
			}
			lead = false
			n++
		}
	}
	return n
}

func lenBucket(s string) string {
	switch n := sigDigits(s); {
	case n <= 19:
		return "<=19digits"
	case n <= 800:
		return "20-800digits"
	}
	return ">800digits"
}

func (e *env) parseFail(route, s string, got float64, note string, want float64, out *[]fail) {
	cls := parseClass(got, note, want)
	if cls == "" {
		return
	}
	g := note
	if g == "" {
		g = numStr(got)
	}
	sigRoute := route
	switch route {
	case "+string":
		sigRoute = "Number(string)" // the same ToNumber
	case "parseInt(s)", "parseInt(s,10)":
		sigRoute = "parseInt"
	}
	*out = append(*out, fail{sigRoute + "|" + cls + "|" + lenBucket(s), fmt.Sprintf("%s of %q gives %s, expected %s", route, clip(s), g, numStr(want)),
		Case{Kind: "parse", Route: route, Str: s, Got: g, Want: numStr(want)}})
}

// parseOne pushes one text through the selected string->number routes.
func (e *env) parseOne(s string, routes int, out *[]fail) (evals int) {
	sv := e.vm.ToValue(s)
	var wantNum float64
	if routes&(rNumber|rPlus|rJSON) != 0 {
		wantNum = nm.ToNumberDecimal(s)
	}
	if routes&rNumber != 0 {
		got, note := e.callN(e.num, sv)
		e.parseFail("Number(string)", s, got, note, wantNum, out)
		evals++
	}
	if routes&rPlus != 0 {
		got, note := e.callN(e.plus, sv)
		e.parseFail("+string", s, got, note, wantNum, out)
		evals++
	}
	if routes&rParseFloat != 0 {
		got, note := e.callN(e.pf, sv)
		e.parseFail("parseFloat", s, got, note, nm.ParseFloat(s), out)
		evals++
	}
	if routes&rParseInt != 0 {
		w := nm.ParseInt(s, 0)
		got, note := e.callN(e.pi1, sv)
		e.parseFail("parseInt(s)", s, got, note, w, out)
		got, note = e.callN(e.pi, sv, e.vm.ToValue(10))
		e.parseFail("parseInt(s,10)", s, got, note, nm.ParseInt(s, 10), out)
		evals += 2
	}
	if routes&rJSON != 0 && jsonOK(s) && !math.IsInf(wantNum, 0) {
		got, note := e.callN(e.js, sv)
		e.parseFail("JSON.parse", s, got, note, wantNum, out)
		evals++
	}
	return
}

// literals evaluates the texts (each literalOK) as numeric literals of one array-literal program.
func (e *env) literals(ss []string, out *[]fail) (evals int) {
	if len(ss) == 0 {
		return 0
	}
	vals, note := e.runLiterals(ss)
	if note != "" {
		if len(ss) == 1 {
			e.parseFail("literal", ss[0], 0, note, nm.ToNumberDecimal(ss[0]), out)
			return 1
		}
		for _, s := range ss {
			evals += e.literals([]string{s}, out)
		}
		return
	}
	for i, s := range ss {
		e.parseFail("literal", s, vals[i], "", nm.ToNumberDecimal(s), out)
	}
	return len(ss)
}

func (e *env) runLiterals(ss []string) (vals []float64, note string) {
	defer func() {
		if x := recover(); x != nil {
			note = "panic:" + firstLine(fmt.Sprint(x))
			e.reset()
		}
	}()
	// a space after each literal so that "5." "," does not change meaning and "- -" never forms "--"
	src := "[" + strings.Join(ss, " , ") + " ]"
	v, err := e.vm.RunString(src)
	if err != nil {
		if _, ok := err.(*goja.Exception); ok {
			return nil, "throw:" + errName(err)
		}
		return nil, "throw:SyntaxError"
	}
	o := v.ToObject(e.vm)
	vals = make([]float64, len(ss))
	for i := range ss {
		el := o.Get(strconv.Itoa(i))
		if el == nil {
			return nil, "nonnumber:hole"
		}
		k := el.ExportType()
		if k == nil || (k.Kind() != reflect.Int64 && k.Kind() != reflect.Float64) {
			return nil, "nonnumber:" + el.String()
		}
		vals[i] = el.ToFloat()
	}
	return vals, ""
}

// ---------------------------------------------------------------------------------------------
// strings derived from one double

type xstr struct {
	s    string
	want float64 // expected by construction (NaN = no expectation by construction)
}

func pad(d string, l int, last byte) string {
	if l <= len(d) {
		return d
	}
	b := make([]byte, l)
	copy(b, d)
	for i := len(d); i < l; i++ {
		b[i] = '0'
	}
	if last != 0 {
		b[l-1] = last
	}
	return string(b)
}

func decrLast(d string, l int) string { // d without its last unit, then 9s up to length l
	b := []byte(d)
	b[len(b)-1]-- // the last digit of a trimmed expansion is non-zero
	for len(b) < l {
		b = append(b, '9')
	}
	return string(b)
}

// derived lists the decimal texts built from positive finite x: truncations and extensions of its exact
// expansion and the halfway texts above and below it. want is the expectation by construction where one is
// certain (it only cross-checks the reference model, which is the oracle): a perturbation by one unit in digit
// position l is certainly below half an ulp only when l >= 20.
func derived(x float64, lens []int, ext []int) []xstr {
	var res []xstr
	nan := math.NaN()
	ed := nm.ExactDecimal(x)
	k := len(ed.Digits)
	emit := func(digits string, n int, want float64) {
		d := nm.Dec{Digits: digits, N: n}
		res = append(res, xstr{d.Scientific(), want})
		if n > -25 && n < 40 {
			res = append(res, xstr{d.Positional(), want})
		}
	}
	sure := func(l int, want float64) float64 {
		if l < 20 {
			return nan
		}
		return want
	}
	for _, l := range lens {
		if l < k {
			emit(ed.Digits[:l], ed.N, nan)
		}
	}
	emit(ed.Digits, ed.N, x)
	for _, l := range ext {
		if l > k {
			emit(pad(ed.Digits, l, 0), ed.N, x)
			emit(pad(ed.Digits, l, '1'), ed.N, sure(l, x))
		}
	}
	halfway := func(lo float64) { // texts around the midpoint of lo and its successor
		hi := math.Nextafter(lo, math.Inf(1))
		if math.IsInf(hi, 0) {
			return
		}
		mp := nm.Midpoint(lo)
		even := lo
		if math.Float64bits(lo)&1 == 1 {
			even = hi
		}
		emit(mp.Digits, mp.N, even)
		km := len(mp.Digits)
		for _, l := range append([]int{km + 1}, ext...) {
			if l > km {
				emit(pad(mp.Digits, l, 0), mp.N, even)
				emit(pad(mp.Digits, l, '1'), mp.N, sure(l, hi))
				emit(decrLast(mp.Digits, l), mp.N, sure(l, lo))
			}
		}
	}
	halfway(x)
	if lo := math.Nextafter(x, 0); lo > 0 {
		halfway(lo)
	} else {
		// x is the smallest subnormal: the midpoint of 0 and x is x/2 = digits*5 / 10
		h := new(big.Int)
		h.SetString(ed.Digits, 10)
		h.Mul(h, big.NewInt(5))
		hs := h.String()
		hn := ed.N - k - 1 + len(hs)
		hs = strings.TrimRight(hs, "0")
		emit(hs, hn, 0)
		emit(hs+"1", hn, x)
		emit(decrLast(hs, len(hs)+1), hn, 0)
	}
	return res
}
