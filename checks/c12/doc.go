// Package c12 holds the check for property C12.
package c12
