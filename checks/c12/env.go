package c12

import (
	"fmt"
	"math"
	"reflect"
	"strings"
	"sync/atomic"

	"github.com/dop251/goja"

	nm "verif/ref/nummodel12"
)

// env is the per-worker runtime with the script-level front ends of every conversion.
type env struct {
	vm                                 *goja.Runtime
	str, fix, exp, expu, prec, rad, rt goja.Callable
	num, plus, pf, pi, pi1, js         goja.Callable
	fixAll, expAll, precAll, radAll    goja.Callable
	child                              *child
	isChild                            bool
	hangs                              int           // requests the child gave up on so far
	busySince                          atomic.Int64  // start of the conversion in progress (unix ns), 0 = idle
	busyX                              atomic.Uint64 // its x
	model                              nm.Num        // model of the x being worked on
	ver                                nm.Verifier
	generate                           bool // also compare shortest digits with the generative model (D1, D4)
}

// reset replaces the runtime after a Go panic escaped from it.
func (e *env) reset() {
	n := newEnv()
	e.vm = n.vm
	e.str, e.fix, e.exp, e.expu, e.prec, e.rad, e.rt = n.str, n.fix, n.exp, n.expu, n.prec, n.rad, n.rt
	e.num, e.plus, e.pf, e.pi, e.pi1, e.js = n.num, n.plus, n.pf, n.pi, n.pi1, n.js
	e.fixAll, e.expAll, e.precAll, e.radAll = n.fixAll, n.expAll, n.precAll, n.radAll
}

const envSrc = `({
 str:  function(x){ return String(x) },
 fix:  function(x,n){ return x.toFixed(n) },
 exp:  function(x,n){ return x.toExponential(n) },
 expu: function(x){ return x.toExponential() },
 prec: function(x,n){ return x.toPrecision(n) },
 rad:  function(x,r){ return x.toString(r) },
 rt:   function(x){ return Number(String(x)) },
 num:  function(s){ return Number(s) },
 plus: function(s){ return +s },
 pf:   function(s){ return parseFloat(s) },
 pi:   function(s,r){ return parseInt(s,r) },
 pi1:  function(s){ return parseInt(s) },
 js:   function(s){ return JSON.parse(s) },
 fixAll:  function(x){ var r=[]; for (var n=0;n<=100;n++) r.push(x.toFixed(n)); return r.join("|") },
 expAll:  function(x){ var r=[]; for (var n=0;n<=100;n++) r.push(x.toExponential(n)); return r.join("|") },
 precAll: function(x){ var r=[]; for (var n=1;n<=100;n++) r.push(x.toPrecision(n)); return r.join("|") },
 radAll:  function(x){ var r=[]; for (var n=2;n<=36;n++) r.push(x.toString(n)); return r.join("|") }
})`

var envPrg = goja.MustCompile("c12env.js", envSrc, false)

func newEnv() *env {
	e := &env{vm: goja.New()}
	v, err := e.vm.RunProgram(envPrg)
	if err != nil {
		panic(err)
	}
	o := v.ToObject(e.vm)
	get := func(name string) goja.Callable {
		f, ok := goja.AssertFunction(o.Get(name))
		if !ok {
			panic("c12: no function " + name)
		}
		return f
	}
	e.str, e.fix, e.exp, e.expu, e.prec = get("str"), get("fix"), get("exp"), get("expu"), get("prec")
	e.rad, e.rt = get("rad"), get("rt")
	e.num, e.plus, e.pf, e.pi, e.pi1, e.js = get("num"), get("plus"), get("pf"), get("pi"), get("pi1"), get("js")
	e.fixAll, e.expAll, e.precAll, e.radAll = get("fixAll"), get("expAll"), get("precAll"), get("radAll")
	return e
}

// batch runs one op for every permitted argument inside one script call (the per-argument script calls are
// the same code; this only saves host<->script transitions). ok=false if the batch did not complete normally.
func (e *env) batch(op string, x float64) (res []string, first int, ok bool) {
	var f goja.Callable
	var n int
	switch op {
	case opFixed:
		f, first, n = e.fixAll, 0, 101
	case opExp:
		f, first, n = e.expAll, 0, 101
	case opPrec:
		f, first, n = e.precAll, 1, 100
	case opRadix:
		f, first, n = e.radAll, 2, 35
	default:
		return nil, 0, false
	}
	s := e.callS(f, e.vm.ToValue(x))
	if strings.HasPrefix(s, "throw:") || strings.HasPrefix(s, "panic:") || strings.HasPrefix(s, "nonstring:") {
		return nil, 0, false
	}
	res = strings.Split(s, "|")
	return res, first, len(res) == n
}

// callS calls f and renders the outcome: the string result, or "throw:<Name>" / "panic:<text>".
func (e *env) callS(f goja.Callable, args ...goja.Value) (res string) {
	defer func() {
		if x := recover(); x != nil {
			res = "panic:" + firstLine(fmt.Sprint(x))
			e.reset()
		}
	}()
	v, err := f(goja.Undefined(), args...)
	if err != nil {
		return "throw:" + errName(err)
	}
	if _, ok := v.(goja.String); !ok {
		return "nonstring:" + v.String()
	}
	return v.String()
}

// callN calls f and returns the numeric result; note is non-empty if the call threw / panicked / returned a non-number.
func (e *env) callN(f goja.Callable, args ...goja.Value) (res float64, note string) {
	defer func() {
		if x := recover(); x != nil {
			note = "panic:" + firstLine(fmt.Sprint(x))
			e.reset()
		}
	}()
	v, err := f(goja.Undefined(), args...)
	if err != nil {
		return 0, "throw:" + errName(err)
	}
	if k := v.ExportType(); k != nil && (k.Kind() == reflect.Int64 || k.Kind() == reflect.Float64) {
		return v.ToFloat(), ""
	}
	return 0, "nonnumber:" + v.String()
}

func errName(err error) string {
	if ex, ok := err.(*goja.Exception); ok {
		if o, ok := ex.Value().(*goja.Object); ok {
			if n := o.Get("name"); n != nil {
				return n.String()
			}
		}
		return "value"
	}
	return fmt.Sprintf("%T", err)
}

func firstLine(s string) string {
	if i := strings.IndexByte(s, '\n'); i >= 0 {
		s = s[:i]
	}
	if len(s) > 200 {
		s = s[:200]
	}
	return s
}

func bitsHex(x float64) string { return fmt.Sprintf("%016x", math.Float64bits(x)) }

func sameNum(a, b float64) bool {
	if math.IsNaN(a) || math.IsNaN(b) {
		return math.IsNaN(a) && math.IsNaN(b)
	}
	return math.Float64bits(a) == math.Float64bits(b)
}

func numStr(x float64) string {
	if math.IsNaN(x) {
		return "NaN"
	}
	if x == 0 && math.Signbit(x) {
		return "-0"
	}
	return fmt.Sprintf("%v(bits %016x)", x, math.Float64bits(x))
}
