package c12

import (
	"fmt"
	"math"
	"math/big"
	"strings"

	nm "verif/ref/nummodel12"
)

func radixBucket(r int) string {
	switch r {
	case 0, 10:
		return "radix=10"
	case 2, 4, 8, 16, 32:
		return "radix=2^k"
	}
	return "radix=other"
}

func intDigitsOf(s string, radix int) string {
	if s != "" && (s[0] == '+' || s[0] == '-') {
		s = s[1:]
	}
	if (radix == 0 || radix == 16) && len(s) >= 2 && s[0] == '0' && (s[1] == 'x' || s[1] == 'X') {
		s = s[2:]
	}
	return s
}

// parseIntOne evaluates parseInt(s, radix) (radix 0 = omitted).
func (e *env) parseIntOne(s string, radix int, out *[]fail) {
	var got float64
	var note string
	if radix == 0 {
		got, note = e.callN(e.pi1, e.vm.ToValue(s))
	} else {
		got, note = e.callN(e.pi, e.vm.ToValue(s), e.vm.ToValue(radix))
	}
	want := nm.ParseInt(s, radix)
	cls := parseClass(got, note, want)
	if cls == "" {
		return
	}
	mag := "<2^63"
	if math.Abs(want) >= 1<<63 {
		mag = ">=2^63"
	}
	lat := ""
	eff := radix // effective radix
	if t := strings.TrimLeft(s, "+-"); (radix == 0 || radix == 16) && len(t) >= 2 && t[0] == '0' && (t[1] == 'x' || t[1] == 'X') {
		eff = 16
	}
	if rb := radixBucket(eff); rb == "radix=10" {
		// ECMA-262 lets an implementation replace every digit after the 20th by 0 for radix 10
		d := strings.TrimLeft(intDigitsOf(s, radix), "0")
		if len(d) > 20 && note == "" {
			alt := nm.ParseInt(d[:20]+zeros(len(d)-20), 10)
			if math.Signbit(want) {
				alt = -alt
			}
			if sameNum(got, alt) {
				lat = "|equals-20-digit-truncation(spec-permitted)"
			} else {
				lat = "|also-not-the-20-digit-truncation"
			}
		}
	} else if rb == "radix=other" {
		lat = "|spec-permits-approximation-for-this-radix"
	}
	g := note
	if g == "" {
		g = numStr(got)
	}
	*out = append(*out, fail{"parseInt|" + cls + "|" + radixBucket(eff) + "|" + mag + lat,
		fmt.Sprintf("parseInt(%q, %d) gives %s, the double nearest to the exact integer is %s", clip(s), radix, g, numStr(want)),
		Case{Kind: "parseInt", Str: s, Arg: radix, Got: g, Want: numStr(want)}})
}

// literalN evaluates a 0x / 0o / 0b integer literal.
func (e *env) literalN(s string, out *[]fail) {
	base := map[byte]int{'x': 16, 'X': 16, 'o': 8, 'O': 8, 'b': 2, 'B': 2}[s[1]]
	I, ok := new(big.Int).SetString(strings.ReplaceAll(s[2:], "_", ""), base)
	if !ok {
		panic("c12: bad literalN " + s)
	}
	want := nm.RoundRat(I, big.NewInt(1))
	vals, note := e.runLiterals([]string{s})
	var got float64
	if note == "" {
		got = vals[0]
	}
	cls := parseClass(got, note, want)
	if cls == "" {
		return
	}
	mag := "<2^63"
	if want >= 1<<63 {
		mag = ">=2^63"
	}
	g := note
	if g == "" {
		g = numStr(got)
	}
	*out = append(*out, fail{"literal-0" + strings.ToLower(s[1:2]) + "|" + cls + "|" + mag,
		fmt.Sprintf("the numeric literal %s evaluates to %s, the double nearest to the exact integer is %s", clip(s), g, numStr(want)),
		Case{Kind: "literalN", Str: s, Got: g, Want: numStr(want)}})
}

// intSeeds: the integers whose radix texts are enumerated: for every integral double x >= 2^52 of the given
// list x itself and, above 2^53, the integer halfway to the next double and its two neighbours.
func intTexts(x float64) []*big.Int {
	m, ex := nm.Decompose(x)
	I := new(big.Int).SetUint64(m)
	I.Lsh(I, uint(ex))
	res := []*big.Int{I}
	if ex >= 1 && x < math.MaxFloat64 {
		h := new(big.Int).Lsh(big.NewInt(1), uint(ex-1))
		M := new(big.Int).Add(I, h)
		res = append(res, M, new(big.Int).Add(M, big.NewInt(1)), new(big.Int).Sub(M, big.NewInt(1)))
	}
	return res
}

func (rn *runner) parseIntPhase(d4 []float64) bool {
	r := rn.r
	// (a) small integers: every binary16 integer part, every radix
	ok := r.Parallel(1<<15, 256, func(w int, lo, hi int64) {
		e := rn.env(w)
		var fs []fail
		var evals int64
		for h := lo; h < hi; h++ {
			x := half(uint16(h))
			if math.IsInf(x, 0) || math.IsNaN(x) || x < 1 {
				continue
			}
			I := new(big.Int).SetUint64(uint64(x))
			for radix := 2; radix <= 36; radix++ {
				s := I.Text(radix)
				if x != math.Trunc(x) {
					s += ".1"
				}
				e.parseIntOne(s, radix, &fs)
				e.parseIntOne("-"+s, radix, &fs)
				evals += 2
			}
		}
		r.Eval(evals)
		rn.report(fs)
	})
	if !ok {
		return false
	}
	rn.setBound("parseInt_small", "integer part of every binary16 value >= 1, radix 2..36, both signs")
	// (b) large integers
	var big_ []float64
	lim := math.Inf(1)
	if r.Quick() {
		lim = math.Ldexp(1, 300)
	}
	for _, x := range d4 {
		if x >= 1<<52 && x < lim {
			big_ = append(big_, x)
		}
	}
	ok = r.Parallel(int64(len(big_)), 8, func(w int, lo, hi int64) {
		e := rn.env(w)
		var fs []fail
		var evals, nt int64
		for i := lo; i < hi; i++ {
			for _, I := range intTexts(big_[i]) {
				for radix := 2; radix <= 36; radix++ {
					s := I.Text(radix)
					e.parseIntOne(s, radix, &fs)
					evals++
					nt++
					switch radix {
					case 10:
						e.parseIntOne(s, 0, &fs)
						e.parseIntOne("-"+s, 10, &fs)
						evals += 2
					case 16:
						e.parseIntOne("0x"+s, 16, &fs)
						e.parseIntOne("0X"+strings.ToUpper(s), 0, &fs)
						e.literalN("0x"+s, &fs)
						evals += 3
					case 8:
						e.literalN("0o"+s, &fs)
						evals++
					case 2:
						e.literalN("0b"+s, &fs)
						evals++
					case 36:
						e.parseIntOne(strings.ToUpper(s), 36, &fs)
						evals++
					}
				}
			}
			if r.WantSample(i) {
				rn.sample(map[string]interface{}{"domain": "parseInt/large", "x": nm.ToString(big_[i]), "texts": "x, x+ulp/2, x+ulp/2+-1 in radix 2..36"})
			}
		}
		r.Eval(evals)
		r.NontrivialN(nt)
		rn.report(fs)
	})
	if !ok {
		return false
	}
	rn.setBound("parseInt_large", fmt.Sprintf("%d integral doubles of D4 in [2^52, %g): x, the halfway integer above it and its two neighbours, radix 2..36 (+ 0x/0o/0b literals)", len(big_), lim))
	// (c) repdigit and 10…01 strings of every length
	maxLen := r.Pick(80, 400)
	ok = r.Parallel(int64(maxLen)*35, 16, func(w int, lo, hi int64) {
		e := rn.env(w)
		var fs []fail
		for i := lo; i < hi; i++ {
			l := int(i/35) + 1
			radix := int(i%35) + 2
			top := nm.ParseRadixDigit(radix - 1)
			e.parseIntOne(strings.Repeat(top, l), radix, &fs)
			e.parseIntOne("1"+zeros(l)+"1", radix, &fs)
			e.parseIntOne(strings.Repeat("1", l), radix, &fs)
		}
		r.Eval((hi - lo) * 3)
		r.NontrivialN((hi - lo) * 3)
		rn.report(fs)
	})
	if ok {
		rn.setBound("parseInt_patterns", fmt.Sprintf("(r-1)…(r-1), 10…01, 1…1 of length 1..%d, radix 2..36", maxLen))
	}
	return ok
}
