package c12

// corpus holds the minimal failing inputs of the known findings; it runs first in every tier so that each
// listed finding is reached deterministically.
var corpus = []Case{}
