package c12

import (
	"math"
)

// corpus holds minimal failing inputs of the known findings (findings.d/C12.jsonl); it runs first in every
// tier so that each listed finding is reached deterministically even if a later phase is cut by the deadline.
// Each entry is replayed through replayCase, i.e. evaluated on all routes and judged by the same oracle as
// the enumerated cases; an entry that passes simply reports nothing.
var corpus = []Case{
	// carry out of the leading digit is written into the sign byte (fast/dtoa.go roundWeedCounted)
	{Kind: "format", Bits: "c023333333333333", X: "-9.6", Op: opPrec, Arg: 1},
	{Kind: "format", Bits: "c023333333333333", X: "-9.6", Op: opExp, Arg: 0},
	// negative fraction with zero integer part loses its sign (ftobasestr.go)
	{Kind: "format", Bits: "bfe0000000000000", X: "-0.5", Op: opRadix, Arg: 2},
	{Kind: "format", Bits: "bfe0000000000000", X: "-0.5", Op: opRadix, Arg: 3},
	// subnormals: wrong magnitude estimate in ftoa() (all subnormals) ...
	{Kind: "format", Bits: "000fffffffffffff", X: "2.225073858507201e-308", Op: opPrec, Arg: 20},
	{Kind: "format", Bits: "000fffffffffffff", X: "2.225073858507201e-308", Op: opExp, Arg: 19},
	{Kind: "format", Bits: "00092fffffffffff", X: "1.2776791296896816e-308", Op: opString},
	{Kind: "format", Bits: "00092fffffffffff", X: "1.2776791296896816e-308", Op: opExpU},
	{Kind: "format", Bits: "00092fffffffffff", X: "1.2776791296896816e-308", Op: opRadix, Arg: 10},
	{Kind: "format", Bits: "00092fffffffffff", X: "1.2776791296896816e-308", Op: opRoundTrip},
	// ... and wrong bit count in d2b() for subnormals below 2^-1042: garbage digits, absurd exponents, runaway
	{Kind: "format", Bits: "0000000000000003", X: "1.5e-323", Op: opExp, Arg: 18},
	{Kind: "format", Bits: "0000000000000003", X: "1.5e-323", Op: opPrec, Arg: 19},
	{Kind: "format", Bits: "00000000eb400f23", X: "1.95e-314", Op: opExp, Arg: 19},
	{Kind: "format", Bits: "0000000078a42203", X: "9.99999999e-315", Op: opFixed, Arg: 0},
	// parseInt accumulates in float64 beyond int64
	{Kind: "parseInt", Str: "18446744073709553665", Arg: 10},           // 2^64+2049, 20 digits
	{Kind: "parseInt", Str: "123456789012345678901234567890", Arg: 10}, // DESIGN.md Appendix A
	{Kind: "parseInt", Str: "1000000000000000196608", Arg: 10},         // equals the 20-digit truncation
	{Kind: "parseInt", Str: "1000000000000000000000000000000000000000000000000000010000000000100000", Arg: 2},
	{Kind: "parseInt", Str: "100010202110111202020110202012022202010121001", Arg: 3},
	// -0
	{Kind: "parse", Str: "-0", Route: "parseInt(s)"},
	{Kind: "parse", Str: "-00", Route: "Number(string)"},
	// integer literals of other bases beyond int64
	{Kind: "literalN", Str: "0x8000000000000401"},
	{Kind: "literalN", Str: "0b10000000000000000000000000000000000000000000000000000000000000000"},
	{Kind: "literalN", Str: "0o2000000000000000000000"},
}

// The float64 accumulation of parseInt also overflows to +Infinity for integers just below the largest double:
// the radix-3 texts of (max double - 1 ulp), of the halfway integer above it and of its neighbours.
func init() {
	x := math.Float64frombits(0x7feffffffffffffe)
	for _, I := range intTexts(x) {
		corpus = append(corpus, Case{Kind: "parseInt", Str: I.Text(3), Arg: 3})
	}
}
