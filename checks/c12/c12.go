// Package c12 decides C12 (Number <-> string conversions are exact) by exhaustive enumeration of
// structured finite domains of doubles and of decimal / radix texts, each evaluated through the ftoa
// package directly and through the script-level front ends of a real runtime, against the math/big
// reference model verif/ref/nummodel12.
package c12

import (
	"encoding/json"
	"fmt"
	"math"
	"math/bits"
	"os"
	"runtime/debug"
	"runtime/pprof"
	"strconv"
	"strings"
	"sync"
	"sync/atomic"
	"time"

	"verif/core"

	nm "verif/ref/nummodel12"
)

func init() {
	core.Register(&core.Check{
		ID:    "C12",
		Level: "exploration",
		Rule: "exhaustive enumeration (no sampling) of structured finite domains: D1 all 65536 binary16 values widened; D4 +-u ulp neighbourhoods of every 10^k, 2^k (incl. 2^53), max double and of the doubles nearest to (s+1/2)*10^e for structured 1..17-digit s; " +
			"D2 every biased exponent x {b-bit prefix|suffix with 0/1 fill} mantissas; D3 (thorough) binary32 values widened, by index range. D1 u D4: String, toExponential(), toFixed(0..100), toExponential(0..100), toPrecision(1..100), toString(2..36) via ftoa.* and via the runtime, " +
			"Number(String(x)); D2/D3: shortest digits. Texts: every string over [0-9.eE+-] up to a length, every string over [0159.e+-] up to a larger length, and for every x of D1 u D4 its exact expansion truncated/extended and the halfway texts on both sides, " +
			"through Number, unary +, parseFloat, parseInt, JSON.parse, numeric literals; integers of every radix 2..36 through parseInt. Oracle: math/big model. " +
			"A case (x,op,arg) is counted non-trivial when digits must be dropped or generated (a rounding / shortest-digits decision is made), a text case when it is a syntactically valid number whose value is not decided by syntax alone (it has a non-zero digit); " +
			"cases are distinct by construction (domains are de-duplicated against each other, D1 > D4 > D2 > D3).",
		Run:    run,
		Replay: replay,
	})
}

type runner struct {
	r        *core.Run
	envs     []*env
	sigSeen  sync.Map // signature -> *int64 (confirmed reports so far)
	bounds   map[string]interface{}
	bmu      sync.Mutex
	sampleN  atomic.Int64
	unstable atomic.Int64
}

func (rn *runner) env(w int) *env {
	if rn.envs[w] == nil {
		rn.envs[w] = newEnv()
	}
	return rn.envs[w]
}

func (rn *runner) setBound(k string, v interface{}) {
	rn.bmu.Lock()
	rn.bounds[k] = v
	cp := map[string]interface{}{}
	for k, v := range rn.bounds {
		cp[k] = v
	}
	rn.bmu.Unlock()
	rn.r.Set("bounds_completed", cp)
}

// report records failures; the first case of every signature that is not a listed finding is first re-run 5
// times on fresh runtimes (and a fresh child process) and must fail the same way each time.
func (rn *runner) report(fs []fail) {
	for _, f := range fs {
		p, _ := rn.sigSeen.LoadOrStore(f.sig, new(int64))
		cnt := p.(*int64)
		if atomic.AddInt64(cnt, 1) == 1 && !rn.r.IsKnown(f.sig) {
			stable := true
			for i := 0; i < 5 && stable; i++ {
				fresh := newEnv()
				again := replayCase(fresh, f.c)
				fresh.close()
				stable = false
				for _, g := range again {
					if g.sig == f.sig {
						stable = true
					}
				}
			}
			if !stable {
				rn.unstable.Add(1)
				rn.r.Violation("unstable|"+f.sig, "a failing case did not reproduce 5 times on fresh runtimes (nondeterminism): "+f.what, f.c)
				continue
			}
		}
		rn.r.Violation(f.sig, f.what, f.c)
	}
}

func (rn *runner) sample(v interface{}) {
	n := rn.sampleN.Add(1)
	if rn.r.WantSample(n) {
		rn.r.Sample(v)
	}
}

var fmtOps = func() (ops []struct {
	op  string
	arg int
}) {
	add := func(op string, a int) {
		ops = append(ops, struct {
			op  string
			arg int
		}{op, a})
	}
	add(opString, 0)
	add(opExpU, 0)
	for n := 0; n <= 100; n++ {
		add(opFixed, n)
	}
	for n := 0; n <= 100; n++ {
		add(opExp, n)
	}
	for n := 1; n <= 100; n++ {
		add(opPrec, n)
	}
	for r := 2; r <= 36; r++ {
		add(opRadix, r)
	}
	return
}()

// formatAll evaluates every op x arg for x on both routes. full=false (quick tier, negative half of D1 only)
// restricts the digit counts to a fixed subset; everything else is evaluated for every permitted argument.
func (rn *runner) formatAll(e *env, x float64, count bool, full bool, fs *[]fail) {
	r := rn.r
	var evals, nt int64
	e.generate = true
	defer func() { e.generate = false }()
	if e.model.X != x || math.Signbit(e.model.X) != math.Signbit(x) {
		e.model = nm.Of(x)
	}
	inChild := e.needsChild(x)
	if inChild {
		// subnormal x: everything is computed by the child process, pipelined
		var reqs []req
		for _, o := range fmtOps {
			if full || o.op == opRadix || subsetArgs[o.arg] {
				reqs = append(reqs, req{o.op, o.arg})
			}
		}
		reqs = append(reqs, req{opRoundTrip, 0})
		direct, viaRT, done := e.childMany(x, reqs, 3, 3)
		if done < len(reqs) {
			// this x keeps running away inside ftoa (reported); do not spend more of the budget on it
			r.Add("skipped_after_3_hangs_of_the_same_x", int64(len(reqs)-done))
		}
		for i, q := range reqs[:done] {
			routes := 3
			if q.op == opRoundTrip {
				routes = 2
			}
			n, nontriv, _ := judgeFormat(&e.ver, true, &e.model, q.op, q.arg, routes, direct[i], viaRT[i], fs)
			evals += int64(n)
			if nontriv {
				nt++
			}
		}
		r.Eval(evals)
		if count {
			r.NontrivialN(nt)
		}
		return
	}
	var batchOp string
	var batchRes []string
	var batchFirst int
	for _, o := range fmtOps {
		if !full && o.op != opRadix && !subsetArgs[o.arg] {
			continue
		}
		var n int
		var nontriv bool
		var outcome string
		if !full {
			n, nontriv, outcome = e.formatOne(x, o.op, o.arg, 3, fs)
		} else {
			// ftoa directly per case; the runtime route per op in one script call (falls back to single calls)
			if batchOp != o.op {
				batchOp = o.op
				var ok bool
				if batchRes, batchFirst, ok = e.batch(o.op, x); !ok {
					batchRes = nil
				}
			}
			if batchRes == nil {
				n, nontriv, outcome = e.formatOne(x, o.op, o.arg, 3, fs)
			} else {
				direct, _ := e.produce(x, o.op, o.arg, 1)
				n, nontriv, outcome = judgeFormat(&e.ver, true, &e.model, o.op, o.arg, 3, direct, batchRes[o.arg-batchFirst], fs)
			}
		}
		evals += int64(n)
		if nontriv {
			nt++
		}
		if o.op == opString || (o.arg%25 == 3 && o.op != opRadix) || (o.op == opRadix && o.arg == 7) {
			r.Outcome(o.op + outcome)
		}
	}
	finite := !math.IsNaN(x) && !math.IsInf(x, 0)
	if finite {
		e.roundTrip(x, fs)
		evals++
	}
	r.Eval(evals)
	if count {
		r.NontrivialN(nt)
	}
}

var subsetArgs = func() map[int]bool {
	m := map[int]bool{}
	for _, a := range []int{0, 1, 2, 3, 4, 5, 7, 10, 14, 15, 16, 17, 18, 20, 21, 22, 25, 50, 99, 100} {
		m[a] = true
	}
	return m
}()

func run(r *core.Run) {
	rn := &runner{r: r, envs: make([]*env, r.Workers), bounds: map[string]interface{}{}}
	debug.SetGCPercent(400) // the oracle allocates many short-lived big integers
	for i := range rn.envs {
		rn.envs[i] = newEnv()
	}
	r.Assume("the reference model verif/ref/nummodel12 (math/big integer arithmetic; validated by its own go test against strconv and big.Rat on structured domains) is the trusted base")
	r.Assume("binary32 / 2^64 domains are not enumerated completely: exhaustive over D1, D2, D4 and the completed part of D3 only (see bounds_completed)")
	r.Assume("negative values: sign handling is enumerated on D1 (all negative binary16 values); D2, D3, D4 are enumerated for positive values because ftoa strips the sign before generating digits")
	// last resort against a conversion of a normal number that never returns (native code cannot be interrupted;
	// subnormals are isolated in a child process, see child.go): report it and give up the whole run
	go func() {
		for {
			time.Sleep(5 * time.Second)
			for _, e := range rn.envs {
				if e == nil {
					continue
				}
				if t := e.busySince.Load(); t != 0 && time.Since(time.Unix(0, t)) > 5*time.Minute {
					fmt.Printf("VIOLATION property=C12 replay= signature=%q count=1 what=%q\n", "hang|in-process", fmt.Sprintf("a conversion of the double with bits %016x has not returned for 5 minutes", e.busyX.Load()))
					os.Exit(1)
				}
			}
		}
	}()
	complete := true
	if pf := os.Getenv("VERIF_C12_PROF"); pf != "" { // development aid
		if f, err := os.Create(pf); err == nil {
			pprof.StartCPUProfile(f)
			defer pprof.StopCPUProfile()
		}
	}
	only := os.Getenv("VERIF_C12_PHASES") // development aid: comma separated substrings of phase names
	phase := func(name string, f func() bool) {
		if only != "" {
			sel := false
			for _, p := range strings.Split(only, ",") {
				sel = sel || strings.Contains(name, p)
			}
			if !sel {
				complete = false
				return
			}
		}
		if r.Expired() {
			complete = false
			return
		}
		t0 := time.Now()
		ok := f()
		r.Set("phase_s_"+name, math.Round(time.Since(t0).Seconds()*10)/10)
		if !ok {
			complete = false
		}
	}

	// P0: regression corpus of the minimal failing inputs of the known findings (runs first, always completes)
	phase("corpus", func() bool {
		e := rn.env(0)
		var fs []fail
		for _, c := range corpus {
			fs = append(fs, replayCase(e, c)...)
			r.Eval(1)
		}
		rn.report(fs)
		rn.setBound("corpus", len(corpus))
		return true
	})

	// The phases run in two passes: first a small bound of every mechanism, then the large bounds. The small and
	// the large phase of a domain partition it (nothing is evaluated twice), so a run that is cut by the deadline
	// has still crossed every conversion route on a complete smaller domain.

	d1 := func(name, what string, sel func(h int64) bool) {
		phase(name, func() bool {
			ok := r.Parallel(1<<16, 16, func(w int, lo, hi int64) {
				e := rn.env(w)
				var fs []fail
				for h := lo; h < hi; h++ {
					if !sel(h) {
						continue
					}
					x := half(uint16(h))
					rn.formatAll(e, x, true, r.Thorough() || h < 1<<15, &fs)
					if r.WantSample(h) {
						rn.sample(map[string]interface{}{"domain": "D1", "binary16": fmt.Sprintf("%04x", h), "x": nm.ToString(x), "ops": "String,toExponential(),toFixed(0..100),toExponential(0..100),toPrecision(1..100),toString(2..36) via ftoa and runtime"})
					}
				}
				rn.report(fs)
			})
			if ok {
				ops := "337 (op,arg) x 2 routes"
				if r.Quick() {
					ops = "337 (op,arg) x 2 routes for the non-negative ones, (String, toExponential(), radix 2..36, digit counts {0,1,2,3,4,5,7,10,14..18,20,21,22,25,50,99,100}) x 2 routes for the negative ones"
				}
				rn.setBound(name, what+" x "+ops)
			}
			return ok
		})
	}
	d4 := buildD4(rn.d4opts())
	r.Set("D4_size", len(d4))
	centres := map[uint64]bool{}
	for _, x := range buildD4(d4opts{noSeeds: true}) {
		centres[math.Float64bits(x)] = true
	}
	d4phase := func(name, what string, sel func(x float64) bool) {
		phase(name, func() bool {
			var n atomic.Int64
			ok := r.Parallel(int64(len(d4)), 8, func(w int, lo, hi int64) {
				e := rn.env(w)
				var fs []fail
				for i := lo; i < hi; i++ {
					if !sel(d4[i]) {
						continue
					}
					n.Add(1)
					rn.formatAll(e, d4[i], true, true, &fs)
					if r.WantSample(i) {
						rn.sample(map[string]interface{}{"domain": "D4", "bits": bitsHex(d4[i]), "x": nm.ToString(d4[i])})
					}
				}
				rn.report(fs)
			})
			if ok {
				rn.setBound(name, fmt.Sprintf("%s: %d doubles x 337 (op,arg) x 2 routes", what, n.Load()))
			}
			return ok
		})
	}
	d4set := make(map[uint64]struct{}, len(d4))
	for _, x := range d4 {
		d4set[math.Float64bits(x)] = struct{}{}
	}
	prevW := 0
	d2 := func(b int) {
		pw := prevW
		phase(fmt.Sprintf("D2_shortest_b%d", b), func() bool {
			pats := d2Patterns(b)
			n := int64(len(pats)) * 2047
			ok := r.Parallel(n, 256, func(w int, lo, hi int64) {
				e := rn.env(w)
				var fs []fail
				var evals, nt int64
				for i := lo; i < hi; i++ {
					m := pats[i/2047]
					ex := uint64(i % 2047)
					if ex == 0 && m == 0 {
						continue
					}
					if pw > 0 && inD2(m, pw) {
						continue // done with the previous width
					}
					x := math.Float64frombits(ex<<52 | m)
					n1, _, _ := e.formatOne(x, opString, 0, 3, &fs)
					e.roundTrip(x, &fs)
					evals += int64(n1) + 1
					if _, dup := d4set[math.Float64bits(x)]; !dup && !isBinary16(x) {
						nt++
					}
				}
				r.Eval(evals)
				r.NontrivialN(nt)
				rn.report(fs)
			})
			if ok {
				rn.setBound("D2_shortest", fmt.Sprintf("all 2047 biased exponents x all %d-bit prefix/suffix patterns with 0/1 fill (%d mantissas)", b, len(pats)))
			}
			return ok
		})
		prevW = b
	}

	// ---- pass 1: small bounds
	phase("texts_full_alphabet_a", func() bool { return rn.texts("full", alphaFull, 1, 4) })
	d2(4)
	d1("D1a_format", "the 2048 binary16 values whose 5 low mantissa bits are zero (1-5-5 minifloat, both signs, incl. +-0, +-Inf)", func(h int64) bool { return h&31 == 0 })
	phase("parseInt_radix", func() bool { return rn.parseIntPhase(d4) })
	d4phase("D4a_format", "the doubles nearest to 10^k (k=-323..308) and equal to 2^k (k=-1074..1023), max double, 1e21, 1e-6, 1e-7", func(x float64) bool { return centres[math.Float64bits(x)] })
	// texts derived from x: from the 1-5-5 minifloat subset of D1 and the centres 10^k, 2^k (thorough: the rest in pass 2)
	derivedD1 := func(name, which string, sel func(h int64) bool) {
		phase(name, func() bool {
			ok := r.Parallel(1<<15, 32, func(w int, lo, hi int64) {
				for h := lo; h < hi; h++ {
					x := half(uint16(h))
					if sel(h) && x > 0 && !math.IsInf(x, 0) && !math.IsNaN(x) {
						rn.derivedFor(rn.env(w), x, h)
					}
				}
			})
			if ok {
				rn.setBound(name, fmt.Sprintf("%s; truncations %v, extensions %v, halfway texts on both sides", which, rn.lens(), rn.exts()))
			}
			return ok
		})
	}
	derivedD4 := func(name, which string, dd []float64) {
		phase(name, func() bool {
			ok := r.Parallel(int64(len(dd)), 4, func(w int, lo, hi int64) {
				for i := lo; i < hi; i++ {
					rn.derivedFor(rn.env(w), dd[i], i)
				}
			})
			if ok {
				rn.setBound(name, fmt.Sprintf("%s (%d doubles)", which, len(dd)))
			}
			return ok
		})
	}
	derivedD1("derived_texts_D1a", "all positive binary16 values whose 5 low mantissa bits are zero (the 1-5-5 minifloat)", func(h int64) bool { return h&31 == 0 })
	derivedD4("derived_texts_D4a", "the doubles nearest to 10^k and equal to 2^k (all k)", buildD4(d4opts{noSeeds: true}))

	// ---- pass 2: large bounds
	d1("D1b_format", "the other 63488 binary16 values (incl. NaN)", func(h int64) bool { return h&31 != 0 })
	phase("texts_full_alphabet_b", func() bool { return rn.texts("full", alphaFull, 5, r.Pick(5, 6)) })
	d4phase("D4b_format", fmt.Sprintf("the rest of D4 (+-%d ulp neighbours of the centres; +-%d ulp of nearest((s+1/2)*10^e), opts %+v)", rn.d4opts().ulps, rn.d4opts().ulps, rn.d4opts()), func(x float64) bool { return !centres[math.Float64bits(x)] })
	d2(6)
	d2(8)
	if r.Thorough() {
		d2(10)
		d2(12)
	}
	if r.Thorough() {
		derivedD1("derived_texts_D1b", "all other positive binary16 values", func(h int64) bool { return h&31 != 0 })
		// the quick tier's D4, not the thorough one: 187 k doubles x ~230 texts of up to 1100 digits would take most of
		// the budget for routes that are backed by strconv
		var rest []float64
		for _, x := range buildD4(quickD4) {
			if !centres[math.Float64bits(x)] {
				rest = append(rest, x)
			}
		}
		derivedD4("derived_texts_D4b", "the rest of the quick tier's D4 (+-1 ulp of every 10^k, 2^k and of the structured decimal halfway points)", rest)
	}
	phase("texts_reduced_alphabet", func() bool { return rn.texts("reduced", alphaReduced, r.Pick(6, 7), r.Pick(7, 8)) })

	// thorough: D3 = binary32 values widened, shortest digits via ftoa, by index range
	if r.Thorough() {
		phase("D3_binary32", func() bool { return rn.d3(d4set) })
	}

	for _, e := range rn.envs {
		if e != nil {
			e.close()
		}
	}
	if n := rn.unstable.Load(); n > 0 {
		r.Set("unstable_cases", n)
	}
	r.Exhaustive(complete)
}

var quickD4 = d4opts{ulps: 1, exhK: 1, expLo: -330, expHi: 300, expStep: 100, dense: 5, extra: []int{-323, -308, -20, 21, 22, 290, 307}, few: true}

func (rn *runner) d4opts() d4opts {
	if rn.r.Thorough() {
		return d4opts{ulps: 4, exhK: 2, expLo: -340, expHi: 310, expStep: 20, dense: 25, extra: []int{-323, -308, 290, 307}}
	}
	return quickD4
}

func (rn *runner) lens() []int {
	if rn.r.Thorough() {
		l := []int{}
		for i := 1; i <= 25; i++ {
			l = append(l, i)
		}
		return append(l, 30, 40, 50, 100, 200, 400, 766, 767, 768, 800)
	}
	return []int{1, 2, 3, 8, 15, 16, 17, 18, 19, 20, 21, 25, 40, 100, 400, 767}
}

func (rn *runner) exts() []int {
	if rn.r.Thorough() {
		return []int{17, 20, 21, 100, 767, 768, 800, 801, 1100}
	}
	return []int{17, 20, 100, 800, 801}
}

// derivedFor runs the texts derived from x through every string->number route.
func (rn *runner) derivedFor(e *env, x float64, idx int64) {
	r := rn.r
	xs := derived(x, rn.lens(), rn.exts())
	var fs []fail
	var evals int64
	var lits []string
	for i, t := range xs {
		// the model is the oracle; the expectation by construction cross-checks the model itself
		if !math.IsNaN(t.want) {
			if m := nm.ToNumberDecimal(t.s); !sameNum(m, t.want) {
				panic(fmt.Sprintf("c12: reference model disagrees with construction for %q: model %v, construction %v", t.s, m, t.want))
			}
		}
		evals += int64(e.parseOne(t.s, rNumber|rParseFloat|rJSON, &fs))
		if i%7 == 0 {
			evals += int64(e.parseOne("-"+t.s, rNumber|rParseFloat|rJSON, &fs))
		}
		if literalOK(t.s) {
			lits = append(lits, t.s)
		}
	}
	evals += int64(e.literals(lits, &fs))
	r.Eval(evals)
	r.NontrivialN(int64(len(xs)))
	if r.WantSample(idx) {
		rn.sample(map[string]interface{}{"domain": "derived texts", "bits": bitsHex(x), "n_texts": len(xs), "first": clip(xs[0].s), "last": clip(xs[len(xs)-1].s)})
	}
	rn.report(fs)
}

// ---------------------------------------------------------------------------------------------
// all texts over an alphabet

const alphaFull = "0123456789.eE+-"
const alphaReduced = "0159.e+-"

func ipow(b, n int) int64 {
	v := int64(1)
	for i := 0; i < n; i++ {
		v *= int64(b)
	}
	return v
}

func (rn *runner) texts(name, alpha string, from, to int) bool {
	boundFrom := from
	if name == "full" {
		boundFrom = 1 // the second full-alphabet phase continues the first
	}
	r := rn.r
	for l := from; l <= to; l++ {
		n := ipow(len(alpha), l)
		l := l
		ok := r.Parallel(n, 4096, func(w int, lo, hi int64) {
			e := rn.env(w)
			var fs []fail
			var evals, nt int64
			buf := make([]byte, l)
			var lits []string
			for i := lo; i < hi; i++ {
				v := i
				for p := l - 1; p >= 0; p-- {
					buf[p] = alpha[v%int64(len(alpha))]
					v /= int64(len(alpha))
				}
				s := string(buf)
				evals += int64(e.parseOne(s, rNumber|rPlus|rParseFloat|rParseInt|rJSON, &fs))
				if ok, _, ip, fp, _, _ := decimalShape(s); ok {
					if len(ip)+len(fp) > 0 && (ip+fp != zeros(len(ip)+len(fp))) {
						nt++
					}
					if literalOK(s) {
						lits = append(lits, s)
						if len(lits) == 64 {
							evals += int64(e.literals(lits, &fs))
							lits = lits[:0]
						}
					}
				}
				if r.WantSample(i) && l == to {
					rn.sample(map[string]interface{}{"domain": "texts/" + name, "text": s})
				}
			}
			evals += int64(e.literals(lits, &fs))
			r.Eval(evals)
			r.NontrivialN(nt)
			rn.report(fs)
		})
		if !ok {
			return false
		}
		rn.setBound("texts_"+name, fmt.Sprintf("every string of length %d..%d over %q", boundFrom, l, alpha))
	}
	return true
}

func zeros(n int) string {
	b := make([]byte, n)
	for i := range b {
		b[i] = '0'
	}
	return string(b)
}

// ---------------------------------------------------------------------------------------------
// D3

func (rn *runner) d3(d4set map[uint64]struct{}) bool {
	r := rn.r
	// index i -> binary32 value: exponent field i%255 (0..254), mantissa = bit-reversed i/255, so that the first
	// 255*2^k indices are exactly "every exponent x every k-bit mantissa prefix (zero fill)": a run that is cut by
	// the deadline has still completed a structured sub-domain.
	const chunk = 255 * 256
	total := int64(255) << 23
	var done atomic.Int64
	ok := r.Parallel(total, chunk, func(w int, lo, hi int64) {
		var fs []fail
		var nt int64
		var buf [64]byte
		ver := &rn.env(w).ver
		for i := lo; i < hi; i++ {
			ex := uint32(i % 255)
			mant := bits.Reverse32(uint32(i/255)) >> 9
			if ex == 0 && mant == 0 {
				continue
			}
			x := float64(math.Float32frombits(ex<<23 | mant))
			got := safeFToStr(x, 0, 0, buf[:0])
			num := nm.Of(x)
			if cls := judgeShortest(ver, &num, got, false); cls != "" {
				fs = append(fs, fail{formatSig(opString, 0, cls, x), fmt.Sprintf("ftoa shortest of %s (bits %s) gives %q [%s]", strconv.FormatFloat(x, 'g', -1, 64), bitsHex(x), got, cls),
					Case{Kind: "format", Bits: bitsHex(x), X: strconv.FormatFloat(x, 'g', -1, 64), Op: opString, Route: "ftoa", Got: got, Want: nm.ToString(x)}})
			}
			m, _ := nm.Decompose(x)
			if _, dup := d4set[math.Float64bits(x)]; !dup && !isBinary16(x) && !inD2(m&(1<<52-1), 12) {
				nt++
			}
		}
		r.Eval(hi - lo)
		r.NontrivialN(nt)
		done.Add(hi - lo)
		if lo%(chunk*512) == 0 {
			rn.sample(map[string]interface{}{"domain": "D3", "index_from": lo, "index_to": hi - 1, "mapping": "binary32 exponent field = i%255, mantissa = bitreverse23(i/255)"})
		}
		rn.report(fs)
	})
	r.Set("D3_values_done", done.Load())
	if ok {
		rn.setBound("D3_binary32", "all 2^31-2^23-1 positive finite binary32 values widened (shortest digits via ftoa)")
	} else {
		// chunks are handed out in increasing order; everything below done - workers*chunk is certainly finished
		safe := done.Load() - int64(r.Workers)*chunk
		k := 0
		for k < 23 && int64(255)<<(uint(k)+1) <= safe {
			k++
		}
		if safe < 255 {
			k = -1
		}
		rn.setBound("D3_binary32", fmt.Sprintf("%d of %d positive finite binary32 values: at least every exponent x every %d-bit mantissa prefix with zero fill (not complete)", done.Load(), total, k))
	}
	return ok
}

// ---------------------------------------------------------------------------------------------
// replay

func replay(r *core.Run, raw json.RawMessage) {
	var c Case
	if err := json.Unmarshal(raw, &c); err != nil {
		r.Violation("replay|bad-case", err.Error(), nil)
		return
	}
	e := newEnv()
	defer e.close()
	for _, f := range replayCase(e, c) {
		r.Violation(f.sig, f.what, f.c)
	}
}

// replayCase re-executes exactly one recorded case (all routes of it) and returns what fails.
func replayCase(e *env, c Case) []fail {
	var fs []fail
	switch c.Kind {
	case "format":
		b, err := strconv.ParseUint(c.Bits, 16, 64)
		if err != nil {
			return []fail{{"replay|bad-bits", err.Error(), c}}
		}
		x := math.Float64frombits(b)
		if c.Op == opRoundTrip {
			e.roundTrip(x, &fs)
		} else {
			e.formatOne(x, c.Op, c.Arg, 3, &fs)
		}
	case "parse":
		switch c.Route {
		case "literal":
			e.literals([]string{c.Str}, &fs)
		default:
			e.parseOne(c.Str, rNumber|rPlus|rParseFloat|rParseInt|rJSON, &fs)
			if literalOK(c.Str) {
				e.literals([]string{c.Str}, &fs)
			}
		}
	case "parseInt":
		e.parseIntOne(c.Str, c.Arg, &fs)
	case "literalN":
		e.literalN(c.Str, &fs)
	}
	return fs
}
