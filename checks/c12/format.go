package c12

import (
	"fmt"
	"math"
	"math/bits"
	"strconv"
	"strings"
	"time"

	"github.com/dop251/goja"
	"github.com/dop251/goja/ftoa"

	nm "verif/ref/nummodel12"
)

// Case is the replayable description of one evaluated case.
type Case struct {
	Kind  string `json:"kind"`            // format | parse | parseInt | literal
	Bits  string `json:"bits,omitempty"`  // float64 bit pattern (hex) of x
	X     string `json:"x,omitempty"`     // x, human readable
	Op    string `json:"op,omitempty"`    // String | toExponential() | toFixed | toExponential | toPrecision | toString
	Arg   int    `json:"arg,omitempty"`   // digits / radix
	Route string `json:"route,omitempty"` // which route failed
	Str   string `json:"str,omitempty"`   // input text of a parse case
	Got   string `json:"got,omitempty"`
	Want  string `json:"want,omitempty"`
}

type fail struct {
	sig, what string
	c         Case
}

const (
	opString    = "String"
	opExpU      = "toExponential()"
	opFixed     = "toFixed"
	opExp       = "toExponential"
	opPrec      = "toPrecision"
	opRadix     = "toString"
	opRoundTrip = "roundtrip"
)

// unformat parses the canonical Number::toString layout back into sign, digits and decimal point
// position; ok is false if s is not in canonical layout (checked by re-formatting).
func unformat(s string) (neg bool, digits string, n int, ok bool) {
	t := s
	if strings.HasPrefix(t, "-") {
		neg = true
		t = t[1:]
	}
	mant, ex := t, 0
	hasExp := false
	if i := strings.IndexByte(t, 'e'); i >= 0 {
		mant = t[:i]
		es := t[i+1:]
		if len(es) < 2 || (es[0] != '+' && es[0] != '-') {
			return
		}
		v, err := strconv.Atoi(es[1:])
		if err != nil || (len(es) > 2 && es[1] == '0') {
			return
		}
		if es[0] == '-' {
			v = -v
		}
		ex = v
		hasExp = true
	}
	ip, fp := mant, ""
	if i := strings.IndexByte(mant, '.'); i >= 0 {
		ip, fp = mant[:i], mant[i+1:]
		if fp == "" {
			return
		}
	}
	if ip == "" {
		return
	}
	for _, c := range []byte(ip + fp) {
		if c < '0' || c > '9' {
			return
		}
	}
	all := ip + fp
	lead := len(all) - len(strings.TrimLeft(all, "0"))
	digits = strings.TrimRight(all[lead:], "0")
	if digits == "" {
		return
	}
	if hasExp {
		n = ex + 1 + (len(ip) - 1) - lead
	} else {
		n = len(ip) - lead
	}
	if nm.FormatShortest(digits, n) != t {
		return
	}
	return neg, digits, n, true
}

// judgeShortest judges a radix-10 Number::toString result for finite non-zero x without generating the
// expected string: canonical layout + shortest + round trip + closest. "" = fine.
func judgeShortest(ver *nm.Verifier, num *nm.Num, got string, generate bool) string {
	x := num.X
	if got == hung {
		return "hang"
	}
	if strings.HasPrefix(got, "panic:") || strings.HasPrefix(got, "throw:") {
		if i := strings.IndexByte(got, ' '); i > 0 {
			return got[:i]
		}
		return got
	}
	neg, digits, n, ok := unformat(got)
	if !ok {
		for _, c := range []byte(got) {
			if !(c >= '0' && c <= '9' || c == '.' || c == 'e' || c == '+' || c == '-') {
				return "non-digit-character"
			}
		}
		if x < 0 && !strings.HasPrefix(got, "-") {
			return "sign-lost"
		}
		return "malformed"
	}
	if neg != (x < 0) {
		return "sign-lost"
	}
	if generate {
		// second opinion: the generative model must produce the same text (exact ties between two shortest
		// candidates are resolved to the even digit there, as ECMA-262 recommends)
		if w := num.String(); w != got && ver.Verify(math.Abs(x), digits, n) == nm.OK {
			return "differs-from-generated-shortest(tie-not-even)"
		}
	}
	switch ver.Verify(math.Abs(x), digits, n) {
	case nm.NotRoundTrip:
		return "not-roundtrip"
	case nm.NotShortest:
		return "not-shortest"
	case nm.NotClosest:
		return "not-closest"
	case nm.BadDigitsForm:
		return "malformed"
	}
	return ""
}

func bucket(op string, arg int) string {
	if op == opRadix {
		switch arg {
		case 2, 4, 8, 16, 32:
			return "radix=2^k"
		case 10:
			return "radix=10"
		}
		return "radix=other"
	}
	// number of significant digits requested relative to the float fast-path limit (14) and to the 17/21 landmarks
	switch {
	case arg <= 14:
		return "digits<=14"
	case arg <= 21:
		return "digits15-21"
	}
	return "digits>21"
}

// validNum: [-] digits [. digits] [e (+|-) digits]
func validNum(s string) bool {
	ok, sign, ip, fp, hasPoint, _ := decimalShape(s)
	return ok && sign != "+" && ip != "" && (!hasPoint || fp != "")
}

// classify names what is wrong with a fixed/exponential/precision result.
func classify(num *nm.Num, op string, arg int, got, want string) string {
	if strings.HasPrefix(got, "throw:") || strings.HasPrefix(got, "panic:") {
		if i := strings.IndexByte(got, ' '); i > 0 && strings.HasPrefix(got, "panic:") {
			return got[:i]
		}
		return got
	}
	if strings.HasPrefix(got, "nonstring:") {
		return "nonstring"
	}
	for _, c := range []byte(got) {
		if !(c >= '0' && c <= '9' || c == '.' || c == 'e' || c == '+' || c == '-') {
			return "non-digit-character"
		}
	}
	if strings.HasPrefix(want, "-") && !strings.HasPrefix(got, "-") {
		return "sign-lost"
	}
	if !validNum(got) {
		return "malformed"
	}
	if len(got) != len(want) {
		gv, wv := nm.ToNumberDecimal(got), nm.ToNumberDecimal(want)
		if math.IsNaN(gv) {
			return "malformed"
		}
		if gv == wv {
			return "layout"
		}
		return "wrong-length"
	}
	// same layout: a digit difference
	if _, tie := num.Dropped(keepOf(num, op, arg)); tie {
		return "tie-misrounded"
	}
	return "misrounded"
}

// produce performs one (x, op, arg) on the selected routes (bit 0: ftoa package directly, bit 1: runtime).
func (e *env) produce(x float64, op string, arg int, routes int) (direct, viaRT string) {
	e.busyX.Store(math.Float64bits(x))
	e.busySince.Store(time.Now().UnixNano())
	defer e.busySince.Store(0)
	finite := !math.IsNaN(x) && !math.IsInf(x, 0)
	hasDirect := routes&1 != 0
	hasRT := routes&2 != 0
	var buf [160]byte
	var xv, av goja.Value
	if hasRT {
		xv = e.vm.ToValue(x)
		av = e.vm.ToValue(arg)
	}
	switch op {
	case opString:
		if hasDirect {
			direct = safeFToStr(x, ftoa.ModeStandard, 0, buf[:0])
		}
		if hasRT {
			viaRT = e.callS(e.str, xv)
		}
	case opExpU:
		if hasDirect {
			direct = safeFToStr(x, ftoa.ModeStandardExponential, 0, buf[:0])
		}
		if hasRT {
			viaRT = e.callS(e.expu, xv)
		}
	case opFixed:
		if hasDirect {
			direct = safeFToStr(x, ftoa.ModeFixed, arg, buf[:0])
		}
		if hasRT {
			viaRT = e.callS(e.fix, xv, av)
		}
	case opExp:
		if hasDirect {
			direct = safeFToStr(x, ftoa.ModeExponential, arg+1, buf[:0])
		}
		if hasRT {
			viaRT = e.callS(e.exp, xv, av)
		}
	case opPrec:
		if hasDirect {
			direct = safeFToStr(x, ftoa.ModePrecision, arg, buf[:0])
		}
		if hasRT {
			viaRT = e.callS(e.prec, xv, av)
		}
	case opRadix:
		if hasDirect && finite {
			if arg == 10 {
				direct = safeFToStr(x, ftoa.ModeStandard, 0, buf[:0])
			} else {
				direct = safeBase(x, arg)
			}
		}
		if hasRT {
			viaRT = e.callS(e.rad, xv, av)
		}
	case opRoundTrip:
		if hasRT {
			got, note := e.callN(e.rt, xv)
			if note != "" {
				viaRT = note
			} else {
				viaRT = bitsKey(got)
			}
		}
	}
	return
}

func bitsKey(x float64) string {
	if math.IsNaN(x) {
		return "NaN"
	}
	return strconv.FormatUint(math.Float64bits(x), 16)
}

const hung = "!hang"

// formatOne evaluates one (x, op, arg) on both routes and appends the failures. It returns the number of
// evaluations performed, whether the case is non-trivial (digits had to be dropped / generated) and whether it hung.
func (e *env) formatOne(x float64, op string, arg int, routes int, out *[]fail) (evals int, nontrivial bool, outcome string) {
	var direct, viaRT string
	if e.needsChild(x) {
		direct, viaRT = e.childProduce(x, op, arg, routes)
	} else {
		direct, viaRT = e.produce(x, op, arg, routes)
	}
	if e.model.X != x || math.Signbit(e.model.X) != math.Signbit(x) {
		e.model = nm.Of(x)
	}
	return judgeFormat(&e.ver, e.generate, &e.model, op, arg, routes, direct, viaRT, out)
}

func keepOf(num *nm.Num, op string, arg int) int {
	switch op {
	case opFixed:
		return num.Dec().N + arg
	case opExp:
		return arg + 1
	}
	return arg
}

func judgeFormat(ver *nm.Verifier, generate bool, num *nm.Num, op string, arg int, routes int, direct, viaRT string, out *[]fail) (evals int, nontrivial bool, outcome string) {
	x := num.X
	finite := !math.IsNaN(x) && !math.IsInf(x, 0)
	hasDirect := routes&1 != 0
	hasRT := routes&2 != 0
	xs := strconv.FormatFloat(x, 'g', -1, 64)
	if op == opRoundTrip {
		want := x
		if x == 0 {
			want = 0 // String(-0) is "0"
		}
		if viaRT != bitsKey(want) {
			cls := "not-identity"
			if viaRT == hung {
				cls = "hang"
			}
			if b, err := strconv.ParseUint(viaRT, 16, 64); err == nil {
				viaRT = numStr(math.Float64frombits(b))
			}
			*out = append(*out, fail{"Number(String(x))|" + cls + "|" + xclass(x), fmt.Sprintf("Number(String(x)) for x=%s (bits %s) gives %s", xs, bitsHex(x), viaRT),
				Case{Kind: "format", Bits: bitsHex(x), X: xs, Op: op, Route: "runtime", Got: viaRT, Want: numStr(want)}})
		}
		return 1, false, viaRT
	}
	var want string
	switch op {
	case opString:
		if !finite || x == 0 { // otherwise judged, not generated
			want = nm.ToString(x)
		}
	case opExpU:
		want = num.ToExponential(-1)
	case opFixed:
		want = num.ToFixed(arg)
	case opExp:
		want = num.ToExponential(arg)
	case opPrec:
		want = num.ToPrecision(arg)
	case opRadix:
		hasDirect = hasDirect && finite
		if !finite || x == 0 {
			want = nm.ToString(x)
		}
	}
	judge := func(got string) string {
		if got == hung {
			return "hang"
		}
		switch op {
		case opString:
			if want != "" {
				if got != want {
					return "wrong"
				}
				return ""
			}
			return judgeShortest(ver, num, got, generate)
		case opRadix:
			if want != "" {
				if got != want {
					return "wrong"
				}
				return ""
			}
			if arg == 10 {
				return judgeShortest(ver, num, got, generate)
			}
			if x < 0 && !strings.HasPrefix(got, "-") && !strings.HasPrefix(got, "panic:") {
				return "sign-lost"
			}
			v, ok := nm.ParseRadix(got, arg)
			if !ok {
				return "malformed"
			}
			if !sameNum(v, x) {
				return "not-roundtrip"
			}
			return ""
		}
		if got != want {
			return classify(num, op, arg, got, want)
		}
		return ""
	}
	report := func(route, got, cls string, other bool) {
		sig := formatSig(op, arg, cls, x)
		if other {
			sig += "|" + route + "-only"
		}
		w := want
		if w == "" && finite {
			if op == opString || arg == 10 {
				w = num.String()
			} else {
				w = "(any radix-" + strconv.Itoa(arg) + " string whose exact value rounds to x)"
			}
		}
		*out = append(*out, fail{sig, fmt.Sprintf("%s of %s (bits %s) arg=%d via %s gives %q, expected %s [%s]", op, xs, bitsHex(x), arg, route, clip(got), clip(w), cls),
			Case{Kind: "format", Bits: bitsHex(x), X: xs, Op: op, Arg: arg, Route: route, Got: clip(got), Want: clip(w)}})
	}
	var cd, cr string
	if hasDirect {
		evals++
		cd = judge(direct)
	}
	if hasRT {
		evals++
		if hasDirect && viaRT == direct {
			cr = cd
		} else {
			cr = judge(viaRT)
		}
	}
	if cd != "" {
		report("ftoa", direct, cd, false)
	}
	if cr != "" && (cd == "" || viaRT != direct) {
		report("runtime", viaRT, cr, hasDirect && cd == "")
	}
	if hasDirect && hasRT && cd == "" && cr == "" && direct != viaRT && op != opRadix {
		report("runtime", viaRT, "routes-differ", true)
	}
	// non-trivial: the operation had to decide something about digits
	if finite && x != 0 {
		switch op {
		case opString, opExpU:
			nontrivial = true
		case opRadix:
			nontrivial = x != math.Trunc(x) || math.Abs(x) >= 1<<53
		default:
			nontrivial, _ = num.Dropped(keepOf(num, op, arg)) // digits are dropped: a rounding decision is made
		}
	}
	if hasDirect {
		outcome = direct
	} else {
		outcome = viaRT
	}
	return
}

// formatSig is the signature of a formatting failure: operation, what is wrong, and the input / argument class
// that selects the code path. Subnormal inputs take their own (broken, see findings) path in ftoa: every kind
// of wrong digit string there is one class per operation.
func formatSig(op string, arg int, cls string, x float64) string {
	xc := xclass(x)
	if strings.HasPrefix(xc, "subnormal") {
		switch cls {
		case "malformed", "misrounded", "tie-misrounded", "non-digit-character", "wrong-length", "layout", "not-roundtrip", "wrong":
			cls = "wrong-digits"
		}
		return op + "|" + cls + "|" + xc
	}
	if cls == "sign-lost" {
		return op + "|" + cls + "|" + xc
	}
	return op + "|" + cls + "|" + bucket(op, arg) + "|" + xc
}

// xclass separates the input classes that take different code paths in ftoa.
func xclass(x float64) string {
	b := math.Float64bits(x) &^ (1 << 63)
	switch {
	case b>>52 == 0x7ff:
		return "nonfinite"
	case b == 0:
		return "zero"
	case b>>52 == 0:
		// ftoa's d2b() stores the significand without its trailing zero bits in one or two 32-bit words; the
		// one-word case with a non-zero low input word is a separate (and separately broken) path
		w0, w1 := uint32(b>>32), uint32(b)
		if w1 != 0 && w0>>uint(bits.TrailingZeros32(w1)) == 0 {
			return "subnormal(1-word)"
		}
		return "subnormal"
	}
	return "normal"
}

func clip(s string) string {
	if len(s) > 140 {
		return s[:100] + "…(" + strconv.Itoa(len(s)) + " chars)…" + s[len(s)-20:]
	}
	return s
}

func safeFToStr(x float64, mode ftoa.FToStrMode, prec int, buf []byte) (res string) {
	defer func() {
		if p := recover(); p != nil {
			res = "panic:" + firstLine(fmt.Sprint(p))
		}
	}()
	return string(ftoa.FToStr(x, mode, prec, buf))
}

func safeBase(x float64, radix int) (res string) {
	defer func() {
		if p := recover(); p != nil {
			res = "panic:" + firstLine(fmt.Sprint(p))
		}
	}()
	return ftoa.FToBaseStr(x, radix)
}

// roundTrip checks Number(String(x)) through the runtime.
func (e *env) roundTrip(x float64, out *[]fail) {
	e.formatOne(x, opRoundTrip, 0, 2, out)
}

var _ = goja.Undefined
