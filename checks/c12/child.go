package c12

import (
	"bufio"
	"fmt"
	"io"
	"math"
	"os"
	"os/exec"
	"runtime"
	"strconv"
	"strings"
	"sync"
	"syscall"
	"time"
)

// Conversions of subnormal doubles can run away inside ftoa (unbounded big-integer power, see NOTES.md):
// native Go code cannot be interrupted and an abandoned goroutine would eat all memory, so every
// conversion of a subnormal x is performed by a child process (this same binary, VERIF_C12_CHILD=1)
// that gives up on a request after a CPU-time limit (load independent) or a heap limit, reports "!hang"
// and exits; the parent then starts a new child.

const (
	childEnv      = "VERIF_C12_CHILD"
	childCPULimit = 400 * time.Millisecond // a normal conversion takes microseconds
	childHeapMax  = 1 << 30
)

func init() {
	if os.Getenv(childEnv) == "1" {
		childMain()
		os.Exit(0)
	}
}

func cpuNow() time.Duration {
	var ru syscall.Rusage
	syscall.Getrusage(syscall.RUSAGE_SELF, &ru)
	return time.Duration(ru.Utime.Nano() + ru.Stime.Nano())
}

func sanitize(s string) string {
	if strings.ContainsAny(s, "\t\n\r") {
		s = strings.NewReplacer("\t", " ", "\n", " ", "\r", " ").Replace(s)
	}
	return s
}

func childMain() {
	e := newEnv()
	e.isChild = true
	in := bufio.NewReaderSize(os.Stdin, 1<<16)
	out := bufio.NewWriterSize(os.Stdout, 1<<16)
	var mu sync.Mutex
	inflight := false
	var start time.Duration
	var startWall time.Time
	go func() {
		var ms runtime.MemStats
		for {
			time.Sleep(20 * time.Millisecond)
			mu.Lock()
			if inflight {
				over := cpuNow()-start > childCPULimit || time.Since(startWall) > 20*time.Second
				if !over {
					runtime.ReadMemStats(&ms)
					over = ms.HeapAlloc > childHeapMax
				}
				if over {
					out.WriteString(hung + "\n")
					out.Flush()
					os.Exit(0)
				}
			}
			mu.Unlock()
		}
	}()
	for {
		line, err := in.ReadString('\n')
		if err != nil {
			return
		}
		f := strings.Fields(line)
		if len(f) != 4 {
			return
		}
		bits, _ := strconv.ParseUint(f[0], 16, 64)
		arg, _ := strconv.Atoi(f[2])
		routes, _ := strconv.Atoi(f[3])
		op := strings.ReplaceAll(f[1], "_", " ")
		mu.Lock()
		inflight, start, startWall = true, cpuNow(), time.Now()
		mu.Unlock()
		d, v := e.produce(math.Float64frombits(bits), op, arg, routes)
		mu.Lock()
		inflight = false
		out.WriteString(sanitize(d))
		out.WriteByte('\t')
		out.WriteString(sanitize(v))
		out.WriteByte('\n')
		if in.Buffered() == 0 {
			out.Flush()
		}
		mu.Unlock()
	}
}

type child struct {
	cmd   *exec.Cmd
	stdin io.WriteCloser
	in    *bufio.Writer
	out   *bufio.Reader
}

func startChild() *child {
	cmd := exec.Command(os.Args[0], "C12")
	cmd.Env = append(os.Environ(), childEnv+"=1")
	cmd.Stderr = io.Discard
	stdin, err := cmd.StdinPipe()
	if err != nil {
		panic(err)
	}
	stdout, err := cmd.StdoutPipe()
	if err != nil {
		panic(err)
	}
	if err := cmd.Start(); err != nil {
		panic(err)
	}
	return &child{cmd: cmd, stdin: stdin, in: bufio.NewWriter(stdin), out: bufio.NewReaderSize(stdout, 1<<16)}
}

func (c *child) stop() {
	c.stdin.Close()
	c.cmd.Process.Kill()
	c.cmd.Wait()
}

func (e *env) needsChild(x float64) bool {
	if e.isChild {
		return false
	}
	b := math.Float64bits(x) &^ (1 << 63)
	return b != 0 && b>>52 == 0
}

// childProduce is produce() executed by the child process; a request the child gave up on yields "!hang" on
// the routes that were asked for.
func (e *env) childProduce(x float64, op string, arg int, routes int) (direct, viaRT string) {
	if e.child == nil {
		e.child = startChild()
	}
	c := e.child
	fmt.Fprintf(c.in, "%016x %s %d %d\n", math.Float64bits(x), strings.ReplaceAll(op, " ", "_"), arg, routes)
	err := c.in.Flush()
	var line string
	if err == nil {
		line, err = c.out.ReadString('\n')
	}
	line = strings.TrimSuffix(line, "\n")
	if err != nil || line == hung {
		c.stop()
		e.child = nil
		e.hangs++
		if routes&1 != 0 {
			direct = hung
		}
		if routes&2 != 0 {
			viaRT = hung
		}
		return
	}
	i := strings.IndexByte(line, '\t')
	if i < 0 {
		panic("c12: bad child response " + line)
	}
	return line[:i], line[i+1:]
}

type req struct {
	op  string
	arg int
}

// childMany performs the requests for one x in the child, pipelined. A request the child gives up on yields
// "!hang"; after maxHangs of them the remaining requests are not attempted (skipped=true from index done on).
func (e *env) childMany(x float64, reqs []req, routes int, maxHangs int) (direct, viaRT []string, done int) {
	direct = make([]string, len(reqs))
	viaRT = make([]string, len(reqs))
	hangs := 0
	pos := 0
	for pos < len(reqs) && hangs < maxHangs {
		if e.child == nil {
			e.child = startChild()
		}
		c := e.child
		for _, q := range reqs[pos:] {
			fmt.Fprintf(c.in, "%016x %s %d %d\n", math.Float64bits(x), strings.ReplaceAll(q.op, " ", "_"), q.arg, routes)
		}
		werr := c.in.Flush()
		for pos < len(reqs) {
			var line string
			var err error
			if werr == nil {
				line, err = c.out.ReadString('\n')
			} else {
				err = werr
			}
			line = strings.TrimSuffix(line, "\n")
			if err != nil || line == hung {
				c.stop()
				e.child = nil
				e.hangs++
				hangs++
				if routes&1 != 0 {
					direct[pos] = hung
				}
				if routes&2 != 0 {
					viaRT[pos] = hung
				}
				pos++
				break
			}
			i := strings.IndexByte(line, '\t')
			if i < 0 {
				panic("c12: bad child response " + line)
			}
			direct[pos], viaRT[pos] = line[:i], line[i+1:]
			pos++
		}
	}
	return direct, viaRT, pos
}

func (e *env) close() {
	if e.child != nil {
		e.child.stop()
		e.child = nil
	}
}
