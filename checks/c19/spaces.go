package c19

import (
	"strconv"
	"strings"

	jm "verif/ref/jsonmodel"
)

// Node is one enumerated stringify input: a tree of arrays (with holes) and objects (keys in insertion order)
// over named leaves. It is what a replay file records.
type Node struct {
	Leaf string   `json:"leaf,omitempty"`
	Kind string   `json:"kind,omitempty"` // "arr" | "obj"
	Keys []string `json:"keys,omitempty"` // obj: names in keyStrs, insertion order
	Kids []*Node  `json:"kids,omitempty"` // arr: nil = hole
	// Share != 0: all nodes of a tree with the same Share are ONE object (the same identity reachable through
	// several paths - a DAG). The first occurrence in pre-order defines the content.
	Share int `json:"share,omitempty"`
}

func leafNode(name string) *Node { return &Node{Leaf: name} }

// build makes a fresh model value (shared nodes become one model object).
func (n *Node) build() jm.Value { return n.buildMemo(map[int]jm.Value{}) }

func (n *Node) buildMemo(memo map[int]jm.Value) jm.Value {
	if n.Share != 0 {
		if v, ok := memo[n.Share]; ok {
			return v
		}
	}
	v := n.build1(memo)
	if n.Share != 0 {
		memo[n.Share] = v
	}
	return v
}

func (n *Node) build1(memo map[int]jm.Value) jm.Value {
	switch n.Kind {
	case "":
		it := find(leavesFull, n.Leaf)
		if it == nil {
			panic("c19: unknown leaf " + n.Leaf)
		}
		return it.mk()
	case "arr":
		a := jm.NewArray()
		for i, k := range n.Kids {
			if k != nil {
				a.CreateDataProperty(jm.S(strconv.Itoa(i)), k.buildMemo(memo))
			}
		}
		a.Length = uint32(len(n.Kids))
		return jm.Obj(a)
	}
	o := jm.NewObject()
	for i, k := range n.Kids {
		o.CreateDataProperty(keyStrs[n.Keys[i]], k.buildMemo(memo))
	}
	return jm.Obj(o)
}

// String is a compact rendering used in signatures and samples; a shared node is written #id=<content> where
// it first occurs and #id afterwards.
func (n *Node) String() string { return n.str(map[int]bool{}) }

func (n *Node) str(seen map[int]bool) string {
	if n == nil {
		return ""
	}
	if n.Share != 0 {
		tag := "#" + strconv.Itoa(n.Share)
		if seen[n.Share] {
			return tag
		}
		seen[n.Share] = true
		return tag + "=" + n.str1(seen)
	}
	return n.str1(seen)
}

func (n *Node) str1(seen map[int]bool) string {
	switch n.Kind {
	case "":
		return n.Leaf
	case "arr":
		parts := make([]string, len(n.Kids))
		for i, k := range n.Kids {
			parts[i] = k.str(seen)
		}
		s := "[" + strings.Join(parts, ",")
		if len(n.Kids) > 0 && n.Kids[len(n.Kids)-1] == nil {
			s += ","
		}
		return s + "]"
	}
	parts := make([]string, len(n.Kids))
	for i, k := range n.Kids {
		parts[i] = strconv.Quote(n.Keys[i]) + ":" + k.str(seen)
	}
	return "{" + strings.Join(parts, ",") + "}"
}

func (n *Node) clone() *Node {
	if n == nil {
		return nil
	}
	c := &Node{Leaf: n.Leaf, Kind: n.Kind, Keys: append([]string(nil), n.Keys...), Share: n.Share}
	for _, k := range n.Kids {
		c.Kids = append(c.Kids, k.clone())
	}
	return c
}

func (n *Node) depth() int {
	if n == nil || n.Kind == "" {
		return 0
	}
	d := 0
	for _, k := range n.Kids {
		if x := k.depth(); x > d {
			d = x
		}
	}
	return d + 1
}

// kinds is the sorted set of node kinds in the tree (coarse classification of failing cases).
func (n *Node) kinds(set map[string]bool) {
	if n == nil {
		set["hole"] = true
		return
	}
	if n.Share != 0 {
		set["shared"] = true
	}
	switch n.Kind {
	case "":
		set[n.Leaf] = true
	default:
		k := n.Kind
		if len(n.Kids) == 0 {
			k += "0"
		}
		set[k] = true
		for _, key := range n.Keys {
			if key != "a" && key != "b" && key != "c" {
				set["key:"+key] = true
			}
		}
		for _, c := range n.Kids {
			c.kinds(set)
		}
	}
}

// space is an index-addressable finite set of Nodes.
type space interface {
	Size() int64
	At(i int64) *Node
}

type listSpace []*Node

func (l listSpace) Size() int64      { return int64(len(l)) }
func (l listSpace) At(i int64) *Node { return l[i] }

func leafSpace(names []string) listSpace {
	var l listSpace
	for _, n := range names {
		if find(leavesFull, n) == nil {
			panic("c19: unknown leaf " + n)
		}
		l = append(l, leafNode(n))
	}
	return l
}

func allLeafNames() []string {
	var r []string
	for _, it := range leavesFull {
		r = append(r, it.name)
	}
	return r
}

// shape is one container skeleton: an array of a given length or an object with a key tuple.
type shape struct {
	kind  string
	keys  []string
	n     int
	holes bool // array slots may also be holes
}

// contSpace: all containers of the given shapes whose children range over child (shapes in order, children
// as a little-endian mixed-radix number).
type contSpace struct {
	shapes []shape
	child  space
	offs   []int64
}

func newContSpace(shapes []shape, child space) *contSpace {
	c := &contSpace{shapes: shapes, child: child}
	var total int64
	for _, s := range shapes {
		c.offs = append(c.offs, total)
		total += c.shapeSize(s)
	}
	c.offs = append(c.offs, total)
	return c
}

func (c *contSpace) radix(s shape) int64 {
	r := c.child.Size()
	if s.kind == "arr" && s.holes {
		r++
	}
	return r
}

func (c *contSpace) shapeSize(s shape) int64 {
	t := int64(1)
	for i := 0; i < s.n; i++ {
		t *= c.radix(s)
	}
	return t
}

func (c *contSpace) Size() int64 { return c.offs[len(c.offs)-1] }

func (c *contSpace) At(i int64) *Node {
	si := 0
	for c.offs[si+1] <= i {
		si++
	}
	s := c.shapes[si]
	i -= c.offs[si]
	n := &Node{Kind: s.kind, Keys: s.keys}
	r := c.radix(s)
	cs := c.child.Size()
	for k := 0; k < s.n; k++ {
		d := i % r
		i /= r
		if d == cs {
			n.Kids = append(n.Kids, nil)
		} else {
			n.Kids = append(n.Kids, c.child.At(d))
		}
	}
	return n
}

func arrShape(n int, holes bool) shape { return shape{kind: "arr", n: n, holes: holes} }
func objShape(keys ...string) shape    { return shape{kind: "obj", keys: keys, n: len(keys)} }

type unionSpace struct {
	parts []space
	offs  []int64
}

func union(parts ...space) *unionSpace {
	u := &unionSpace{parts: parts}
	var t int64
	for _, p := range parts {
		u.offs = append(u.offs, t)
		t += p.Size()
	}
	u.offs = append(u.offs, t)
	return u
}
func (u *unionSpace) Size() int64 { return u.offs[len(u.offs)-1] }
func (u *unionSpace) At(i int64) *Node {
	k := 0
	for u.offs[k+1] <= i {
		k++
	}
	return u.parts[k].At(i - u.offs[k])
}

func materialise(s space) listSpace {
	l := make(listSpace, s.Size())
	for i := range l {
		l[i] = s.At(int64(i))
	}
	return l
}
