package c19

import (
	"encoding/json"
	"fmt"
	"os"
	"runtime/pprof"
	"sort"
	"strconv"
	"strings"
	"sync"
	"syscall"
	"time"

	"verif/core"
	jm "verif/ref/jsonmodel"

	"github.com/dop251/goja"
)

func init() {
	core.Register(&core.Check{
		ID:    "C19",
		Level: "exploration",
		Rule: "bounded-exhaustive enumeration by rank. parse: all token sequences of the ECMA-404 grammar up to the reported token bound with scalar/key slots ranging over the token alphabets (alphabet level chosen per shape by a fixed case budget), all white-space placements, all single-code-unit edits of all accepted texts of <=5 tokens, all symbol strings up to the reported length, all nestings to depth 8; accepted texts x all revivers; " +
			"stringify: all value trees of the reported depth over the leaf alphabet x replacers x indents, plus MarshalJSON, parse(stringify(v)) and stringify(parse(t)). Each case is run on goja and on ref/jsonmodel and the full outcome (error class | structural dump with key order, -0, number bits, UTF-16 units | exact text) must be equal. " +
			"A case is non-trivial when the model accepts the text / produces a text (i.e. the comparison is structural, not just an error class); such cases are distinct by construction within a family.",
		Run:    run,
		Replay: replay,
	})
}

// Case is one executable comparison; it is what replay files contain.
type Case struct {
	Op string `json:"op"` // parse | canon | stringify | marshal | roundtrip | expr
	// parse, canon
	Text    string   `json:"text,omitempty"` // the JSON text as an ASCII JavaScript string literal (informative)
	Units   []uint16 `json:"units,omitempty"`
	Reviver string   `json:"reviver,omitempty"`
	// stringify, marshal, roundtrip
	Value    *Node  `json:"value,omitempty"`
	ValueSrc string `json:"value_src,omitempty"` // informative
	Replacer string `json:"replacer,omitempty"`
	Indent   string `json:"indent,omitempty"`
	// expr: a fixed JavaScript expression with a hand-written expected outcome
	Expr   string `json:"expr,omitempty"`
	Expect string `json:"expect,omitempty"`

	Got    string `json:"got,omitempty"`
	Want   string `json:"want,omitempty"`
	Family string `json:"family,omitempty"`
}

func parseCase(t jm.Str, reviver string) *Case {
	return &Case{Op: "parse", Units: t, Reviver: reviver}
}

func (c *Case) clone() *Case {
	d := *c
	d.Units = append([]uint16(nil), c.Units...)
	d.Value = c.Value.clone()
	return &d
}

func (c *Case) describe() string {
	switch c.Op {
	case "parse":
		if c.Reviver == "" || c.Reviver == "absent" {
			return "JSON.parse(" + jm.JSStr(c.Units) + ")"
		}
		return "JSON.parse(" + jm.JSStr(c.Units) + ", <reviver " + c.Reviver + ">)"
	case "canon":
		return "JSON.stringify(JSON.parse(" + jm.JSStr(c.Units) + "))"
	case "stringify":
		return "JSON.stringify(" + jm.Src(c.Value.build()) + ", <replacer " + c.Replacer + ">, <indent " + c.Indent + ">)"
	case "marshal":
		return "(*Object).MarshalJSON of " + jm.Src(c.Value.build())
	case "roundtrip":
		return "JSON.parse(JSON.stringify(" + jm.Src(c.Value.build()) + ", undefined, <indent " + c.Indent + ">))"
	}
	return c.Expr
}

// evalCase executes one case on e and on the model.
func evalCase(e *env, c *Case) (got, want outcome) {
	switch c.Op {
	case "parse":
		rev := find(revivers, orDefault(c.Reviver, "absent"))
		if rev == nil {
			return "?bad reviver", ""
		}
		if excluded(c.Units) {
			return "skip", "skip"
		}
		var log []string
		withLog := rev.mkL != nil
		_, got = e.doParse(c.Units, e.named("rev", rev), withLog)
		if withLog {
			_, want = modelParse(c.Units, rev.value(&log), &log)
		} else {
			_, want = modelParse(c.Units, rev.value(nil), nil)
		}
		return
	case "canon":
		if excluded(c.Units) {
			return "skip", "skip"
		}
		gv, g1 := e.doParse(c.Units, nil, false)
		mv, w1 := modelParse(c.Units, jm.Undefined, nil)
		if g1 != w1 || gv == nil {
			return "skip", "skip" // a parse disagreement is reported by the parse case
		}
		got = e.doStringify(gv, nil, nil)
		_, want = modelStringify(mv, jm.Undefined, jm.Undefined)
		return
	case "stringify", "marshal", "roundtrip":
		rep := find(replacers, orDefault(c.Replacer, "none"))
		ind := find(indents, orDefault(c.Indent, "absent"))
		if rep == nil || ind == nil || c.Value == nil {
			return "?bad case", ""
		}
		mv := c.Value.build()
		gv, err := e.eval(jm.Src(mv))
		if err != nil {
			return outcome("?cannot build value: " + err.Error()), ""
		}
		switch c.Op {
		case "stringify":
			got = e.doStringify(gv, e.named("rep", rep), e.named("ind", ind))
			_, want = modelStringify(mv, rep.value(nil), ind.value(nil))
		case "marshal":
			return evalMarshal(gv, mv)
		case "roundtrip":
			return evalRoundtrip(e, gv, mv, ind)
		}
		return
	case "expr":
		v, err := e.evalGuard(c.Expr)
		if err != nil {
			got = errOutcome(e, err)
		} else {
			got = outcome("V" + e.dumpOf(v))
		}
		return got, outcome(c.Expect)
	}
	return "?bad op", ""
}

// excluded: the text is outside the property's domain (documented exception: broken surrogate pairs in
// JSON.parse input, raw or escaped).
func excluded(t jm.Str) bool {
	if !t.WellFormed() {
		return true
	}
	v, err := jm.ParseText(t)
	return err == nil && hasLone(v)
}

func (e *env) evalGuard(src string) (v goja.Value, err error) {
	defer func() {
		if x := recover(); x != nil {
			err = fmt.Errorf("GO-PANIC %v", x)
		}
	}()
	return e.vm.RunString(src)
}

func orDefault(s, d string) string {
	if s == "" {
		return d
	}
	return s
}

// evalMarshal compares (*Object).MarshalJSON with the model's JSON.stringify(v) ("null" where stringify yields
// undefined, as the method's own contract says).
func evalMarshal(gv goja.Value, mv jm.Value) (got, want outcome) {
	o, ok := gv.(*goja.Object)
	if !ok {
		return "skip", "skip"
	}
	func() {
		defer func() {
			if x := recover(); x != nil {
				got = outcome("P" + firstLine(fmt.Sprint(x)))
			}
		}()
		b, err := o.MarshalJSON()
		if err != nil {
			got = errOutcome(nil, err)
		} else {
			got = outcome("S" + jm.S(string(b)).Quote())
			if !json.Valid(b) {
				got = "?invalid JSON bytes " + got
			}
		}
	}()
	s, w := modelStringify(mv, jm.Undefined, jm.Undefined)
	switch {
	case w == "U":
		want = outcome("S" + jm.S("null").Quote())
	case w[0] == 'S':
		want = outcome("S" + jm.S(s.UTF8()).Quote())
	default:
		want = w
	}
	return
}

// evalRoundtrip compares dump(JSON.parse(JSON.stringify(v, undefined, indent))) on the engine with the model;
// for JSON-representable v the model side is additionally required to equal dump(v).
func evalRoundtrip(e *env, gv goja.Value, mv jm.Value, ind *item) (got, want outcome) {
	g1 := e.doStringify(gv, nil, e.named("ind", ind))
	ms, w1 := modelStringify(mv, jm.Undefined, ind.value(nil))
	if g1 != w1 || w1[0] != 'S' || hasLoneEscape(ms) {
		return "skip", "skip"
	}
	_, want = modelParse(ms, jm.Undefined, nil)
	_, got = e.doParse(ms, nil, false)
	return
}

// ---------- failure handling: minimise, confirm, classify ----------

// sigCache memoises the (deterministic) minimisation: every state visited on the way from a failing case to its
// minimal form maps to the signature of that minimal form, and candidate evaluations are shared by all workers.
type sigCache struct {
	mu    sync.Mutex
	final map[string]string
	evals map[string]evalRes
	minis int   // minimisations carried through to a new minimal case
	fresh int64 // candidate evaluations actually executed
}

type evalRes struct {
	fails bool
	sym   symp
	h     uint64 // hash of (got, want)
}

func newSigCache() *sigCache {
	return &sigCache{final: map[string]string{}, evals: map[string]evalRes{}}
}

func (c *Case) key() string {
	switch c.Op {
	case "parse", "canon":
		return c.Op + "|" + orDefault(c.Reviver, "absent") + "|" + jm.JSStr(c.Units)
	case "stringify", "marshal", "roundtrip":
		return c.Op + "|" + orDefault(c.Replacer, "none") + "|" + orDefault(c.Indent, "absent") + "|" + c.Value.String()
	}
	return c.Op + "|" + c.Expr
}

func (s *sigCache) eval(e *env, c *Case) evalRes {
	k := c.key()
	s.mu.Lock()
	r, ok := s.evals[k]
	s.mu.Unlock()
	if ok {
		return r
	}
	g, wnt := evalCase(e, c)
	r = evalRes{fails: g != wnt}
	if r.fails {
		r.sym = symptom(c, g, wnt)
		r.h = outcomeHash(c, g, wnt)
	}
	s.mu.Lock()
	if len(s.evals) > 400000 {
		s.evals = map[string]evalRes{}
	}
	s.evals[k] = r
	s.fresh++
	s.mu.Unlock()
	return r
}

func (s *sigCache) lookup(state string) (string, bool) {
	s.mu.Lock()
	defer s.mu.Unlock()
	sig, ok := s.final[state]
	return sig, ok
}

func (s *sigCache) store(path []string, sig string, newMinimal bool) {
	s.mu.Lock()
	defer s.mu.Unlock()
	if len(s.final) < 3000000 {
		for _, p := range path {
			s.final[p] = sig
		}
	}
	if newMinimal {
		s.minis++
	}
}

func (s *sigCache) budgetLeft() bool {
	s.mu.Lock()
	defer s.mu.Unlock()
	return s.fresh < 30000000
}

// symp classifies HOW two outcomes differ: the outcome kinds and, for two results of the same kind, the set of
// abstract edit operations (delete/insert x unit class) that turn the expected result into the observed one.
// While a case is minimised a step is accepted only if its symptom is covered by the current one (same kinds,
// edit set a subset), so the search cannot slide from one defect into an unrelated one that merely produces
// the same kind of outcome.
type symp struct {
	kinds string
	set   uint32
}

var sympNames = []string{"-ws", "+ws", "-ascii", "+ascii", "-nonascii", "+nonascii", "-tag", "+tag", "-flag", "+flag", "-log", "+log"}

func (s symp) String() string {
	if s.set == 0 {
		return s.kinds
	}
	var p []string
	for i, n := range sympNames {
		if s.set&(1<<uint(i)) != 0 {
			p = append(p, n)
		}
	}
	return s.kinds + "{" + strings.Join(p, ",") + "}"
}

func (s symp) covers(t symp) bool { return s.kinds == t.kinds && t.set&^s.set == 0 }

func dumpClass(c uint16) int {
	switch {
	case c >= 'A' && c <= 'Z':
		return 6
	case c == '!':
		return 8
	case c == '#' || c == '@' || c == '|':
		return 10
	}
	return 2
}

// gapOf: the units of the gap string of a stringify case count as layout (white space) in symptoms.
func gapOf(c *Case) jm.Str {
	if c == nil || c.Indent == "" || c.Indent == "absent" {
		return nil
	}
	if it := find(indents, c.Indent); it != nil {
		return jm.Gap(it.value(nil))
	}
	return nil
}

func symptom(c *Case, got, want outcome) symp {
	kg, kw := kindOf(got), kindOf(want)
	s := symp{kinds: kw + "->" + kg}
	if kg != kw || (kg != "text" && kg != "value") {
		return s
	}
	var g, w []uint16
	var cls func(uint16) int
	if kg == "text" {
		g, w = unquote(string(got[1:])), unquote(string(want[1:]))
		gap := gapOf(c)
		cls = func(u uint16) int {
			if u == ' ' || u == '\n' || u == '\t' {
				return 0
			}
			for _, x := range gap {
				if x == u {
					return 0
				}
			}
			if u >= 0x80 {
				return 4
			}
			return 2
		}
	} else {
		cls = dumpClass
		for i := 1; i < len(got); i++ {
			g = append(g, uint16(got[i]))
		}
		for i := 1; i < len(want); i++ {
			w = append(w, uint16(want[i]))
		}
	}
	// strip the common prefix and suffix, then an LCS alignment of the middle parts
	for len(g) > 0 && len(w) > 0 && g[0] == w[0] {
		g, w = g[1:], w[1:]
	}
	for len(g) > 0 && len(w) > 0 && g[len(g)-1] == w[len(w)-1] {
		g, w = g[:len(g)-1], w[:len(w)-1]
	}
	// fast path: the two sides are equal up to layout units -> compare the layout runs pairwise
	if kg == "text" {
		if set, ok := layoutOnly(w, g, cls); ok {
			s.set |= set
			return s
		}
	}
	n, m := len(w), len(g)
	if n*m > 1<<22 {
		for _, u := range w {
			s.set |= 1 << uint(cls(u))
		}
		for _, u := range g {
			s.set |= 2 << uint(cls(u))
		}
		return s
	}
	// l[i][j] = LCS length of w[i:], g[j:]
	l := make([]uint16, (n+1)*(m+1))
	at := func(i, j int) uint16 { return l[i*(m+1)+j] }
	for i := n - 1; i >= 0; i-- {
		for j := m - 1; j >= 0; j-- {
			switch {
			case w[i] == g[j]:
				l[i*(m+1)+j] = at(i+1, j+1) + 1
			case at(i+1, j) >= at(i, j+1):
				l[i*(m+1)+j] = at(i+1, j)
			default:
				l[i*(m+1)+j] = at(i, j+1)
			}
		}
	}
	i, j := 0, 0
	for i < n || j < m {
		switch {
		case i < n && j < m && w[i] == g[j]:
			i++
			j++
		case i < n && (j == m || at(i+1, j) >= at(i, j+1)):
			s.set |= 1 << uint(cls(w[i]))
			i++
		default:
			s.set |= 2 << uint(cls(g[j]))
			j++
		}
	}
	return s
}

// layoutOnly: if w and g are equal after removing the units of class 0 (layout), report whether layout was
// lost (-ws), gained (+ws) or both, run by run.
func layoutOnly(w, g []uint16, cls func(uint16) int) (uint32, bool) {
	var set uint32
	i, j := 0, 0
	for {
		ri, rj := i, j
		for i < len(w) && cls(w[i]) == 0 {
			i++
		}
		for j < len(g) && cls(g[j]) == 0 {
			j++
		}
		// compare the two layout runs as multisets by length and content
		a, b := w[ri:i], g[rj:j]
		if len(a) != len(b) || !jm.Str(a).Eq(b) {
			if len(a) >= len(b) {
				set |= 1
			}
			if len(b) >= len(a) {
				set |= 2
			}
		}
		if i >= len(w) || j >= len(g) {
			return set, i >= len(w) && j >= len(g)
		}
		if w[i] != g[j] {
			return 0, false
		}
		i++
		j++
	}
}

// unquote inverts jm.Str.Quote.
func unquote(q string) []uint16 {
	var r []uint16
	if len(q) >= 2 {
		q = q[1 : len(q)-1]
	}
	for i := 0; i < len(q); i++ {
		if q[i] == '\\' && i+5 < len(q) && q[i+1] == 'u' {
			n, _ := strconv.ParseUint(q[i+2:i+6], 16, 16)
			r = append(r, uint16(n))
			i += 5
		} else {
			r = append(r, uint16(q[i]))
		}
	}
	return r
}

type worker struct {
	r       *core.Run
	e       *env
	cache   *sigCache
	mvals   map[string]jm.Value
	seenOut map[string]bool
}

func newWorker(r *core.Run, c *sigCache) *worker {
	return &worker{r: r, cache: c, mvals: map[string]jm.Value{}, seenOut: map[string]bool{}}
}

const envReuse = 4000

func (w *worker) env() *env {
	if w.e == nil || w.e.used > envReuse {
		w.e = newEnv()
	}
	return w.e
}

// check runs a case through evalCase (slow path: everything is rebuilt from the case).
func (w *worker) check(c *Case) (got, want outcome) {
	got, want = evalCase(w.env(), c)
	w.r.Eval(1)
	if got != want {
		w.fail(c, got, want)
	}
	return
}

// fail classifies one disagreement: greedy minimisation (bulk simplifications first, then single steps; a step is
// kept only if the case still disagrees with a symptom covered by the current one), 5 confirmations of the minimal
// case on fresh runtimes, report under the signature of the minimal case.
func (w *worker) fail(c *Case, got, want outcome) {
	e := w.env()
	g2, w2 := evalCase(e, c)
	if g2 == w2 {
		// depends on what ran before on this runtime: re-run on a fresh one to decide
		e = newEnv()
		g2, w2 = evalCase(e, c)
		if g2 == w2 {
			c.Got, c.Want = string(got), string(want)
			w.r.Violation("history-dependent|"+c.Op+"|"+symptom(c, got, want).String(), "outcome differs from the model only after other cases ran on the same runtime: "+c.describe()+" gave "+clip(string(got))+", expected "+clip(string(want)), c)
			return
		}
	}
	sym := symptom(c, g2, w2)
	cur := c.clone()
	curH := outcomeHash(c, g2, w2)
	state := func() string { return cur.key() + "|" + sym.String() }
	path := []string{state()}
	for {
		if sig, ok := w.cache.lookup(state()); ok {
			w.cache.store(path, sig, false)
			w.r.Violation(sig, "", cur)
			return
		}
		if !w.cache.budgetLeft() {
			w.r.Violation("unminimised|"+c.Op+"|"+sym.String(), "evaluation budget for minimising failing cases exhausted: "+cur.describe(), cur)
			return
		}
		progressed := false
		feat := features(cur)
		for _, mk := range candidates(cur) {
			d := mk()
			if d == nil || d.Value == nil && d.Units == nil {
				continue
			}
			// A step is kept only if the case still fails with a covered symptom AND it does not bring in a kind
			// of input the current case does not have (an empty container, another replacer, ...) - unless the
			// observed and expected results are literally unchanged. Otherwise the descent could leave the defect
			// it started from and end in a different one that merely looks alike.
			if r := w.cache.eval(e, d); r.fails && sym.covers(r.sym) && (r.h == curH || !introduces(feat, cur, d)) {
				cur, sym, curH = d, r.sym, r.h
				path = append(path, state())
				progressed = true
				break
			}
		}
		if !progressed {
			break
		}
	}
	m := cur
	var mg, mw outcome
	for i := 0; i < 5; i++ {
		mg, mw = evalCase(newEnv(), m)
		if mg == mw || symptom(m, mg, mw) != sym {
			w.r.Violation("nondeterministic|"+m.key(), "failure does not reproduce identically on every fresh runtime: "+m.describe(), m)
			return
		}
	}
	m.Got, m.Want = string(mg), string(mw)
	m.Family = c.Family
	if m.Value != nil {
		m.ValueSrc = jm.Src(m.Value.build())
	}
	if m.Units != nil {
		m.Text = jm.JSStr(m.Units)
	}
	sig := m.signature(sym.String())
	w.r.Violation(sig, m.describe()+" gives "+clip(readable(mg))+", expected "+clip(readable(mw)), m)
	w.cache.store(path, sig, true)
}

func clip(s string) string {
	if len(s) > 300 {
		return s[:300] + "…"
	}
	return s
}

func readable(o outcome) string {
	if o == "" {
		return "?"
	}
	switch o[0] {
	case 'E':
		return "throw " + string(o[1:])
	case 'U':
		return "undefined"
	case 'P':
		return "Go panic: " + string(o[1:])
	}
	return string(o[1:])
}

func (c *Case) signature(sym string) string {
	switch c.Op {
	case "parse", "canon":
		s := c.Op + "|" + sym + "|text=" + abstractText(c.Units)
		if c.Op == "parse" && c.Reviver != "" && c.Reviver != "absent" {
			s += "|reviver=" + c.Reviver
		}
		return s
	case "stringify":
		s := "stringify|" + sym + "|value=" + c.Value.String()
		if c.Replacer != "" && c.Replacer != "none" {
			s += "|replacer=" + c.Replacer
		}
		if c.Indent != "" && c.Indent != "absent" {
			s += "|indent=" + c.Indent
		}
		return s
	case "marshal":
		return "marshal|" + sym + "|value=" + c.Value.String()
	case "roundtrip":
		s := "roundtrip|" + sym + "|value=" + c.Value.String()
		if c.Indent != "" && c.Indent != "absent" {
			s += "|indent=" + c.Indent
		}
		return s
	}
	return "expr|" + sym + "|" + c.Expr
}

func mapNode(n *Node, f func(*Node) *Node) *Node {
	if n == nil {
		return f(nil)
	}
	m := &Node{Leaf: n.Leaf, Kind: n.Kind, Keys: n.Keys, Share: n.Share}
	for _, k := range n.Kids {
		m.Kids = append(m.Kids, mapNode(k, f))
	}
	return f(m)
}

// unshare: every position gets its own object (is the aliasing essential for the failure?)
func unshare(n *Node) *Node {
	if n != nil {
		n.Share = 0
	}
	return n
}

// normShare drops share marks that occur only once in the tree (an alias of nothing).
func normShare(root *Node) *Node {
	counts := map[int]int{}
	var walk func(n *Node)
	walk = func(n *Node) {
		if n == nil {
			return
		}
		if n.Share != 0 {
			counts[n.Share]++
		}
		for _, k := range n.Kids {
			walk(k)
		}
	}
	walk(root)
	single := false
	for _, c := range counts {
		if c < 2 {
			single = true
		}
	}
	if !single {
		return root
	}
	return mapNode(root, func(n *Node) *Node {
		if n != nil && n.Share != 0 && counts[n.Share] < 2 {
			n.Share = 0
		}
		return n
	})
}

func leavesToOne(n *Node) *Node {
	if n != nil && n.Kind == "" {
		return leafNode("1")
	}
	return n
}
func holesToOne(n *Node) *Node {
	if n == nil {
		return leafNode("1")
	}
	return n
}
func objsToArrs(n *Node) *Node {
	if n != nil && n.Kind == "obj" {
		return &Node{Kind: "arr", Kids: n.Kids}
	}
	return n
}

// outcomeHash identifies the pair (observed, expected) up to the choice of the gap string: every copy of the gap
// in an indentation run (after a line feed) is replaced by one marker, so that the same mis-indentation shown
// with gap "ab" and with gap " " is the same observation.
func outcomeHash(c *Case, got, want outcome) uint64 {
	gap := gapOf(c)
	if len(gap) == 0 || kindOf(got) != "text" || kindOf(want) != "text" {
		return core.HashString(string(got) + "\x00" + string(want))
	}
	norm := func(o outcome) string {
		u := unquote(string(o[1:]))
		var sb strings.Builder
		for i := 0; i < len(u); i++ {
			sb.WriteString(escUnit(u[i]))
			if u[i] == '\n' {
				for i+len(gap) < len(u) && jm.Str(u[i+1:i+1+len(gap)]).Eq(gap) {
					sb.WriteString("\\G")
					i += len(gap)
				}
			}
		}
		return sb.String()
	}
	return core.HashString(norm(got) + "\x00" + norm(want))
}

// features: the kinds of input a case is made of.
func features(c *Case) map[string]bool {
	f := map[string]bool{}
	switch c.Op {
	case "parse", "canon":
		textFeatures(c.Units, f)
	default:
		c.Value.kinds(f)
	}
	return f
}

var neutral = map[string]bool{"1": true, "arr": true, "obj": true, "num": true, "str": true}

func introduces(feat map[string]bool, cur, d *Case) bool {
	switch d.Op {
	case "parse", "canon":
		if r := orDefault(d.Reviver, "absent"); r != "absent" && r != orDefault(cur.Reviver, "absent") {
			return true
		}
	default:
		if r := orDefault(d.Replacer, "none"); r != "none" && r != orDefault(cur.Replacer, "none") {
			return true
		}
		if r := orDefault(d.Indent, "absent"); r != "absent" && r != orDefault(cur.Indent, "absent") {
			return true
		}
	}
	for k := range features(d) {
		if !feat[k] && !neutral[k] {
			return true
		}
	}
	return false
}

// candidates lists the simplifications of a case, most aggressive first. They are built lazily: in the common
// situation one of the first few is accepted (or hits the memo) and the rest is never materialised.
func candidates(c *Case) []func() *Case {
	var res []func() *Case
	with := func(f func(d *Case)) {
		res = append(res, func() *Case {
			d := *c
			f(&d)
			return &d
		})
	}
	units := func(u jm.Str) { with(func(d *Case) { d.Units = u }) }
	value := func(f func() *Node) { with(func(d *Case) { d.Value = normShare(f()) }) }
	switch c.Op {
	case "parse", "canon":
		if c.Op == "parse" {
			for _, r := range revivers {
				if r.name == orDefault(c.Reviver, "absent") {
					break
				}
				name := r.name
				with(func(d *Case) { d.Reviver = name })
			}
		}
		// the simplest texts of each shape, then every scalar token of the text on its own
		for _, t := range []string{"1", "[]", "{}", "[1]", `{"a":1}`} {
			if u := jm.S(t); len(u) < len(c.Units) {
				units(u)
			}
		}
		for _, tok := range scalarTokens(c.Units) {
			if len(tok) < len(c.Units) {
				units(append(jm.Str{}, tok...))
			}
		}
		// every scalar token -> 1, every string token -> "a"
		for _, sp := range scalarSpans(c.Units) {
			sp := sp
			for _, repl := range []string{"1", `"a"`} {
				repl := jm.S(repl)
				if (c.Units[sp[0]] != '"' && len(repl) > 1) || jm.Str(c.Units[sp[0]:sp[1]]).Eq(repl) {
					continue
				}
				with(func(d *Case) {
					d.Units = append(append(append(jm.Str{}, c.Units[:sp[0]]...), repl...), c.Units[sp[1]:]...)
				})
			}
		}
		n := len(c.Units)
		if n <= 64 && jm.Valid(c.Units) {
			// every proper substring that is itself a JSON text, shortest first
			for l := 1; l < n; l++ {
				for s := 0; s+l <= n; s++ {
					if sub := c.Units[s : s+l]; jm.Valid(sub) {
						units(append(jm.Str{}, sub...))
					}
				}
			}
		}
		for l := n / 2; l >= 1; l-- {
			if n > 128 && l&(l-1) != 0 {
				continue // long texts: only power-of-two chunks
			}
			for s := 0; s+l <= n; s++ {
				s, l := s, l
				with(func(d *Case) { d.Units = append(append(jm.Str{}, c.Units[:s]...), c.Units[s+l:]...) })
			}
		}
		for i, u := range c.Units {
			var repl uint16
			switch {
			case u >= '2' && u <= '9':
				repl = '1'
			case u == 'E':
				repl = 'e'
			case u > 0x7f && (u < 0xD800 || u > 0xDFFF):
				repl = 'x'
			default:
				continue
			}
			i := i
			with(func(d *Case) {
				d.Units = append(jm.Str{}, c.Units...)
				d.Units[i] = repl
			})
		}
	case "stringify", "marshal", "roundtrip":
		if c.Op == "stringify" {
			for _, r := range replacers {
				if r.name == orDefault(c.Replacer, "none") {
					break
				}
				name := r.name
				with(func(d *Case) { d.Replacer = name })
			}
		}
		if c.Op != "marshal" {
			for _, r := range indents {
				if r.name == orDefault(c.Indent, "absent") {
					break
				}
				name := r.name
				with(func(d *Case) { d.Indent = name })
			}
		}
		// bulk rewrites: all leaves -> 1, each kind of leaf -> 1, all holes -> 1, all objects -> arrays
		bulk := []func(n *Node) *Node{unshare, leavesToOne}
		kinds := map[string]bool{}
		c.Value.kinds(kinds)
		var names []string
		for k := range kinds {
			names = append(names, k)
		}
		sort.Strings(names)
		for _, k := range names {
			if k != "1" && find(leavesFull, k) != nil {
				k := k
				bulk = append(bulk, func(n *Node) *Node {
					if n != nil && n.Kind == "" && n.Leaf == k {
						return leafNode("1")
					}
					return n
				})
			}
		}
		bulk = append(bulk, holesToOne, objsToArrs)
		cur := c.Value.String()
		for _, f := range bulk {
			if v := mapNode(c.Value, f); v.String() != cur {
				value(func() *Node { return v })
			}
		}
		for _, f := range nodeCandidates(c.Value) {
			value(f)
		}
	}
	return res
}

// nodeCandidates: every tree obtained by one simplification step at one position (lazily built).
func nodeCandidates(root *Node) []func() *Node {
	var res []func() *Node
	var paths [][]int
	var walk func(n *Node, p []int)
	walk = func(n *Node, p []int) {
		paths = append(paths, append([]int(nil), p...))
		if n == nil {
			return
		}
		for i, k := range n.Kids {
			walk(k, append(p, i))
		}
	}
	walk(root, nil)
	at := func(r *Node, p []int) (parent *Node, idx int, n *Node) {
		n = r
		idx = -1
		for _, i := range p {
			parent, idx, n = n, i, n.Kids[i]
		}
		return
	}
	replace := func(p []int, f func(n *Node) *Node) {
		res = append(res, func() *Node {
			r := root.clone()
			parent, idx, n := at(r, p)
			m := f(n)
			if parent == nil {
				return m
			}
			parent.Kids[idx] = m
			return r
		})
	}
	for _, p := range paths {
		_, _, n := at(root, p)
		if n == nil {
			replace(p, func(*Node) *Node { return leafNode("1") })
			continue
		}
		if !(n.Kind == "" && n.Leaf == "1") {
			replace(p, func(*Node) *Node { return leafNode("1") })
		}
		if n.Kind != "" {
			for i := range n.Kids {
				if n.Kids[i] != nil && len(p) > 0 || n.Kids[i] != nil {
					i := i
					replace(p, func(m *Node) *Node { return m.Kids[i] }) // hoist a child
				}
			}
			for i := range n.Kids {
				i := i
				replace(p, func(m *Node) *Node { // drop a child
					m.Kids = append(append([]*Node{}, m.Kids[:i]...), m.Kids[i+1:]...)
					if m.Kind == "obj" {
						m.Keys = append(append([]string{}, m.Keys[:i]...), m.Keys[i+1:]...)
					}
					return m
				})
			}
			if n.Kind == "obj" {
				// object -> array, children in every order (index keys are serialised before string keys)
				for _, perm := range permutations(len(n.Kids)) {
					perm := perm
					replace(p, func(m *Node) *Node {
						a := &Node{Kind: "arr"}
						for _, i := range perm {
							a.Kids = append(a.Kids, m.Kids[i])
						}
						return a
					})
				}
				// each key -> every simpler unused key
				for i, k := range n.Keys {
					for _, nk := range keyOrder {
						if nk == k {
							break
						}
						used := false
						for _, k2 := range n.Keys {
							if k2 == nk {
								used = true
							}
						}
						if !used {
							i, nk := i, nk
							replace(p, func(m *Node) *Node { m.Keys[i] = nk; return m })
						}
					}
				}
			}
		} else if n.Leaf != "1" {
			// a non-trivial leaf: plain containers of each basic shape, then every simpler leaf of the alphabet
			replace(p, func(*Node) *Node { return &Node{Kind: "arr"} })
			replace(p, func(*Node) *Node { return &Node{Kind: "obj"} })
			replace(p, func(*Node) *Node { return &Node{Kind: "arr", Kids: []*Node{leafNode("1")}} })
			replace(p, func(*Node) *Node { return &Node{Kind: "obj", Keys: []string{"a"}, Kids: []*Node{leafNode("1")}} })
			for _, it := range leavesFull[1:] {
				if it.name == n.Leaf {
					break
				}
				name := it.name
				if share := n.Share; share != 0 {
					// a shared leaf is switched in all its positions, keeping the aliasing
					res = append(res, func() *Node {
						return mapNode(root, func(m *Node) *Node {
							if m != nil && m.Share == share {
								return &Node{Leaf: name, Share: share}
							}
							return m
						})
					})
					continue
				}
				replace(p, func(*Node) *Node { return leafNode(name) })
			}
		}
	}
	return res
}

// scalarTokens: the strings, numbers and literals of a text (lenient scan).
func scalarTokens(t jm.Str) []jm.Str {
	var res []jm.Str
	for _, sp := range scalarSpans(t) {
		res = append(res, t[sp[0]:sp[1]])
	}
	return res
}

func scalarSpans(t jm.Str) [][2]int {
	var res [][2]int
	lit := func(i int) int {
		for _, w := range []string{"true", "false", "null"} {
			if i+len(w) <= len(t) && jm.Str(t[i:i+len(w)]).Eq(jm.S(w)) {
				return i + len(w)
			}
		}
		return -1
	}
	for i := 0; i < len(t); {
		c := t[i]
		switch {
		case c == '"':
			end := jm.ScanString(t, i)
			if end < 0 {
				return res
			}
			res = append(res, [2]int{i, end})
			i = end
		case c == '-' || c >= '0' && c <= '9':
			end := jm.ScanNumber(t, i)
			if end < 0 {
				i++
				continue
			}
			res = append(res, [2]int{i, end})
			i = end
		case lit(i) > 0:
			res = append(res, [2]int{i, lit(i)})
			i = lit(i)
		default:
			i++
		}
	}
	return res
}

func permutations(n int) [][]int {
	if n > 3 {
		id := make([]int, n)
		for i := range id {
			id[i] = i
		}
		return [][]int{id}
	}
	var res [][]int
	var rec func(cur []int, used int)
	rec = func(cur []int, used int) {
		if len(cur) == n {
			res = append(res, append([]int(nil), cur...))
			return
		}
		for i := 0; i < n; i++ {
			if used&(1<<uint(i)) == 0 {
				rec(append(cur, i), used|1<<uint(i))
			}
		}
	}
	rec(nil, 0)
	return res
}

// ---------- replay ----------

func replay(r *core.Run, raw json.RawMessage) {
	var c Case
	if err := json.Unmarshal(raw, &c); err != nil {
		r.Violation("replay|bad", err.Error(), nil)
		return
	}
	r.Eval(1)
	got, want := evalCase(newEnv(), &c)
	if got != want {
		sym := symptom(&c, got, want)
		r.Violation(c.signature(sym.String()), c.describe()+" gives "+clip(readable(got))+", expected "+clip(readable(want)), &c)
	}
}

// ---------- run ----------

func run(r *core.Run) {
	r.Assume("oracle = verif/ref/jsonmodel (ECMA-404 recogniser cross-checked exhaustively against encoding/json.Valid in its unit test; ECMA-262 2024 JSON.parse/JSON.stringify steps; Number::toString from strconv shortest digits)")
	r.Assume("documented exception kept out of the alphabets: lone (broken) surrogates in JSON.parse input, escaped or raw (README 'JSON'); stringify of strings with lone surrogates is in scope")
	r.Assume("prototype objects are pristine (no toJSON on Object/Array/Number/BigInt prototypes); proxies are trap-less; numbers in texts have <= 20 significant digits (beyond that ECMA-262 allows two results)")
	r.Assume("the JS-side dump helper (typeof, Reflect.ownKeys, getOwnPropertyDescriptor, Array.isArray) is trusted; number bits and string units are read by Go natives")
	if pf := os.Getenv("VERIF_C19_PROF"); pf != "" {
		f, _ := os.Create(pf)
		pprof.StartCPUProfile(f)
		defer pprof.StopCPUProfile()
	}
	cache := newSigCache()
	bounds := map[string]interface{}{}
	complete := true
	type step = func(*core.Run, *sigCache, map[string]interface{}) bool
	// every family at the quick bounds first (simplest first); the thorough tier then re-runs the families with
	// their extended bounds, the open-ended ones last, so that a deadline cut never starves a whole family
	levels := [][]step{{runCorpus, runStringifyA1, runStringifyAlias, runStringifyB, runParseGrammar, runStringifyA2, runWhitespace, runEdits, runNesting, runSymbols, runStringifyDeep}}
	if r.Thorough() {
		levels = append(levels, []step{runWhitespace, runEdits, runNesting, runStringifyA2, runStringifyB, runSymbols, runStringifyDeep, runParseGrammar})
	}
	if only := os.Getenv("VERIF_C19_ONLY"); only != "" {
		// development aid: run selected thorough extensions only, e.g. VERIF_C19_ONLY=A2,deep
		names := map[string]step{"S": runStringifyAlias, "A1": runStringifyA1, "A2": runStringifyA2, "B": runStringifyB, "deep": runStringifyDeep, "grammar": runParseGrammar, "ws": runWhitespace, "edits": runEdits, "nesting": runNesting, "symbols": runSymbols}
		var sel []step
		for _, n := range strings.Split(only, ",") {
			sel = append(sel, names[n])
		}
		levels = [][]step{{runCorpus}, sel}
	}
	var walls, cpus []float64
	for lvl, steps := range levels {
		tierLevel = lvl
		for _, s := range steps {
			if r.Expired() {
				complete = false
				break
			}
			t0 := time.Now()
			c0 := cpuSeconds()
			if !s(r, cache, bounds) {
				complete = false
			}
			walls = append(walls, float64(int(time.Since(t0).Seconds()*10))/10)
			cpus = append(cpus, float64(int((cpuSeconds()-c0)*10))/10)
		}
	}
	r.Set("phase_wall_s", walls)
	r.Set("phase_cpu_s", cpus)
	r.Set("bounds_completed", bounds)
	r.Set("minimisations", int64(cache.minis))
	r.Set("minimisation_evaluations", cache.fresh)
	r.Exhaustive(complete)
}

// tierLevel: 0 while the families run at their quick bounds, 1 while the thorough tier runs the extended bounds.
// Set by run() between phases only.
var tierLevel int

func pickL(q, t int) int {
	if tierLevel == 1 {
		return t
	}
	return q
}

func bkey(name string) string {
	if tierLevel == 1 {
		return name + " (thorough extension)"
	}
	return name
}

// countNT: non-trivial cases are counted once; the thorough extensions that re-run the same values / texts with
// more combinations do not count them again.
func countNT(r *core.Run, n int64, newSpace bool) {
	if tierLevel == 0 || newSpace {
		r.NontrivialN(n)
	}
}

func sortedKeys(m map[string]bool) string {
	var k []string
	for s := range m {
		k = append(k, s)
	}
	sort.Strings(k)
	return strings.Join(k, ",")
}

func cpuSeconds() float64 {
	var ru syscall.Rusage
	syscall.Getrusage(syscall.RUSAGE_SELF, &ru)
	return float64(ru.Utime.Sec+ru.Stime.Sec) + float64(ru.Utime.Usec+ru.Stime.Usec)/1e6
}
