package c19

import (
	"fmt"

	"verif/core"
	jm "verif/ref/jsonmodel"
)

// exprCorpus: fixed expressions around the two builtins whose expected outcome is written down by hand from
// ECMA-262 (argument coercion, abrupt completions passing through, function metadata).
var exprCorpus = []struct{ expr, expect string }{
	{`JSON.parse(1)`, "VN3ff0000000000000"},
	{`JSON.parse(null)`, "VL"},
	{`JSON.parse(true)`, "VT"},
	{`JSON.parse(["1"])`, "VN3ff0000000000000"},
	{`JSON.parse({toString(){return "[1]"}})`, `VA1["0":N3ff0000000000000,]`},
	{`JSON.parse(new String(' "x" '))`, vs("x")},
	{`JSON.parse()`, "ESyntaxError"},
	{`JSON.parse(undefined)`, "ESyntaxError"},
	{`JSON.parse("")`, "ESyntaxError"},
	{`JSON.parse(Symbol())`, "ETypeError"},
	{`JSON.parse({toString(){throw new RangeError("x")}})`, "ERangeError"},
	{`JSON.stringify()`, "VU"},
	{`JSON.stringify(undefined, null, 2)`, "VU"},
	{`JSON[Symbol.toStringTag]`, vs("JSON")},
	{`JSON.parse.length*10+JSON.stringify.length`, "VN4037000000000000"},
	{`JSON.parse.name+JSON.stringify.name`, vs("parsestringify")},
	{`BigInt.prototype.toJSON=function(k){return "big"+k}; try{JSON.stringify([1n,Object(2n)])}finally{delete BigInt.prototype.toJSON}`, vs("[\"big0\",\"big1\"]")},
	{`JSON.parse("[1]",function(){throw new RangeError("x")})`, "ERangeError"},
	{`JSON.stringify({toJSON(){throw new RangeError("x")}})`, "ERangeError"},
	{`JSON.stringify({get a(){throw new RangeError("x")}})`, "ERangeError"},
	{`JSON.stringify([1],function(){throw new RangeError("x")})`, "ERangeError"},
	{`var p=Proxy.revocable([],{});p.revoke();JSON.stringify(p.proxy)`, "ETypeError"},
	{`var p=Proxy.revocable([],{});p.revoke();JSON.stringify({a:p.proxy})`, "ETypeError"},
	{`var p=Proxy.revocable([],{});p.revoke();JSON.stringify({a:1},p.proxy)`, "ETypeError"},
	{`var p=Proxy.revocable({},{});p.revoke();JSON.parse("[0,1]",function(k,v){if(k==="0")this[1]=p.proxy;return v})`, "ETypeError"},
	{`var log=[];JSON.stringify({a:[1]},{get length(){log.push("len");return 0}});log.join()`, vs("")},
	{`var log=[];JSON.stringify({b:1,a:2},new Proxy(["a"],{get(t,k,r){log.push(String(k));return Reflect.get(t,k,r)}}));log.join()`, vs("length,0")},
	{`var log=[];var sp={};sp.valueOf=function(){log.push("v");return 2};JSON.stringify([1],null,sp)`, vs("[1]")},
	{`var n=new Number(3);n.valueOf=function(){return 1};JSON.stringify([1],null,n)`, vs("[\n 1\n]")},
	{`var n=new Number(3);n.valueOf=function(){return 5};JSON.stringify(n)`, vs("5")},
	{`var s=new String("x");s.toString=function(){return "y"};JSON.stringify(s)`, vs("\"y\"")},
	{`var s=new String("x");s.toString=function(){return "yz"};JSON.stringify([1],null,s)`, vs("[\nyz1\n]")},
	{`var s=new String("a");s.toString=function(){return "b"};JSON.stringify({a:1,b:2},[s])`, vs("{\"b\":2}")},
	{`JSON.stringify({a:1,b:[1,{c:2}]},null,"--")`, vs("{\n--\"a\": 1,\n--\"b\": [\n----1,\n----{\n------\"c\": 2\n----}\n--]\n}")},
}

func vs(s string) string { return "VS" + jm.S(s).Quote() }

// known minimal failing inputs (kept so that every listed finding is reached first, deterministically)
func regressionCases() []*Case {
	n := func(leaf string) *Node { return leafNode(leaf) }
	a := func(k ...*Node) *Node { return &Node{Kind: "arr", Kids: k} }
	o := func(key string, k *Node) *Node { return &Node{Kind: "obj", Keys: []string{key}, Kids: []*Node{k}} }
	return []*Case{
		parseCase(jm.S("1"), "null"),
		parseCase(jm.S("1E+400"), "absent"),
		parseCase(jm.S("1.7976931348623159e308"), "absent"),
		{Op: "stringify", Value: a(a(), a(n("1"))), Replacer: "none", Indent: "1"},
		{Op: "stringify", Value: a(&Node{Kind: "obj"}, a(n("1"))), Replacer: "none", Indent: "1"},
		{Op: "stringify", Value: a(o("a", n("undefined")), a(n("1"))), Replacer: "none", Indent: "1"},
		{Op: "stringify", Value: a(n("1")), Replacer: "none", Indent: "1e30"},
		{Op: "stringify", Value: a(n("1")), Replacer: "none", Indent: "inf"},
		{Op: "stringify", Value: a(n("1")), Replacer: "none", Indent: "nonascii11"},
		{Op: "stringify", Value: a(n("1")), Replacer: "none", Indent: "e-acute"},
		{Op: "stringify", Value: a(n("1")), Replacer: "none", Indent: "astral-odd"},
		{Op: "stringify", Value: n("box:symbol"), Replacer: "none", Indent: "absent"},
		{Op: "marshal", Value: n("box:symbol")},
	}
}

func runCorpus(r *core.Run, cache *sigCache, bounds map[string]interface{}) bool {
	w := newWorker(r, cache)
	for i, c := range regressionCases() {
		c.Family = fmt.Sprintf("regression/%d", i)
		w.check(c)
	}
	for i, x := range exprCorpus {
		w.e = nil // fresh runtime: some expressions patch prototypes temporarily
		w.check(&Case{Op: "expr", Expr: x.expr, Expect: x.expect, Family: fmt.Sprintf("expr/%d", i)})
		r.NontrivialN(1)
	}
	w.e = nil
	bounds["corpus"] = fmt.Sprintf("%d regression cases, %d hand-written expressions (argument coercion, abrupt completions, proxies, metadata)", len(regressionCases()), len(exprCorpus))
	return true
}
