package c19

import (
	_ "embed"
	"encoding/json"
	"fmt"

	"verif/core"
	jm "verif/ref/jsonmodel"
)

// exprCorpus: fixed expressions around the two builtins whose expected outcome is written down by hand from
// ECMA-262 (argument coercion, abrupt completions passing through, function metadata).
var exprCorpus = []struct{ expr, expect string }{
	{`JSON.parse(1)`, "VN3ff0000000000000"},
	{`JSON.parse(null)`, "VL"},
	{`JSON.parse(true)`, "VT"},
	{`JSON.parse(["1"])`, "VN3ff0000000000000"},
	{`JSON.parse({toString(){return "[1]"}})`, `VA1["0":N3ff0000000000000,]`},
	{`JSON.parse(new String(' "x" '))`, vs("x")},
	{`JSON.parse()`, "ESyntaxError"},
	{`JSON.parse(undefined)`, "ESyntaxError"},
	{`JSON.parse("")`, "ESyntaxError"},
	{`JSON.parse(Symbol())`, "ETypeError"},
	{`JSON.parse({toString(){throw new RangeError("x")}})`, "ERangeError"},
	{`JSON.stringify()`, "VU"},
	{`JSON.stringify(undefined, null, 2)`, "VU"},
	{`JSON[Symbol.toStringTag]`, vs("JSON")},
	{`JSON.parse.length*10+JSON.stringify.length`, "VN4037000000000000"},
	{`JSON.parse.name+JSON.stringify.name`, vs("parsestringify")},
	{`BigInt.prototype.toJSON=function(k){return "big"+k}; try{JSON.stringify([1n,Object(2n)])}finally{delete BigInt.prototype.toJSON}`, vs("[\"big0\",\"big1\"]")},
	{`JSON.parse("[1]",function(){throw new RangeError("x")})`, "ERangeError"},
	{`JSON.stringify({toJSON(){throw new RangeError("x")}})`, "ERangeError"},
	{`JSON.stringify({get a(){throw new RangeError("x")}})`, "ERangeError"},
	{`JSON.stringify([1],function(){throw new RangeError("x")})`, "ERangeError"},
	{`var p=Proxy.revocable([],{});p.revoke();JSON.stringify(p.proxy)`, "ETypeError"},
	{`var p=Proxy.revocable([],{});p.revoke();JSON.stringify({a:p.proxy})`, "ETypeError"},
	{`var p=Proxy.revocable([],{});p.revoke();JSON.stringify({a:1},p.proxy)`, "ETypeError"},
	{`var p=Proxy.revocable({},{});p.revoke();JSON.parse("[0,1]",function(k,v){if(k==="0")this[1]=p.proxy;return v})`, "ETypeError"},
	{`var log=[];JSON.stringify({a:[1]},{get length(){log.push("len");return 0}});log.join()`, vs("")},
	{`var log=[];JSON.stringify({b:1,a:2},new Proxy(["a"],{get(t,k,r){log.push(String(k));return Reflect.get(t,k,r)}}));log.join()`, vs("length,0")},
	{`var log=[];var sp={};sp.valueOf=function(){log.push("v");return 2};JSON.stringify([1],null,sp)`, vs("[1]")},
	{`var n=new Number(3);n.valueOf=function(){return 1};JSON.stringify([1],null,n)`, vs("[\n 1\n]")},
	{`var n=new Number(3);n.valueOf=function(){return 5};JSON.stringify(n)`, vs("5")},
	{`var s=new String("x");s.toString=function(){return "y"};JSON.stringify(s)`, vs("\"y\"")},
	{`var s=new String("x");s.toString=function(){return "yz"};JSON.stringify([1],null,s)`, vs("[\nyz1\n]")},
	{`var s=new String("a");s.toString=function(){return "b"};JSON.stringify({a:1,b:2},[s])`, vs("{\"b\":2}")},
	{`JSON.stringify({a:1,b:[1,{c:2}]},null,"--")`, vs("{\n--\"a\": 1,\n--\"b\": [\n----1,\n----{\n------\"c\": 2\n----}\n--]\n}")},
}

func vs(s string) string { return "VS" + jm.S(s).Quote() }

// regression.json: the minimal failing case of every listed finding (the "case" objects of the replay files),
// run first so that the quick tier reaches each of them deterministically, whatever the budget.
//
//go:embed regression.json
var regressionJSON []byte

func regressionCases() []*Case {
	var cs []*Case
	if err := json.Unmarshal(regressionJSON, &cs); err != nil {
		panic("c19: regression.json: " + err.Error())
	}
	for _, c := range cs {
		c.Got, c.Want = "", ""
	}
	return cs
}

// guardCases: minimal inputs of defects that are NOT in the pinned tree but were once missed by this check
// (seeded defects); they pass on a correct engine and are run first.
func guardCases() []*Case {
	sh := func(leaf string) *Node { return &Node{Leaf: leaf, Share: 1} }
	one := leafNode("1")
	arr := func(k ...*Node) *Node { return &Node{Kind: "arr", Kids: k} }
	o := &Node{Kind: "obj", Keys: []string{"a", "b"}, Kids: []*Node{leafNode("function"), one}, Share: 1}
	f := sh("function")
	var cs []*Case
	for _, v := range []*Node{
		{Kind: "obj", Keys: []string{"a", "b"}, Kids: []*Node{f, f}}, // var f=function(){}; {a:f,b:f}
		arr(f, one, f), // [f,1,f]
		arr(o, o),      // var o={a:function(){},b:1}; [o,o]
		arr(arr(f), f), // [[f],f]
		arr(sh("proxy:fn"), sh("proxy:fn")),
	} {
		cs = append(cs, &Case{Op: "stringify", Value: v, Replacer: "none", Indent: "absent"},
			&Case{Op: "stringify", Value: v, Replacer: "fn:id", Indent: "1"},
			&Case{Op: "marshal", Value: v})
	}
	return cs
}

func runCorpus(r *core.Run, cache *sigCache, bounds map[string]interface{}) bool {
	w := newWorker(r, cache)
	for i, c := range regressionCases() {
		c.Family = fmt.Sprintf("regression/%d", i)
		w.check(c)
	}
	for i, c := range guardCases() {
		c.Family = fmt.Sprintf("guard/%d", i)
		w.check(c)
		r.NontrivialN(1)
	}
	for i, x := range exprCorpus {
		w.e = nil // fresh runtime: some expressions patch prototypes temporarily
		w.check(&Case{Op: "expr", Expr: x.expr, Expect: x.expect, Family: fmt.Sprintf("expr/%d", i)})
		r.NontrivialN(1)
	}
	w.e = nil
	bounds["corpus"] = fmt.Sprintf("%d regression cases, %d guard cases (aliasing), %d hand-written expressions (argument coercion, abrupt completions, proxies, metadata)", len(regressionCases()), len(guardCases()), len(exprCorpus))
	return true
}
