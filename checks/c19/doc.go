// Package c19 decides C19 (JSON.parse / JSON.stringify conform to ECMA-404 / ECMA-262 and round-trip) by
// bounded-exhaustive enumeration against the reference model verif/ref/jsonmodel:
//
//	parse:     every token sequence of the JSON grammar up to N tokens over a token alphabet of well- and
//	           ill-formed scalars and keys, every white-space placement of small texts, every single-code-unit
//	           edit of every accepted small text, every string up to a length over a symbol alphabet, all
//	           nestings up to depth 8; x revivers (absent, non-callable, logging, deleting, replacing, mutating)
//	stringify: every value tree up to a depth over a leaf alphabet containing every kind of value the
//	           property names x replacers x indents; Object.MarshalJSON; parse(stringify(v)); stringify(parse(t)).
//
// Every case is executed on the real engine and on the model and the complete observable outcome is compared.
package c19
