// Package c19 holds the check for property C19.
package c19
