package c19

import (
	"fmt"
	"strings"

	jm "verif/ref/jsonmodel"

	"github.com/dop251/goja"
)

// helpers evaluated once per runtime. dump renders the complete observable structure of a value: own keys in
// [[OwnPropertyKeys]] order, attributes that differ from a plain data property, array length (holes show as
// missing keys), prototype identity, extensibility, exact number bit patterns (so -0 and 1 ulp are visible) and
// strings per UTF-16 code unit. jsonmodel.Dump produces the same text from the model value.
const helperSrc = `
var __log = [];
function dump(v){
  switch (typeof v) {
  case "undefined": return "U";
  case "boolean": return v ? "T" : "F";
  case "number": return "N" + __bits(v);
  case "string": return "S" + __q(v);
  case "bigint": return "B" + v;
  case "symbol": return "Y";
  case "function": return "f";
  }
  if (v === null) return "L";
  var isA = Array.isArray(v), s = "";
  if (Object.getPrototypeOf(v) !== (isA ? Array.prototype : Object.prototype)) s += "!proto";
  if (!Object.isExtensible(v)) s += "!ext";
  s += isA ? "A" + v.length + "[" : "O{";
  var ks = Reflect.ownKeys(v);
  for (var i = 0; i < ks.length; i++) {
    var k = ks[i];
    if (typeof k === "symbol") { s += "Y,"; continue; }
    if (isA && k === "length") continue;
    var d = Object.getOwnPropertyDescriptor(v, k);
    s += __q(k);
    if (!("value" in d)) { s += "!acc,"; continue; }
    if (!d.writable || !d.enumerable || !d.configurable) s += "!" + (d.writable?"w":"") + (d.enumerable?"e":"") + (d.configurable?"c":"");
    s += ":" + dump(d.value) + ",";
  }
  return s + (isA ? "]" : "}");
}
function __takeLog(){ var s = __log.join("|"); __log.length = 0; return s; }
`

// env is one goja runtime with the helpers installed. Not shared between goroutines.
type env struct {
	vm        *goja.Runtime
	parse     goja.Callable
	stringify goja.Callable
	dump      goja.Callable
	takeLog   goja.Callable
	cache     map[string]goja.Value
	vals      map[string]goja.Value // engine values by source text (stringify never mutates its input)
	used      int
}

func newEnv() *env {
	e := &env{vm: goja.New(), cache: map[string]goja.Value{}, vals: map[string]goja.Value{}}
	e.vm.SetMaxCallStackSize(400)
	e.vm.Set("__bits", func(call goja.FunctionCall) goja.Value {
		return e.vm.ToValue(jm.NumBits(call.Argument(0).ToFloat()))
	})
	e.vm.Set("__q", func(call goja.FunctionCall) goja.Value {
		return e.vm.ToValue(jm.Str(goja.VerifUnits(call.Argument(0))).Quote())
	})
	if _, err := e.vm.RunString(helperSrc); err != nil {
		panic("c19 helpers: " + err.Error())
	}
	fn := func(src string) goja.Callable {
		v, err := e.vm.RunString(src)
		if err != nil {
			panic(err)
		}
		c, ok := goja.AssertFunction(v)
		if !ok {
			panic("not a function: " + src)
		}
		return c
	}
	e.parse = fn("JSON.parse")
	e.stringify = fn("JSON.stringify")
	e.dump = fn("dump")
	e.takeLog = fn("__takeLog")
	return e
}

// eval builds a goja value from JavaScript source (memoised per runtime).
func (e *env) eval(src string) (v goja.Value, err error) {
	if v, ok := e.vals[src]; ok {
		return v, nil
	}
	defer func() {
		if x := recover(); x != nil {
			err = fmt.Errorf("panic: %v", x)
		}
	}()
	v, err = e.vm.RunString("(" + src + ")")
	if err == nil {
		if len(e.vals) >= 512 {
			e.vals = map[string]goja.Value{}
		}
		e.vals[src] = v
	}
	return v, err
}

// named returns the (cached) goja value of a catalogue entry.
func (e *env) named(kind string, it *item) goja.Value {
	k := kind + "/" + it.name
	if v, ok := e.cache[k]; ok {
		return v
	}
	if it.absent {
		e.cache[k] = nil
		return nil
	}
	v, err := e.eval(jm.Src(it.value(nil)))
	if err != nil {
		panic("c19: cannot build " + k + ": " + err.Error())
	}
	e.cache[k] = v
	return v
}

// outcome of one call, as a comparable string:
//
//	V<dump>[#log]   a value (parse), S"<units>" a string (stringify), U undefined,
//	E<ErrorName>    a thrown ECMAScript exception, P<text> a Go panic that escaped, X<text> any other Go error
type outcome string

func errOutcome(e *env, err error) outcome {
	if ex, ok := err.(*goja.Exception); ok {
		if o, ok := ex.Value().(*goja.Object); ok {
			name := o.Get("name")
			if name != nil {
				return outcome("E" + name.String())
			}
		}
		return outcome("Ethrown:" + ex.Value().String())
	}
	return outcome("X" + fmt.Sprintf("%T", err))
}

func (e *env) call(fn goja.Callable, args ...goja.Value) (v goja.Value, out outcome) {
	defer func() {
		if x := recover(); x != nil {
			v = nil
			out = outcome("P" + firstLine(fmt.Sprint(x)))
			e.used = 1 << 30 // discard this runtime
		}
	}()
	e.used++
	res, err := fn(goja.Undefined(), args...)
	if err != nil {
		return nil, errOutcome(e, err)
	}
	return res, ""
}

func firstLine(s string) string {
	if i := strings.IndexByte(s, '\n'); i >= 0 {
		s = s[:i]
	}
	if len(s) > 120 {
		s = s[:120]
	}
	return s
}

func (e *env) dumpOf(v goja.Value) string {
	d, out := e.call(e.dump, v)
	if out != "" {
		return "?dump:" + string(out)
	}
	return d.String()
}

func (e *env) log() string {
	l, out := e.call(e.takeLog)
	if out != "" {
		return "?log:" + string(out)
	}
	return l.String()
}

// doParse runs JSON.parse(text[, reviver]) and renders the outcome. reviver == nil: argument absent.
func (e *env) doParse(text jm.Str, reviver goja.Value, withLog bool) (goja.Value, outcome) {
	t := goja.StringFromUTF16(text)
	var v goja.Value
	var out outcome
	if reviver == nil {
		v, out = e.call(e.parse, t)
	} else {
		v, out = e.call(e.parse, t, reviver)
	}
	lg := ""
	if withLog {
		lg = "#" + e.log()
	}
	if out != "" {
		return nil, out + outcome(lg)
	}
	return v, outcome("V"+e.dumpOf(v)) + outcome(lg)
}

// doStringify runs JSON.stringify(v, rep, ind); nil rep / ind = argument undefined.
func (e *env) doStringify(v, rep, ind goja.Value) outcome {
	if rep == nil {
		rep = goja.Undefined()
	}
	var res goja.Value
	var out outcome
	if ind == nil {
		res, out = e.call(e.stringify, v, rep)
	} else {
		res, out = e.call(e.stringify, v, rep, ind)
	}
	if out != "" {
		return out
	}
	return strOutcome(res)
}

// stringifyRaw is doStringify without rendering the result.
func (e *env) stringifyRaw(v, rep, ind goja.Value) (goja.Value, outcome) {
	if rep == nil {
		rep = goja.Undefined()
	}
	if ind == nil {
		return e.call(e.stringify, v, rep)
	}
	return e.call(e.stringify, v, rep, ind)
}

func strOutcome(res goja.Value) outcome {
	if goja.IsUndefined(res) {
		return "U"
	}
	if _, ok := res.(goja.String); !ok {
		return outcome("?nonstring:" + res.String())
	}
	return outcome("S" + jm.Str(goja.VerifUnits(res)).Quote())
}

// model-side outcomes in the same notation

func modelParse(text jm.Str, reviver jm.Value, log *[]string) (jm.Value, outcome) {
	v, err := jm.Parse(text, reviver)
	lg := ""
	if log != nil {
		lg = "#" + strings.Join(*log, "|")
	}
	if err != nil {
		return jm.Undefined, outcome("E"+err.Class) + outcome(lg)
	}
	return v, outcome("V"+jm.Dump(v)) + outcome(lg)
}

func modelStringify(v, rep, ind jm.Value) (jm.Str, outcome) {
	s, ok, err := jm.Stringify(v, rep, ind)
	switch {
	case err != nil:
		return nil, outcome("E" + err.Class)
	case !ok:
		return nil, "U"
	}
	return s, outcome("S" + s.Quote())
}

func kindOf(o outcome) string {
	if o == "" {
		return "?"
	}
	switch o[0] {
	case 'V':
		return "value"
	case 'S':
		return "text"
	case 'U':
		return "undefined"
	case 'E':
		s := string(o[1:])
		if i := strings.IndexByte(s, '#'); i >= 0 {
			s = s[:i]
		}
		return s
	case 'P':
		return "GO-PANIC"
	}
	return "other"
}
