package c19

import (
	"fmt"
	"strconv"
	"strings"
	"sync"

	"verif/core"
	jm "verif/ref/jsonmodel"
)

// ---------- token alphabets (simplest first) ----------

// scalarsFull: value tokens. Well-formed and ill-formed ones are mixed on purpose: the oracle decides.
var scalarsFull = []string{
	// tiny
	`1`, `"a"`, `null`, `-0`,
	// small
	`true`, `1E+400`, `01`, `"\n"`, `1.5`, "\"\u00e9\"",
	// mid
	`false`, `0`, `1e5`, `-1e-400`, `12345678901234567890`, `"\u00e9\ud83d\ude00"`, "\"\x01\"", "\"\u2028\"", `"__proto__"`, `1.`, `.5`, `"\a"`, `""`, "\"\U0001F600\"",
	// full: numbers
	`-1`, `1E5`, `1e+5`, `1e-5`, `0.1e-2`, `-0.0`, `0e0`, `9007199254740993`, `1.7976931348623157e308`, `1.7976931348623159e308`, `5e-324`, `2e-324`, `123456789012345678.9`, `0.30000000000000004`, `4294967295`,
	`+1`, `0x1`, `1e`, `-`, `-01`, `1e+`, `1.e1`, `00`, `1_0`, `1n`, `-.5`, `1.5.5`, `1e5.5`, `--1`, `Infinity`, `-Infinity`, `NaN`, `undefined`, `tru`, `TRUE`, `nul`, `nulll`,
	// full: strings
	`"\""`, `"\\"`, `"\/"`, `"/"`, `"\b\f\r\t"`, `"\u0041"`, `"\u00E9"`, `"\uD83D\uDE00"`, `"\u0000"`, `"\u2028\u2029"`, `"\u005C"`, `"\u0022"`,
	"\"\u2029\"", "\"\x7f\"", "\"\ufeff\"", "\"\ufffd\"", "\"\ufffe\"", "\"\u0080\"", "\" \"",
	"\"\n\"", "\"\t\"", "\"\x00\"", "\"\x1f\"", `"\x41"`, `"\'"`, `"\u12"`, `"\u12G4"`, `"\U0041"`, `"\"`, `"a`, `'a'`, `"a"b"`, `"\u 041"`, `"\u+041"`, `"\0"`, `"\v"`, `"""`,
}

const (
	nTiny  = 4
	nSmall = 10
	nMid   = 24
)

// keysFull: member-name tokens.
var keysFull = []string{
	// tiny
	`"a"`, `"b"`, `"1"`,
	// small
	`"__proto__"`, `"0"`, `"\u0061"`,
	// mid
	`""`, `"10"`, `"9"`, `"01"`, `a`,
	// full
	`"c"`, `"4294967294"`, `"4294967295"`, `"constructor"`, `"toString"`, `"length"`, "\"\u00e9\"", "\"\U0001F600\"", `"-0"`, `"1.5"`, `"\n"`, `"z"`, `1`, `'a'`, `null`, "\"\n\"",
}

const (
	kTiny  = 3
	kSmall = 6
	kMid   = 11
)

func init() {
	for _, l := range [][]string{scalarsFull, keysFull, wsFull, wsSmall, symbols} {
		seen := map[string]bool{}
		for _, t := range l {
			if seen[t] {
				panic("c19: duplicate alphabet entry " + strconv.Quote(t))
			}
			seen[t] = true
		}
	}
}

// level sizes, largest first
func levels() [][2]int {
	return [][2]int{{len(scalarsFull), len(keysFull)}, {nMid, kMid}, {nSmall, kSmall}, {nTiny, kTiny}}
}

const shapeGrammar = `
V := s | @2 [ ] | @2 [ E ] | @2 { } | @2 { M }
E := @0 V | @1 V , E
M := @2 k : V | @3 k : V , M
`

// pshape is one token skeleton with its slot alphabets.
type pshape struct {
	text   string
	tokens int
	parts  []string // literal pieces between slots
	slots  []byte   // 's' or 'k'
	ns, nk int      // alphabet sizes used
	size   int64
}

func makeShape(text string, tokens int, budget int64) *pshape {
	p := &pshape{text: text, tokens: tokens}
	cur := ""
	for i := 0; i < len(text); i++ {
		c := text[i]
		if c == 's' || c == 'k' {
			p.parts = append(p.parts, cur)
			cur = ""
			p.slots = append(p.slots, c)
		} else {
			cur += string(c)
		}
	}
	p.parts = append(p.parts, cur)
	for _, l := range levels() {
		p.ns, p.nk = l[0], l[1]
		p.size = 1
		for _, s := range p.slots {
			if s == 's' {
				p.size *= int64(p.ns)
			} else {
				p.size *= int64(p.nk)
			}
			if p.size > budget {
				break
			}
		}
		if p.size <= budget {
			break
		}
	}
	return p
}

func (p *pshape) at(i int64) string {
	var sb strings.Builder
	for j, s := range p.slots {
		sb.WriteString(p.parts[j])
		if s == 's' {
			sb.WriteString(scalarsFull[i%int64(p.ns)])
			i /= int64(p.ns)
		} else {
			sb.WriteString(keysFull[i%int64(p.nk)])
			i /= int64(p.nk)
		}
	}
	sb.WriteString(p.parts[len(p.slots)])
	return sb.String()
}

// ---------- abstraction of texts for signatures ----------

func escUnit(c uint16) string {
	if c >= 0x20 && c < 0x7f {
		return string(rune(c))
	}
	return fmt.Sprintf("\\u%04x", c)
}

// textFeatures: the token classes and other characters a text consists of.
func textFeatures(t jm.Str, f map[string]bool) {
	abstractTokens(t, func(tok string) { f[tok] = true })
}

func abstractText(t jm.Str) string {
	var sb strings.Builder
	abstractTokens(t, func(tok string) { sb.WriteString(tok) })
	return sb.String()
}

func abstractTokens(t jm.Str, emit func(string)) {
	sb := emitter(emit)
	i := 0
	for i < len(t) {
		c := t[i]
		switch {
		case c == '"':
			end := jm.ScanString(t, i)
			if end < 0 {
				sb.WriteString(escUnit(c))
				i++
				continue
			}
			sb.WriteString(strClass(t[i:end]))
			i = end
		case c == '-' || c >= '0' && c <= '9':
			end := jm.ScanNumber(t, i)
			if end < 0 {
				sb.WriteString(escUnit(c))
				i++
				continue
			}
			sb.WriteString(numClass(t[i:end]))
			i = end
		default:
			sb.WriteString(escUnit(c))
			i++
		}
	}
}

type emitter func(string)

func (e emitter) WriteString(s string) { e(s) }

func strClass(lit jm.Str) string {
	feat := map[string]bool{}
	for i := 1; i < len(lit)-1; i++ {
		c := lit[i]
		switch {
		case c == '\\' && lit[i+1] == 'u':
			feat["\\u"] = true
			i += 5
		case c == '\\':
			feat["\\"+string(rune(lit[i+1]))] = true
			i++
		case c == 0x7f:
			feat["DEL"] = true
		case c >= 0xD800 && c <= 0xDFFF:
			feat["astral"] = true
		case c == 0x2028 || c == 0x2029:
			feat["LS"] = true
		case c > 0x7f:
			feat["nonascii"] = true
		}
	}
	v, err := jm.ParseText(lit)
	if err == nil {
		if v.S.Eq(jm.S("__proto__")) {
			feat["__proto__"] = true
		} else if _, ok := jm.ArrayIndex(v.S); ok {
			feat["index"] = true
		} else if len(v.S) == 0 {
			feat["empty"] = true
		}
	}
	if len(feat) == 0 {
		return "str"
	}
	return "str(" + sortedKeys(feat) + ")"
}

func numClass(tok jm.Str) string {
	s := tok.UTF8()
	f, _ := strconv.ParseFloat(s, 64)
	mant := s
	if i := strings.IndexAny(mant, "eE"); i >= 0 {
		mant = mant[:i]
	}
	digits := strings.TrimLeft(strings.NewReplacer("-", "", ".", "").Replace(mant), "0")
	switch {
	case f > 1.7976931348623157e308 || f < -1.7976931348623157e308:
		return "num(overflow)"
	case f == 0 && digits != "":
		return "num(underflow)"
	case len(digits) > 17:
		return "num(long)"
	case f == 0 && strings.HasPrefix(s, "-"):
		return "num(-0)"
	case strings.ContainsAny(s, "eE"):
		return "num(exp)"
	case strings.Contains(s, "."):
		return "num(frac)"
	}
	return "num"
}

// ---------- the common per-text routine ----------

type parseOpts struct {
	revivers bool // accepted texts x all revivers
	canon    bool // stringify(parse(t)) on accepted texts
}

// parseText runs one text through JSON.parse on both sides (fast path: no case object unless it fails).
// It returns whether the model accepts the text.
func (w *worker) parseText(t jm.Str, family string, o parseOpts) bool {
	e := w.env()
	gv, got := e.doParse(t, nil, false)
	mv, want := modelParse(t, jm.Undefined, nil)
	accepted := want[0] == 'V'
	if accepted && hasLone(mv) {
		return false // a broken surrogate pair (escaped) in the input: the documented exception
	}
	w.r.Eval(1)
	if oc := outcomeClass(got); !w.seenOut[oc] {
		w.seenOut[oc] = true
		w.r.OutcomeH(core.HashString("parse|" + oc))
	}
	if got != want {
		c := parseCase(t, "absent")
		c.Family = family
		w.fail(c, got, want)
		return accepted
	}
	if !accepted {
		return false
	}
	if o.canon {
		g := e.doStringify(gv, nil, nil)
		_, wnt := modelStringify(mv, jm.Undefined, jm.Undefined)
		w.r.Eval(1)
		if g != wnt {
			w.fail(&Case{Op: "canon", Units: t, Family: family}, g, wnt)
		}
	}
	if o.revivers {
		for _, rev := range revivers[1:] {
			var log []string
			withLog := rev.mkL != nil
			var wnt outcome
			_, g := e.doParse(t, e.named("rev", rev), withLog)
			if withLog {
				_, wnt = modelParse(t, rev.value(&log), &log)
			} else {
				_, wnt = modelParse(t, w.mval("rev", rev), nil)
			}
			w.r.Eval(1)
			if g != wnt {
				c := parseCase(t, rev.name)
				c.Family = family
				w.fail(c, g, wnt)
			}
			e = w.env()
		}
	}
	return true
}

func (w *worker) mval(kind string, it *item) jm.Value {
	k := kind + "/" + it.name
	if v, ok := w.mvals[k]; ok {
		return v
	}
	v := it.value(nil)
	w.mvals[k] = v
	return v
}

// outcomeClass is a coarse class of an outcome for the distinct-outcomes counter.
func outcomeClass(o outcome) string {
	s := string(o)
	if len(s) > 2 {
		n := len(s)
		b := 0
		for n > 0 {
			n >>= 1
			b++
		}
		return s[:2] + strconv.Itoa(b)
	}
	return s
}

// ---------- phase: grammar token sequences ----------

func runParseGrammar(r *core.Run, cache *sigCache, bounds map[string]interface{}) bool {
	maxTok := pickL(9, 11)
	revTok := pickL(7, 9)
	budget := int64(pickL(250000, 6000000))
	g := core.MustGrammar(shapeGrammar, maxTok)
	var totalCases, totalShapes int64
	for n := 1; n <= maxTok; n++ {
		cnt := int64(g.Count("V", n))
		var shapes []*pshape
		var offs []int64
		var total int64
		for i := int64(0); i < cnt; i++ {
			s := makeShape(g.Unrank("V", n, uint64(i)), n, budget)
			shapes = append(shapes, s)
			offs = append(offs, total)
			total += s.size
		}
		offs = append(offs, total)
		if total == 0 {
			continue
		}
		opts := parseOpts{revivers: n <= revTok, canon: true}
		ok := r.Parallel(total, 2048, func(wk int, lo, hi int64) {
			w := newWorker(r, cache)
			si := 0
			var accepted int64
			for idx := lo; idx < hi; idx++ {
				for offs[si+1] <= idx {
					si++
				}
				s := shapes[si]
				text := s.at(idx - offs[si])
				if r.WantSample(idx) && idx >= 64 {
					r.Sample(map[string]interface{}{"family": "parse-grammar", "tokens": n, "shape": s.text, "rank": idx - offs[si], "text": text})
				}
				if w.parseText(jm.S(text), fmt.Sprintf("grammar/tokens=%d/shape=%s/rank=%d", n, s.text, idx-offs[si]), opts) {
					accepted++
				}
			}
			countNT(r, accepted, n > 9)
		})
		if !ok {
			bounds[bkey("parse grammar")] = fmt.Sprintf("tokens<=%d complete (%d shapes, %d texts); %d tokens cut by deadline", n-1, totalShapes, totalCases, n)
			return false
		}
		totalCases += total
		totalShapes += cnt
		bounds[bkey("parse grammar")] = fmt.Sprintf("tokens<=%d complete: %d shapes, %d texts (slot alphabets: %d scalars / %d keys, reduced per shape to keep <=%d texts per shape); revivers (%d) on accepted texts of <=%d tokens", n, totalShapes, totalCases, len(scalarsFull), len(keysFull), budget, len(revivers)-1, revTok)
	}
	return true
}

// ---------- phase: white space placements ----------

var wsFull = []string{"", " ", "\n", "\t", "\r", "\r\n \t", "\v", "\f", "\u00a0", "\ufeff", "\u2028", "\u0085", "\x00", "//\n", "/**/", "\u3000"}
var wsSmall = []string{"", " ", "\n", "\t\r", "\v", "\ufeff"}

func tokenizeSimple(text string) []string {
	// texts of this phase consist of single-character structural tokens and the scalars 1, "a", true
	var toks []string
	for i := 0; i < len(text); {
		switch {
		case strings.HasPrefix(text[i:], `"a"`):
			toks = append(toks, `"a"`)
			i += 3
		case strings.HasPrefix(text[i:], "true"):
			toks = append(toks, "true")
			i += 4
		default:
			toks = append(toks, text[i:i+1])
			i++
		}
	}
	return toks
}

func runWhitespace(r *core.Run, cache *sigCache, bounds map[string]interface{}) bool {
	maxTok := pickL(5, 6)
	g := core.MustGrammar(shapeGrammar, maxTok)
	type job struct {
		toks []string
		ws   []string
		size int64
	}
	var jobs []job
	var offs []int64
	var total int64
	for n := 1; n <= maxTok; n++ {
		for i := uint64(0); i < g.Count("V", n); i++ {
			sh := g.Unrank("V", n, i)
			// fill slots with a rotating tiny alphabet
			fill := []string{"1", `"a"`, "true"}
			k := 0
			var sb strings.Builder
			for _, c := range sh {
				switch c {
				case 's':
					sb.WriteString(fill[k%3])
					k++
				case 'k':
					sb.WriteString(`"a"`)
				default:
					sb.WriteRune(c)
				}
			}
			toks := tokenizeSimple(sb.String())
			ws := wsFull
			if len(toks) > pickL(4, 5) {
				ws = wsSmall
			}
			size := int64(1)
			for j := 0; j <= len(toks); j++ {
				size *= int64(len(ws))
			}
			jobs = append(jobs, job{toks, ws, size})
			offs = append(offs, total)
			total += size
		}
	}
	offs = append(offs, total)
	ok := r.Parallel(total, 4096, func(wk int, lo, hi int64) {
		w := newWorker(r, cache)
		ji := 0
		var sb strings.Builder
		for idx := lo; idx < hi; idx++ {
			for offs[ji+1] <= idx {
				ji++
			}
			j := jobs[ji]
			v := idx - offs[ji]
			sb.Reset()
			k := int64(len(j.ws))
			for t := 0; t <= len(j.toks); t++ {
				sb.WriteString(j.ws[v%k])
				v /= k
				if t < len(j.toks) {
					sb.WriteString(j.toks[t])
				}
			}
			text := sb.String()
			if r.WantSample(idx) && idx >= 4096 {
				r.Sample(map[string]interface{}{"family": "parse-whitespace", "rank": idx, "text": text})
			}
			if w.parseText(jm.S(text), fmt.Sprintf("whitespace/rank=%d", idx), parseOpts{}) {
				countNT(r, 1, false)
			}
		}
	})
	if !ok {
		bounds[bkey("parse white space")] = "cut by deadline"
		return false
	}
	bounds[bkey("parse white space")] = fmt.Sprintf("all %d placements of %d white-space candidates (4 legal, 12 illegal) in every gap of the %d token skeletons of <=%d tokens", total, len(wsFull), len(jobs), maxTok)
	return true
}

// ---------- phase: single-code-unit edits of accepted texts ----------

var editUnits = jm.S("\"\\/[]{},:01-+.eEutna \n\t\x00\x7f\u00e9\u2028")

func runEdits(r *core.Run, cache *sigCache, bounds map[string]interface{}) bool {
	maxTok := pickL(5, 6)
	budget := int64(pickL(10000, 100000))
	g := core.MustGrammar(shapeGrammar, maxTok)
	var shapes []*pshape
	var offs []int64
	var total int64
	for n := 1; n <= maxTok; n++ {
		for i := uint64(0); i < g.Count("V", n); i++ {
			s := makeShape(g.Unrank("V", n, i), n, budget)
			shapes = append(shapes, s)
			offs = append(offs, total)
			total += s.size
		}
	}
	offs = append(offs, total)
	var bases, edits int64
	var mu sync.Mutex
	ok := r.Parallel(total, 64, func(wk int, lo, hi int64) {
		w := newWorker(r, cache)
		si := 0
		var nb, ne int64
		for idx := lo; idx < hi; idx++ {
			for offs[si+1] <= idx {
				si++
			}
			base := jm.S(shapes[si].at(idx - offs[si]))
			if !jm.Valid(base) {
				continue
			}
			nb++
			fam := fmt.Sprintf("edit/base=%s", jm.JSStr(base))
			seen := map[string]bool{}
			try := func(t jm.Str) {
				k := string(t.Quote())
				if seen[k] {
					return
				}
				seen[k] = true
				ne++
				if !t.WellFormed() {
					return // a broken surrogate pair in the input is the documented exception
				}
				if !w.parseText(t, fam, parseOpts{}) && tierLevel == 0 {
					w.r.NontrivialH(core.HashString(k))
				}
			}
			for p := 0; p <= len(base); p++ {
				if p < len(base) {
					try(append(append(jm.Str{}, base[:p]...), base[p+1:]...)) // delete
				}
				for _, u := range editUnits {
					t := append(append(append(jm.Str{}, base[:p]...), u), base[p:]...) // insert
					try(t)
					if p < len(base) && base[p] != u {
						t2 := append(jm.Str{}, base...)
						t2[p] = u // replace
						try(t2)
					}
				}
			}
			if r.Expired() {
				break
			}
		}
		mu.Lock()
		bases += nb
		edits += ne
		mu.Unlock()
	})
	if !ok {
		bounds[bkey("parse edits")] = "cut by deadline"
		return false
	}
	bounds[bkey("parse edits")] = fmt.Sprintf("all %d distinct single-code-unit edits (delete / insert / replace with each of %d units) of all %d accepted texts of <=%d tokens", edits, len(editUnits), bases, maxTok)
	return true
}

// ---------- phase: nesting ----------

func runNesting(r *core.Run, cache *sigCache, bounds map[string]interface{}) bool {
	openers := []struct{ open, close string }{{"[", "]"}, {`{"a":`, "}"}, {"[1,", "]"}, {`{"b":1,"a":`, `,"c":2}`}}
	leaves := []string{"1", "[]", "{}", `"a"`}
	maxDepth := pickL(7, 8)
	complete := true
	var count int64
	for d := 1; d <= maxDepth && complete; d++ {
		total := int64(len(leaves))
		for i := 0; i < d; i++ {
			total *= int64(len(openers))
		}
		ok := r.Parallel(total, 512, func(wk int, lo, hi int64) {
			w := newWorker(r, cache)
			for idx := lo; idx < hi; idx++ {
				v := idx
				leaf := leaves[v%int64(len(leaves))]
				v /= int64(len(leaves))
				pre, post := "", ""
				for i := 0; i < d; i++ {
					o := openers[v%int64(len(openers))]
					v /= int64(len(openers))
					pre += o.open
					post = o.close + post
				}
				if w.parseText(jm.S(pre+leaf+post), fmt.Sprintf("nesting/depth=%d/rank=%d", d, idx), parseOpts{canon: true, revivers: d <= 4}) {
					countNT(r, 1, d > 7)
				}
			}
		})
		if !ok {
			complete = false
			bounds[bkey("parse nesting")] = fmt.Sprintf("depth<=%d complete", d-1)
			break
		}
		count += total
		bounds[bkey("parse nesting")] = fmt.Sprintf("all %d nestings of depth<=%d over %d container frames x %d innermost values", count, d, len(openers), len(leaves))
	}
	// homogeneous deep nesting within the property's range of interest
	w := newWorker(r, cache)
	for _, d := range []int{16, 64, 200} {
		for _, o := range openers[:2] {
			w.parseText(jm.S(strings.Repeat(o.open, d)+"1"+strings.Repeat(o.close, d)), fmt.Sprintf("nesting/deep=%d", d), parseOpts{canon: true})
		}
	}
	return complete
}

// ---------- phase: all strings over a symbol alphabet ----------

var symbols = []string{"1", `"a"`, "[", "]", "{", "}", ",", ":", "\"", "\\", "0", "-", ".", "e", "true", "null", " ", "\n", "u", "a"}

func runSymbols(r *core.Run, cache *sigCache, bounds map[string]interface{}) bool {
	maxLen := pickL(5, 6)
	k := int64(len(symbols))
	for l := 1; l <= maxLen; l++ {
		total := int64(1)
		for i := 0; i < l; i++ {
			total *= k
		}
		ok := r.Parallel(total, 8192, func(wk int, lo, hi int64) {
			w := newWorker(r, cache)
			var sb strings.Builder
			for idx := lo; idx < hi; idx++ {
				sb.Reset()
				v := idx
				for i := 0; i < l; i++ {
					sb.WriteString(symbols[v%k])
					v /= k
				}
				w.parseText(jm.S(sb.String()), fmt.Sprintf("symbols/len=%d/rank=%d", l, idx), parseOpts{})
			}
		})
		if !ok {
			bounds[bkey("parse symbol strings")] = fmt.Sprintf("length<=%d complete over %d symbols; length %d cut by deadline", l-1, k, l)
			return false
		}
		bounds[bkey("parse symbol strings")] = fmt.Sprintf("all strings of length<=%d over %d symbols", l, k)
	}
	return true
}

// hasLone: some string or key of a parsed value contains a lone surrogate.
func hasLone(v jm.Value) bool {
	switch v.K {
	case jm.KString:
		return !v.S.WellFormed()
	case jm.KObject:
		for _, p := range v.O.Props {
			if !p.Key.WellFormed() || hasLone(p.Val) {
				return true
			}
		}
	}
	return false
}
