package c19

import (
	"fmt"
	"strings"

	"verif/core"
	jm "verif/ref/jsonmodel"

	"github.com/dop251/goja"
)

func pick(list []*item, names []string) []*item {
	if names == nil {
		return list
	}
	var r []*item
	for _, n := range names {
		it := find(list, n)
		if it == nil {
			panic("c19: unknown item " + n)
		}
		r = append(r, it)
	}
	return r
}

type combo struct{ rep, ind *item }

// combos: the full product, or (all reps x few indents) + (no replacer x all indents).
func combos(reps, inds []*item, product bool) []combo {
	var res []combo
	if product {
		for _, rp := range reps {
			for _, in := range inds {
				res = append(res, combo{rp, in})
			}
		}
		return res
	}
	few := map[string]bool{"absent": true, "1": true, "ab": true}
	for _, rp := range reps {
		for _, in := range inds {
			if rp.name == "none" || few[in.name] {
				res = append(res, combo{rp, in})
			}
		}
	}
	return res
}

// representable: the value is one JSON can carry losslessly (so parse(stringify(v)) must equal v itself).
var plainLeaf = map[string]bool{"1": true, "a": true, "null": true, "true": true, "false": true, "0": true, "-1": true, "1.5": true, "1e21": true, "1e-7": true,
	"bigmant": true, "0.1+0.2": true, "str:empty": true, "str:ctl": true, "str:quote": true, "str:del": true, "str:astral": true, "obj:idxorder": true, "obj:protokey": true}

func representable(n *Node) bool {
	if n == nil {
		return false
	}
	if n.Kind == "" {
		return plainLeaf[n.Leaf]
	}
	for _, k := range n.Kids {
		if !representable(k) {
			return false
		}
	}
	return true
}

// whitespace-only indents: the indented text is itself a JSON text and must parse back
var wsIndent = map[string]bool{"absent": true, "1": true, "0": true, "null": true, "empty": true, "tab": true, "10": true, "11": true, "1.9": true, "boxnum": true, "1e30": true, "inf": true}

// stringifyValue runs one value through all combos (fast path: the engine value is built once).
func (w *worker) stringifyValue(n *Node, cs []combo, family string, extras bool) {
	newSpace := strings.HasPrefix(family, "stringify-D3")
	e := w.env()
	mv := n.build()
	gv, err := e.eval(jm.Src(mv))
	if err != nil {
		w.r.Violation("stringify|cannot-build-value", "the engine cannot evaluate "+jm.Src(mv)+": "+err.Error(), &Case{Op: "stringify", Value: n, Family: family})
		return
	}
	produced := false
	for _, c := range cs {
		gres, gout := e.stringifyRaw(gv, e.named("rep", c.rep), e.named("ind", c.ind))
		ms, mok, merr := jm.Stringify(mv, w.mval("rep", c.rep), w.mval("ind", c.ind))
		w.r.Eval(1)
		var want outcome
		switch {
		case merr != nil:
			want = outcome("E" + merr.Class)
		case !mok:
			want = "U"
		default:
			want = "S"
			produced = true
		}
		// fast comparison on the raw code units; outcome strings are only built on a mismatch
		same := false
		if gout == "" {
			if gs, ok := gres.(goja.String); ok && want == "S" {
				same = gs.Length() == len(ms) && jm.Str(goja.VerifUnits(gs)).Eq(ms)
			} else if goja.IsUndefined(gres) && want == "U" {
				same = true
			}
		} else {
			same = gout == want
		}
		w.outcomeS(want, len(ms))
		if !same {
			got := gout
			if gout == "" {
				got = strOutcome(gres)
			}
			if want == "S" {
				want = outcome("S" + ms.Quote())
			}
			w.fail(&Case{Op: "stringify", Value: n, Replacer: c.rep.name, Indent: c.ind.name, Family: family}, got, want)
			continue
		}
		if extras && c.rep.name == "none" && want[0] == 'S' && wsIndent[c.ind.name] && !hasLoneEscape(ms) {
			// parse(stringify(v)) on the engine vs the model; and vs v itself when v is representable
			_, g2 := e.doParse(ms, nil, false)
			_, w2 := modelParse(ms, jm.Undefined, nil)
			w.r.Eval(1)
			if g2 != w2 {
				w.fail(&Case{Op: "roundtrip", Value: n, Indent: c.ind.name, Family: family}, g2, w2)
			}
			if representable(n) && ms.WellFormed() {
				if self := outcome("V" + jm.Dump(normZero(n.build()))); self != w2 {
					panic("c19: model round trip broken for " + n.String() + ": " + string(self) + " vs " + string(w2))
				}
			}
		}
	}
	if extras {
		if _, ok := gv.(*goja.Object); ok {
			g, wnt := evalMarshal(gv, mv)
			w.r.Eval(1)
			if g != wnt {
				w.fail(&Case{Op: "marshal", Value: n, Family: family}, g, wnt)
			}
		}
	}
	if produced {
		countNT(w.r, 1, newSpace)
	}
}

// normZero replaces -0 by +0 (the one lossy point of JSON for representable values).
func normZero(v jm.Value) jm.Value {
	switch v.K {
	case jm.KNumber:
		if v.N == 0 {
			return jm.Num(0)
		}
	case jm.KObject:
		for i := range v.O.Props {
			v.O.Props[i].Val = normZero(v.O.Props[i].Val)
		}
	}
	return v
}

func runSpace(r *core.Run, cache *sigCache, name string, sp space, cs []combo, extras bool) bool {
	return r.Parallel(sp.Size(), 64, func(wk int, lo, hi int64) {
		w := newWorker(r, cache)
		for idx := lo; idx < hi; idx++ {
			n := sp.At(idx)
			if r.WantSample(idx) && idx >= 256 {
				r.Sample(map[string]interface{}{"family": name, "rank": idx, "value": jm.Src(n.build()), "combos": len(cs)})
			}
			w.stringifyValue(n, cs, fmt.Sprintf("%s/rank=%d", name, idx), extras)
		}
	})
}

// ---------- family A: depth <= 1 over the full leaf alphabet ----------

var keyPairs = [][]string{{"a", "b"}, {"b", "a"}, {"a", "1"}, {"1", "a"}, {"1", "0"}, {"0", "1"}, {"10", "9"}, {"9", "10"}, {"", "a"}, {"esc", "a"}, {"__proto__", "a"}, {"a", "toJSON"}, {"toJSON", "a"}, {"length", "0"}, {"lone", "astral"}}
var keySingles = []string{"a", "1", "", "esc", "__proto__", "toJSON", "length", "lone", "astral", "b", "0"}

func runStringifyA1(r *core.Run, cache *sigCache, bounds map[string]interface{}) bool {
	full := leafSpace(allLeafNames())
	// A1: leaves and containers of <= 1 child x the complete replacer x indent product
	var sh1 []shape
	sh1 = append(sh1, arrShape(0, false), objShape(), arrShape(1, true))
	for _, k := range keySingles {
		sh1 = append(sh1, objShape(k))
	}
	a1 := union(full, newContSpace(sh1, full))
	c1 := combos(replacers, indents, true)
	if !runSpace(r, cache, "stringify-A1", a1, c1, true) {
		bounds[bkey("stringify A1")] = "cut by deadline"
		return false
	}
	bounds[bkey("stringify A1")] = fmt.Sprintf("%d values (all %d leaves; [], {}, [x], [,], {k:x} for %d keys) x %d replacers x %d indents = %d calls, + MarshalJSON + parse(stringify(v))", a1.Size(), len(leavesFull), len(keySingles), len(replacers), len(indents), a1.Size()*int64(len(c1)))
	return true
}

// ---------- family S: aliasing (the same object identity in two positions: a DAG that is not a tree) ----------

// aliasValues: for every leaf L of the alphabet the values in which ONE L occurs twice (array siblings, object
// siblings, parent + cousin at depth 2), and the values in which one CONTAINER holding L ([L], {a:L}, {a:L,b:1})
// occurs twice. Sharing is not a cycle: the expected results are those of the unshared tree.
func aliasValues() listSpace {
	one := leafNode("1")
	arr := func(k ...*Node) *Node { return &Node{Kind: "arr", Kids: k} }
	obj := func(keys []string, k ...*Node) *Node { return &Node{Kind: "obj", Keys: keys, Kids: k} }
	var l listSpace
	for _, it := range leavesFull {
		x := &Node{Leaf: it.name, Share: 1}
		l = append(l,
			arr(x, x), arr(x, one, x), obj([]string{"a", "b"}, x, x),
			arr(arr(x), x), arr(x, arr(x)), obj([]string{"a", "c"}, obj([]string{"b"}, x), x),
			arr(obj([]string{"a"}, x), arr(x)), arr(x, obj([]string{"a"}, x)))
	}
	for _, it := range leavesFull {
		y := leafNode(it.name)
		for _, c := range []*Node{
			{Kind: "arr", Kids: []*Node{y}, Share: 1},
			{Kind: "obj", Keys: []string{"a"}, Kids: []*Node{y}, Share: 1},
			{Kind: "obj", Keys: []string{"a", "b"}, Kids: []*Node{y, one}, Share: 1},
		} {
			l = append(l, arr(c, c), obj([]string{"a", "b"}, c, c), arr(arr(c), c), arr(c, one, c))
		}
	}
	return l
}

func runStringifyAlias(r *core.Run, cache *sigCache, bounds map[string]interface{}) bool {
	if tierLevel == 1 {
		return true // identical in both tiers
	}
	sp := aliasValues()
	cs := combos(pick(replacers, []string{"none", "fn:id", "list:a", "fn:del", "fn:empties", "list:b,a,b", "fn:holder", "fn:box", "fn:desc"}), pick(indents, []string{"absent", "1", "ab"}), true)
	if !runSpace(r, cache, "stringify-S", sp, cs, true) {
		bounds[bkey("stringify S (aliasing)")] = "cut by deadline"
		return false
	}
	bounds[bkey("stringify S (aliasing)")] = fmt.Sprintf("%d values: each of the %d leaves shared between two positions ([x,x] [x,1,x] {a:x,b:x} [[x],x] [x,[x]] {a:{b:x},c:x} [{a:x},[x]] [x,{a:x}]) and each container [y] {a:y} {a:y,b:1} over the %d leaves shared ([c,c] {a:c,b:c} [[c],c] [c,1,c]) x %d replacer x indent combinations, + MarshalJSON + parse(stringify(v))", sp.Size(), len(leavesFull), len(leavesFull), len(cs))
	return true
}

// A2: containers of 2 children over the full leaf alphabet
func runStringifyA2(r *core.Run, cache *sigCache, bounds map[string]interface{}) bool {
	full := leafSpace(allLeafNames())
	var sh2 []shape
	sh2 = append(sh2, arrShape(2, true))
	for _, kp := range keyPairs {
		sh2 = append(sh2, objShape(kp...))
	}
	a2 := newContSpace(sh2, full)
	c2 := combos(replacers, pick(indents, nil), false)
	if tierLevel == 0 {
		c2 = combos(pick(replacers, replacersA2), pick(indents, indentsMidQuick), false)
	}
	if !runSpace(r, cache, "stringify-A2", a2, c2, true) {
		bounds[bkey("stringify A2")] = "cut by deadline"
		return false
	}
	bounds[bkey("stringify A2")] = fmt.Sprintf("%d values ([x,y] with holes, {k1:x,k2:y} for %d ordered key pairs, x,y over %d leaves) x %d replacer/indent combinations", a2.Size(), len(keyPairs), len(leavesFull), len(c2))
	return true
}

// ---------- family B: depth 2 (children: all depth-<=1 values over a small leaf set) ----------

func depth1Over(leaves listSpace, keys1 []string, pairs [][]string) listSpace {
	var sh []shape
	sh = append(sh, arrShape(0, false), objShape(), arrShape(1, true), arrShape(2, true))
	for _, k := range keys1 {
		sh = append(sh, objShape(k))
	}
	for _, p := range pairs {
		sh = append(sh, objShape(p...))
	}
	return materialise(newContSpace(sh, leaves))
}

func runStringifyB(r *core.Run, cache *sigCache, bounds map[string]interface{}) bool {
	small := leafSpace(leavesSmall)
	c1 := append(listSpace{}, small...)
	c1 = append(c1, depth1Over(small, []string{"a", "1"}, [][]string{{"a", "b"}, {"b", "a"}, {"a", "1"}, {"1", "a"}})...)
	var sh []shape
	sh = append(sh, arrShape(1, false), arrShape(2, false), objShape("a"), objShape("1"))
	for _, p := range [][]string{{"a", "b"}, {"b", "a"}, {"a", "1"}, {"1", "a"}} {
		sh = append(sh, objShape(p...))
	}
	b := newContSpace(sh, c1)
	cs := combos(pick(replacers, replacersMid), pick(indents, indentsSmall), true)
	if tierLevel == 1 {
		cs = combos(pick(replacers, nil), pick(indents, indentsMid), true)
	}
	if !runSpace(r, cache, "stringify-B", b, cs, true) {
		bounds[bkey("stringify B")] = "cut by deadline"
		return false
	}
	bounds[bkey("stringify B")] = fmt.Sprintf("depth 2: %d values (arrays of 1-2 and objects of 1-2 keys in each order whose children are all %d values of depth<=1 over leaves %v with holes) x %d replacer x indent combinations", b.Size(), len(c1), leavesSmall, len(cs))
	// B3: three siblings (every position of an empty / effectively empty container among three) over a reduced child set
	var c3 listSpace
	for _, n := range []*Node{leafNode("1"), leafNode("undefined"), {Kind: "arr"}, {Kind: "obj"}, {Kind: "arr", Kids: []*Node{leafNode("1")}}, {Kind: "obj", Keys: []string{"a"}, Kids: []*Node{leafNode("1")}},
		{Kind: "obj", Keys: []string{"a"}, Kids: []*Node{leafNode("undefined")}}, {Kind: "arr", Kids: []*Node{nil}}, leafNode("tj:arr"), leafNode("tj:undef"), leafNode("proxy:arr"), leafNode("box:symbol"),
		{Kind: "arr", Kids: []*Node{{Kind: "arr"}}}, {Kind: "obj", Keys: []string{"a"}, Kids: []*Node{{Kind: "obj"}}}} {
		c3 = append(c3, n)
	}
	b3 := newContSpace([]shape{arrShape(3, true), objShape("a", "b", "c"), objShape("b", "1", "a")}, c3)
	if !runSpace(r, cache, "stringify-B3", b3, cs, false) {
		bounds[bkey("stringify B3")] = "cut by deadline"
		return false
	}
	bounds[bkey("stringify B3")] = fmt.Sprintf("three siblings: %d values ([x,y,z], {a,b,c}, {b,1,a} over %d children incl. empty and effectively-empty containers) x %d combinations", b3.Size(), len(c3), len(cs))
	return true
}

// ---------- deeper trees (thorough: depth 3; quick: depth 3 over a tiny child set) ----------

func runStringifyDeep(r *core.Run, cache *sigCache, bounds map[string]interface{}) bool {
	tiny := leafSpace(leavesTiny)
	d1 := depth1Over(tiny, []string{"a"}, [][]string{{"a", "1"}})
	c1 := append(append(listSpace{}, tiny...), d1...)
	var sh []shape
	sh = append(sh, arrShape(1, false), arrShape(2, false), objShape("a"), objShape("a", "1"))
	if tierLevel == 0 {
		// depth 3 with single-child inner levels only
		var inner listSpace
		inner = append(inner, leafNode("1"), &Node{Kind: "arr"}, &Node{Kind: "obj"}, &Node{Kind: "arr", Kids: []*Node{leafNode("1")}}, &Node{Kind: "obj", Keys: []string{"a"}, Kids: []*Node{leafNode("undefined")}})
		c2 := append(append(listSpace{}, inner...), materialise(newContSpace([]shape{arrShape(1, false), arrShape(2, false), objShape("a"), objShape("a", "1")}, inner))...)
		d3 := newContSpace(sh, c2)
		cs := combos(pick(replacers, replacersSmall), pick(indents, indentsSmall), true)
		if !runSpace(r, cache, "stringify-D3", d3, cs, false) {
			bounds[bkey("stringify depth 3")] = "cut by deadline"
			return false
		}
		bounds[bkey("stringify depth 3")] = fmt.Sprintf("%d values (1-2 children over %d depth-<=2 values built from {1, [], {}, [1], {a:undefined}}) x %d combinations", d3.Size(), len(c2), len(cs))
		return true
	}
	c2 := append(append(listSpace{}, c1...), materialise(newContSpace(sh, c1))...)
	d3 := newContSpace(sh, c2)
	cs := combos(pick(replacers, replacersSmall), pick(indents, indentsSmall), true)
	if !runSpace(r, cache, "stringify-D3", d3, cs, false) {
		bounds[bkey("stringify depth 3")] = "cut by deadline"
		return false
	}
	bounds[bkey("stringify depth 3")] = fmt.Sprintf("%d values (1-2 children over all %d values of depth<=2 over leaves %v) x %d combinations", d3.Size(), len(c2), leavesTiny, len(cs))
	return true
}

// hasLoneEscape: the text contains a \uD800-\uDFFF escape that is not part of an escaped pair, i.e. parsing it
// is the documented exception (stringify escapes exactly the lone surrogates, pairs are emitted raw).
func hasLoneEscape(t jm.Str) bool {
	for i := 0; i+5 < len(t); i++ {
		if t[i] == '\\' && t[i+1] == 'u' && t[i+2] == 'd' && t[i+3] >= '8' {
			return true
		}
		if t[i] == '\\' {
			i++
		}
	}
	return false
}

// outcomeS feeds the distinct-outcomes counter with a coarse class (kind + length bucket).
func (w *worker) outcomeS(kind outcome, n int) {
	b := 0
	for n > 0 {
		n >>= 1
		b++
	}
	k := string(kind) + string(rune('a'+b))
	if !w.seenOut[k] {
		w.seenOut[k] = true
		w.r.OutcomeH(core.HashString("stringify|" + k))
	}
}
