package c19

import (
	"math"
	"strings"

	jm "verif/ref/jsonmodel"
)

// item is a named member of an alphabet: a constructor of a fresh model value whose JavaScript source is
// jm.Src(value). Functions carry their own JS source and a Go mirror of their behaviour.
type item struct {
	name   string
	absent bool // the argument is not passed at all
	mk     func() jm.Value
	mkL    func(log *[]string) jm.Value // revivers: the Go mirror appends to log what the JS function pushes to __log
}

func (it *item) value(log *[]string) jm.Value {
	if it.absent {
		return jm.Undefined
	}
	if it.mkL != nil {
		return it.mkL(log)
	}
	return it.mk()
}

func find(list []*item, name string) *item {
	for _, it := range list {
		if it.name == name {
			return it
		}
	}
	return nil
}

func cst(name string, v jm.Value) *item { return &item{name: name, mk: func() jm.Value { return v }} }
func mk(name string, f func() jm.Value) *item {
	return &item{name: name, mk: f}
}

func fn(src string, call func(this jm.Value, a []jm.Value) jm.Value) jm.Value {
	return jm.Obj(jm.NewFunction(src, call))
}

func obj(kv ...interface{}) *jm.Object {
	o := jm.NewObject()
	for i := 0; i+1 < len(kv); i += 2 {
		o.CreateDataProperty(jm.S(kv[i].(string)), kv[i+1].(jm.Value))
	}
	return o
}

func arr(e ...jm.Value) jm.Value { return jm.Obj(jm.NewArray(e...)) }

func isObj(v jm.Value) bool { return v.K == jm.KObject && !v.IsCallable() }

func typeOf(v jm.Value) string {
	switch v.K {
	case jm.KUndefined:
		return "undefined"
	case jm.KNull:
		return "object"
	case jm.KBool:
		return "boolean"
	case jm.KNumber:
		return "number"
	case jm.KString:
		return "string"
	case jm.KBigInt:
		return "bigint"
	case jm.KSymbol:
		return "symbol"
	}
	if v.IsCallable() {
		return "function"
	}
	return "object"
}

func keyIs(v jm.Value, names ...string) bool {
	if v.K != jm.KString {
		return false
	}
	for _, n := range names {
		if v.S.Eq(jm.S(n)) {
			return true
		}
	}
	return false
}

// ---------- indents (third argument of JSON.stringify), simplest first ----------

var indents = []*item{
	{name: "absent", absent: true},
	cst("1", jm.Num(1)),
	cst("ab", jm.GoString("ab")),
	cst("0", jm.Num(0)),
	cst("null", jm.Null),
	cst("empty", jm.GoString("")),
	cst("tab", jm.GoString("\t")),
	cst("10", jm.Num(10)),
	cst("11", jm.Num(11)),
	cst("1.9", jm.Num(1.9)),
	cst("-1", jm.Num(-1)),
	cst("nan", jm.Num(math.NaN())),
	cst("ascii11", jm.GoString("0123456789A")),
	cst("e-acute", jm.GoString("é")),
	cst("nonascii11", jm.GoString("ééééééééé€x")),
	cst("astral6", jm.GoString(strings.Repeat("\U0001F600", 6))),
	cst("astral-odd", jm.GoString("a"+strings.Repeat("\U0001F600", 5)+"b")),
	cst("1e30", jm.Num(1e30)),
	cst("inf", jm.Num(math.Inf(1))),
	cst("-inf", jm.Num(math.Inf(-1))),
	mk("boxnum", func() jm.Value { return jm.Obj(jm.NewBox(jm.Num(2))) }),
	mk("boxstr", func() jm.Value { return jm.Obj(jm.NewBox(jm.GoString("xy"))) }),
	mk("boxbool", func() jm.Value { return jm.Obj(jm.NewBox(jm.True)) }),
	cst("true", jm.True),
	mk("obj", func() jm.Value { return jm.Obj(jm.NewObject()) }),
	mk("arr", func() jm.Value { return arr(jm.Num(3)) }),
	cst("bigint", jm.BigInt("2")),
	cst("sym", jm.Symbol("s")),
	mk("proxynum", func() jm.Value { return jm.Obj(jm.NewProxy(jm.NewBox(jm.Num(2)))) }),
}

// reduced indent sets for the bigger value families
var indentsMid = []string{"absent", "1", "ab", "10", "inf", "nonascii11", "boxstr", "tab", "e-acute"}

// quick tier, big families: only indents whose handling has no known defect (the defective ones fail on every
// container and are covered by the complete product of family A1)
var indentsMidQuick = []string{"absent", "1", "ab", "10", "boxstr", "tab"}
var indentsSmall = []string{"absent", "1", "ab"}

// ---------- replacers (second argument), simplest first ----------

var replacers = []*item{
	{name: "none", absent: true},
	mk("fn:id", func() jm.Value {
		return fn(`function(k,v){return v}`, func(this jm.Value, a []jm.Value) jm.Value { return a[1] })
	}),
	mk("list:a", func() jm.Value { return arr(jm.GoString("a")) }),
	cst("null", jm.Null),
	cst("num", jm.Num(1)),
	cst("str", jm.GoString("a")),
	mk("obj", func() jm.Value { return jm.Obj(jm.NewObject()) }),
	mk("arraylike", func() jm.Value { return jm.Obj(obj("length", jm.Num(1), "0", jm.GoString("a"))) }),
	mk("fn:del", func() jm.Value {
		return fn(`function(k,v){return (k==="a"||k==="0")?undefined:v}`, func(this jm.Value, a []jm.Value) jm.Value {
			if keyIs(a[0], "a", "0") {
				return jm.Undefined
			}
			return a[1]
		})
	}),
	mk("fn:dbl", func() jm.Value {
		return fn(`function(k,v){return typeof v==="number"?v*2:v}`, func(this jm.Value, a []jm.Value) jm.Value {
			if a[1].K == jm.KNumber {
				return jm.Num(a[1].N * 2)
			}
			return a[1]
		})
	}),
	mk("fn:empties", func() jm.Value {
		return fn(`function(k,v){return (k!==""&&typeof v==="object"&&v!==null)?[]:v}`, func(this jm.Value, a []jm.Value) jm.Value {
			if !keyIs(a[0], "") && isObj(a[1]) {
				return arr()
			}
			return a[1]
		})
	}),
	mk("fn:emptyobj", func() jm.Value {
		return fn(`function(k,v){return (k!==""&&typeof v==="object"&&v!==null)?{}:v}`, func(this jm.Value, a []jm.Value) jm.Value {
			if !keyIs(a[0], "") && isObj(a[1]) {
				return jm.Obj(jm.NewObject())
			}
			return a[1]
		})
	}),
	mk("fn:box", func() jm.Value {
		return fn(`function(k,v){return k===""?v:new Number(3)}`, func(this jm.Value, a []jm.Value) jm.Value {
			if keyIs(a[0], "") {
				return a[1]
			}
			return jm.Obj(jm.NewBox(jm.Num(3)))
		})
	}),
	mk("fn:desc", func() jm.Value {
		return fn(`function(k,v){return (typeof v==="object"&&v!==null)?v:typeof k+":"+k+":"+Array.isArray(this)}`, func(this jm.Value, a []jm.Value) jm.Value {
			if isObj(a[1]) {
				return a[1]
			}
			s := jm.S(typeOf(a[0]) + ":")
			s = append(s, a[0].S...)
			if this.K == jm.KObject && this.O.IsArray() {
				s = append(s, jm.S(":true")...)
			} else {
				s = append(s, jm.S(":false")...)
			}
			return jm.String(s)
		})
	}),
	mk("fn:undef", func() jm.Value {
		return fn(`function(k,v){return undefined}`, func(this jm.Value, a []jm.Value) jm.Value { return jm.Undefined })
	}),
	mk("fn:holder", func() jm.Value {
		return fn(`function(k,v){return this[k]}`, func(this jm.Value, a []jm.Value) jm.Value { return this.O.Get(a[0].S) })
	}),
	mk("fn:proxy", func() jm.Value {
		f := jm.NewFunction(`function(k,v){return typeof v==="number"?v+1:v}`, func(this jm.Value, a []jm.Value) jm.Value {
			if a[1].K == jm.KNumber {
				return jm.Num(a[1].N + 1)
			}
			return a[1]
		})
		return jm.Obj(jm.NewProxy(f))
	}),
	mk("list:b,a,b", func() jm.Value { return arr(jm.GoString("b"), jm.GoString("a"), jm.GoString("b")) }),
	mk("list:1,a", func() jm.Value { return arr(jm.Num(1), jm.GoString("a")) }),
	mk("list:empty", func() jm.Value { return arr() }),
	mk("list:boxed", func() jm.Value {
		return arr(jm.Obj(jm.NewBox(jm.Num(1))), jm.Obj(jm.NewBox(jm.GoString("a"))), jm.Obj(jm.NewBox(jm.True)), jm.Obj(jm.NewObject()), jm.Null, jm.True, jm.Symbol("s"), jm.GoString("1"))
	}),
	mk("list:holes", func() jm.Value {
		a := jm.NewArray()
		a.CreateDataProperty(jm.S("1"), jm.GoString("a"))
		return jm.Obj(a)
	}),
	mk("list:nums", func() jm.Value {
		return arr(jm.Num(math.Copysign(0, -1)), jm.Num(1.5), jm.Num(1e21), jm.Num(math.NaN()), jm.GoString("0"))
	}),
	mk("list:proxy", func() jm.Value { return jm.Obj(jm.NewProxy(jm.NewArray(jm.GoString("a"), jm.GoString("1")))) }),
	mk("list:lone", func() jm.Value { return arr(jm.Str2(0xD800)) }),
	mk("list:esc", func() jm.Value {
		return arr(jm.GoString("\u2028\"\n\u00e9"), jm.GoString(""), jm.GoString("toJSON"), jm.Str2(0xD800), jm.GoString("\U0001F600"))
	}),
	mk("list:proxybox", func() jm.Value { return arr(jm.Obj(jm.NewProxy(jm.NewBox(jm.GoString("a")))), jm.GoString("b")) }),
}

var replacersMid = []string{"none", "fn:id", "list:a", "fn:empties", "fn:emptyobj", "fn:del", "list:b,a,b", "list:1,a", "fn:desc"}
var replacersA2 = []string{"none", "fn:id", "list:a", "fn:empties", "fn:emptyobj", "fn:del", "list:b,a,b", "list:1,a", "fn:desc", "fn:holder", "fn:box", "list:boxed", "list:nums", "list:esc", "list:proxy"}
var replacersSmall = []string{"none", "fn:id", "list:a", "fn:empties"}

// ---------- revivers (second argument of JSON.parse), simplest first ----------

const logSrc = `__log.push(__q(k)+"="+dump(v)+"@"+dump(this));`

func logCall(log *[]string, this jm.Value, a []jm.Value) {
	if log != nil {
		*log = append(*log, a[0].S.Quote()+"="+jm.Dump(a[1])+"@"+jm.Dump(this))
	}
}

var revivers = []*item{
	{name: "absent", absent: true},
	cst("undefined", jm.Undefined),
	cst("null", jm.Null),
	{name: "fn:log", mkL: func(log *[]string) jm.Value {
		return fn(`function(k,v){`+logSrc+`return v}`, func(this jm.Value, a []jm.Value) jm.Value {
			logCall(log, this, a)
			return a[1]
		})
	}},
	mk("obj", func() jm.Value { return jm.Obj(jm.NewObject()) }),
	cst("num", jm.Num(1)),
	cst("str", jm.GoString("f")),
	cst("true", jm.True),
	mk("arr", func() jm.Value { return arr() }),
	cst("sym", jm.Symbol("s")),
	{name: "fn:del", mkL: func(log *[]string) jm.Value {
		return fn(`function(k,v){`+logSrc+`return (k==="a"||k==="0"||k==="__proto__")?undefined:v}`, func(this jm.Value, a []jm.Value) jm.Value {
			logCall(log, this, a)
			if keyIs(a[0], "a", "0", "__proto__") {
				return jm.Undefined
			}
			return a[1]
		})
	}},
	{name: "fn:repl", mkL: func(log *[]string) jm.Value {
		return fn(`function(k,v){`+logSrc+`return typeof v==="number"?v+1:(k==="b"||k==="1")?{x:[v]}:v}`, func(this jm.Value, a []jm.Value) jm.Value {
			logCall(log, this, a)
			if a[1].K == jm.KNumber {
				return jm.Num(a[1].N + 1)
			}
			if keyIs(a[0], "b", "1") {
				return jm.Obj(obj("x", arr(a[1])))
			}
			return a[1]
		})
	}},
	{name: "fn:const", mkL: func(log *[]string) jm.Value {
		return fn(`function(k,v){`+logSrc+`return 7}`, func(this jm.Value, a []jm.Value) jm.Value {
			logCall(log, this, a)
			return jm.Num(7)
		})
	}},
	{name: "fn:rootundef", mkL: func(log *[]string) jm.Value {
		return fn(`function(k,v){return k===""?undefined:v}`, func(this jm.Value, a []jm.Value) jm.Value {
			if keyIs(a[0], "") {
				return jm.Undefined
			}
			return a[1]
		})
	}},
	// deletes later siblings and adds a new key while the holder is being walked
	{name: "fn:mutdel", mkL: func(log *[]string) jm.Value {
		return fn(`function(k,v){`+logSrc+`if(k==="a"||k==="0"){delete this.b;delete this[1];this.z=5}return v}`, func(this jm.Value, a []jm.Value) jm.Value {
			logCall(log, this, a)
			if keyIs(a[0], "a", "0") {
				this.O.Delete(jm.S("b"))
				this.O.Delete(jm.S("1"))
				this.O.Set(jm.S("z"), jm.Num(5))
			}
			return a[1]
		})
	}},
	// replaces later siblings by fresh containers that must then be walked
	{name: "fn:mutadd", mkL: func(log *[]string) jm.Value {
		return fn(`function(k,v){`+logSrc+`if(k==="a"||k==="0"){this.b={n:1};this[1]=[2]}return v}`, func(this jm.Value, a []jm.Value) jm.Value {
			logCall(log, this, a)
			if keyIs(a[0], "a", "0") {
				this.O.Set(jm.S("b"), jm.Obj(obj("n", jm.Num(1))))
				this.O.Set(jm.S("1"), arr(jm.Num(2)))
			}
			return a[1]
		})
	}},
	// shrinks the array that is being walked
	{name: "fn:mutlen", mkL: func(log *[]string) jm.Value {
		return fn(`function(k,v){`+logSrc+`if(k==="0"&&Array.isArray(this))this.length=1;return v}`, func(this jm.Value, a []jm.Value) jm.Value {
			logCall(log, this, a)
			if keyIs(a[0], "0") && this.O.IsArray() {
				this.O.SetLength(1)
			}
			return a[1]
		})
	}},
	{name: "fn:proxy", mkL: func(log *[]string) jm.Value {
		f := jm.NewFunction(`function(k,v){`+logSrc+`return v}`, func(this jm.Value, a []jm.Value) jm.Value {
			logCall(log, this, a)
			return a[1]
		})
		return jm.Obj(jm.NewProxy(f))
	}},
}

// ---------- leaves of the stringify value space ----------

func tj(src string, call func(this jm.Value, a []jm.Value) jm.Value) jm.Value {
	return jm.Obj(obj("a", jm.Num(1), "toJSON", fn(src, call)))
}

func special(src string, o *jm.Object) jm.Value { o.Src = src; return jm.Obj(o) }

var negZero = math.Copysign(0, -1)

// leavesFull: every kind of value the property names, simplest first.
var leavesFull = []*item{
	cst("1", jm.Num(1)),
	cst("undefined", jm.Undefined),
	cst("a", jm.GoString("a")),
	cst("null", jm.Null),
	cst("true", jm.True),
	cst("false", jm.False),
	cst("0", jm.Num(0)),
	cst("-0", jm.Num(negZero)),
	cst("-1", jm.Num(-1)),
	cst("1.5", jm.Num(1.5)),
	cst("1e21", jm.Num(1e21)),
	cst("1e-7", jm.Num(1e-7)),
	cst("bigmant", jm.Num(123456789012345680000)),
	cst("0.1+0.2", jm.Num(0.1+0.2)),
	cst("nan", jm.Num(math.NaN())),
	cst("inf", jm.Num(math.Inf(1))),
	cst("-inf", jm.Num(math.Inf(-1))),
	cst("str:empty", jm.GoString("")),
	cst("str:ctl", jm.GoString("\x00\x1f\b\t\n\f\r\x0b")),
	cst("str:quote", jm.GoString("\"\\/")),
	cst("str:del", jm.GoString("\x7f\u0080\u2028\u2029\u00e9")),
	cst("str:astral", jm.GoString("\U0001F600")),
	cst("str:loneHi", jm.String(jm.Str{0xD800})),
	cst("str:loneLo", jm.String(jm.Str{'a', 0xDC00, 'b'})),
	cst("str:revpair", jm.String(jm.Str{0xDC00, 0xD800})),
	cst("bigint", jm.BigInt("10")),
	cst("symbol", jm.Symbol("s")),
	mk("function", func() jm.Value {
		return fn(`function(){}`, func(jm.Value, []jm.Value) jm.Value { return jm.Undefined })
	}),
	mk("box:num", func() jm.Value { return jm.Obj(jm.NewBox(jm.Num(1))) }),
	mk("box:-0", func() jm.Value { return jm.Obj(jm.NewBox(jm.Num(negZero))) }),
	mk("box:nan", func() jm.Value { return jm.Obj(jm.NewBox(jm.Num(math.NaN()))) }),
	mk("box:str", func() jm.Value { return jm.Obj(jm.NewBox(jm.GoString("s\n"))) }),
	mk("box:true", func() jm.Value { return jm.Obj(jm.NewBox(jm.True)) }),
	mk("box:false", func() jm.Value { return jm.Obj(jm.NewBox(jm.False)) }),
	mk("box:symbol", func() jm.Value { return jm.Obj(jm.NewBox(jm.Symbol("s"))) }),
	mk("box:bigint", func() jm.Value { return jm.Obj(jm.NewBox(jm.BigInt("10"))) }),
	mk("tj:7", func() jm.Value {
		return tj(`function(k){return 7}`, func(jm.Value, []jm.Value) jm.Value { return jm.Num(7) })
	}),
	mk("tj:undef", func() jm.Value {
		return tj(`function(k){return undefined}`, func(jm.Value, []jm.Value) jm.Value { return jm.Undefined })
	}),
	mk("tj:key", func() jm.Value {
		return tj(`function(k){return typeof k+"="+k}`, func(this jm.Value, a []jm.Value) jm.Value {
			return jm.String(append(jm.S(typeOf(a[0])+"="), a[0].S...))
		})
	}),
	mk("tj:arr", func() jm.Value {
		return tj(`function(k){return []}`, func(jm.Value, []jm.Value) jm.Value { return arr() })
	}),
	mk("tj:obj", func() jm.Value {
		return tj(`function(k){return {z:[]}}`, func(jm.Value, []jm.Value) jm.Value { return jm.Obj(obj("z", arr())) })
	}),
	mk("tj:this", func() jm.Value {
		return tj(`function(k){return [this.a]}`, func(this jm.Value, a []jm.Value) jm.Value { return arr(this.O.Get(jm.S("a"))) })
	}),
	mk("tj:noncallable", func() jm.Value { return jm.Obj(obj("toJSON", jm.Num(1), "a", jm.Num(1))) }),
	mk("tj:nested", func() jm.Value {
		inner := func() jm.Value {
			return jm.Obj(obj("toJSON", fn(`function(){return 1}`, func(jm.Value, []jm.Value) jm.Value { return jm.Num(1) }), "b", jm.Num(2)))
		}
		return jm.Obj(obj("toJSON", fn(`function(){return {toJSON:function(){return 1},b:2}}`, func(jm.Value, []jm.Value) jm.Value { return inner() })))
	}),
	mk("tj:box", func() jm.Value {
		b := jm.NewBox(jm.Num(1))
		b.Props = append(b.Props, jm.Prop{Key: jm.S("toJSON"), Val: fn("", func(jm.Value, []jm.Value) jm.Value { return jm.GoString("n") })})
		return special(`Object.assign(new Number(1),{toJSON:function(){return "n"}})`, b)
	}),
	mk("tj:array", func() jm.Value {
		a := jm.NewArray(jm.Num(1))
		a.Props = append(a.Props, jm.Prop{Key: jm.S("toJSON"), Val: fn("", func(jm.Value, []jm.Value) jm.Value { return jm.Num(7) })})
		return special(`Object.assign([1],{toJSON:function(){return 7}})`, a)
	}),
	mk("date0", func() jm.Value {
		o := jm.NewObject()
		o.Props = append(o.Props, jm.Prop{Key: jm.S("toJSON"), Hidden: true, Val: fn("", func(jm.Value, []jm.Value) jm.Value { return jm.GoString("1970-01-01T00:00:00.000Z") })})
		return special(`new Date(0)`, o)
	}),
	mk("dateNaN", func() jm.Value {
		o := jm.NewObject()
		o.Props = append(o.Props, jm.Prop{Key: jm.S("toJSON"), Hidden: true, Val: fn("", func(jm.Value, []jm.Value) jm.Value { return jm.Null })})
		return special(`new Date(NaN)`, o)
	}),
	mk("proxy:obj", func() jm.Value { return jm.Obj(jm.NewProxy(jm.NewObject())) }),
	mk("proxy:arr", func() jm.Value { return jm.Obj(jm.NewProxy(jm.NewArray())) }),
	mk("proxy:obj1", func() jm.Value { return jm.Obj(jm.NewProxy(obj("1", jm.Num(2), "a", jm.Num(1)))) }),
	mk("proxy:arr1", func() jm.Value { return jm.Obj(jm.NewProxy(jm.NewArray(jm.Num(1), jm.Undefined))) }),
	mk("proxy:boxnum", func() jm.Value { return jm.Obj(jm.NewProxy(jm.NewBox(jm.Num(1)))) }),
	mk("proxy:boxstr", func() jm.Value { return jm.Obj(jm.NewProxy(jm.NewBox(jm.GoString("ab")))) }),
	mk("proxy:fn", func() jm.Value {
		return jm.Obj(jm.NewProxy(jm.NewFunction(`function(){}`, func(jm.Value, []jm.Value) jm.Value { return jm.Undefined })))
	}),
	mk("proxy:proxyarr", func() jm.Value { return jm.Obj(jm.NewProxy(jm.NewProxy(jm.NewArray(jm.Num(1))))) }),
	mk("cyc:obj", func() jm.Value {
		o := jm.NewObject()
		o.CreateDataProperty(jm.S("a"), jm.Obj(o))
		return special(`(function(){var o={};o.a=o;return o})()`, o)
	}),
	mk("cyc:arr", func() jm.Value {
		a := jm.NewArray()
		a.CreateDataProperty(jm.S("0"), jm.Obj(a))
		return special(`(function(){var a=[];a[0]=a;return a})()`, a)
	}),
	mk("cyc:indirect", func() jm.Value {
		o := jm.NewObject()
		o.CreateDataProperty(jm.S("a"), arr(jm.Obj(obj("b", jm.Obj(o)))))
		return special(`(function(){var o={};o.a=[{b:o}];return o})()`, o)
	}),
	mk("dag", func() jm.Value {
		s := obj("x", jm.Num(1))
		a := jm.NewArray(jm.Obj(s), jm.Obj(s), jm.Obj(obj("y", jm.Obj(s))))
		return special(`(function(){var s={x:1};return [s,s,{y:s}]})()`, a)
	}),
	mk("obj:hidden", func() jm.Value {
		o := obj("a", jm.Num(1))
		o.Props = append(o.Props, jm.Prop{Key: jm.S("h"), Val: jm.Num(2), Hidden: true})
		o.CreateDataProperty(jm.S("b"), jm.Num(3))
		return jm.Obj(o)
	}),
	mk("obj:symkey", func() jm.Value {
		o := obj("a", jm.Num(1))
		o.SymProps = 1
		return jm.Obj(o)
	}),
	mk("obj:getter", func() jm.Value {
		o := obj("a", jm.Num(1))
		o.Props = append(o.Props, jm.Prop{Key: jm.S("g"), Val: arr(), Accessor: true})
		return jm.Obj(o)
	}),
	mk("obj:idxorder", func() jm.Value {
		return jm.Obj(obj("b", jm.Num(1), "10", jm.Num(2), "9", jm.Num(3), "a", jm.Num(4), "4294967295", jm.Num(5), "4294967294", jm.Num(6), "01", jm.Num(7), "-0", jm.Num(8), "1.5", jm.Num(9)))
	}),
	mk("obj:protokey", func() jm.Value { return jm.Obj(obj("__proto__", jm.Num(1), "a", jm.Num(2))) }),
	mk("arr:props", func() jm.Value {
		a := jm.NewArray(jm.Num(1))
		a.CreateDataProperty(jm.S("x"), jm.Num(2))
		a.Length = 3
		return special(`(function(){var a=[1];a.x=2;a.length=3;return a})()`, a)
	}),
	mk("map", func() jm.Value { return special(`new Map([[1,2]])`, jm.NewObject()) }),
	mk("regexp", func() jm.Value { return special(`/x/g`, jm.NewObject()) }),
	mk("error", func() jm.Value { return special(`new Error("m")`, jm.NewObject()) }),
	mk("u8array", func() jm.Value { return special(`new Uint8Array([1,2])`, obj("0", jm.Num(1), "1", jm.Num(2))) }),
	mk("arguments", func() jm.Value {
		return special(`(function(){return arguments})(1,"x")`, obj("0", jm.Num(1), "1", jm.GoString("x")))
	}),
	mk("nullproto", func() jm.Value { return special(`Object.assign(Object.create(null),{a:1})`, obj("a", jm.Num(1))) }),
	mk("inherited", func() jm.Value {
		o := jm.NewObject()
		o.Proto = obj("a", jm.Num(1), "b", arr())
		return special(`Object.create({a:1,b:[]})`, o)
	}),
	mk("frozen", func() jm.Value { return special(`Object.freeze({a:[1]})`, obj("a", arr(jm.Num(1)))) }),
	mk("class", func() jm.Value {
		o := obj("a", jm.Num(1))
		o.Proto = obj("b", jm.Num(2))
		return special(`new (class{constructor(){this.a=1} get b(){return 2} static c=3})`, o)
	}),
}

var leavesSmall = []string{"1", "undefined", "a", "null"}
var leavesTiny = []string{"1", "undefined"}

// keyOrder: the keys from simplest to most special (used when failing cases are minimised)
var keyOrder = []string{"a", "b", "c", "1", "0", "10", "9", "", "esc", "__proto__", "toJSON", "length", "astral", "lone"}

// keys of enumerated objects (plain enumerable data properties), simplest first
var keyStrs = map[string]jm.Str{
	"a": jm.S("a"), "b": jm.S("b"), "c": jm.S("c"), "1": jm.S("1"), "0": jm.S("0"), "10": jm.S("10"), "9": jm.S("9"),
	"": jm.S(""), "esc": jm.S("\u2028\"\n\u00e9"), "__proto__": jm.S("__proto__"), "toJSON": jm.S("toJSON"), "length": jm.S("length"),
	"lone": jm.Str{0xD800}, "astral": jm.S("\U0001F600"),
}
