package c13

import (
	"errors"
	"fmt"
	"reflect"
	"strings"

	"verif/core"

	"github.com/dop251/goja"
)

// Part 1d: function signatures in both directions.
//
//	Go -> JS: ToValue(func) called from script. All signatures with <= 2 parameters over the parameter types
//	  below x variadic x result lists {(), (T), (T,error=nil), (T,error!=nil), (error!=nil), (T,U)}, called with
//	  every argument tuple from the script value pool (also too few / too many arguments). The Go function
//	  must receive exactly the documented conversion of each argument (the model's conv), script must see
//	  the documented result (single value / Array / thrown GoError).
//	JS -> Go: ExportTo(jsFunction, *func) called from Go. The script function must see ToValue of every
//	  argument (variadic tail flattened), Go must get the conversion of the returned value, the extra results
//	  zeroed, exceptions as error when the last result is `error` - for every thrown payload, never a panic.

var errBoom = errors.New("boom")

type funcParam struct {
	name string
	t    reflect.Type
	args []valDef // script argument values to try
	pool []interface{}
}

func funcParams() []funcParam {
	return []funcParam{
		{"int", reflect.TypeOf(int(0)), []valDef{val7, val1p5, valStrX, valNull}, []interface{}{0, -5}},
		{"int8", reflect.TypeOf(int8(0)), []valDef{val300, valNeg}, []interface{}{int8(-128)}},
		{"uint16", reflect.TypeOf(uint16(0)), []valDef{vConst("70000", "70000", vInt(70000)), valNeg}, []interface{}{uint16(65535)}},
		{"float64", reflect.TypeOf(float64(0)), []valDef{val1p5, valStr7, valUndef}, []interface{}{1.5, nan()}},
		{"string", reflect.TypeOf(""), []valDef{valStrX, val7, valTrue}, []interface{}{"", "s"}},
		{"bool", reflect.TypeOf(false), []valDef{valTrue, vConst("0", "0", vInt(0)), valStrX}, []interface{}{true}},
		{"interface{}", typIface, []valDef{val7, val1p5, valStrX, valNull, litIn, litA2}, []interface{}{nil, 7, "s", In{1}}},
		{"[]int", reflect.TypeOf([]int(nil)), []valDef{litA2, valNull, val7}, []interface{}{[]int(nil), []int{1, 2}}},
		{"map[string]int", reflect.TypeOf(map[string]int(nil)), []valDef{litMap, valNull}, []interface{}{map[string]int{"a": 1}}},
		{"In", reflect.TypeOf(In{}), []valDef{litIn, valNull, val7}, []interface{}{In{3}}},
		{"*In", reflect.TypeOf((*In)(nil)), []valDef{litIn, valNull}, []interface{}{(*In)(nil), &In{4}}},
	}
}

type FuncCase struct {
	Part     string   `json:"part"`
	Dir      string   `json:"dir"`
	Params   []string `json:"params"`
	Variadic bool     `json:"variadic"`
	Outs     string   `json:"outs"`
	Args     []string `json:"args"`
	Ret      string   `json:"ret,omitempty"`
	Throw    string   `json:"throw,omitempty"`
}

var outKinds = []string{"()", "(T)", "(T,nil)", "(T,err)", "(err)", "(T,U)"}

type funcRT struct{ rt *goja.Runtime }

func (f *funcRT) get() *goja.Runtime {
	if f.rt == nil {
		f.rt = newRuntime(mapNil)
		f.rt.RunString(`function CALL(f, args){ try { return D(f.apply(undefined, args)); } catch(e) { return "!" + (e && e.name) + ":" + (e && e.message); } }`)
	}
	return f.rt
}

func paramByName(n string) *funcParam {
	for _, p := range funcParams() {
		if p.name == n {
			p := p
			return &p
		}
	}
	return nil
}

func valByName(p *funcParam, n string) *valDef {
	for i := range p.args {
		if p.args[i].name == n {
			return &p.args[i]
		}
	}
	for _, v := range []valDef{val7, valUndef, valNull, valStrX} {
		if v.name == n {
			v := v
			return &v
		}
	}
	return nil
}

// checkGoToJS: one call of a wrapped Go function from script.
func checkGoToJS(f *funcRT, fc *FuncCase) (sig, what string) {
	rt := f.get()
	var ps []*funcParam
	var in []reflect.Type
	for _, n := range fc.Params {
		p := paramByName(n)
		ps = append(ps, p)
		in = append(in, p.t)
	}
	if fc.Variadic {
		in[len(in)-1] = reflect.SliceOf(in[len(in)-1])
	}
	t0 := reflect.TypeOf(int(0))
	if len(ps) > 0 {
		t0 = ps[0].t
	}
	tU := reflect.TypeOf("")
	var outs []reflect.Type
	switch fc.Outs {
	case "(T)":
		outs = []reflect.Type{t0}
	case "(T,nil)", "(T,err)":
		outs = []reflect.Type{t0, typError}
	case "(err)":
		outs = []reflect.Type{typError}
	case "(T,U)":
		outs = []reflect.Type{t0, tU}
	}
	ft := reflect.FuncOf(in, outs, fc.Variadic)
	// what the function returns
	ret0 := reflect.Zero(t0)
	if len(ps) > 0 {
		ret0 = reflect.New(t0).Elem()
		if x := ps[0].pool[len(ps[0].pool)-1]; x != nil {
			ret0.Set(reflect.ValueOf(x))
		}
	} else {
		ret0 = reflect.ValueOf(42)
	}
	var recorded []string
	called := false
	fn := reflect.MakeFunc(ft, func(args []reflect.Value) []reflect.Value {
		called = true
		for _, a := range args {
			recorded = append(recorded, goDump(a))
		}
		var res []reflect.Value
		switch fc.Outs {
		case "(T)":
			res = []reflect.Value{ret0}
		case "(T,nil)":
			res = []reflect.Value{ret0, reflect.Zero(typError)}
		case "(T,err)":
			res = []reflect.Value{ret0, reflect.ValueOf(&errBoom).Elem()}
		case "(err)":
			res = []reflect.Value{reflect.ValueOf(&errBoom).Elem()}
		case "(T,U)":
			res = []reflect.Value{ret0, reflect.ValueOf("u")}
		}
		return res
	})
	// expected conversion of the arguments
	m := &model{mapper: mapNil, capHint: -1}
	var jsArgs []string
	var wantArgs []string
	convErr := false
	outOfDomain := ""
	func() {
		defer func() {
			if x := recover(); x != nil {
				if s, ok := x.(mskip); ok {
					outOfDomain = s.why
					return
				}
				panic(x)
			}
		}()
		nFixed := len(ps)
		if fc.Variadic {
			nFixed--
		}
		var variadic reflect.Value
		if fc.Variadic {
			variadic = reflect.MakeSlice(in[len(in)-1], 0, 4)
		}
		for i, an := range fc.Args {
			pi := i
			if pi >= len(ps) {
				if !fc.Variadic {
					jsArgs = append(jsArgs, valByName(&funcParam{}, an).js) // extra argument: ignored
					continue
				}
				pi = len(ps) - 1
			}
			v := valByName(ps[pi], an)
			jsArgs = append(jsArgs, v.js)
			dst := reflect.New(ps[pi].t).Elem()
			if err := m.conv(v.mv(m), dst); err != nil {
				convErr = true
				return
			}
			if fc.Variadic && pi == len(ps)-1 {
				variadic = reflect.Append(variadic, dst)
			} else {
				wantArgs = append(wantArgs, goDump(dst))
			}
		}
		for i := len(fc.Args); i < nFixed; i++ {
			wantArgs = append(wantArgs, goDump(reflect.Zero(ps[i].t))) // missing arguments are zero values
		}
		if fc.Variadic {
			wantArgs = append(wantArgs, goDump(variadic))
		}
	}()
	if outOfDomain != "" {
		return "", ""
	}
	var got string
	pan := catch(func() {
		rt.Set("gf", fn.Interface())
		v, err := rt.RunString("CALL(gf, [" + strings.Join(jsArgs, ",") + "])")
		if err != nil {
			got = "!!" + err.Error()
			return
		}
		got = v.String()
	})
	cls := fmt.Sprintf("go->js|params=%d,variadic=%v|outs=%s", len(ps), fc.Variadic, fc.Outs)
	if pan != "" {
		f.rt = nil
		return "host-panic|" + cls + "|" + normPanic(pan), "calling a wrapped Go function from script panics: " + pan
	}
	if convErr {
		if !strings.HasPrefix(got, "!TypeError:") || called {
			return "func|" + cls + "|unconvertible-argument-not-a-TypeError", fmt.Sprintf("an argument that cannot be converted gave %q (called=%v), want a TypeError and no call", got, called)
		}
		return "", ""
	}
	if !called {
		return "func|" + cls + "|not-called", "the Go function was not called: " + got
	}
	if g, w := strings.Join(recorded, " ; "), strings.Join(wantArgs, " ; "); g != w {
		return "func|" + cls + "|argument-conversion", fmt.Sprintf("Go received (%s), want (%s)", clip(g), clip(w))
	}
	vw := viewer{mapNil}
	var want string
	switch fc.Outs {
	case "()":
		want = "u"
	case "(T)", "(T,nil)":
		want = vw.view(ret0, 0)
	case "(T,err)", "(err)":
		want = "!GoError:boom"
	case "(T,U)":
		want = "[" + vw.view(ret0, 1) + `,"u"]`
	}
	if got != want {
		return "func|" + cls + "|result", fmt.Sprintf("script got %s, want %s", clip(got), clip(want))
	}
	return "", ""
}

var throwPayloads = []struct{ name, js string }{
	{"", ""},
	{"1", "throw 1"},
	{"Error", `throw new Error("x")`},
	{"{value:5}", `throw {value:5}`},
	{"{value:null}", `throw {value:null}`},
	{"{value:undefined}", `throw {value:undefined}`},
	{"{}", `throw {}`},
	{"null", `throw null`},
	{"{get value(){throw 2}}", `throw {get value(){ throw 2 }}`},
}

// checkJSToGo: one call of an exported script function from Go.
func checkJSToGo(f *funcRT, fc *FuncCase) (sig, what string) {
	rt := f.get()
	var ps []*funcParam
	var in []reflect.Type
	for _, n := range fc.Params {
		p := paramByName(n)
		ps = append(ps, p)
		in = append(in, p.t)
	}
	if fc.Variadic {
		in[len(in)-1] = reflect.SliceOf(in[len(in)-1])
	}
	t0 := reflect.TypeOf(int(0))
	var retParam *funcParam
	if len(ps) > 0 {
		t0 = ps[0].t
		retParam = ps[0]
	} else {
		retParam = paramByName("int")
	}
	var outs []reflect.Type
	hasErr := false
	switch fc.Outs {
	case "(T)":
		outs = []reflect.Type{t0}
	case "(T,nil)":
		outs, hasErr = []reflect.Type{t0, typError}, true
	case "(err)":
		outs, hasErr = []reflect.Type{typError}, true
	case "(T,U)":
		outs = []reflect.Type{t0, reflect.TypeOf("")}
	}
	ft := reflect.FuncOf(in, outs, fc.Variadic)
	rv := valByName(retParam, fc.Ret)
	if rv == nil {
		rv = &valUndef
	}
	body := "return " + rv.js + ";"
	if fc.Throw != "" {
		for _, tp := range throwPayloads {
			if tp.name == fc.Throw {
				body = tp.js + ";"
			}
		}
	}
	cls := fmt.Sprintf("js->go|outs=%s", fc.Outs)
	if fc.Throw != "" {
		tn := fc.Throw
		if tn == "{value:null}" || tn == "{value:undefined}" {
			tn = "{value:nullish}"
		}
		cls = "js->go|error-result=" + fmt.Sprint(hasErr) + "|throw " + tn
	}
	// expected conversion of the returned value
	m := &model{mapper: mapNil, capHint: -1}
	want := reflect.New(t0).Elem()
	var cerr error
	ood := false
	func() {
		defer func() {
			if x := recover(); x != nil {
				if _, ok := x.(mskip); ok {
					ood = true
					return
				}
				panic(x)
			}
		}()
		cerr = m.conv(rv.mv(m), want)
	}()
	var jsf goja.Value
	var err error
	if jsf, err = rt.RunString("var SEEN; (function(){ SEEN = D(Array.prototype.slice.call(arguments)); " + body + " })"); err != nil {
		panic(err)
	}
	target := reflect.New(ft)
	if err := rt.ExportTo(jsf, target.Interface()); err != nil {
		return "func|" + cls + "|ExportTo-error", err.Error()
	}
	// Go-side arguments: the last pool value of every parameter (variadic: the whole pool)
	var args []reflect.Value
	var wantSeen []string
	vw := viewer{mapNil}
	for i, p := range ps {
		if fc.Variadic && i == len(ps)-1 {
			for _, x := range p.pool {
				a := reflect.New(p.t).Elem()
				if x != nil {
					a.Set(reflect.ValueOf(x))
				}
				args = append(args, a)
				wantSeen = append(wantSeen, vw.view(a, 1))
			}
			continue
		}
		a := reflect.New(p.t).Elem()
		if x := p.pool[len(p.pool)-1]; x != nil {
			a.Set(reflect.ValueOf(x))
		}
		args = append(args, a)
		wantSeen = append(wantSeen, vw.view(a, 1))
	}
	var res []reflect.Value
	pan := ""
	var panVal interface{}
	func() {
		defer func() {
			if x := recover(); x != nil {
				panVal = x
				pan = fmt.Sprintf("%T: %v", x, x)
			}
		}()
		res = target.Elem().Call(args)
	}()
	if pan != "" {
		_, isExc := panVal.(*goja.Exception)
		f.rt = nil
		if fc.Throw != "" && !hasErr && isExc {
			return "", "" // documented: without an error result, exceptions result in a panic
		}
		if fc.Throw == "" && !hasErr && (cerr != nil || ood) {
			return "", "" // a result that cannot be converted, and no error result to report it
		}
		return "host-panic|" + cls + "|" + normPanic(pan), fmt.Sprintf("calling an ExportTo'd func %s panics: %s", ft, pan)
	}
	if fc.Throw != "" {
		if !hasErr {
			return "func|" + cls + "|exception-swallowed", "a thrown exception neither panicked nor was returned"
		}
		e := res[len(res)-1]
		if e.IsNil() {
			return "func|" + cls + "|exception-swallowed", "the error result is nil although the function threw"
		}
		for i := 0; i < len(res)-1; i++ {
			if g := goDump(res[i]); g != goDump(reflect.Zero(res[i].Type())) {
				return "func|" + cls + "|result-not-zeroed", "a result next to a returned exception is not zero: " + g
			}
		}
		return "", ""
	}
	seen := rt.Get("SEEN").String()
	if w := "[" + strings.Join(wantSeen, ",") + "]"; seen != w {
		return "func|" + cls + "|arguments-seen-by-script", fmt.Sprintf("script saw %s, want %s", clip(seen), clip(w))
	}
	if len(outs) == 0 {
		return "", ""
	}
	// first result = conversion of the returned value (error-only signature: nil)
	if fc.Outs == "(err)" {
		if !res[0].IsNil() {
			return "func|" + cls + "|spurious-error", "error returned without an exception"
		}
		return "", ""
	}
	if ood {
		return "", ""
	}
	if cerr != nil {
		// conversion failure of the result: an error when there is an error result
		if hasErr && res[len(res)-1].IsNil() {
			return "func|" + cls + "|unconvertible-result-not-reported", "the returned value cannot be converted but no error was returned"
		}
		return "", ""
	}
	if g, w := goDump(res[0]), goDump(want); g != w {
		return "func|" + cls + "|result-conversion", fmt.Sprintf("Go got %s, want %s", clip(g), clip(w))
	}
	for i := 1; i < len(res); i++ {
		if g := goDump(res[i]); g != goDump(reflect.Zero(res[i].Type())) {
			return "func|" + cls + "|extra-result-not-zero", g
		}
	}
	return "", ""
}

func runFuncs(r *core.Run) {
	params := funcParams()
	var cases []*FuncCase
	// signatures: arity 0..2
	var sigs [][]string
	sigs = append(sigs, nil)
	for _, p := range params {
		sigs = append(sigs, []string{p.name})
	}
	for _, p := range params {
		for _, q := range params {
			if r.Quick() && q.name != "int" && q.name != "interface{}" && q.name != "In" && p.name != q.name {
				continue
			}
			sigs = append(sigs, []string{p.name, q.name})
		}
	}
	for _, sg := range sigs {
		for _, variadic := range []bool{false, true} {
			if variadic && len(sg) == 0 {
				continue
			}
			for _, ok := range outKinds {
				// Go -> JS: argument tuples
				var tuples [][]string
				tuples = append(tuples, nil)
				if len(sg) >= 1 {
					p := paramByName(sg[0])
					for _, a := range p.args {
						tuples = append(tuples, []string{a.name})
						if len(sg) >= 2 {
							for _, b := range paramByName(sg[1]).args {
								tuples = append(tuples, []string{a.name, b.name})
								if variadic {
									tuples = append(tuples, []string{a.name, b.name, b.name})
								}
							}
						} else if variadic {
							tuples = append(tuples, []string{a.name, a.name})
						} else {
							tuples = append(tuples, []string{a.name, "7"}) // one argument too many
						}
					}
				} else {
					tuples = append(tuples, []string{"7"})
				}
				for _, tp := range tuples {
					cases = append(cases, &FuncCase{Part: "func", Dir: "go->js", Params: sg, Variadic: variadic, Outs: ok, Args: tp})
				}
				// JS -> Go
				if ok == "(T,err)" {
					continue
				}
				rp := paramByName("int")
				if len(sg) > 0 {
					rp = paramByName(sg[0])
				}
				if ok == "(err)" {
					cases = append(cases, &FuncCase{Part: "func", Dir: "js->go", Params: sg, Variadic: variadic, Outs: ok, Ret: "undefined"})
				}
				for _, rv := range rp.args {
					if ok == "(err)" {
						break
					}
					cases = append(cases, &FuncCase{Part: "func", Dir: "js->go", Params: sg, Variadic: variadic, Outs: ok, Ret: rv.name})
				}
				if len(sg) <= 1 && !variadic {
					for _, tp := range throwPayloads[1:] {
						cases = append(cases, &FuncCase{Part: "func", Dir: "js->go", Params: sg, Outs: ok, Ret: "undefined", Throw: tp.name})
					}
				}
			}
		}
	}
	workers := make([]*funcRT, r.Workers)
	for i := range workers {
		workers[i] = &funcRT{}
	}
	ok := r.Parallel(int64(len(cases)), 32, func(worker int, lo, hi int64) {
		f := workers[worker]
		for i := lo; i < hi; i++ {
			fc := cases[i]
			var sig, what string
			if fc.Dir == "go->js" {
				sig, what = checkGoToJS(f, fc)
			} else {
				sig, what = checkJSToGo(f, fc)
			}
			r.Eval(1)
			r.Outcome("func:" + fc.Dir + fc.Outs)
			if sig != "" {
				r.Violation(sig, fmt.Sprintf("%s func(%s%s) %s args=%v ret=%s throw=%q: %s", fc.Dir, strings.Join(fc.Params, ","), map[bool]string{true: "...", false: ""}[fc.Variadic], fc.Outs, fc.Args, fc.Ret, fc.Throw, what), fc)
			}
			if r.WantSample(i) {
				r.Sample(fc)
			}
		}
	})
	r.NontrivialN(int64(len(cases)))
	r.Set("func_cases", len(cases))
	r.Set("func_complete", ok)
	bounds["func_signature_params"] = 2
}

func replayFunc(r *core.Run, fc *FuncCase) {
	var sig, what string
	if fc.Dir == "go->js" {
		sig, what = checkGoToJS(&funcRT{}, fc)
	} else {
		sig, what = checkJSToGo(&funcRT{}, fc)
	}
	if sig != "" {
		r.Violation(sig, what, fc)
	}
}
