package c13

import (
	"fmt"
	"reflect"
	"strconv"
	"strings"
)

// jsPrelude defines the observation functions used by every part of the check.
//
//	D(x)   canonical dump of a script value (objects by sorted own enumerable keys, arrays by index)
//	F(t,P) everything script can observe on a wrapper: D, Object.keys, for-in, JSON.stringify, spread,
//	       `in` / hasOwnProperty for the probe keys P, length
//	X(e)   exception class: TypeError and RangeError are the acceptable "cannot represent" answers
//	C      comparator of the `sort` op (numeric projection K)
const jsPrelude = `
function D(x,d){
  d=d|0;
  if (x===undefined) return "u";
  if (x===null) return "null";
  var t=typeof x;
  if (t==="number") return Object.is(x,-0)?"-0":String(x);
  if (t==="string") return JSON.stringify(x);
  if (t==="boolean") return x?"T":"F";
  if (t==="bigint") return String(x)+"n";
  if (t==="function") return "fn";
  if (t==="symbol") return "sym";
  if (d>5) return "…";
  var s,i;
  if (Array.isArray(x)) { s="["; for (i=0;i<x.length;i++) s+=(i?",":"")+D(x[i],d+1); return s+"]"; }
  var ks=Object.keys(x).sort(); s="{";
  for (i=0;i<ks.length;i++) s+=(i?",":"")+ks[i]+":"+D(x[ks[i]],d+1);
  return s+"}";
}
function X(e){ return (e instanceof TypeError || e instanceof RangeError) ? "!throw" : "!other:"+String(e); }
function K(x){ if (typeof x==="number") return x; if (x && typeof x==="object") { if (Array.isArray(x)) return typeof x[0]==="number" ? (x[0]|0) : 0; return typeof x.A==="number" ? (x.A|0) : 0; } return 0; }
function C(x,y){ return K(x)-K(y); }
function J(t){ var j; try { j=JSON.stringify(t); } catch(e) { return "!"+e.name; } return j===undefined ? "u" : D(JSON.parse(j)); }
function F(t,P,nj){
  if (t===null || typeof t!=="object") return D(t);
  var s=D(t), fi=[], i;
  for (var k in t) fi.push(k);
  s+="|k="+Object.keys(t).sort().join()+"|f="+fi.sort().join()+"|j="+(nj?"cyc":J(t))+"|s="+(Array.isArray(t)?D([...t]):D({...t}))+"|p=";
  for (i=0;i<P.length;i++) {
    s+=((P[i] in t)?1:0)+""+(Object.prototype.hasOwnProperty.call(t,P[i])?1:0);
    if (typeof P[i]==="number") s+=((String(P[i]) in t)?1:0)+""+(Object.prototype.hasOwnProperty.call(t,String(P[i]))?1:0);
  }
  if (Array.isArray(t)) s+="|l="+t.length;
  return s;
}
function FD(w,h,P){ try { return D(w)+"##"+D(h[0])+"##"+D(h[1]); } catch(e) { return "!FD:"+String(e); } }
function FF(w,h,P,nj){ try { return F(w,P,nj[0])+"##"+F(h[0],P,nj[1])+"##"+F(h[1],P,nj[2]); } catch(e) { return "!FF:"+String(e); } }
`

type keyDef struct {
	name string // property key (what the model sees)
	js   string // script expression for it: numeric literal or string literal
}

func kIdx(i int) keyDef    { return keyDef{strconv.Itoa(i), strconv.Itoa(i)} }
func kStr(s string) keyDef { return keyDef{s, strconv.Quote(s)} }
func kIdxS(i int) keyDef   { return keyDef{strconv.Itoa(i), strconv.Quote(strconv.Itoa(i))} }
func kNum(s string) keyDef { return keyDef{s, s} } // canonical numeric key written as a number literal
func kNeg(s string) keyDef { return keyDef{s, "(" + s + ")"} }
func keysIdx(n int) []keyDef {
	var ks []keyDef
	for i := 0; i < n; i++ {
		ks = append(ks, kIdx(i))
	}
	return ks
}

type valDef struct {
	name string
	js   string
	mv   func(m *model) mval
}

func vConst(name, js string, v mval) valDef {
	return valDef{name, js, func(*model) mval { return v }}
}

var (
	val7     = vConst("7", "7", vInt(7))
	val300   = vConst("300", "300", vInt(300))
	val1p5   = vConst("1.5", "1.5", vFloat(1.5))
	valNeg   = vConst("-3", "-3", vInt(-3))
	valStrX  = vConst(`"x"`, `"x"`, vStr("x"))
	valStr7  = vConst(`"7"`, `"7"`, vStr("7"))
	valTrue  = vConst("true", "true", vBool(true))
	valNull  = vConst("null", "null", vNull)
	valUndef = vConst("undefined", "undefined", vUndef)
	valH0    = valDef{"h0", "h[0]", func(m *model) mval { return m.h[0] }}
	valH1    = valDef{"h1", "h[1]", func(m *model) mval { return m.h[1] }}
	valW     = valDef{"w", "w", func(m *model) mval { return m.rootVal() }}
)

func valWKey(k keyDef) valDef {
	return valDef{"w[" + k.name + "]", "w[" + k.js + "]", func(m *model) mval {
		if m.root == nil {
			throwJS()
		}
		return m.get(m.root, k.name)
	}}
}

func (m *model) rootVal() mval {
	if m.root == nil {
		return vNull
	}
	return mval{k: mRef, ref: m.root}
}

type target struct {
	name string
	js   string
	get  func(m *model) mval
	idx  int // -1 = w, else handle slot
}

var (
	tgtW  = target{"w", "w", func(m *model) mval { return m.rootVal() }, -1}
	tgtH0 = target{"h0", "h[0]", func(m *model) mval { return m.h[0] }, 0}
	tgtH1 = target{"h1", "h[1]", func(m *model) mval { return m.h[1] }, 1}
)

// op is one letter of the alphabet of a wrapper kind.
type op struct {
	name  string
	kind  string // op family, used in signatures
	tgt   int    // handle slot of the target wrapper (-1 root, -2 none)
	js    string // function body; its return value is dumped with D
	model func(m *model) mval
	goFn  func(host reflect.Value) // Go-side mutation instead of a script op
}

// refOf resolves the target of an op: null/undefined throw (TypeError), a primitive is outside the model.
func refOf(v mval) *mref {
	switch v.k {
	case mRef:
		return v.ref
	case mUndef, mNull:
		throwJS()
	}
	skip("operation on a primitive handle")
	return nil
}

type goOp struct {
	name string
	kind string
	f    func(host reflect.Value)
}

type spliceDef struct {
	start, del int
	item       *valDef
}

// alphabet describes which ops a wrapper kind gets.
type alphabet struct {
	targets  []target
	keys     []keyDef
	takes    []int // handle slots that `take` may fill
	reads    bool
	vals     []valDef // for set
	defVals  []valDef // for defineProperty
	dels     bool
	pushVals []valDef
	arrayOps bool
	splices  []spliceDef
	lens     []int
	goOps    []goOp
	readAll  bool // traversals that read every element wrapper, ascending and descending
}

func buildOps(a *alphabet) []*op {
	var ops []*op
	add := func(o *op) { ops = append(ops, o) }
	for _, t := range a.targets {
		t := t
		for _, k := range a.keys {
			k := k
			for _, j := range a.takes {
				j := j
				add(&op{
					name: fmt.Sprintf("h%d=%s[%s]", j, t.name, k.js), kind: "take", tgt: t.idx,
					js: fmt.Sprintf("h[%d]=%s[%s]; return 0;", j, t.js, k.js),
					model: func(m *model) mval {
						m.h[j] = m.get(refOf(t.get(m)), k.name)
						return vInt(0)
					}})
			}
			if a.reads {
				add(&op{
					name: fmt.Sprintf("read %s[%s]", t.name, k.js), kind: "get", tgt: t.idx,
					js:    fmt.Sprintf("return %s[%s];", t.js, k.js),
					model: func(m *model) mval { return m.get(refOf(t.get(m)), k.name) }})
			}
			for _, v := range a.vals {
				v := v
				add(&op{
					name: fmt.Sprintf("%s[%s]=%s", t.name, k.js, v.name), kind: "set", tgt: t.idx,
					js: fmt.Sprintf("%s[%s]=%s; return 0;", t.js, k.js, v.js),
					model: func(m *model) mval {
						r := refOf(t.get(m))
						m.set(r, k.name, v.mv(m))
						return vInt(0)
					}})
			}
			if a.dels {
				add(&op{
					name: fmt.Sprintf("delete %s[%s]", t.name, k.js), kind: "delete", tgt: t.idx,
					js: fmt.Sprintf("return delete %s[%s];", t.js, k.js),
					model: func(m *model) mval {
						m.del(refOf(t.get(m)), k.name)
						return vBool(true)
					}})
			}
			for _, v := range a.defVals {
				v := v
				add(&op{
					name: fmt.Sprintf("define %s[%s]=%s", t.name, k.js, v.name), kind: "define", tgt: t.idx,
					js: fmt.Sprintf("Object.defineProperty(%s,%s,{value:%s}); return 0;", t.js, k.js, v.js),
					model: func(m *model) mval {
						tv := t.get(m)
						if tv.k != mRef {
							if tv.k == mUndef || tv.k == mNull {
								throwJS()
							}
							throwJS() // Object.defineProperty called on non-object
						}
						m.define(tv.ref, k.name, v.mv(m))
						return vInt(0)
					}})
			}
		}
		if !a.arrayOps {
			continue
		}
		arr := func(m *model) *mref {
			r := refOf(t.get(m))
			if !m.isArrayLike(r) {
				throwJS() // method is undefined on a non-array wrapper: TypeError
			}
			return r
		}
		for _, v := range a.pushVals {
			v := v
			add(&op{name: fmt.Sprintf("%s.push(%s)", t.name, v.name), kind: "push", tgt: t.idx,
				js:    fmt.Sprintf("return %s.push(%s);", t.js, v.js),
				model: func(m *model) mval { r := arr(m); return m.push(r, v.mv(m)) }})
			add(&op{name: fmt.Sprintf("%s.unshift(%s)", t.name, v.name), kind: "unshift", tgt: t.idx,
				js:    fmt.Sprintf("return %s.unshift(%s);", t.js, v.js),
				model: func(m *model) mval { r := arr(m); return m.unshift(r, v.mv(m)) }})
		}
		if a.readAll {
			add(&op{name: "readall-asc " + t.name, kind: "get", tgt: t.idx,
				js: "for (var i=0;i<" + t.js + ".length;i++) " + t.js + "[i]; return 0;",
				model: func(m *model) mval {
					r := refOf(t.get(m))
					if !m.isArrayLike(r) {
						return vInt(0) // no length: the loop body never runs
					}
					for i := 0; i < r.loc.Len(); i++ {
						m.get(r, strconv.Itoa(i))
					}
					return vInt(0)
				}})
			add(&op{name: "readall-desc " + t.name, kind: "get", tgt: t.idx,
				js: "for (var i=" + t.js + ".length-1;i>=0;i--) " + t.js + "[i]; return 0;",
				model: func(m *model) mval {
					r := refOf(t.get(m))
					if !m.isArrayLike(r) {
						return vInt(0)
					}
					for i := r.loc.Len() - 1; i >= 0; i-- {
						m.get(r, strconv.Itoa(i))
					}
					return vInt(0)
				}})
		}
		add(&op{name: t.name + ".pop()", kind: "pop", tgt: t.idx, js: "return " + t.js + ".pop();",
			model: func(m *model) mval { return m.pop(arr(m)) }})
		add(&op{name: t.name + ".shift()", kind: "shift", tgt: t.idx, js: "return " + t.js + ".shift();",
			model: func(m *model) mval { return m.shift(arr(m)) }})
		add(&op{name: t.name + ".reverse()", kind: "reverse", tgt: t.idx, js: t.js + ".reverse(); return 0;",
			model: func(m *model) mval { m.reverse(arr(m)); return vInt(0) }})
		add(&op{name: t.name + ".sort(C)", kind: "sort", tgt: t.idx, js: t.js + ".sort(C); return 0;",
			model: func(m *model) mval { m.sortInPlace(arr(m)); return vInt(0) }})
		for _, s := range a.splices {
			s := s
			if s.item != nil {
				it := *s.item
				add(&op{name: fmt.Sprintf("%s.splice(%d,%d,%s)", t.name, s.start, s.del, it.name), kind: "splice", tgt: t.idx,
					js:    fmt.Sprintf("return %s.splice(%d,%d,%s);", t.js, s.start, s.del, it.js),
					model: func(m *model) mval { r := arr(m); return m.splice(r, s.start, s.del, it.mv(m)) }})
			} else {
				add(&op{name: fmt.Sprintf("%s.splice(%d,%d)", t.name, s.start, s.del), kind: "splice", tgt: t.idx,
					js:    fmt.Sprintf("return %s.splice(%d,%d);", t.js, s.start, s.del),
					model: func(m *model) mval { return m.splice(arr(m), s.start, s.del) }})
			}
		}
		for _, n := range a.lens {
			n := n
			add(&op{name: fmt.Sprintf("%s.length=%d", t.name, n), kind: "length=", tgt: t.idx,
				js: fmt.Sprintf("%s.length=%d; return 0;", t.js, n),
				model: func(m *model) mval {
					r := refOf(t.get(m))
					switch r.class() {
					case wSlice, wIfSlice, wArray:
						m.setLengthProp(r, n)
					case wStruct:
						throwJS()
					default:
						m.set(r, "length", vInt(int64(n)))
					}
					return vInt(0)
				}})
		}
	}
	for _, g := range a.goOps {
		g := g
		add(&op{name: "go:" + g.name, kind: "go:" + g.kind, tgt: -2, goFn: g.f})
	}
	return ops
}

func opJSSource(o *op) string {
	body := o.js
	i := strings.LastIndex(body, "return ")
	expr := strings.TrimSuffix(strings.TrimSpace(body[i+len("return "):]), ";")
	body = body[:i] + "return D(" + expr + ");"
	return `(function(w,h){"use strict"; try { ` + body + ` } catch(e) { return X(e); } })`
}
