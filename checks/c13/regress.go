package c13

import (
	"context"
	"fmt"
	"os"
	"os/exec"
	"runtime/debug"
	"strings"
	"time"

	"verif/core"

	"github.com/dop251/goja"
)

// Regression corpus: the minimal failing input of every listed finding, run before any exploration, so that
// the quick tier reaches each of them deterministically whatever the budget.

// --- histories ---------------------------------------------------------------------------------------

var regressHistories = []HistCase{
	{Kind: "*[3]int", Path: []string{"w[3]=7"}},
	{Kind: "*[3]int", Path: []string{"w[4]=7"}},
	{Kind: "*[3]int", Path: []string{"w.push(7)"}},
	{Kind: "*[3]int", Path: []string{"w.unshift(7)"}},
	{Kind: "*[3]int", Path: []string{"define w[3]=7"}},
	{Kind: "*[3]int", Path: []string{"w.splice(1,0,7)"}},
	{Kind: "nil map[string]int", Path: []string{`w["a"]=7`}},
	{Kind: "nil map[string]int", Path: []string{`define w["a"]=7`}},
	{Kind: "*[]struct/go", Path: []string{"h0=w[0]", "go:s=s[1:]"}},
	{Kind: "*[]struct/go", Path: []string{"h0=w[0]", "go:s=append(s,S{0})", "go:s=append(s,S{0})", "go:s[0].A=8"}},
	{Kind: "*[]struct/nested", Path: []string{"h0=w[0]", `h1=h0["In"]`, `w[0]={A:5,B:'b',In:{X:6}}`}},
	{Kind: "*[]struct", Path: []string{"read w[0]", "w.sort(C)"}},
	{Kind: "*[]struct", Path: []string{"read w[0]", "w.shift()"}},
	{Kind: "*struct{slice,array,map}", Path: []string{`h0=w["M"]`, `w["M"]={k:4}`}},
	{Kind: "*struct{ptr,iface}", Path: []string{`w["P"]=null`, `w["P"]=7`}},
	// guards (no finding on the unchanged tree): element wrappers handed out, shrink below them, regrow,
	// touch the higher index first - the lower index must be a fresh live element, not the detached wrapper
	{Kind: "*[]struct", Path: []string{"h0=w[0]", "h1=w[1]", "w.length=0", "w.length=5", "read w[1]"}},
	{Kind: "*[]struct", Path: []string{"w.sort(C)", "w.length=0", "w.length=5", "read w[1]", `h0=w[0]`, `h0["A"]=7`}},
	{Kind: "*[]struct/regrow", Path: []string{"w.length=1", "w.length=4", "readall-desc w"}},
	{Kind: "*[]struct/regrow", Path: []string{"w.length=1", "w.push({X:6})", "w.push({X:6})", "go:s[1].X=8", "read w[3]", "read w[1]"}},
	{Kind: "*[][2]int/regrow", Path: []string{"w.length=0", "w.length=4", "readall-desc w"}},
	{Kind: "*[][]int/regrow", Path: []string{"w.length=2", "w.length=4", "readall-desc w"}},
}

// --- plain scripts -----------------------------------------------------------------------------------

type scriptCase struct {
	Name  string
	Setup func(rt *goja.Runtime)
	Src   string
	Sig   string // signature when the script panics the host
}

func scriptCases() []scriptCase {
	return []scriptCase{
		{"defineProperty-no-value|map[string]interface{}", func(rt *goja.Runtime) { rt.Set("x", map[string]interface{}{"a": 1}) },
			`Object.defineProperty(x, "b", {})`, "host-panic|map[string]interface{}|defineProperty-without-value"},
		{"defineProperty-no-value|map[string]int", func(rt *goja.Runtime) { rt.Set("x", map[string]int{"a": 1}) },
			`Object.defineProperty(x, "a", {})`, "host-panic|map|defineProperty-without-value"},
		{"defineProperty-no-value|*struct", func(rt *goja.Runtime) { rt.Set("x", &S{}) },
			`Object.defineProperty(x, "A", {})`, "host-panic|struct|defineProperty-without-value"},
		{"defineProperty-no-value|*struct enumerable", func(rt *goja.Runtime) { rt.Set("x", &S{}) },
			`Object.defineProperty(x, "A", {enumerable: true})`, "host-panic|struct|defineProperty-without-value"},
		{"Reflect.defineProperty-no-value|map[int]int", func(rt *goja.Runtime) { rt.Set("x", map[int]int{1: 1}) },
			`Reflect.defineProperty(x, 1, {})`, "host-panic|map|defineProperty-without-value"},
		{"Object.freeze|*struct", func(rt *goja.Runtime) { rt.Set("x", &S{}) },
			`try { Object.freeze(x) } catch(e) { if (!(e instanceof TypeError)) throw e }`, "host-panic|struct|freeze"},
		{"Object.freeze|map[string]int", func(rt *goja.Runtime) { rt.Set("x", map[string]int{"a": 1}) },
			`try { Object.freeze(x) } catch(e) { if (!(e instanceof TypeError)) throw e }`, "host-panic|map|freeze"},
		{"Object.seal|*[]int", func(rt *goja.Runtime) { rt.Set("x", &[]int{1}) },
			`try { Object.seal(x) } catch(e) { if (!(e instanceof TypeError)) throw e }`, "host-panic|slice|seal"},
		{"Object.assign|*struct", func(rt *goja.Runtime) { rt.Set("x", &S{}) },
			`try { Object.assign(x, {A: 1, Q: 2}) } catch(e) { if (!(e instanceof TypeError)) throw e }`, "host-panic|struct|assign"},
		{"nil-embedded|read", func(rt *goja.Runtime) { rt.Set("x", &PEmb{nil, 1}) },
			`try { x.ID } catch(e) { if (!(e instanceof TypeError)) throw e }`, "host-panic|read-promoted-field-of-nil-embedded-pointer"},
		{"nil-embedded|write", func(rt *goja.Runtime) { rt.Set("x", &PEmb{nil, 1}) },
			`try { x.ID = 1 } catch(e) { if (!(e instanceof TypeError)) throw e }`, "host-panic|write-promoted-field-of-nil-embedded-pointer"},
		{"nil-embedded|keys", func(rt *goja.Runtime) { rt.Set("x", &PEmb{nil, 1}) },
			`Object.keys(x).length; "ID" in x`, "host-panic|enumerate-nil-embedded-pointer"},
	}
}

type ScriptRegress struct {
	Part string `json:"part"`
	Name string `json:"name"`
}

func runScriptCase(r *core.Run, sc *scriptCase) {
	rt := newRuntime(mapNil)
	sc.Setup(rt)
	var err error
	pan := catch(func() { _, err = rt.RunString(sc.Src) })
	r.Eval(1)
	if pan != "" {
		r.Violation(sc.Sig+"|"+normPanic(pan), fmt.Sprintf("script %q on %s: Go panic %q escapes", sc.Src, sc.Name, pan), ScriptRegress{"script", sc.Name})
		return
	}
	if err != nil {
		if ex, ok := err.(*goja.Exception); !ok || !strings.Contains(ex.Error(), "TypeError") {
			r.Violation("script-regress|"+sc.Name+"|unexpected-error", err.Error(), ScriptRegress{"script", sc.Name})
		}
	}
}

// --- fatal cases, in a child process -----------------------------------------------------------------

type fatalCase struct {
	Name string
	Run  func() string
	Sig  string
	What string
}

func fatalCases() []fatalCase {
	return []fatalCase{
		{"JSON.stringify|cyclic map[string]interface{}", func() string {
			rt := goja.New()
			m := map[string]interface{}{"a": 1}
			m["self"] = m
			rt.Set("m", m)
			v, err := rt.RunString(`var r; try { r = JSON.stringify(m) } catch (e) { r = String(e) }; r`)
			return fmt.Sprint(v, err)
		}, "fatal-stack-overflow|JSON.stringify|cyclic-go-value",
			"m := map[string]interface{}{}; m[\"self\"] = m; JSON.stringify(m) recurses without bound (cycle detection is by wrapper identity, every property read creates a new wrapper) and kills the process with a fatal stack overflow; want a TypeError like for a cyclic script object"},
		{"JSON.stringify|cyclic *struct", func() string {
			rt := goja.New()
			n := &Node{V: 1}
			n.Next = n
			rt.Set("n", n)
			v, err := rt.RunString(`var r; try { r = JSON.stringify(n) } catch (e) { r = String(e) }; r`)
			return fmt.Sprint(v, err)
		}, "fatal-stack-overflow|JSON.stringify|cyclic-go-value", "JSON.stringify of a struct pointer cycle: fatal stack overflow"},
		{"Array.prototype.join|*[]interface{} holding itself (built by script)", func() string {
			rt := goja.New()
			a := []interface{}{1}
			rt.Set("a", &a)
			v, err := rt.RunString(`a[0] = a; var r; try { r = String(a) } catch (e) { r = String(e) }; r`)
			return fmt.Sprint(v, err)
		}, "fatal-stack-overflow|Array.prototype.join|cyclic-go-value",
			"a := []interface{}{1}; vm.Set(\"a\", &a); script `a[0] = a; String(a)` recurses without bound in Array.prototype.join (a cyclic script array gives \"\") and kills the process with a fatal stack overflow"},
	}
}

type FatalRegress struct {
	Part string `json:"part"`
	Name string `json:"name"`
}

func init() {
	if name := os.Getenv("C13_CHILD"); name != "" {
		debug.SetMaxStack(4 << 20)
		for _, fc := range fatalCases() {
			if fc.Name == name {
				fmt.Println("C13-CHILD-OK", fc.Run())
				os.Exit(0)
			}
		}
		fmt.Println("C13-CHILD-UNKNOWN")
		os.Exit(3)
	}
}

func runFatalCase(r *core.Run, fc *fatalCase) {
	exe, err := os.Executable()
	if err != nil {
		r.Violation("fatal-regress|cannot-find-executable", err.Error(), nil)
		return
	}
	verdict := ""
	for i := 0; i < 2; i++ { // deterministic: same verdict twice
		ctx, cancel := context.WithTimeout(context.Background(), 60*time.Second)
		cmd := exec.CommandContext(ctx, exe, "C13")
		cmd.Env = append(os.Environ(), "C13_CHILD="+fc.Name, "GOTRACEBACK=none")
		out, err := cmd.CombinedOutput()
		timedOut := ctx.Err() != nil
		cancel()
		v := "ok"
		switch {
		case strings.Contains(string(out), "stack overflow") || strings.Contains(string(out), "goroutine stack exceeds"):
			v = "stack-overflow"
		case timedOut:
			v = "timeout"
		case err != nil || !strings.Contains(string(out), "C13-CHILD-OK"):
			v = "died: " + clip(string(out))
		}
		if i > 0 && v != verdict {
			r.Violation("nondeterministic|fatal|"+fc.Name, verdict+" vs "+v, FatalRegress{"fatal", fc.Name})
			return
		}
		verdict = v
	}
	r.Eval(1)
	switch verdict {
	case "ok":
	case "stack-overflow":
		r.Violation(fc.Sig, fc.What, FatalRegress{"fatal", fc.Name})
	default:
		r.Violation("fatal-regress|"+fc.Name+"|"+verdict, "child process: "+verdict, FatalRegress{"fatal", fc.Name})
	}
}

func runRegress(r *core.Run) {
	kinds := allKinds()
	wc := &workerCtx{comp: map[*wkind]*compiled{}}
	for i := range regressHistories {
		hc := regressHistories[i]
		hc.Part = "hist"
		replayHistoryIn(r, kinds, wc, &hc)
		r.Eval(1)
	}
	scs := scriptCases()
	for i := range scs {
		runScriptCase(r, &scs[i])
	}
	fcs := fatalCases()
	for i := range fcs {
		runFatalCase(r, &fcs[i])
	}
	r.Set("regression_cases", len(regressHistories)+len(scs)+len(fcs))
}

func replayHistoryIn(r *core.Run, kinds []*wkind, wc *workerCtx, hc *HistCase) {
	for _, wk := range kinds {
		if wk.name != hc.Kind {
			continue
		}
		var path []int
		for _, n := range hc.Path {
			found := -1
			for i, o := range wk.ops {
				if o.name == n {
					found = i
				}
			}
			if found < 0 {
				r.Violation("replay|unknown-op", wk.name+": "+n, hc)
				return
			}
			path = append(path, found)
		}
		out := runHistory(compileKind(wk), wk, path, defects{}, true)
		if out.fail != nil {
			sig, what := classify(compileKind(wk), wk, path, out.fail)
			r.Violation(sig, what, HistCase{Part: "hist", Kind: wk.name, Path: hc.Path, Failure: out.fail})
		} else if out.skipped && os.Getenv("VERIF_REPLAY_PATH") != "" {
			fmt.Println("replay: history is outside the model domain:", out.skipWhy)
		}
		return
	}
	r.Violation("replay|unknown-kind", hc.Kind, hc)
}
