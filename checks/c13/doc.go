// Package c13 holds the check for property C13.
package c13
