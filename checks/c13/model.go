package c13

import (
	"fmt"
	"math"
	"reflect"
	"sort"
	"strconv"
	"strings"
)

// The shadow model of part 2. It is "plain Go values plus the documented copy-on-change rule":
//
//   - the model owns a TWIN of the host value (built by the same factory as the value given to goja) and
//     executes every script operation on it with ordinary Go operations (reflect.Value.Set, SetMapIndex,
//     append-like growth, zero-fill on delete), following the ECMAScript algorithm of the Array method
//     involved step by step (Get / Set / Delete / set length), so partial effects of an operation that
//     throws half-way are predicted as well;
//   - a script-visible wrapper is an mref: a *location* in the twin (or a private copy). Element wrappers of
//     compound non-pointer values (struct, array, slice inside an addressable container) are references to
//     the element's location and are registered with the container that handed them out; when the
//     container re-assigns that element through script (assignment, delete, defineProperty, shrinking)
//     the registered wrapper is re-pointed to a private copy of the old value FIRST (copy-on-change);
//     in-place sort moves registered wrappers with their values; growing a slice re-points them to the
//     re-allocated backing array. Go-side mutations are just executed on the twin: a location-based
//     reference sees them by construction, and the container looks up its registry by location, so a
//     wrapper that no longer denotes the current element (Go-side reslice / re-allocation) is not reused.
//   - values that are not addressable (map elements, values inside interface{}) are copied when wrapped
//     (documented caveat 3); pointers, maps are wrapped by reference.
//
// Whatever the documentation does not define (see conv: partially specified object literals, writing
// through an existing non-nil pointer, exporting an element reference into interface{}...) makes the model
// answer "skip": the transition is executed on the implementation only for the no-panic oracle and is not
// expanded.

type mkind uint8

const (
	mUndef mkind = iota
	mNull
	mBool
	mNum
	mStr
	mFn
	mRef
	mLit
)

type mval struct {
	k     mkind
	b     bool
	n     float64
	isInt bool // a Number that goja holds as an integer (Export gives int64)
	s     string
	ref   *mref
	lit   *mlit
}

// mlit is an ordinary script object / array created by the script itself.
type mlit struct {
	arr  bool
	keys []string
	vals []mval
}

var (
	vUndef = mval{k: mUndef}
	vNull  = mval{k: mNull}
)

func vInt(i int64) mval     { return mval{k: mNum, n: float64(i), isInt: true} }
func vFloat(f float64) mval { return mval{k: mNum, n: f} }
func vStr(s string) mval    { return mval{k: mStr, s: s} }
func vBool(b bool) mval     { return mval{k: mBool, b: b} }
func vArr(vals ...mval) mval {
	return mval{k: mLit, lit: &mlit{arr: true, vals: vals}}
}
func vObj(kv ...interface{}) mval {
	l := &mlit{}
	for i := 0; i < len(kv); i += 2 {
		l.keys = append(l.keys, kv[i].(string))
		l.vals = append(l.vals, kv[i+1].(mval))
	}
	return mval{k: mLit, lit: l}
}

type wclass uint8

const (
	wOther wclass = iota
	wStruct
	wArray
	wSlice
	wMap
	wIfSlice
	wIfMap
)

func classOf(t reflect.Type) wclass {
	switch {
	case t == typIfSlice:
		return wIfSlice
	case t == typIfMap:
		return wIfMap
	}
	switch t.Kind() {
	case reflect.Struct:
		return wStruct
	case reflect.Array:
		return wArray
	case reflect.Slice:
		return wSlice
	case reflect.Map:
		if t.NumMethod() == 0 && mapKeyKindOK(t.Key().Kind()) {
			return wMap
		}
	}
	return wOther
}

type mref struct {
	loc    reflect.Value // addressable location holding the viewed value
	exp    reflect.Value // fixed Export() result (the pointer / map that was wrapped), if any
	expPtr bool          // element reference: Export() gives a pointer to loc (not part of the oracle)
	reg    map[string]*mref
}

func (r *mref) class() wclass { return classOf(r.loc.Type()) }

type mthrow struct{}
type mskip struct{ why string }

func throwJS()        { panic(mthrow{}) }
func skip(why string) { panic(mskip{why}) }
func isContainerKind(k reflect.Kind) bool {
	return k == reflect.Struct || k == reflect.Slice || k == reflect.Array
}

type model struct {
	mapper  int
	root    *mref
	h       [2]mval
	capHint int // capacity the implementation ended up with for the target slice of the current op (-1: none)
	df      defects
	touched bool // the current op got as far as converting a value for an element / resizing
}

// isLive: does the registered reference c still denote the current element location cur?
func (m *model) isLive(c *mref, cur reflect.Value) bool {
	if m.df.cacheNotValidated {
		return true
	}
	return sameLoc(c.loc, cur)
}

func sameLoc(a, b reflect.Value) bool {
	return a.Type() == b.Type() && a.CanAddr() && b.CanAddr() && a.Addr().Pointer() == b.Addr().Pointer()
}

func newVar(v reflect.Value) reflect.Value {
	l := reflect.New(v.Type()).Elem()
	l.Set(v)
	return l
}

// newRootRef wraps the value handed to ToValue.
func newRootRef(val reflect.Value) *mref {
	v := val
	for v.Kind() == reflect.Ptr {
		if v.IsNil() {
			return nil
		}
		v = v.Elem()
	}
	if val.Kind() == reflect.Ptr {
		return &mref{loc: v, exp: val}
	}
	switch v.Kind() {
	case reflect.Map:
		return &mref{loc: newVar(v), exp: val}
	}
	// struct / array / slice by value: the wrapper owns a copy (of the header, for slices)
	return &mref{loc: newVar(v)}
}

func (r *mref) export() reflect.Value {
	if r.exp.IsValid() {
		return r.exp
	}
	if r.expPtr {
		return r.loc.Addr()
	}
	return r.loc
}

// ---------------------------------------------------------------------------------------------------
// Go -> script

func (m *model) toValueNA(v reflect.Value) mval {
	if !v.IsValid() {
		return vNull
	}
	t := v.Type()
	switch v.Kind() {
	case reflect.Interface:
		if v.IsNil() {
			return vNull
		}
		return m.toValueNA(v.Elem())
	case reflect.Bool:
		if isExactPrim(t) {
			return vBool(v.Bool())
		}
	case reflect.Int, reflect.Int8, reflect.Int16, reflect.Int32, reflect.Int64:
		if isExactPrim(t) {
			return vInt(v.Int())
		}
	case reflect.Uint, reflect.Uint8, reflect.Uint16, reflect.Uint32, reflect.Uint64:
		if isExactPrim(t) {
			return vInt(int64(v.Uint()))
		}
	case reflect.Float32, reflect.Float64:
		if isExactPrim(t) {
			f := v.Float()
			if f == math.Trunc(f) && math.Abs(f) < 1<<53 && !(f == 0 && math.Signbit(f)) {
				return vInt(int64(f))
			}
			return vFloat(f)
		}
	case reflect.String:
		if isExactPrim(t) {
			return vStr(v.String())
		}
	case reflect.Func:
		return mval{k: mFn}
	case reflect.Ptr:
		if v.IsNil() {
			return vNull
		}
		e := v.Elem()
		for e.Kind() == reflect.Ptr {
			if e.IsNil() {
				return vNull
			}
			e = e.Elem()
		}
		switch e.Kind() {
		case reflect.Struct, reflect.Array, reflect.Slice, reflect.Map:
			if t == typBigIntPtr {
				skip("bigint")
			}
			return mval{k: mRef, ref: &mref{loc: e, exp: v}}
		}
	case reflect.Map:
		if t == typIfMap && v.IsNil() {
			return vNull
		}
		if classOf(t) != wOther {
			return mval{k: mRef, ref: &mref{loc: newVar(v)}}
		}
	case reflect.Struct, reflect.Array, reflect.Slice:
		return mval{k: mRef, ref: &mref{loc: newVar(v)}}
	}
	skip("opaque host value " + t.String())
	return vUndef
}

// elemToValue is the script value of element ev (addressable) of the reflect container parent.
func (m *model) elemToValue(parent *mref, key string, ev reflect.Value) mval {
	if isContainerKind(ev.Kind()) && ev.CanAddr() {
		if c := parent.reg[key]; c != nil {
			if m.isLive(c, ev) {
				return mval{k: mRef, ref: c}
			}
			delete(parent.reg, key) // stale: it keeps denoting the old location
		}
		c := &mref{loc: ev, expPtr: true}
		if parent.reg == nil {
			parent.reg = map[string]*mref{}
		}
		parent.reg[key] = c
		return mval{k: mRef, ref: c}
	}
	if ev.Kind() == reflect.Map && ev.CanAddr() && ev.Type() != typIfMap && classOf(ev.Type()) == wMap {
		// A map is a reference: the wrapper must keep denoting the map it was taken from.
		if m.df.mapFieldLive {
			return mval{k: mRef, ref: &mref{loc: ev}}
		}
		return mval{k: mRef, ref: &mref{loc: newVar(ev)}}
	}
	return m.toValueNA(ev)
}

func parseIdx(key string) (int, bool) {
	if key == "" || len(key) > 9 {
		return 0, false
	}
	if key[0] == '0' && len(key) > 1 {
		return 0, false
	}
	n := 0
	for _, c := range key {
		if c < '0' || c > '9' {
			return 0, false
		}
		n = n*10 + int(c-'0')
	}
	return n, true
}

func (m *model) field(r *mref, key string) (reflect.Value, bool) {
	for _, f := range structFields(r.loc.Type(), m.mapper) {
		if f.name == key {
			fv, ok := fieldByIndexSafe(r.loc, f.index)
			if !ok {
				skip("nil embedded pointer")
			}
			return fv, true
		}
	}
	return reflect.Value{}, false
}

func (m *model) hasMethod(r *mref, key string) bool {
	for _, n := range methodNames(r.loc.Type(), m.mapper) {
		if n == key {
			return true
		}
	}
	return false
}

// mapKey converts a property key into the map's key type; only canonical numeric keys are in the domain.
func (m *model) mapKey(r *mref, key string) (reflect.Value, bool) {
	kt := r.loc.Type().Key()
	kv := reflect.New(kt).Elem()
	switch kt.Kind() {
	case reflect.String:
		kv.SetString(key)
		return kv, true
	case reflect.Int, reflect.Int8, reflect.Int16, reflect.Int32, reflect.Int64:
		n, err := strconv.ParseInt(key, 10, 64)
		if err != nil || strconv.FormatInt(n, 10) != key || kv.OverflowInt(n) {
			skip("non-canonical integer map key")
		}
		kv.SetInt(n)
		return kv, true
	case reflect.Uint, reflect.Uint8, reflect.Uint16, reflect.Uint32, reflect.Uint64:
		n, err := strconv.ParseUint(key, 10, 64)
		if err != nil || strconv.FormatUint(n, 10) != key || kv.OverflowUint(n) {
			skip("non-canonical integer map key")
		}
		kv.SetUint(n)
		return kv, true
	case reflect.Float32, reflect.Float64:
		f, err := strconv.ParseFloat(key, 64)
		if err != nil || fmt.Sprintf("%v", f) != key {
			skip("non-canonical float map key")
		}
		kv.SetFloat(f)
		return kv, true
	}
	skip("map key kind")
	return kv, false
}

func (m *model) length(r *mref) int { return r.loc.Len() }

func (m *model) get(r *mref, key string) mval {
	switch r.class() {
	case wStruct:
		if fv, ok := m.field(r, key); ok {
			return m.elemToValue(r, key, fv)
		}
		if m.hasMethod(r, key) {
			return mval{k: mFn}
		}
		return vUndef
	case wArray, wSlice:
		if i, ok := parseIdx(key); ok {
			if i < r.loc.Len() {
				return m.elemToValue(r, key, r.loc.Index(i))
			}
			return vUndef
		}
		if key == "length" {
			return vInt(int64(r.loc.Len()))
		}
		if m.hasMethod(r, key) {
			return mval{k: mFn}
		}
		skip("array key " + key)
	case wIfSlice:
		if i, ok := parseIdx(key); ok {
			if i < r.loc.Len() {
				return m.toValueNA(r.loc.Index(i))
			}
			return vUndef
		}
		if key == "length" {
			return vInt(int64(r.loc.Len()))
		}
		skip("array key " + key)
	case wMap, wIfMap:
		kv, _ := m.mapKey(r, key)
		ev := r.loc.MapIndex(kv)
		if !ev.IsValid() {
			return vUndef
		}
		return m.toValueNA(ev)
	}
	skip("get on " + r.loc.Type().String())
	return vUndef
}

func (m *model) has(r *mref, key string) bool {
	switch r.class() {
	case wStruct:
		if _, ok := m.field(r, key); ok {
			return true
		}
		return m.hasMethod(r, key)
	case wArray, wSlice, wIfSlice:
		if i, ok := parseIdx(key); ok {
			return i < r.loc.Len()
		}
		return key == "length" || m.hasMethod(r, key)
	case wMap, wIfMap:
		kt := r.loc.Type().Key()
		if kt.Kind() != reflect.String {
			// a key that does not convert is simply absent
			defer func() {
				if x := recover(); x != nil {
					if _, ok := x.(mskip); !ok {
						panic(x)
					}
				}
			}()
		}
		kv, _ := m.mapKey(r, key)
		return r.loc.MapIndex(kv).IsValid()
	}
	return false
}

func (m *model) keys(r *mref) []string {
	var ks []string
	switch r.class() {
	case wStruct:
		for _, f := range structFields(r.loc.Type(), m.mapper) {
			ks = append(ks, f.name)
		}
		have := map[string]bool{}
		for _, k := range ks {
			have[k] = true
		}
		for _, n := range methodNames(r.loc.Type(), m.mapper) {
			if !have[n] {
				ks = append(ks, n)
			}
		}
	case wArray, wSlice, wIfSlice:
		for i := 0; i < r.loc.Len(); i++ {
			ks = append(ks, strconv.Itoa(i))
		}
		if r.class() != wIfSlice {
			ks = append(ks, methodNames(r.loc.Type(), m.mapper)...)
		}
	case wMap, wIfMap:
		it := r.loc.MapRange()
		for it.Next() {
			ks = append(ks, fmt.Sprintf("%v", it.Key()))
		}
	}
	sort.Strings(ks)
	return ks
}

// ---------------------------------------------------------------------------------------------------
// copy-on-change bookkeeping

// moveBlock re-points r (and every registered reference into memory that physically moves with it: fields
// of a struct, elements of an array) to newLoc, which already holds the value.
func (m *model) moveBlock(r *mref, newLoc reflect.Value) {
	r.loc = newLoc
	if m.df.noRepoint {
		return
	}
	switch newLoc.Kind() {
	case reflect.Struct:
		for k, c := range r.reg {
			moved := false
			for _, mp := range []int{mapNil, mapTag, mapUncap} {
				for _, f := range structFields(newLoc.Type(), mp) {
					if f.name == k {
						if fv, ok := fieldByIndexSafe(newLoc, f.index); ok && fv.Type() == c.loc.Type() {
							m.moveBlock(c, fv)
							moved = true
						}
						break
					}
				}
				if moved {
					break
				}
			}
		}
	case reflect.Array:
		for k, c := range r.reg {
			if i, ok := parseIdx(k); ok && i < newLoc.Len() {
				m.moveBlock(c, newLoc.Index(i))
			}
		}
	}
	// slice: the elements live in the backing array, which did not move
}

func (m *model) detach(c *mref) {
	cp := reflect.New(c.loc.Type()).Elem()
	cp.Set(c.loc)
	m.moveBlock(c, cp)
}

// unregister detaches the live registered reference for key (before the element is overwritten).
func (m *model) unregister(parent *mref, key string, cur reflect.Value) {
	if c := parent.reg[key]; c != nil {
		if m.isLive(c, cur) {
			m.detach(c)
		}
		delete(parent.reg, key)
	}
}

// ---------------------------------------------------------------------------------------------------
// script -> Go conversion (documented part of ExportTo / assignment semantics)

func toNumber(v mval) float64 {
	switch v.k {
	case mNum:
		return v.n
	case mBool:
		if v.b {
			return 1
		}
		return 0
	case mStr:
		s := strings.TrimSpace(v.s)
		if s == "" {
			return 0
		}
		for _, c := range s {
			if !(c >= '0' && c <= '9' || c == '.' || c == '-' || c == '+' || c == 'e' || c == 'E') {
				return math.NaN()
			}
		}
		f, err := strconv.ParseFloat(s, 64)
		if err != nil {
			return math.NaN()
		}
		return f
	case mNull:
		return 0
	case mUndef:
		return math.NaN()
	}
	skip("ToNumber of an object")
	return 0
}

// wrapInt is the ECMAScript modular integer conversion (ToInt8 .. ToBigUint64-like wrap for 64 bits).
func wrapInt(f float64, bits uint, signed bool) (int64, uint64) {
	if math.IsNaN(f) || math.IsInf(f, 0) {
		return 0, 0
	}
	f = math.Trunc(f)
	var u uint64
	if bits == 64 {
		// pools stay far inside the int64 range
		if f < -9.2e18 || f > 9.2e18 {
			skip("64-bit wrap outside pool range")
		}
		u = uint64(int64(f))
	} else {
		mod := math.Ldexp(1, int(bits))
		r := math.Mod(f, mod)
		if r < 0 {
			r += mod
		}
		u = uint64(r)
	}
	if !signed {
		return 0, u
	}
	switch bits {
	case 8:
		return int64(int8(u)), 0
	case 16:
		return int64(int16(u)), 0
	case 32:
		return int64(int32(u)), 0
	}
	return int64(u), 0
}

func toJSString(v mval) string {
	switch v.k {
	case mStr:
		return v.s
	case mNum:
		if v.n == 0 {
			return "0"
		}
		return jsNum(v.n)
	case mBool:
		if v.b {
			return "true"
		}
		return "false"
	case mNull:
		return "null"
	case mUndef:
		return "undefined"
	}
	skip("ToString of an object")
	return ""
}

func (m *model) exportVal(v mval) reflect.Value {
	switch v.k {
	case mUndef, mNull:
		return reflect.Value{}
	case mBool:
		return reflect.ValueOf(v.b)
	case mNum:
		if v.isInt {
			return reflect.ValueOf(int64(v.n))
		}
		return reflect.ValueOf(v.n)
	case mStr:
		return reflect.ValueOf(v.s)
	case mLit:
		if v.lit.arr {
			s := make([]interface{}, len(v.lit.vals))
			for i, e := range v.lit.vals {
				if ev := m.exportVal(e); ev.IsValid() {
					s[i] = ev.Interface()
				}
			}
			return reflect.ValueOf(s)
		}
		mp := make(map[string]interface{}, len(v.lit.keys))
		for i, k := range v.lit.keys {
			if ev := m.exportVal(v.lit.vals[i]); ev.IsValid() {
				mp[k] = ev.Interface()
			} else {
				mp[k] = nil
			}
		}
		return reflect.ValueOf(mp)
	case mRef:
		if v.ref.expPtr && !v.ref.exp.IsValid() {
			skip("Export of an element reference")
		}
		e := v.ref.export()
		return reflect.ValueOf(e.Interface())
	}
	skip("export of a function")
	return reflect.Value{}
}

var errConv = fmt.Errorf("conversion error")

// conv stores script value v into dst (addressable, currently holding the old value).
func (m *model) conv(v mval, dst reflect.Value) error {
	t := dst.Type()
	if v.k == mUndef || v.k == mNull {
		dst.Set(reflect.Zero(t))
		return nil
	}
	if v.k == mFn {
		skip("function value")
	}
	if t == typIface {
		ev := m.exportVal(v)
		if !ev.IsValid() {
			dst.Set(reflect.Zero(t))
		} else {
			dst.Set(ev)
		}
		return nil
	}
	if t.Kind() == reflect.Interface {
		skip("non-empty interface destination")
	}
	// a wrapper whose exported value has (or points to) the destination type is assigned / copied
	if v.k == mRef {
		e := v.ref.export()
		if e.Type() == t {
			if v.ref.expPtr && !v.ref.exp.IsValid() && t.Kind() == reflect.Ptr {
				skip("Export of an element reference")
			}
			dst.Set(e)
			return nil
		}
		if v.ref.loc.Type() == t {
			dst.Set(v.ref.loc)
			return nil
		}
		x := e
		for x.Kind() == reflect.Ptr && !x.IsNil() {
			x = x.Elem()
			if x.Type() == t {
				dst.Set(x)
				return nil
			}
		}
	}
	isObj := v.k == mRef || v.k == mLit
	switch t.Kind() {
	case reflect.String:
		if !isExactPrim(t) || isObj {
			skip("string destination")
		}
		dst.SetString(toJSString(v))
		return nil
	case reflect.Bool:
		if !isExactPrim(t) {
			skip("named bool")
		}
		switch v.k {
		case mBool:
			dst.SetBool(v.b)
		case mNum:
			dst.SetBool(!(v.n == 0 || math.IsNaN(v.n)))
		case mStr:
			dst.SetBool(v.s != "")
		default:
			dst.SetBool(true)
		}
		return nil
	case reflect.Int8, reflect.Int16, reflect.Int32, reflect.Int64, reflect.Int:
		if isObj {
			skip("object to number")
		}
		i, _ := wrapInt(toNumber(v), uint(t.Bits()), true)
		dst.SetInt(i)
		return nil
	case reflect.Uint8, reflect.Uint16, reflect.Uint32, reflect.Uint64, reflect.Uint:
		if isObj {
			skip("object to number")
		}
		_, u := wrapInt(toNumber(v), uint(t.Bits()), false)
		dst.SetUint(u)
		return nil
	case reflect.Float32:
		if isObj {
			skip("object to number")
		}
		dst.SetFloat(float64(float32(toNumber(v))))
		return nil
	case reflect.Float64:
		if isObj {
			skip("object to number")
		}
		dst.SetFloat(toNumber(v))
		return nil
	case reflect.Ptr:
		if !dst.IsNil() {
			skip("conversion through an existing non-nil pointer")
		}
		n := reflect.New(t.Elem())
		if err := m.conv(v, n.Elem()); err != nil {
			return err
		}
		dst.Set(n)
		return nil
	case reflect.Struct:
		if !isObj {
			return errConv
		}
		if v.k != mLit || v.lit.arr {
			skip("struct from a non-literal object")
		}
		tmp := newVar(dst)
		for _, f := range structFields(t, m.mapper) {
			if len(f.index) != 1 || t.Field(f.index[0]).Anonymous {
				skip("embedded field in conversion")
			}
			found := false
			for i, k := range v.lit.keys {
				if k == f.name {
					found = true
					if err := m.conv(v.lit.vals[i], tmp.Field(f.index[0])); err != nil {
						skip("nested conversion error")
					}
				}
			}
			if !found {
				skip("object literal without field " + f.name)
			}
		}
		dst.Set(tmp)
		return nil
	case reflect.Slice, reflect.Array:
		if !isObj {
			return errConv
		}
		if v.k != mLit {
			skip("slice from a wrapper of another type")
		}
		if !v.lit.arr {
			return errConv // neither iterable nor array-like
		}
		n := len(v.lit.vals)
		var tmp reflect.Value
		if t.Kind() == reflect.Array {
			if n != t.Len() {
				return errConv
			}
			tmp = reflect.New(t).Elem()
		} else {
			tmp = reflect.MakeSlice(t, n, n)
		}
		for i, e := range v.lit.vals {
			if err := m.conv(e, tmp.Index(i)); err != nil {
				skip("nested conversion error")
			}
		}
		dst.Set(tmp)
		return nil
	case reflect.Map:
		if !isObj {
			return errConv
		}
		if v.k != mLit || v.lit.arr || t.Key().Kind() != reflect.String {
			skip("map from a non-literal object")
		}
		tmp := reflect.MakeMap(t)
		for i, k := range v.lit.keys {
			ev := reflect.New(t.Elem()).Elem()
			if err := m.conv(v.lit.vals[i], ev); err != nil {
				skip("nested conversion error")
			}
			tmp.SetMapIndex(reflect.ValueOf(k).Convert(t.Key()), ev)
		}
		dst.Set(tmp)
		return nil
	}
	skip("destination kind " + t.Kind().String())
	return nil
}

// assign performs `parent[key] = v` on the element location dst of a reflect container.
func (m *model) assign(parent *mref, key string, dst reflect.Value, v mval) {
	m.touched = true
	tmp := newVar(dst)
	if err := m.conv(v, tmp); err != nil {
		if m.df.ptrAllocOnFail && dst.Kind() == reflect.Ptr && dst.IsNil() {
			dst.Set(reflect.New(dst.Type().Elem()))
		}
		if m.df.cacheNotValidated {
			// the implementation detaches the cached wrapper first and re-attaches it to the element on
			// failure - also a stale one, which thereby jumps to the current element
			if c := parent.reg[key]; c != nil && c.loc.Type() == dst.Type() && !sameLoc(c.loc, dst) {
				m.moveBlock(c, dst)
			}
		}
		throwJS()
	}
	m.unregister(parent, key, dst)
	dst.Set(tmp)
}

// ---------------------------------------------------------------------------------------------------
// growth and shrinking of slices

func (m *model) grow(r *mref, size int) {
	m.touched = true
	l := r.loc
	if size > 1<<20 {
		skip("huge slice")
	}
	if l.Cap() < size {
		c := m.capHint
		if c < size {
			c = size
		}
		n := reflect.MakeSlice(l.Type(), size, c)
		reflect.Copy(n, l)
		live := map[string]bool{}
		for k, c := range r.reg {
			if i, ok := parseIdx(k); ok && i < l.Len() && c.loc.Type() == l.Type().Elem() && m.isLive(c, l.Index(i)) {
				live[k] = true
			} else if ok && m.df.cacheNotValidated && i < size && c.loc.Type() == l.Type().Elem() {
				live[k] = true
			}
		}
		l.Set(n)
		for k, c := range r.reg {
			if live[k] {
				i, _ := parseIdx(k)
				m.moveBlock(c, l.Index(i))
			} else if !m.df.cacheNotValidated {
				delete(r.reg, k)
			}
		}
		return
	}
	old := l.Len()
	l.SetLen(size)
	zero := reflect.Zero(l.Type().Elem())
	for i := old; i < size; i++ {
		l.Index(i).Set(zero)
	}
}

func (m *model) shrink(r *mref, size int) {
	m.touched = true
	l := r.loc
	old := l.Len()
	zero := reflect.Zero(l.Type().Elem())
	for i := size; i < old; i++ {
		m.unregister(r, strconv.Itoa(i), l.Index(i))
		l.Index(i).Set(zero)
	}
	if m.df.cacheNotValidated {
		// the index-based cache may be longer than the slice (after a Go-side reslice): everything at
		// index >= size is detached, whatever it refers to
		for k, c := range r.reg {
			if i, ok := parseIdx(k); ok && i >= size {
				m.detach(c)
				delete(r.reg, k)
			}
		}
	}
	l.SetLen(size)
}

func (m *model) setLength(r *mref, n int) {
	switch r.class() {
	case wSlice, wIfSlice:
		cur := r.loc.Len()
		if n > cur {
			m.grow(r, n)
		} else if n < cur {
			m.shrink(r, n)
		}
		return
	case wArray:
		throwJS()
	}
	skip("length of a non-array")
}

// ---------------------------------------------------------------------------------------------------
// [[Set]], [[Delete]], [[DefineOwnProperty]] with a value

func (m *model) set(r *mref, key string, v mval) {
	switch r.class() {
	case wStruct:
		fv, ok := m.field(r, key)
		if !ok {
			throwJS()
		}
		m.assign(r, key, fv, v)
	case wArray:
		i, ok := parseIdx(key)
		if !ok || i >= r.loc.Len() {
			throwJS() // a fixed-size array cannot represent the element
		}
		m.assign(r, key, r.loc.Index(i), v)
	case wSlice:
		if key == "length" {
			m.setLength(r, m.toLen(v))
			return
		}
		i, ok := parseIdx(key)
		if !ok {
			throwJS()
		}
		if i >= r.loc.Len() {
			m.grow(r, i+1)
		}
		m.assign(r, key, r.loc.Index(i), v)
	case wIfSlice:
		if key == "length" {
			m.setLength(r, m.toLen(v))
			return
		}
		i, ok := parseIdx(key)
		if !ok {
			throwJS()
		}
		if v.k == mRef && v.ref.expPtr && !v.ref.exp.IsValid() {
			skip("Export of an element reference")
		}
		if i >= r.loc.Len() {
			m.grow(r, i+1)
		}
		ev := m.exportVal(v) // the value is exported after the slice was grown
		if ev.IsValid() {
			r.loc.Index(i).Set(ev)
		} else {
			r.loc.Index(i).Set(reflect.Zero(typIface))
		}
	case wMap:
		kv, _ := m.mapKey(r, key)
		ev := reflect.New(r.loc.Type().Elem()).Elem()
		if err := m.conv(v, ev); err != nil {
			throwJS()
		}
		if r.loc.IsNil() {
			throwJS() // cannot be represented; must not be a host panic
		}
		r.loc.SetMapIndex(kv, ev)
	case wIfMap:
		ev := m.exportVal(v)
		if r.loc.IsNil() {
			throwJS()
		}
		if ev.IsValid() {
			r.loc.SetMapIndex(reflect.ValueOf(key), ev)
		} else {
			r.loc.SetMapIndex(reflect.ValueOf(key), reflect.Zero(typIface))
		}
	default:
		skip("set on " + r.loc.Type().String())
	}
}

func (m *model) toLen(v mval) int {
	if v.k != mNum || v.n < 0 || v.n != math.Trunc(v.n) || v.n > 1<<20 {
		skip("length value")
	}
	return int(v.n)
}

// del returns normally (true) or throws.
func (m *model) del(r *mref, key string) {
	switch r.class() {
	case wStruct:
		if m.has(r, key) {
			throwJS()
		}
	case wArray, wSlice:
		if i, ok := parseIdx(key); ok {
			if i < r.loc.Len() {
				e := r.loc.Index(i)
				m.unregister(r, key, e)
				e.Set(reflect.Zero(e.Type()))
			}
			return
		}
		skip("delete " + key)
	case wIfSlice:
		if i, ok := parseIdx(key); ok {
			if i < r.loc.Len() {
				r.loc.Index(i).Set(reflect.Zero(typIface))
			}
			return
		}
		skip("delete " + key)
	case wMap, wIfMap:
		kv, _ := m.mapKey(r, key)
		if !r.loc.IsNil() {
			r.loc.SetMapIndex(kv, reflect.Value{})
		}
	default:
		skip("delete on " + r.loc.Type().String())
	}
}

func (m *model) define(r *mref, key string, v mval) {
	switch r.class() {
	case wSlice, wIfSlice:
		if key == "length" {
			skip("define length")
		}
	}
	m.set(r, key, v)
}

// ---------------------------------------------------------------------------------------------------
// Array.prototype methods, following ECMA-262 step by step on the wrapper's Get/Set/Delete/length

func (m *model) isArrayLike(r *mref) bool {
	switch r.class() {
	case wArray, wSlice, wIfSlice:
		return true
	}
	return false
}

func (m *model) idxHas(r *mref, i int) bool { return i >= 0 && i < r.loc.Len() }

func (m *model) push(r *mref, args ...mval) mval {
	l := m.length(r)
	for i, a := range args {
		m.set(r, strconv.Itoa(l+i), a)
	}
	m.setLengthProp(r, l+len(args))
	return vInt(int64(l + len(args)))
}

// setLengthProp is Set(O, "length", n, true).
func (m *model) setLengthProp(r *mref, n int) {
	if r.class() == wArray {
		throwJS()
	}
	m.setLength(r, n)
}

func (m *model) pop(r *mref) mval {
	l := m.length(r)
	if l == 0 {
		m.setLengthProp(r, 0)
		return vUndef
	}
	k := strconv.Itoa(l - 1)
	v := m.get(r, k)
	m.del(r, k)
	m.setLengthProp(r, l-1)
	return v
}

func (m *model) shift(r *mref) mval {
	l := m.length(r)
	if l == 0 {
		m.setLengthProp(r, 0)
		return vUndef
	}
	first := m.get(r, "0")
	for k := 1; k < l; k++ {
		from, to := strconv.Itoa(k), strconv.Itoa(k-1)
		if m.idxHas(r, k) {
			m.set(r, to, m.get(r, from))
		} else {
			m.del(r, to)
		}
	}
	m.del(r, strconv.Itoa(l-1))
	m.setLengthProp(r, l-1)
	return first
}

func (m *model) unshift(r *mref, args ...mval) mval {
	l := m.length(r)
	n := len(args)
	if n > 0 {
		for k := l - 1; k >= 0; k-- {
			from, to := strconv.Itoa(k), strconv.Itoa(k+n)
			if m.idxHas(r, k) {
				m.set(r, to, m.get(r, from))
			} else {
				m.del(r, to)
			}
		}
		for j, a := range args {
			m.set(r, strconv.Itoa(j), a)
		}
	}
	m.setLengthProp(r, l+n)
	return vInt(int64(l + n))
}

func relIdx(rel, l int) int {
	if rel < 0 {
		if rel+l < 0 {
			return 0
		}
		return rel + l
	}
	if rel > l {
		return l
	}
	return rel
}

func (m *model) splice(r *mref, start, delCount int, items ...mval) mval {
	l := m.length(r)
	s := relIdx(start, l)
	dc := delCount
	if dc < 0 {
		dc = 0
	}
	if dc > l-s {
		dc = l - s
	}
	ic := len(items)
	res := &mlit{arr: true}
	for k := 0; k < dc; k++ {
		if m.idxHas(r, s+k) {
			res.vals = append(res.vals, m.get(r, strconv.Itoa(s+k)))
		}
	}
	if ic < dc {
		for k := s; k < l-dc; k++ {
			from, to := strconv.Itoa(k+dc), strconv.Itoa(k+ic)
			if m.idxHas(r, k+dc) {
				m.set(r, to, m.get(r, from))
			} else {
				m.del(r, to)
			}
		}
		for k := l; k > l-dc+ic; k-- {
			m.del(r, strconv.Itoa(k-1))
		}
	} else if ic > dc {
		for k := l - dc; k > s; k-- {
			from, to := strconv.Itoa(k+dc-1), strconv.Itoa(k+ic-1)
			if m.idxHas(r, k+dc-1) {
				m.set(r, to, m.get(r, from))
			} else {
				m.del(r, to)
			}
		}
	}
	for i, it := range items {
		m.set(r, strconv.Itoa(s+i), it)
	}
	m.setLengthProp(r, l-dc+ic)
	return mval{k: mLit, lit: res}
}

func (m *model) reverse(r *mref) {
	l := m.length(r)
	for lower := 0; lower != l/2; lower++ {
		upper := l - lower - 1
		lp, up := strconv.Itoa(lower), strconv.Itoa(upper)
		lv := m.get(r, lp)
		uv := m.get(r, up)
		m.set(r, lp, uv)
		m.set(r, up, lv)
	}
}

// sortKey is the numeric projection the script comparator of op "sort" uses (see jsPrelude, function K).
func (m *model) sortKey(v mval) float64 {
	num := func(e mval) float64 {
		if e.k != mNum || math.IsNaN(e.n) || math.IsInf(e.n, 0) {
			return 0
		}
		i, _ := wrapInt(e.n, 32, true)
		return float64(i)
	}
	switch v.k {
	case mNum:
		return v.n
	case mRef:
		if m.isArrayLike(v.ref) {
			return num(m.get(v.ref, "0"))
		}
		switch v.ref.class() {
		case wStruct, wIfMap:
			return num(m.get(v.ref, "A"))
		case wMap:
			if v.ref.loc.Type().Key().Kind() == reflect.String {
				return num(m.get(v.ref, "A"))
			}
			skip("sort key of a numeric-keyed map")
		}
		skip("sort key of an opaque value")
	}
	return 0
}

// sortInPlace is Array.prototype.sort with a consistent comparator on a Go-backed array: a stable
// in-place permutation; registered element references move with their values.
func (m *model) sortInPlace(r *mref) {
	n := m.length(r)
	keys := make([]float64, n)
	for i := 0; i < n; i++ {
		keys[i] = m.sortKey(m.get(r, strconv.Itoa(i)))
	}
	perm := make([]int, n) // perm[newIndex] = oldIndex
	for i := range perm {
		perm[i] = i
	}
	sort.SliceStable(perm, func(a, b int) bool { return keys[perm[a]] < keys[perm[b]] })
	l := r.loc
	old := reflect.MakeSlice(reflect.SliceOf(l.Type().Elem()), n, n)
	for i := 0; i < n; i++ {
		old.Index(i).Set(l.Index(i))
	}
	oldReg := r.reg
	liveBefore := map[int]bool{}
	for k, c := range oldReg {
		if i, ok := parseIdx(k); ok && i < n && sameLoc(c.loc, l.Index(i)) {
			liveBefore[i] = true
		}
	}
	r.reg = map[string]*mref{}
	for k, c := range oldReg {
		if i, ok := parseIdx(k); !ok || i >= n {
			r.reg[k] = c // not an element that takes part in the sort
		}
	}
	for ni, oi := range perm {
		l.Index(ni).Set(old.Index(oi))
	}
	for ni, oi := range perm {
		if c := oldReg[strconv.Itoa(oi)]; c != nil {
			if r.class() != wIfSlice && (m.df.cacheNotValidated || liveBefore[oi]) {
				m.moveBlock(c, l.Index(ni))
				r.reg[strconv.Itoa(ni)] = c
			}
		}
	}
}

// ---------------------------------------------------------------------------------------------------
// dumps of model values (what D / F of the prelude must print)

func (m *model) dumpVal(v mval, d int) string {
	switch v.k {
	case mUndef:
		return "u"
	case mNull:
		return "null"
	case mBool:
		if v.b {
			return "T"
		}
		return "F"
	case mNum:
		return jsNum(v.n)
	case mStr:
		return jsStr(v.s)
	case mFn:
		return "fn"
	case mRef:
		return m.dumpRef(v.ref, d)
	case mLit:
		if d > viewDepth {
			return "…"
		}
		var b strings.Builder
		if v.lit.arr {
			b.WriteByte('[')
			for i, e := range v.lit.vals {
				if i > 0 {
					b.WriteByte(',')
				}
				b.WriteString(m.dumpVal(e, d+1))
			}
			b.WriteByte(']')
			return b.String()
		}
		idx := make([]int, len(v.lit.keys))
		for i := range idx {
			idx[i] = i
		}
		sort.Slice(idx, func(a, b int) bool { return v.lit.keys[idx[a]] < v.lit.keys[idx[b]] })
		b.WriteByte('{')
		for i, j := range idx {
			if i > 0 {
				b.WriteByte(',')
			}
			b.WriteString(v.lit.keys[j] + ":" + m.dumpVal(v.lit.vals[j], d+1))
		}
		b.WriteByte('}')
		return b.String()
	}
	return "?"
}

// jsonView is D(JSON.parse(JSON.stringify(x))) for the wrapper of v: functions and undefined vanish from
// objects, non-finite numbers become null, -0 becomes 0.
// dumpRef is D(wrapper): like the script function it reads every element through the wrapper ([[Get]]), so
// nested element wrappers get registered exactly as the implementation caches them.
func (m *model) dumpRef(r *mref, d int) string {
	if d > viewDepth {
		return "…"
	}
	var b strings.Builder
	if m.isArrayLike(r) {
		b.WriteByte('[')
		for i := 0; i < r.loc.Len(); i++ {
			if i > 0 {
				b.WriteByte(',')
			}
			b.WriteString(m.dumpVal(m.get(r, strconv.Itoa(i)), d+1))
		}
		b.WriteByte(']')
		return b.String()
	}
	if r.class() == wOther {
		return viewer{m.mapper}.view(r.loc, d)
	}
	b.WriteByte('{')
	for i, k := range m.keys(r) {
		if i > 0 {
			b.WriteByte(',')
		}
		b.WriteString(k + ":" + m.dumpVal(m.get(r, k), d+1))
	}
	b.WriteByte('}')
	return b.String()
}

// jsonVal is D(JSON.parse(JSON.stringify(x))): functions and undefined vanish from objects (null in arrays),
// non-finite numbers become null, -0 becomes 0.
func (m *model) jsonVal(v mval, d int) (string, bool) {
	switch v.k {
	case mUndef, mFn:
		return "", false
	case mNum:
		if math.IsNaN(v.n) || math.IsInf(v.n, 0) {
			return "null", true
		}
		if v.n == 0 {
			return "0", true
		}
		return jsNum(v.n), true
	case mRef:
		r := v.ref
		if d > viewDepth {
			return "…", true
		}
		var b strings.Builder
		if m.isArrayLike(r) {
			b.WriteByte('[')
			for i := 0; i < r.loc.Len(); i++ {
				if i > 0 {
					b.WriteByte(',')
				}
				e, ok := m.jsonVal(m.get(r, strconv.Itoa(i)), d+1)
				if !ok {
					e = "null"
				}
				b.WriteString(e)
			}
			b.WriteByte(']')
			return b.String(), true
		}
		if r.class() == wOther {
			skip("JSON of an opaque host object")
		}
		b.WriteByte('{')
		n := 0
		for _, k := range m.keys(r) {
			e, ok := m.jsonVal(m.get(r, k), d+1)
			if !ok {
				continue
			}
			if n > 0 {
				b.WriteByte(',')
			}
			n++
			b.WriteString(k + ":" + e)
		}
		b.WriteByte('}')
		return b.String(), true
	}
	return m.dumpVal(v, d), true
}

// full is F(x) of the prelude for a model value.
func (m *model) full(v mval, probes []string, noJSON bool) string {
	if v.k != mRef {
		return m.dumpVal(v, 0)
	}
	r := v.ref
	var b strings.Builder
	view := m.dumpRef(r, 0)
	b.WriteString(view)
	ks := strings.Join(m.keys(r), ",")
	b.WriteString("|k=" + ks + "|f=" + ks)
	if noJSON {
		b.WriteString("|j=cyc")
	} else {
		j, _ := m.jsonVal(v, 0)
		b.WriteString("|j=" + j)
	}
	b.WriteString("|s=" + view)
	b.WriteString("|p=")
	for _, p := range probes {
		_, isIdx := parseIdx(p)
		h := "0"
		func() {
			defer func() {
				if x := recover(); x != nil {
					if _, ok := x.(mskip); !ok {
						panic(x)
					}
					h = "0"
				}
			}()
			if m.has(r, p) {
				h = "1"
			}
		}()
		b.WriteString(h + h)
		if isIdx {
			b.WriteString(h + h) // integer-like probes are asked as a number and as a string
		}
	}
	if m.isArrayLike(r) {
		b.WriteString("|l=" + strconv.Itoa(r.loc.Len()))
	}
	return b.String()
}

// stateKey is the canonical key of the model state used for BFS de-duplication: Go-side dump of the host
// value, the registry shape (which element references are live), and for every handle what it denotes.
func (m *model) stateKey(host reflect.Value) string {
	var b strings.Builder
	b.WriteString(goDump(host))
	b.WriteString("#R")
	if m.root != nil {
		m.regKey(&b, m.root, host)
	}
	for i := range m.h {
		b.WriteString("#H")
		v := m.h[i]
		if v.k != mRef {
			b.WriteString(m.dumpVal(v, 0))
			continue
		}
		if p := m.pathOf(v.ref); p != "" {
			b.WriteString("@" + p)
		} else {
			b.WriteString("det:" + v.ref.loc.Type().String() + ":" + goDump(v.ref.loc))
			if v.ref.exp.IsValid() {
				b.WriteString(":e" + goDump(v.ref.exp))
			}
			// aliasing of a private location with the host value matters for later writes
			b.WriteString(":a" + m.aliasSig(v.ref, host))
		}
		b.WriteString("[")
		m.regKey(&b, v.ref, host)
		b.WriteString("]")
	}
	return b.String()
}

func (m *model) regKey(b *strings.Builder, r *mref, host reflect.Value) {
	ks := make([]string, 0, len(r.reg))
	for k := range r.reg {
		ks = append(ks, k)
	}
	sort.Strings(ks)
	for _, k := range ks {
		c := r.reg[k]
		live := "x"
		func() {
			defer func() { recover() }()
			var cur reflect.Value
			switch r.class() {
			case wStruct:
				cur, _ = m.field(r, k)
			default:
				if i, ok := parseIdx(k); ok && i < r.loc.Len() {
					cur = r.loc.Index(i)
				}
			}
			if cur.IsValid() && sameLoc(cur, c.loc) {
				live = "+"
			}
		}()
		b.WriteString(k + live + "(")
		m.regKey(b, c, host)
		b.WriteString(")")
	}
}

// pathOf finds r in the registry tree below the root ("" if it is not a live registered reference).
func (m *model) pathOf(r *mref) string {
	if m.root == nil {
		return ""
	}
	if r == m.root {
		return "root"
	}
	var find func(p *mref, path string) string
	find = func(p *mref, path string) string {
		for k, c := range p.reg {
			if c == r {
				return path + "/" + k
			}
			if s := find(c, path+"/"+k); s != "" {
				return s
			}
		}
		return ""
	}
	return find(m.root, "root")
}

// aliasSig tells where inside the host value (or the root wrapper's private copy) the location of r lies,
// by address: "" if it is private memory.
func (m *model) aliasSig(r *mref, host reflect.Value) string {
	if !r.loc.CanAddr() {
		return ""
	}
	var target uintptr
	switch r.loc.Kind() {
	case reflect.Map:
		if r.loc.IsNil() {
			return ""
		}
		target = r.loc.Pointer()
	case reflect.Slice:
		if r.loc.Len() == 0 {
			return "hdr"
		}
		target = r.loc.Index(0).Addr().Pointer()
	default:
		target = r.loc.Addr().Pointer()
	}
	found := ""
	seen := map[uintptr]bool{}
	var walk func(v reflect.Value, path string, depth int)
	walk = func(v reflect.Value, path string, depth int) {
		if found != "" || depth > 8 || !v.IsValid() {
			return
		}
		if v.CanAddr() && v.Kind() != reflect.Map && v.Kind() != reflect.Slice && v.Addr().Pointer() == target && v.Type().Size() > 0 {
			found = path
			return
		}
		switch v.Kind() {
		case reflect.Ptr, reflect.Interface:
			if !v.IsNil() {
				if v.Kind() == reflect.Ptr {
					if seen[v.Pointer()] {
						return
					}
					seen[v.Pointer()] = true
				}
				walk(v.Elem(), path+"*", depth+1)
			}
		case reflect.Map:
			if !v.IsNil() && v.Pointer() == target {
				found = path
			}
		case reflect.Slice, reflect.Array:
			for i := 0; i < v.Len(); i++ {
				walk(v.Index(i), path+"/"+strconv.Itoa(i), depth+1)
			}
		case reflect.Struct:
			for i := 0; i < v.NumField(); i++ {
				walk(v.Field(i), path+"."+v.Type().Field(i).Name, depth+1)
			}
		}
	}
	walk(host, "h", 0)
	if found == "" && m.root != nil {
		walk(m.root.loc, "w", 0)
	}
	return found
}
