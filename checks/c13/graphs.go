package c13

import (
	"fmt"
	"reflect"
	"sync"

	"verif/core"

	"github.com/dop251/goja"
)

// Part 1c: exporting a script-built object graph preserves sharing and cycles within one export.
//
// All graphs with n <= N nodes are enumerated: every node is an object or an array, has two slots
// (properties A,B / elements 0,1) and every slot is empty or refers to any node (itself included), so
// every sharing pattern and every cycle shape over n nodes occurs. Node 0 is exported through each
// route; the result must be ISOMORPHIC to the script graph: script node i <-> one Go container
// (map / slice / struct pointer), the same node always the same container, different nodes different
// containers.

const graphBuilder = `
function B(kinds, slots, names) {
  var n = kinds.length, nodes = [], i, j;
  for (i = 0; i < n; i++) nodes.push(kinds[i] ? [null, null] : {});
  for (i = 0; i < n; i++) for (j = 0; j < 2; j++) {
    var t = slots[2*i+j];
    if (t < 0) continue;
    if (kinds[i]) nodes[i][j] = nodes[t]; else nodes[i][names[j]] = nodes[t];
  }
  return nodes[0];
}
`

type GN struct {
	A *GN
	B *GN
}

type GI struct {
	A interface{}
	B interface{}
}

// GM mixes both export routes: A is exported generically (map / slice), B as a typed pointer.
type GM struct {
	A interface{}
	B *GM
}

type GraphCase struct {
	Part   string `json:"part"`
	Kinds  []int  `json:"kinds"` // 0 object, 1 array
	Slots  []int  `json:"slots"` // 2 per node: -1 empty, else node index
	Route  string `json:"route"`
	Mapper int    `json:"mapper"`
}

type graphRT struct {
	rt [3]*goja.Runtime
	b  [3]goja.Callable
}

func (g *graphRT) get(mapper int) (*goja.Runtime, goja.Callable) {
	if g.rt[mapper] == nil {
		rt := newRuntime(mapper)
		if _, err := rt.RunString(graphBuilder); err != nil {
			panic(err)
		}
		g.rt[mapper] = rt
		g.b[mapper], _ = goja.AssertFunction(rt.Get("B"))
	}
	return g.rt[mapper], g.b[mapper]
}

var graphRoutes = []string{"ExportTo-*struct-mixed", "Export", "ExportTo-generic", "ExportTo-interface", "ExportTo-*struct", "ExportTo-struct-of-interface", "ExportTo-map-of-*struct", "ExportTo-slice-of-*struct"}

type isoCtx struct {
	gc     *GraphCase
	names  [2]string
	j2g    map[int]uintptr
	g2j    map[uintptr]int
	errStr string
	// rootAlias: node 0 is exported a second time under another Go type when it is reached from inside
	// (the root itself went into a struct value / a typed map); that second export has its own identity.
	rootAlias bool
}

func (c *isoCtx) key(j int) int {
	if j == 0 && c.rootAlias {
		return len(c.gc.Kinds)
	}
	return j
}

// keyOf: in the mixed route a node has one identity per export class (generic / typed pointer).
func (c *isoCtx) keyOf(j int, v reflect.Value) int {
	if c.gc.Route == "ExportTo-*struct-mixed" && v.Kind() == reflect.Ptr {
		return j + len(c.gc.Kinds)
	}
	return c.key(j)
}

func (c *isoCtx) fail(f string, a ...interface{}) bool {
	if c.errStr == "" {
		c.errStr = fmt.Sprintf(f, a...)
	}
	return false
}

// match checks that Go value v represents script node j.
func (c *isoCtx) match(j int, v reflect.Value) bool {
	if j < 0 {
		// empty slot: nil
		for v.IsValid() && v.Kind() == reflect.Interface {
			v = v.Elem()
		}
		if !v.IsValid() {
			return true
		}
		switch v.Kind() {
		case reflect.Ptr, reflect.Map, reflect.Slice:
			if v.IsNil() {
				return true
			}
		}
		return c.fail("empty slot exported as %s", v.Type())
	}
	for v.IsValid() && v.Kind() == reflect.Interface {
		v = v.Elem()
	}
	if !v.IsValid() {
		return c.fail("node %d exported as nil", j)
	}
	var id uintptr
	switch v.Kind() {
	case reflect.Map, reflect.Ptr:
		if v.IsNil() {
			return c.fail("node %d exported as nil %s", j, v.Type())
		}
		id = v.Pointer()
	case reflect.Slice:
		if v.Len() != 2 {
			return c.fail("array node %d exported with length %d", j, v.Len())
		}
		id = v.Pointer()
	default:
		return c.fail("node %d exported as %s", j, v.Type())
	}
	if g, ok := c.j2g[c.keyOf(j, v)]; ok {
		if g != id {
			return c.fail("node %d was exported twice into different Go values (sharing lost)", j)
		}
		return true
	}
	if j2, ok := c.g2j[id]; ok {
		return c.fail("nodes %d and %d were exported into the same Go value (confused)", j2, j)
	}
	c.j2g[c.keyOf(j, v)] = id
	c.g2j[id] = c.keyOf(j, v)
	isArr := c.gc.Kinds[j] == 1
	for s := 0; s < 2; s++ {
		t := c.gc.Slots[2*j+s]
		var child reflect.Value
		switch v.Kind() {
		case reflect.Slice:
			if !isArr {
				return c.fail("object node %d exported as a slice", j)
			}
			child = v.Index(s)
		case reflect.Map:
			if isArr {
				return c.fail("array node %d exported as a map", j)
			}
			child = v.MapIndex(reflect.ValueOf(c.names[s]))
			if t < 0 {
				if child.IsValid() {
					return c.fail("node %d has an unexpected key %s", j, c.names[s])
				}
				continue
			}
			if !child.IsValid() {
				return c.fail("node %d lost key %s", j, c.names[s])
			}
		case reflect.Ptr:
			if isArr {
				return c.fail("array node %d exported as a pointer", j)
			}
			child = v.Elem().Field(s)
		}
		if !c.match(t, child) {
			return false
		}
	}
	if v.Kind() == reflect.Map && v.Len() != c.count(j) {
		return c.fail("node %d has %d keys", j, v.Len())
	}
	return true
}

func (c *isoCtx) count(j int) int {
	n := 0
	for s := 0; s < 2; s++ {
		if c.gc.Slots[2*j+s] >= 0 {
			n++
		}
	}
	return n
}

func allObjectsReachable(gc *GraphCase) bool {
	seen := map[int]bool{}
	var walk func(j int) bool
	walk = func(j int) bool {
		if j < 0 || seen[j] {
			return true
		}
		seen[j] = true
		if gc.Kinds[j] != 0 {
			return false
		}
		return walk(gc.Slots[2*j]) && walk(gc.Slots[2*j+1])
	}
	return walk(0)
}

// checkGraph exports the graph through one route; "" if the route does not apply.
func checkGraph(g *graphRT, gc *GraphCase) (sig, what string, applicable bool) {
	rt, b := g.get(gc.Mapper)
	names := [2]string{"A", "B"}
	if gc.Mapper != mapNil {
		names = [2]string{"a", "b"}
	}
	toI := func(xs []int) []interface{} {
		r := make([]interface{}, len(xs))
		for i, x := range xs {
			r[i] = x
		}
		return r
	}
	rootArr := gc.Kinds[0] == 1
	var target reflect.Value
	switch gc.Route {
	case "Export", "ExportTo-interface":
	case "ExportTo-generic":
		if rootArr {
			target = reflect.New(typIfSlice)
		} else {
			target = reflect.New(typIfMap)
		}
	case "ExportTo-*struct":
		if !allObjectsReachable(gc) {
			return "", "", false
		}
		target = reflect.New(reflect.TypeOf((*GN)(nil)))
	case "ExportTo-struct-of-interface":
		if rootArr {
			return "", "", false
		}
		target = reflect.New(reflect.TypeOf(GI{}))
	case "ExportTo-*struct-mixed":
		// every node reached through a B-chain from the root is exported as *GM and must be an object
		for j, seen := 0, map[int]bool{}; j >= 0 && !seen[j]; j = gc.Slots[2*j+1] {
			seen[j] = true
			if gc.Kinds[j] != 0 {
				return "", "", false
			}
		}
		if !mixedTypedOK(gc) {
			return "", "", false
		}
		target = reflect.New(reflect.TypeOf((*GM)(nil)))
	case "ExportTo-map-of-*struct":
		if rootArr {
			return "", "", false
		}
		for s := 0; s < 2; s++ {
			if t := gc.Slots[s]; t >= 0 {
				sub := &GraphCase{Kinds: gc.Kinds, Slots: gc.Slots}
				if !reachAllObjects(sub, t) {
					return "", "", false
				}
			}
		}
		target = reflect.New(reflect.TypeOf(map[string]*GN(nil)))
	case "ExportTo-slice-of-*struct":
		if !rootArr {
			return "", "", false
		}
		for s := 0; s < 2; s++ {
			if t := gc.Slots[s]; t >= 0 && !reachAllObjects(gc, t) {
				return "", "", false
			}
		}
		target = reflect.New(reflect.TypeOf([]*GN(nil)))
	}
	var root goja.Value
	var err error
	var result reflect.Value
	pan := catch(func() {
		root, err = b(goja.Undefined(), rt.ToValue(toI(gc.Kinds)), rt.ToValue(toI(gc.Slots)), rt.ToValue([]interface{}{names[0], names[1]}))
		if err != nil {
			return
		}
		switch gc.Route {
		case "Export":
			result = reflect.ValueOf(root.Export())
		case "ExportTo-interface":
			var i interface{}
			err = rt.ExportTo(root, &i)
			result = reflect.ValueOf(i)
		default:
			err = rt.ExportTo(root, target.Interface())
			result = target.Elem()
		}
	})
	if pan != "" {
		g.rt[gc.Mapper] = nil
		return "host-panic|export-graph|" + gc.Route + "|" + normPanic(pan), "exporting a script-built graph panics: " + pan, true
	}
	if err != nil {
		return "export-graph|" + gc.Route + "|error", "exporting a script-built graph fails: " + err.Error(), true
	}
	c := &isoCtx{gc: gc, names: names, j2g: map[int]uintptr{}, g2j: map[uintptr]int{}}
	ok := true
	switch gc.Route {
	case "ExportTo-struct-of-interface":
		// the root is a struct value (no identity); its two fields hold the exported sub-graphs, which may
		// refer back to node 0 - exported generically as a map then
		c.rootAlias = true
		for s := 0; s < 2 && ok; s++ {
			ok = c.match(gc.Slots[s], result.Field(s))
		}
	case "ExportTo-map-of-*struct":
		c.rootAlias = true
		for s := 0; s < 2 && ok; s++ {
			t := gc.Slots[s]
			child := result.MapIndex(reflect.ValueOf(names[s]))
			if t < 0 {
				if child.IsValid() {
					ok = c.fail("unexpected key %s", names[s])
				}
				continue
			}
			if !child.IsValid() {
				ok = c.fail("lost key %s", names[s])
				continue
			}
			ok = c.match(t, child)
		}
	case "ExportTo-slice-of-*struct":
		if result.Len() != 2 {
			ok = c.fail("length %d", result.Len())
		}
		for s := 0; s < 2 && ok; s++ {
			ok = c.match(gc.Slots[s], result.Index(s))
		}
	default:
		ok = c.match(0, result)
	}
	if !ok {
		return "export-graph|" + gc.Route + "|sharing-or-shape", c.errStr, true
	}
	return "", "", true
}

// mixedTypedOK: in the mixed route only the nodes on the B-chain of the root are exported typed; everything
// below an A slot is generic. (Nothing else to check: generic export accepts every node kind.)
func mixedTypedOK(gc *GraphCase) bool { return true }

func reachAllObjects(gc *GraphCase, from int) bool {
	seen := map[int]bool{}
	var walk func(j int) bool
	walk = func(j int) bool {
		if j < 0 || seen[j] {
			return true
		}
		seen[j] = true
		if gc.Kinds[j] != 0 {
			return false
		}
		return walk(gc.Slots[2*j]) && walk(gc.Slots[2*j+1])
	}
	return walk(from)
}

// graphOfRank decodes rank -> (kinds, slots) for n nodes.
func graphOfRank(n int, rank int64) *GraphCase {
	gc := &GraphCase{Part: "graph", Kinds: make([]int, n), Slots: make([]int, 2*n)}
	for i := 0; i < n; i++ {
		gc.Kinds[i] = int(rank & 1)
		rank >>= 1
	}
	for i := 0; i < 2*n; i++ {
		gc.Slots[i] = int(rank%int64(n+1)) - 1
		rank /= int64(n + 1)
	}
	return gc
}

func graphCount(n int) int64 {
	c := int64(1) << uint(n)
	for i := 0; i < 2*n; i++ {
		c *= int64(n + 1)
	}
	return c
}

// reachableCyclic reports whether the part of the graph reachable from node 0 contains a cycle.
func reachableCyclic(gc *GraphCase) bool {
	state := make([]int, len(gc.Kinds))
	var walk func(j int) bool
	walk = func(j int) bool {
		if j < 0 {
			return false
		}
		switch state[j] {
		case 1:
			return true
		case 2:
			return false
		}
		state[j] = 1
		if walk(gc.Slots[2*j]) || walk(gc.Slots[2*j+1]) {
			return true
		}
		state[j] = 2
		return false
	}
	return walk(0)
}

func runGraphs(r *core.Run) {
	maxN := r.Pick(3, 4)
	workers := make([]*graphRT, r.Workers)
	for i := range workers {
		workers[i] = &graphRT{}
	}
	completed := 0
	var total int64
	var routeFailed sync.Map
	// pass 0: graphs without a reachable cycle (pure sharing); pass 1: graphs with cycles. A route that already
	// lost sharing on an acyclic graph is not driven into a cycle (it would recurse without bound).
	for pass := 0; pass < 2; pass++ {
		for n := 1; n <= maxN; n++ {
			cnt := graphCount(n)
			ok := r.Parallel(cnt, 256, func(worker int, lo, hi int64) {
				g := workers[worker]
				for rank := lo; rank < hi; rank++ {
					gc := graphOfRank(n, rank)
					if n == 4 && gc.Kinds[1]+gc.Kinds[2]+gc.Kinds[3] != 0 && gc.Kinds[1]+gc.Kinds[2]+gc.Kinds[3] != 3 {
						continue // n=4: all-object / all-array inner nodes only (bounded for time)
					}
					if reachableCyclic(gc) != (pass == 1) {
						continue
					}
					for _, route := range graphRoutes {
						if _, bad := routeFailed.Load(route); bad && pass == 1 {
							continue
						}
						for mapper := 0; mapper < 3; mapper++ {
							if mapper > 0 && (route == "Export" || route == "ExportTo-generic" || route == "ExportTo-interface") {
								continue
							}
							if mapper == mapTag {
								continue // GN / GI have no tags
							}
							gc.Route, gc.Mapper = route, mapper
							sig, what, app := checkGraph(g, gc)
							if !app {
								continue
							}
							r.Eval(1)
							r.Outcome("graph:" + route)
							if sig != "" {
								routeFailed.Store(route, true)
								cp := *gc
								r.Violation(sig, fmt.Sprintf("graph kinds=%v slots=%v route %s: %s", gc.Kinds, gc.Slots, route, what), cp)
							}
						}
					}
					r.NontrivialN(1)
					if r.WantSample(rank) && n == maxN {
						cp := *gc
						r.Sample(cp)
					}
				}
			})
			if !ok {
				r.Set("graph_nodes_completed", completed)
				r.Set("graphs", total)
				return
			}
			if pass == 1 {
				completed = n
				total += cnt
			}
		}
	}
	r.Set("graph_nodes_completed", completed)
	r.Set("graphs", total)
	bounds["graph_nodes"] = completed
}

func replayGraph(r *core.Run, gc *GraphCase) {
	sig, what, app := checkGraph(&graphRT{}, gc)
	if app && sig != "" {
		r.Violation(sig, what, gc)
	}
}
