package c13

import (
	"fmt"
	"go/ast"
	"math"
	"math/big"
	"reflect"
	"sort"
	"strconv"
	"strings"
	"unicode/utf8"
)

// This file holds the two canonical dumpers that every oracle of the check is built on:
//
//   goDump  - the Go-side state of a value (identity-labelled: pointers and maps that are shared are
//             printed once and back-referenced, so that two dumps are equal iff the values are deep-equal
//             AND have the same sharing shape; NaN-aware).
//   jsView  - the PREDICTED script-side view of a Go value: what the JS function D (see jsPrelude) must
//             print for ToValue(v). It is written from the documentation of Runtime.ToValue only
//             (primitives -> primitives, nil -> null, *big.Int -> BigInt, struct -> object with the mapped
//             field names and the methods of the pointer type, map -> object keyed by fmt %v, slice/array ->
//             Array, func -> function, anything else -> opaque host object) and shares no code with goja.

var (
	typBigIntPtr = reflect.TypeOf((*big.Int)(nil))
	typIface     = reflect.TypeOf((*interface{})(nil)).Elem()
	typIfSlice   = reflect.TypeOf([]interface{}(nil))
	typIfSlicePt = reflect.TypeOf((*[]interface{})(nil))
	typIfMap     = reflect.TypeOf(map[string]interface{}(nil))
	typError     = reflect.TypeOf((*error)(nil)).Elem()
)

// ---------------------------------------------------------------------------------------------------
// JS number formatting (Number::toString, radix 10) from the shortest round-trip digits.

func jsNum(f float64) string {
	switch {
	case math.IsNaN(f):
		return "NaN"
	case math.IsInf(f, 1):
		return "Infinity"
	case math.IsInf(f, -1):
		return "-Infinity"
	case f == 0:
		if math.Signbit(f) {
			return "-0" // D prints -0 explicitly (Object.is)
		}
		return "0"
	}
	neg := f < 0
	if neg {
		f = -f
	}
	e := strconv.FormatFloat(f, 'e', -1, 64) // d.ddddde±xx
	mant, exps, _ := strings.Cut(e, "e")
	exp, _ := strconv.Atoi(exps)
	digits := strings.Replace(mant, ".", "", 1)
	k := len(digits)
	n := exp + 1
	var s string
	switch {
	case k <= n && n <= 21:
		s = digits + strings.Repeat("0", n-k)
	case 0 < n && n <= 21:
		s = digits[:n] + "." + digits[n:]
	case -6 < n && n <= 0:
		s = "0." + strings.Repeat("0", -n) + digits
	default:
		sign := "+"
		x := n - 1
		if x < 0 {
			sign = "-"
			x = -x
		}
		if k == 1 {
			s = digits + "e" + sign + strconv.Itoa(x)
		} else {
			s = digits[:1] + "." + digits[1:] + "e" + sign + strconv.Itoa(x)
		}
	}
	if neg {
		s = "-" + s
	}
	return s
}

// jsStr is JSON.stringify of a string whose content is well-formed (the pools only hold such strings).
func jsStr(s string) string {
	var b strings.Builder
	b.WriteByte('"')
	for _, r := range s {
		switch {
		case r == '"':
			b.WriteString(`\"`)
		case r == '\\':
			b.WriteString(`\\`)
		case r == '\n':
			b.WriteString(`\n`)
		case r == '\t':
			b.WriteString(`\t`)
		case r == '\r':
			b.WriteString(`\r`)
		case r == '\b':
			b.WriteString(`\b`)
		case r == '\f':
			b.WriteString(`\f`)
		case r < 0x20:
			fmt.Fprintf(&b, `\u%04x`, r)
		default:
			b.WriteRune(r)
		}
	}
	b.WriteByte('"')
	return b.String()
}

// ---------------------------------------------------------------------------------------------------
// Field-name mapping (independent statement of the Go promotion rules + the FieldNameMapper contract).

const (
	mapNil   = 0 // no mapper: Go names
	mapTag   = 1 // TagFieldNameMapper("json", true)
	mapUncap = 2 // UncapFieldNameMapper()
)

var mapperNames = []string{"nil", "tag-json-uncap", "uncap"}

func isIdent(s string) bool {
	if s == "" {
		return false
	}
	for i, r := range s {
		if r == '_' || r == '$' || r >= 'a' && r <= 'z' || r >= 'A' && r <= 'Z' || i > 0 && r >= '0' && r <= '9' {
			continue
		}
		return false
	}
	switch s {
	case "if", "in", "do", "var", "for", "new", "try", "let", "this", "else", "case", "void", "with", "enum", "null", "true",
		"while", "break", "catch", "throw", "const", "yield", "class", "super", "false", "return", "typeof", "delete",
		"switch", "export", "import", "static", "default", "finally", "extends", "function", "continue", "debugger", "instanceof":
		return false
	}
	return true
}

func uncap(s string) string {
	if s == "" {
		return s
	}
	return strings.ToLower(s[:1]) + s[1:]
}

func mapFieldName(mapper int, f reflect.StructField) string {
	switch mapper {
	case mapTag:
		tag := f.Tag.Get("json")
		if i := strings.IndexByte(tag, ','); i >= 0 {
			tag = tag[:i]
		}
		if isIdent(tag) {
			return tag
		}
		return ""
	case mapUncap:
		return uncap(f.Name)
	}
	return f.Name
}

func mapMethodName(mapper int, name string) string {
	if mapper != mapNil {
		return uncap(name)
	}
	return name
}

type fieldRef struct {
	name  string
	index []int
}

// structFields lists the script-visible fields of struct type t: exported fields under their mapped name
// ("" = hidden), fields of embedded structs promoted by Go's rule (the shallowest wins). Catalogue types
// have no two candidates at the same depth, so the tie rule never matters.
func structFields(t reflect.Type, mapper int) []fieldRef {
	type cand struct {
		fieldRef
		depth int
	}
	best := map[string]cand{}
	var order []string
	var walk func(t reflect.Type, idx []int, depth int)
	walk = func(t reflect.Type, idx []int, depth int) {
		for i := 0; i < t.NumField(); i++ {
			f := t.Field(i)
			exported := ast.IsExported(f.Name)
			if !exported && !f.Anonymous {
				continue
			}
			name := mapFieldName(mapper, f)
			ix := append(append([]int{}, idx...), i)
			if name != "" && exported {
				if c, ok := best[name]; !ok {
					order = append(order, name)
					best[name] = cand{fieldRef{name, ix}, depth}
				} else if depth < c.depth {
					best[name] = cand{fieldRef{name, ix}, depth}
				}
			}
			if f.Anonymous {
				ft := f.Type
				for ft.Kind() == reflect.Ptr {
					ft = ft.Elem()
				}
				if ft.Kind() == reflect.Struct {
					walk(ft, ix, depth+1)
				}
			}
		}
	}
	walk(t, nil, 0)
	res := make([]fieldRef, 0, len(order))
	for _, n := range order {
		res = append(res, best[n].fieldRef)
	}
	return res
}

// methodNames are the script-visible methods: the exported methods of *T (for interfaces: of T).
func methodNames(t reflect.Type, mapper int) []string {
	mt := t
	if t.Kind() != reflect.Interface {
		mt = reflect.PointerTo(t)
	}
	var res []string
	seen := map[string]bool{}
	for i := 0; i < mt.NumMethod(); i++ {
		m := mt.Method(i)
		if !ast.IsExported(m.Name) {
			continue
		}
		n := mapMethodName(mapper, m.Name)
		if n == "" || seen[n] {
			continue
		}
		seen[n] = true
		res = append(res, n)
	}
	return res
}

// hasNilEmbedded reports whether struct value v has a field promoted through a nil embedded pointer.
func hasNilEmbedded(v reflect.Value) bool {
	for v.IsValid() && (v.Kind() == reflect.Ptr || v.Kind() == reflect.Interface) {
		if v.IsNil() {
			return false
		}
		v = v.Elem()
	}
	if !v.IsValid() || v.Kind() != reflect.Struct {
		return false
	}
	for _, f := range structFields(v.Type(), mapNil) {
		if _, ok := fieldByIndexSafe(v, f.index); !ok {
			return true
		}
	}
	return false
}

// fieldByIndexSafe follows an index path; ok=false if it would go through a nil embedded pointer.
func fieldByIndexSafe(v reflect.Value, index []int) (reflect.Value, bool) {
	for i, x := range index {
		if i > 0 {
			for v.Kind() == reflect.Ptr {
				if v.IsNil() {
					return reflect.Value{}, false
				}
				v = v.Elem()
			}
		}
		v = v.Field(x)
	}
	return v, true
}

// ---------------------------------------------------------------------------------------------------
// jsView

const viewDepth = 5

func isExactPrim(t reflect.Type) bool {
	return t.PkgPath() == "" && t.Name() == t.Kind().String()
}

func mapKeyKindOK(k reflect.Kind) bool {
	switch k {
	case reflect.String, reflect.Int, reflect.Int8, reflect.Int16, reflect.Int32, reflect.Int64,
		reflect.Uint, reflect.Uint8, reflect.Uint16, reflect.Uint32, reflect.Uint64, reflect.Float32, reflect.Float64:
		return true
	}
	return false
}

type viewer struct {
	mapper int
}

func (vw viewer) view(v reflect.Value, d int) string {
	if !v.IsValid() {
		return "null"
	}
	t := v.Type()
	switch v.Kind() {
	case reflect.Interface:
		if v.IsNil() {
			return "null"
		}
		return vw.view(v.Elem(), d)
	case reflect.Ptr:
		if v.IsNil() {
			if t == typBigIntPtr {
				return "0n"
			}
			return "null"
		}
		if t == typBigIntPtr && v.CanInterface() {
			return v.Interface().(*big.Int).String() + "n"
		}
		e := v.Elem()
		for e.Kind() == reflect.Ptr {
			if e.IsNil() {
				return "null"
			}
			e = e.Elem()
		}
		switch e.Kind() {
		case reflect.Map:
			if e.IsNil() && e.Type() == typIfMap {
				// only a direct nil map[string]interface{} is null; behind a pointer it is an (empty) map wrapper
				if d > viewDepth {
					return "…"
				}
				return "{}"
			}
			return vw.view(e, d)
		case reflect.Struct, reflect.Array, reflect.Slice:
			return vw.view(e, d)
		case reflect.Func:
			return "fn"
		}
		return vw.opaque(e.Type(), d)
	case reflect.Bool:
		if !isExactPrim(t) {
			return vw.opaque(t, d)
		}
		if v.Bool() {
			return "T"
		}
		return "F"
	case reflect.Int, reflect.Int8, reflect.Int16, reflect.Int32, reflect.Int64:
		if !isExactPrim(t) {
			return vw.opaque(t, d)
		}
		return jsNum(float64(v.Int()))
	case reflect.Uint, reflect.Uint8, reflect.Uint16, reflect.Uint32, reflect.Uint64:
		if !isExactPrim(t) {
			return vw.opaque(t, d)
		}
		return jsNum(float64(v.Uint()))
	case reflect.Float32, reflect.Float64:
		if !isExactPrim(t) {
			return vw.opaque(t, d)
		}
		return jsNum(v.Float())
	case reflect.String:
		if !isExactPrim(t) {
			return vw.opaque(t, d)
		}
		return jsStr(v.String())
	case reflect.Func:
		return "fn"
	case reflect.Slice, reflect.Array:
		if d > viewDepth {
			return "…"
		}
		var b strings.Builder
		b.WriteByte('[')
		for i := 0; i < v.Len(); i++ {
			if i > 0 {
				b.WriteByte(',')
			}
			b.WriteString(vw.view(v.Index(i), d+1))
		}
		b.WriteByte(']')
		return b.String()
	case reflect.Map:
		if t == typIfMap && v.IsNil() {
			return "null"
		}
		if d > viewDepth {
			return "…"
		}
		if t.NumMethod() > 0 || !mapKeyKindOK(t.Key().Kind()) {
			return vw.opaque(t, d)
		}
		type kv struct{ k, v string }
		var items []kv
		it := v.MapRange()
		for it.Next() {
			items = append(items, kv{fmt.Sprintf("%v", it.Key()), vw.view(it.Value(), d+1)})
		}
		sort.Slice(items, func(i, j int) bool { return items[i].k < items[j].k })
		var b strings.Builder
		b.WriteByte('{')
		for i, it := range items {
			if i > 0 {
				b.WriteByte(',')
			}
			b.WriteString(it.k + ":" + it.v)
		}
		b.WriteByte('}')
		return b.String()
	case reflect.Struct:
		if d > viewDepth {
			return "…"
		}
		type kv struct{ k, v string }
		var items []kv
		for _, f := range structFields(t, vw.mapper) {
			fv, ok := fieldByIndexSafe(v, f.index)
			if !ok {
				items = append(items, kv{f.name, "u"}) // promoted through a nil embedded pointer: no such value
				continue
			}
			items = append(items, kv{f.name, vw.view(fv, d+1)})
		}
		have := map[string]bool{}
		for _, it := range items {
			have[it.k] = true
		}
		for _, m := range methodNames(t, vw.mapper) {
			if !have[m] {
				items = append(items, kv{m, "fn"})
			}
		}
		sort.Slice(items, func(i, j int) bool { return items[i].k < items[j].k })
		var b strings.Builder
		b.WriteByte('{')
		for i, it := range items {
			if i > 0 {
				b.WriteByte(',')
			}
			b.WriteString(it.k + ":" + it.v)
		}
		b.WriteByte('}')
		return b.String()
	}
	return vw.opaque(t, d)
}

// opaque is the view of a "generic reflect based host object": no own data keys, only its methods.
func (vw viewer) opaque(t reflect.Type, d int) string {
	if d > viewDepth {
		return "…"
	}
	ms := methodNames(t, vw.mapper)
	sort.Strings(ms)
	var b strings.Builder
	b.WriteByte('{')
	for i, m := range ms {
		if i > 0 {
			b.WriteByte(',')
		}
		b.WriteString(m + ":fn")
	}
	b.WriteByte('}')
	return b.String()
}

// ---------------------------------------------------------------------------------------------------
// goDump

type goDumper struct {
	b     strings.Builder
	seen  map[[2]uintptr]int // (address, type hash surrogate) -> label
	depth int
}

func goDump(v reflect.Value) string {
	d := &goDumper{seen: map[[2]uintptr]int{}}
	d.dump(v)
	return d.b.String()
}

func goDumpI(x interface{}) string { return goDump(reflect.ValueOf(x)) }

func typeKey(t reflect.Type) uintptr {
	// reflect.Type values are canonical pointers; use the data word of the interface via %p-free trick
	return reflect.ValueOf(t).Pointer()
}

func fmtFloat(f float64) string {
	if math.IsNaN(f) {
		return "NaN"
	}
	if f == 0 && math.Signbit(f) {
		return "-0"
	}
	return strconv.FormatFloat(f, 'g', -1, 64)
}

func (d *goDumper) label(addr uintptr, t reflect.Type) (int, bool) {
	k := [2]uintptr{addr, typeKey(t)}
	if n, ok := d.seen[k]; ok {
		return n, true
	}
	n := len(d.seen) + 1
	d.seen[k] = n
	return n, false
}

func (d *goDumper) dump(v reflect.Value) {
	if !v.IsValid() {
		d.b.WriteString("nil")
		return
	}
	d.depth++
	defer func() { d.depth-- }()
	if d.depth > 40 {
		d.b.WriteString("…")
		return
	}
	t := v.Type()
	switch v.Kind() {
	case reflect.Bool:
		if v.Bool() {
			d.b.WriteString("true")
		} else {
			d.b.WriteString("false")
		}
	case reflect.Int, reflect.Int8, reflect.Int16, reflect.Int32, reflect.Int64:
		d.b.WriteString(strconv.FormatInt(v.Int(), 10))
	case reflect.Uint, reflect.Uint8, reflect.Uint16, reflect.Uint32, reflect.Uint64, reflect.Uintptr:
		d.b.WriteString(strconv.FormatUint(v.Uint(), 10))
	case reflect.Float32, reflect.Float64:
		d.b.WriteString(fmtFloat(v.Float()))
	case reflect.Complex64, reflect.Complex128:
		c := v.Complex()
		d.b.WriteString("(" + fmtFloat(real(c)) + "," + fmtFloat(imag(c)) + "i)")
	case reflect.String:
		s := v.String()
		if utf8.ValidString(s) {
			d.b.WriteString(strconv.Quote(s))
		} else {
			d.b.WriteString(fmt.Sprintf("%+q", s))
		}
	case reflect.Interface:
		if v.IsNil() {
			d.b.WriteString("nil")
			return
		}
		e := v.Elem()
		d.b.WriteString("i<" + e.Type().String() + ">")
		d.dump(e)
	case reflect.Ptr:
		if v.IsNil() {
			if t == typBigIntPtr {
				d.b.WriteString("big(0)") // documented: a nil *big.Int is 0n
				return
			}
			d.b.WriteString("nil")
			return
		}
		if t == typBigIntPtr && v.CanInterface() {
			d.b.WriteString("big(" + v.Interface().(*big.Int).String() + ")")
			return
		}
		n, seen := d.label(v.Pointer(), t)
		if seen {
			d.b.WriteString("^" + strconv.Itoa(n))
			return
		}
		d.b.WriteString("&" + strconv.Itoa(n))
		d.dump(v.Elem())
	case reflect.Map:
		if v.IsNil() {
			d.b.WriteString("nilmap")
			return
		}
		n, seen := d.label(v.Pointer(), t)
		if seen {
			d.b.WriteString("^" + strconv.Itoa(n))
			return
		}
		// keys are ordered by their own dump so that the labelling order is canonical
		type kv struct {
			k string
			v reflect.Value
		}
		var items []kv
		it := v.MapRange()
		for it.Next() {
			items = append(items, kv{goDump(it.Key()), it.Value()})
		}
		sort.Slice(items, func(i, j int) bool { return items[i].k < items[j].k })
		d.b.WriteString("map#" + strconv.Itoa(n) + "{")
		for i, it := range items {
			if i > 0 {
				d.b.WriteByte(',')
			}
			d.b.WriteString(it.k + ":")
			d.dump(it.v)
		}
		d.b.WriteByte('}')
	case reflect.Slice:
		if v.IsNil() {
			d.b.WriteString("nilslice")
			return
		}
		d.b.WriteByte('[')
		for i := 0; i < v.Len(); i++ {
			if i > 0 {
				d.b.WriteByte(',')
			}
			d.dump(v.Index(i))
		}
		d.b.WriteByte(']')
	case reflect.Array:
		d.b.WriteString("[" + strconv.Itoa(v.Len()) + "|")
		for i := 0; i < v.Len(); i++ {
			if i > 0 {
				d.b.WriteByte(',')
			}
			d.dump(v.Index(i))
		}
		d.b.WriteByte(']')
	case reflect.Struct:
		d.b.WriteByte('{')
		for i := 0; i < v.NumField(); i++ {
			if i > 0 {
				d.b.WriteByte(',')
			}
			d.b.WriteString(t.Field(i).Name + ":")
			d.dump(v.Field(i))
		}
		d.b.WriteByte('}')
	case reflect.Func:
		if v.IsNil() {
			d.b.WriteString("nilfunc")
		} else {
			d.b.WriteString("func")
		}
	case reflect.Chan, reflect.UnsafePointer:
		if v.IsNil() {
			d.b.WriteString("nil")
		} else {
			d.b.WriteString("ptr")
		}
	default:
		d.b.WriteString("?" + v.Kind().String())
	}
}
