package c13

import (
	"bytes"
	"crypto/sha1"
	"fmt"
	"math"
	"reflect"
	"sort"
	"strings"
	"sync"
	"unsafe"

	"verif/core"

	"github.com/dop251/goja"
)

func nan() float64 { return math.NaN() }
func inf() float64 { return math.Inf(1) }

// defect switches of the model: each reproduces one LISTED finding of goja, so that a lock-step
// disagreement can be attributed to it precisely (the whole history must then agree with the defect model).
type defects struct {
	cacheNotValidated bool // the container's element-wrapper cache is looked up by index only, never re-validated against the current element location
	noRepoint         bool // when a wrapper is re-pointed (copy-on-change, sort swap, re-allocation) the wrappers it handed out itself stay behind
	mapFieldLive      bool // a wrapper of a map held in an addressable field/element views the field, not the map
	ptrAllocOnFail    bool // a failed conversion into a nil pointer destination leaves a freshly allocated zero value behind
}

func (d defects) String() string {
	var s []string
	if d.cacheNotValidated {
		s = append(s, "cache-not-revalidated")
	}
	if d.noRepoint {
		s = append(s, "nested-wrappers-not-repointed")
	}
	if d.mapFieldLive {
		s = append(s, "map-wrapper-follows-field")
	}
	if d.ptrAllocOnFail {
		s = append(s, "failed-set-allocates-nil-pointer")
	}
	return strings.Join(s, "+")
}

// defectVariants: all combinations, smallest first (noRepoint is only observable together with cacheNotValidated).
var defectVariants = func() []defects {
	var res []defects
	for n := 1; n <= 4; n++ {
		for bits := 1; bits < 16; bits++ {
			d := defects{bits&1 != 0, bits&2 != 0, bits&4 != 0, bits&8 != 0}
			c := 0
			for b := bits; b != 0; b &= b - 1 {
				c++
			}
			if c != n || d.noRepoint && !d.cacheNotValidated {
				continue
			}
			res = append(res, d)
		}
	}
	return res
}()

// compiled is one runtime prepared for a wrapper kind.
type compiled struct {
	rt     *goja.Runtime
	wk     *wkind
	fns    []goja.Callable
	ff     goja.Callable // full observation F of w, h[0], h[1]
	fd     goja.Callable // plain dumps D only
	probes goja.Value
}

func mapperOf(i int) goja.FieldNameMapper {
	switch i {
	case mapTag:
		return goja.TagFieldNameMapper("json", true)
	case mapUncap:
		return goja.UncapFieldNameMapper()
	}
	return nil
}

func newRuntime(mapper int) *goja.Runtime {
	rt := goja.New()
	rt.SetFieldNameMapper(mapperOf(mapper))
	if _, err := rt.RunString(jsPrelude); err != nil {
		panic("prelude: " + err.Error())
	}
	return rt
}

func compileKind(wk *wkind) *compiled {
	c := &compiled{rt: newRuntime(wk.mapper), wk: wk}
	c.fns = make([]goja.Callable, len(wk.ops)) // compiled lazily
	c.ff, _ = goja.AssertFunction(c.rt.Get("FF"))
	c.fd, _ = goja.AssertFunction(c.rt.Get("FD"))
	ps := make([]interface{}, len(wk.probes))
	for i, p := range wk.probes {
		ps[i] = p
		if n, ok := parseIdx(p); ok {
			ps[i] = n // asked through the integer-keyed paths (and again as a string, see F)
		}
	}
	c.probes = c.rt.NewArray(ps...)
	return c
}

func (c *compiled) fn(i int) goja.Callable {
	if f := c.fns[i]; f != nil {
		return f
	}
	o := c.wk.ops[i]
	v, err := c.rt.RunString(opJSSource(o))
	if err != nil {
		panic(fmt.Sprintf("compile %s: %v", o.name, err))
	}
	f, _ := goja.AssertFunction(v)
	c.fns[i] = f
	return f
}

// failure of one history.
type failure struct {
	Kind   string `json:"kind"` // panic | result | go-state | view | export-identity
	OpKind string `json:"op_kind"`
	Step   int    `json:"step"`
	Got    string `json:"got"`
	Want   string `json:"want"`
	Panic  string `json:"panic,omitempty"`
	Class  string `json:"class,omitempty"` // wrapper class of the op's target
}

type outcome struct {
	fail    *failure
	skipped bool
	skipWhy string
	key     string
	lastRes string
	steps   int
}

func classNameOf(v mval) string {
	if v.k != mRef {
		return "none"
	}
	switch v.ref.class() {
	case wStruct:
		return "struct"
	case wArray:
		return "array"
	case wSlice:
		return "slice"
	case wMap:
		return "map"
	case wIfSlice:
		return "[]interface{}"
	case wIfMap:
		return "map[string]interface{}"
	}
	return "other"
}

// callImpl runs fn and converts a Go panic into a string.
func callImpl(fn goja.Callable, args ...goja.Value) (res string, pan string) {
	defer func() {
		if x := recover(); x != nil {
			pan = fmt.Sprintf("%T: %v", x, x)
		}
	}()
	v, err := fn(goja.Undefined(), args...)
	if err != nil {
		return "!escaped:" + err.Error(), ""
	}
	return v.String(), ""
}

func runModelOp(m *model, o *op) (res string, skipped bool, why string) {
	defer func() {
		if x := recover(); x != nil {
			switch x := x.(type) {
			case mthrow:
				res = "!throw"
			case mskip:
				skipped, why = true, x.why
			default:
				panic(x)
			}
		}
	}()
	v := o.model(m)
	return m.dumpVal(v, 0), false, ""
}

// cyclicExport reports whether the Go value behind a wrapper contains a cycle (through pointers, maps, slices).
func cyclicExport(v goja.Value) (cyc bool) {
	defer func() {
		if recover() != nil {
			cyc = true
		}
	}()
	if _, ok := v.(*goja.Object); !ok {
		return false
	}
	return goCyclic(reflect.ValueOf(v.Export()))
}

// cycleThroughArray reports a cycle in the Go value that passes through a slice or array. Array.prototype
// methods (join, and with it every ToPrimitive / error message of such a wrapper) recurse without bound on
// it in goja (listed finding, fatal), so such states are not explored.
func cycleThroughArray(v reflect.Value) bool {
	type ent struct {
		k   reflect.Kind
		p   uintptr
		n   int
		arr bool
	}
	var stack []ent
	var walk func(v reflect.Value, d int) bool
	walk = func(v reflect.Value, d int) bool {
		if !v.IsValid() {
			return false
		}
		if d > 48 {
			return true
		}
		var e ent
		switch v.Kind() {
		case reflect.Interface:
			if v.IsNil() {
				return false
			}
			return walk(v.Elem(), d)
		case reflect.Ptr:
			if v.IsNil() {
				return false
			}
			e = ent{reflect.Ptr, v.Pointer(), 0, false}
		case reflect.Map:
			if v.IsNil() {
				return false
			}
			e = ent{reflect.Map, v.Pointer(), 0, false}
		case reflect.Slice:
			if v.Len() == 0 {
				return false
			}
			e = ent{reflect.Slice, v.Pointer(), 0, true}
		case reflect.Array, reflect.Struct:
		default:
			return false
		}
		if e.k != 0 {
			for i, x := range stack {
				if x.k == e.k && x.p == e.p {
					if e.arr {
						return true
					}
					for _, y := range stack[i:] {
						if y.arr {
							return true
						}
					}
					return false // a cycle without arrays: stop descending
				}
			}
			stack = append(stack, e)
			defer func() { stack = stack[:len(stack)-1] }()
		}
		switch v.Kind() {
		case reflect.Ptr:
			return walk(v.Elem(), d+1)
		case reflect.Map:
			it := v.MapRange()
			for it.Next() {
				if walk(it.Value(), d+1) {
					return true
				}
			}
		case reflect.Slice, reflect.Array:
			for i := 0; i < v.Len(); i++ {
				if walk(v.Index(i), d+1) {
					return true
				}
			}
		case reflect.Struct:
			for i := 0; i < v.NumField(); i++ {
				if walk(v.Field(i), d+1) {
					return true
				}
			}
		}
		return false
	}
	return walk(v, 0)
}

func goCyclic(v reflect.Value) bool {
	type key struct {
		k reflect.Kind
		p uintptr
		n int
	}
	on := map[key]bool{}
	var walk func(v reflect.Value, d int) bool
	walk = func(v reflect.Value, d int) bool {
		if !v.IsValid() {
			return false
		}
		if d > 64 {
			return true
		}
		var k key
		switch v.Kind() {
		case reflect.Interface:
			if v.IsNil() {
				return false
			}
			return walk(v.Elem(), d)
		case reflect.Ptr:
			if v.IsNil() {
				return false
			}
			k = key{reflect.Ptr, v.Pointer(), 0}
		case reflect.Map:
			if v.IsNil() {
				return false
			}
			k = key{reflect.Map, v.Pointer(), 0}
		case reflect.Slice:
			if v.Len() == 0 {
				return false
			}
			k = key{reflect.Slice, v.Pointer(), v.Len()}
		case reflect.Array, reflect.Struct:
		default:
			return false
		}
		if k.k != 0 {
			if on[k] {
				return true
			}
			on[k] = true
			defer delete(on, k)
		}
		switch v.Kind() {
		case reflect.Ptr:
			return walk(v.Elem(), d+1)
		case reflect.Map:
			it := v.MapRange()
			for it.Next() {
				if walk(it.Value(), d+1) {
					return true
				}
			}
		case reflect.Slice, reflect.Array:
			for i := 0; i < v.Len(); i++ {
				if walk(v.Index(i), d+1) {
					return true
				}
			}
		case reflect.Struct:
			for i := 0; i < v.NumField(); i++ {
				if walk(v.Field(i), d+1) {
					return true
				}
			}
		}
		return false
	}
	return walk(v, 0)
}

// implCacheTag reads (reflect + unsafe, read-only) the occupancy of the wrapper's element cache in goja:
// for array/slice wrappers the non-nil slots over the whole capacity of valueCache (a '|' marks its length),
// for struct wrappers the cached field names. "" if v is not such a wrapper; "?" if goja's layout changed.
func implCacheTag(v goja.Value) (tag string) {
	obj, ok := v.(*goja.Object)
	if !ok || obj == nil {
		return ""
	}
	defer func() {
		if recover() != nil {
			tag = "?"
		}
	}()
	self := reflect.ValueOf(obj).Elem().FieldByName("self")
	if !self.IsValid() {
		return "?"
	}
	self = reflect.NewAt(self.Type(), unsafe.Pointer(self.UnsafeAddr())).Elem()
	impl := self.Elem()
	if impl.Kind() != reflect.Ptr || impl.IsNil() {
		return ""
	}
	st := impl.Elem()
	if st.Kind() != reflect.Struct {
		return ""
	}
	vc := st.FieldByName("valueCache")
	if !vc.IsValid() {
		return ""
	}
	vc = reflect.NewAt(vc.Type(), unsafe.Pointer(vc.UnsafeAddr())).Elem()
	var b strings.Builder
	switch vc.Kind() {
	case reflect.Slice:
		n := vc.Len()
		full := vc
		if vc.Cap() > n {
			full = vc.Slice(0, vc.Cap())
		}
		last := -1
		for i := 0; i < full.Len(); i++ {
			if !full.Index(i).IsNil() {
				last = i
			}
		}
		for i := 0; i <= last; i++ {
			if i == n {
				b.WriteByte('|')
			}
			if full.Index(i).IsNil() {
				b.WriteByte('.')
			} else {
				b.WriteByte('x')
			}
		}
	case reflect.Map:
		var ks []string
		for _, k := range vc.MapKeys() {
			ks = append(ks, k.String())
		}
		sort.Strings(ks)
		b.WriteString(strings.Join(ks, ","))
	}
	return b.String()
}

func capOfExport(v goja.Value) (c int) {
	c = -1
	defer func() { recover() }()
	if v == nil {
		return
	}
	if _, ok := v.(*goja.Object); !ok {
		return
	}
	rv := reflect.ValueOf(v.Export())
	for rv.IsValid() && rv.Kind() == reflect.Ptr && !rv.IsNil() {
		rv = rv.Elem()
	}
	if rv.IsValid() && rv.Kind() == reflect.Slice {
		return rv.Cap()
	}
	return
}

// runHistory executes path on a fresh host value: implementation and model in lock-step.
func runHistory(c *compiled, wk *wkind, path []int, df defects, full bool) (out outcome) {
	implP := reflect.ValueOf(wk.mk())
	twinP := reflect.ValueOf(wk.mk())
	implHost, twinHost := implP.Elem(), twinP.Elem()
	var passed interface{}
	var rootVal reflect.Value
	if wk.byValue {
		passed = implHost.Interface()
		rootVal = twinHost
	} else {
		passed = implP.Interface()
		rootVal = twinP
	}
	m := &model{mapper: wk.mapper, capHint: -1, df: df}
	if wk.byValue {
		m.root = newRootRef(reflect.ValueOf(rootVal.Interface()))
	} else {
		m.root = newRootRef(rootVal)
	}
	m.h = [2]mval{vUndef, vUndef}

	var w goja.Value
	var pan string
	func() {
		defer func() {
			if x := recover(); x != nil {
				pan = fmt.Sprintf("%T: %v", x, x)
			}
		}()
		w = c.rt.ToValue(passed)
	}()
	if pan != "" {
		out.fail = &failure{Kind: "panic", OpKind: "ToValue", Panic: pan}
		return
	}
	h := c.rt.NewArray()

	if len(wk.prefixIdx) > 0 {
		// the kind's fixed preamble (e.g. "every element wrapper has been read") precedes every history
		path = append(append(make([]int, 0, len(wk.prefixIdx)+len(path)), wk.prefixIdx...), path...)
	}
	threwOnWrapper := ""
	for i, oi := range path {
		o := wk.ops[oi]
		out.steps = i + 1
		threwOnWrapper = ""
		if o.goFn != nil {
			o.goFn(implHost)
			o.goFn(twinHost)
		} else {
			var tv mval
			switch o.tgt {
			case -1:
				tv = m.rootVal()
			case 0, 1:
				tv = m.h[o.tgt]
			}
			cls := classNameOf(tv)
			got, pan := callImpl(c.fn(oi), w, h)
			if pan != "" {
				out.fail = &failure{Kind: "panic", OpKind: o.kind, Step: i, Panic: pan, Class: cls}
				return
			}
			m.capHint = -1
			switch o.tgt {
			case -1:
				m.capHint = capOfExport(w)
			case 0, 1:
				m.capHint = capOfExport(h.Get(fmt.Sprint(o.tgt)))
			}
			m.touched = false
			want, skipped, why := runModelOp(m, o)
			if skipped {
				out.skipped, out.skipWhy = true, why
				return
			}
			out.lastRes = want
			if want == "!throw" && tv.k == mRef && m.touched {
				threwOnWrapper = o.name
			}
			if cycleThroughArray(implHost) || cycleThroughArray(twinHost) || m.handleCycle() {
				out.skipped, out.skipWhy = true, "cyclic value through a slice"
				return
			}
			if got != want {
				out.fail = &failure{Kind: "result", OpKind: o.kind, Step: i, Got: got, Want: want, Class: cls}
				return
			}
		}
		if g, wnt := goDump(implHost), goDump(twinHost); g != wnt {
			out.fail = &failure{Kind: "go-state", OpKind: o.kind, Step: i, Got: g, Want: wnt}
			return
		}
	}
	// the state key is taken before the final observation, which is not part of any continued history
	// (reading through the wrappers registers element references, in the model as in the implementation)
	key := m.stateKey(twinHost)
	// white-box tag: which slots of goja's element-wrapper caches are occupied, INCLUDING the spare capacity
	// behind the cache's length (stale entries there come back when the cache is re-extended in place). The
	// model cannot see this hidden state; without the tag such states would be merged with clean ones.
	key += "#C" + implCacheTag(w) + "|" + implCacheTag(h.Get("0")) + "|" + implCacheTag(h.Get("1"))
	if threwOnWrapper != "" {
		// A mutation attempt that threw must leave everything unchanged - also the hidden wrapper bookkeeping,
		// which the model state cannot see. Such a state is therefore kept apart from the state before the
		// attempt and gets expanded itself.
		key += "#threw:" + threwOnWrapper
	}
	// end of history: everything script can see, and Export identity
	var want string
	// JSON.stringify of a cyclic Go value recurses without bound in goja (listed finding, fatal): it is
	// left out of the observation whenever the value reachable from the wrapper is cyclic.
	var nj [3]bool
	if full {
		nj[0] = cyclicExport(w)
		nj[1] = cyclicExport(h.Get("0"))
		nj[2] = cyclicExport(h.Get("1"))
	}
	skipped, why := false, ""
	func() {
		defer func() {
			if x := recover(); x != nil {
				if s, ok := x.(mskip); ok {
					skipped, why = true, s.why
					return
				}
				panic(x)
			}
		}()
		if full {
			want = m.full(m.rootVal(), wk.probes, nj[0]) + "##" + m.full(m.h[0], wk.probes, nj[1]) + "##" + m.full(m.h[1], wk.probes, nj[2])
		} else {
			want = m.dumpVal(m.rootVal(), 0) + "##" + m.dumpVal(m.h[0], 0) + "##" + m.dumpVal(m.h[1], 0)
		}
	}()
	if skipped {
		out.skipped, out.skipWhy = true, why
		return
	}
	lastKind := "initial"
	if len(path) > 0 {
		lastKind = wk.ops[path[len(path)-1]].kind
	}
	obs := c.fd
	if full {
		obs = c.ff
	}
	got, pan := callImpl(obs, w, h, c.probes, c.rt.ToValue([]interface{}{nj[0], nj[1], nj[2]}))
	if pan != "" {
		out.fail = &failure{Kind: "panic", OpKind: "observe-after-" + lastKind, Step: len(path), Panic: pan}
		return
	}
	if got != want {
		out.fail = &failure{Kind: "view", OpKind: lastKind, Step: len(path), Got: got, Want: want}
		return
	}
	if g, wnt := goDump(implHost), goDump(twinHost); g != wnt {
		out.fail = &failure{Kind: "go-state", OpKind: "observe-after-" + lastKind, Step: len(path), Got: g, Want: wnt}
		return
	}
	// Export() of the root wrapper returns the original value
	if wo, ok := w.(*goja.Object); ok {
		ex := reflect.ValueOf(wo.Export())
		if !wk.byValue {
			if ex.Kind() != reflect.Ptr || ex.Pointer() != implP.Pointer() {
				out.fail = &failure{Kind: "export-identity", OpKind: lastKind, Step: len(path), Got: fmt.Sprintf("%T", wo.Export()), Want: "the wrapped pointer"}
				return
			}
		} else {
			g, wnt := goDump(ex), goDump(m.root.export())
			if implHost.Kind() == reflect.Map && !implHost.IsNil() && (ex.Kind() != reflect.Map || ex.Pointer() != implHost.Pointer()) {
				g = "another map"
			}
			if g != wnt {
				out.fail = &failure{Kind: "export-identity", OpKind: lastKind, Step: len(path), Got: g, Want: wnt}
				return
			}
		}
	}
	out.key = key
	return
}

func (m *model) handleCycle() bool {
	if m.root != nil && cycleThroughArray(m.root.loc) {
		return true
	}
	for _, h := range m.h {
		if h.k == mRef && cycleThroughArray(h.ref.loc) {
			return true
		}
	}
	return false
}

// HistCase is the replayable form of one history.
type HistCase struct {
	Part    string   `json:"part"`
	Kind    string   `json:"kind"`
	Path    []string `json:"path"`
	Failure *failure `json:"failure,omitempty"`
}

func pathNames(wk *wkind, path []int) []string {
	s := make([]string, len(path))
	for i, p := range path {
		s[i] = wk.ops[p].name
	}
	return s
}

func normPanic(p string) string {
	// drop addresses / variable parts
	if i := strings.Index(p, "0x"); i >= 0 {
		p = p[:i]
	}
	if i := strings.Index(p, " at "); i >= 0 {
		p = p[:i]
	}
	if len(p) > 100 {
		p = p[:100]
	}
	return strings.TrimSpace(p)
}

// classify gives the signature of a failing history. A disagreement that is reproduced exactly by one of
// the defect models is attributed to that defect; everything else is classified by failure kind, wrapper
// kind and operation.
func classify(c *compiled, wk *wkind, path []int, f *failure) (sig, what string) {
	if f.Kind == "panic" {
		if f.OpKind == "length=" && (f.Class == "map" || f.Class == "map[string]interface{}") {
			f.OpKind = "set" // `x.length = n` on a map wrapper is an ordinary property assignment
		}
		sig = fmt.Sprintf("host-panic|%s|%s|%s", f.Class, f.OpKind, normPanic(f.Panic))
		what = fmt.Sprintf("wrapper kind %s, history %v: Go panic %q escapes the script operation (a TypeError/RangeError is expected where the host type cannot represent the operation)", wk.name, pathNames(wk, path), f.Panic)
		return
	}
	for _, df := range defectVariants {
		o := runHistory(c, wk, path, df, true)
		if o.fail == nil && !o.skipped {
			sig = "aliasing|" + df.String()
			what = fmt.Sprintf("wrapper kind %s, history %v: %s differs from the live-view model (got %s, want %s); the implementation agrees with the defect model %q", wk.name, pathNames(wk, path), f.Kind, clip(f.Got), clip(f.Want), df.String())
			return
		}
	}
	sig = fmt.Sprintf("%s|%s|%s", f.Kind, wk.name, f.OpKind)
	what = fmt.Sprintf("wrapper kind %s, history %v: %s disagreement at step %d: got %s, want %s", wk.name, pathNames(wk, path), f.Kind, f.Step, clip(f.Got), clip(f.Want))
	return
}

func clip(s string) string {
	if len(s) > 300 {
		return s[:300] + "…"
	}
	return s
}

// ---------------------------------------------------------------------------------------------------
// BFS

type frontierItem struct {
	path []int
}

type bfsState struct {
	wk       *wkind
	frontier [][]int
	seen     map[stateHash]bool
	depth    int
	done     bool
	states   int64
	evals    int64
}

type workerCtx struct {
	comp map[*wkind]*compiled
}

func (w *workerCtx) get(wk *wkind) *compiled {
	if c := w.comp[wk]; c != nil {
		return c
	}
	c := compileKind(wk)
	w.comp[wk] = c
	return c
}

func pathLess(a, b []int) bool {
	for i := 0; i < len(a) && i < len(b); i++ {
		if a[i] != b[i] {
			return a[i] < b[i]
		}
	}
	return len(a) < len(b)
}

// stateHash is the de-duplication key: a 128-bit digest of the model's canonical state key.
type stateHash [16]byte

func hashKey(k string) stateHash {
	d := sha1.Sum([]byte(k))
	var h stateHash
	copy(h[:], d[:16])
	return h
}

type succ struct {
	key  stateHash
	path []int
}

// expandLevel executes every (frontier state x op) successor; returns false if the deadline cut it.
func expandLevel(r *core.Run, st *bfsState, workers []*workerCtx) bool {
	wk := st.wk
	nOps := int64(len(wk.ops))
	total := int64(len(st.frontier)) * nOps
	var mu sync.Mutex
	var found []succ
	var skipped, trans int64
	ok := r.Parallel(total, 64, func(worker int, lo, hi int64) {
		wc := workers[worker]
		var local []succ
		var lskip, ltrans int64
		for idx := lo; idx < hi; idx++ {
			base := st.frontier[idx/nOps]
			oi := int(idx % nOps)
			path := append(append(make([]int, 0, len(base)+1), base...), oi)
			c := wc.get(wk)
			out := runHistory(c, wk, path, defects{}, false)
			r.Eval(1)
			if out.fail != nil && out.fail.Kind == "panic" {
				delete(wc.comp, wk) // the runtime may be left in an undefined state
			}
			if out.skipped {
				lskip++
				continue
			}
			ltrans += int64(len(path))
			if out.fail != nil {
				reportHistory(r, wc, wk, path, out.fail)
				continue
			}
			r.Outcome(out.lastRes)
			local = append(local, succ{hashKey(out.key), path})
		}
		mu.Lock()
		found = append(found, local...)
		skipped += lskip
		trans += ltrans
		mu.Unlock()
	})
	st.evals += total
	r.Transitions(trans)
	r.Traces(trans)
	r.Add("hist_transitions_outside_model_domain", skipped)
	if !ok {
		return false
	}
	sort.Slice(found, func(i, j int) bool {
		if found[i].key != found[j].key {
			return bytes.Compare(found[i].key[:], found[j].key[:]) < 0
		}
		return pathLess(found[i].path, found[j].path)
	})
	var next [][]int
	for i, s := range found {
		if i > 0 && found[i-1].key == s.key {
			continue
		}
		if st.seen[s.key] {
			continue
		}
		st.seen[s.key] = true
		next = append(next, s.path)
		if r.WantSample(st.states) {
			r.Sample(map[string]interface{}{"part": "hist", "kind": wk.name, "path": pathNames(wk, s.path)})
		}
		st.states++
		r.States(1)
		r.NontrivialN(1)
	}
	sort.Slice(next, func(i, j int) bool { return pathLess(next[i], next[j]) })
	// second pass: the full observation (keys, for-in, JSON.stringify, spread, in/hasOwnProperty) on every new state
	bad := make([]bool, len(next))
	ok = r.Parallel(int64(len(next)), 16, func(worker int, lo, hi int64) {
		wc := workers[worker]
		for i := lo; i < hi; i++ {
			out := runHistory(wc.get(wk), wk, next[i], defects{}, true)
			r.Eval(1)
			if out.fail != nil {
				if out.fail.Kind == "panic" {
					delete(wc.comp, wk)
				}
				reportHistory(r, wc, wk, next[i], out.fail)
				bad[i] = true
			} else if out.skipped {
				bad[i] = true
			}
		}
	})
	if !ok {
		return false
	}
	kept := next[:0]
	for i, p := range next {
		if !bad[i] {
			kept = append(kept, p)
		}
	}
	st.frontier = kept
	return true
}

var reportedSigs sync.Map

// reportHistory classifies a failing history and records it; the first case of every signature is re-run
// 5 times on fresh runtimes before it is reported.
func reportHistory(r *core.Run, wc *workerCtx, wk *wkind, path []int, f *failure) {
	hc := HistCase{Part: "hist", Kind: wk.name, Path: pathNames(wk, path), Failure: f}
	sig, what := classify(wc.get(wk), wk, path, f)
	if _, seen := reportedSigs.LoadOrStore(sig, true); !seen {
		for i := 0; i < 5; i++ {
			o := runHistory(compileKind(wk), wk, path, defects{}, true)
			if o.fail == nil || o.fail.Kind != f.Kind {
				r.Violation("nondeterministic|"+wk.name, fmt.Sprintf("history %v failed once (%s) but not on a re-run", pathNames(wk, path), f.Kind), hc)
				return
			}
		}
	}
	r.Violation(sig, what, hc)
}

func runHistories(r *core.Run, kinds []*wkind) {
	workers := make([]*workerCtx, r.Workers)
	for i := range workers {
		workers[i] = &workerCtx{comp: map[*wkind]*compiled{}}
	}
	states := make([]*bfsState, len(kinds))
	maxDepth := 0
	for i, wk := range kinds {
		states[i] = &bfsState{wk: wk, frontier: [][]int{{}}, seen: map[stateHash]bool{}}
		d := r.Pick(wk.depthQ, wk.depthT)
		if d > maxDepth {
			maxDepth = d
		}
		// the initial state itself
		c := workers[0].get(wk)
		out := runHistory(c, wk, nil, defects{}, true)
		r.Eval(1)
		if out.fail != nil {
			reportHistory(r, workers[0], wk, nil, out.fail)
			states[i].done = true
			continue
		}
		if out.skipped {
			r.Violation("model|initial-state-outside-domain|"+wk.name, out.skipWhy, HistCase{Part: "hist", Kind: wk.name})
			states[i].done = true
			continue
		}
		states[i].seen[hashKey(out.key)] = true
		states[i].states = 1
		r.States(1)
	}
	depthDone := map[string]int{}
	complete := true
	for d := 1; d <= maxDepth; d++ {
		for _, st := range states {
			if st.done || d > r.Pick(st.wk.depthQ, st.wk.depthT) {
				continue
			}
			if r.Expired() {
				complete = false
				break
			}
			if !expandLevel(r, st, workers) {
				complete = false
				st.done = true
				continue
			}
			st.depth = d
			depthDone[st.wk.name] = d
			if len(st.frontier) == 0 {
				st.done = true // closed: every reachable state was expanded
				depthDone[st.wk.name] = 99
			}
		}
	}
	bc := map[string]interface{}{}
	var stateCounts = map[string]int64{}
	var evalCounts = map[string]int64{}
	for _, st := range states {
		bc[st.wk.name] = depthDone[st.wk.name]
		stateCounts[st.wk.name] = st.states
		evalCounts[st.wk.name] = st.evals
		if depthDone[st.wk.name] < r.Pick(st.wk.depthQ, st.wk.depthT) && depthDone[st.wk.name] != 99 {
			complete = false
		}
	}
	r.Set("hist_depth_completed", bc)
	bounds["history_depth_per_wrapper_kind"] = bc
	r.Set("hist_states_per_kind", stateCounts)
	r.Set("hist_histories_per_kind", evalCounts)
	if !complete {
		r.Set("hist_complete", false)
	} else {
		r.Set("hist_complete", true)
	}
}
