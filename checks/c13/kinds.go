package c13

import (
	"reflect"
)

// Host types of part 2 (op histories).

type In struct{ X int }

type S struct {
	A  int
	B  string
	In In
}

type SP struct {
	A int
	P *In
	I interface{}
}

type SC struct {
	A   int
	L   []int
	Arr [2]int
	M   map[string]int
}

type SN struct { // narrow numeric kinds: conversions wrap like typed arrays
	I8  int8
	I16 int16
	U8  uint8
	U16 uint16
	U32 uint32
	F32 float32
	F64 float64
	Bo  bool
	St  string
}

type SL struct{ L []S }

type SA struct{ Arr [2]In }

type SU struct { // used with UncapFieldNameMapper / tag mapper
	Alpha int `json:"al"`
	Beta  In  `json:"be"`
}

// wkind is one wrapper kind = one BFS.
type wkind struct {
	name    string
	mk      func() interface{} // pointer to a fresh host variable
	byValue bool               // ToValue gets *p instead of p
	mapper  int
	probes  []string
	alpha   alphabet
	depthQ  int
	depthT  int
	ops     []*op
	// prefix: op names executed (in lock-step, like any op) at the start of every history of this kind
	prefix    []string
	prefixIdx []int
}

func sliceWithSpare[T any](xs ...T) []T {
	s := make([]T, len(xs), len(xs)+1)
	copy(s, xs)
	return s
}

func hostOf[T any](host reflect.Value) *T { return host.Addr().Interface().(*T) }

var (
	litS   = valDef{"{A:5,B:'b',In:{X:6}}", `{A:5,B:"b",In:{X:6}}`, func(*model) mval { return vObj("A", vInt(5), "B", vStr("b"), "In", vObj("X", vInt(6))) }}
	litS2  = valDef{"{A:1,B:'',In:{X:0}}", `{A:1,B:"",In:{X:0}}`, func(*model) mval { return vObj("A", vInt(1), "B", vStr(""), "In", vObj("X", vInt(0))) }}
	litIn  = valDef{"{X:6}", `{X:6}`, func(*model) mval { return vObj("X", vInt(6)) }}
	litA2  = valDef{"[8,9]", `[8,9]`, func(*model) mval { return vArr(vInt(8), vInt(9)) }}
	litA3  = valDef{"[1,2,3]", `[1,2,3]`, func(*model) mval { return vArr(vInt(1), vInt(2), vInt(3)) }}
	litMap = valDef{"{k:4}", `{k:4}`, func(*model) mval { return vObj("k", vInt(4)) }}
	litSU  = valDef{"{alpha:5,beta:{x:6}}", `{alpha:5,beta:{x:6}}`, func(*model) mval { return vObj("alpha", vInt(5), "beta", vObj("x", vInt(6))) }}
)

func ptr[T any](v T) *T { return &v }

func stdSplices(item *valDef) []spliceDef {
	return []spliceDef{{0, 1, nil}, {1, 1, nil}, {1, 0, item}, {0, 2, item}}
}

func allKinds() []*wkind {
	idx5 := keysIdx(5)
	var ks []*wkind

	// ---- struct pointer / struct value -----------------------------------------------------------
	structAlpha := func(goOps []goOp) alphabet {
		return alphabet{
			targets: []target{tgtW, tgtH0},
			keys:    []keyDef{kStr("A"), kStr("B"), kStr("In"), kStr("X"), kStr("Zz")},
			takes:   []int{0, 1}, reads: true, dels: true,
			vals:    []valDef{val7, valStrX, valNull, litS, litIn, valH0},
			defVals: []valDef{val7, litIn},
			goOps:   goOps,
		}
	}
	sGo := []goOp{
		{"A=9", "assign-field", func(h reflect.Value) { hostOf[S](h).A = 9 }},
		{"In={8}", "assign-field", func(h reflect.Value) { hostOf[S](h).In = In{8} }},
		{"*p=S{2,'q',{3}}", "assign-whole", func(h reflect.Value) { *hostOf[S](h) = S{2, "q", In{3}} }},
	}
	ks = append(ks, &wkind{name: "*struct", mk: func() interface{} { return &S{1, "s", In{2}} },
		probes: []string{"A", "B", "In", "X", "Zz"}, alpha: structAlpha(sGo), depthQ: 3, depthT: 5})
	ks = append(ks, &wkind{name: "struct-by-value", mk: func() interface{} { return &S{1, "s", In{2}} }, byValue: true,
		probes: []string{"A", "B", "In", "X", "Zz"}, alpha: structAlpha(sGo[:1]), depthQ: 2, depthT: 4})

	// field name mappers
	for _, mp := range []int{mapUncap, mapTag} {
		keys := []keyDef{kStr("alpha"), kStr("beta"), kStr("x"), kStr("Alpha")}
		lit := litSU
		probes := []string{"alpha", "beta", "Alpha", "al", "be", "x"}
		if mp == mapTag {
			keys = []keyDef{kStr("al"), kStr("be"), kStr("X"), kStr("Alpha")}
			lit = valDef{"{al:5,be:{X:6}}", `{al:5,be:{X:6}}`, func(*model) mval { return vObj("al", vInt(5), "be", vObj("X", vInt(6))) }}
		}
		ks = append(ks, &wkind{name: "*struct/" + mapperNames[mp], mapper: mp, mk: func() interface{} { return &SU{1, In{2}} },
			probes: probes,
			alpha: alphabet{targets: []target{tgtW, tgtH0}, keys: keys, takes: []int{0}, reads: true, dels: true,
				vals: []valDef{val7, lit, valH0}, defVals: []valDef{val7},
				goOps: []goOp{{"Alpha=9", "assign-field", func(h reflect.Value) { hostOf[SU](h).Alpha = 9 }}}},
			depthQ: 3, depthT: 4})
	}

	// narrow numeric fields
	ks = append(ks, &wkind{name: "*struct-numeric", mk: func() interface{} { return &SN{1, 2, 3, 4, 5, 1.5, 2.5, true, "s"} },
		probes: []string{"I8", "St"},
		alpha: alphabet{targets: []target{tgtW},
			keys:  []keyDef{kStr("I8"), kStr("I16"), kStr("U8"), kStr("U16"), kStr("U32"), kStr("F32"), kStr("F64"), kStr("Bo"), kStr("St")},
			reads: true,
			vals: []valDef{val300, valNeg, val1p5, vConst("70000", "70000", vInt(70000)), vConst("4294967301", "4294967301", vInt(4294967301)),
				vConst("-1e10", "-1e10", vInt(-1e10)), vConst("0.1", "0.1", vFloat(0.1)), vConst("NaN", "NaN", vFloat(nan())),
				vConst("Infinity", "Infinity", vFloat(inf())), valStr7, valStrX, valTrue, valNull, valUndef}},
		depthQ: 2, depthT: 2})

	// struct with pointer and interface fields
	ks = append(ks, &wkind{name: "*struct{ptr,iface}", mk: func() interface{} { return &SP{1, &In{2}, In{3}} },
		probes: []string{"A", "P", "I", "X"},
		alpha: alphabet{targets: []target{tgtW, tgtH0}, keys: []keyDef{kStr("A"), kStr("P"), kStr("I"), kStr("X")},
			takes: []int{0, 1}, reads: true, dels: true,
			vals: []valDef{val7, valNull, litIn, valH0, valH1, valStrX},
			goOps: []goOp{
				{"P=&In{4}", "assign-field", func(h reflect.Value) { hostOf[SP](h).P = &In{4} }},
				{"P=nil", "assign-field", func(h reflect.Value) { hostOf[SP](h).P = nil }},
				{"P.X=5", "assign-through-pointer", func(h reflect.Value) {
					if p := hostOf[SP](h).P; p != nil {
						p.X = 5
					}
				}},
				{"I=&In{6}", "assign-field", func(h reflect.Value) { hostOf[SP](h).I = &In{6} }},
				{"I=In{7}", "assign-field", func(h reflect.Value) { hostOf[SP](h).I = In{7} }},
			}},
		depthQ: 2, depthT: 4})

	// struct holding slice / array / map by value
	ks = append(ks, &wkind{name: "*struct{slice,array,map}", mk: func() interface{} {
		return &SC{1, sliceWithSpare(1, 2), [2]int{3, 4}, map[string]int{"k": 5}}
	},
		probes: []string{"A", "L", "Arr", "M", "0", "1", "2", "k"},
		alpha: alphabet{targets: []target{tgtW, tgtH0},
			keys:  []keyDef{kStr("L"), kStr("Arr"), kStr("M"), kIdx(0), kIdx(2), kStr("k")},
			takes: []int{0, 1}, reads: true, dels: true,
			vals:     []valDef{val7, litA2, litMap, valH0},
			pushVals: []valDef{val7}, arrayOps: true, splices: []spliceDef{{0, 1, nil}}, lens: []int{0, 3},
			goOps: []goOp{
				{"L=append(L,5)", "append", func(h reflect.Value) { p := hostOf[SC](h); p.L = append(p.L, 5) }},
				{"L=L[1:]", "reslice", func(h reflect.Value) {
					if p := hostOf[SC](h); len(p.L) > 0 {
						p.L = p.L[1:]
					}
				}},
				{"M[k]=9", "map-replace", func(h reflect.Value) {
					if p := hostOf[SC](h); p.M != nil {
						p.M["k"] = 9
					}
				}},
				{"M=map{z:1}", "assign-field", func(h reflect.Value) { hostOf[SC](h).M = map[string]int{"z": 1} }},
				{"Arr[0]=6", "assign-elem", func(h reflect.Value) { hostOf[SC](h).Arr[0] = 6 }},
			}},
		depthQ: 3, depthT: 4})

	// ---- maps --------------------------------------------------------------------------------------
	mapGo := func() []goOp {
		return []goOp{
			{"m[a]=9", "map-replace", func(h reflect.Value) {
				if m := *hostOf[map[string]int](h); m != nil {
					m["a"] = 9
				}
			}},
			{"delete(m,a)", "map-delete", func(h reflect.Value) { delete(*hostOf[map[string]int](h), "a") }},
			{"m[c]=1", "map-add", func(h reflect.Value) {
				if m := *hostOf[map[string]int](h); m != nil {
					m["c"] = 1
				}
			}},
		}
	}
	ks = append(ks, &wkind{name: "map[string]int", mk: func() interface{} { return ptr(map[string]int{"a": 1, "b": 2}) }, byValue: true,
		probes: []string{"a", "b", "c", "zz"},
		alpha: alphabet{targets: []target{tgtW}, keys: []keyDef{kStr("a"), kStr("b"), kStr("c"), kStr("zz")},
			takes: []int{0}, reads: true, dels: true, vals: []valDef{val7, val1p5, valStrX, valNull, litIn, valH0},
			defVals: []valDef{val7}, goOps: mapGo()},
		depthQ: 3, depthT: 6})
	ks = append(ks, &wkind{name: "*map[string]int", mk: func() interface{} { return ptr(map[string]int{"a": 1, "b": 2}) },
		probes: []string{"a", "b", "c"},
		alpha: alphabet{targets: []target{tgtW}, keys: []keyDef{kStr("a"), kStr("c")},
			takes: []int{0}, reads: true, dels: true, vals: []valDef{val7, valNull}, defVals: []valDef{val7},
			goOps: append(mapGo(), goOp{"*p=map{z:3}", "assign-whole", func(h reflect.Value) { *hostOf[map[string]int](h) = map[string]int{"z": 3} }})},
		depthQ: 4, depthT: 6})
	ks = append(ks, &wkind{name: "nil map[string]int", mk: func() interface{} { return ptr(map[string]int(nil)) }, byValue: true,
		probes: []string{"a"},
		alpha: alphabet{targets: []target{tgtW}, keys: []keyDef{kStr("a")}, takes: []int{0}, reads: true, dels: true,
			vals: []valDef{val7}, defVals: []valDef{val7}},
		depthQ: 2, depthT: 3})
	ks = append(ks, &wkind{name: "map[string]struct", mk: func() interface{} { return ptr(map[string]S{"a": {1, "s", In{2}}, "b": {3, "t", In{4}}}) }, byValue: true,
		probes: []string{"a", "b", "A", "In"},
		alpha: alphabet{targets: []target{tgtW, tgtH0}, keys: []keyDef{kStr("a"), kStr("b"), kStr("A"), kStr("In")},
			takes: []int{0, 1}, reads: true, dels: true, vals: []valDef{val7, litS, litIn, valH0, valH1, valNull},
			goOps: []goOp{{"m[a]=S{9}", "map-replace", func(h reflect.Value) { (*hostOf[map[string]S](h))["a"] = S{9, "n", In{9}} }}}},
		depthQ: 2, depthT: 4})
	ks = append(ks, &wkind{name: "map[string]*struct", mk: func() interface{} {
		return ptr(map[string]*S{"a": {1, "s", In{2}}, "b": {3, "t", In{4}}, "n": nil})
	}, byValue: true,
		probes: []string{"a", "b", "n", "A", "In"},
		alpha: alphabet{targets: []target{tgtW, tgtH0}, keys: []keyDef{kStr("a"), kStr("n"), kStr("A"), kStr("In")},
			takes: []int{0, 1}, reads: true, dels: true, vals: []valDef{val7, litS, litIn, valH0, valH1, valNull},
			goOps: []goOp{
				{"m[a]=&S{9}", "map-replace", func(h reflect.Value) { (*hostOf[map[string]*S](h))["a"] = &S{9, "n", In{9}} }},
				{"m[a].A=8", "assign-through-pointer", func(h reflect.Value) {
					if p := (*hostOf[map[string]*S](h))["a"]; p != nil {
						p.A = 8
					}
				}},
			}},
		depthQ: 2, depthT: 4})
	ks = append(ks, &wkind{name: "map[int]int", mk: func() interface{} { return ptr(map[int]int{0: 1, 1: 2, -2: 3}) }, byValue: true,
		probes: []string{"0", "1", "-2", "5"},
		alpha: alphabet{targets: []target{tgtW}, keys: []keyDef{kIdx(0), kIdxS(1), kNeg("-2"), kStr("-2"), kIdx(5)},
			takes: []int{0}, reads: true, dels: true, vals: []valDef{val7, val1p5, valNull}, defVals: []valDef{val7},
			goOps: []goOp{{"m[0]=9", "map-replace", func(h reflect.Value) { (*hostOf[map[int]int](h))[0] = 9 }},
				{"delete(m,1)", "map-delete", func(h reflect.Value) { delete(*hostOf[map[int]int](h), 1) }}}},
		depthQ: 3, depthT: 6})
	ks = append(ks, &wkind{name: "map[float64]string", mk: func() interface{} { return ptr(map[float64]string{0: "z", 1.5: "a", 2: "b", -0.25: "n"}) }, byValue: true,
		probes: []string{"0", "1.5", "2", "-0.25", "3"},
		alpha: alphabet{targets: []target{tgtW}, keys: []keyDef{kIdx(0), kNum("1.5"), kStr("1.5"), kIdx(2), kNeg("-0.25"), kIdx(3)},
			takes: []int{0}, reads: true, dels: true, vals: []valDef{val7, valStrX, valNull}, defVals: []valDef{valStrX},
			goOps: []goOp{{"m[1.5]=q", "map-replace", func(h reflect.Value) { (*hostOf[map[float64]string](h))[1.5] = "q" }}}},
		depthQ: 3, depthT: 4})
	ks = append(ks, &wkind{name: "map[uint8]int", mk: func() interface{} { return ptr(map[uint8]int{0: 1, 200: 2}) }, byValue: true,
		probes: []string{"0", "200", "7"},
		alpha: alphabet{targets: []target{tgtW}, keys: []keyDef{kIdx(0), kIdx(200), kIdx(7)},
			takes: []int{0}, reads: true, dels: true, vals: []valDef{val7, valNull}, defVals: []valDef{val7}},
		depthQ: 3, depthT: 4})

	// ---- slices ------------------------------------------------------------------------------------
	intSliceAlpha := func(goOps []goOp) alphabet {
		return alphabet{targets: []target{tgtW}, keys: idx5, takes: []int{0}, reads: true, dels: true,
			vals: []valDef{val7, valStrX, valNull, valH0}, defVals: []valDef{val7},
			pushVals: []valDef{val7}, arrayOps: true, splices: stdSplices(&val7), lens: []int{0, 1, 4}, goOps: goOps}
	}
	intSliceGo := []goOp{
		{"s[0]=9", "assign-elem", func(h reflect.Value) {
			if s := *hostOf[[]int](h); len(s) > 0 {
				s[0] = 9
			}
		}},
		{"s=append(s,5)", "append", func(h reflect.Value) { p := hostOf[[]int](h); *p = append(*p, 5) }},
		{"s=s[1:]", "reslice", func(h reflect.Value) {
			if p := hostOf[[]int](h); len(*p) > 0 {
				*p = (*p)[1:]
			}
		}},
		{"s=s[:len-1]", "reslice", func(h reflect.Value) {
			if p := hostOf[[]int](h); len(*p) > 0 {
				*p = (*p)[:len(*p)-1]
			}
		}},
	}
	ks = append(ks, &wkind{name: "*[]int", mk: func() interface{} { return ptr(sliceWithSpare(3, 1, 2)) },
		probes: []string{"0", "2", "3", "4", "length"}, alpha: intSliceAlpha(intSliceGo), depthQ: 3, depthT: 5})
	ks = append(ks, &wkind{name: "[]int-by-value", mk: func() interface{} { return ptr(sliceWithSpare(3, 1, 2)) }, byValue: true,
		probes: []string{"0", "2", "3", "4", "length"}, alpha: intSliceAlpha(intSliceGo[:2]), depthQ: 3, depthT: 5})
	ks = append(ks, &wkind{name: "nil []int", mk: func() interface{} { return ptr([]int(nil)) }, byValue: true,
		probes: []string{"0", "length"},
		alpha: alphabet{targets: []target{tgtW}, keys: keysIdx(2), takes: []int{0}, reads: true, dels: true,
			vals: []valDef{val7}, defVals: []valDef{val7}, pushVals: []valDef{val7}, arrayOps: true, lens: []int{0, 2}},
		depthQ: 2, depthT: 3})

	structSliceGo := []goOp{
		{"s[0]=S{9}", "assign-elem", func(h reflect.Value) {
			if s := *hostOf[[]S](h); len(s) > 0 {
				s[0] = S{9, "n", In{9}}
			}
		}},
		{"s[0].A=8", "assign-field", func(h reflect.Value) {
			if s := *hostOf[[]S](h); len(s) > 0 {
				s[0].A = 8
			}
		}},
		{"s=append(s,S{0})", "append", func(h reflect.Value) { p := hostOf[[]S](h); *p = append(*p, S{0, "a", In{0}}) }},
		{"s=s[1:]", "reslice", func(h reflect.Value) {
			if p := hostOf[[]S](h); len(*p) > 0 {
				*p = (*p)[1:]
			}
		}},
	}
	mkSS := func() interface{} {
		return ptr(sliceWithSpare(S{3, "c", In{30}}, S{1, "a", In{10}}, S{2, "b", In{20}}))
	}
	// the copy-on-change arena, script ops only
	ks = append(ks, &wkind{name: "*[]struct", mk: mkSS, probes: []string{"0", "2", "3", "A", "In", "length"},
		alpha: alphabet{targets: []target{tgtW, tgtH0}, keys: []keyDef{kIdx(0), kIdx(1), kIdx(3), kStr("A")},
			takes: []int{0, 1}, reads: true, dels: true,
			vals: []valDef{val7, litS, valH0, valWKey(kIdx(1))}, defVals: []valDef{litS},
			pushVals: []valDef{litS2, valH0}, arrayOps: true, splices: stdSplices(&litS2), lens: []int{0, 1, 5}},
		depthQ: 3, depthT: 5})
	// the same with nested access (h1 = h0.In) and fewer ops
	ks = append(ks, &wkind{name: "*[]struct/nested", mk: mkSS, probes: []string{"0", "A", "In", "X"},
		alpha: alphabet{targets: []target{tgtW, tgtH0, tgtH1}, keys: []keyDef{kIdx(0), kIdx(1), kStr("In"), kStr("X")},
			takes: []int{0, 1}, reads: true, dels: true,
			vals: []valDef{val7, litS, litIn, valH0}, arrayOps: true, lens: []int{1, 5}},
		depthQ: 3, depthT: 5})
	// Go-side mutations interleaved
	ks = append(ks, &wkind{name: "*[]struct/go", mk: mkSS, probes: []string{"0", "2", "3", "A"},
		alpha: alphabet{targets: []target{tgtW, tgtH0}, keys: []keyDef{kIdx(0), kIdx(1), kStr("A")},
			takes: []int{0}, reads: true, vals: []valDef{val7, litS, valH0}, pushVals: []valDef{litS2}, arrayOps: true, lens: []int{1},
			goOps: structSliceGo},
		depthQ: 3, depthT: 5})
	ks = append(ks, &wkind{name: "[]struct-by-value", mk: mkSS, byValue: true, probes: []string{"0", "2", "3", "A"},
		alpha: alphabet{targets: []target{tgtW, tgtH0}, keys: []keyDef{kIdx(0), kIdx(3), kStr("A")},
			takes: []int{0}, reads: true, dels: true, vals: []valDef{val7, litS, valH0}, pushVals: []valDef{litS2}, arrayOps: true, lens: []int{1, 5},
			goOps: structSliceGo[:3]},
		depthQ: 3, depthT: 4})

	// more than 20 elements: sort.Stable leaves insertion sort and rotates blocks, swapping elements whose
	// wrappers were never created (partially filled wrapper cache)
	ks = append(ks, &wkind{name: "*[]struct/26-sort", mk: func() interface{} {
		s := make([]S, 0, 27)
		for i := 0; i < 26; i++ {
			a := (i*7 + 3) % 26
			s = append(s, S{a, string(rune('a' + a)), In{a * 10}})
		}
		return &s
	}, probes: []string{"0", "25", "26"},
		alpha: alphabet{targets: []target{tgtW, tgtH0}, keys: []keyDef{kIdx(0), kIdx(12), kIdx(25), kStr("A")},
			takes: []int{0, 1}, vals: []valDef{val7, valH0}, arrayOps: true},
		depthQ: 2, depthT: 3})
	ks = append(ks, &wkind{name: "*[]*struct", mk: func() interface{} {
		return ptr(sliceWithSpare(&S{3, "c", In{30}}, &S{1, "a", In{10}}, nil))
	}, probes: []string{"0", "2", "3", "A"},
		alpha: alphabet{targets: []target{tgtW, tgtH0}, keys: []keyDef{kIdx(0), kIdx(2), kIdx(3), kStr("A"), kStr("In")},
			takes: []int{0, 1}, reads: true, dels: true, vals: []valDef{val7, litS, litIn, valH0, valH1, valNull},
			pushVals: []valDef{valH0, valNull}, arrayOps: true, splices: []spliceDef{{0, 1, nil}}, lens: []int{1, 4},
			goOps: []goOp{
				{"s[0]=&S{9}", "assign-elem", func(h reflect.Value) {
					if s := *hostOf[[]*S](h); len(s) > 0 {
						s[0] = &S{9, "n", In{9}}
					}
				}},
				{"s[0].A=8", "assign-through-pointer", func(h reflect.Value) {
					if s := *hostOf[[]*S](h); len(s) > 0 && s[0] != nil {
						s[0].A = 8
					}
				}},
			}},
		depthQ: 2, depthT: 4})

	ks = append(ks, &wkind{name: "*[][]int", mk: func() interface{} {
		return ptr(sliceWithSpare(sliceWithSpare(3, 4), sliceWithSpare(1), nil))
	}, probes: []string{"0", "1", "2", "3", "length"},
		alpha: alphabet{targets: []target{tgtW, tgtH0}, keys: []keyDef{kIdx(0), kIdx(1), kIdx(3)},
			takes: []int{0, 1}, reads: true, dels: true, vals: []valDef{val7, litA2, valH0},
			pushVals: []valDef{litA2}, arrayOps: true, splices: []spliceDef{{0, 1, nil}}, lens: []int{0, 1},
			goOps: []goOp{
				{"s[0]=append(s[0],6)", "append", func(h reflect.Value) {
					if s := *hostOf[[][]int](h); len(s) > 0 {
						s[0] = append(s[0], 6)
					}
				}},
				{"s[0][0]=5", "assign-elem", func(h reflect.Value) {
					if s := *hostOf[[][]int](h); len(s) > 0 && len(s[0]) > 0 {
						s[0][0] = 5
					}
				}},
			}},
		depthQ: 3, depthT: 4})

	ks = append(ks, &wkind{name: "*[][2]int", mk: func() interface{} { return ptr(sliceWithSpare([2]int{3, 4}, [2]int{1, 2})) },
		probes: []string{"0", "1", "2", "3"},
		alpha: alphabet{targets: []target{tgtW, tgtH0}, keys: []keyDef{kIdx(0), kIdx(1), kIdx(2)},
			takes: []int{0, 1}, reads: true, dels: true, vals: []valDef{val7, litA2, litA3, valH0},
			pushVals: []valDef{litA2}, arrayOps: true, lens: []int{1}},
		depthQ: 3, depthT: 4})

	// ---- fixed-size arrays -------------------------------------------------------------------------
	arrAlpha := alphabet{targets: []target{tgtW}, keys: idx5, takes: []int{0}, reads: true, dels: true,
		vals: []valDef{val7, valStrX, valNull}, defVals: []valDef{val7}, pushVals: []valDef{val7}, arrayOps: true,
		splices: stdSplices(&val7), lens: []int{0, 3, 4},
		goOps: []goOp{{"a[0]=9", "assign-elem", func(h reflect.Value) { hostOf[[3]int](h)[0] = 9 }}}}
	ks = append(ks, &wkind{name: "*[3]int", mk: func() interface{} { return &[3]int{3, 1, 2} },
		probes: []string{"0", "2", "3", "4", "length"}, alpha: arrAlpha, depthQ: 3, depthT: 5})
	ks = append(ks, &wkind{name: "[3]int-by-value", mk: func() interface{} { return &[3]int{3, 1, 2} }, byValue: true,
		probes: []string{"0", "2", "3", "4", "length"}, alpha: arrAlpha, depthQ: 2, depthT: 3})
	ks = append(ks, &wkind{name: "*[2]struct", mk: func() interface{} { return &[2]S{{3, "c", In{30}}, {1, "a", In{10}}} },
		probes: []string{"0", "1", "2", "A"},
		alpha: alphabet{targets: []target{tgtW, tgtH0}, keys: []keyDef{kIdx(0), kIdx(1), kIdx(2), kStr("A")},
			takes: []int{0, 1}, reads: true, dels: true, vals: []valDef{val7, litS, valH0, valH1, valNull}, defVals: []valDef{litS},
			pushVals: []valDef{litS2}, arrayOps: true, splices: []spliceDef{{0, 1, nil}}, lens: []int{2},
			goOps: []goOp{{"a[0]=S{9}", "assign-elem", func(h reflect.Value) { hostOf[[2]S](h)[0] = S{9, "n", In{9}} }}}},
		depthQ: 3, depthT: 5})

	// ---- []interface{} / map[string]interface{} ----------------------------------------------------
	mkIS := func() interface{} {
		return ptr(sliceWithSpare[interface{}](int64(3), "s", In{2}, &In{4}, sliceWithSpare[interface{}](int64(5)), map[string]interface{}{"k": int64(6)}))
	}
	isAlpha := func(goOps []goOp) alphabet {
		return alphabet{targets: []target{tgtW, tgtH0}, keys: []keyDef{kIdx(0), kIdx(2), kIdx(3), kIdx(4), kIdx(5), kIdx(7), kStr("X"), kStr("k")},
			takes: []int{0}, reads: true, dels: true, vals: []valDef{val7, val1p5, valStrX, valNull, litIn, litA2, valH0},
			defVals: []valDef{val7}, pushVals: []valDef{val7}, arrayOps: true, splices: []spliceDef{{0, 1, nil}, {1, 0, &val7}}, lens: []int{1, 7},
			goOps: goOps}
	}
	isGo := []goOp{
		{"s[0]=9", "assign-elem", func(h reflect.Value) {
			if s := *hostOf[[]interface{}](h); len(s) > 0 {
				s[0] = int64(9)
			}
		}},
		{"s=append(s,8)", "append", func(h reflect.Value) { p := hostOf[[]interface{}](h); *p = append(*p, int64(8)) }},
		{"s=s[1:]", "reslice", func(h reflect.Value) {
			if p := hostOf[[]interface{}](h); len(*p) > 0 {
				*p = (*p)[1:]
			}
		}},
	}
	ks = append(ks, &wkind{name: "*[]interface{}", mk: mkIS, probes: []string{"0", "5", "6", "7", "length"}, alpha: isAlpha(isGo), depthQ: 2, depthT: 3})
	ks = append(ks, &wkind{name: "[]interface{}-by-value", mk: mkIS, byValue: true, probes: []string{"0", "5", "6", "7", "length"}, alpha: isAlpha(isGo[:2]), depthQ: 2, depthT: 3})
	ks = append(ks, &wkind{name: "map[string]interface{}", mk: func() interface{} {
		return ptr(map[string]interface{}{"n": int64(1), "s": In{2}, "p": &In{3}, "l": sliceWithSpare[interface{}](int64(4)), "m": map[string]interface{}{"k": int64(5)}, "z": nil})
	}, byValue: true, probes: []string{"n", "s", "p", "l", "m", "z", "q"},
		alpha: alphabet{targets: []target{tgtW, tgtH0}, keys: []keyDef{kStr("n"), kStr("s"), kStr("p"), kStr("l"), kStr("m"), kStr("q"), kStr("X"), kIdx(0)},
			takes: []int{0}, reads: true, dels: true, vals: []valDef{val7, valNull, litIn, valH0, valW}, defVals: []valDef{val7},
			goOps: []goOp{{"m[n]=9", "map-replace", func(h reflect.Value) { (*hostOf[map[string]interface{}](h))["n"] = int64(9) }},
				{"delete(m,s)", "map-delete", func(h reflect.Value) { delete(*hostOf[map[string]interface{}](h), "s") }}}},
		depthQ: 2, depthT: 3})

	// ---- nested combinations -----------------------------------------------------------------------
	ks = append(ks, &wkind{name: "*struct{[]struct}", mk: func() interface{} { return &SL{sliceWithSpare(S{3, "c", In{30}}, S{1, "a", In{10}})} },
		probes: []string{"L", "0", "1", "A"},
		alpha: alphabet{targets: []target{tgtW, tgtH0, tgtH1}, keys: []keyDef{kStr("L"), kIdx(0), kIdx(1), kStr("A")},
			takes: []int{0, 1}, reads: true, dels: true, vals: []valDef{val7, litS, valH0, valH1, valNull}, arrayOps: true, lens: []int{1, 3},
			goOps: []goOp{{"L=append(L,S{0})", "append", func(h reflect.Value) { p := hostOf[SL](h); p.L = append(p.L, S{0, "z", In{0}}) }},
				{"L=nil", "assign-field", func(h reflect.Value) { hostOf[SL](h).L = nil }}}},
		depthQ: 3, depthT: 4})
	ks = append(ks, &wkind{name: "*[]struct{[2]struct}", mk: func() interface{} { return ptr(sliceWithSpare(SA{[2]In{{3}, {4}}}, SA{[2]In{{1}, {2}}})) },
		probes: []string{"0", "1", "Arr", "X"},
		alpha: alphabet{targets: []target{tgtW, tgtH0, tgtH1}, keys: []keyDef{kIdx(0), kIdx(1), kStr("Arr"), kStr("X")},
			takes: []int{0, 1}, reads: true, dels: true, vals: []valDef{val7, litIn, valH0, valH1, valNull}, arrayOps: true, lens: []int{1, 3}},
		depthQ: 3, depthT: 4})
	ks = append(ks, &wkind{name: "map[string][]int", mk: func() interface{} { return ptr(map[string][]int{"a": sliceWithSpare(1, 2), "n": nil}) }, byValue: true,
		probes: []string{"a", "n", "0", "2"},
		alpha: alphabet{targets: []target{tgtW, tgtH0}, keys: []keyDef{kStr("a"), kStr("n"), kIdx(0), kIdx(2)},
			takes: []int{0, 1}, reads: true, dels: true, vals: []valDef{val7, litA2, valH0, valNull}, pushVals: []valDef{val7}, arrayOps: true, lens: []int{0},
			goOps: []goOp{{"m[a][0]=9", "assign-elem", func(h reflect.Value) {
				if s := (*hostOf[map[string][]int](h))["a"]; len(s) > 0 {
					s[0] = 9
				}
			}}}},
		depthQ: 2, depthT: 4})

	// ---- shrink / regrow with element wrappers already handed out --------------------------------
	// Every history starts after all element wrappers were read (so goja's per-index cache is full), then
	// shrinks (length= below / above the held indices, pop, splice), regrows (length=, push, index assignment,
	// Go-side append; within capacity and re-allocating) and reads in DESCENDING as well as ascending order:
	// a higher index touched first re-extends the cache over whatever the shrink left behind.
	regrow := func(goOps []goOp, push valDef, vals []valDef, keys []keyDef) alphabet {
		return alphabet{targets: []target{tgtW}, keys: keys, takes: []int{0}, reads: true,
			vals: vals, pushVals: []valDef{push}, arrayOps: true, readAll: true, splices: []spliceDef{{1, 2, nil}},
			lens: []int{0, 1, 2, 4, 7}, goOps: goOps}
	}
	ks = append(ks, &wkind{name: "*[]struct/regrow", mk: func() interface{} {
		s := make([]In, 4, 6)
		copy(s, []In{{10}, {11}, {12}, {13}})
		return &s
	}, probes: []string{"0", "3", "4", "X"}, prefix: []string{"readall-asc w"},
		alpha: regrow([]goOp{
			{"s=append(s,In{5})", "append", func(h reflect.Value) { p := hostOf[[]In](h); *p = append(*p, In{5}) }},
			{"s[1].X=8", "assign-field", func(h reflect.Value) {
				if s := *hostOf[[]In](h); len(s) > 1 {
					s[1].X = 8
				}
			}},
			{"s[2].X=9", "assign-field", func(h reflect.Value) {
				if s := *hostOf[[]In](h); len(s) > 2 {
					s[2].X = 9
				}
			}},
		}, litIn, []valDef{val7, litIn}, []keyDef{kIdx(1), kIdx(3), kIdx(5), kStr("X")}),
		depthQ: 4, depthT: 5})
	ks = append(ks, &wkind{name: "*[][2]int/regrow", mk: func() interface{} {
		s := make([][2]int, 4, 6)
		copy(s, [][2]int{{10, 0}, {11, 1}, {12, 2}, {13, 3}})
		return &s
	}, probes: []string{"0", "3", "4"}, prefix: []string{"readall-asc w"},
		alpha: regrow([]goOp{
			{"s=append(s,[2]int{5,5})", "append", func(h reflect.Value) { p := hostOf[[][2]int](h); *p = append(*p, [2]int{5, 5}) }},
			{"s[2][0]=9", "assign-elem", func(h reflect.Value) {
				if s := *hostOf[[][2]int](h); len(s) > 2 {
					s[2][0] = 9
				}
			}},
		}, litA2, []valDef{val7}, []keyDef{kIdx(0), kIdx(2), kIdx(3)}),
		depthQ: 3, depthT: 5})
	ks = append(ks, &wkind{name: "*[][]int/regrow", mk: func() interface{} {
		s := make([][]int, 4, 6)
		copy(s, [][]int{{10}, {11}, {12}, {13}})
		return &s
	}, probes: []string{"0", "3", "4"}, prefix: []string{"readall-asc w"},
		alpha: regrow([]goOp{
			{"s=append(s,[]int{5})", "append", func(h reflect.Value) { p := hostOf[[][]int](h); *p = append(*p, []int{5}) }},
			{"s[2][0]=9", "assign-elem", func(h reflect.Value) {
				if s := *hostOf[[][]int](h); len(s) > 2 && len(s[2]) > 0 {
					s[2][0] = 9
				}
			}},
		}, litA2, []valDef{val7}, []keyDef{kIdx(0), kIdx(2), kIdx(3)}),
		depthQ: 3, depthT: 5})

	for _, k := range ks {
		k.ops = buildOps(&k.alpha)
		for _, n := range k.prefix {
			found := -1
			for i, o := range k.ops {
				if o.name == n {
					found = i
				}
			}
			if found < 0 {
				panic("c13: unknown prefix op " + n + " in kind " + k.name)
			}
			k.prefixIdx = append(k.prefixIdx, found)
		}
	}
	return ks
}
