package c13

import (
	"fmt"
	"math"
	"math/big"
	"reflect"

	"verif/core"

	"github.com/dop251/goja"
)

// Part 1 oracle, for one Go value x (of static type T) and one FieldNameMapper:
//
//	v := ToValue(x)                                   never panics
//	D(v)            == jsView(x)                      the script sees exactly the Go value (names, nil -> null, ...)
//	v.Export()      is x                              same pointer / map / slice / func for reference kinds, == for
//	                                                  comparable values, numerically equal for numbers
//	ExportTo(v,&T{}) deep-equals x                    (NaN-aware, same sharing shape)
//	ToValue(p) === ToValue(p)                         for pointers to structs

type ShapeCase struct {
	Part   string `json:"part"`
	Desc   string `json:"desc"`
	Value  int    `json:"value"`
	Mapper int    `json:"mapper"`
	Dump   string `json:"go_value,omitempty"`
}

type p1rt struct {
	rt [3]*goja.Runtime
	d  [3]goja.Callable
}

func (p *p1rt) get(mapper int) (*goja.Runtime, goja.Callable) {
	if p.rt[mapper] == nil {
		p.rt[mapper] = newRuntime(mapper)
		p.d[mapper], _ = goja.AssertFunction(p.rt[mapper].Get("D"))
	}
	return p.rt[mapper], p.d[mapper]
}

func (p *p1rt) drop(mapper int) { p.rt[mapper] = nil }

type p1fail struct{ sig, what string }

func kindClass(t reflect.Type) string {
	if t == nil {
		return "nil"
	}
	k := t.Kind().String()
	if t.PkgPath() != "" && t.Kind() != reflect.Struct {
		k = "named-" + k
	}
	if t == typBigIntPtr {
		k = "*big.Int"
	}
	if t.Kind() == reflect.Ptr && t != typBigIntPtr {
		k = "ptr-to-" + t.Elem().Kind().String()
	}
	return k
}

func numEqual(e interface{}, x reflect.Value) bool {
	var want float64
	switch x.Kind() {
	case reflect.Int, reflect.Int8, reflect.Int16, reflect.Int32, reflect.Int64:
		want = float64(x.Int())
	case reflect.Uint, reflect.Uint8, reflect.Uint16, reflect.Uint32, reflect.Uint64:
		want = float64(x.Uint())
	default:
		want = x.Float()
	}
	switch g := e.(type) {
	case int64:
		return float64(g) == want && !(want == 0 && math.Signbit(want))
	case float64:
		if math.IsNaN(want) {
			return math.IsNaN(g)
		}
		return g == want && math.Signbit(g) == math.Signbit(want)
	}
	return false
}

// checkValue evaluates the part-1 oracle.
func checkValue(p *p1rt, x reflect.Value, mapper int, noView bool) (fails []p1fail, outcome string) {
	rt, dfn := p.get(mapper)
	t := x.Type()
	cls := kindClass(t)
	var xi interface{}
	if x.Kind() == reflect.Interface {
		if !x.IsNil() {
			xi = x.Elem().Interface()
			x = x.Elem()
			t = x.Type()
			cls = kindClass(t)
		}
	} else {
		xi = x.Interface()
	}
	add := func(sig, what string) { fails = append(fails, p1fail{sig, what}) }
	if ptrTo(x, reflect.Func) {
		return nil, "skipped:pointer-to-func" // not a documented shape: the pointer is silently dereferenced
	}
	var v goja.Value
	if pan := catch(func() { v = rt.ToValue(xi) }); pan != "" {
		p.drop(mapper)
		add("host-panic|ToValue|"+cls+"|"+normPanic(pan), "ToValue panics: "+pan)
		return fails, "panic"
	}
	vw := viewer{mapper}
	want := vw.view(x, 0)
	if xi == nil {
		want = "null"
	}
	outcome = cls
	// script view
	if !noView {
		got, pan := callImpl(dfn, v)
		if pan != "" {
			p.drop(mapper)
			rt, dfn = p.get(mapper)
			v = rt.ToValue(xi)
			if hasNilEmbedded(x) {
				add("host-panic|read-promoted-field-of-nil-embedded-pointer|"+normPanic(pan), "reading a field promoted through a nil embedded pointer panics the host: "+pan)
			} else {
				add("host-panic|read|"+cls+"|"+normPanic(pan), "reading the wrapper from script panics: "+pan)
			}
		} else if got != want {
			add("view|"+cls+"|mapper="+mapperNames[mapper], fmt.Sprintf("script sees %s, the Go value is %s", clip(got), clip(want)))
		}
	}
	// Export
	var e interface{}
	if pan := catch(func() { e = v.Export() }); pan != "" {
		add("host-panic|Export|"+cls+"|"+normPanic(pan), "Export panics: "+pan)
		return fails, "panic"
	}
	ev := reflect.ValueOf(e)
	bad := func(why string) {
		add("export|"+cls+"|"+why, fmt.Sprintf("ToValue(%s).Export(): %s (got %T %s)", t, why, e, clip(goDump(ev))))
	}
	switch {
	case xi == nil:
		if e != nil {
			bad("nil does not come back as nil")
		}
	case ptrChainNil(x):
		// a non-nil pointer whose chain of pointers ends in a nil pointer
		if e == nil {
			add("export|pointer-to-nil-pointer|collapses-to-null", fmt.Sprintf("ToValue(%s: non-nil pointer to a nil pointer) is null, so Export() returns nil instead of the pointer", t))
			return fails, outcome
		}
		if ev.Kind() != reflect.Ptr || ev.Pointer() != x.Pointer() {
			bad("not the same pointer")
		}
	case t == typBigIntPtr:
		g, ok := e.(*big.Int)
		w := x.Interface().(*big.Int)
		if w == nil {
			w = new(big.Int)
		}
		if !ok || g == nil || g.Cmp(w) != 0 {
			bad("big.Int value differs")
		}
	case want == "null" && (x.Kind() == reflect.Ptr || t == typIfMap):
		if e != nil {
			bad("nil pointer does not come back as nil")
		}
	case isExactPrim(t) && (x.Kind() == reflect.Bool || x.Kind() == reflect.String):
		if e != x.Interface() {
			bad("primitive differs")
		}
	case isExactPrim(t) && x.Kind() != reflect.Uintptr && x.Kind() != reflect.Complex64 && x.Kind() != reflect.Complex128:
		if !numEqual(e, x) {
			bad("number differs")
		}
	default:
		if ev.IsValid() && ev.Type() != t {
			bad("type differs")
			break
		}
		if !ev.IsValid() {
			bad("nil")
			break
		}
		switch x.Kind() {
		case reflect.Ptr, reflect.Map, reflect.Func, reflect.Chan, reflect.UnsafePointer:
			if ev.Pointer() != x.Pointer() {
				bad("not the same " + x.Kind().String())
			}
		case reflect.Slice:
			if ev.IsNil() != x.IsNil() || ev.Len() != x.Len() || ev.Cap() != x.Cap() || ev.Pointer() != x.Pointer() {
				bad("not the same slice")
			}
		default:
			if goDump(ev) != goDump(x) {
				bad("value differs")
			}
		}
	}
	// ExportTo into a fresh variable of the value's own type
	if xi != nil {
		dst := reflect.New(t)
		var err error
		if pan := catch(func() { err = rt.ExportTo(v, dst.Interface()) }); pan != "" {
			add("host-panic|ExportTo|"+cls+"|"+normPanic(pan), "ExportTo into the value's own type panics: "+pan)
			return fails, "panic"
		}
		if err != nil {
			add("exportTo|"+cls+"|error", fmt.Sprintf("ExportTo(ToValue(x), *%s) fails: %v", t, err))
		} else if g, w := goDump(dst.Elem()), goDump(x); g != w {
			add("exportTo|"+cls+"|not-deep-equal", fmt.Sprintf("ExportTo(ToValue(x), *%s) = %s, want %s", t, clip(g), clip(w)))
		}
	}
	// wrapper equality
	if x.Kind() == reflect.Ptr && !x.IsNil() && x.Elem().Kind() == reflect.Struct && t != typBigIntPtr {
		if !v.StrictEquals(rt.ToValue(xi)) {
			add("identity|ptr-to-struct|two wrappers of one pointer are not ===", fmt.Sprintf("ToValue(p) !== ToValue(p) for %s", t))
		}
	}
	return
}

func ptrChainNil(x reflect.Value) bool {
	if x.Kind() != reflect.Ptr || x.IsNil() || x.Type() == typBigIntPtr {
		return false
	}
	for e := x.Elem(); e.Kind() == reflect.Ptr; e = e.Elem() {
		if e.IsNil() {
			return true
		}
	}
	return false
}

func ptrTo(x reflect.Value, k reflect.Kind) bool {
	t := x.Type()
	if t.Kind() != reflect.Ptr || t == typBigIntPtr {
		return false
	}
	for t.Kind() == reflect.Ptr && t != typBigIntPtr {
		t = t.Elem()
	}
	return t.Kind() == k
}

func catch(f func()) (pan string) {
	defer func() {
		if x := recover(); x != nil {
			pan = fmt.Sprintf("%T: %v", x, x)
		}
	}()
	f()
	return
}

type shapeJob struct {
	sh    shape
	value int
}

// runShapes enumerates all shapes up to the tier's nesting bound x pool values x mappers.
func runShapes(r *core.Run) {
	maxDepth := r.Pick(2, 3)
	workers := make([]*p1rt, r.Workers)
	for i := range workers {
		workers[i] = &p1rt{}
	}
	level := leafShapes
	completed := -1
	var nTypes, nVals int64
	for d := 0; d <= maxDepth; d++ {
		if d > 0 {
			level = nextLevel(level)
		}
		lv := level
		ok := r.Parallel(int64(len(lv)), 8, func(worker int, lo, hi int64) {
			p := workers[worker]
			for i := lo; i < hi; i++ {
				sh := lv[i]
				vals := pool(sh.t, 0)
				for vi, x := range vals {
					for mapper := 0; mapper < 3; mapper++ {
						if mapper > 0 && !hasStruct(sh.t) {
							continue // field name mappers only matter where a struct occurs
						}
						fails, outcome := checkValue(p, x, mapper, false)
						r.Eval(1)
						r.Outcome("shape:" + outcome)
						for _, f := range fails {
							r.Violation(f.sig, fmt.Sprintf("type %s value #%d mapper %s: %s", sh.desc, vi, mapperNames[mapper], f.what),
								ShapeCase{Part: "shape", Desc: sh.desc, Value: vi, Mapper: mapper, Dump: clip(goDump(x))})
						}
					}
				}
				if r.WantSample(i) && d == maxDepth {
					r.Sample(map[string]interface{}{"part": "shape", "type": sh.desc, "values": len(vals)})
				}
			}
		})
		if !ok {
			break
		}
		completed = d
		nTypes += int64(len(lv))
		for range lv {
			nVals++
		}
		r.NontrivialN(int64(len(lv)))
	}
	r.Set("shape_nesting_completed", completed)
	bounds["type_nesting"] = completed
	r.Set("shape_types", nTypes)
	// catalogue
	p := workers[0]
	for _, ce := range catalogue() {
		for mapper := 0; mapper < 3; mapper++ {
			x := reflect.ValueOf(ce.mk())
			fails, outcome := checkValue(p, x, mapper, ce.noView)
			r.Eval(1)
			r.NontrivialN(1)
			r.Outcome("cat:" + outcome)
			for _, f := range fails {
				r.Violation(f.sig, fmt.Sprintf("catalogue type %s mapper %s: %s", ce.name, mapperNames[mapper], f.what),
					ShapeCase{Part: "catalogue", Desc: ce.name, Mapper: mapper})
			}
		}
	}
	r.Set("catalogue_types", len(catalogue()))
}

func hasStruct(t reflect.Type) bool {
	switch t.Kind() {
	case reflect.Struct:
		return true
	case reflect.Ptr, reflect.Slice, reflect.Array:
		return hasStruct(t.Elem())
	case reflect.Map:
		return hasStruct(t.Elem())
	case reflect.Func:
		return false
	case reflect.Interface:
		return true // the interface{} pool holds struct values
	}
	return false
}

func findShape(desc string) (shape, bool) {
	level := leafShapes
	for d := 0; d <= 3; d++ {
		if d > 0 {
			level = nextLevel(level)
		}
		for _, s := range level {
			if s.desc == desc {
				return s, true
			}
		}
	}
	return shape{}, false
}

func replayShape(r *core.Run, sc *ShapeCase) {
	p := &p1rt{}
	var x reflect.Value
	noView := false
	if sc.Part == "catalogue" {
		found := false
		for _, ce := range catalogue() {
			if ce.name == sc.Desc {
				x, noView, found = reflect.ValueOf(ce.mk()), ce.noView, true
			}
		}
		if !found {
			r.Violation("replay|unknown-catalogue-type", sc.Desc, sc)
			return
		}
	} else {
		sh, ok := findShape(sc.Desc)
		if !ok {
			r.Violation("replay|unknown-shape", sc.Desc, sc)
			return
		}
		vals := pool(sh.t, 0)
		if sc.Value >= len(vals) {
			r.Violation("replay|bad-value-index", sc.Desc, sc)
			return
		}
		x = vals[sc.Value]
	}
	fails, _ := checkValue(p, x, sc.Mapper, noView)
	for _, f := range fails {
		r.Violation(f.sig, f.what, sc)
	}
}
