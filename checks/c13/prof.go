package c13

import (
	"os"
	"runtime/pprof"
)

func startProf() func() {
	p := os.Getenv("C13_PROF")
	if p == "" {
		return func() {}
	}
	f, _ := os.Create(p)
	pprof.StartCPUProfile(f)
	return func() { pprof.StopCPUProfile(); f.Close() }
}
