package c13

import (
	"math"
	"math/big"
	"reflect"
	"time"
)

// Part 1a: all Go types of nesting <= n that package reflect can synthesise, over the leaf kinds
// {bool, all integer kinds, uintptr, float32/64, complex64/128, string, interface{}, *big.Int, time.Time}
// and the constructors {*T, []T, [2]T, map[string]T, map[int]T, map[float64]T, struct{F0 T},
// struct{F0 T `json:"f0"`; G int `json:"gee"`}, func(T) T}. Each with a small pool of boundary values.

type shape struct {
	t     reflect.Type
	desc  string
	depth int
}

var leafShapes = func() []shape {
	var ls []shape
	add := func(v interface{}, name string) {
		ls = append(ls, shape{reflect.TypeOf(v), name, 0})
	}
	add(false, "bool")
	add(int(0), "int")
	add(int8(0), "int8")
	add(int16(0), "int16")
	add(int32(0), "int32")
	add(int64(0), "int64")
	add(uint(0), "uint")
	add(uint8(0), "uint8")
	add(uint16(0), "uint16")
	add(uint32(0), "uint32")
	add(uint64(0), "uint64")
	add(uintptr(0), "uintptr")
	add(float32(0), "float32")
	add(float64(0), "float64")
	add(complex64(0), "complex64")
	add(complex128(0), "complex128")
	add("", "string")
	ls = append(ls, shape{typIface, "interface{}", 0})
	add((*big.Int)(nil), "*big.Int")
	add(time.Time{}, "time.Time")
	return ls
}()

type ctor struct {
	name string
	mk   func(t reflect.Type) reflect.Type
}

var ctors = []ctor{
	{"*", func(t reflect.Type) reflect.Type { return reflect.PointerTo(t) }},
	{"[]", func(t reflect.Type) reflect.Type { return reflect.SliceOf(t) }},
	{"[2]", func(t reflect.Type) reflect.Type { return reflect.ArrayOf(2, t) }},
	{"map[string]", func(t reflect.Type) reflect.Type { return reflect.MapOf(reflect.TypeOf(""), t) }},
	{"map[int]", func(t reflect.Type) reflect.Type { return reflect.MapOf(reflect.TypeOf(int(0)), t) }},
	{"map[float64]", func(t reflect.Type) reflect.Type { return reflect.MapOf(reflect.TypeOf(float64(0)), t) }},
	{"struct1", func(t reflect.Type) reflect.Type {
		return reflect.StructOf([]reflect.StructField{{Name: "F0", Type: t}})
	}},
	{"struct2", func(t reflect.Type) reflect.Type {
		return reflect.StructOf([]reflect.StructField{
			{Name: "F0", Type: t, Tag: `json:"f0"`},
			{Name: "G", Type: reflect.TypeOf(int(0)), Tag: `json:"gee,omitempty"`}})
	}},
	{"func", func(t reflect.Type) reflect.Type { return reflect.FuncOf([]reflect.Type{t}, []reflect.Type{t}, false) }},
}

// shapesOfDepth returns all shapes of nesting exactly d (d >= 1), given the previous level.
func nextLevel(prev []shape) []shape {
	res := make([]shape, 0, len(prev)*len(ctors))
	for _, p := range prev {
		for _, c := range ctors {
			res = append(res, shape{c.mk(p.t), c.name + "(" + p.desc + ")", p.depth + 1})
		}
	}
	return res
}

const maxSafe = 1<<53 - 1

// pool returns the boundary values of type t (at most ~4), simplest first.
func pool(t reflect.Type, depth int) []reflect.Value {
	mk := func(xs ...interface{}) []reflect.Value {
		res := make([]reflect.Value, len(xs))
		for i, x := range xs {
			res[i] = reflect.ValueOf(x).Convert(t)
		}
		return res
	}
	switch t {
	case typBigIntPtr:
		big70 := new(big.Int).Lsh(big.NewInt(1), 70)
		return []reflect.Value{reflect.ValueOf((*big.Int)(nil)), reflect.ValueOf(big.NewInt(0)), reflect.ValueOf(big70), reflect.ValueOf(big.NewInt(-5))}
	case reflect.TypeOf(time.Time{}):
		return []reflect.Value{reflect.ValueOf(time.Time{}), reflect.ValueOf(time.Unix(1e9, 5).UTC()),
			reflect.ValueOf(time.Unix(1e9, 0).In(time.FixedZone("X", 3600)))}
	case typIface:
		vs := []interface{}{nil, 7, "s", In{1}, &In{2}}
		res := make([]reflect.Value, len(vs))
		for i, x := range vs {
			v := reflect.New(typIface).Elem()
			if x != nil {
				v.Set(reflect.ValueOf(x))
			}
			res[i] = v
		}
		return res
	}
	switch t.Kind() {
	case reflect.Bool:
		return mk(false, true)
	case reflect.Int8:
		return mk(int8(0), int8(math.MinInt8), int8(math.MaxInt8))
	case reflect.Int16:
		return mk(int16(0), int16(math.MinInt16), int16(math.MaxInt16))
	case reflect.Int32:
		return mk(int32(0), int32(math.MinInt32), int32(math.MaxInt32))
	case reflect.Int, reflect.Int64:
		return mk(int64(0), int64(-maxSafe), int64(maxSafe), int64(-1))
	case reflect.Uint8:
		return mk(uint8(0), uint8(math.MaxUint8))
	case reflect.Uint16:
		return mk(uint16(0), uint16(math.MaxUint16))
	case reflect.Uint32:
		return mk(uint32(0), uint32(math.MaxUint32))
	case reflect.Uint, reflect.Uint64:
		return mk(uint64(0), uint64(maxSafe), uint64(1))
	case reflect.Uintptr:
		return mk(uintptr(0), uintptr(77))
	case reflect.Float32:
		return mk(float32(0), float32(math.Copysign(0, -1)), float32(math.NaN()), float32(math.MaxFloat32), float32(1.1))
	case reflect.Float64:
		return mk(float64(0), math.Copysign(0, -1), math.NaN(), math.MaxFloat64, math.SmallestNonzeroFloat64, math.Inf(-1))
	case reflect.Complex64:
		return mk(complex64(0), complex64(complex(1, 2)))
	case reflect.Complex128:
		return mk(complex128(0), complex(1, math.Inf(1)))
	case reflect.String:
		return mk("", "a", "héllo \U0001F600 wörld, longer than sixteen bytes", "a\x00b")
	case reflect.Ptr:
		res := []reflect.Value{reflect.Zero(t)}
		ep := pool(t.Elem(), depth+1)
		for i, e := range ep {
			if i == 0 || i == len(ep)-1 {
				p := reflect.New(t.Elem())
				p.Elem().Set(e)
				res = append(res, p)
			}
		}
		return res
	case reflect.Slice:
		ep := pool(t.Elem(), depth+1)
		full := reflect.MakeSlice(t, len(ep), len(ep)+1)
		for i, e := range ep {
			full.Index(i).Set(e)
		}
		return []reflect.Value{reflect.Zero(t), reflect.MakeSlice(t, 0, 0), full}
	case reflect.Array:
		ep := pool(t.Elem(), depth+1)
		a := reflect.New(t).Elem()
		for i := 0; i < t.Len(); i++ {
			a.Index(i).Set(ep[(i+1)%len(ep)])
		}
		return []reflect.Value{reflect.Zero(t), a}
	case reflect.Map:
		ep := pool(t.Elem(), depth+1)
		var keys []reflect.Value
		switch t.Key().Kind() {
		case reflect.String:
			keys = []reflect.Value{reflect.ValueOf("a"), reflect.ValueOf("b"), reflect.ValueOf("c")}
		case reflect.Int:
			keys = []reflect.Value{reflect.ValueOf(0), reflect.ValueOf(-1), reflect.ValueOf(12)}
		case reflect.Float64:
			keys = []reflect.Value{reflect.ValueOf(0.5), reflect.ValueOf(float64(2)), reflect.ValueOf(-1e21)}
		default:
			return []reflect.Value{reflect.Zero(t), reflect.MakeMap(t)}
		}
		full := reflect.MakeMap(t)
		for i, k := range keys {
			full.SetMapIndex(k.Convert(t.Key()), ep[(len(ep)-1-i%len(ep)+len(ep))%len(ep)])
		}
		return []reflect.Value{reflect.Zero(t), reflect.MakeMap(t), full}
	case reflect.Struct:
		res := []reflect.Value{reflect.Zero(t)}
		// one value per pool value of the widest field, others cycling
		n := 0
		pools := make([][]reflect.Value, t.NumField())
		for i := 0; i < t.NumField(); i++ {
			if t.Field(i).PkgPath != "" {
				continue
			}
			pools[i] = pool(t.Field(i).Type, depth+1)
			if len(pools[i]) > n {
				n = len(pools[i])
			}
		}
		if n > 3 {
			n = 3
		}
		for j := 1; j <= n; j++ {
			s := reflect.New(t).Elem()
			for i := range pools {
				if len(pools[i]) > 0 {
					s.Field(i).Set(pools[i][(len(pools[i])-j+len(pools[i]))%len(pools[i])])
				}
			}
			res = append(res, s)
		}
		return res
	case reflect.Func:
		f := reflect.MakeFunc(t, func(args []reflect.Value) []reflect.Value {
			out := make([]reflect.Value, t.NumOut())
			for i := range out {
				if i < len(args) && args[i].Type() == t.Out(i) {
					out[i] = args[i]
				} else {
					out[i] = reflect.Zero(t.Out(i))
				}
			}
			return out
		})
		return []reflect.Value{reflect.Zero(t), f}
	}
	return []reflect.Value{reflect.Zero(t)}
}
