// Package c13 decides C13 (Go<->JS value bridge: round-trip identity and aliasing coherence).
package c13

import (
	"encoding/json"
	"os"

	"verif/core"
)

func init() {
	core.Register(&core.Check{
		ID:    "C13",
		Level: "model_checking",
		Rule:  "TODO",
		Run:   run,
		Replay: replay,
	})
}

func run(r *core.Run) {
	defer startProf()()
	kinds := allKinds()
	if only := os.Getenv("C13_KIND"); only != "" {
		var ks []*wkind
		for _, k := range kinds {
			if k.name == only {
				ks = append(ks, k)
			}
		}
		kinds = ks
	}
	runHistories(r, kinds)
	r.Exhaustive(true)
}

func replay(r *core.Run, raw json.RawMessage) {
}
