// Package c13 decides C13 (Go<->JS value bridge: round-trip identity and aliasing coherence).
package c13

import (
	"encoding/json"
	"os"

	"verif/core"
)

func init() {
	core.Register(&core.Check{
		ID:    "C13",
		Level: "model_checking",
		Rule:  "TODO",
		Run:   run,
		Replay: replay,
	})
}

func run(r *core.Run) {
	defer startProf()()
	if os.Getenv("C13_ONLY") == "" || os.Getenv("C13_ONLY") == "regress" {
		runRegress(r)
	}
	if os.Getenv("C13_ONLY") == "" || os.Getenv("C13_ONLY") == "shapes" {
		runShapes(r)
	}
	if os.Getenv("C13_ONLY") == "" || os.Getenv("C13_ONLY") == "graphs" {
		runGraphs(r)
	}
	if os.Getenv("C13_ONLY") == "" || os.Getenv("C13_ONLY") == "funcs" {
		runFuncs(r)
	}
	if os.Getenv("C13_ONLY") != "" && os.Getenv("C13_ONLY") != "hist" {
		return
	}
	kinds := allKinds()
	if only := os.Getenv("C13_KIND"); only != "" {
		var ks []*wkind
		for _, k := range kinds {
			if k.name == only {
				ks = append(ks, k)
			}
		}
		kinds = ks
	}
	runHistories(r, kinds)
	r.Exhaustive(true)
}

func replay(r *core.Run, raw json.RawMessage) {
	var probe struct {
		Part string `json:"part"`
	}
	json.Unmarshal(raw, &probe)
	switch probe.Part {
	case "shape", "catalogue":
		var sc ShapeCase
		if err := json.Unmarshal(raw, &sc); err != nil {
			r.Violation("replay|bad-case", err.Error(), nil)
			return
		}
		replayShape(r, &sc)
	case "script":
		var sr ScriptRegress
		json.Unmarshal(raw, &sr)
		for _, sc := range scriptCases() {
			if sc.Name == sr.Name {
				sc := sc
				runScriptCase(r, &sc)
			}
		}
	case "fatal":
		var fr FatalRegress
		json.Unmarshal(raw, &fr)
		for _, fc := range fatalCases() {
			if fc.Name == fr.Name {
				fc := fc
				runFatalCase(r, &fc)
			}
		}
	case "func":
		var fc FuncCase
		if err := json.Unmarshal(raw, &fc); err != nil {
			r.Violation("replay|bad-case", err.Error(), nil)
			return
		}
		replayFunc(r, &fc)
	case "graph":
		var gc GraphCase
		if err := json.Unmarshal(raw, &gc); err != nil {
			r.Violation("replay|bad-case", err.Error(), nil)
			return
		}
		replayGraph(r, &gc)
	case "hist":
		var hc HistCase
		if err := json.Unmarshal(raw, &hc); err != nil {
			r.Violation("replay|bad-case", err.Error(), nil)
			return
		}
		replayHistory(r, &hc)
	}
}

func replayHistory(r *core.Run, hc *HistCase) {
	replayHistoryIn(r, allKinds(), nil, hc)
}
