// Package c13 decides C13 (Go<->JS value bridge: round-trip identity and aliasing coherence).
package c13

import (
	"encoding/json"
	"os"

	"verif/core"
)

func init() {
	core.Register(&core.Check{
		ID:    "C13",
		Level: "model_checking",
		Rule: "Part 2 (model checking): per wrapper kind (struct pointer/value, map[string|int|float64|uint8]T, []T, *[]T, [N]T, []interface{}, map[string]interface{}, nested combinations; 38 kinds) a breadth-first search over ALL histories up to the reported depth of script ops {take an element wrapper and keep it, get, set, delete, defineProperty, push, pop, shift, unshift, splice, sort, reverse, length=} on the root wrapper and on held element wrappers, with indices 0..len+2 (fixed-size arrays are written one and two past their end) and values {numbers, strings, null, object/array literals, held wrappers, elements of the root}, interleaved with Go-side mutations {assign field/element, append in place and with re-allocation, reslice, replace/delete/add map entry, replace the whole value}; every transition is executed in lock-step on goja and on the shadow model (twin Go value + documented copy-on-change rule), comparing the op result, the Go-side state after every op and, in every state, everything script can observe (dump, Object.keys, for-in, JSON.stringify, spread, in/hasOwnProperty, length) and Export() identity; states are de-duplicated by the model's canonical key (Go value dump + live element references + what every held wrapper denotes; a mutation attempt that threw is kept as a state of its own; plus a white-box tag: occupancy of goja's element-wrapper caches over their whole capacity); three kinds start every history after a preamble that reads all element wrappers and add descending traversals. " +
			"Part 1 (exhaustive enumeration): every Go type of nesting <= the reported bound built by reflect over 20 leaf kinds and 9 constructors (pointer, slice, array, 3 map key kinds, 2 struct forms, func) plus a hand-written catalogue (embedded/unexported/tagged fields, method sets, named types, cycles) x boundary value pools x the 3 FieldNameMappers: script view == independent prediction, Export() identity, ExportTo own type deep-equal; every script-built object graph with <= N nodes (object/array nodes, two slots each, any target incl. itself) through 8 export routes: isomorphic image (sharing and cycles preserved); all func signatures with <= 2 parameters over 11 parameter types x variadic x 6 result lists in both directions with all argument tuples / returned values / thrown payloads. " +
			"Non-trivial = a state that is new under the canonical key (part 2) or a distinct enumerated type / graph / call (part 1); cases are distinct by construction.",
		Run:    run,
		Replay: replay,
	})
}

// bounds collects the largest completed bound of every part (evidence "bounds_completed").
var bounds = map[string]interface{}{}

func run(r *core.Run) {
	r.Assume("integers outside +-(2^53-1) are not representable as ECMAScript numbers and are not in the value pools")
	r.Assume("int/float keyed maps are addressed with canonical numeric keys only (ToValue documents no other keys)")
	r.Assume("strings are valid UTF-8 (ToValue documents invalid UTF-8 as unspecified)")
	r.Assume("what the ToValue/ExportTo documentation leaves undefined is outside the model domain and only checked for host panics: object literals that omit struct fields, conversion through an existing non-nil pointer, Export() of an element reference, objects converted to numbers/strings, pointer-to-func")
	r.Assume("JSON.stringify / Array.prototype.join on Go values that contain a cycle through themselves kill the process (listed findings, probed in a child process); such states are excluded from the in-process exploration")
	r.Assume("trusted base: package reflect, the shadow model (checks/c13/model.go), the dumpers (view.go), goja's JSON.parse and string/number primitives used by the observation functions")
	only := os.Getenv("C13_ONLY") // development aid: run one part only
	want := func(p string) bool { return only == "" || only == p }
	if want("regress") {
		runRegress(r)
	}
	if want("shapes") {
		runShapes(r)
	}
	if want("graphs") {
		runGraphs(r)
	}
	if want("funcs") {
		runFuncs(r)
	}
	if want("hist") {
		kinds := allKinds()
		if k := os.Getenv("C13_KIND"); k != "" { // development aid: one wrapper kind only
			var ks []*wkind
			for _, wk := range kinds {
				if wk.name == k {
					ks = append(ks, wk)
				}
			}
			kinds = ks
		}
		runHistories(r, kinds)
	}
	r.Set("bounds_completed", bounds)
	r.Exhaustive(only == "" && !r.Capped())
}

func replay(r *core.Run, raw json.RawMessage) {
	var probe struct {
		Part string `json:"part"`
	}
	json.Unmarshal(raw, &probe)
	switch probe.Part {
	case "shape", "catalogue":
		var sc ShapeCase
		if err := json.Unmarshal(raw, &sc); err != nil {
			r.Violation("replay|bad-case", err.Error(), nil)
			return
		}
		replayShape(r, &sc)
	case "script":
		var sr ScriptRegress
		json.Unmarshal(raw, &sr)
		for _, sc := range scriptCases() {
			if sc.Name == sr.Name {
				sc := sc
				runScriptCase(r, &sc)
			}
		}
	case "fatal":
		var fr FatalRegress
		json.Unmarshal(raw, &fr)
		for _, fc := range fatalCases() {
			if fc.Name == fr.Name {
				fc := fc
				runFatalCase(r, &fc)
			}
		}
	case "func":
		var fc FuncCase
		if err := json.Unmarshal(raw, &fc); err != nil {
			r.Violation("replay|bad-case", err.Error(), nil)
			return
		}
		replayFunc(r, &fc)
	case "graph":
		var gc GraphCase
		if err := json.Unmarshal(raw, &gc); err != nil {
			r.Violation("replay|bad-case", err.Error(), nil)
			return
		}
		replayGraph(r, &gc)
	case "hist":
		var hc HistCase
		if err := json.Unmarshal(raw, &hc); err != nil {
			r.Violation("replay|bad-case", err.Error(), nil)
			return
		}
		replayHistory(r, &hc)
	}
}

func replayHistory(r *core.Run, hc *HistCase) {
	replayHistoryIn(r, allKinds(), nil, hc)
}
