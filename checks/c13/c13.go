// Package c13 decides C13 (Go<->JS value bridge: round-trip identity and aliasing coherence).
package c13

import (
	"encoding/json"
	"fmt"
	"os"

	"verif/core"
)

func init() {
	core.Register(&core.Check{
		ID:    "C13",
		Level: "model_checking",
		Rule:  "TODO",
		Run:   run,
		Replay: replay,
	})
}

func run(r *core.Run) {
	defer startProf()()
	kinds := allKinds()
	if only := os.Getenv("C13_KIND"); only != "" {
		var ks []*wkind
		for _, k := range kinds {
			if k.name == only {
				ks = append(ks, k)
			}
		}
		kinds = ks
	}
	runHistories(r, kinds)
	r.Exhaustive(true)
}

func replay(r *core.Run, raw json.RawMessage) {
	var probe struct {
		Part string `json:"part"`
	}
	json.Unmarshal(raw, &probe)
	switch probe.Part {
	case "hist":
		var hc HistCase
		if err := json.Unmarshal(raw, &hc); err != nil {
			r.Violation("replay|bad-case", err.Error(), nil)
			return
		}
		replayHistory(r, &hc)
	}
}

func replayHistory(r *core.Run, hc *HistCase) {
	for _, wk := range allKinds() {
		if wk.name != hc.Kind {
			continue
		}
		var path []int
		for _, n := range hc.Path {
			found := -1
			for i, o := range wk.ops {
				if o.name == n {
					found = i
				}
			}
			if found < 0 {
				r.Violation("replay|unknown-op", n, hc)
				return
			}
			path = append(path, found)
		}
		c := compileKind(wk)
		out := runHistory(c, wk, path, defects{}, true)
		if out.fail != nil {
			sig, what := classify(compileKind(wk), wk, path, out.fail)
			r.Violation(sig, what, HistCase{Part: "hist", Kind: wk.name, Path: hc.Path, Failure: out.fail})
		} else if out.skipped {
			fmt.Println("replay: history is outside the model domain:", out.skipWhy)
		}
		return
	}
	r.Violation("replay|unknown-kind", hc.Kind, hc)
}
