package c13

import (
	"errors"
	"fmt"
	"reflect"
)

// Part 1b: hand-written catalogue of what package reflect cannot synthesise: embedded / unexported / tagged
// fields, method sets on value and pointer receivers, named map / slice / primitive types with methods,
// cyclic pointer structures.

type Base struct {
	ID   int    `json:"id"`
	Name string `json:"name,omitempty"`
}

func (b Base) Hello() string { return "hello " + b.Name }
func (b *Base) SetID(i int)  { b.ID = i }

type Mid struct {
	Base          // embedded by value: ID, Name, Hello, SetID are promoted
	Level int     `json:"level"`
	ID    float64 `json:"mid_id"` // shadows Base.ID (shallower wins)
}

type PEmb struct {
	*Base     // embedded pointer
	Extra int `json:"extra"`
}

type hidden struct {
	Vis int `json:"vis"`
	inv int
}

type WithUnexported struct {
	hidden        // unexported embedded struct: Vis is promoted, the field itself is not visible
	Pub    string `json:"pub"`
	priv   int
	Skip   int `json:"-"`
	NoTag  int
	Weird  int `json:"not an identifier"`
}

type ValRecv struct{ N int }

func (v ValRecv) Get() int       { return v.N }
func (v ValRecv) String() string { return fmt.Sprintf("ValRecv(%d)", v.N) }

type PtrRecv struct{ N int }

func (p *PtrRecv) Inc() int { p.N++; return p.N }
func (p *PtrRecv) Get() int { return p.N }

type NamedMap map[string]int // no methods: behaves like a map

type MethMap map[string]int // with a method: properties are the methods, not the keys

func (m MethMap) Len() int { return len(m) }

type NamedSlice []int

type MethSlice []int

func (s MethSlice) Sum() int {
	t := 0
	for _, x := range s {
		t += x
	}
	return t
}

type NamedInt int
type NamedStr string
type NamedBool bool
type NamedFloat float64

type MethInt int

func (m MethInt) Double() int { return int(m) * 2 }

type Node struct {
	V    int
	Next *Node
	Kids []*Node
	Tab  map[string]*Node
}

type MyErr struct{ Code int }

func (e *MyErr) Error() string { return fmt.Sprintf("myerr %d", e.Code) }

type Deep struct {
	M   Mid
	P   *Mid
	L   []Base
	Any interface{}
	Fn  func(int) int `json:"fn"`
	Er  error
}

type catEntry struct {
	name string
	mk   func() interface{}
	// noView: the script view is not compared (cyclic value / deliberately undefined corner)
	noView bool
}

func catalogue() []catEntry {
	cyc := func() *Node {
		a := &Node{V: 1}
		b := &Node{V: 2, Next: a}
		a.Next = b
		a.Kids = []*Node{a, b, nil}
		a.Tab = map[string]*Node{"self": a, "b": b}
		return a
	}
	return []catEntry{
		{"Base", func() interface{} { return Base{1, "n"} }, false},
		{"*Base", func() interface{} { return &Base{1, "n"} }, false},
		{"Mid", func() interface{} { return Mid{Base{1, "n"}, 3, 2.5} }, false},
		{"*Mid", func() interface{} { return &Mid{Base{1, "n"}, 3, 2.5} }, false},
		{"PEmb", func() interface{} { return PEmb{&Base{4, "p"}, 9} }, false},
		{"*PEmb", func() interface{} { return &PEmb{&Base{4, "p"}, 9} }, false},
		{"WithUnexported", func() interface{} { return WithUnexported{hidden{1, 2}, "p", 3, 4, 5, 6} }, false},
		{"*WithUnexported", func() interface{} { return &WithUnexported{hidden{1, 2}, "p", 3, 4, 5, 6} }, false},
		{"ValRecv", func() interface{} { return ValRecv{3} }, false},
		{"*ValRecv", func() interface{} { return &ValRecv{3} }, false},
		{"PtrRecv", func() interface{} { return PtrRecv{3} }, false},
		{"*PtrRecv", func() interface{} { return &PtrRecv{3} }, false},
		{"[]PtrRecv", func() interface{} { return []PtrRecv{{1}, {2}} }, false},
		{"map[string]PtrRecv", func() interface{} { return map[string]PtrRecv{"a": {1}} }, false},
		{"NamedMap", func() interface{} { return NamedMap{"a": 1} }, false},
		{"NamedMap(nil)", func() interface{} { return NamedMap(nil) }, false},
		{"MethMap", func() interface{} { return MethMap{"a": 1} }, false},
		{"*MethMap", func() interface{} { m := MethMap{"a": 1}; return &m }, false},
		{"NamedSlice", func() interface{} { return NamedSlice{1, 2} }, false},
		{"MethSlice", func() interface{} { return MethSlice{1, 2} }, false},
		{"*MethSlice", func() interface{} { s := MethSlice{1, 2}; return &s }, false},
		{"NamedInt", func() interface{} { return NamedInt(5) }, false},
		{"NamedStr", func() interface{} { return NamedStr("x") }, false},
		{"NamedBool", func() interface{} { return NamedBool(true) }, false},
		{"NamedFloat", func() interface{} { return NamedFloat(1.5) }, false},
		{"MethInt", func() interface{} { return MethInt(5) }, false},
		{"*MethInt", func() interface{} { m := MethInt(5); return &m }, false},
		{"*int", func() interface{} { i := 5; return &i }, false},
		{"**Base", func() interface{} { p := &Base{1, "n"}; return &p }, false},
		{"Node(cyclic)", func() interface{} { return cyc() }, true},
		{"*MyErr", func() interface{} { return &MyErr{3} }, false},
		{"error(errors.New)", func() interface{} { return errors.New("boom") }, false},
		{"Deep", func() interface{} {
			return Deep{Mid{Base{1, "n"}, 3, 2.5}, &Mid{}, []Base{{1, "a"}}, Base{7, "any"}, func(i int) int { return i + 1 }, &MyErr{1}}
		}, false},
		{"*Deep(zero)", func() interface{} { return &Deep{} }, false},
		{"map[bool]int", func() interface{} { return map[bool]int{true: 1} }, false},
		{"map[Base]int", func() interface{} { return map[Base]int{{1, "a"}: 1} }, false},
		{"chan int", func() interface{} { return make(chan int) }, false},
		{"[]byte", func() interface{} { return []byte{1, 2, 255} }, false},
		{"[0]int", func() interface{} { return [0]int{} }, false},
		{"*[0]int", func() interface{} { return &[0]int{} }, false},
		{"struct{}", func() interface{} { return struct{}{} }, false},
		{"*struct{}", func() interface{} { return &struct{}{} }, false},
		{"[]struct{}", func() interface{} { return make([]struct{}, 2) }, false},
		{"PEmb(nil embedded)", func() interface{} { return &PEmb{nil, 9} }, false},
	}
}

var _ = reflect.TypeOf
