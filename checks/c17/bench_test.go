//go:build verif

package c17

import (
	"testing"
)

func BenchmarkStep(b *testing.B) {
	w := newWorld()
	cfg := Config{N: 8, View: "Int16Array", Off: 2, Len: 3}
	ops := alphabet(cfg, 0)
	sts := startStates(cfg, 0)
	b.Logf("ops=%d", len(ops))
	b.ResetTimer()
	for i := 0; i < b.N; i++ {
		op := &ops[i%len(ops)]
		sr := w.step(cfg, sts[(i/len(ops))%len(sts)].st, op)
		if sr.panicked {
			w.reset()
		}
	}
}
