#!/usr/bin/env python3
"""Regenerates checks/c17/corpus.json and findings.d/C17.jsonl from the replay files of a COMPLETE run of
`bin/check C17` on the pinned tree (every VIOLATION of that run was triaged by hand as a genuine goja defect; the
root-cause table below is the result of that triage). Usage: empty findings.d/C17.jsonl AND put "[]" into
checks/c17/corpus.json (otherwise stale corpus cases re-create their own entries), run bin/check C17 with a budget
large enough to finish (exhaustive=true), then run this script."""
import glob
import json
import re

ROOT = [
    (r"^ab\.slice\|det", "ArrayBuffer.prototype.slice on a detached receiver does not throw TypeError: it coerces its arguments, calls the species constructor and returns an empty buffer (ECMA-262 25.1.5.3 step 4)"),
    (r"^ab\.slice\|att", "ArrayBuffer.prototype.slice skips the checks of steps 19-23 (new buffer detached / same as receiver / too small / receiver detached by argument coercion or by the species constructor) whenever the requested length is 0, so no TypeError is thrown"),
    (r"^call\.copyWithin\|att\|fx=(-|W)\|bytes", "%TypedArray%.prototype.copyWithin copies final-from elements instead of min(final-from, len-to): on a view that ends before its buffer does it overwrites buffer bytes past the view"),
    (r"^call\.copyWithin\|att\|fx=D1\|outcome", "copyWithin throws TypeError after an argument detached the buffer although count = min(final-from, len-to) is 0 (the detach check of 23.2.3.6 step 17 applies only when count > 0)"),
    (r"^(call\.fill|elem\.set\[num\]|dv\.set)\|att\|fx=-\|bytes:B1:in-view:(Int|Uint)(16|32)", "ToInt16/ToUint16/ToInt32/ToUint32 of a finite Number with magnitude >= 2^63 convert through int64(f), which overflows: 9223372036854777856 (2^63+2^11) is stored as 0 instead of 2048"),
    (r"^call\.fill\|att\|fx=-\|bytes:B1:in-view", "BigInt64Array.prototype.fill(-1n) stores 1: bigInt64Array.toRaw calls big.Int.Uint64() on a negative value (the same toRaw is used by includes/indexOf)"),
    (r"^call\.fill\|att\|fx=-\|effects", "fill converts start and end before the fill value (23.2.3.9 converts the value first): fill(1n, {valueOf(){...}}) on a Number array runs valueOf although ToNumber(1n) must already have thrown"),
    (r"^call\.filter", "filter captures elements visited after the callback detached the buffer as zero bytes instead of undefined: the result holds 0 where the specification stores NaN (Float arrays) or throws TypeError (BigInt arrays)"),
    (r"^call\.(includes|indexOf|lastIndexOf)", "Float32Array/Float64Array includes/indexOf/lastIndexOf compare raw bit patterns of the converted search value: includes(NaN) is false for a stored NaN with another payload, and searching 0 / -0 misses an element holding -0"),
    (r"^call\.map\|.*go-panic", "map stores the callback result with typedArray.set without re-validating the target: if the species constructor returned a view on a caller-supplied buffer and the callback detaches it, a nil-pointer Go panic escapes to the host"),
    (r"^call\.map\|.*write-after-detach", "map: the valueOf of a callback result detaches the buffer of the (species-created) target view after the element pointer was computed; the store lands in the detached buffer's former backing slice"),
    (r"^call\.set\(arraylike\)", "set(arrayLike) converts each value after the index/detach validation: a valueOf that detaches the target makes the store land in the detached buffer's former backing slice (23.2.3.26.2 converts first, then validates)"),
    (r"^call\.set\(typedarray\)\|.*go-panic", "set(typedArray) with an empty source of another element type whose window ends at the end of its buffer takes &data[len(data)]: Go panic 'index out of range' escapes to the host"),
    (r"^call\.set\(typedarray\)\|.*outcome", "set(typedArray) detects a BigInt/Number content-type mix only when converting an element: with an empty source no TypeError is thrown"),
    (r"^call\.sort\|att\|fx=T", "sort sorts in place: a comparator that throws part-way leaves the array partially reordered (23.2.3.29 sorts a list of the values and writes back only after the sort completed)"),
    (r"^call\.toLocaleString", "toLocaleString has no ValidateTypedArray step of its own: on a zero-length view over a detached buffer it returns \"\" instead of throwing TypeError (23.2.3.31 step 2)"),
    (r"^ctor\.dataview", "new DataView(buffer, offset, length) re-validates offset+length against the buffer after ToIndex(length) detached it and throws RangeError; 25.3.2.1 validates against the length read before and throws TypeError at step 10"),
    (r"^ctor\.typedarray", "new TA(typedArray) detects a BigInt/Number content-type mix only when converting an element: new BigInt64Array(new Int16Array(0)) does not throw TypeError"),
    (r"^elem\.define\{empty\}", "Object.defineProperty(ta, index, {}) (descriptor without value) passes a nil Value to _putIdx: nil-pointer Go panic escapes (BigInt arrays: TypeError 'Cannot convert <nil> to a BigInt') instead of returning true"),
    (r"^elem\.keys", "[[OwnPropertyKeys]] / Object.keys / for-in of a typed array whose buffer is detached still list the integer indices (10.4.5.7: none)"),
    (r"^elem\.set\[str\]", "assignment to a canonical numeric string key that is not a valid index (\"1.5\", \"-0\", \"Infinity\") converts with ToNumeric instead of ToNumber/ToBigInt: a value of the wrong numeric type does not throw TypeError"),
    (r"^go\.(export|exportTo)\|det\|fx=-\|go-panic", "Value.Export() / Runtime.ExportTo(&[]byte) of a typed array whose buffer is detached panics in the host (unsafe.Slice / slice bounds)"),
    (r"^go\.(export|exportTo)\|det\|fx=-\|host", "Value.Export() of a typed array with byteOffset > 0 whose buffer is detached returns a slice header pointing at address <byteOffset> (nil+offset) with the old length"),
    (r"^static\.(of|from)\|.*go-panic", "%TypedArray%.of/from store with typedArray.set without re-validating: a value whose valueOf detaches the buffer of the array returned by the constructor gives a nil-pointer Go panic in the host"),
    (r"^static\.(of|from)\|.*write-after-detach", "%TypedArray%.of/from: a value whose valueOf detaches the target's buffer after the element pointer was computed is stored into the detached buffer's former backing slice"),
    (r"^static\.(of|from)\|.*bytes", "%TypedArray%.of/from ignore the byteOffset of the array their constructor returned (typedArray.set(i, v) instead of offset+i): elements are written at the start of the buffer, outside the view"),
]


def main():
    rows = []
    for f in glob.glob("/verif/replays/C17/*.json"):
        d = json.load(open(f))
        c = d["case"]
        c.pop("path", None)
        rows.append((d["signature"], c, d["what"]))
    rows.sort(key=lambda r: r[0])
    json.dump([{"signature": s, "case": c} for s, c, _ in rows], open("/verif/checks/c17/corpus.json", "w"), indent=1)
    with open("/verif/findings.d/C17.jsonl", "w") as out:
        for s, c, w in rows:
            why = None
            for pat, text in ROOT:
                if re.search(pat, s):
                    why = text
                    break
            if why is None:
                raise SystemExit("untriaged signature: " + s + "\n  " + c.get("desc", "") + "\n  " + w)
            out.write(json.dumps({"property": "C17", "signature": s, "what": why + ". Minimal input: " + c.get("desc", "") + " (" + w[:160] + ")"}) + "\n")
    print(len(rows), "findings")


if __name__ == "__main__":
    main()
