package c17

import (
	_ "embed"
	"encoding/json"
	"fmt"
	"os"
	"sort"
	"strconv"
	"strings"
	"sync"
	"sync/atomic"
	"time"

	"verif/core"
	"verif/ref/tamodel"
)

func init() {
	core.Register(&core.Check{
		ID:    "C17",
		Level: "model_checking",
		Rule: "explicit-state search: start states = every (buffer length 0..N, element type or DataView, aligned byte offset, length) x 7 buffer contents/detach states, " +
			"buffers living in canary-guarded Go slabs handed over with NewArrayBuffer; transitions = the complete operation alphabet (element get/set/has/delete/define, every %TypedArray%.prototype " +
			"method, from/of, constructors, DataView accessors at every byte offset and endianness, ArrayBuffer.slice, Go-side Bytes/Detach/Export) with one side-effecting argument/callback/species " +
			"constructor per operation (detach, throw, host write, re-target to another buffer); successor states de-duplicated by (bytes, detached flags); every transition runs in lock-step on the tamodel " +
			"byte-array model. Non-trivial = a (configuration, state, operation) triple, distinct by construction (alphabets are duplicate-free, states de-duplicated, transitions that repeat an earlier bound are not counted), whose " +
			"execution changes the abstract state or runs user code (callback / valueOf / species constructor) inside the operation.",
		Run:    run,
		Replay: replay,
	})
}

var (
	pool    sync.Map // worker index -> *world
	confirm sync.Map // signature -> struct{}: already re-run 5x
)

func getWorld(i int) *world {
	if w, ok := pool.Load(i); ok {
		return w.(*world)
	}
	w := newWorld()
	pool.Store(i, w)
	return w
}

// initial contents of B1
func pattern(name string, n int) []byte {
	b := make([]byte, n)
	for i := range b {
		switch name {
		case "inc":
			b[i] = byte(i + 1)
		case "desc":
			b[i] = byte(0xF0 - 5*i)
		case "nan":
			b[i] = 0xFF
			if i%8 == 0 {
				b[i] = 0x01
			}
		case "snan":
			b[i] = []byte{0x01, 0x00, 0x80, 0x7F, 0x01, 0x00, 0x80, 0xFF}[i%8]
		case "zero":
			if i == n-1 {
				b[i] = 0x80
			}
		}
	}
	return b
}

func b2Pattern() []byte {
	b := make([]byte, b2Len)
	for i := range b {
		b[i] = byte(0xC0 + i)
	}
	return b
}

type outcomeKey struct{ k, m, class string }

type startState struct {
	st    State
	level int // alphabet level applied from this state
}

// startStates: the first one carries the full alphabet; the detached ones the reduced pools; the remaining
// content patterns only the content-dependent operations.
func startStates(cfg Config, level int) []startState {
	b2 := hexOf(b2Pattern())
	out := []startState{
		{State{B1: hexOf(pattern("inc", cfg.N)), B2: b2}, level},
		{State{B1: "", D1: true, B2: b2}, lvMin},
		{State{B1: hexOf(pattern("inc", cfg.N)), B2: "", D2: true}, lvB2},
	}
	if cfg.N > 0 {
		for _, p := range []string{"desc", "nan", "snan", "zero"} {
			out = append(out, startState{State{B1: hexOf(pattern(p, cfg.N)), B2: b2}, lvContent})
		}
	}
	return out
}

// configs enumerates every (buffer, view) configuration for the given buffer lengths and slab variant.
func configs(sizes []int, align int, spare bool) []Config {
	var out []Config
	for _, n := range sizes {
		for k := tamodel.Kind(0); k < tamodel.NKinds; k++ {
			sz := k.Size()
			for off := 0; off <= n; off += sz {
				for ln := 0; off+ln*sz <= n; ln++ {
					out = append(out, Config{N: n, Align: align, Spare: spare, View: k.Name(), Off: off, Len: ln})
				}
			}
		}
		for off := 0; off <= n; off++ {
			for ln := 0; off+ln <= n; ln++ {
				out = append(out, Config{N: n, Align: align, Spare: spare, View: "DataView", Off: off, Len: ln})
			}
		}
	}
	return out
}

func seq(lo, hi int) []int {
	var s []int
	for i := lo; i <= hi; i++ {
		s = append(s, i)
	}
	return s
}

// isVariantConfig selects the views used for the slab-variant sweep: alignment and spare capacity interact with
// the element type and the position of the view's ends, not with every interior (offset, length) pair: the view
// over the whole buffer, the one starting one element in, and the one ending one element early.
func isVariantConfig(c Config) bool {
	sz := 1
	if k, ok := tamodel.KindByName(c.View); ok {
		sz = k.Size()
	}
	maxEl := (c.N - c.Off) / sz
	return (c.Off == 0 || c.Off == sz) && (c.Len == maxEl || c.Len == maxEl-1)
}

type bound struct {
	countFrom    int // transitions at smaller depths repeat an earlier bound: they are executed but not counted as distinct cases
	variantsOnly bool
	name         string
	sizes        []int
	depth        int
	level        int // alphabet level
	aligns       []int
	spares       []bool
}

type explorer struct {
	r      *core.Run
	trans  atomic.Int64
	states atomic.Int64
}

// report confirms a failing transition on fresh engines and records it.
func (e *explorer) report(w *world, c Case, f *failure) {
	if _, seen := confirm.LoadOrStore(f.sig, struct{}{}); !seen {
		for i := 0; i < 5; i++ {
			fw := newWorld()
			sr := fw.step(c.Cfg, c.St, &c.Op)
			if sr.fail == nil || sr.fail.sig != f.sig {
				got := "no failure"
				if sr.fail != nil {
					got = sr.fail.sig
				}
				e.r.Violation("flaky|"+f.sig, fmt.Sprintf("a failing transition did not reproduce identically on a fresh runtime (%s)", got), c)
				return
			}
		}
	}
	c.Desc = c.Cfg.String() + " :: " + c.Op.String()
	e.r.Violation(f.sig, f.what, c)
}

// exploreConfig runs the bounded BFS from every start state of one configuration.
func (e *explorer) exploreConfig(worker int, cfg Config, depth, level, countFrom int) {
	r := e.r
	w := getWorld(worker)
	var have [nLevels]bool
	var opsAt func(level int) []Op
	opsAt = func(level int) []Op {
		if !have[level] {
			have[level] = true
			switch level {
			case lvB2:
				var b2 []Op
				for _, o := range opsAt(lvFull) {
					if touchesB2(&o) {
						b2 = append(b2, o)
					}
				}
				w.opsBuf[level] = thin(w.opsBuf[level][:0], b2, 4)
			case lvMin:
				w.opsBuf[level] = thin(w.opsBuf[level][:0], opsAt(lvSmall), 4)
			default:
				w.opsBuf[level] = alphabetInto(w.opsBuf[level], cfg, level)
			}
		}
		return w.opsBuf[level]
	}
	type node struct {
		st    State
		level int
		path  []string
	}
	var frontier []node
	seen := map[string]bool{}
	starts := startStates(cfg, level)
	if cfg.Align != 0 || cfg.Spare {
		starts = starts[:2] // slab variants: contents pattern "inc" and the detached buffer
	}
	for _, ss := range starts {
		if !seen[ss.st.key()] {
			seen[ss.st.key()] = true
			frontier = append(frontier, node{st: ss.st, level: ss.level})
		}
	}
	if countFrom <= 1 {
		r.States(int64(len(frontier)))
		e.states.Add(int64(len(frontier)))
	}
	var nTrans, nNontrivial int64
	defer func() { e.trans.Add(nTrans) }()
	for d := 1; d <= depth && len(frontier) > 0; d++ {
		var next []node
		for _, nd := range frontier {
			if r.Expired() {
				r.Transitions(nTrans)
				r.Traces(nTrans)
				r.Eval(nTrans)
				r.NontrivialN(nNontrivial)
				return
			}
			ops := opsAt(nd.level)
			for i := range ops {
				op := &ops[i]
				sr := w.step(cfg, nd.st, op)
				nTrans++
				if sr.changed && d >= countFrom {
					nNontrivial++
				}
				if ok := (outcomeKey{op.K, op.M, sr.outcome}); !w.outcomes[ok] {
					w.outcomes[ok] = true
					r.Outcome(op.K + "." + op.M + ":" + sr.outcome)
				}
				if sr.fail != nil {
					e.report(w, Case{Cfg: cfg, St: nd.st, Op: *op, Path: nd.path}, sr.fail)
				}
				if sr.panicked {
					w.reset()
				}
				if d < depth {
					if k := sr.next.key(); !seen[k] {
						seen[k] = true
						next = append(next, node{st: sr.next, level: lvMin, path: append(append([]string{}, nd.path...), op.String())})
					}
				}
				if nTrans&0xfff == 1 && r.WantSample(nTrans>>12) {
					r.Sample(map[string]interface{}{"config": cfg.String(), "state": nd.st, "op": op.String(), "model_outcome": op.K + "." + op.M + ":" + sr.outcome, "next": sr.next})
				}
			}
		}
		r.States(int64(len(next)))
		e.states.Add(int64(len(next)))
		frontier = next
	}
	r.Transitions(nTrans)
	r.Traces(nTrans)
	r.Eval(nTrans)
	r.NontrivialN(nNontrivial)
}

func run(r *core.Run) {
	e := &explorer{r: r}
	r.Assume("little-endian 64-bit platform (typed arrays use the native byte order; int is 64 bits)")
	r.Assume("NaN payloads stored by the engine are accepted as long as the stored element is a NaN (ECMA-262 leaves the encoding implementation-defined)")
	r.Assume("the order in which a sort calls its comparator is implementation-defined; comparators in the alphabet are consistent, effects are attached to call numbers every comparison sort reaches")

	// phase 0: regression corpus (minimal inputs of the listed findings)
	for i := range corpus {
		c := corpus[i]
		w := getWorld(0)
		sr := w.step(c.Cfg, c.St, &c.Op)
		r.Transitions(1)
		r.Traces(1)
		r.Eval(1)
		if sr.fail != nil {
			e.report(w, c, sr.fail)
		}
		if sr.panicked {
			w.reset()
		}
	}
	r.Set("corpus_cases", len(corpus))

	var bounds []bound
	allAligns := []int{0, 1, 2, 3, 4, 5, 6, 7}
	if r.Quick() {
		bounds = []bound{
			{name: "depth 1, buffers 0..16 bytes, full alphabet", sizes: seq(0, 16), depth: 1, level: lvFull, aligns: []int{0}, spares: []bool{false}},
			{name: "depth 1, buffers 0..9 and 16 bytes, slab variants (alignment 0..7 x clipped/spare capacity), views at the buffer ends, thinned alphabet, start states inc + detached", sizes: append(seq(0, 9), 16), depth: 1, level: lvMin, aligns: allAligns, spares: []bool{true, false}, variantsOnly: true},
			{name: "depth 2, buffers 0..4 bytes", sizes: seq(0, 4), depth: 2, countFrom: 2, level: lvSmall, aligns: []int{0}, spares: []bool{false}},
		}
	} else {
		bounds = []bound{
			{name: "depth 1, buffers 0..24 bytes, full alphabet", sizes: seq(0, 24), depth: 1, level: lvFull, aligns: []int{0}, spares: []bool{false}},
			{name: "depth 1, buffers 0..24 bytes, slab variants (alignment 0..7 x clipped/spare capacity), views at the buffer ends, thinned alphabet, start states inc + detached", sizes: seq(0, 24), depth: 1, level: lvMin, aligns: allAligns, spares: []bool{true, false}, variantsOnly: true},
			{name: "depth 1, buffers 0..8 bytes, slab variants, every view, thinned alphabet", sizes: seq(0, 8), depth: 1, countFrom: 2, level: lvMin, aligns: allAligns, spares: []bool{true, false}},
			{name: "depth 2, buffers 0..8 bytes", sizes: seq(0, 8), depth: 2, countFrom: 2, level: lvSmall, aligns: []int{0}, spares: []bool{false}},
			{name: "depth 1, buffers of 31,32,33,48,63,64 bytes, views at the buffer ends, full alphabet, 4 slab variants", sizes: []int{31, 32, 33, 48, 63, 64}, depth: 1, level: lvFull, aligns: []int{0, 3}, spares: []bool{false, true}, variantsOnly: true},
			{name: "depth 3, buffers 0..3 bytes", sizes: seq(0, 3), depth: 3, countFrom: 3, level: lvSmall, aligns: []int{0}, spares: []bool{false}},
			{name: "depth 2, buffers 0..4 bytes, full alphabet at depth 1", sizes: seq(0, 4), depth: 2, countFrom: 3, level: lvFull, aligns: []int{0}, spares: []bool{false}},
		}
	}
	var completed []string
	var stats []map[string]interface{}
	all := true
	only := os.Getenv("C17_BOUNDS") // development aid: comma separated indices of the bounds to run (the run is then not exhaustive)
	for bi, b := range bounds {
		if only != "" && !strings.Contains(","+only+",", ","+strconv.Itoa(bi)+",") {
			all = false
			continue
		}
		var tasks []Config
		for _, sp := range b.spares {
			for _, al := range b.aligns {
				if b.level == lvMin && b.depth == 1 && al == 0 && !sp {
					continue // covered by the full-alphabet sweep
				}
				for _, c := range configs(b.sizes, al, sp) {
					if b.variantsOnly && !isVariantConfig(c) {
						continue
					}
					tasks = append(tasks, c)
				}
			}
		}
		sort.SliceStable(tasks, func(i, j int) bool { return tasks[i].N < tasks[j].N })
		t0 := e.trans.Load()
		s0 := e.states.Load()
		ok := r.Parallel(int64(len(tasks)), 1, func(worker int, lo, hi int64) {
			for i := lo; i < hi; i++ {
				e.exploreConfig(worker, tasks[i], b.depth, b.level, b.countFrom)
			}
		})
		r.Add("configurations", int64(len(tasks)))
		stats = append(stats, map[string]interface{}{"bound": b.name, "configurations": len(tasks), "states": e.states.Load() - s0, "transitions": e.trans.Load() - t0,
			"completed": ok && !r.Capped(), "elapsed_s": int(time.Since(r.Start).Seconds())})
		r.Set("bounds", stats)
		if !ok || r.Capped() {
			all = false
			break
		}
		completed = append(completed, b.name)
	}
	r.Set("bounds_completed", completed)
	r.Exhaustive(all)
}

func replay(r *core.Run, raw json.RawMessage) {
	var c Case
	if err := json.Unmarshal(raw, &c); err != nil {
		r.Violation("replay|bad-case", err.Error(), nil)
		return
	}
	w := newWorld()
	sr := w.step(c.Cfg, c.St, &c.Op)
	fmt.Printf("replay: %s :: %s\n  state %+v\n  model outcome %s, next state %+v\n", c.Cfg, c.Op.String(), c.St, sr.outcome, sr.next)
	if sr.fail != nil {
		r.Violation(sr.fail.sig, sr.fail.what, c)
	}
}

//go:embed corpus.json
var corpusJSON []byte

// corpus: one minimal failing transition per listed finding (taken from a complete quick run), executed first so
// that every listed finding is reached deterministically even when the sweep is cut by the deadline.
var corpus = func() []Case {
	var rows []struct {
		Signature string `json:"signature"`
		Case      Case   `json:"case"`
	}
	if err := json.Unmarshal(corpusJSON, &rows); err != nil {
		panic(err)
	}
	out := make([]Case, len(rows))
	for i, r := range rows {
		out[i] = r.Case
	}
	return out
}()
