package c17

import (
	"encoding/hex"
	"fmt"
	"math/big"
	"reflect"
	"strconv"
	"strings"
	"unsafe"

	"github.com/dop251/goja"

	"verif/ref/tamodel"
)

const (
	canaryLen = 64
	canary    = 0xA5
	maxBuf    = 64
)

// State is the abstract state of the two harness buffers (the view geometry is part of the Config).
type State struct {
	B1 string `json:"b1"` // hex
	D1 bool   `json:"d1"`
	B2 string `json:"b2"`
	D2 bool   `json:"d2"`
}

func (s State) key() string {
	return fmt.Sprintf("%s|%v|%s|%v", s.B1, s.D1, s.B2, s.D2)
}

// slab is one canary-guarded allocation: [canary 64][pad 0..7][buffer n][canary 64+...]
type slab struct {
	mem    []byte // whole allocation
	start  int    // index of the buffer inside mem
	n      int
	buf    []byte // the slice handed to goja
	frozen []byte // copy of mem taken when the buffer was detached (nil while attached)
	ab     goja.ArrayBuffer
	abv    goja.Value
}

func newSlab() *slab {
	return &slab{mem: make([]byte, canaryLen+8+maxBuf+canaryLen+8)}
}

// base8 returns the index inside mem of the first 8-byte aligned address.
func (s *slab) base8() int {
	a := uintptr(unsafe.Pointer(&s.mem[0]))
	return int((8 - a%8) % 8)
}

func (s *slab) setup(data []byte, align int, spare bool) {
	for i := range s.mem {
		s.mem[i] = canary
	}
	s.start = s.base8() + canaryLen + align
	s.n = len(data)
	copy(s.mem[s.start:], data)
	if spare {
		s.buf = s.mem[s.start : s.start+s.n]
	} else {
		s.buf = s.mem[s.start : s.start+s.n : s.start+s.n]
	}
	s.frozen = nil
}

func (s *slab) freeze() {
	if s.frozen == nil {
		s.frozen = append([]byte(nil), s.mem...)
	}
}

// world is the implementation side of one worker: a runtime, the two slabs and the helper functions.
type world struct {
	rt        *goja.Runtime
	s         [2]*slab
	view      *goja.Object // the primary view
	fxLog     []string
	vals      map[string]goja.Value
	fn        map[string]goja.Callable
	ctors     map[string]*goja.Object
	proto     map[string]goja.Callable // %TypedArray%.prototype methods and getters
	dvProto   map[string]goja.Callable
	abProto   map[string]goja.Callable
	writePos  int
	writeVal  byte
	logArr    *goja.Object
	useB2     bool
	outcomes  map[outcomeKey]bool
	construct map[string]goja.Constructor
	taProto   *goja.Object
	gopd      goja.Callable
	opsBuf    [nLevels][]Op // reusable alphabet buffers, one per level
	src       *goja.Object  // source typed array of the current operation (built before any detach)
}

// stateBytes returns the contents the two buffers are created with (a buffer that starts detached is created
// with zeros and detached afterwards).
func stateBytes(cfg Config, st State) (b1, b2 []byte) {
	b1, _ = hex.DecodeString(st.B1)
	b2, _ = hex.DecodeString(st.B2)
	if st.D1 {
		b1 = make([]byte, cfg.N)
	}
	if st.D2 {
		b2 = make([]byte, b2Len)
	}
	return
}

const prelude = `
var __log = [];
var __boom = {name: "Boom"};
function __fx(c) { __note(c); if (c === "T") throw __boom; __fxgo(c); }
function __mkEff(fx, prim) { var o = {}; o[Symbol.toPrimitive] = function() { __fx(fx); return prim; }; return o; }
function __mkCb(ret, at, fx, effRet, one) {
	var n = 0;
	return function(x, i) {
		if (n++ === at) __fx(fx);
		__log.push(x, i);
		switch (ret) {
		case "true": return true;
		case "false": return false;
		case "undef": return undefined;
		case "odd": return i % 2 === 1;
		case "x": return x;
		case "inc": return x + one;
		case "eff": return effRet;
		}
		throw new Error("bad cb");
	};
}
function __mkRed(at, fx) {
	var n = 0;
	return function(acc, x, i) { if (n++ === at) __fx(fx); __log.push(acc, x, i); return acc + x; };
}
function __mkCmp(ret, at, fx) {
	var n = 0;
	return function(a, b) {
		if (n++ === at) __fx(fx);
		switch (ret) {
		case "rev": return a < b ? 1 : a > b ? -1 : 0;
		case "mod4": return (typeof a === "bigint" ? Number(a % 4n) - Number(b % 4n) : a % 4 - b % 4) || 0; // never -0, see NOTES.md
		case "zero": return 0;
		case "nan": return NaN;
		case "neg0": return -0;
		}
		throw new Error("bad cmp");
	};
}
function __mkSpecies(mode, fx, K, off, len) {
	return function(a0, a1, a2) {
		if (fx !== "") __fx(fx);
		switch (mode) {
		case "fresh": return arguments.length === 1 ? new K(a0) : new K(a0, a1, a2);
		case "b1": return new K(__b1, off, len);
		case "b2": return new K(__b2, off, len);
		case "same": return __view;
		case "throw": throw __boom;
		}
		throw new Error("bad species");
	};
}
function __setSpecies(o, f) { var c = {}; c[Symbol.species] = f; Object.defineProperty(o, "constructor", {value: c, configurable: true, writable: true}); }
function __mkABSpecies(mode, fx) {
	return function(n) {
		if (fx !== "") __fx(fx);
		switch (mode) {
		case "fresh": return new ArrayBuffer(n);
		case "b2": return __b2;
		case "same": return __b1;
		case "throw": throw __boom;
		}
		throw new Error("bad species");
	};
}
function __get(v, k) { return v[k]; }
function __set(v, k, x) { v[k] = x; }
function __has(v, k) { return k in v; }
function __del(v, k) { return Reflect.deleteProperty(v, k); }
function __gopd(v, k) { var d = Object.getOwnPropertyDescriptor(v, k); return d === undefined ? undefined : [d.value, d.writable, d.enumerable, d.configurable]; }
function __def(v, k, x, shape) {
	var d;
	switch (shape) {
	case "value": d = {value: x}; break;
	case "empty": d = {}; break;
	case "full": d = {value: x, writable: true, enumerable: true, configurable: true}; break;
	case "nonconfigurable": d = {value: x, configurable: false}; break;
	case "nonenumerable": d = {value: x, enumerable: false}; break;
	case "nonwritable": d = {value: x, writable: false}; break;
	case "accessor": d = {get: function() { return 1; }}; break;
	}
	return Reflect.defineProperty(v, k, d);
}
function __keys(v, how) {
	switch (how) {
	case "own": return Reflect.ownKeys(v);
	case "keys": return Object.keys(v);
	}
	var out = [];
	for (var k in v) out.push(k);
	return out;
}
function __iter(v, m, at, fx) {
	var it = v[m](), out = [];
	for (var i = 0; ; i++) {
		if (i === at) __fx(fx);
		var r = it.next();
		if (r.done) break;
		out.push(r.value);
	}
	return out;
}
function __ctor(K, n, a0, a1, a2) { return n === 0 ? new K() : n === 1 ? new K(a0) : n === 2 ? new K(a0, a1) : new K(a0, a1, a2); }
function __dvctor(n, a0, a1, a2, fx) {
	var NT = function() {}.bind();
	Object.defineProperty(NT, "prototype", {get: function() { __fx(fx); return DataView.prototype; }});
	return Reflect.construct(DataView, n === 1 ? [a0] : n === 2 ? [a0, a1] : [a0, a1, a2], NT);
}
function __static(m, C, args) { return Object.getPrototypeOf(Int8Array)[m].apply(C, args); }
function __reset() { __log.length = 0; }
`

var preludePrg = goja.MustCompile("prelude.js", prelude, false)

func newWorld() *world {
	w := &world{s: [2]*slab{newSlab(), newSlab()}, outcomes: map[outcomeKey]bool{}}
	w.reset()
	return w
}

// reset creates a fresh runtime (used initially and after a Go panic escaped from the engine).
func (w *world) reset() {
	rt := goja.New()
	w.rt = rt
	w.vals = map[string]goja.Value{}
	w.fn = map[string]goja.Callable{}
	w.ctors = map[string]*goja.Object{}
	w.proto = map[string]goja.Callable{}
	w.dvProto = map[string]goja.Callable{}
	w.abProto = map[string]goja.Callable{}
	rt.Set("__note", func(c string) { w.fxLog = append(w.fxLog, c) })
	rt.Set("__fxgo", func(c string) { w.fxGo(c) })
	if _, err := rt.RunProgram(preludePrg); err != nil {
		panic(err)
	}
	for _, name := range []string{"__mkEff", "__mkCb", "__mkRed", "__mkCmp", "__mkSpecies", "__setSpecies", "__mkABSpecies", "__get", "__set", "__has", "__del", "__gopd", "__def", "__keys", "__iter", "__ctor", "__dvctor", "__static", "__reset"} {
		f, ok := goja.AssertFunction(rt.Get(name))
		if !ok {
			panic("prelude: " + name)
		}
		w.fn[name] = f
	}
	w.logArr = rt.Get("__log").(*goja.Object)
	w.construct = map[string]goja.Constructor{}
	for k := tamodel.Kind(0); k < tamodel.NKinds; k++ {
		w.ctors[k.Name()] = rt.Get(k.Name()).(*goja.Object)
	}
	w.ctors["DataView"] = rt.Get("DataView").(*goja.Object)
	w.ctors["ArrayBuffer"] = rt.Get("ArrayBuffer").(*goja.Object)
	for name, c := range w.ctors {
		w.construct[name], _ = goja.AssertConstructor(c)
	}
	w.taProto = w.ctors["Int8Array"].Get("prototype").(*goja.Object).Prototype()
	w.gopd, _ = goja.AssertFunction(rt.Get("Object").(*goja.Object).Get("getOwnPropertyDescriptor"))
}

// method returns the function (or getter) called name on proto, looked up once per runtime.
func (w *world) method(cache map[string]goja.Callable, proto *goja.Object, name string) goja.Callable {
	if f, ok := cache[name]; ok {
		return f
	}
	dv, err := w.gopd(goja.Undefined(), proto, w.rt.ToValue(name))
	if err != nil {
		panic(err)
	}
	var f goja.Callable
	if d, ok := dv.(*goja.Object); ok {
		if fn, ok := goja.AssertFunction(d.Get("value")); ok {
			f = fn
		} else if g := d.Get("get"); g != nil {
			f, _ = goja.AssertFunction(g)
		}
	}
	if f == nil {
		panic("harness: no method " + name)
	}
	cache[name] = f
	return f
}

func (w *world) taMethod(name string) goja.Callable { return w.method(w.proto, w.taProto, name) }
func (w *world) dvMethod(name string) goja.Callable {
	return w.method(w.dvProto, w.ctors["DataView"].Get("prototype").(*goja.Object), name)
}
func (w *world) abMethod(name string) goja.Callable {
	return w.method(w.abProto, w.ctors["ArrayBuffer"].Get("prototype").(*goja.Object), name)
}

func (w *world) fxGo(code string) {
	switch code {
	case "D1":
		w.detach(0)
	case "D2":
		w.detach(1)
	case "W":
		s := w.s[0]
		if s.frozen == nil && w.writePos < s.n {
			s.buf[w.writePos] = w.writeVal
		}
	case "N":
	default:
		panic("unknown effect " + code)
	}
}

func (w *world) detach(i int) bool {
	s := w.s[i]
	ok := s.ab.Detach()
	s.freeze()
	return ok
}

// val builds (and caches) the JavaScript value for a primitive or effect argument.
func (w *world) val(a Arg) goja.Value {
	switch a.T {
	case "undef", "elem0", "elemLast":
		return goja.Undefined()
	case "null":
		return goja.Null()
	case "list":
		items := make([]interface{}, len(a.L))
		for i, e := range a.L {
			items[i] = w.val(e)
		}
		return w.rt.NewArray(items...)
	}
	key := a.String()
	if v, ok := w.vals[key]; ok {
		return v
	}
	var v goja.Value
	var err error
	switch a.T {
	case "bool":
		v = w.rt.ToValue(a.V == "true")
	case "num":
		v, err = w.rt.RunString("(" + a.V + ")")
	case "big":
		v, err = w.rt.RunString("(" + a.V + "n)")
	case "str":
		v = w.rt.ToValue(a.V)
	case "eff":
		v, err = w.fn["__mkEff"](goja.Undefined(), w.rt.ToValue(a.Fx), w.val(*a.P))
	default:
		panic("arg type " + a.T)
	}
	if err != nil {
		panic(fmt.Sprintf("building %s: %v", key, err))
	}
	w.vals[key] = v
	return v
}

// fromModel converts a primitive model value into a JavaScript value.
func (w *world) fromModel(v tamodel.V) goja.Value {
	switch v.T {
	case tamodel.Undef:
		return goja.Undefined()
	case tamodel.Num:
		return w.rt.ToValue(v.N)
	case tamodel.Big:
		return w.rt.ToValue(new(big.Int).Set(v.B))
	}
	panic("fromModel")
}

// install sets up the slabs, buffers and the primary view for (cfg, st). B2 is only materialised for operations
// that can reach it.
func (w *world) install(cfg Config, st State, op *Op) error {
	b1, b2 := stateBytes(cfg, st)
	w.useB2 = op == nil || touchesB2(op)
	needGlobals := op == nil || op.Sp != nil || op.ABSp != nil
	for i, s := range w.s {
		if i == 1 && !w.useB2 {
			continue
		}
		if i == 0 {
			s.setup(b1, cfg.Align, cfg.Spare)
		} else {
			s.setup(b2, 0, false)
		}
		s.ab = w.rt.NewArrayBuffer(s.buf)
		s.abv = w.rt.ToValue(s.ab)
		if needGlobals {
			w.rt.Set(bufGlobals[i], s.abv)
		}
	}
	ctor := w.construct[cfg.View]
	view, err := ctor(nil, w.s[0].abv, w.rt.ToValue(cfg.Off), w.rt.ToValue(cfg.Len))
	if err != nil {
		return fmt.Errorf("cannot create %v: %v", cfg, err)
	}
	w.view = view
	if needGlobals {
		w.rt.Set("__view", view)
	}
	w.src = nil
	if op != nil && op.Src != nil {
		if w.src, err = w.mkSrc(op.Src); err != nil {
			return fmt.Errorf("cannot create source %v: %v", *op.Src, err)
		}
	}
	if st.D1 {
		w.detach(0)
	}
	if st.D2 && w.useB2 {
		w.detach(1)
	}
	w.fxLog = w.fxLog[:0]
	if op == nil || op.Cb != nil {
		w.fn["__reset"](goja.Undefined())
	}
	return nil
}

var bufGlobals = [2]string{"__b1", "__b2"}

// implResult is what the implementation side of a step produced.
type implResult struct {
	val    goja.Value
	thrown string // error class, "" if none
	msg    string
	panicv string // non-empty: a Go panic escaped from the engine
	extra  string // go-side operations: a rendered observation
}

func classify(err error) (string, string) {
	if ex, ok := err.(*goja.Exception); ok {
		if o, ok := ex.Value().(*goja.Object); ok {
			if n := o.Get("name"); n != nil {
				return n.String(), ex.Error()
			}
		}
		return "Thrown(" + ex.Value().String() + ")", ex.Error()
	}
	return fmt.Sprintf("%T", err), err.Error()
}

func (w *world) args(as []Arg) []goja.Value {
	out := make([]goja.Value, len(as))
	for i, a := range as {
		out[i] = w.val(a)
	}
	return out
}

func (w *world) mkSpecies(sp *tamodel.Species) goja.Value {
	v, err := w.fn["__mkSpecies"](goja.Undefined(), w.rt.ToValue(sp.Mode), w.rt.ToValue(sp.Fx), w.ctors[sp.Kind.Name()], w.rt.ToValue(sp.Off), w.rt.ToValue(sp.Len))
	if err != nil {
		panic(err)
	}
	return v
}

func (w *world) mkCb(cb *tamodel.Cb, k tamodel.Kind, reduce bool) goja.Value {
	if cb == nil {
		return goja.Undefined()
	}
	var v goja.Value
	var err error
	if reduce {
		v, err = w.fn["__mkRed"](goja.Undefined(), w.rt.ToValue(cb.At), w.rt.ToValue(cb.Fx))
	} else {
		var effRet goja.Value = goja.Undefined()
		if cb.Ret == "eff" {
			effRet = w.val(eff(cb.RetFx, one(k)))
		}
		v, err = w.fn["__mkCb"](goja.Undefined(), w.rt.ToValue(cb.Ret), w.rt.ToValue(cb.At), w.rt.ToValue(cb.Fx), effRet, w.val(one(k)))
	}
	if err != nil {
		panic(err)
	}
	return v
}

func (w *world) mkSrc(src *SrcSpec) (*goja.Object, error) {
	return w.construct[src.Kind](nil, w.s[src.Buf-1].abv, w.rt.ToValue(src.Off), w.rt.ToValue(src.Len))
}

// exec runs op on the installed state. resolved carries the model values of state-dependent arguments.
func (w *world) exec(cfg Config, op *Op, resolved []tamodel.V) (res implResult) {
	defer func() {
		if x := recover(); x != nil {
			res.panicv = fmt.Sprint(x)
		}
	}()
	done := func(v goja.Value, err error) implResult {
		if err != nil {
			c, m := classify(err)
			return implResult{thrown: c, msg: m}
		}
		return implResult{val: v}
	}
	kind, _ := tamodel.KindByName(cfg.View)
	und := goja.Undefined()
	switch op.K {
	case "go":
		return w.execGo(cfg, op)
	case "elem":
		var key goja.Value
		if op.Key != nil {
			if op.Key.Num {
				key = w.val(num(op.Key.V))
			} else {
				key = w.rt.ToValue(op.Key.V)
			}
		}
		switch op.M {
		case "get":
			return done(w.fn["__get"](und, w.view, key))
		case "has":
			return done(w.fn["__has"](und, w.view, key))
		case "delete":
			return done(w.fn["__del"](und, w.view, key))
		case "gopd":
			return done(w.fn["__gopd"](und, w.view, key))
		case "keys":
			return done(w.fn["__keys"](und, w.view, w.rt.ToValue(op.Desc)))
		case "set":
			return done(w.fn["__set"](und, w.view, key, w.val(op.Args[0])))
		case "define":
			return done(w.fn["__def"](und, w.view, key, w.val(op.Args[0]), w.rt.ToValue(op.Desc)))
		}
	case "call":
		if op.Sp != nil {
			if _, err := w.fn["__setSpecies"](und, w.view, w.mkSpecies(op.Sp)); err != nil {
				panic(err)
			}
		}
		args := w.args(op.Args)
		for i, a := range op.Args {
			if a.T == "elem0" || a.T == "elemLast" {
				args[i] = w.fromModel(resolved[i])
			}
		}
		switch op.M {
		case "every", "some", "find", "findIndex", "findLast", "findLastIndex", "forEach", "map", "filter":
			args = []goja.Value{w.mkCb(op.Cb, kind, false)}
		case "reduce", "reduceRight":
			args = append([]goja.Value{w.mkCb(op.Cb, kind, true)}, args...)
		case "sort", "toSorted":
			args = nil
			if op.Cmp != nil {
				if op.Cmp.Ret == "notfn" {
					args = []goja.Value{w.rt.ToValue(1)}
				} else {
					c, err := w.fn["__mkCmp"](und, w.rt.ToValue(op.Cmp.Ret), w.rt.ToValue(op.Cmp.At), w.rt.ToValue(op.Cmp.Fx))
					if err != nil {
						panic(err)
					}
					args = []goja.Value{c}
				}
			}
		case "keys", "values", "entries":
			at, fx := -1, ""
			if op.Cb != nil {
				at, fx = op.Cb.At, op.Cb.Fx
			}
			return done(w.fn["__iter"](und, w.view, w.rt.ToValue(op.M), w.rt.ToValue(at), w.rt.ToValue(fx)))
		case "set":
			if op.Src != nil {
				args[0] = w.src
			}
		}
		if op.M == "toString" { // %TypedArray%.prototype.toString is %Array.prototype.toString%
			f, _ := goja.AssertFunction(w.taProto.Get("toString"))
			return done(f(w.view))
		}
		return done(w.taMethod(op.M)(w.view, args...))
	case "static":
		var c goja.Value = w.ctors[op.Kind]
		if op.Sp != nil {
			c = w.mkSpecies(op.Sp)
		}
		var list goja.Value
		if op.M == "of" {
			list = w.val(Arg{T: "list", L: op.Args})
		} else {
			k, _ := tamodel.KindByName(op.Kind)
			if op.Sp != nil {
				k = op.Sp.Kind
			}
			l := []interface{}{w.val(op.Args[0])}
			if op.Cb != nil {
				l = append(l, w.mkCb(op.Cb, k, false))
			}
			list = w.rt.NewArray(l...)
		}
		return done(w.fn["__static"](und, w.rt.ToValue(op.M), c, list))
	case "ctor":
		switch op.M {
		case "buffer":
			a := append([]goja.Value{w.s[0].abv}, w.args(op.Args)...)
			for len(a) < 3 {
				a = append(a, und)
			}
			return done(w.fn["__ctor"](und, w.ctors[op.Kind], w.rt.ToValue(1+len(op.Args)), a[0], a[1], a[2]))
		case "typedarray":
			return done(w.fn["__ctor"](und, w.ctors[op.Kind], w.rt.ToValue(1), w.view, und, und))
		case "dataview":
			a := append([]goja.Value{w.s[0].abv}, w.args(op.Args)...)
			for len(a) < 3 {
				a = append(a, und)
			}
			if op.Desc == "" {
				return done(w.fn["__ctor"](und, w.ctors["DataView"], w.rt.ToValue(1+len(op.Args)), a[0], a[1], a[2]))
			}
			return done(w.fn["__dvctor"](und, w.rt.ToValue(1+len(op.Args)), a[0], a[1], a[2], w.rt.ToValue(op.Desc)))
		}
	case "dv":
		switch op.M {
		case "byteLength", "byteOffset":
			return done(w.dvMethod(op.M)(w.view))
		case "get", "set":
			return done(w.dvMethod(op.M+op.Kind)(w.view, w.args(op.Args)...))
		}
	case "ab":
		switch op.M {
		case "byteLength":
			return done(w.abMethod("byteLength")(w.s[0].abv))
		case "slice":
			if op.ABSp != nil {
				f, err := w.fn["__mkABSpecies"](und, w.rt.ToValue(op.ABSp.Mode), w.rt.ToValue(op.ABSp.Fx))
				if err != nil {
					panic(err)
				}
				if _, err := w.fn["__setSpecies"](und, w.s[0].abv, f); err != nil {
					panic(err)
				}
			}
			return done(w.abMethod("slice")(w.s[0].abv, w.args(op.Args)...))
		}
	}
	panic("harness: unknown op " + op.String())
}

// execGo performs the Go-side (host API) operations. Their observation is rendered into extra and compared
// with the model's rendering.
func (w *world) execGo(cfg Config, op *Op) implResult {
	s := w.s[0]
	switch op.M {
	case "detach":
		first := w.detach(0)
		second := s.ab.Detach()
		return implResult{extra: fmt.Sprintf("detach=%v again=%v detached=%v bytesNil=%v", first, second, s.ab.Detached(), s.ab.Bytes() == nil)}
	case "bytes":
		b := s.ab.Bytes()
		return implResult{extra: "bytes:" + aliasDesc(b, s, 0, s.n)}
	case "exportBuffer":
		x := s.abv.Export()
		ab, ok := x.(goja.ArrayBuffer)
		if !ok {
			return implResult{extra: fmt.Sprintf("export type %T", x)}
		}
		var bs []byte
		if err := w.rt.ExportTo(s.abv, &bs); err != nil {
			return implResult{extra: "exportTo error: " + err.Error()}
		}
		return implResult{extra: fmt.Sprintf("same=%v bytes:%s", ab == s.ab, aliasDesc(bs, s, 0, s.n))}
	case "export":
		x := w.view.Export()
		k, _ := tamodel.KindByName(cfg.View)
		rv := reflect.ValueOf(x)
		if rv.Kind() != reflect.Slice {
			return implResult{extra: fmt.Sprintf("export type %T", x)}
		}
		if s.frozen != nil { // detached: anything that does not panic and does not expose memory
			return implResult{extra: fmt.Sprintf("detached: len=%d", rv.Len())}
		}
		if int(rv.Type().Elem().Size()) != k.Size() {
			return implResult{extra: fmt.Sprintf("export type %T", x)}
		}
		if rv.Len() != cfg.Len {
			return implResult{extra: fmt.Sprintf("export len=%d", rv.Len())}
		}
		if rv.Len() > 0 && rv.Pointer() != uintptr(unsafe.Pointer(&s.mem[s.start+cfg.Off])) {
			return implResult{extra: "export: not aliasing the buffer"}
		}
		return implResult{extra: "alias"}
	case "exportTo":
		var bs []byte
		err := w.rt.ExportTo(w.view, &bs)
		if s.frozen != nil {
			if err != nil {
				return implResult{extra: "detached: len=0"}
			}
			return implResult{extra: fmt.Sprintf("detached: len=%d", len(bs))}
		}
		if err != nil {
			return implResult{extra: "exportTo error: " + err.Error()}
		}
		k, isTA := tamodel.KindByName(cfg.View)
		blen := cfg.Len
		if isTA {
			blen *= k.Size()
		}
		return implResult{extra: "bytes:" + aliasDesc(bs, s, cfg.Off, blen)}
	case "hostwrite":
		// the host stores into its own slice; every view must observe it
		if s.frozen == nil {
			s.buf[op.Pos] ^= 0xFF
		}
		k, _ := tamodel.KindByName(cfg.View)
		idx := (op.Pos - cfg.Off) / k.Size()
		if op.Pos < cfg.Off {
			idx = -1
		}
		v, err := w.fn["__get"](goja.Undefined(), w.view, w.rt.ToValue(idx))
		if err != nil {
			c, m := classify(err)
			return implResult{thrown: c, msg: m}
		}
		return implResult{val: v}
	}
	panic("harness: go op " + op.M)
}

func aliasDesc(b []byte, s *slab, off, n int) string {
	if s.frozen != nil {
		if b == nil {
			return "nil"
		}
		return fmt.Sprintf("detached-but-len=%d", len(b))
	}
	if len(b) != n {
		return fmt.Sprintf("len=%d", len(b))
	}
	if n > 0 && &b[0] != &s.mem[s.start+off] {
		return "not-aliasing"
	}
	return "alias"
}

// render of implementation values --------------------------------------------------------------

func (w *world) bufName(ab goja.ArrayBuffer) (string, []byte) {
	switch ab {
	case w.s[0].ab:
		return "B1", nil
	case w.s[1].ab:
		return "B2", nil
	}
	if ab.Detached() {
		return "fresh:detached", nil
	}
	return "fresh", ab.Bytes()
}

// describe renders an implementation value in the model's Render format. Fresh buffers are returned
// separately (so that NaN payloads can be reconciled) in the order of occurrence.
func (w *world) describe(v goja.Value, fresh *[][]byte) string {
	if v == nil || goja.IsUndefined(v) {
		return "undefined"
	}
	if goja.IsNull(v) {
		return "null"
	}
	if o, ok := v.(*goja.Object); ok {
		if o == w.view {
			return "this"
		}
		switch goja.VerifImpl(o) {
		case "*goja.typedArrayObject":
			name := o.GetSymbol(goja.SymToStringTag).String()
			ab, _ := o.Get("buffer").Export().(goja.ArrayBuffer)
			bn, data := w.bufName(ab)
			if bn == "fresh" {
				*fresh = append(*fresh, data)
				bn = "fresh:#"
			}
			return fmt.Sprintf("%s{buf=%s off=%s len=%s}", name, bn, o.Get("byteOffset").String(), o.Get("length").String())
		case "*goja.arrayBufferObject":
			ab, _ := o.Export().(goja.ArrayBuffer)
			bn, data := w.bufName(ab)
			if bn == "fresh" {
				*fresh = append(*fresh, data)
				bn = "fresh:#"
			}
			return "ArrayBuffer{" + bn + "}"
		case "*goja.dataViewObject":
			ab, _ := o.Get("buffer").Export().(goja.ArrayBuffer)
			bn, _ := w.bufName(ab)
			var off, ln string
			if ab.Detached() {
				off, ln = "0", "0"
			} else {
				off, ln = o.Get("byteOffset").String(), o.Get("byteLength").String()
			}
			return fmt.Sprintf("DataView{buf=%s off=%s len=%s}", bn, off, ln)
		case "*goja.arrayObject":
			n := int(o.Get("length").ToInteger())
			var sb strings.Builder
			sb.WriteByte('[')
			for i := 0; i < n; i++ {
				if i > 0 {
					sb.WriteByte(',')
				}
				sb.WriteString(w.describe(o.Get(strconv.Itoa(i)), fresh))
			}
			sb.WriteByte(']')
			return sb.String()
		}
		return "object:" + goja.VerifImpl(o)
	}
	switch x := v.Export().(type) {
	case int64:
		return tamodel.FmtNum(float64(x))
	case float64:
		return tamodel.FmtNum(x)
	case bool:
		return strconv.FormatBool(x)
	case string:
		return strconv.Quote(x)
	case *big.Int:
		return x.String() + "n"
	}
	return fmt.Sprintf("value:%T", v.Export())
}
