package c17

import (
	"os"
	"strings"
	"syscall"
)

// The engine computes element pointers with unsafe.Add from the buffer's data pointer. For a detached buffer
// that pointer is nil, so e.g. typedArray.set(idx, v) holds the bogus pointer nil+idx*size in its frame while it
// converts v (listed findings call.map / static.of / static.from ... go-panic:nil-deref). If the goroutine's stack is
// copied at that moment the Go runtime aborts the whole process ("fatal error: invalid pointer found on stack"),
// which no recover() can intercept and which depends on GC timing. GODEBUG=invalidptr=0 turns that runtime
// self-check off, so that the defect shows up deterministically as the (recoverable) nil-pointer panic the oracle
// reports. The variable must be set before the runtime starts, hence the re-exec.
func init() {
	if strings.Contains(os.Getenv("GODEBUG"), "invalidptr=") {
		return
	}
	exe, err := os.Executable()
	if err != nil {
		return
	}
	dbg := "invalidptr=0"
	if old := os.Getenv("GODEBUG"); old != "" {
		dbg = old + "," + dbg
	}
	env := append(os.Environ(), "GODEBUG="+dbg)
	_ = syscall.Exec(exe, os.Args, env) // only returns on error: then run with the check enabled
}
