package c17

import (
	"fmt"
	"strconv"
	"strings"

	"verif/ref/tamodel"
)

// Arg is one argument value of an operation, described so that it can be built both as a model value and as
// a real JavaScript value.
type Arg struct {
	T  string `json:"t"`            // undef | null | bool | num | big | str | eff | list
	V  string `json:"v,omitempty"`  // literal (JavaScript source form for num; decimal digits for big)
	Fx string `json:"fx,omitempty"` // eff: effect executed by the object's Symbol.toPrimitive
	P  *Arg   `json:"p,omitempty"`  // eff: primitive returned after the effect
	L  []Arg  `json:"l,omitempty"`  // list elements
}

func num(s string) Arg  { return Arg{T: "num", V: s} }
func inum(i int) Arg    { return Arg{T: "num", V: strconv.Itoa(i)} }
func bigA(s string) Arg { return Arg{T: "big", V: s} }
func str(s string) Arg  { return Arg{T: "str", V: s} }
func eff(fx string, p Arg) Arg {
	return Arg{T: "eff", Fx: fx, P: &p}
}

var undef = Arg{T: "undef"}
var null = Arg{T: "null"}
var boolT = Arg{T: "bool", V: "true"}

func (a Arg) hasFx() bool {
	if a.T == "eff" {
		return true
	}
	for _, e := range a.L {
		if e.hasFx() {
			return true
		}
	}
	return false
}

func (a Arg) fx() string {
	if a.T == "eff" {
		return a.Fx
	}
	for _, e := range a.L {
		if f := e.fx(); f != "" {
			return f
		}
	}
	return ""
}

func (a Arg) String() string {
	switch a.T {
	case "undef", "null":
		return a.T
	case "elem0":
		return "this[0]"
	case "elemLast":
		return "this[len-1]"
	case "bool", "num":
		return a.V
	case "big":
		return a.V + "n"
	case "str":
		return strconv.Quote(a.V)
	case "eff":
		return "{" + a.Fx + "->" + a.P.String() + "}"
	case "list":
		s := make([]string, len(a.L))
		for i, e := range a.L {
			s[i] = e.String()
		}
		return "[" + strings.Join(s, ",") + "]"
	}
	return "?"
}

// KeySpec is a property key: a Number (Num=true, V a numeric literal) or a String.
type KeySpec struct {
	Num bool   `json:"num"`
	V   string `json:"v"`
}

// SrcSpec describes a second typed array (source of %TypedArray%.prototype.set, argument of a constructor).
type SrcSpec struct {
	Buf  int    `json:"buf"` // 1 | 2 : a view over harness buffer B1 / B2; 0: a fresh array holding Vals
	Kind string `json:"kind"`
	Off  int    `json:"off"`
	Len  int    `json:"len"`
}

// Op is one operation of the alphabet.
type Op struct {
	K    string             `json:"k"` // elem | call | static | ctor | dv | ab | go
	M    string             `json:"m"`
	Args []Arg              `json:"args,omitempty"`
	Key  *KeySpec           `json:"key,omitempty"`
	Desc string             `json:"desc,omitempty"`
	Cb   *tamodel.Cb        `json:"cb,omitempty"`
	Cmp  *tamodel.Cmp       `json:"cmp,omitempty"`
	Sp   *tamodel.Species   `json:"sp,omitempty"`
	Src  *SrcSpec           `json:"src,omitempty"`
	ABSp *tamodel.ABSpecies `json:"absp,omitempty"`
	Kind string             `json:"kind,omitempty"` // ctor/static/dv: element kind the operation is about
	Pos  int                `json:"pos,omitempty"`  // go.hostwrite: byte position
	Conv bool               `json:"conv,omitempty"` // member of the value-conversion sub-alphabet (signatures then name the element type)
}

func (o *Op) String() string {
	var sb strings.Builder
	sb.WriteString(o.K + "." + o.M)
	if o.Kind != "" {
		sb.WriteString("<" + o.Kind + ">")
	}
	if o.Key != nil {
		if o.Key.Num {
			sb.WriteString("[" + o.Key.V + "]")
		} else {
			sb.WriteString("[" + strconv.Quote(o.Key.V) + "]")
		}
	}
	if o.Desc != "" {
		sb.WriteString("{" + o.Desc + "}")
	}
	sb.WriteByte('(')
	for i, a := range o.Args {
		if i > 0 {
			sb.WriteByte(',')
		}
		sb.WriteString(a.String())
	}
	sb.WriteByte(')')
	if o.Cb != nil {
		fmt.Fprintf(&sb, " cb{%s fx=%s@%d retfx=%s}", o.Cb.Ret, o.Cb.Fx, o.Cb.At, o.Cb.RetFx)
	}
	if o.Cmp != nil {
		fmt.Fprintf(&sb, " cmp{%s fx=%s@%d}", o.Cmp.Ret, o.Cmp.Fx, o.Cmp.At)
	}
	if o.Sp != nil {
		fmt.Fprintf(&sb, " species{%s fx=%s %s off=%d len=%d}", o.Sp.Mode, o.Sp.Fx, o.Sp.Kind.Name(), o.Sp.Off, o.Sp.Len)
	}
	if o.Src != nil {
		fmt.Fprintf(&sb, " src{B%d %s off=%d len=%d}", o.Src.Buf, o.Src.Kind, o.Src.Off, o.Src.Len)
	}
	if o.ABSp != nil {
		fmt.Fprintf(&sb, " abspecies{%s fx=%s}", o.ABSp.Mode, o.ABSp.Fx)
	}
	if o.K == "go" && o.M == "hostwrite" {
		fmt.Fprintf(&sb, " pos=%d", o.Pos)
	}
	return sb.String()
}

func (a *Arg) appendKey(b []byte) []byte {
	b = append(b, a.T...)
	b = append(b, ':')
	b = append(b, a.V...)
	if a.T == "eff" {
		b = append(b, a.Fx...)
		b = append(b, '>')
		b = a.P.appendKey(b)
	}
	for i := range a.L {
		b = append(b, '[')
		b = a.L[i].appendKey(b)
	}
	return append(b, ';')
}

// appendKey appends a string identifying the operation completely (cheaper than String).
func (o *Op) appendKey(b []byte) []byte {
	b = append(b, o.K...)
	b = append(b, '.')
	b = append(b, o.M...)
	b = append(b, '|')
	b = append(b, o.Kind...)
	b = append(b, '|')
	b = append(b, o.Desc...)
	b = append(b, '|')
	if o.Key != nil {
		if o.Key.Num {
			b = append(b, '#')
		}
		b = append(b, o.Key.V...)
	}
	b = append(b, '|')
	for i := range o.Args {
		b = o.Args[i].appendKey(b)
	}
	if o.Cb != nil {
		b = append(b, "cb"...)
		b = append(b, o.Cb.Ret...)
		b = strconv.AppendInt(b, int64(o.Cb.At), 10)
		b = append(b, o.Cb.Fx...)
		b = append(b, '/')
		b = append(b, o.Cb.RetFx...)
	}
	if o.Cmp != nil {
		b = append(b, "cmp"...)
		b = append(b, o.Cmp.Ret...)
		b = strconv.AppendInt(b, int64(o.Cmp.At), 10)
		b = append(b, o.Cmp.Fx...)
	}
	if o.Sp != nil {
		b = append(b, "sp"...)
		b = append(b, o.Sp.Mode...)
		b = append(b, o.Sp.Fx...)
		b = strconv.AppendInt(b, int64(o.Sp.Kind), 10)
		b = append(b, ',')
		b = strconv.AppendInt(b, int64(o.Sp.Off), 10)
		b = append(b, ',')
		b = strconv.AppendInt(b, int64(o.Sp.Len), 10)
	}
	if o.Src != nil {
		b = append(b, "src"...)
		b = strconv.AppendInt(b, int64(o.Src.Buf), 10)
		b = append(b, o.Src.Kind...)
		b = strconv.AppendInt(b, int64(o.Src.Off), 10)
		b = append(b, ',')
		b = strconv.AppendInt(b, int64(o.Src.Len), 10)
	}
	if o.ABSp != nil {
		b = append(b, "absp"...)
		b = append(b, o.ABSp.Mode...)
		b = append(b, o.ABSp.Fx...)
	}
	if o.Pos != 0 {
		b = append(b, '@')
		b = strconv.AppendInt(b, int64(o.Pos), 10)
	}
	return b
}

// fxSite names where (if anywhere) the operation carries a side effect: part of the violation signature.
func (o *Op) fxSite() string {
	var parts []string
	for i, a := range o.Args {
		if f := a.fx(); f != "" {
			if a.T == "list" {
				parts = append(parts, "elem:"+f)
			} else {
				parts = append(parts, fmt.Sprintf("arg%d:%s", i, f))
			}
		}
	}
	if o.Cb != nil {
		if o.Cb.Fx != "" && o.Cb.At >= 0 {
			parts = append(parts, "cb:"+o.Cb.Fx)
		}
		if o.Cb.Ret == "eff" {
			parts = append(parts, "cbret:"+o.Cb.RetFx)
		}
	}
	if o.Cmp != nil && o.Cmp.Fx != "" && o.Cmp.At >= 0 {
		parts = append(parts, "cmp:"+o.Cmp.Fx)
	}
	if o.Sp != nil {
		s := "species:" + o.Sp.Mode
		if o.Sp.Fx != "" {
			s += "+" + o.Sp.Fx
		}
		parts = append(parts, s)
	}
	if o.ABSp != nil {
		s := "species:" + o.ABSp.Mode
		if o.ABSp.Fx != "" {
			s += "+" + o.ABSp.Fx
		}
		parts = append(parts, s)
	}
	if len(parts) == 0 {
		return "-"
	}
	return strings.Join(parts, ",")
}

// label is the operation class used in signatures.
func (o *Op) label() string {
	s := o.K + "." + o.M
	switch {
	case o.K == "elem" && o.M == "define":
		s += "{" + o.Desc + "}"
	case o.K == "elem" && o.Key != nil:
		if o.Key.Num {
			s += "[num]"
		} else {
			s += "[str]"
		}
	case o.K == "call" && o.M == "set" && o.Src != nil:
		s += "(typedarray)"
	case o.K == "call" && o.M == "set":
		s += "(arraylike)"
	}
	return s
}

// ---------------------------------------------------------------------------------------------
// alphabet

// Config is one (buffer, view) start configuration.
type Config struct {
	N     int    `json:"n"`     // byte length of buffer B1
	Align int    `json:"align"` // address of B1 modulo 8
	Spare bool   `json:"spare"` // B1 is handed over with spare capacity (cap > len) instead of a clipped slice
	View  string `json:"view"`  // "Int8Array" ... "BigUint64Array" | "DataView"
	Off   int    `json:"off"`   // byte offset of the view
	Len   int    `json:"len"`   // element count (DataView: byte length)
}

func (c Config) String() string {
	return fmt.Sprintf("B1[%d]@%d spare=%v %s(off=%d,len=%d)", c.N, c.Align, c.Spare, c.View, c.Off, c.Len)
}

const b2Len = 8 // byte length of the second harness buffer B2

func one(k tamodel.Kind) Arg {
	if k.IsBig() {
		return bigA("1")
	}
	return num("1")
}

// values stored through ordinary paths (boundary classes of ToNumber / ToBigInt and of the integer conversions).
func valuePool(k tamodel.Kind) []Arg {
	if k.IsBig() {
		return []Arg{bigA("0"), bigA("1"), bigA("-1"), bigA("9223372036854775807"), bigA("9223372036854775808"), bigA("18446744073709551615"),
			bigA("18446744073709551616"), bigA("18446744073709551617"), bigA("-9223372036854775808"), bigA("-9223372036854775809"),
			str("7"), str("0x10"), str(""), str("abc"), str("1.5"), num("1"), boolT, undef, null}
	}
	return []Arg{num("0"), num("1"), num("-1"), num("255"), num("256"), num("1.5"), num("-0"), num("NaN"), num("Infinity"), num("-Infinity"),
		num("127"), num("128"), num("-129"), num("32768"), num("65535"), num("65536"), num("2147483647"), num("2147483648"), num("-2147483649"),
		num("4294967295"), num("4294967296"), num("9007199254740992"), num("0.5"), num("2.5"), num("254.5"), num("-0.5"), num("-1.5"),
		str("7"), str(" 12 "), str("0x10"), str("abc"), str(""), boolT, undef, null, bigA("1")}
}

// extra values for the conversion sub-alphabet (huge magnitudes, float32 rounding boundaries); used only by
// element store with key 0, fill() and DataView setters.
func convPool(k tamodel.Kind) []Arg {
	if k.IsBig() {
		return []Arg{bigA("340282366920938463463374607431768211456"), bigA("-340282366920938463463374607431768211457"), str("-7"), str("0b101"), str(" 9 ")}
	}
	return []Arg{num("9223372036854775808"), num("9223372036854777856"), num("-9223372036854777856"), num("18446744073709555712"), num("1e21"), num("-1e21"),
		num("1.7976931348623157e308"), num("5e-324"), num("16777217"), num("16777219"), num("1.00000005960464477539"), num("1.0000001788139343"),
		num("3.4028234663852886e38"), num("3.4028235677973362e38"), num("3.4028235677973366e38"), num("-3.4028235677973366e38"),
		num("1e-46"), num("7.006492321624085e-46"), num("7.006492321624087e-46"), num("1.401298464324817e-45"), num("1.1754942106924411e-38"),
		num("255.5"), num("0.49999999999999994"), num("1e10"), num("4294967297"), num("-4294967297"), num("-2147483648"), num("1e3"), str("1e3"), str("-Infinity"), str("Infinity")}
}

// the reduced value set combined with the larger index pools
func smallValues(k tamodel.Kind) []Arg {
	if k.IsBig() {
		return []Arg{bigA("1"), bigA("-1"), bigA("18446744073709551617"), str("7"), num("1"), undef}
	}
	return []Arg{num("1"), num("-1"), num("1.5"), num("NaN"), num("256"), str("7"), undef, bigA("1")}
}

func effValues(k tamodel.Kind) []Arg {
	return []Arg{eff("D1", one(k)), eff("T", one(k)), eff("D2", one(k)), eff("W", one(k))}
}

// relative index pool for (start, end, target, fromIndex) arguments of a view with length n
func relPool(n int, full bool) []Arg {
	p := []Arg{undef, inum(0), inum(1), inum(-1), inum(n), inum(n + 1), num("-Infinity")}
	if full {
		p = append(p, inum(n-1), inum(-n), inum(-n-1), num("Infinity"), num("1.5"), num("NaN"), num("2147483648"), num("9007199254740992"), str("1"))
	}
	return dedupArgs(p)
}

func relEff() []Arg {
	return []Arg{eff("D1", inum(0)), eff("D1", inum(1)), eff("T", inum(0)), eff("W", inum(0))}
}

func dedupArgs(p []Arg) []Arg {
	seen := map[string]bool{}
	out := p[:0:0]
	for _, a := range p {
		k := a.String()
		if !seen[k] {
			seen[k] = true
			out = append(out, a)
		}
	}
	return out
}

func keyPool(n int) []KeySpec {
	ks := []KeySpec{{true, "0"}, {true, strconv.Itoa(n - 1)}, {true, strconv.Itoa(n)}, {true, "-1"}, {true, "1"}, {true, "-0"},
		{true, "2147483648"}, {true, "4294967295"}, {true, "4294967296"}, {true, "9007199254740992"},
		{false, "0"}, {false, strconv.Itoa(n - 1)}, {false, strconv.Itoa(n)}, {false, "-1"}, {false, "-0"}, {false, "1.5"},
		{false, "Infinity"}, {false, "-Infinity"}, {false, "NaN"}, {false, "2147483648"}, {false, "9007199254740992"}, {false, "18446744073709552000"}, {false, "1e+21"}}
	seen := map[KeySpec]bool{}
	out := ks[:0:0]
	for _, k := range ks {
		if !seen[k] {
			seen[k] = true
			out = append(out, k)
		}
	}
	return out
}

// oneFx reports whether at most one of the arguments carries an effect (single fault position per operation).
func oneFx(args ...Arg) bool {
	n := 0
	for _, a := range args {
		if a.hasFx() {
			n++
		}
	}
	return n <= 1
}

// trimArgs drops trailing "undef" so that missing arguments are really missing.
func trimArgs(args ...Arg) []Arg {
	for len(args) > 0 && args[len(args)-1].T == "undef" {
		args = args[:len(args)-1]
	}
	return append([]Arg(nil), args...)
}

func cbVariants(rets []string, n int) []*tamodel.Cb {
	var out []*tamodel.Cb
	for _, r := range rets {
		out = append(out, &tamodel.Cb{Ret: r, At: -1})
	}
	for _, fx := range []string{"D1", "T", "W"} {
		for _, at := range []int{0, 1} {
			if at >= n && n > 0 {
				continue
			}
			out = append(out, &tamodel.Cb{Ret: rets[0], At: at, Fx: fx})
		}
	}
	return out
}

func dedupInts(v ...int) []int {
	seen := map[int]bool{}
	var out []int
	for _, x := range v {
		if !seen[x] {
			seen[x] = true
			out = append(out, x)
		}
	}
	return out
}

var allKinds = func() []tamodel.Kind {
	var ks []tamodel.Kind
	for k := tamodel.Kind(0); k < tamodel.NKinds; k++ {
		ks = append(ks, k)
	}
	return ks
}()

// Alphabet levels.
const (
	lvFull    = 0 // every operation with the full argument pools (start state "inc")
	lvSmall   = 1 // every operation with reduced argument pools (detached start states, slab variants, depth >= 2)
	lvContent = 2 // operations whose result depends on the buffer contents (the other content patterns)
	lvB2      = 3 // operations involving the second buffer (start state with B2 detached), thinned
	lvMin     = 4 // lvSmall thinned to the first few operations of every (operation, effect site) class
	nLevels   = 5
)

// thin keeps the first per operations of every (operation label, effect site) class: a deterministic sub-alphabet
// that still contains every operation and every fault position.
func thin(dst, ops []Op, per int) []Op {
	cnt := map[string]int{}
	for i := range ops {
		c := ops[i].label() + "|" + ops[i].Kind + "|" + ops[i].fxSite()
		if cnt[c] < per {
			cnt[c]++
			dst = append(dst, ops[i])
		}
	}
	return dst
}

// isConvHost: the configuration of each (buffer length, element type) that carries the value-conversion sub-alphabet.
func isConvHost(cfg Config) bool {
	if cfg.View == "DataView" {
		return cfg.Off == 0 && cfg.Len == cfg.N
	}
	k, _ := tamodel.KindByName(cfg.View)
	return cfg.Off == 0 && cfg.Len == cfg.N/k.Size()
}

// speciesVariants: constructors handed to TypedArraySpeciesCreate / used as the this value of from/of. count is
// the element count the operation will ask for, used to build exactly-fitting, too-short and longer aliasing views.
func speciesVariants(cfg Config, k tamodel.Kind, count int, level int) []*tamodel.Species {
	alt := k // a different element type of the same content type and a different size where possible
	switch {
	case k.IsBig():
		alt = tamodel.BigInt64
		if k == tamodel.BigInt64 {
			alt = tamodel.BigUint64
		}
	case k.Size() == 1:
		alt = tamodel.Int16
	default:
		alt = tamodel.Uint8
	}
	out := []*tamodel.Species{
		{Mode: "fresh", Kind: k},
		{Mode: "fresh", Kind: alt},
		{Mode: "fresh", Kind: k, Fx: "D1"},
		{Mode: "throw", Kind: k},
		{Mode: "same", Kind: k},
	}
	kinds := []tamodel.Kind{k, alt}
	if level != lvFull {
		kinds = kinds[:1]
	}
	for _, kk := range kinds {
		sz := kk.Size()
		maxEl := cfg.N / sz
		for _, ln := range dedupInts(count, count-1, maxEl) {
			if ln < 0 || ln > maxEl {
				continue
			}
			last := cfg.N - ln*sz
			last -= last % sz
			for _, off := range dedupInts(0, last) {
				if off < 0 || off+ln*sz > cfg.N {
					continue
				}
				out = append(out, &tamodel.Species{Mode: "b1", Kind: kk, Off: off, Len: ln})
			}
		}
		max2 := b2Len / sz
		for _, ln := range dedupInts(count, count-1) {
			if ln < 0 || ln > max2 {
				continue
			}
			out = append(out, &tamodel.Species{Mode: "b2", Kind: kk, Off: (max2 - ln) * sz, Len: ln})
		}
	}
	out = append(out, &tamodel.Species{Mode: "b2", Kind: k, Off: 0, Len: b2Len / k.Size(), Fx: "D2"})
	return out
}

func touchesB2(o *Op) bool {
	if o.Src != nil && o.Src.Buf == 2 {
		return true
	}
	if o.Sp != nil && (o.Sp.Mode == "b2" || o.Sp.Fx == "D2") {
		return true
	}
	if o.ABSp != nil && (o.ABSp.Mode == "b2" || o.ABSp.Fx == "D2") {
		return true
	}
	if o.Cb != nil && (o.Cb.Fx == "D2" || o.Cb.RetFx == "D2") {
		return true
	}
	for _, a := range o.Args {
		if a.fx() == "D2" {
			return true
		}
	}
	return false
}

// isShared: the configuration that also carries the view-independent operations on B1 (constructors over the
// buffer, ArrayBuffer.prototype.slice), so that they run once per buffer length and start state.
func isShared(cfg Config) bool {
	return cfg.View == "Uint8Array" && cfg.Off == 0 && cfg.Len == cfg.N
}

// alphabet returns every operation applicable to cfg at the given level, simplest first.
func alphabet(cfg Config, level int) []Op { return alphabetInto(nil, cfg, level) }

// alphabetInto appends the alphabet to buf[:0] (buffers are reused per worker: the slices are large).
func alphabetInto(buf []Op, cfg Config, level int) []Op {
	ops := buf[:0]
	switch level {
	case lvB2:
		full := alphabetInto(nil, cfg, lvFull)
		var b2 []Op
		for i := range full {
			if touchesB2(&full[i]) {
				b2 = append(b2, full[i])
			}
		}
		return thin(ops, b2, 4)
	case lvMin:
		return thin(ops, alphabetInto(nil, cfg, lvSmall), 4)
	}
	if cfg.View == "DataView" {
		ops = dvAlphabet(ops, cfg, level)
	} else {
		ops = taAlphabet(ops, cfg, level)
	}
	if isShared(cfg) && level != lvContent {
		ops = append(ops, sharedOps(cfg, level)...)
	}
	return dedupOps(ops)
}

// dedupOps removes operations generated twice by overlapping argument pools (in place, order preserved).
func dedupOps(ops []Op) []Op {
	seen := make(map[string]struct{}, len(ops))
	out := ops[:0]
	var buf []byte
	for i := range ops {
		buf = ops[i].appendKey(buf[:0])
		k := string(buf)
		if _, dup := seen[k]; dup {
			continue
		}
		seen[k] = struct{}{}
		out = append(out, ops[i])
	}
	return out
}

func taAlphabet(ops []Op, cfg Config, level int) []Op {
	k, _ := tamodel.KindByName(cfg.View)
	n := cfg.Len
	sz := k.Size()
	full := level == lvFull
	add := func(o Op) { ops = append(ops, o) }
	vals := valuePool(k)
	effs := effValues(k)
	small := smallValues(k)
	keys := keyPool(n)
	one := one(k)
	rp := relPool(n, full)
	rp3 := relPool(n, false)
	re := relEff()
	if !full {
		re = re[:3]
	}
	rpe := append(append([]Arg{}, rp...), re...)
	rp3e := append(append([]Arg{}, rp3...), re...)

	if level == lvContent {
		// operations whose outcome depends on what the buffer contains
		for i := range keys[:3] {
			add(Op{K: "elem", M: "get", Key: &keys[i]})
			add(Op{K: "elem", M: "gopd", Key: &keys[i]})
		}
		for _, a := range []Arg{inum(0), inum(-1)} {
			add(Op{K: "call", M: "at", Args: []Arg{a}})
		}
		for _, m := range []string{"reverse", "toReversed", "join", "values", "entries"} {
			add(Op{K: "call", M: m})
		}
		for _, m := range []string{"includes", "indexOf", "lastIndexOf"} {
			for _, v := range contentSearchVals(k, n) {
				add(Op{K: "call", M: m, Args: []Arg{v}})
				add(Op{K: "call", M: m, Args: []Arg{v, inum(1)}})
				add(Op{K: "call", M: m, Args: []Arg{v, inum(-1)}})
			}
		}
		for _, m := range []string{"sort", "toSorted"} {
			for _, c := range cmpVariants(k, n, true) {
				add(Op{K: "call", M: m, Cmp: c})
			}
		}
		add(Op{K: "call", M: "slice"})
		add(Op{K: "call", M: "copyWithin", Args: []Arg{inum(1), inum(0)}})
		add(Op{K: "call", M: "copyWithin", Args: []Arg{inum(0), inum(1)}})
		add(Op{K: "call", M: "with", Args: []Arg{inum(0), one}})
		for _, m := range []string{"find", "findLast", "every", "forEach"} {
			add(Op{K: "call", M: m, Cb: &tamodel.Cb{Ret: "odd", At: -1}})
		}
		add(Op{K: "call", M: "filter", Cb: &tamodel.Cb{Ret: "odd", At: -1}})
		add(Op{K: "call", M: "map", Cb: &tamodel.Cb{Ret: "x", At: -1}})
		add(Op{K: "call", M: "map", Cb: &tamodel.Cb{Ret: "inc", At: -1}})
		for _, sp := range speciesVariants(cfg, k, n, lvFull)[:2] {
			add(Op{K: "call", M: "map", Cb: &tamodel.Cb{Ret: "x", At: -1}, Sp: sp})
			add(Op{K: "call", M: "slice", Sp: sp})
		}
		for _, m := range []string{"reduce", "reduceRight"} {
			add(Op{K: "call", M: m, Cb: &tamodel.Cb{Ret: "sum", At: -1}})
		}
		// element-wise conversions between element types: this view as the source of a constructor and of set()
		for _, kk := range allKinds {
			add(Op{K: "ctor", M: "typedarray", Kind: kk.Name()})
		}
		for _, src := range srcVariants(cfg, k, true) {
			src := src
			add(Op{K: "call", M: "set", Src: &src, Args: []Arg{undef, inum(0)}})
		}
		return ops
	}

	// --- Go side
	add(Op{K: "go", M: "bytes"})
	add(Op{K: "go", M: "export"})
	add(Op{K: "go", M: "exportTo"})
	add(Op{K: "go", M: "exportBuffer"})
	add(Op{K: "go", M: "detach"})
	for _, p := range dedupInts(0, cfg.Off, cfg.Off+n*sz-1, cfg.N-1) {
		if p >= 0 && p < cfg.N {
			add(Op{K: "go", M: "hostwrite", Pos: p})
		}
	}
	// --- getters
	for _, m := range []string{"length", "byteLength", "byteOffset"} {
		add(Op{K: "call", M: m})
	}
	add(Op{K: "ab", M: "byteLength"})
	// --- element level
	if !full {
		keys = keys[:6]
	}
	for _, m := range []string{"get", "has", "delete", "gopd"} {
		for i := range keys {
			add(Op{K: "elem", M: m, Key: &keys[i]})
		}
	}
	for _, how := range []string{"own", "keys", "forin"} {
		add(Op{K: "elem", M: "keys", Desc: how})
	}
	setVals := append(append([]Arg{}, small[:2]...), effs[:3]...)
	if !full {
		setVals = append(append([]Arg{}, small[:1]...), effs[:2]...)
	}
	for i := range keys {
		for _, v := range setVals {
			add(Op{K: "elem", M: "set", Key: &keys[i], Args: []Arg{v}})
		}
	}
	if full {
		for i := range keys { // a value of the wrong numeric type must throw for every canonical numeric key
			add(Op{K: "elem", M: "set", Key: &keys[i], Args: []Arg{small[len(small)-1]}})
		}
	}
	for _, i := range []int{0, 3} { // key 0 (valid unless empty) and key -1: every small value and effect
		for _, v := range append(append([]Arg{}, small[2:]...), effs[3:]...) {
			add(Op{K: "elem", M: "set", Key: &keys[i], Args: []Arg{v}})
		}
	}
	if full && isConvHost(cfg) {
		for _, v := range append(append([]Arg{}, vals...), convPool(k)...) {
			add(Op{K: "elem", M: "set", Key: &keys[0], Args: []Arg{v}, Conv: true})
		}
	}
	for i := range keys {
		for _, v := range append([]Arg{small[0]}, effs[:2]...) {
			add(Op{K: "elem", M: "define", Key: &keys[i], Desc: "value", Args: []Arg{v}})
		}
		shapes := []string{"empty", "full", "nonconfigurable", "nonenumerable", "nonwritable", "accessor"}
		if !full || i >= 4 {
			shapes = shapes[:2]
		}
		for _, d := range shapes {
			add(Op{K: "elem", M: "define", Key: &keys[i], Desc: d, Args: []Arg{small[0]}})
		}
	}
	// --- prototype methods without callbacks
	for _, a := range rpe {
		add(Op{K: "call", M: "at", Args: trimArgs(a)})
	}
	add(Op{K: "call", M: "reverse"})
	add(Op{K: "call", M: "toReversed"})
	ends := []Arg{undef, inum(-1), re[0]}
	for _, a := range rp3e {
		for _, b := range rp3e {
			for _, c := range ends {
				if oneFx(a, b, c) {
					add(Op{K: "call", M: "copyWithin", Args: trimArgs(a, b, c)})
				}
			}
		}
	}
	for _, a := range rp3e {
		for _, b := range rp3e {
			if oneFx(a, b) {
				add(Op{K: "call", M: "fill", Args: trimArgs(one, a, b)})
			}
		}
	}
	for _, v := range effs {
		for _, a := range rp3 {
			add(Op{K: "call", M: "fill", Args: trimArgs(v, a)})
			if a.T != "undef" {
				add(Op{K: "call", M: "fill", Args: trimArgs(v, undef, a)})
			}
		}
	}
	for _, v := range small {
		add(Op{K: "call", M: "fill", Args: []Arg{v}})
		add(Op{K: "call", M: "fill", Args: []Arg{v, re[0]}}) // conversion failure vs detaching start: order of coercions
	}
	if full && isConvHost(cfg) {
		for _, v := range append(append([]Arg{}, vals...), convPool(k)...) {
			add(Op{K: "call", M: "fill", Args: []Arg{v}, Conv: true})
		}
	}
	// slice / subarray: ranges with the default constructor, then species variants with a few ranges
	for _, m := range []string{"slice", "subarray"} {
		for _, a := range rp3e {
			for _, b := range rp3e {
				if oneFx(a, b) {
					add(Op{K: "call", M: m, Args: trimArgs(a, b)})
				}
			}
		}
		if full {
			for _, a := range rp[len(rp3):] {
				add(Op{K: "call", M: m, Args: []Arg{a}})
				add(Op{K: "call", M: m, Args: []Arg{inum(0), a}})
			}
		}
		ranges := [][2]int{{0, n}, {1, n}, {n, n}}
		if !full {
			ranges = ranges[:2]
		}
		for _, rg := range ranges {
			if rg[0] < 0 || rg[1] < 0 {
				continue
			}
			cnt := rg[1] - rg[0]
			if cnt < 0 {
				cnt = 0
			}
			for _, sp := range speciesVariants(cfg, k, cnt, level) {
				add(Op{K: "call", M: m, Args: []Arg{inum(rg[0]), inum(rg[1])}, Sp: sp})
			}
		}
		// species + a detaching argument
		add(Op{K: "call", M: m, Args: []Arg{eff("D1", inum(0))}, Sp: &tamodel.Species{Mode: "fresh", Kind: k}})
		add(Op{K: "call", M: m, Args: []Arg{eff("D2", inum(0))}, Sp: &tamodel.Species{Mode: "b2", Kind: k, Off: 0, Len: b2Len / sz}})
	}
	// searches
	searchVals := contentSearchVals(k, n)
	if k.IsBig() {
		searchVals = append(searchVals, num("1"), str("1"))
	} else {
		searchVals = append(searchVals, num("-0"), num("NaN"), num("1.5"), num("256"), bigA("1"), str("1"))
	}
	for _, m := range []string{"includes", "indexOf", "lastIndexOf"} {
		for vi, v := range searchVals {
			add(Op{K: "call", M: m, Args: []Arg{v}})
			froms := []Arg{undef, inum(0), inum(-1)}
			if vi < 2 {
				froms = rpe
			}
			for _, a := range froms {
				add(Op{K: "call", M: m, Args: []Arg{v, a}}) // an explicit undefined differs from a missing fromIndex for lastIndexOf
			}
		}
	}
	for _, s := range []Arg{undef, str("-"), str(""), eff("D1", str("-")), eff("T", str("-")), eff("W", str("-"))} {
		add(Op{K: "call", M: "join", Args: trimArgs(s)})
	}
	add(Op{K: "call", M: "toString"})
	add(Op{K: "call", M: "toLocaleString"})
	// with
	withVals := append([]Arg{small[0], small[len(small)-1]}, effs...)
	for _, a := range rpe {
		for _, v := range withVals {
			if oneFx(a, v) {
				add(Op{K: "call", M: "with", Args: []Arg{a, v}})
			}
		}
	}
	// --- callbacks
	for _, m := range []string{"every", "some", "find", "findIndex", "findLast", "findLastIndex", "forEach"} {
		add(Op{K: "call", M: m}) // not callable
		for _, cb := range cbVariants([]string{"false", "true", "odd"}, n) {
			add(Op{K: "call", M: m, Cb: cb})
		}
	}
	for _, m := range []string{"reduce", "reduceRight"} {
		add(Op{K: "call", M: m})
		for _, cb := range cbVariants([]string{"sum"}, n) {
			add(Op{K: "call", M: m, Cb: cb})
			init := num("0")
			if k.IsBig() {
				init = bigA("0")
			}
			add(Op{K: "call", M: m, Cb: cb, Args: []Arg{init}})
		}
	}
	for _, m := range []string{"keys", "values", "entries"} {
		add(Op{K: "call", M: m})
		for _, fx := range []string{"D1", "T", "W"} {
			for _, at := range dedupInts(0, 1, n) {
				add(Op{K: "call", M: m, Cb: &tamodel.Cb{At: at, Fx: fx}})
			}
		}
	}
	// map / filter: callbacks x species
	add(Op{K: "call", M: "map"})
	add(Op{K: "call", M: "filter"})
	mapCbs := cbVariants([]string{"x", "inc", "undef"}, n)
	for _, fx := range []string{"D1", "T", "D2", "W"} {
		mapCbs = append(mapCbs, &tamodel.Cb{Ret: "eff", At: -1, RetFx: fx})
	}
	for _, cb := range mapCbs {
		add(Op{K: "call", M: "map", Cb: cb})
	}
	for _, cb := range cbVariants([]string{"true", "false", "odd"}, n) {
		add(Op{K: "call", M: "filter", Cb: cb})
	}
	spCbs := []*tamodel.Cb{{Ret: "x", At: -1}, {Ret: "x", At: 0, Fx: "D1"}, {Ret: "x", At: 1, Fx: "D1"}, {Ret: "x", At: 0, Fx: "D2"},
		{Ret: "eff", At: -1, RetFx: "D1"}, {Ret: "eff", At: -1, RetFx: "D2"}}
	if !full {
		spCbs = []*tamodel.Cb{{Ret: "x", At: -1}, {Ret: "x", At: 0, Fx: "D1"}, {Ret: "eff", At: -1, RetFx: "D1"}}
	}
	for _, sp := range speciesVariants(cfg, k, n, level) {
		for _, cb := range spCbs {
			if cb.At >= n && n > 0 {
				continue
			}
			add(Op{K: "call", M: "map", Cb: cb, Sp: sp})
		}
	}
	for _, cnt := range dedupInts(n, n/2) {
		ret := "true"
		if cnt != n {
			ret = "odd"
		}
		for _, sp := range speciesVariants(cfg, k, cnt, level) {
			for _, cb := range []*tamodel.Cb{{Ret: ret, At: -1}, {Ret: ret, At: 0, Fx: "D1"}, {Ret: ret, At: 0, Fx: "D2"}} {
				add(Op{K: "call", M: "filter", Cb: cb, Sp: sp})
			}
		}
	}
	// sort / toSorted
	for _, m := range []string{"sort", "toSorted"} {
		for _, c := range cmpVariants(k, n, false) {
			add(Op{K: "call", M: m, Cmp: c})
		}
	}
	// --- set(arraylike) and set(typedarray)
	var lists []Arg
	for _, ln := range dedupInts(0, 1, 2, n, n+1) {
		if ln < 0 || ln > 24 {
			continue
		}
		l := Arg{T: "list"}
		for i := 0; i < ln; i++ {
			l.L = append(l.L, small[i%2])
		}
		lists = append(lists, l)
		if ln != 2 && ln != n {
			continue
		}
		for _, fx := range []string{"D1", "T", "D2", "W"} {
			for _, at := range dedupInts(0, ln-1) {
				if at < 0 || at >= ln {
					continue
				}
				le := Arg{T: "list", L: append([]Arg{}, l.L...)}
				le.L[at] = eff(fx, one)
				lists = append(lists, le)
			}
		}
	}
	setOffs := append(dedupArgs([]Arg{undef, inum(0), inum(1), inum(n - 1), inum(n), inum(-1), num("Infinity"), num("1.5")}), eff("D1", inum(0)), eff("T", inum(0)))
	if !full {
		setOffs = append(dedupArgs([]Arg{undef, inum(1), inum(n)}), eff("D1", inum(0)))
	}
	for _, l := range lists {
		offs := setOffs
		if l.hasFx() {
			offs = dedupArgs([]Arg{undef, inum(1), inum(n - len(l.L))})
		}
		for _, o := range offs {
			if oneFx(l, o) {
				add(Op{K: "call", M: "set", Args: trimArgs(l, o)})
			}
		}
	}
	for _, src := range srcVariants(cfg, k, !full) {
		src := src
		for _, o := range dedupArgs([]Arg{undef, inum(1), inum(n - src.Len), inum(n - src.Len + 1), inum(-1)}) {
			add(Op{K: "call", M: "set", Src: &src, Args: []Arg{undef, o}})
		}
	}
	for _, src := range []SrcSpec{{Buf: 1, Kind: k.Name(), Off: cfg.Off, Len: n}, {Buf: 2, Kind: k.Name(), Off: 0, Len: 1}, {Buf: 2, Kind: tamodel.Kind((int(k) + 1) % 9).Name(), Off: 0, Len: 1}} {
		src := src
		if k.IsBig() && src.Kind != k.Name() {
			src.Kind = "BigInt64Array"
			if k == tamodel.BigInt64 {
				src.Kind = "BigUint64Array"
			}
		}
		for _, o := range []Arg{eff("D1", inum(0)), eff("D2", inum(0)), eff("T", inum(0)), num("Infinity"), num("1.5")} {
			add(Op{K: "call", M: "set", Src: &src, Args: []Arg{undef, o}})
		}
	}
	// --- static from / of on constructors (intrinsic and adversarial)
	items := [][]Arg{{}, {small[0], small[1]}, {small[0], effs[0]}, {effs[0], small[0]}, {small[0], effs[1]}, {small[0], effs[2]}}
	if !full {
		items = items[1:3]
	}
	for _, it := range items {
		for _, sp := range append([]*tamodel.Species{nil}, speciesVariants(cfg, k, len(it), lvSmall)...) {
			if sp != nil && sp.Mode == "same" {
				continue
			}
			add(Op{K: "static", M: "of", Kind: k.Name(), Args: it, Sp: sp})
			add(Op{K: "static", M: "from", Kind: k.Name(), Args: []Arg{{T: "list", L: it}}, Sp: sp})
		}
	}
	for _, sp := range append([]*tamodel.Species{nil}, speciesVariants(cfg, k, 2, lvSmall)...) {
		if sp != nil && sp.Mode == "same" {
			continue
		}
		for _, cb := range []*tamodel.Cb{{Ret: "x", At: -1}, {Ret: "x", At: 0, Fx: "D1"}, {Ret: "x", At: 1, Fx: "D1"}, {Ret: "eff", At: -1, RetFx: "D1"}, {Ret: "x", At: 1, Fx: "T"}} {
			add(Op{K: "static", M: "from", Kind: k.Name(), Args: []Arg{{T: "list", L: []Arg{small[0], small[1]}}}, Sp: sp, Cb: cb})
		}
	}
	for _, kk := range allKinds {
		add(Op{K: "ctor", M: "typedarray", Kind: kk.Name()})
	}
	return ops
}

func contentSearchVals(k tamodel.Kind, n int) []Arg {
	v := []Arg{}
	if n > 0 {
		v = append(v, Arg{T: "elem0"}, Arg{T: "elemLast"})
	}
	return append(v, undef, one(k))
}

func cmpVariants(k tamodel.Kind, n int, contentOnly bool) []*tamodel.Cmp {
	isFloat := k == tamodel.Float32 || k == tamodel.Float64
	// A comparator returning -0 is kept out of the alphabet: goja deliberately orders on it (its own unit test
	// TestTypedArraySortComparatorReturnValueNegZero), see NOTES.md.
	cmps := []*tamodel.Cmp{nil, {Ret: "zero", At: -1}, {Ret: "nan", At: -1}}
	if !isFloat {
		cmps = append(cmps, &tamodel.Cmp{Ret: "rev", At: -1}, &tamodel.Cmp{Ret: "mod4", At: -1})
	}
	if contentOnly {
		if !isFloat && n >= 3 {
			cmps = append(cmps, &tamodel.Cmp{Ret: "rev", At: 1, Fx: "T"}, &tamodel.Cmp{Ret: "rev", At: 1, Fx: "D1"})
		}
		return cmps
	}
	cmps = append(cmps, &tamodel.Cmp{Ret: "notfn", At: -1})
	for _, fx := range []string{"D1", "T"} {
		for _, at := range []int{0, 1} {
			if at <= n-2 {
				cmps = append(cmps, &tamodel.Cmp{Ret: "zero", At: at, Fx: fx})
				if !isFloat {
					cmps = append(cmps, &tamodel.Cmp{Ret: "rev", At: at, Fx: fx})
				}
			}
		}
	}
	return cmps
}

// srcVariants: typed arrays used as the source of set(): every element type, over B1 (overlapping the
// target) and over B2, at a few windows.
func srcVariants(cfg Config, k tamodel.Kind, few bool) []SrcSpec {
	var out []SrcSpec
	emptyDone := false
	for _, sk := range allKinds {
		ss := sk.Size()
		for _, buf := range []int{1, 2} {
			total := cfg.N
			if buf == 2 {
				total = b2Len
			}
			maxEl := total / ss
			type win struct{ off, ln int }
			var wins []win
			lens := dedupInts(cfg.Len, 1, maxEl, 0)
			if few || buf == 2 {
				lens = dedupInts(cfg.Len, 1)
			}
			for _, ln := range lens {
				if ln < 0 || ln > maxEl {
					continue
				}
				offs := dedupInts(0, cfg.Off-cfg.Off%ss, (maxEl-ln)*ss)
				if few || buf == 2 {
					offs = offs[:1]
				}
				for _, off := range offs {
					if off < 0 || off+ln*ss > total {
						continue
					}
					if ln == 0 { // one empty source per element-size relation is enough
						if emptyDone && sk != k {
							continue
						}
						emptyDone = true
					}
					wins = append(wins, win{off, ln})
				}
			}
			seen := map[win]bool{}
			for _, wn := range wins {
				if seen[wn] {
					continue
				}
				seen[wn] = true
				out = append(out, SrcSpec{Buf: buf, Kind: sk.Name(), Off: wn.off, Len: wn.ln})
			}
		}
	}
	return out
}

// sharedOps: constructors over B1 and ArrayBuffer.prototype.slice; they do not depend on the view.
func sharedOps(cfg Config, level int) []Op {
	var ops []Op
	add := func(o Op) { ops = append(ops, o) }
	full := level == lvFull
	offs := func(sz int) []Arg {
		p := []Arg{undef, inum(0), inum(sz), inum(cfg.N), inum(cfg.N + sz), inum(-1), inum(1), num("9007199254740992"), eff("D1", inum(0)), eff("T", inum(0))}
		if !full {
			p = []Arg{undef, inum(sz), inum(cfg.N + sz), eff("D1", inum(0))}
		}
		return dedupArgs(p)
	}
	for _, k := range allKinds {
		sz := k.Size()
		maxEl := cfg.N / sz
		lens := dedupArgs([]Arg{undef, inum(0), inum(1), inum(maxEl), inum(maxEl + 1), inum(-1), num("9007199254740992"), eff("D1", inum(0)), eff("D1", inum(1)), eff("T", inum(0))})
		if !full {
			lens = dedupArgs([]Arg{undef, inum(maxEl), inum(maxEl + 1), eff("D1", inum(0))})
		}
		for _, o := range offs(sz) {
			for _, l := range lens {
				if oneFx(o, l) {
					add(Op{K: "ctor", M: "buffer", Kind: k.Name(), Args: trimArgs(o, l)})
				}
			}
		}
	}
	dvOffs := dedupArgs([]Arg{undef, inum(0), inum(1), inum(cfg.N), inum(cfg.N + 1), inum(-1), eff("D1", inum(0)), eff("T", inum(0))})
	dvLens := dedupArgs([]Arg{undef, inum(0), inum(1), inum(cfg.N), inum(cfg.N + 1), inum(-1), eff("D1", inum(0)), eff("D1", inum(1)), eff("T", inum(0))})
	for _, o := range dvOffs {
		for _, l := range dvLens {
			if oneFx(o, l) {
				add(Op{K: "ctor", M: "dataview", Args: trimArgs(o, l)})
			}
		}
	}
	for _, fx := range []string{"N", "D1", "T"} {
		add(Op{K: "ctor", M: "dataview", Args: []Arg{inum(0), inum(cfg.N)}, Desc: fx})
		add(Op{K: "ctor", M: "dataview", Args: []Arg{inum(0)}, Desc: fx})
	}
	// ArrayBuffer.prototype.slice
	rp := append(relPool(cfg.N, false), eff("D1", inum(0)), eff("T", inum(0)))
	for _, a := range rp {
		for _, b := range rp {
			if oneFx(a, b) {
				add(Op{K: "ab", M: "slice", Args: trimArgs(a, b)})
			}
		}
	}
	for _, sp := range []*tamodel.ABSpecies{{Mode: "fresh"}, {Mode: "fresh", Fx: "D1"}, {Mode: "b2"}, {Mode: "b2", Fx: "D2"}, {Mode: "b2", Fx: "D1"}, {Mode: "same"}, {Mode: "throw"}} {
		for _, rg := range [][2]int{{0, cfg.N}, {0, b2Len}, {0, b2Len + 1}, {0, 0}, {1, 3}} {
			add(Op{K: "ab", M: "slice", Args: []Arg{inum(rg[0]), inum(rg[1])}, ABSp: sp})
		}
	}
	return ops
}

func dvAlphabet(ops []Op, cfg Config, level int) []Op {
	add := func(o Op) { ops = append(ops, o) }
	n := cfg.Len
	full := level == lvFull
	les := []Arg{undef, boolT, {T: "bool", V: "false"}}
	if level == lvContent {
		for _, k := range allKinds {
			if k == tamodel.Uint8C {
				continue
			}
			for i := 0; i+k.Size() <= n; i++ {
				for _, le := range les[1:] {
					add(Op{K: "dv", M: "get", Kind: k.ElemName(), Args: []Arg{inum(i), le}})
				}
			}
		}
		return ops
	}
	add(Op{K: "go", M: "bytes"})
	add(Op{K: "go", M: "exportTo"})
	add(Op{K: "go", M: "exportBuffer"})
	add(Op{K: "go", M: "detach"})
	add(Op{K: "dv", M: "byteLength"})
	add(Op{K: "dv", M: "byteOffset"})
	add(Op{K: "ab", M: "byteLength"})
	for _, k := range allKinds {
		if k == tamodel.Uint8C {
			continue
		}
		sz := k.Size()
		var idx []Arg
		for i := 0; i <= n; i++ {
			idx = append(idx, inum(i))
		}
		special := []Arg{undef, inum(-1), num("1.5"), num("2147483648"), num("9007199254740991"), num("9007199254740992"), num("Infinity"), str("1"),
			eff("D1", inum(0)), eff("T", inum(0)), eff("W", inum(0))}
		if !full {
			special = []Arg{undef, inum(-1), eff("D1", inum(0))}
		}
		idx = dedupArgs(append(idx, special...))
		for _, i := range idx {
			for _, le := range les {
				add(Op{K: "dv", M: "get", Kind: k.ElemName(), Args: trimArgs(i, le)})
			}
		}
		for _, i := range idx {
			for _, le := range les {
				add(Op{K: "dv", M: "set", Kind: k.ElemName(), Args: trimArgs(i, one(k), le)})
			}
		}
		for _, v := range effValues(k) {
			for _, i := range dedupArgs([]Arg{inum(0), inum(n - sz), inum(n - sz + 1), inum(n)}) {
				add(Op{K: "dv", M: "set", Kind: k.ElemName(), Args: []Arg{i, v, boolT}})
			}
		}
		if full && n >= sz && isConvHost(cfg) {
			for _, v := range append(valuePool(k), convPool(k)...) {
				for _, le := range les[1:] {
					add(Op{K: "dv", M: "set", Kind: k.ElemName(), Args: []Arg{inum(0), v, le}, Conv: true})
				}
				add(Op{K: "dv", M: "set", Kind: k.ElemName(), Args: []Arg{inum(n - sz), v, boolT}, Conv: true})
			}
		}
	}
	return ops
}
