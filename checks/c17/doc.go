// Package c17 holds the check for property C17: typed arrays, DataViews and ArrayBuffers never touch memory
// outside their backing buffer, and the bytes they read and write are those of the ECMAScript
// NumericToRawBytes / RawBytesToNumeric model.
//
// Engine E2 (explicit-state search) + reference model verif/ref/tamodel + canary-guarded slabs; see NOTES.md.
//
//	ops.go    operation descriptions and the per-configuration alphabets
//	world.go  implementation side: runtime, slabs, JavaScript helpers, execution and rendering of results
//	model.go  model side: execution of an operation on tamodel
//	step.go   one lock-step transition and the oracle; violation signatures
//	c17.go    registration, start states, bounds, BFS, replay, regression corpus
//	reexec.go re-executes the process with GODEBUG=invalidptr=0 (see the comment there)
package c17
