// Package c17 holds the check for property C17.
package c17
