//go:build verif

package c17

import "testing"

func BenchmarkAlphabet(b *testing.B) {
	cfg := Config{N: 16, View: "Int16Array", Off: 2, Len: 5}
	var buf []Op
	for i := 0; i < b.N; i++ {
		buf = alphabetInto(buf, cfg, 0)
	}
}
