package c17

import (
	"encoding/hex"
	"fmt"
	"math/big"
	"strconv"

	"verif/ref/tamodel"
)

// mworld is the model side of one step.
type mworld struct {
	w    *tamodel.World
	view *tamodel.View  // nil for a DataView configuration
	dv   *tamodel.DView // nil for a typed array configuration
}

func newModel(cfg Config, st State, numFmt func(float64) string) *mworld {
	b1, b2 := stateBytes(cfg, st)
	w := &tamodel.World{NumFmt: numFmt}
	w.B[0] = &tamodel.Buffer{Data: b1}
	w.B[1] = &tamodel.Buffer{Data: b2}
	m := &mworld{w: w}
	if cfg.View == "DataView" {
		m.dv = &tamodel.DView{Buf: w.B[0], Off: cfg.Off, Len: cfg.Len}
	} else {
		k, _ := tamodel.KindByName(cfg.View)
		m.view = &tamodel.View{Buf: w.B[0], Kind: k, Off: cfg.Off, Len: cfg.Len}
	}
	if st.D1 {
		w.B[0].Detach()
	}
	if st.D2 {
		w.B[1].Detach()
	}
	return m
}

func (m *mworld) state() State {
	return State{B1: hex.EncodeToString(m.w.B[0].Data), D1: m.w.B[0].Detached, B2: hex.EncodeToString(m.w.B[1].Data), D2: m.w.B[1].Detached}
}

func toV(a Arg) tamodel.V {
	switch a.T {
	case "undef":
		return tamodel.U()
	case "null":
		return tamodel.V{T: tamodel.Null}
	case "bool":
		return tamodel.Bv(a.V == "true")
	case "num":
		switch a.V {
		case "NaN", "Infinity", "-Infinity":
			return tamodel.N(tamodel.StringToNumber(a.V))
		}
		f, err := strconv.ParseFloat(a.V, 64)
		if err != nil {
			panic("bad numeric literal " + a.V)
		}
		return tamodel.N(f)
	case "big":
		b, ok := new(big.Int).SetString(a.V, 10)
		if !ok {
			panic("bad bigint literal " + a.V)
		}
		return tamodel.Bg(b)
	case "str":
		return tamodel.S(a.V)
	case "eff":
		return tamodel.Eff(a.Fx, toV(*a.P))
	case "list":
		l := make([]tamodel.V, len(a.L))
		for i, e := range a.L {
			l[i] = toV(e)
		}
		return tamodel.V{T: tamodel.List, L: l}
	}
	panic("arg type " + a.T)
}

type modelResult struct {
	val    tamodel.V
	thrown string
	extra  string
}

func copyCb(c *tamodel.Cb) *tamodel.Cb {
	if c == nil {
		return nil
	}
	cc := *c
	return &cc
}

func copyCmp(c *tamodel.Cmp) *tamodel.Cmp {
	if c == nil {
		return nil
	}
	cc := *c
	return &cc
}

// exec runs op on the model. resolved receives the values of state-dependent arguments.
func (m *mworld) exec(cfg Config, op *Op, resolved *[]tamodel.V) (res modelResult) {
	w := m.w
	w.WritePos, w.WriteVal = writePos(cfg), 0xEE
	if op.K == "go" {
		return m.execGo(cfg, op)
	}
	args := make([]tamodel.V, len(op.Args))
	*resolved = make([]tamodel.V, len(op.Args))
	for i, a := range op.Args {
		switch a.T {
		case "elem0", "elemLast":
			v := tamodel.U()
			if m.view != nil && !m.view.Buf.Detached && m.view.Len > 0 {
				idx := 0
				if a.T == "elemLast" {
					idx = m.view.Len - 1
				}
				v = w.Elem(m.view, "get", tamodel.Key{IsNum: true, N: float64(idx)}, tamodel.U(), "")
			}
			args[i] = v
			(*resolved)[i] = v
		default:
			args[i] = toV(a)
		}
	}
	v, th := tamodel.Run(func() tamodel.V {
		switch op.K {
		case "elem":
			var key tamodel.Key
			if op.Key != nil {
				if op.Key.Num {
					key = tamodel.Key{IsNum: true, N: toV(num(op.Key.V)).N}
				} else {
					key = tamodel.Key{S: op.Key.V}
				}
			}
			var x tamodel.V
			if len(args) > 0 {
				x = args[0]
			}
			return w.Elem(m.view, op.M, key, x, op.Desc)
		case "call":
			view := *m.view
			view.Species = op.Sp
			var src *tamodel.View
			if op.Src != nil {
				sk, _ := tamodel.KindByName(op.Src.Kind)
				src = &tamodel.View{Buf: w.B[op.Src.Buf-1], Kind: sk, Off: op.Src.Off, Len: op.Src.Len}
			}
			r := w.Call(&view, op.M, args, copyCb(op.Cb), copyCmp(op.Cmp), src)
			if r.T == tamodel.TArr && r.A == &view {
				return tamodel.V{T: tamodel.This}
			}
			return r
		case "static":
			k, _ := tamodel.KindByName(op.Kind)
			if op.M == "of" {
				return w.Of(op.Sp, k, args)
			}
			return w.From(op.Sp, k, args[0].L, copyCb(op.Cb))
		case "ctor":
			switch op.M {
			case "buffer":
				k, _ := tamodel.KindByName(op.Kind)
				return tamodel.V{T: tamodel.TArr, A: w.NewFromBuffer(k, w.B[0], argAt(args, 0), argAt(args, 1))}
			case "typedarray":
				k, _ := tamodel.KindByName(op.Kind)
				return tamodel.V{T: tamodel.TArr, A: w.NewFromTypedArray(k, m.view)}
			case "dataview":
				d := w.NewDataView(w.B[0], argAt(args, 0), argAt(args, 1), op.Desc)
				return tamodel.V{T: tamodel.Other, S: fmt.Sprintf("DataView{buf=B1 off=%d len=%d}", d.Off, d.Len)}
			}
		case "dv":
			switch op.M {
			case "byteLength", "byteOffset":
				return w.DVProp(m.dv, op.M)
			case "get":
				k, _ := tamodel.KindByName(op.Kind)
				return w.DVGet(m.dv, k, args)
			case "set":
				k, _ := tamodel.KindByName(op.Kind)
				return w.DVSet(m.dv, k, args)
			}
		case "ab":
			switch op.M {
			case "byteLength":
				return w.ABByteLength(w.B[0])
			case "slice":
				return w.ABSlice(w.B[0], args, op.ABSp)
			}
		}
		panic("model: unknown op " + op.String())
	})
	if th != nil {
		return modelResult{thrown: th.Class}
	}
	return modelResult{val: v}
}

func argAt(args []tamodel.V, i int) tamodel.V {
	if i < len(args) {
		return args[i]
	}
	return tamodel.U()
}

// writePos is the byte of B1 the "W" effect (a host write during a callback) stores to: the last byte of the view's window
// (or of the buffer, for an empty view).
func writePos(cfg Config) int {
	k, isTA := tamodel.KindByName(cfg.View)
	end := cfg.Off + cfg.Len
	if isTA {
		end = cfg.Off + cfg.Len*k.Size()
	}
	if end > cfg.Off {
		return end - 1
	}
	if cfg.N > 0 {
		return cfg.N - 1
	}
	return 0
}

func (m *mworld) execGo(cfg Config, op *Op) modelResult {
	b := m.w.B[0]
	switch op.M {
	case "detach":
		first := !b.Detached
		b.Detach()
		return modelResult{extra: fmt.Sprintf("detach=%v again=false detached=true bytesNil=true", first)}
	case "bytes":
		if b.Detached {
			return modelResult{extra: "bytes:nil"}
		}
		return modelResult{extra: "bytes:alias"}
	case "exportBuffer":
		if b.Detached {
			return modelResult{extra: "same=true bytes:nil"}
		}
		return modelResult{extra: "same=true bytes:alias"}
	case "export":
		if b.Detached {
			return modelResult{extra: "detached: len=0"}
		}
		return modelResult{extra: "alias"}
	case "exportTo":
		if b.Detached {
			return modelResult{extra: "detached: len=0"}
		}
		return modelResult{extra: "bytes:alias"}
	case "hostwrite":
		if !b.Detached {
			b.Data[op.Pos] ^= 0xFF
		}
		idx := (op.Pos - cfg.Off) / m.view.Kind.Size()
		if op.Pos < cfg.Off {
			idx = -1
		}
		return modelResult{val: m.w.Elem(m.view, "get", tamodel.Key{IsNum: true, N: float64(idx)}, tamodel.U(), "")}
	}
	panic("model: go op " + op.M)
}
