//go:build verif

package c17

import (
	"fmt"
	"sort"
	"testing"
)

func TestHist(t *testing.T) {
	for _, cfg := range []Config{{N: 8, View: "Int16Array", Off: 2, Len: 3}, {N: 16, View: "Uint8Array", Off: 0, Len: 16}, {N: 16, View: "DataView", Off: 0, Len: 16}, {N: 0, View: "Float64Array"}} {
		ops := alphabet(cfg, 0)
		h := map[string]int{}
		for _, o := range ops {
			h[o.K+"."+o.M]++
		}
		var ks []string
		for k := range h {
			ks = append(ks, k)
		}
		sort.Slice(ks, func(i, j int) bool { return h[ks[i]] > h[ks[j]] })
		s := ""
		for _, k := range ks {
			s += fmt.Sprintf(" %s=%d", k, h[k])
		}
		t.Logf("%v: total=%d small=%d content=%d b2=%d min=%d:%s", cfg, len(ops), len(alphabet(cfg, 1)), len(alphabet(cfg, 2)), len(alphabet(cfg, 3)), len(alphabet(cfg, 4)), s)
	}
	for _, n := range []int{4, 8, 16} {
		tot := 0
		for _, c := range configs(seq(0, n), 0, false) {
			for _, ss := range startStates(c, 0) {
				tot += len(alphabet(c, ss.level))
			}
		}
		t.Logf("n<=%d: depth-1 transitions %d", n, tot)
		t.Logf("n<=%d: %d configs", n, len(configs(seq(0, n), 0, false)))
	}
}
