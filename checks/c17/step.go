package c17

import (
	"bytes"
	"encoding/hex"
	"fmt"
	"strings"

	"verif/ref/tamodel"
)

// Case identifies one transition; it is what a replay file contains.
type Case struct {
	Cfg  Config   `json:"cfg"`
	St   State    `json:"state"`
	Op   Op       `json:"op"`
	Path []string `json:"path,omitempty"` // the operations that led from the start configuration to St (information only)
	Desc string   `json:"desc,omitempty"`
}

type failure struct {
	sig  string
	what string
}

// stepResult is the outcome of one lock-step transition.
type stepResult struct {
	next     State
	fail     *failure
	outcome  string // coarse class of the model outcome (for coverage)
	changed  bool   // the transition changed the abstract state or ran an effect
	panicked bool   // a Go panic escaped from the engine: the runtime must be discarded
}

func hexOf(b []byte) string { return hex.EncodeToString(b) }

func renderModel(w *tamodel.World, v tamodel.V, fresh *[]*tamodel.Buffer) string {
	switch v.T {
	case tamodel.TArr:
		a := v.A
		off, ln := a.Off, a.Len
		if a.Buf.Detached {
			off, ln = 0, 0
		}
		return fmt.Sprintf("%s{buf=%s off=%d len=%d}", a.Kind.Name(), modelBufName(w, a.Buf, fresh), off, ln)
	case tamodel.ABuf:
		return "ArrayBuffer{" + modelBufName(w, v.Bf, fresh) + "}"
	case tamodel.List:
		var sb strings.Builder
		sb.WriteByte('[')
		for i, e := range v.L {
			if i > 0 {
				sb.WriteByte(',')
			}
			sb.WriteString(renderModel(w, e, fresh))
		}
		sb.WriteByte(']')
		return sb.String()
	}
	return w.Render(v)
}

func modelBufName(w *tamodel.World, b *tamodel.Buffer, fresh *[]*tamodel.Buffer) string {
	switch {
	case b == w.B[0]:
		return "B1"
	case b == w.B[1]:
		return "B2"
	case b.Detached:
		return "fresh:detached"
	}
	*fresh = append(*fresh, b)
	return "fresh:#"
}

// reconcileNaN copies the implementation's encoding of a NaN into the model wherever the model stored a NaN
// (the encoding is implementation-defined), provided the implementation's bytes there do encode a NaN.
func reconcileNaN(nans []tamodel.NaNWrite, b *tamodel.Buffer, impl []byte) {
	for _, nw := range nans {
		if nw.Buf != b || b.Detached {
			continue
		}
		sz := nw.K.Size()
		if nw.Pos+sz > len(impl) || nw.Pos+sz > len(b.Data) {
			continue
		}
		raw := tamodel.GetRaw(impl[nw.Pos:nw.Pos+sz], sz, !nw.BigEndian)
		if tamodel.IsNaNRaw(nw.K, raw) {
			copy(b.Data[nw.Pos:nw.Pos+sz], impl[nw.Pos:nw.Pos+sz])
		}
	}
}

func panicClass(p string) string {
	switch {
	case strings.Contains(p, "nil pointer dereference"):
		return "nil-deref"
	case strings.Contains(p, "slice bounds out of range"):
		return "slice-bounds"
	case strings.Contains(p, "index out of range"):
		return "index-range"
	case strings.Contains(p, "unsafe.Slice"):
		return "unsafe-slice"
	case strings.HasPrefix(p, "harness:"):
		return "harness"
	}
	if len(p) > 40 {
		p = p[:40]
	}
	return p
}

func outcomeClass(thrown string, isOK bool) string {
	if thrown != "" {
		return thrown
	}
	return "ok"
}

func viewWindow(cfg Config) (int, int) {
	k, isTA := tamodel.KindByName(cfg.View)
	if isTA {
		return cfg.Off, cfg.Off + cfg.Len*k.Size()
	}
	return cfg.Off, cfg.Off + cfg.Len
}

// step executes op from (cfg, st) on the model and on the engine and evaluates the oracle.
func (w *world) step(cfg Config, st State, op *Op) (sr stepResult) {
	numFmt := func(f float64) string { return w.rt.ToValue(f).String() }
	m := newModel(cfg, st, numFmt)
	var resolved []tamodel.V
	mr := m.exec(cfg, op, &resolved)
	sr.next = m.state()
	sr.outcome = outcomeClass(mr.thrown, true)
	sr.changed = sr.next != st || len(m.w.FxLog) > 0

	if err := w.install(cfg, st, op); err != nil {
		sr.fail = &failure{"harness|install", err.Error()}
		return
	}
	w.writePos, w.writeVal = writePos(cfg), 0xEE
	ir := w.exec(cfg, op, resolved)

	start := "att"
	if st.D1 {
		start = "det"
	}
	fail := func(class, what string) {
		if sr.fail == nil {
			ran := "-"
			if len(m.w.FxLog) > 0 {
				ran = strings.Join(uniq(m.w.FxLog), ",")
			}
			sr.fail = &failure{op.label() + "|" + start + "|fx=" + ran + "|" + class, what}
		}
	}
	wantOutcome := outcomeClass(mr.thrown, true)

	// 1. no Go panic escapes
	if ir.panicv != "" {
		sr.panicked = true
		if strings.HasPrefix(ir.panicv, "harness:") {
			fail("harness", ir.panicv)
			return
		}
		fail("go-panic:"+panicClass(ir.panicv)+"|want="+wantOutcome, "a Go panic escaped from the engine: "+ir.panicv)
	}
	// 2. the user-code effects ran in the same order and number (coercion order, skipped or repeated coercions)
	if a, b := strings.Join(m.w.FxLog, ","), strings.Join(w.fxLog, ","); a != b && ir.panicv == "" {
		fail("effects", fmt.Sprintf("user-code effects ran in a different order / number: model [%s] then %s, engine [%s] then %s", a, wantOutcome, b, outcomeClass(ir.thrown, true)))
	}
	// 3. memory: canaries, detached slabs, whole-buffer contents
	lo, hi := viewWindow(cfg)
	for i, s := range w.s {
		if i == 1 && !w.useB2 {
			continue
		}
		name := bufNames[i]
		mb := m.w.B[i]
		if s.frozen != nil {
			if !bytes.Equal(s.mem, s.frozen) {
				p := firstDiff(s.mem, s.frozen)
				where := "buffer"
				if p < s.start || p >= s.start+s.n {
					where = "canary"
				}
				fail("write-after-detach:"+name+":"+where, fmt.Sprintf("%s's former memory was written after the buffer had been detached (offset %d relative to the buffer: %02x -> %02x)", name, p-s.start, s.frozen[p], s.mem[p]))
			}
		} else {
			for p, b := range s.mem {
				if (p < s.start || p >= s.start+s.n) && b != canary {
					where := "before"
					if p >= s.start+s.n {
						where = "after"
					}
					fail("canary:"+name+":"+where, fmt.Sprintf("memory outside %s was written: byte at buffer offset %d is %02x", name, p-s.start, b))
					break
				}
			}
		}
		if mb.Detached != (s.frozen != nil) || mb.Detached != s.ab.Detached() {
			fail("detached-state:"+name, fmt.Sprintf("%s: model detached=%v, engine detached=%v (a coercion was skipped or ran at another time)", name, mb.Detached, s.ab.Detached()))
			continue
		}
		if mb.Detached {
			continue
		}
		implBytes := s.mem[s.start : s.start+s.n]
		reconcileNaN(m.w.NaNs, mb, implBytes)
		if !bytes.Equal(implBytes, mb.Data) {
			p := firstDiff(implBytes, mb.Data)
			region := "in-view"
			if op.K == "static" || op.K == "ctor" || op.K == "ab" {
				region = "target"
			} else if i == 0 {
				allOutside := true
				for q := range implBytes {
					if implBytes[q] != mb.Data[q] && q >= lo && q < hi {
						allOutside = false
					}
				}
				if allOutside {
					region = "outside-view"
				}
			}
			before, _ := hex.DecodeString(map[int]string{0: st.B1, 1: st.B2}[i])
			if op.Conv {
				if op.K == "dv" {
					region += ":" + op.Kind
				} else {
					region += ":" + cfg.View
				}
			}
			fail("bytes:"+name+":"+region, fmt.Sprintf("%s contents differ from the model at byte %d: before=%x engine=%x model=%x", name, p, before, implBytes, mb.Data))
		}
		if b := s.ab.Bytes(); len(b) != s.n || (s.n > 0 && &b[0] != &s.mem[s.start]) {
			fail("alias:"+name, "ArrayBuffer.Bytes() no longer aliases the slice passed to NewArrayBuffer")
		}
	}
	sr.next = m.state() // with reconciled NaN encodings
	if ir.panicv != "" {
		return
	}
	// 3. outcome
	gotOutcome := outcomeClass(ir.thrown, true)
	if wantOutcome != gotOutcome {
		fail("outcome|want="+wantOutcome+"|got="+gotOutcome, fmt.Sprintf("completion differs: model %s, engine %s %s", wantOutcome, gotOutcome, ir.msg))
	}
	if wantOutcome == "ok" && gotOutcome == "ok" {
		if op.K == "go" && op.M != "hostwrite" {
			if mr.extra != ir.extra {
				fail("host:"+ir.extraClass(), fmt.Sprintf("host API observation: model %q, engine %q", mr.extra, ir.extra))
			}
		} else {
			var mf []*tamodel.Buffer
			var ifr [][]byte
			ms := renderModel(m.w, mr.val, &mf)
			is := w.describe(ir.val, &ifr)
			if mr.val.T == tamodel.Other && mr.val.S == "<locale string>" {
				if _, isStr := ir.val.Export().(string); !isStr {
					fail("result", "toLocaleString did not return a string")
				}
			} else if ms != is {
				extra := ""
				for i, a := range op.Args {
					if a.T == "elem0" || a.T == "elemLast" {
						extra += fmt.Sprintf(" (%s = %s)", a.String(), m.w.Render(resolved[i]))
					}
				}
				fail("result", fmt.Sprintf("result differs: model %s, engine %s%s", ms, is, extra))
			} else if len(mf) != len(ifr) {
				fail("result", "result buffers differ in number")
			} else {
				for j := range mf {
					reconcileNaN(m.w.NaNs, mf[j], ifr[j])
					if !bytes.Equal(mf[j].Data, ifr[j]) {
						fail("result-bytes", fmt.Sprintf("contents of the result %s differ: model %x, engine %x", ms, mf[j].Data, ifr[j]))
					}
				}
			}
		}
	}
	if op.Cb != nil && (op.K == "call" || op.K == "static") && op.M != "keys" && op.M != "values" && op.M != "entries" {
		var mf []*tamodel.Buffer
		var ifr [][]byte
		ms := renderModel(m.w, tamodel.V{T: tamodel.List, L: m.w.CbLog}, &mf)
		is := w.describe(w.logArr, &ifr)
		if ms != is {
			fail("callback-args", fmt.Sprintf("arguments passed to the callback differ: model %s, engine %s", ms, is))
		}
	}
	return
}

func (ir implResult) extraClass() string {
	if i := strings.IndexAny(ir.extra, ":= "); i > 0 {
		return ir.extra[:i]
	}
	return "obs"
}

var bufNames = [2]string{"B1", "B2"}

func uniq(l []string) []string {
	var out []string
	for _, s := range l {
		dup := false
		for _, o := range out {
			dup = dup || o == s
		}
		if !dup {
			out = append(out, s)
		}
	}
	return out
}

func firstDiff(a, b []byte) int {
	for i := range a {
		if i >= len(b) || a[i] != b[i] {
			return i
		}
	}
	return len(a)
}
