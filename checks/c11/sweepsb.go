package c11

import (
	"fmt"
	"os"
	"sort"
	"strings"
	"sync/atomic"
	"time"

	"verif/core"
)

// beh is one behaviour of the trap under test.
type beh struct {
	hkind int
	fwd   bool
	rkind int
	ridx  int
}

var trapKindBehs = []beh{{hkind: hkNull}, {hkind: hkUndefined}, {hkind: hkNonCallable}, {hkind: hkObject}}

func valBehs(fwd bool, idx ...int) []beh {
	var res []beh
	for _, i := range idx {
		res = append(res, beh{fwd: fwd, rkind: rVal, ridx: i})
	}
	return res
}

func concat(bs ...[]beh) []beh {
	var res []beh
	for _, b := range bs {
		res = append(res, b...)
	}
	return res
}

var honest = []beh{{fwd: true, rkind: rFwd}}
var throwing = []beh{{rkind: rThrow}}

// boolean traps: honest, negated, constant true/false with and without forwarding, every ToBoolean class, throw, trap kinds
var boolBehs = concat(honest, []beh{{fwd: true, rkind: rNot}},
	valBehs(false, vTrue, vFalse), valBehs(true, vTrue, vFalse),
	valBehs(false, v1, vZero, vEmptyStr, vStr, vUndef, vNull, vNaN, vObj, vSym), valBehs(true, v1, vZero),
	throwing, trapKindBehs)

// the reduced list used where the other dimensions are large
var boolBehsCore = concat(honest, []beh{{fwd: true, rkind: rNot}}, valBehs(false, vTrue, vFalse), valBehs(true, vTrue, vFalse))

func descBehs() []beh {
	res := concat(honest, valBehs(false, vUndef), valBehs(true, vUndef))
	for i := range descSpecs {
		res = append(res, beh{rkind: rDesc, ridx: i})
	}
	return concat(res, valBehs(false, vNull, v1, vStr, vTrue, vSym, vF, vArr), throwing, trapKindBehs)
}

// reducedDescBehs: honest, undefined, and the descriptors that differ from a complete descriptor in at most a few
// fields (every 7th of the product in the quick tier, every 2nd in the thorough tier), malformed results, trap kinds.
func reducedDescBehs(thorough bool) []beh {
	res := concat(honest, valBehs(false, vUndef))
	for _, i := range reducedDescs(thorough) {
		res = append(res, beh{rkind: rDesc, ridx: i})
	}
	return concat(res, valBehs(false, vNull, v1), throwing, trapKindBehs)
}

func reducedDescs(thorough bool) []int {
	step := 7
	if thorough {
		step = 2
	}
	var res []int
	for i := 0; i < len(descSpecs); i++ {
		if i%step == 0 || i >= nWellFormedDescs-16 {
			res = append(res, i)
		}
	}
	return res
}

func everyNthDesc(n int) []int {
	var res []int
	for i := 0; i < len(descSpecs); i++ {
		if i%n == 0 || i >= nWellFormedDescs {
			res = append(res, i)
		}
	}
	return res
}

func keyListBehs(thorough bool) []beh {
	res := append([]beh{}, honest...)
	for i := range keyLists {
		if !thorough && i >= nKeyListsLen3 && i < nWellTypedKeyLists {
			continue
		}
		res = append(res, beh{rkind: rKeys, ridx: i})
	}
	return concat(res, throwing, trapKindBehs)
}

// sweep is a mixed-radix product; mk maps digits to a case (ok=false: combination not expressible, skipped).
type sweep struct {
	name string
	dims []int
	mk   func(ix []int) (BCase, bool)
}

func (s *sweep) size() int64 {
	n := int64(1)
	for _, d := range s.dims {
		n *= int64(d)
	}
	return n
}

func (s *sweep) at(rank int64, ix []int) (BCase, bool) {
	// last dimension varies fastest
	for i := len(s.dims) - 1; i >= 0; i-- {
		ix[i] = int(rank % int64(s.dims[i]))
		rank /= int64(s.dims[i])
	}
	return s.mk(ix)
}

func applyBeh(c *BCase, b beh) { c.HKind, c.Fwd, c.RKind, c.RIdx = b.hkind, b.fwd, b.rkind, b.ridx }

func b2i(b bool) int {
	if b {
		return 1
	}
	return 0
}

// keyedSweep: traps taking a property key. Order of dimensions: slow -> fast.
func keyedSweep(trap string, flavours []int, keyIdx []int, behs []beh, opIdx []int, args []int) sweep {
	cfgs := allCfgs()
	return sweep{
		name: trap,
		dims: []int{len(flavours), len(behs), len(cfgs), 2, len(keyIdx), len(opIdx), len(args)},
		mk: func(ix []int) (BCase, bool) {
			c := BCase{Part: "B", Trap: trap, Flavour: flavours[ix[0]], Cfg: cfgs[ix[2]], Ext: ix[3] == 0, Key: keyIdx[ix[4]], Op: opIdx[ix[5]], Arg: args[ix[6]]}
			applyBeh(&c, behs[ix[1]])
			if ops[c.Op].arg == argNone && ix[6] > 0 {
				return c, false
			}
			if c.Flavour == flGo && !goResultOK(&c) {
				return c, false
			}
			return c, true
		},
	}
}

func allCfgs() []int {
	res := make([]int, len(propCfgs))
	for i := range res {
		res[i] = i
	}
	return res
}

func seq(n int) []int {
	res := make([]int, n)
	for i := range res {
		res[i] = i
	}
	return res
}

func partBSweeps(r *core.Run) []sweep {
	all := []int{flSingle, flFull, flGo}
	var sw []sweep
	none := []int{0}

	// object-level traps
	objSweep := func(trap string, behs []beh, args []int) sweep {
		opIdx := opsFor(trap)
		xcfgs := []int{0, 1, 2, 5, 26}
		return sweep{
			name: trap,
			dims: []int{len(all), len(behs), 4, 2, len(xcfgs), len(opIdx), len(args)},
			mk: func(ix []int) (BCase, bool) {
				c := BCase{Part: "B", Trap: trap, Flavour: all[ix[0]], Proto: ix[2], Ext: ix[3] == 0, XCfg: xcfgs[ix[4]], Op: opIdx[ix[5]], Arg: args[ix[6]]}
				applyBeh(&c, behs[ix[1]])
				if ops[c.Op].arg == argNone && ix[6] > 0 {
					return c, false
				}
				if c.Flavour == flGo && !goResultOK(&c) {
					return c, false
				}
				return c, true
			},
		}
	}
	protoBehs := concat(honest, valBehs(false, vNull, vA, vB, vOP, vUndef, v1, vStr, vTrue, vSym, vF, vObj), throwing, trapKindBehs)
	sw = append(sw, objSweep("getPrototypeOf", protoBehs, none))
	sw = append(sw, objSweep("setPrototypeOf", boolBehs, []int{vNull, vA, vB, vOP, v1, vUndef}))
	sw = append(sw, objSweep("isExtensible", boolBehs, none))
	sw = append(sw, objSweep("preventExtensions", boolBehs, none))

	// keyed traps. The full products (every partial descriptor) run on the primary operation with the single-trap script
	// handler and the Go handler; the other operations reaching the same trap, the full-forwarding handler flavour and
	// (quick tier) the non-string key kinds run on reduced lattices. The thorough tier runs the full product everywhere.
	thorough := r != nil && r.Thorough()
	k3 := probeKeys   // "p", "0", SYM, 0
	k1 := []int{0, 5} // "p", 0
	kOther := k1      // key kinds for the secondary flavours in the quick tier
	if thorough {
		kOther = k3
	}
	js, goFl := []int{flSingle}, []int{flGo}
	jsFull, goFull := []int{flSingle, flFull}, []int{flGo, flFull}
	_ = jsFull
	gopdOps := opsFor("getOwnPropertyDescriptor")
	sw = append(sw, keyedSweep("getOwnPropertyDescriptor", js, k3, descBehs(), gopdOps[:1], none))
	sw = append(sw, keyedSweep("getOwnPropertyDescriptor", goFl, k3, descBehs(), gopdOps[:1], none))
	sw = append(sw, keyedSweep("getOwnPropertyDescriptor", js, kOther, reducedDescBehs(thorough), gopdOps[1:], none))
	sw = append(sw, keyedSweep("getOwnPropertyDescriptor", goFull, kOther, reducedDescBehs(thorough), gopdOps, none))
	defOps := []int{opIndex("Reflect.defineProperty"), opIndex("Object.defineProperty")}
	defBehs := concat(honest, []beh{{fwd: true, rkind: rNot}}, valBehs(false, vTrue, vFalse))
	if thorough {
		defBehs = boolBehsCore
	}
	sw = append(sw, keyedSweep("defineProperty", js, k3, defBehs, defOps[:1], seq(len(descSpecs))))
	if thorough {
		sw = append(sw, keyedSweep("defineProperty", goFull, k3, defBehs, defOps[:1], seq(len(descSpecs))))
	} else {
		sw = append(sw, keyedSweep("defineProperty", goFl, kOther, defBehs, defOps[:1], everyNthDesc(3)))
	}
	sw = append(sw, keyedSweep("defineProperty", js, kOther, boolBehsCore, defOps[1:], reducedDescs(thorough)))
	sw = append(sw, keyedSweep("defineProperty", goFull, kOther, boolBehsCore, defOps, reducedDescs(thorough)))
	// defineProperty: every ToBoolean class / trap kind on a small descriptor set; and reached through [[Set]] / freeze / seal
	smallDescs := []int{0, 1, 2, 10, 100}
	sw = append(sw, keyedSweep("defineProperty", all, kOther, boolBehs, defOps, smallDescs))
	viaSet := []int{opIndex("x[k]=a strict"), opIndex("Reflect.set"), opIndex("Object.freeze"), opIndex("Object.seal")}
	sw = append(sw, keyedSweep("defineProperty", js, k3, boolBehs, viaSet, []int{v1, v2}))
	sw = append(sw, keyedSweep("defineProperty", goFull, kOther, boolBehs, viaSet, []int{v1, v2}))
	sw = append(sw, keyedSweep("has", all, k3, boolBehs, opsFor("has"), none))
	getBehs := concat(honest, valBehs(false, v1, v2, vUndef, vNull, vNaN, vZero, vNegZero, vStr, vF, vA), valBehs(true, v1, vUndef), throwing, trapKindBehs)
	sw = append(sw, keyedSweep("get", all, k3, getBehs, opsFor("get"), none))
	setVals := []int{v1, v2, vNaN, vZero, vNegZero}
	sw = append(sw, keyedSweep("set", js, k3, boolBehs, opsFor("set"), setVals))
	if thorough {
		sw = append(sw, keyedSweep("set", goFull, k3, boolBehs, opsFor("set"), setVals))
	} else {
		sw = append(sw, keyedSweep("set", goFull, kOther, boolBehsCore, opsFor("set"), setVals))
	}
	sw = append(sw, keyedSweep("deleteProperty", all, k3, boolBehs, opsFor("deleteProperty"), none))

	// ownKeys: three target keys each absent / configurable / non-configurable; every key list up to length 3
	{
		behs := keyListBehs(thorough)
		okOps := opsFor("ownKeys")
		mk := func(fls []int, opIdx []int) sweep {
			return sweep{
				name: "ownKeys",
				dims: []int{len(fls), len(behs), 27, 2, len(opIdx)},
				mk: func(ix []int) (BCase, bool) {
					c := BCase{Part: "B", Trap: "ownKeys", Flavour: fls[ix[0]], XCfg: ix[2], Ext: ix[3] == 0, Op: opIdx[ix[4]]}
					applyBeh(&c, behs[ix[1]])
					if c.Flavour == flGo && !goResultOK(&c) {
						return c, false
					}
					return c, true
				},
			}
		}
		sw = append(sw, mk(js, okOps))
		if thorough {
			sw = append(sw, mk(goFull, okOps))
		} else {
			sw = append(sw, mk(goFull, okOps[:1]))
		}
	}
	// apply / construct
	callSweep := func(trap string, behs []beh) sweep {
		opIdx := opsFor(trap)
		return sweep{
			name: trap,
			dims: []int{len(all), len(behs), 3, len(opIdx)},
			mk: func(ix []int) (BCase, bool) {
				c := BCase{Part: "B", Trap: trap, Flavour: all[ix[0]], TKind: []int{tkFunc, tkArrow, tkObject}[ix[2]], Ext: true, Op: opIdx[ix[3]]}
				applyBeh(&c, behs[ix[1]])
				if c.Flavour == flGo && !goResultOK(&c) {
					return c, false
				}
				return c, true
			},
		}
	}
	sw = append(sw, callSweep("apply", concat(honest, valBehs(false, v1, vUndef, vA), valBehs(true, v1), throwing, trapKindBehs)))
	sw = append(sw, callSweep("construct", concat(honest, valBehs(false, vA, vObj, vF, v1, vUndef, vNull, vStr, vTrue, vSym), valBehs(true, v1, vA), throwing, trapKindBehs)))

	// revoked proxies: every operation, every key kind, object and function targets, script and Go flavour
	{
		fl := []int{flSingle, flGo}
		sw = append(sw, sweep{
			name: "revoked",
			dims: []int{len(fl), 2, len(probeKeys), len(ops)},
			mk: func(ix []int) (BCase, bool) {
				c := BCase{Part: "B", Trap: "get", Flavour: fl[ix[0]], TKind: []int{tkObject, tkFunc}[ix[1]], Ext: true, Key: probeKeys[ix[2]], Op: ix[3], Revoke: true, Fwd: true}
				switch ops[c.Op].arg {
				case argVal:
					c.Arg = vA
				case argDesc:
					c.Arg = 10
				}
				if !ops[c.Op].keyed && ix[2] > 0 {
					return c, false
				}
				return c, true
			},
		})
	}
	// the target is itself a chain of 1-2 forwarding proxies (proxies as targets: the invariant checks read the target
	// through its own traps)
	{
		type tb struct {
			trap string
			behs []beh
			args []int
		}
		simpleBool := concat(honest, valBehs(false, vTrue, vFalse))
		list := []tb{
			{"getPrototypeOf", concat(honest, valBehs(false, vNull, vOP)), none},
			{"setPrototypeOf", simpleBool, []int{vNull, vOP}},
			{"isExtensible", simpleBool, none},
			{"preventExtensions", simpleBool, none},
			{"getOwnPropertyDescriptor", concat(honest, valBehs(false, vUndef), []beh{{rkind: rDesc, ridx: 30}, {rkind: rDesc, ridx: 35}}), none},
			{"defineProperty", simpleBool, []int{9, 10, 17, 100}},
			{"has", simpleBool, none},
			{"get", concat(honest, valBehs(false, v1, vUndef)), none},
			{"set", simpleBool, []int{v1, v2}},
			{"deleteProperty", simpleBool, none},
			{"ownKeys", concat(honest, []beh{{rkind: rKeys, ridx: 0}, {rkind: rKeys, ridx: 1}}), none},
		}
		fl := []int{flSingle}
		nLayers := 1
		if thorough {
			fl = []int{flSingle, flFull}
			nLayers = 2
		}
		cfgs := allCfgs()
		for _, t := range list {
			t := t
			opIdx := opsFor(t.trap)
			sw = append(sw, sweep{
				name: "layered/" + t.trap,
				dims: []int{nLayers, len(fl), len(t.behs), len(cfgs), 2, len(probeKeys), len(opIdx), len(t.args)},
				mk: func(ix []int) (BCase, bool) {
					c := BCase{Part: "B", Trap: t.trap, Layers: ix[0] + 1, Flavour: fl[ix[1]], Cfg: cfgs[ix[3]], Ext: ix[4] == 0, Key: probeKeys[ix[5]], Op: opIdx[ix[6]], Arg: t.args[ix[7]]}
					applyBeh(&c, t.behs[ix[2]])
					if ops[c.Op].arg == argNone && ix[7] > 0 {
						return c, false
					}
					if ops[c.Op].arg == argVal && c.Arg >= nVals { // descriptor index on a value-taking operation
						if ix[7] > 1 {
							return c, false
						}
						c.Arg = []int{v1, v2}[ix[7]]
					}
					if ops[c.Op].arg == argDesc && t.trap != "defineProperty" {
						c.Arg = 10
					}
					return c, true
				},
			})
		}
	}
	return sw
}

// runPartB enumerates all sweeps; returns false if the deadline cut it.
func runPartB(r *core.Run, soft time.Time) bool {
	if hs := hardStop(r); soft.After(hs) {
		soft = hs
	}
	sweeps := partBSweeps(r)
	if only := os.Getenv("C11_ONLY"); only != "" { // development aid: restrict to sweeps whose name contains the string
		var sel []sweep
		for _, s := range sweeps {
			if s.name == only || (strings.HasSuffix(only, "*") && strings.HasPrefix(s.name, strings.TrimSuffix(only, "*"))) {
				sel = append(sel, s)
			}
		}
		sweeps = sel
	}
	// smallest sweeps first: a cut run has then completed as many sweeps (traps) as possible
	sort.SliceStable(sweeps, func(i, j int) bool { return sweeps[i].size() < sweeps[j].size() })
	complete := true
	var doneNames []string
	for si := range sweeps {
		s := &sweeps[si]
		n := s.size()
		workers := make([]*bWorker, r.Workers)
		var softCut atomic.Bool
		ok := r.Parallel(n, 2048, func(wi int, lo, hi int64) {
			if softCut.Load() || time.Now().After(soft) {
				softCut.Store(true)
				return
			}
			bw := workers[wi]
			if bw == nil {
				bw = &bWorker{run: r}
				workers[wi] = bw
			}
			ix := make([]int, len(s.dims))
			var evals, nontrivial int64
			for rank := lo; rank < hi; rank++ {
				c, ok := s.at(rank, ix)
				if !ok {
					continue
				}
				evals++
				sig, what, got, want := evalB(bw.engine(), &c)
				if trapInvoked(want, c.Trap) {
					nontrivial++
				}
				r.Outcome(c.Trap + "|" + firstLineKind(got))
				if sig != "" {
					confirmB(r, &c, sig, what)
				}
				if r.WantSample(rank) && rank%7 == 0 {
					c.Text = c.describe()
					r.Sample(map[string]interface{}{"part": "B", "sweep": s.name, "rank": rank, "case": c.Text, "result": strings.SplitN(got, "\n", 2)[0]})
				}
			}
			r.Eval(evals)
			r.Traces(evals)
			r.NontrivialN(nontrivial)
			r.Add("partB_cases", evals)
			r.Add("partB_cases_trap_invoked", nontrivial)
		})
		if !ok || softCut.Load() {
			complete = false
			r.Set("partB_cut_in_sweep", fmt.Sprintf("%d:%s", si, s.name))
			break
		}
		doneNames = append(doneNames, fmt.Sprintf("%s(%d)", s.name, n))
	}
	r.Set("partB_sweeps_completed", doneNames)
	return complete
}

func trapInvoked(modelResult, trap string) bool {
	parts := strings.SplitN(modelResult, "\n", 4)
	return len(parts) == 4 && strings.Contains(parts[3], trap+"(")
}

func firstLineKind(res string) string {
	l := firstLine(res)
	if strings.HasPrefix(l, "ok:") {
		return "ok"
	}
	return l
}
