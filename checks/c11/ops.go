package c11

import (
	pm "verif/ref/proxymodel"
)

const (
	argNone = iota
	argVal
	argDesc
)

// opDef is one script-level operation: the body of a script function (x, k, a, r) — x the object operated on
// (the proxy, or a child object inheriting from it), k the key, a the argument (value / descriptor object /
// prototype), r an explicit receiver — and the same operation expressed over proxymodel.
type opDef struct {
	name  string
	js    string
	m     func(w *world, x pm.Object, k pm.Key, a pm.Val, r pm.Val) pm.Val
	arg   int
	child bool     // x is Object.create(proxy)
	traps []string // sweeps (trap under test) this op takes part in
	keyed bool     // uses k
}

func list(w *world, items ...pm.Val) pm.Val { return pm.ObjVal(pm.NewList(pm.ObjVal(w.AP), items)) }

// childDump renders what an assignment through a child object left on the child.
func withDump(v pm.Val, o pm.Object) pm.Val {
	return pm.Str(pm.Repr(v) + "/" + o.(*pm.Ordinary).Dump())
}

var ops = []opDef{
	// --- [[GetPrototypeOf]]
	{name: "Reflect.getPrototypeOf", js: `return Reflect.getPrototypeOf(x);`, traps: []string{"getPrototypeOf"},
		m: func(w *world, x pm.Object, k pm.Key, a, r pm.Val) pm.Val { return pm.ReflectGetPrototypeOf(x) }},
	{name: "Object.getPrototypeOf", js: `return Object.getPrototypeOf(x);`, traps: []string{"getPrototypeOf"},
		m: func(w *world, x pm.Object, k pm.Key, a, r pm.Val) pm.Val { return pm.ObjectGetPrototypeOf(x) }},
	{name: "A.isPrototypeOf", js: `return OP.isPrototypeOf.call(A, x);`, traps: []string{"getPrototypeOf"},
		m: func(w *world, x pm.Object, k pm.Key, a, r pm.Val) pm.Val { return pm.IsPrototypeOf(w.A, x) }},
	{name: "instanceof", js: `return x instanceof CA;`, traps: []string{"getPrototypeOf"},
		m: func(w *world, x pm.Object, k pm.Key, a, r pm.Val) pm.Val { return pm.IsPrototypeOf(w.A, x) }},
	// --- [[SetPrototypeOf]]
	{name: "Reflect.setPrototypeOf", js: `return Reflect.setPrototypeOf(x, a);`, arg: argVal, traps: []string{"setPrototypeOf"},
		m: func(w *world, x pm.Object, k pm.Key, a, r pm.Val) pm.Val { return pm.ReflectSetPrototypeOf(x, a) }},
	{name: "Object.setPrototypeOf", js: `return Object.setPrototypeOf(x, a);`, arg: argVal, traps: []string{"setPrototypeOf"},
		m: func(w *world, x pm.Object, k pm.Key, a, r pm.Val) pm.Val { return pm.ObjectSetPrototypeOf(x, a) }},
	// --- [[IsExtensible]]
	{name: "Reflect.isExtensible", js: `return Reflect.isExtensible(x);`, traps: []string{"isExtensible"},
		m: func(w *world, x pm.Object, k pm.Key, a, r pm.Val) pm.Val { return pm.ReflectIsExtensible(x) }},
	{name: "Object.isExtensible", js: `return Object.isExtensible(x);`, traps: []string{"isExtensible"},
		m: func(w *world, x pm.Object, k pm.Key, a, r pm.Val) pm.Val { return pm.ObjectIsExtensible(x) }},
	{name: "Object.isFrozen", js: `return Object.isFrozen(x);`, traps: []string{"isExtensible", "ownKeys", "getOwnPropertyDescriptor"},
		m: func(w *world, x pm.Object, k pm.Key, a, r pm.Val) pm.Val { return pm.TestIntegrityLevel(x, true) }},
	{name: "Object.isSealed", js: `return Object.isSealed(x);`, traps: []string{"isExtensible", "ownKeys", "getOwnPropertyDescriptor"},
		m: func(w *world, x pm.Object, k pm.Key, a, r pm.Val) pm.Val { return pm.TestIntegrityLevel(x, false) }},
	// --- [[PreventExtensions]]
	{name: "Reflect.preventExtensions", js: `return Reflect.preventExtensions(x);`, traps: []string{"preventExtensions"},
		m: func(w *world, x pm.Object, k pm.Key, a, r pm.Val) pm.Val { return pm.ReflectPreventExtensions(x) }},
	{name: "Object.preventExtensions", js: `return Object.preventExtensions(x);`, traps: []string{"preventExtensions"},
		m: func(w *world, x pm.Object, k pm.Key, a, r pm.Val) pm.Val { return pm.ObjectPreventExtensions(x) }},
	{name: "Object.freeze", js: `return Object.freeze(x);`, traps: []string{"preventExtensions", "defineProperty", "ownKeys", "getOwnPropertyDescriptor"},
		m: func(w *world, x pm.Object, k pm.Key, a, r pm.Val) pm.Val { return pm.ObjectFreeze(x) }},
	{name: "Object.seal", js: `return Object.seal(x);`, traps: []string{"preventExtensions", "defineProperty", "ownKeys"},
		m: func(w *world, x pm.Object, k pm.Key, a, r pm.Val) pm.Val { return pm.ObjectSeal(x) }},
	// --- [[GetOwnProperty]]
	{name: "Reflect.getOwnPropertyDescriptor", js: `return Reflect.getOwnPropertyDescriptor(x, k);`, keyed: true, traps: []string{"getOwnPropertyDescriptor"},
		m: func(w *world, x pm.Object, k pm.Key, a, r pm.Val) pm.Val {
			return pm.ReflectGetOwnPropertyDescriptor(w.rl, x, k)
		}},
	{name: "Object.getOwnPropertyDescriptor", js: `return Object.getOwnPropertyDescriptor(x, k);`, keyed: true, traps: []string{"getOwnPropertyDescriptor"},
		m: func(w *world, x pm.Object, k pm.Key, a, r pm.Val) pm.Val {
			return pm.ObjectGetOwnPropertyDescriptor(w.rl, x, k)
		}},
	{name: "hasOwnProperty", js: `return OP.hasOwnProperty.call(x, k);`, keyed: true, traps: []string{"getOwnPropertyDescriptor"},
		m: func(w *world, x pm.Object, k pm.Key, a, r pm.Val) pm.Val { return pm.HasOwnProperty(x, k) }},
	{name: "propertyIsEnumerable", js: `return OP.propertyIsEnumerable.call(x, k);`, keyed: true, traps: []string{"getOwnPropertyDescriptor"},
		m: func(w *world, x pm.Object, k pm.Key, a, r pm.Val) pm.Val { return pm.PropertyIsEnumerable(x, k) }},
	// --- [[DefineOwnProperty]]
	{name: "Reflect.defineProperty", js: `return Reflect.defineProperty(x, k, a);`, keyed: true, arg: argDesc, traps: []string{"defineProperty"},
		m: func(w *world, x pm.Object, k pm.Key, a, r pm.Val) pm.Val { return pm.ReflectDefineProperty(x, k, a) }},
	{name: "Object.defineProperty", js: `return Object.defineProperty(x, k, a);`, keyed: true, arg: argDesc, traps: []string{"defineProperty"},
		m: func(w *world, x pm.Object, k pm.Key, a, r pm.Val) pm.Val { return pm.ObjectDefineProperty(x, k, a) }},
	// --- [[HasProperty]]
	{name: "in", js: `return k in x;`, keyed: true, traps: []string{"has"},
		m: func(w *world, x pm.Object, k pm.Key, a, r pm.Val) pm.Val { return pm.In(x, k) }},
	{name: "Reflect.has", js: `return Reflect.has(x, k);`, keyed: true, traps: []string{"has"},
		m: func(w *world, x pm.Object, k pm.Key, a, r pm.Val) pm.Val { return pm.ReflectHas(x, k) }},
	{name: "in child", js: `return k in x;`, keyed: true, child: true, traps: []string{"has"},
		m: func(w *world, x pm.Object, k pm.Key, a, r pm.Val) pm.Val { return pm.In(x, k) }},
	// --- [[Get]]
	{name: "x[k]", js: `return x[k];`, keyed: true, traps: []string{"get"},
		m: func(w *world, x pm.Object, k pm.Key, a, r pm.Val) pm.Val { return pm.GetV(x, k) }},
	{name: "Reflect.get", js: `return Reflect.get(x, k);`, keyed: true, traps: []string{"get"},
		m: func(w *world, x pm.Object, k pm.Key, a, r pm.Val) pm.Val { return pm.ReflectGet(x, k, pm.ObjVal(x)) }},
	{name: "Reflect.get receiver", js: `return Reflect.get(x, k, r);`, keyed: true, traps: []string{"get"},
		m: func(w *world, x pm.Object, k pm.Key, a, r pm.Val) pm.Val { return pm.ReflectGet(x, k, r) }},
	{name: "child[k]", js: `return x[k];`, keyed: true, child: true, traps: []string{"get"},
		m: func(w *world, x pm.Object, k pm.Key, a, r pm.Val) pm.Val { return pm.GetV(x, k) }},
	// --- [[Set]]
	{name: "x[k]=a strict", js: `"use strict"; return x[k] = a;`, keyed: true, arg: argVal, traps: []string{"set", "defineProperty"},
		m: func(w *world, x pm.Object, k pm.Key, a, r pm.Val) pm.Val { return pm.Assign(x, k, a, true) }},
	{name: "x[k]=a sloppy", js: `return x[k] = a;`, keyed: true, arg: argVal, traps: []string{"set"},
		m: func(w *world, x pm.Object, k pm.Key, a, r pm.Val) pm.Val { return pm.Assign(x, k, a, false) }},
	{name: "Reflect.set", js: `return Reflect.set(x, k, a);`, keyed: true, arg: argVal, traps: []string{"set", "defineProperty"},
		m: func(w *world, x pm.Object, k pm.Key, a, r pm.Val) pm.Val { return pm.ReflectSet(x, k, a, pm.ObjVal(x)) }},
	{name: "Reflect.set receiver", js: `return Reflect.set(x, k, a, r);`, keyed: true, arg: argVal, traps: []string{"set"},
		m: func(w *world, x pm.Object, k pm.Key, a, r pm.Val) pm.Val { return pm.ReflectSet(x, k, a, r) }},
	{name: "child[k]=a strict", js: `"use strict"; var v = (x[k] = a); return R(v) + "/" + DUMP(x);`, keyed: true, arg: argVal, child: true, traps: []string{"set"},
		m: func(w *world, x pm.Object, k pm.Key, a, r pm.Val) pm.Val {
			return withDump(pm.Assign(x, k, a, true), x)
		}},
	// --- [[Delete]]
	{name: "delete strict", js: `"use strict"; return delete x[k];`, keyed: true, traps: []string{"deleteProperty"},
		m: func(w *world, x pm.Object, k pm.Key, a, r pm.Val) pm.Val { return pm.DeleteOp(x, k, true) }},
	{name: "delete sloppy", js: `return delete x[k];`, keyed: true, traps: []string{"deleteProperty"},
		m: func(w *world, x pm.Object, k pm.Key, a, r pm.Val) pm.Val { return pm.DeleteOp(x, k, false) }},
	{name: "Reflect.deleteProperty", js: `return Reflect.deleteProperty(x, k);`, keyed: true, traps: []string{"deleteProperty"},
		m: func(w *world, x pm.Object, k pm.Key, a, r pm.Val) pm.Val { return pm.ReflectDeleteProperty(x, k) }},
	// --- [[OwnPropertyKeys]]
	{name: "Reflect.ownKeys", js: `return Reflect.ownKeys(x);`, traps: []string{"ownKeys"},
		m: func(w *world, x pm.Object, k pm.Key, a, r pm.Val) pm.Val { return pm.ReflectOwnKeys(w.rl, x) }},
	{name: "Object.getOwnPropertyNames", js: `return Object.getOwnPropertyNames(x);`, traps: []string{"ownKeys"},
		m: func(w *world, x pm.Object, k pm.Key, a, r pm.Val) pm.Val {
			return pm.ObjectGetOwnPropertyNames(w.rl, x)
		}},
	{name: "Object.getOwnPropertySymbols", js: `return Object.getOwnPropertySymbols(x);`, traps: []string{"ownKeys"},
		m: func(w *world, x pm.Object, k pm.Key, a, r pm.Val) pm.Val {
			return pm.ObjectGetOwnPropertySymbols(w.rl, x)
		}},
	{name: "Object.keys", js: `return Object.keys(x);`, traps: []string{"ownKeys", "getOwnPropertyDescriptor"},
		m: func(w *world, x pm.Object, k pm.Key, a, r pm.Val) pm.Val { return pm.ObjectKeys(w.rl, x) }},
	{name: "for-in", js: `var out = []; for (var i in x) out.push(i); return out;`, traps: []string{"ownKeys", "getOwnPropertyDescriptor", "getPrototypeOf"},
		m: func(w *world, x pm.Object, k pm.Key, a, r pm.Val) pm.Val { return pm.ForIn(w.rl, x) }},
	// --- [[Call]] / [[Construct]]
	{name: "x(1,2)", js: `return x(1, 2);`, traps: []string{"apply"},
		m: func(w *world, x pm.Object, k pm.Key, a, r pm.Val) pm.Val {
			return pm.CallOp(x, pm.Undef, []pm.Val{pm.Num(1), pm.Num(2)})
		}},
	{name: "call.call(x,r,1)", js: `return FP.call.call(x, r, 1);`, traps: []string{"apply"},
		m: func(w *world, x pm.Object, k pm.Key, a, r pm.Val) pm.Val { return pm.CallOp(x, r, []pm.Val{pm.Num(1)}) }},
	{name: "Reflect.apply", js: `return Reflect.apply(x, r, [1, 2]);`, traps: []string{"apply"},
		m: func(w *world, x pm.Object, k pm.Key, a, r pm.Val) pm.Val {
			return pm.ReflectApply(pm.ObjVal(x), r, list(w, pm.Num(1), pm.Num(2)))
		}},
	{name: "new x(1)", js: `var o = new x(1); return R(rGetProto(o)) + ":" + R(o);`, traps: []string{"construct"},
		m: func(w *world, x pm.Object, k pm.Key, a, r pm.Val) pm.Val {
			return protoAnd(pm.NewOp(x, []pm.Val{pm.Num(1)}))
		}},
	{name: "Reflect.construct", js: `var o = Reflect.construct(x, [1]); return R(rGetProto(o)) + ":" + R(o);`, traps: []string{"construct"},
		m: func(w *world, x pm.Object, k pm.Key, a, r pm.Val) pm.Val {
			return protoAnd(pm.ReflectConstruct(pm.ObjVal(x), list(w, pm.Num(1)), pm.ObjVal(x)))
		}},
	{name: "Reflect.construct newTarget", js: `var o = Reflect.construct(x, [1], CA); return R(rGetProto(o)) + ":" + R(o);`, traps: []string{"construct"},
		m: func(w *world, x pm.Object, k pm.Key, a, r pm.Val) pm.Val {
			return protoAnd(pm.ReflectConstruct(pm.ObjVal(x), list(w, pm.Num(1)), pm.ObjVal(w.CA)))
		}},
	{name: "Array.isArray", js: `return Array.isArray(x);`, traps: []string{"apply"},
		m: func(w *world, x pm.Object, k pm.Key, a, r pm.Val) pm.Val { return pm.IsArray(x) }},
	{name: "typeof", js: `return typeof x;`, traps: []string{"apply", "construct"},
		m: func(w *world, x pm.Object, k pm.Key, a, r pm.Val) pm.Val { return pm.TypeOf(x) }},
}

func protoAnd(o pm.Val) pm.Val {
	return pm.Str(pm.Repr(o.O.GetPrototypeOf()) + ":" + pm.Repr(o))
}

func opsFor(trap string) []int {
	var res []int
	for i, o := range ops {
		for _, t := range o.traps {
			if t == trap {
				res = append(res, i)
			}
		}
	}
	return res
}

func opIndex(name string) int {
	for i, o := range ops {
		if o.name == name {
			return i
		}
	}
	panic("no op " + name)
}
