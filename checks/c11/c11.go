// Package c11 decides property C11 (a forwarding Proxy equals its target; invariant-breaking handlers are
// rejected, consistent ones accepted; revoked proxies throw).
//
// Part A (transparency) is an explicit-state breadth-first search over real target objects of several kinds;
// every transition is executed on the bare target and, in lock-step, through forwarding proxies of several
// handler flavours and 1-3 layers around a twin target; results and target states must be identical.
//
// Part B (invariants) enumerates, per trap, the product of target property configurations x extensibility x
// key kinds x trap results (honest, every partial descriptor / key list / boolean, malformed results) x
// operations reaching the trap, and compares the engine with proxymodel (ECMA-262 §10.5 transcribed) on
// result, target state and the order of trap / accessor invocations - in both directions.
package c11

import (
	"encoding/json"
	"fmt"
	"sync"
	"time"

	"verif/core"

	"github.com/dop251/goja"
)

func init() {
	core.Register(&core.Check{
		ID:    "C11",
		Level: "model_checking",
		Rule: "Part A: level-synchronous BFS over op paths on real target objects (states de-duplicated by a canonical dump of target + receiver); every (state, op) transition is executed on the bare target and through each proxy variant (handler flavour x layers) around a twin; a state is non-trivial when its dump differs from the initial one. " +
			"Part B: mixed-radix enumeration by rank of trap x handler flavour x target property configuration x extensibility x key kind x trap behaviour x operation x argument, each compared with proxymodel; a case is non-trivial when the trap under test was actually invoked (a post-condition was evaluated); cases are distinct by construction (distinct ranks).",
		Run:    run,
		Replay: replay,
	})
}

var compileOnce sync.Once

// confirmed holds the signatures whose first occurrence has been re-run 5x on fresh engines.
var confirmed sync.Map

func compilePrograms() {
	compileOnce.Do(func() {
		prgPartB = goja.MustCompile("c11-partB.js", jsPartB(), false)
		prgPartA = goja.MustCompile("c11-partA.js", jsPartA(), false)
	})
}

func run(r *core.Run) {
	compilePrograms()
	r.Assume("proxymodel (ref/proxymodel) is a faithful transcription of ECMA-262 §10.1 (ordinary objects) and §10.5 (Proxy internal methods, ES2023 wording)")
	r.Assume("bare (non-proxy) ordinary objects of the engine behave per spec for the dump operations (Reflect.ownKeys / getOwnPropertyDescriptor / getPrototypeOf / isExtensible) used to observe states - that is property C04's subject")
	r.Assume("a Proxy has no state of its own besides target, handler and callability, so the state of (proxy, target) is the state of the target")
	// order: regression corpus; first BFS level of part A (cheap); part B, which may use the budget only up to a soft
	// deadline so that part A is not starved on a loaded machine; remaining BFS levels of part A.
	t0 := time.Now()
	okCorpus := runCorpus(r)
	t1 := time.Now()
	pa := newPartA(r)
	okA := pa.advance(1)
	t2 := time.Now()
	soft := t2.Add(time.Duration(float64(hardStop(r).Sub(t2)) * 0.6))
	okB := runPartB(r, soft)
	t3 := time.Now()
	okA = pa.advance(pa.maxLevels) && okA
	r.Set("wall_s_corpus_A1_B_A2", []float64{t1.Sub(t0).Seconds(), t2.Sub(t1).Seconds(), t3.Sub(t2).Seconds(), time.Since(t3).Seconds()})
	if !(okCorpus && okA && okB) {
		r.Set("cut_by_time_budget", true)
	}
	r.Exhaustive(okCorpus && okA && okB)
}

// hardStop is a little before the core deadline: work units that are started later would overrun the budget.
func hardStop(r *core.Run) time.Time { return r.Deadline.Add(-3 * time.Second) }

// replay re-executes one recorded case.
func replay(r *core.Run, raw json.RawMessage) {
	compilePrograms()
	var head struct {
		Part string `json:"part"`
	}
	if err := json.Unmarshal(raw, &head); err != nil {
		r.Violation("replay|bad-case", err.Error(), nil)
		return
	}
	switch head.Part {
	case "B":
		var c BCase
		if err := json.Unmarshal(raw, &c); err != nil {
			r.Violation("replay|bad-case", err.Error(), nil)
			return
		}
		c.resolve()
		eng := newBEngine()
		sig, what, got, want := evalB(eng, &c)
		if v, err := eng.rt.RunString("LASTERR && (String(LASTERR.message) + ' ' + String(LASTERR.stack))"); err == nil {
			fmt.Println("last error:", v)
		}
		fmt.Printf("case: %s\n--- engine ---\n%s\n--- model ---\n%s\n", c.describe(), got, want)
		if sig != "" {
			r.Violation(sig, what, &c)
		}
	case "A":
		var c ACase
		if err := json.Unmarshal(raw, &c); err != nil {
			r.Violation("replay|bad-case", err.Error(), nil)
			return
		}
		c.resolve()
		fails := evalA(newAEngine(), &c)
		fmt.Printf("case: %s target, path %v, proxy chain %s\n", aKinds[c.Kind].name, describePath(c.Kind, c.Path), variant(c.Variant))
		for _, f := range fails {
			r.Violation(f.sig, f.what, &c)
		}
	default:
		r.Violation("replay|bad-case", fmt.Sprintf("unknown part %q", head.Part), nil)
	}
}

// confirmB re-runs a failing case 5x on fresh engines before it is reported.
func confirmB(r *core.Run, c *BCase, sig, what string) {
	c.Part = "B"
	c.OpName = ops[c.Op].name
	c.Text = c.describe()
	if _, seen := confirmed.LoadOrStore(sig, true); seen || r.IsKnown(sig) {
		r.Violation(sig, what, c) // counted only
		return
	}
	same := 0
	for i := 0; i < 5; i++ {
		if s, _, _, _ := evalB(newBEngine(), c); s == sig {
			same++
		}
	}
	c.Part = "B"
	c.Text = c.describe()
	if same != 5 {
		r.Violation("nondeterministic|"+sig, fmt.Sprintf("failure reproduced only %d/5 times on fresh engines: %s", same, what), c)
		return
	}
	r.Violation(sig, what, c)
}
