package c11

import (
	"fmt"
	"strings"
)

// jsCommon is the script side shared by part A and part B: canonical rendering of values, descriptors
// and whole-object dumps (the same format proxymodel.Repr / Dump produce), named objects, accessor
// functions that log their receiver, and the forwarding handlers.
const jsCommon = `
var SYM = Symbol("y"), SYM2 = Symbol("z");
var SNAMES = new Map(), CNAMES = new Map();
function nameS(o, n) { SNAMES.set(o, n); return o; }
function nameC(o, n) { CNAMES.set(o, n); return o; }
var OP = nameS(Object.prototype, "OP"), FP = nameS(Function.prototype, "FP"), AP = nameS(Array.prototype, "AP");
nameS(String.prototype, "StringP"); nameS(Uint8Array.prototype, "Uint8ArrayP"); nameS(Object.getPrototypeOf(Uint8Array.prototype), "TypedArrayP");
nameS(Object, "Object"); nameS(Function, "Function"); nameS(Array, "Array"); nameS(String, "String"); nameS(Uint8Array, "Uint8Array");
var A = nameS({}, "A"), B = nameS(Object.create(null), "B");
var SL = [];
// part A: the twin target behind the proxy. An accessor that is handed the target instead of the proxy as its receiver
// says so (getters in their result, the setter in the log).
var NOTWIN = {}, TWINOBJ = NOTWIN;
var f = nameS(function () { "use strict"; SL.push("f(" + R(this) + ")"); return this === TWINOBJ ? "vf!target-as-receiver" : "vf"; }, "f");
var g = nameS(function () { "use strict"; SL.push("g(" + R(this) + ")"); return this === TWINOBJ ? "vg!target-as-receiver" : "vg"; }, "g");
var s = nameS(function (v) { "use strict"; SL.push("s(" + R(this) + (this === TWINOBJ ? "!target-as-receiver" : "") + "," + R(v) + ")"); }, "s");
var CA = nameS(function () {}, "CA"); CA.prototype = A;
function MyErr() {}
var TRAPS = ["getPrototypeOf", "setPrototypeOf", "isExtensible", "preventExtensions", "getOwnPropertyDescriptor",
  "defineProperty", "has", "get", "set", "deleteProperty", "ownKeys", "apply", "construct"];
var rGOPD = Reflect.getOwnPropertyDescriptor, rOwnKeys = Reflect.ownKeys, rGetProto = Reflect.getPrototypeOf,
  rIsExt = Reflect.isExtensible, isArr = Array.isArray;

function R(v) {
  if (v === undefined) return "u";
  if (v === null) return "null";
  switch (typeof v) {
    case "boolean": return v ? "T" : "F";
    case "number": return v !== v ? "NaN" : (v === 0 && 1 / v < 0) ? "-0" : String(v);
    case "string": return '"' + v + '"';
    case "symbol": return "@" + v.description;
    case "bigint": return String(v) + "n";
  }
  var n = CNAMES.get(v) || SNAMES.get(v);
  if (n) return n;
  return ST(v);
}
function KS(k) { return typeof k === "symbol" ? "@" + k.description : k; }
// descriptor object -> <v=..,w=..,g=..,s=..,e=..,c=..>
function D(d) {
  if (d === undefined) return "u";
  var p = [];
  if ("value" in d) p.push("v=" + R(d.value));
  if ("writable" in d) p.push("w=" + (d.writable ? "T" : "F"));
  if ("get" in d) p.push("g=" + R(d.get));
  if ("set" in d) p.push("s=" + R(d.set));
  if ("enumerable" in d) p.push("e=" + (d.enumerable ? "T" : "F"));
  if ("configurable" in d) p.push("c=" + (d.configurable ? "T" : "F"));
  return "<" + p.join(",") + ">";
}
// structural rendering of an unnamed (never a proxy) object
var STDEPTH = 0;
function ST(o) {
  if (STDEPTH > 3) return "<deep>";
  STDEPTH++;
  try { return ST1(o); } finally { STDEPTH--; }
}
function ST1(o) {
  var i, out = [];
  if (isArr(o)) {
    for (i = 0; i < o.length; i++) { var e = rGOPD(o, String(i)); out.push(e && ("value" in e) ? R(e.value) : "-"); }
    return "[" + out.join(",") + "]";
  }
  var ks = rOwnKeys(o);
  for (i = 0; i < ks.length; i++) {
    var d = rGOPD(o, ks[i]);
    if (d === undefined) out.push(KS(ks[i]) + ":<listed by ownKeys but no descriptor>");
    else if (("value" in d) && d.writable && d.enumerable && d.configurable) out.push(KS(ks[i]) + ":" + R(d.value));
    else out.push(KS(ks[i]) + ":" + D(d));
  }
  return "{" + out.join(",") + "}";
}
// complete observable state of a non-proxy object
function DUMP(o) {
  var p = rGetProto(o);
  var out = "ext=" + (rIsExt(o) ? "T" : "F") + ";proto=" + R(p) + ";";
  var ks = rOwnKeys(o);
  for (var i = 0; i < ks.length; i++) out += KS(ks[i]) + D(rGOPD(o, ks[i])) + ";";
  return out;
}
function CLS(e) {
  try { if (e !== null && (typeof e === "object" || typeof e === "function")) return String(e.constructor.name); } catch (_) {}
  return "prim:" + typeof e;
}
function fwdHandler(names) {
  var h = {};
  names.forEach(function (n) { var rf = Reflect[n]; h[n] = function () { return rf.apply(undefined, arguments); }; });
  return h;
}
`

func jsThunkTable(name string, items []string) string {
	var sb strings.Builder
	fmt.Fprintf(&sb, "var %s = [\n", name)
	for _, it := range items {
		fmt.Fprintf(&sb, "  function(){ return %s; },\n", it)
	}
	sb.WriteString("];\n")
	return sb.String()
}
