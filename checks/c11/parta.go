package c11

import (
	"crypto/sha1"
	"fmt"
	"os"
	"runtime/debug"
	"sort"
	"strings"
	"sync"
	"sync/atomic"
	"time"

	"verif/core"

	"github.com/dop251/goja"
)

// ---------------------------------------------------------------------------------------------
// Part A: transparency of forwarding proxies, as an explicit-state search.
//
// A state is the observable dump of (target, receiver object[, formal parameters]) reached by an operation
// path from a fresh target of some kind. For every state (one representative shortest path) and every
// operation of the alphabet the path + operation is executed on a fresh bare target and, for every proxy
// variant, through a proxy chain wrapped around a fresh twin; the outcome of every step (result rendering /
// exception class), the log of accessor calls with their receivers and the final dumps must be identical.
// New dumps become new states (level-synchronous BFS, canonical-key de-duplication).
// ---------------------------------------------------------------------------------------------

// handler flavours of one proxy layer
const (
	afJSFull   = 0 // script handler forwarding all 13 traps to Reflect.*
	afEmpty    = 1 // {}
	afHalf1    = 2 // script handler with getOwnPropertyDescriptor, has, set, ownKeys, getPrototypeOf, preventExtensions, apply
	afHalf2    = 3 // script handler with the complementary six traps
	afNull     = 4 // all 13 trap properties present but null / undefined
	afGoFull   = 5 // Go ProxyTrapConfig, all traps including the *Idx and *Sym variants
	afGoStr    = 6 // Go ProxyTrapConfig without the *Idx variants (integer keys fall back to the string traps)
	afGoEmpty  = 7 // empty Go ProxyTrapConfig
	nAFlavours = 8
)

var aFlavourClass = [nAFlavours]string{"js", "notraps", "js", "js", "notraps", "go", "go", "notraps"}

type variant []int // flavour of each layer, innermost first

func (v variant) String() string {
	parts := make([]string, len(v))
	names := []string{"jsFull", "empty", "half1", "half2", "nullTraps", "goFull", "goStrOnly", "goEmpty"}
	for i, f := range v {
		parts[i] = names[f]
	}
	return strings.Join(parts, ">")
}

func variantsFor(thorough bool) []variant {
	var vs []variant
	for f := 0; f < nAFlavours; f++ {
		vs = append(vs, variant{f})
	}
	two := []int{afJSFull, afGoFull}
	three := []int{afJSFull}
	if thorough {
		two = []int{afJSFull, afEmpty, afHalf1, afHalf2, afNull, afGoFull, afGoStr, afGoEmpty}
		three = two
	}
	for _, f := range two {
		vs = append(vs, variant{f, f})
	}
	for _, f := range three {
		vs = append(vs, variant{f, f, f})
	}
	// mixed chains
	vs = append(vs, variant{afJSFull, afGoFull}, variant{afHalf1, afHalf2})
	if thorough {
		vs = append(vs, variant{afGoFull, afJSFull}, variant{afGoStr, afJSFull, afEmpty})
	}
	return vs
}

// ---- alphabet ----

type aOp struct {
	name string // template name (key-independent), used in signatures
	full string // name with key / argument
	js   string // body of function(x, r, env)
}

type aKind struct {
	name string
	mk   string   // script expression building env = {t: target, ...}
	keys []string // script expressions of the probed keys
	ops  []aOp
}

var defLattice = []string{
	`{value:1,writable:true,enumerable:true,configurable:true}`,
	`{value:2}`,
	`{writable:false}`,
	`{configurable:false}`,
	`{enumerable:false}`,
	`{get:f,configurable:true}`,
	`{get:g}`,
	`{set:s}`,
	`{get:undefined}`,
	`{value:1,writable:false,enumerable:false,configurable:false}`,
	`{}`,
	`{get:f,set:s,enumerable:true,configurable:false}`,
	`{writable:true}`,
}

func keyedOps(k string) []aOp {
	var res []aOp
	add := func(name, js string) {
		res = append(res, aOp{name: name, full: name + " " + k, js: strings.ReplaceAll(js, "%K", k)})
	}
	add("get", `return x[%K];`)
	add("Reflect.get(receiver)", `return Reflect.get(x, %K, r);`)
	add("child get", `return Object.create(x)[%K];`)
	add("set=1 strict", `"use strict"; return x[%K] = 1;`)
	add("set=2 strict", `"use strict"; return x[%K] = 2;`)
	add("set=1 sloppy", `return x[%K] = 1;`)
	add("Reflect.set=2", `return Reflect.set(x, %K, 2);`)
	add("Reflect.set=1(receiver)", `return Reflect.set(x, %K, 1, r);`)
	add("child set=1", `"use strict"; var c = Object.create(x); c[%K] = 1; return ST(c);`)
	add("in", `return %K in x;`)
	add("Reflect.has", `return Reflect.has(x, %K);`)
	add("delete strict", `"use strict"; return delete x[%K];`)
	add("Reflect.deleteProperty", `return Reflect.deleteProperty(x, %K);`)
	add("Reflect.getOwnPropertyDescriptor", `return Reflect.getOwnPropertyDescriptor(x, %K);`)
	add("hasOwnProperty", `return OP.hasOwnProperty.call(x, %K);`)
	for _, d := range defLattice {
		res = append(res, aOp{name: "Reflect.defineProperty", full: "Reflect.defineProperty " + k + " " + d, js: fmt.Sprintf(`return Reflect.defineProperty(x, %s, %s);`, k, d)})
	}
	add("Object.defineProperty", `Object.defineProperty(x, %K, {value:2,enumerable:true}); return 0;`)
	return res
}

func objectOps(callable, noJSON bool) []aOp {
	var res []aOp
	add := func(name, js string) {
		switch name {
		case "JSON.stringify":
			// slot-dependent: a String wrapper is serialised through [[StringData]], which a proxy does not have
			if noJSON {
				return
			}
		case "call", "Reflect.apply", "new", "Reflect.construct(newTarget)":
			// on non-callable targets the engine stringifies the operand for the error message (running user accessors),
			// which is not a proxy matter; [[Call]] / [[Construct]] on non-callable targets is covered by part B
			if !callable {
				return
			}
		}
		res = append(res, aOp{name: name, full: name, js: js})
	}
	add("Reflect.ownKeys", `return Reflect.ownKeys(x);`)
	add("Object.keys", `return Object.keys(x);`)
	add("for-in", `var out = []; for (var i in x) out.push(i); return out;`)
	add("Object.getOwnPropertyNames", `return Object.getOwnPropertyNames(x);`)
	add("Object.assign", `return Object.assign({}, x);`)
	add("spread", `return ({...x});`)
	add("JSON.stringify", `return JSON.stringify(x);`)
	add("Object.entries", `return JSON.stringify(Object.entries(x));`)
	add("Reflect.preventExtensions", `return Reflect.preventExtensions(x);`)
	add("Object.preventExtensions", `return Object.preventExtensions(x);`)
	add("Reflect.isExtensible", `return Reflect.isExtensible(x);`)
	add("Reflect.getPrototypeOf", `return Reflect.getPrototypeOf(x);`)
	add("Reflect.setPrototypeOf(A)", `return Reflect.setPrototypeOf(x, A);`)
	add("Reflect.setPrototypeOf(null)", `return Reflect.setPrototypeOf(x, null);`)
	add("Object.setPrototypeOf(AP)", `return Object.setPrototypeOf(x, AP);`)
	add("__proto__=A", `x.__proto__ = A; return 0;`)
	add("Object.freeze", `return Object.freeze(x);`)
	add("Object.seal", `return Object.seal(x);`)
	add("Object.isFrozen", `return Object.isFrozen(x);`)
	add("Object.isSealed", `return Object.isSealed(x);`)
	add("typeof", `return typeof x;`)
	add("Array.isArray", `return Array.isArray(x);`)
	add("call", `return x(1, 2);`)
	add("Reflect.apply", `return Reflect.apply(x, r, [1]);`)
	add("new", `var o = new x(1); return R(rGetProto(o)) + ":" + R(o);`)
	add("Reflect.construct(newTarget)", `var o = Reflect.construct(x, [1], CA); return R(rGetProto(o)) + ":" + R(o);`)
	add("instanceof", `return x instanceof CA;`)
	add("isPrototypeOf", `return A.isPrototypeOf(x);`)
	// the descriptor object is read exactly once (ToPropertyDescriptor) whether or not a proxy is in between
	add("defineProperty(getter-backed descriptor)", `var n = 0; var ok = Reflect.defineProperty(x, "p", {get value() { return ++n; }, writable: true, configurable: true}); return [ok, n];`)
	return res
}

func buildKind(name, mk string, keys []string, extra ...aOp) aKind {
	k := aKind{name: name, mk: mk, keys: keys}
	// simplest first: object-level ops, then per key
	k.ops = append(k.ops, objectOps(name == "function" || name == "arrow", name == "String")...)
	for _, key := range keys {
		k.ops = append(k.ops, keyedOps(key)...)
	}
	k.ops = append(k.ops, extra...)
	return k
}

var aKinds = []aKind{
	// index keys are written both as strings and as numbers: the engine has separate internal methods for integer-valued keys
	buildKind("plain", `{t: {}}`, []string{`"p"`, `"0"`, `SYM`, `0`}),
	buildKind("array", `{t: [1, 2]}`, []string{`0`, `"2"`, `"length"`, `SYM`},
		aOp{name: "length=0", full: "length=0", js: `"use strict"; return x.length = 0;`},
		aOp{name: "Array.prototype.push.call", full: "Array.prototype.push.call", js: `return AP.push.call(x, 2);`}),
	// (own keys of a function are materialised lazily and their order depends on the access history - property C04's
	// subject; they are touched once in a fixed order here so that both runs start from the same state)
	buildKind("function", `(function () { var t = function (a, b) { "use strict"; SL.push("T(" + R(this) + "," + R(a) + "," + R(b) + "," + (new.target ? "new" : "call") + ")"); if (new.target) this.a = a; else return "ret"; }; Reflect.getOwnPropertyDescriptor(t, "prototype"); Reflect.ownKeys(t); return {t: t}; })()`,
		[]string{`"p"`, `"prototype"`, `"name"`, `SYM`}),
	buildKind("arrow", `(function () { var t = (a, b) => "ret" + R(a); Reflect.ownKeys(t); return {t: t}; })()`, []string{`"p"`, `"length"`}),
	buildKind("String", `{t: new String("ab")}`, []string{`"0"`, `2`, `"length"`, `"p"`}),
	buildKind("mappedArguments", `(function (a, b) { return {t: arguments, getA: function () { return a; }, setA: function (v) { a = v; }}; })(1, 2)`,
		[]string{`0`, `"2"`, `"callee"`, `SYM`},
		aOp{name: "formal=2", full: "formal=2", js: `env.setA(2); return 0;`}),
	buildKind("strictArguments", `(function (a, b) { "use strict"; return {t: arguments}; })(1, 2)`, []string{`"0"`, `1`, `"callee"`, `"p"`}),
	buildKind("Uint8Array", `{t: new Uint8Array(2)}`, []string{`0`, `"2"`, `"-0"`, `"p"`}),
}

func jsPartA() string {
	var sb strings.Builder
	sb.WriteString(jsCommon)
	sb.WriteString("var AKINDS = [\n")
	for _, k := range aKinds {
		fmt.Fprintf(&sb, "{ name: %q, mk: function () { return (%s); }, ops: [\n", k.name, k.mk)
		for _, o := range k.ops {
			fmt.Fprintf(&sb, "  function (x, r, env) { %s },\n", o.js)
		}
		sb.WriteString("]},\n")
	}
	sb.WriteString("];\n")
	sb.WriteString(`
var HALF1 = ["getOwnPropertyDescriptor", "has", "set", "ownKeys", "getPrototypeOf", "preventExtensions", "apply"];
var HALF2 = TRAPS.filter(function (n) { return HALF1.indexOf(n) < 0; });
function wrapA(t, variant) {
  var x = t;
  for (var i = 0; i < variant.length; i++) {
    switch (variant[i]) {
      case 0: x = new Proxy(x, fwdHandler(TRAPS)); break;
      case 1: x = new Proxy(x, {}); break;
      case 2: x = new Proxy(x, fwdHandler(HALF1)); break;
      case 3: x = new Proxy(x, fwdHandler(HALF2)); break;
      case 4: var h = {}; TRAPS.forEach(function (n, j) { h[n] = j % 2 ? null : undefined; }); x = new Proxy(x, h); break;
      default: x = goFwdProxy(x, variant[i]);
    }
  }
  return x;
}
function stateKey(env) {
  return DUMP(env.t) + "|" + DUMP(env.r) + (env.getA ? "|a=" + R(env.getA()) : "");
}
// runs path (+ last, if >= 0) on a fresh target of the kind, bare (variant null) or through a proxy chain
function runPathA(kindI, path, last, variant) {
  SL.length = 0; CNAMES.clear();
  var kind = AKINDS[kindI], env = kind.mk();
  env.r = nameC({}, "R");
  var x = variant === null ? env.t : wrapA(env.t, variant);
  nameC(x, "X");
  // the twin behind the proxy renders as X too (e.g. F.prototype.constructor); a twin that leaks out as an operation
  // result or as an accessor receiver is detected by identity
  TWINOBJ = NOTWIN;
  if (x !== env.t) { nameC(env.t, "X"); TWINOBJ = env.t; }
  var outs = [], n = path.length + (last >= 0 ? 1 : 0);
  for (var i = 0; i < n; i++) {
    var op = kind.ops[i < path.length ? path[i] : last], res, out;
    try { res = op(x, env.r, env); out = null; } catch (e) { out = "throw:" + CLS(e); LASTMSG = ""; try { LASTMSG = String(e.message); } catch (_) {} }
    if (out === null) { try { out = "ok:" + (res === TWINOBJ ? "<the target leaked through the proxy>" : R(res)); } catch (e) { out = "ok:<unrenderable " + CLS(e) + ">"; } }
    outs.push(out);
  }
  return {outs: outs, log: SL.join(" "), key: stateKey(env)};
}
var LASTMSG = "";
// expands one state: for every op the successor key, and the list of (op, variant) pairs whose proxy run differs
function expandA(kindI, path, variants, opLo, opHi) {
  var kind = AKINDS[kindI], keys = [], bad = [];
  for (var oi = opLo; oi < opHi; oi++) {
    var d = runPathA(kindI, path, oi, null);
    keys.push(d.key);
    var dj = d.outs.join("\n") + "\n" + d.log + "\n" + d.key;
    for (var vi = 0; vi < variants.length; vi++) {
      var p = runPathA(kindI, path, oi, variants[vi]);
      if (p.outs.join("\n") + "\n" + p.log + "\n" + p.key !== dj) bad.push(oi * 1000 + vi);
    }
  }
  return {keys: keys, bad: bad};
}
function initialKeyA(kindI) { return runPathA(kindI, [], -1, null).key; }
`)
	return sb.String()
}

// ---- engine ----

var prgPartA *goja.Program

type aEngine struct {
	bridge
	expand  goja.Callable
	runPath goja.Callable
	initial goja.Callable
	used    int
	broken  bool
}

func newAEngine() *aEngine {
	e := &aEngine{bridge: bridge{rt: goja.New(), reflect: map[string]goja.Callable{}}}
	e.rt.Set("goFwdProxy", e.goFwdProxy)
	if _, err := e.rt.RunProgram(prgPartA); err != nil {
		panic("part A prelude: " + err.Error())
	}
	fn := func(src string) goja.Callable {
		v, err := e.rt.RunString(src)
		if err != nil {
			panic(err)
		}
		c, ok := goja.AssertFunction(v)
		if !ok {
			panic("not a function: " + src)
		}
		return c
	}
	e.expand = fn("expandA")
	e.runPath = fn("runPathA")
	e.initial = fn("initialKeyA")
	for _, t := range trapNames {
		e.reflect[t] = fn("Reflect." + t)
	}
	return e
}

// goFwdProxy(target, flavour) builds a Runtime.NewProxy proxy whose Go traps forward to Reflect.*.
func (e *aEngine) goFwdProxy(call goja.FunctionCall) goja.Value {
	rt := e.rt
	target := call.Argument(0).(*goja.Object)
	mode := int(call.Argument(1).ToInteger())
	cfg := &goja.ProxyTrapConfig{}
	if mode != afGoEmpty {
		rf := e.reflect
		str := func(s string) goja.Value { return rt.ToValue(s) }
		idx := func(i int) goja.Value { return rt.ToValue(fmt.Sprint(i)) }
		obj := func(v goja.Value) *goja.Object { o, _ := v.(*goja.Object); return o }
		cfg.GetPrototypeOf = func(t *goja.Object) *goja.Object { return obj(e.call(rf["getPrototypeOf"], t)) }
		cfg.SetPrototypeOf = func(t, p *goja.Object) bool { return e.call(rf["setPrototypeOf"], t, protoValue(p)).ToBoolean() }
		cfg.IsExtensible = func(t *goja.Object) bool { return e.call(rf["isExtensible"], t).ToBoolean() }
		cfg.PreventExtensions = func(t *goja.Object) bool { return e.call(rf["preventExtensions"], t).ToBoolean() }
		cfg.GetOwnPropertyDescriptor = func(t *goja.Object, k string) goja.PropertyDescriptor {
			return e.toDescriptor(e.call(rf["getOwnPropertyDescriptor"], t, str(k)))
		}
		cfg.GetOwnPropertyDescriptorSym = func(t *goja.Object, k *goja.Symbol) goja.PropertyDescriptor {
			return e.toDescriptor(e.call(rf["getOwnPropertyDescriptor"], t, k))
		}
		cfg.DefineProperty = func(t *goja.Object, k string, d goja.PropertyDescriptor) bool {
			return e.call(rf["defineProperty"], t, str(k), e.fromDescriptor(d)).ToBoolean()
		}
		cfg.DefinePropertySym = func(t *goja.Object, k *goja.Symbol, d goja.PropertyDescriptor) bool {
			return e.call(rf["defineProperty"], t, k, e.fromDescriptor(d)).ToBoolean()
		}
		cfg.Has = func(t *goja.Object, k string) bool { return e.call(rf["has"], t, str(k)).ToBoolean() }
		cfg.HasSym = func(t *goja.Object, k *goja.Symbol) bool { return e.call(rf["has"], t, k).ToBoolean() }
		cfg.Get = func(t *goja.Object, k string, r goja.Value) goja.Value { return e.call(rf["get"], t, str(k), r) }
		cfg.GetSym = func(t *goja.Object, k *goja.Symbol, r goja.Value) goja.Value { return e.call(rf["get"], t, k, r) }
		cfg.Set = func(t *goja.Object, k string, v, r goja.Value) bool {
			return e.call(rf["set"], t, str(k), v, r).ToBoolean()
		}
		cfg.SetSym = func(t *goja.Object, k *goja.Symbol, v, r goja.Value) bool {
			return e.call(rf["set"], t, k, v, r).ToBoolean()
		}
		cfg.DeleteProperty = func(t *goja.Object, k string) bool { return e.call(rf["deleteProperty"], t, str(k)).ToBoolean() }
		cfg.DeletePropertySym = func(t *goja.Object, k *goja.Symbol) bool { return e.call(rf["deleteProperty"], t, k).ToBoolean() }
		cfg.OwnKeys = func(t *goja.Object) *goja.Object { return obj(e.call(rf["ownKeys"], t)) }
		cfg.Apply = func(t *goja.Object, this goja.Value, args []goja.Value) goja.Value {
			return e.call(rf["apply"], t, this, rt.NewArray(valuesToIfaces(args)...))
		}
		cfg.Construct = func(t *goja.Object, args []goja.Value, nt *goja.Object) *goja.Object {
			return obj(e.call(rf["construct"], t, rt.NewArray(valuesToIfaces(args)...), nt))
		}
		if mode == afGoFull {
			cfg.GetOwnPropertyDescriptorIdx = func(t *goja.Object, k int) goja.PropertyDescriptor {
				return e.toDescriptor(e.call(rf["getOwnPropertyDescriptor"], t, idx(k)))
			}
			cfg.DefinePropertyIdx = func(t *goja.Object, k int, d goja.PropertyDescriptor) bool {
				return e.call(rf["defineProperty"], t, idx(k), e.fromDescriptor(d)).ToBoolean()
			}
			cfg.HasIdx = func(t *goja.Object, k int) bool { return e.call(rf["has"], t, idx(k)).ToBoolean() }
			cfg.GetIdx = func(t *goja.Object, k int, r goja.Value) goja.Value { return e.call(rf["get"], t, idx(k), r) }
			cfg.SetIdx = func(t *goja.Object, k int, v, r goja.Value) bool {
				return e.call(rf["set"], t, idx(k), v, r).ToBoolean()
			}
			cfg.DeletePropertyIdx = func(t *goja.Object, k int) bool { return e.call(rf["deleteProperty"], t, idx(k)).ToBoolean() }
		}
	}
	return rt.ToValue(rt.NewProxy(target, cfg))
}

// ---- one case: a path, a last operation and a variant ----

type ACase struct {
	Part    string   `json:"part"` // "A"
	Kind    int      `json:"kind"`
	Path    []int    `json:"path"`
	Variant []int    `json:"variant"`
	Text    []string `json:"text,omitempty"` // readable path (not used by replay)
}

// resolve maps the recorded operation names back to indices (the alphabet may have grown since the case was recorded).
func (c *ACase) resolve() {
	if c.Kind < 0 || c.Kind >= len(aKinds) || len(c.Text) != len(c.Path) {
		return
	}
	for i, name := range c.Text {
		for oi, o := range aKinds[c.Kind].ops {
			if o.full == name {
				c.Path[i] = oi
			}
		}
	}
}

type aFail struct{ sig, what string }

type pathResult struct {
	outs []string
	log  string
	key  string
	msg  string
}

func (e *aEngine) runPathGo(kind int, path []int, v variant) (res pathResult, panicked string) {
	defer func() {
		if x := recover(); x != nil {
			panicked = fmt.Sprintf("%v\n%s", x, firstGojaFrames(string(debug.Stack())))
			e.broken = true
		}
	}()
	rt := e.rt
	var vv goja.Value = goja.Null()
	if v != nil {
		vv = rt.ToValue([]int(v))
	}
	e.arm(20_000_000)
	r, err := e.runPath(goja.Undefined(), rt.ToValue(kind), rt.ToValue(path), rt.ToValue(-1), vv)
	if err != nil {
		e.broken = true
		if _, ok := err.(*goja.InterruptedError); ok {
			return pathResult{outs: []string{"nontermination"}}, ""
		}
		return pathResult{outs: []string{"harness-error:" + firstLine(err.Error())}}, ""
	}
	o := r.(*goja.Object)
	for _, x := range o.Get("outs").Export().([]interface{}) {
		res.outs = append(res.outs, fmt.Sprint(x))
	}
	res.log = o.Get("log").String()
	res.key = o.Get("key").String()
	res.msg = rt.Get("LASTMSG").String()
	return
}

func describePath(kind int, path []int) []string {
	res := make([]string, len(path))
	for i, p := range path {
		res[i] = aKinds[kind].ops[p].full
	}
	return res
}

// evalA runs one (path, variant) on the bare target and through the proxy chain and compares.
func evalA(e *aEngine, c *ACase) []aFail {
	k := &aKinds[c.Kind]
	d, p1 := e.runPathGo(c.Kind, c.Path, nil)
	p, p2 := e.runPathGo(c.Kind, c.Path, variant(c.Variant))
	cls := aFlavourClass[c.Variant[0]]
	for _, f := range c.Variant {
		if aFlavourClass[f] != cls {
			cls = "mixed"
		}
	}
	where := fmt.Sprintf("%s target, path %s, proxy chain %s", k.name, strings.Join(describePath(c.Kind, c.Path), " ; "), variant(c.Variant))
	if p1 != "" || p2 != "" {
		side := "proxy"
		if p1 != "" {
			side = "bare"
		}
		last := k.ops[c.Path[len(c.Path)-1]]
		return []aFail{{fmt.Sprintf("A|%s-go-panic|%s|%s|%s", side, k.name, last.name, normMsg(firstLine(p1+p2))), "Go panic escaped from the engine (" + side + " run): " + where + ": " + p1 + p2}}
	}
	for i := range d.outs {
		if i >= len(p.outs) {
			break
		}
		if d.outs[i] == p.outs[i] {
			continue
		}
		op := k.ops[c.Path[i]]
		kd, kp := outKind(d.outs[i]), outKind(p.outs[i])
		var sig string
		switch {
		case kd == "ok" && kp != "ok":
			m := normMsg(p.msg)
			if i != len(d.outs)-1 {
				m = "?"
			}
			if m == "" || m == "?" {
				m = "op:" + op.name
			}
			if strings.Contains(m, "' on proxy") || m == "op:Reflect.defineProperty" || m == "op:Object.defineProperty" {
				// raised by one of the proxy invariant checks: the message (or, for the message-less defineProperty
				// checks, the operation) names the check; the target kind does not matter
				sig = fmt.Sprintf("A|%s|proxy-throws|%s[%s]", cls, kp, m)
			} else {
				sig = fmt.Sprintf("A|%s|%s|proxy-throws|%s[%s]", cls, k.name, kp, m)
			}
		case kd != kp:
			sig = fmt.Sprintf("A|%s|%s|%s|bare=%s|proxy=%s", cls, k.name, op.name, kd, kp)
		default:
			sig = fmt.Sprintf("A|%s|%s|%s|result-differs", cls, k.name, op.name)
		}
		msg := ""
		if kp != "ok" && i == len(d.outs)-1 {
			msg = " (" + p.msg + ")"
		}
		return []aFail{{sig, fmt.Sprintf("%s: step %d (%s) gives %s on the bare target but %s through the proxy%s", where, i+1, op.full, d.outs[i], p.outs[i], msg)}}
	}
	last := k.ops[c.Path[len(c.Path)-1]]
	if d.key != p.key {
		return []aFail{{fmt.Sprintf("A|%s|%s|%s|state-differs", cls, k.name, last.name),
			fmt.Sprintf("%s: target state afterwards differs: bare {%s}, twin behind the proxy {%s}", where, d.key, p.key)}}
	}
	if d.log != p.log {
		return []aFail{{fmt.Sprintf("A|%s|%s|%s|accessor-calls-differ", cls, k.name, last.name),
			fmt.Sprintf("%s: accessor / function invocations differ: bare [%s], through the proxy [%s]", where, d.log, p.log)}}
	}
	return nil
}

func outKind(s string) string {
	if strings.HasPrefix(s, "ok:") {
		return "ok"
	}
	return s
}

// ---- BFS ----

type aState struct {
	path []int
}

func hashKey(s string) [20]byte { return sha1.Sum([]byte(s)) }

func lessPath(a, b []int) bool {
	for i := 0; i < len(a) && i < len(b); i++ {
		if a[i] != b[i] {
			return a[i] < b[i]
		}
	}
	return len(a) < len(b)
}

// kindSearch is the BFS over one target kind.
type kindSearch struct {
	r        *core.Run
	kindI    int
	variants []variant
	jsVars   [][]int
	seen     map[[20]byte]struct{}
	frontier []aState
	levels   int // levels completely expanded
	engines  []*aEngine
}

func (s *kindSearch) eng(w int) *aEngine {
	if s.engines[w] == nil || s.engines[w].broken || s.engines[w].used > 400 {
		s.engines[w] = newAEngine()
	}
	s.engines[w].used++
	return s.engines[w]
}

func newKindSearch(r *core.Run, kindI int, variants []variant) *kindSearch {
	s := &kindSearch{r: r, kindI: kindI, variants: variants, engines: make([]*aEngine, r.Workers)}
	for _, v := range variants {
		s.jsVars = append(s.jsVars, v)
	}
	e0 := s.eng(0)
	iv, err := e0.initial(goja.Undefined(), e0.rt.ToValue(kindI))
	if err != nil {
		r.Violation("A|harness|initial|"+aKinds[kindI].name, err.Error(), nil)
		return s
	}
	s.seen = map[[20]byte]struct{}{hashKey(iv.String()): {}}
	s.frontier = []aState{{path: nil}}
	r.States(1)
	return s
}

// expandLevel expands every state of the current frontier with every operation (on the bare target and through every
// proxy variant) and replaces the frontier by the newly discovered states; false if the deadline cut it.
func (s *kindSearch) expandLevel() bool {
	r, kindI := s.r, s.kindI
	k := &aKinds[kindI]
	var mu sync.Mutex
	next := map[[20]byte][]int{} // new state -> smallest path reaching it
	frontier := s.frontier
	var cut atomic.Bool
	stop := hardStop(r)
	ok := r.Parallel(int64(len(frontier)), 1, func(w int, lo, hi int64) {
		for i := lo; i < hi; i++ {
			if cut.Load() || time.Now().After(stop) {
				cut.Store(true)
				return
			}
			st := frontier[i]
			e := s.eng(w)
			res, panicked := expandState(e, kindI, st.path, s.jsVars, 0, len(k.ops))
			if panicked != "" {
				// a Go panic escaped from some operation: expand operation by operation, report and skip the culprits
				res = s.expandOneByOne(w, st.path)
			}
			r.Transitions(int64(len(k.ops)))
			r.Traces(int64(len(k.ops) * len(s.variants)))
			r.Eval(int64(len(k.ops) * (1 + len(s.variants))))
			for _, b := range res.bad {
				oi, vi := b/1000, b%1000
				c := &ACase{Part: "A", Kind: kindI, Path: append(append([]int{}, st.path...), oi), Variant: s.variants[vi]}
				confirmA(r, s.eng(w), c)
			}
			mu.Lock()
			for oi, key := range res.keys {
				if key == "" {
					continue
				}
				h := hashKey(key)
				if _, ok := s.seen[h]; ok {
					continue
				}
				np := append(append([]int{}, st.path...), oi)
				if old, ok := next[h]; !ok || lessPath(np, old) {
					next[h] = np
				}
			}
			mu.Unlock()
			if len(st.path) > 0 && r.WantSample(i) {
				r.Sample(map[string]interface{}{"part": "A", "kind": k.name, "state_path": describePath(kindI, st.path), "ops_applied": len(k.ops), "proxy_variants": len(s.variants)})
			}
		}
	})
	if !ok || cut.Load() {
		r.Expired() // records the cap if the deadline has passed; the level is incomplete either way
		return false
	}
	s.levels++
	s.frontier = s.frontier[:0]
	for h, p := range next {
		s.seen[h] = struct{}{}
		s.frontier = append(s.frontier, aState{path: p})
	}
	sort.Slice(s.frontier, func(i, j int) bool { return lessPath(s.frontier[i].path, s.frontier[j].path) })
	r.States(int64(len(s.frontier)))
	r.NontrivialN(int64(len(s.frontier)))
	r.Add("partA_states_"+k.name, int64(len(s.frontier)))
	return true
}

// expandOneByOne is the fallback after a Go panic during an expansion: every operation separately (fresh engine after
// each panic); panicking (operation, variant) pairs are reported and yield no successor.
func (s *kindSearch) expandOneByOne(w int, path []int) (res expandResult) {
	k := &aKinds[s.kindI]
	for oi := range k.ops {
		one, panicked := expandState(s.eng(w), s.kindI, path, s.jsVars, oi, oi+1)
		if panicked == "" {
			res.keys = append(res.keys, one.keys...)
			res.bad = append(res.bad, one.bad...)
			continue
		}
		res.keys = append(res.keys, "") // no successor through this operation
		full := append(append([]int{}, path...), oi)
		c := &ACase{Part: "A", Kind: s.kindI, Path: full, Variant: s.variants[0], Text: describePath(s.kindI, full)}
		where := "proxy"
		if _, p := newAEngine().runPathGo(s.kindI, full, nil); p != "" {
			where = "bare" // the bare target alone crashes: not a proxy matter (typed arrays: property C17 / C04)
		} else {
			for _, v := range s.variants {
				if _, p := newAEngine().runPathGo(s.kindI, full, v); p != "" {
					c.Variant = v
					break
				}
			}
		}
		s.r.Violation(fmt.Sprintf("A|%s-go-panic|%s|%s|%s", where, k.name, k.ops[oi].name, normMsg(firstLine(panicked))),
			fmt.Sprintf("Go panic escaped from the engine (%s run): %s target, path %s: %s", where, k.name, strings.Join(describePath(s.kindI, full), " ; "), panicked), c)
	}
	return
}

type expandResult struct {
	keys []string
	bad  []int
}

func expandState(e *aEngine, kindI int, path []int, variants [][]int, opLo, opHi int) (res expandResult, panicked string) {
	defer func() {
		if x := recover(); x != nil {
			panicked = fmt.Sprintf("%v\n%s", x, firstGojaFrames(string(debug.Stack())))
			e.broken = true
		}
	}()
	rt := e.rt
	if path == nil {
		path = []int{}
	}
	e.arm(uint64(opHi-opLo) * uint64(1+len(variants)) * 2_000_000)
	v, err := e.expand(goja.Undefined(), rt.ToValue(kindI), rt.ToValue(path), rt.ToValue(variants), rt.ToValue(opLo), rt.ToValue(opHi))
	if err != nil {
		// an interrupt (step budget) or an exception escaping the harness: treated like a crash of this expansion; the
		// caller falls back to one operation at a time and reports the culprit
		panic("expandA: " + firstLine(err.Error()))
	}
	o := v.(*goja.Object)
	for _, x := range o.Get("keys").Export().([]interface{}) {
		res.keys = append(res.keys, fmt.Sprint(x))
	}
	for _, x := range o.Get("bad").Export().([]interface{}) {
		res.bad = append(res.bad, int(x.(int64)))
	}
	return
}

var confirmedA sync.Map

// confirmA classifies a differing (path, variant); the first occurrence of a signature is re-run 4x on fresh engines.
func confirmA(r *core.Run, e *aEngine, c *ACase) {
	c.Part = "A"
	c.Text = describePath(c.Kind, c.Path)
	fails := evalA(e, c)
	if len(fails) == 0 {
		r.Violation("A|nondeterministic", "a proxy/bare difference seen during expansion did not reproduce", c)
		return
	}
	f := fails[0]
	if _, seen := confirmedA.LoadOrStore(f.sig, true); seen || r.IsKnown(f.sig) {
		r.Violation(f.sig, f.what, c)
		return
	}
	for i := 0; i < 5; i++ {
		again := evalA(newAEngine(), c)
		if len(again) == 0 || again[0].sig != f.sig {
			r.Violation("nondeterministic|"+f.sig, "failure did not reproduce identically on fresh engines: "+f.what, c)
			return
		}
	}
	r.Violation(f.sig, f.what, c)
}

// partA is the level-synchronous BFS over all kinds, advanced one level at a time so that a deadline cut still leaves
// a completed smaller bound for every kind.
type partA struct {
	r         *core.Run
	searches  []*kindSearch
	maxLevels int
	complete  bool
}

func newPartA(r *core.Run) *partA {
	variants := variantsFor(r.Thorough())
	var names []string
	for _, v := range variants {
		names = append(names, v.String())
	}
	r.Set("partA_proxy_variants", names)
	pa := &partA{r: r, complete: true}
	pa.maxLevels = r.Pick(2, 4) // number of BFS levels expanded = length of the longest operation path executed
	if v := os.Getenv("C11_LEVELS"); v != "" {
		fmt.Sscan(v, &pa.maxLevels)
	}
	for ki := range aKinds {
		if only := os.Getenv("C11_KIND"); only != "" && only != aKinds[ki].name {
			continue
		}
		pa.searches = append(pa.searches, newKindSearch(r, ki, variants))
	}
	return pa
}

// advance expands levels until every kind has `upTo` levels done (or its frontier is empty); false if cut.
func (pa *partA) advance(upTo int) bool {
	if upTo > pa.maxLevels {
		upTo = pa.maxLevels
	}
	for level := 0; level < upTo && pa.complete; level++ {
		for _, s := range pa.searches {
			if s.levels > level || len(s.frontier) == 0 {
				continue
			}
			if !s.expandLevel() {
				pa.complete = false
				break
			}
		}
	}
	bounds := map[string]interface{}{}
	for _, s := range pa.searches {
		bounds[aKinds[s.kindI].name] = map[string]interface{}{"levels_expanded": s.levels, "ops": len(aKinds[s.kindI].ops), "closed": len(s.frontier) == 0, "unexpanded_frontier": len(s.frontier)}
	}
	pa.r.Set("bounds_completed", bounds)
	return pa.complete
}
