package c11

import (
	"fmt"
	"regexp"
	"runtime/debug"
	"strings"

	"verif/core"
	pm "verif/ref/proxymodel"

	"github.com/dop251/goja"
)

// ---------------------------------------------------------------------------------------------
// Part B: invariant enforcement. One case = (trap under test, handler flavour, target configuration,
// key, trap behaviour, operation, argument). The engine's outcome, the state of the target and of the
// receiver afterwards and the log of accessor / trap invocations must equal proxymodel's.
// ---------------------------------------------------------------------------------------------

const (
	flSingle = 0 // script handler holding only the trap under test
	flFull   = 1 // script handler forwarding all 13 traps, the trap under test overridden
	flGo     = 2 // Go ProxyTrapConfig holding only the trap under test
)

const (
	rFwd   = 0 // result of forwarding to Reflect.<trap>
	rNot   = 1 // negated result of forwarding (boolean traps)
	rVal   = 2 // vals[idx]
	rDesc  = 3 // descSpecs[idx] as a fresh object
	rKeys  = 4 // keyLists[idx]
	rThrow = 5 // throw new MyErr()
)

const (
	hkFn          = 0
	hkNull        = 1
	hkUndefined   = 2
	hkNonCallable = 3 // 1
	hkObject      = 4 // {} (an object that is not callable)
)

const (
	tkObject = 0
	tkFunc   = 1 // strict function (callable, constructor)
	tkArrow  = 2 // arrow function (callable, not a constructor)
)

// BCase is one part-B case; it is what a replay file stores.
type BCase struct {
	Part    string `json:"part"` // "B"
	Trap    string `json:"trap"`
	Flavour int    `json:"flavour"`
	TKind   int    `json:"tkind"`
	Cfg     int    `json:"cfg"`  // propCfgs index for the probed key
	XCfg    int    `json:"xcfg"` // base-3 digits: state of keys p, 0, SYM (0 absent, 1 configurable, 2 non-configurable)
	Ext     bool   `json:"ext"`
	Proto   int    `json:"proto"` // 0 default, 1 null, 2 A, 3 B
	Key     int    `json:"key"`
	HKind   int    `json:"hkind"`
	Fwd     bool   `json:"fwd"`
	RKind   int    `json:"rkind"`
	RIdx    int    `json:"ridx"`
	Op      int    `json:"op"`
	OpName  string `json:"op_name,omitempty"` // authoritative when present (indices shift when the op table grows)
	Arg     int    `json:"arg"`
	Revoke  bool   `json:"revoke"`
	Layers  int    `json:"layers,omitempty"` // >0: the target is itself wrapped in this many forwarding proxies
	Bare    bool   `json:"bare,omitempty"`   // diagnostic probe: run the operation on the bare target, no proxy at all
	Text    string `json:"text"`             // human-readable rendering (not used by replay)
}

// resolve makes a decoded case independent of table positions that may have shifted since it was recorded.
func (c *BCase) resolve() {
	if c.OpName != "" {
		for i := range ops {
			if ops[i].name == c.OpName {
				c.Op = i
			}
		}
	}
}

func (c *BCase) describe() string {
	var res string
	switch c.RKind {
	case rFwd:
		res = "Reflect." + c.Trap + "(...)"
	case rNot:
		res = "!Reflect." + c.Trap + "(...)"
	case rVal:
		res = vals[c.RIdx].js
	case rDesc:
		res = descSpecs[c.RIdx].js()
	case rKeys:
		res = keyLists[c.RIdx].js
	case rThrow:
		res = "throw"
	}
	if c.Fwd && c.RKind != rFwd && c.RKind != rNot {
		res = "forward, then " + res
	}
	switch c.HKind {
	case hkNull:
		res = "(trap is null)"
	case hkUndefined:
		res = "(trap is undefined)"
	case hkNonCallable:
		res = "(trap is 1)"
	case hkObject:
		res = "(trap is {})"
	}
	a := ""
	switch ops[c.Op].arg {
	case argVal:
		a = " a=" + vals[c.Arg].js
	case argDesc:
		a = " a=" + descSpecs[c.Arg].js()
	}
	tgt := propCfgs[c.Cfg].String()
	if c.XCfg != 0 {
		tgt += fmt.Sprintf(" xcfg=%d", c.XCfg)
	}
	fl := []string{"script handler", "full script handler", "Go ProxyTrapConfig"}[c.Flavour]
	rv := ""
	if c.Revoke {
		rv = " REVOKED"
	}
	if c.Layers > 0 {
		rv += fmt.Sprintf(" target wrapped in %d forwarding proxies", c.Layers)
	}
	return fmt.Sprintf("%s [%s]%s: target{%s key=%s ext=%v proto=%d kind=%d} trap %s -> %s; op %s%s",
		c.Trap, fl, rv, tgt, keys[c.Key].js, c.Ext, c.Proto, c.TKind, c.Trap, res, ops[c.Op].name, a)
}

// ---- script side ----

func jsPartB() string {
	var sb strings.Builder
	sb.WriteString(jsCommon)
	var items []string
	for _, v := range vals {
		items = append(items, v.js)
	}
	sb.WriteString(jsThunkTable("VAL", items))
	items = nil
	for _, d := range descSpecs {
		items = append(items, d.js())
	}
	sb.WriteString(jsThunkTable("DESC", items))
	items = nil
	for _, l := range keyLists {
		items = append(items, l.js)
	}
	sb.WriteString(jsThunkTable("KL", items))
	items = nil
	for _, k := range keys {
		items = append(items, k.js)
	}
	sb.WriteString(jsThunkTable("KEYS", items))
	sb.WriteString("var CFG = [\n")
	for _, p := range propCfgs {
		fmt.Fprintf(&sb, "  function(t,k){ %s },\n", p.js())
	}
	sb.WriteString("];\nvar OPS = [\n")
	for _, o := range ops {
		fmt.Fprintf(&sb, "  function(x,k,a,r){ %s },\n", o.js)
	}
	sb.WriteString("];\nvar OPCHILD = [")
	for _, o := range ops {
		fmt.Fprintf(&sb, "%v,", o.child)
	}
	sb.WriteString("];\n")
	sb.WriteString(`
var LASTERR; var RF = {}; TRAPS.forEach(function (n) { RF[n] = Reflect[n]; });
var XK = ["p", "0", SYM];
function runB(trap, flavour, tkind, cfgI, xcfg, ext, protoI, keyI, hkind, fwd, rkind, ridx, opI, argI, revoke, layers, bare) {
  SL.length = 0; CNAMES.clear();
  var k = KEYS[keyI]();
  var t;
  if (tkind === 1) {
    t = function (a, b) { "use strict"; SL.push("T(" + R(this) + "," + R(a) + "," + R(b) + "," + (new.target ? "new" : "call") + ")"); if (new.target) this.a = a; else return "ret"; };
    nameC(t.prototype, "TP");
  } else if (tkind === 2) {
    t = (a, b) => { SL.push("T(-," + R(a) + "," + R(b) + ",call)"); return "ret"; };
  } else t = {};
  nameC(t, "T");
  if (protoI === 1) Object.setPrototypeOf(t, null); else if (protoI === 2) Object.setPrototypeOf(t, A); else if (protoI === 3) Object.setPrototypeOf(t, B);
  for (var i = 0; i < 3; i++) {
    var st = xcfg % 3; xcfg = (xcfg - st) / 3;
    if (st) Object.defineProperty(t, XK[i], { value: 1, writable: true, enumerable: i !== 1 || st === 1, configurable: st === 1 });
  }
  CFG[cfgI](t, k);
  if (!ext) Object.preventExtensions(t);
  var recv = nameC({}, "R");
  var tt = t;
  for (var l = 1; l <= layers; l++) tt = nameC(new Proxy(tt, fwdHandler(TRAPS)), "T" + l);
  var h = flavour === 1 ? fwdHandler(TRAPS) : {};
  nameC(h, "H");
  if (hkind === 0) {
    var rf = RF[trap];
    h[trap] = function () {
      "use strict";
      var line = trap + "(";
      for (var i = 1; i < arguments.length; i++) line += (i > 1 ? "," : "") + ((i === 2 && trap === "defineProperty") ? D(arguments[i]) : R(arguments[i]));
      SL.push(line + ")" + (arguments[0] === tt ? "" : "!target") + (this === h ? "" : "!this"));
      var fr;
      if (fwd) fr = rf.apply(undefined, arguments);
      switch (rkind) {
        case 0: return fr;
        case 1: return !fr;
        case 2: return VAL[ridx]();
        case 3: return DESC[ridx]();
        case 4: return KL[ridx]();
      }
      throw new MyErr();
    };
  } else if (hkind === 1) h[trap] = null;
  else if (hkind === 2) h[trap] = undefined;
  else if (hkind === 3) h[trap] = 1;
  else h[trap] = {};
  var p;
  if (bare) p = t;
  else if (flavour === 2) p = goProxy(tt, revoke);
  else if (revoke) { var rv = Proxy.revocable(tt, h); p = rv.proxy; rv.revoke(); }
  else p = new Proxy(tt, h);
  if (!bare) nameC(p, "P");
  var x = p;
  if (OPCHILD[opI]) x = nameC(Object.create(p), "C");
  var op = OPS[opI], a;
  if (OPARG[opI] === 1) a = VAL[argI](); else if (OPARG[opI] === 2) a = DESC[argI]();
  var out, res, threw = false, msg = "";
  try { res = op(x, k, a, recv); } catch (e) { threw = true; out = "throw:" + CLS(e); LASTERR = e; try { msg = String(e.message); } catch (_) {} }
  if (!threw) { try { out = "ok:" + R(res); } catch (e) { out = "ok:<unrenderable " + CLS(e) + ">"; } }
  return out + "\n" + (tkind === 0 ? DUMP(t) : "") + "\n" + DUMP(recv) + "\n" + SL.join(" ") + "\n" + msg;
}
`)
	sb.WriteString("var OPARG = [")
	for _, o := range ops {
		fmt.Fprintf(&sb, "%d,", o.arg)
	}
	sb.WriteString("];\n")
	return sb.String()
}

// ---- engine worker ----

type bEngine struct {
	bridge
	runB   goja.Callable
	rfn    goja.Callable // R()
	slPush goja.Callable
	vals   goja.Callable // VAL[i]()
	descs  goja.Callable
	kls    goja.Callable
	newErr goja.Callable
	sym    *goja.Symbol
	cur    *BCase
	used   int
	broken bool // a Go panic escaped: the runtime is not reused
}

var prgPartB *goja.Program

func newBEngine() *bEngine {
	if prgPartB == nil {
		panic("part B program not compiled")
	}
	e := &bEngine{bridge: bridge{rt: goja.New(), reflect: map[string]goja.Callable{}}}
	e.rt.Set("goProxy", e.goProxy)
	if _, err := e.rt.RunProgram(prgPartB); err != nil {
		panic("part B prelude: " + err.Error())
	}
	fn := func(src string) goja.Callable {
		v, err := e.rt.RunString(src)
		if err != nil {
			panic(err)
		}
		c, ok := goja.AssertFunction(v)
		if !ok {
			panic("not a function: " + src)
		}
		return c
	}
	e.runB = fn("runB")
	e.rfn = fn("R")
	e.slPush = fn("(function(s){ SL.push(s); })")
	e.vals = fn("(function(i){ return VAL[i](); })")
	e.descs = fn("(function(i){ return DESC[i](); })")
	e.kls = fn("(function(i){ return KL[i](); })")
	e.newErr = fn("(function(){ return new MyErr(); })")
	for _, t := range trapNames {
		e.reflect[t] = fn("Reflect." + t)
	}
	e.sym = e.rt.Get("SYM").(*goja.Symbol)
	return e
}

var keyedTraps = map[string]bool{"getOwnPropertyDescriptor": true, "defineProperty": true, "has": true, "get": true, "set": true, "deleteProperty": true}

var trapNames = []string{"getPrototypeOf", "setPrototypeOf", "isExtensible", "preventExtensions", "getOwnPropertyDescriptor",
	"defineProperty", "has", "get", "set", "deleteProperty", "ownKeys", "apply", "construct"}

// bridge holds what Go-implemented traps need to talk to the script side of one runtime.
type bridge struct {
	rt      *goja.Runtime
	reflect map[string]goja.Callable
	steps   uint64 // VM instructions since arm()
	limit   uint64
}

// arm installs / resets the non-termination guard: after limit VM instructions the runtime is interrupted (the
// call then returns an *InterruptedError and the runtime is discarded).
func (e *bridge) arm(limit uint64) {
	if e.limit == 0 {
		goja.VerifSetStepHook(e.rt, func(r *goja.Runtime) {
			e.steps++
			if e.steps == e.limit {
				r.Interrupt("c11: step budget exhausted")
			}
		})
	}
	e.steps, e.limit = 0, limit
}

func (e *bridge) call(fn goja.Callable, args ...goja.Value) goja.Value {
	v, err := fn(goja.Undefined(), args...)
	if err != nil {
		if ex, ok := err.(*goja.Exception); ok {
			panic(ex) // re-throw into the engine
		}
		panic(err)
	}
	return v
}

// run executes one case on the engine and returns "outcome\ndump(T)\ndump(R)\nlog".
func (e *bEngine) run(c *BCase) (res string, panicked string) {
	defer func() {
		if x := recover(); x != nil {
			panicked = fmt.Sprintf("%v\n%s", x, firstGojaFrames(string(debug.Stack())))
			e.broken = true
		}
	}()
	e.cur = c
	e.used++
	rt := e.rt
	e.arm(5_000_000)
	v, err := e.runB(goja.Undefined(), rt.ToValue(c.Trap), rt.ToValue(c.Flavour), rt.ToValue(c.TKind), rt.ToValue(c.Cfg), rt.ToValue(c.XCfg),
		rt.ToValue(c.Ext), rt.ToValue(c.Proto), rt.ToValue(c.Key), rt.ToValue(c.HKind), rt.ToValue(c.Fwd), rt.ToValue(c.RKind),
		rt.ToValue(c.RIdx), rt.ToValue(c.Op), rt.ToValue(c.Arg), rt.ToValue(c.Revoke), rt.ToValue(c.Layers), rt.ToValue(c.Bare))
	if err != nil {
		e.broken = true
		if _, ok := err.(*goja.InterruptedError); ok {
			return "nontermination\n\n\n", ""
		}
		return "harness-error:" + firstLine(err.Error()) + "\n\n\n", ""
	}
	return v.String(), ""
}

func firstGojaFrames(stack string) string {
	var out []string
	for _, l := range strings.Split(stack, "\n") {
		if strings.HasPrefix(l, "github.com/dop251/goja") {
			if i := strings.LastIndexByte(l, '('); i > 0 {
				l = l[:i]
			}
			out = append(out, strings.TrimPrefix(l, "github.com/dop251/goja"))
			if len(out) == 3 {
				break
			}
		}
	}
	return strings.Join(out, " < ")
}

// goTrapResult performs the behaviour of the current case for a Go-implemented trap: log, optional
// forwarding through Reflect.<trap>, then the configured result as a script value.
func (e *bEngine) goTrapResult(key goja.Value, fwdArgs ...goja.Value) goja.Value {
	c := e.cur
	line := c.Trap + "("
	if key != nil {
		line += e.call(e.rfn, key).String()
	}
	e.call(e.slPush, e.rt.ToValue(line+")"))
	var fr goja.Value
	if c.Fwd {
		fr = e.call(e.reflect[c.Trap], fwdArgs...)
	}
	switch c.RKind {
	case rFwd:
		return fr
	case rNot:
		return e.rt.ToValue(!fr.ToBoolean())
	case rVal:
		return e.call(e.vals, e.rt.ToValue(c.RIdx))
	case rDesc:
		return e.call(e.descs, e.rt.ToValue(c.RIdx))
	case rKeys:
		return e.call(e.kls, e.rt.ToValue(c.RIdx))
	}
	panic(e.call(e.newErr))
}

func (e *bridge) toDescriptor(v goja.Value) (d goja.PropertyDescriptor) {
	o, ok := v.(*goja.Object)
	if !ok {
		return // empty = undefined
	}
	flag := func(name string) goja.Flag {
		if x := o.Get(name); x != nil {
			if x.ToBoolean() {
				return goja.FLAG_TRUE
			}
			return goja.FLAG_FALSE
		}
		return goja.FLAG_NOT_SET
	}
	d.Value = o.Get("value")
	d.Writable = flag("writable")
	d.Getter = o.Get("get")
	d.Setter = o.Get("set")
	d.Enumerable = flag("enumerable")
	d.Configurable = flag("configurable")
	return
}

func (e *bridge) fromDescriptor(d goja.PropertyDescriptor) goja.Value {
	o := e.rt.NewObject()
	if d.Value != nil {
		o.Set("value", d.Value)
	}
	if d.Writable != goja.FLAG_NOT_SET {
		o.Set("writable", d.Writable == goja.FLAG_TRUE)
	}
	if d.Getter != nil {
		o.Set("get", d.Getter)
	}
	if d.Setter != nil {
		o.Set("set", d.Setter)
	}
	if d.Enumerable != goja.FLAG_NOT_SET {
		o.Set("enumerable", d.Enumerable == goja.FLAG_TRUE)
	}
	if d.Configurable != goja.FLAG_NOT_SET {
		o.Set("configurable", d.Configurable == goja.FLAG_TRUE)
	}
	return o
}

func protoValue(p *goja.Object) goja.Value {
	if p == nil {
		return goja.Null()
	}
	return p
}

// goProxy(target, revoke) builds a Runtime.NewProxy proxy whose only trap is the trap under test.
func (e *bEngine) goProxy(call goja.FunctionCall) goja.Value {
	rt := e.rt
	target := call.Argument(0).(*goja.Object)
	c := e.cur
	cfg := &goja.ProxyTrapConfig{}
	str := func(s string) goja.Value { return rt.ToValue(s) }
	idx := func(i int) goja.Value { return rt.ToValue(fmt.Sprint(i)) }
	if c.HKind == hkFn {
		switch c.Trap {
		case "getPrototypeOf":
			cfg.GetPrototypeOf = func(t *goja.Object) *goja.Object {
				o, _ := e.goTrapResult(nil, t).(*goja.Object)
				return o
			}
		case "setPrototypeOf":
			cfg.SetPrototypeOf = func(t *goja.Object, p *goja.Object) bool {
				return e.goTrapResult(nil, t, protoValue(p)).ToBoolean()
			}
		case "isExtensible":
			cfg.IsExtensible = func(t *goja.Object) bool { return e.goTrapResult(nil, t).ToBoolean() }
		case "preventExtensions":
			cfg.PreventExtensions = func(t *goja.Object) bool { return e.goTrapResult(nil, t).ToBoolean() }
		case "getOwnPropertyDescriptor":
			cfg.GetOwnPropertyDescriptor = func(t *goja.Object, k string) goja.PropertyDescriptor {
				return e.toDescriptor(e.goTrapResult(str(k), t, str(k)))
			}
			cfg.GetOwnPropertyDescriptorIdx = func(t *goja.Object, k int) goja.PropertyDescriptor {
				return e.toDescriptor(e.goTrapResult(idx(k), t, idx(k)))
			}
			cfg.GetOwnPropertyDescriptorSym = func(t *goja.Object, k *goja.Symbol) goja.PropertyDescriptor {
				return e.toDescriptor(e.goTrapResult(k, t, k))
			}
		case "defineProperty":
			cfg.DefineProperty = func(t *goja.Object, k string, d goja.PropertyDescriptor) bool {
				return e.goTrapResult(str(k), t, str(k), e.fromDescriptor(d)).ToBoolean()
			}
			cfg.DefinePropertyIdx = func(t *goja.Object, k int, d goja.PropertyDescriptor) bool {
				return e.goTrapResult(idx(k), t, idx(k), e.fromDescriptor(d)).ToBoolean()
			}
			cfg.DefinePropertySym = func(t *goja.Object, k *goja.Symbol, d goja.PropertyDescriptor) bool {
				return e.goTrapResult(k, t, k, e.fromDescriptor(d)).ToBoolean()
			}
		case "has":
			cfg.Has = func(t *goja.Object, k string) bool { return e.goTrapResult(str(k), t, str(k)).ToBoolean() }
			cfg.HasIdx = func(t *goja.Object, k int) bool { return e.goTrapResult(idx(k), t, idx(k)).ToBoolean() }
			cfg.HasSym = func(t *goja.Object, k *goja.Symbol) bool { return e.goTrapResult(k, t, k).ToBoolean() }
		case "get":
			cfg.Get = func(t *goja.Object, k string, r goja.Value) goja.Value { return e.goTrapResult(str(k), t, str(k), r) }
			cfg.GetIdx = func(t *goja.Object, k int, r goja.Value) goja.Value { return e.goTrapResult(idx(k), t, idx(k), r) }
			cfg.GetSym = func(t *goja.Object, k *goja.Symbol, r goja.Value) goja.Value { return e.goTrapResult(k, t, k, r) }
		case "set":
			cfg.Set = func(t *goja.Object, k string, v, r goja.Value) bool {
				return e.goTrapResult(str(k), t, str(k), v, r).ToBoolean()
			}
			cfg.SetIdx = func(t *goja.Object, k int, v, r goja.Value) bool {
				return e.goTrapResult(idx(k), t, idx(k), v, r).ToBoolean()
			}
			cfg.SetSym = func(t *goja.Object, k *goja.Symbol, v, r goja.Value) bool {
				return e.goTrapResult(k, t, k, v, r).ToBoolean()
			}
		case "deleteProperty":
			cfg.DeleteProperty = func(t *goja.Object, k string) bool { return e.goTrapResult(str(k), t, str(k)).ToBoolean() }
			cfg.DeletePropertyIdx = func(t *goja.Object, k int) bool { return e.goTrapResult(idx(k), t, idx(k)).ToBoolean() }
			cfg.DeletePropertySym = func(t *goja.Object, k *goja.Symbol) bool { return e.goTrapResult(k, t, k).ToBoolean() }
		case "ownKeys":
			cfg.OwnKeys = func(t *goja.Object) *goja.Object {
				o, _ := e.goTrapResult(nil, t).(*goja.Object)
				return o
			}
		case "apply":
			cfg.Apply = func(t *goja.Object, this goja.Value, args []goja.Value) goja.Value {
				return e.goTrapResult(nil, t, this, rt.NewArray(valuesToIfaces(args)...))
			}
		case "construct":
			cfg.Construct = func(t *goja.Object, args []goja.Value, nt *goja.Object) *goja.Object {
				o, _ := e.goTrapResult(nil, t, rt.NewArray(valuesToIfaces(args)...), nt).(*goja.Object)
				return o
			}
		}
	}
	p := rt.NewProxy(target, cfg)
	if call.Argument(1).ToBoolean() {
		p.Revoke()
	}
	return rt.ToValue(p)
}

func valuesToIfaces(vs []goja.Value) []interface{} {
	res := make([]interface{}, len(vs))
	for i, v := range vs {
		res[i] = v
	}
	return res
}

// ---- model side ----

func toKey(v pm.Val) pm.Key {
	if v.K == pm.Symbol {
		return pm.SymKey(v.S)
	}
	return pm.SKey(v.S)
}

// modelForward is Reflect.<trap>(target, ...args) over the model.
func modelForward(w *world, trap string, target pm.Object, a []pm.Val) pm.Val {
	switch trap {
	case "getPrototypeOf":
		return pm.ReflectGetPrototypeOf(target)
	case "setPrototypeOf":
		return pm.ReflectSetPrototypeOf(target, a[0])
	case "isExtensible":
		return pm.ReflectIsExtensible(target)
	case "preventExtensions":
		return pm.ReflectPreventExtensions(target)
	case "getOwnPropertyDescriptor":
		return pm.ReflectGetOwnPropertyDescriptor(w.rl, target, toKey(a[0]))
	case "defineProperty":
		return pm.ReflectDefineProperty(target, toKey(a[0]), a[1])
	case "has":
		return pm.ReflectHas(target, toKey(a[0]))
	case "get":
		return pm.ReflectGet(target, toKey(a[0]), a[1])
	case "set":
		return pm.ReflectSet(target, toKey(a[0]), a[1], a[2])
	case "deleteProperty":
		return pm.ReflectDeleteProperty(target, toKey(a[0]))
	case "ownKeys":
		return pm.ReflectOwnKeys(w.rl, target)
	case "apply":
		return pm.ReflectApply(pm.ObjVal(target), a[0], a[1])
	case "construct":
		return pm.ReflectConstruct(pm.ObjVal(target), a[0], a[1])
	}
	panic("unknown trap " + trap)
}

func forwardingTrap(w *world, name string) pm.Trap {
	return pm.Trap{Kind: pm.TrapFn, Fn: func(target pm.Object, a []pm.Val) pm.Val { return modelForward(w, name, target, a) }}
}

// goTyped reports how a Go-typed trap coerces the script value v the behaviour produced; ok=false means
// the behaviour is not expressible through the typed API (the case is skipped by the enumerator).
func goResultOK(c *BCase) bool {
	if c.HKind != hkFn {
		return c.HKind == hkUndefined // a nil func field is the only other thing the typed API can hold
	}
	if c.RKind == rThrow || c.RKind == rFwd || c.RKind == rNot {
		return true
	}
	switch c.Trap {
	case "setPrototypeOf", "isExtensible", "preventExtensions", "defineProperty", "has", "set", "deleteProperty":
		return c.RKind == rVal && (c.RIdx == vTrue || c.RIdx == vFalse)
	case "get", "apply":
		return c.RKind == rVal
	case "getPrototypeOf":
		// *Object result: objects, or nil for null
		return c.RKind == rVal && (c.RIdx == vNull || c.RIdx == vA || c.RIdx == vB || c.RIdx == vOP || c.RIdx == vF || c.RIdx == vObj)
	case "getOwnPropertyDescriptor":
		// PropertyDescriptor struct: well-formed descriptors with at least one field, or the empty struct for undefined
		if c.RKind == rVal {
			return c.RIdx == vUndef
		}
		return c.RKind == rDesc && c.RIdx < nWellFormedDescs && len(descSpecs[c.RIdx]) > 0
	case "ownKeys":
		return c.RKind == rKeys && strings.HasPrefix(keyLists[c.RIdx].js, "[") || c.RKind == rKeys && strings.HasPrefix(keyLists[c.RIdx].js, "({")
	case "construct":
		return c.RKind == rVal && (c.RIdx == vA || c.RIdx == vF || c.RIdx == vObj)
	}
	return false
}

// model evaluates the case on proxymodel; same result format as bEngine.run (without the message line), plus the
// label of the specification rule that threw.
func (c *BCase) model() (string, string) {
	w := newWorld()
	w.shortTrapLog = c.Flavour == flGo
	key := keys[c.Key].k
	var T *pm.Ordinary
	switch c.TKind {
	case tkFunc:
		w.TP = pm.NewOrdinary("TP", pm.ObjVal(w.OP))
		T = pm.NewFunction("T", pm.ObjVal(w.FP), func(this pm.Val, a []pm.Val) pm.Val {
			w.log("T(" + pm.Repr(this) + "," + pm.Repr(arg(a, 0)) + "," + pm.Repr(arg(a, 1)) + ",call)")
			return pm.Str("ret")
		}, func(a []pm.Val, nt pm.Object) pm.Val {
			proto := nt.Get(pm.SKey("prototype"), pm.ObjVal(nt))
			if proto.K != pm.Obj {
				proto = pm.ObjVal(w.OP)
			}
			o := pm.NewOrdinary("", proto)
			w.log("T(" + pm.Repr(pm.ObjVal(o)) + "," + pm.Repr(arg(a, 0)) + "," + pm.Repr(arg(a, 1)) + ",new)")
			o.Set(pm.SKey("a"), arg(a, 0), pm.ObjVal(o))
			return pm.ObjVal(o)
		})
		T.Put(pm.SKey("prototype"), pm.Desc{HasValue: true, Value: pm.ObjVal(w.TP), W: pm.Yes, E: pm.No, C: pm.No})
	case tkArrow:
		T = pm.NewFunction("T", pm.ObjVal(w.FP), func(this pm.Val, a []pm.Val) pm.Val {
			w.log("T(-," + pm.Repr(arg(a, 0)) + "," + pm.Repr(arg(a, 1)) + ",call)")
			return pm.Str("ret")
		}, nil)
	default:
		T = pm.NewOrdinary("T", pm.ObjVal(w.OP))
	}
	w.T = T
	w.CA = pm.NewFunction("CA", pm.ObjVal(w.FP), func(pm.Val, []pm.Val) pm.Val { return pm.Undef }, func(a []pm.Val, nt pm.Object) pm.Val {
		return pm.ObjVal(pm.NewOrdinary("", pm.ObjVal(w.A)))
	})
	w.CA.Put(pm.SKey("prototype"), pm.Desc{HasValue: true, Value: pm.ObjVal(w.A), W: pm.Yes, E: pm.No, C: pm.No})
	switch c.Proto {
	case 1:
		T.SetPrototypeOf(pm.Nul)
	case 2:
		T.SetPrototypeOf(pm.ObjVal(w.A))
	case 3:
		T.SetPrototypeOf(pm.ObjVal(w.B))
	}
	x := c.XCfg
	for i := 0; i < 3; i++ {
		st := x % 3
		x /= 3
		if st != 0 {
			T.Put(keys[i].k, pm.Desc{HasValue: true, Value: pm.Num(1), W: pm.Yes, E: pm.TriOf(i != 1 || st == 1), C: pm.TriOf(st == 1)})
		}
	}
	if d := propCfgs[c.Cfg].desc(w); d != nil {
		T.Put(key, *d)
	}
	if !c.Ext {
		T.PreventExtensions()
	}
	var tt pm.Object = T
	for l := 1; l <= c.Layers; l++ {
		h := &pm.Handler{Traps: map[string]pm.Trap{}}
		for _, n := range trapNames {
			h.Traps[n] = forwardingTrap(w, n)
		}
		tt = pm.ProxyCreate(w.rl, fmt.Sprintf("T%d", l), tt, h)
	}
	h := &pm.Handler{Traps: map[string]pm.Trap{}}
	if c.Flavour == flFull {
		for _, n := range trapNames {
			h.Traps[n] = forwardingTrap(w, n)
		}
	}
	switch c.HKind {
	case hkFn:
		h.Traps[c.Trap] = pm.Trap{Kind: pm.TrapFn, Fn: func(target pm.Object, a []pm.Val) pm.Val {
			line := c.Trap + "("
			if w.shortTrapLog {
				if keyedTraps[c.Trap] {
					line += pm.Repr(a[0])
				}
			} else {
				for i, v := range a {
					if i > 0 {
						line += ","
					}
					if i == 1 && c.Trap == "defineProperty" {
						// the descriptor object is rendered by its (coerced) fields: the engine hands the trap the caller's
						// original object instead of a fresh FromPropertyDescriptor copy, which the property does not forbid
						d := pm.ToPropertyDescriptor(v)
						line += pm.DescRepr(&d)
					} else {
						line += pm.Repr(v)
					}
				}
			}
			w.log(line + ")")
			var fr pm.Val
			if c.Fwd {
				fr = modelForward(w, c.Trap, target, a)
			}
			switch c.RKind {
			case rFwd:
				return fr
			case rNot:
				return pm.Bool(!pm.ToBoolean(fr))
			case rVal:
				return vals[c.RIdx].m(w)
			case rDesc:
				return descSpecs[c.RIdx].obj(w)
			case rKeys:
				return keyLists[c.RIdx].m(w)
			}
			pm.ThrowUser("MyErr")
			return pm.Undef
		}}
	case hkNull:
		h.Traps[c.Trap] = pm.Trap{Kind: pm.TrapNull}
	case hkUndefined:
		h.Traps[c.Trap] = pm.Trap{Kind: pm.TrapMissing}
	default:
		h.Traps[c.Trap] = pm.Trap{Kind: pm.TrapNonCallable}
	}
	w.H = h
	P := pm.ProxyCreate(w.rl, "P", tt, h)
	if c.Revoke {
		P.Revoke()
	}
	w.P = P
	var xo pm.Object = P
	if c.Bare {
		xo = T
	}
	op := &ops[c.Op]
	if op.child {
		xo = pm.NewOrdinary("C", pm.ObjVal(xo))
	}
	var a pm.Val
	switch op.arg {
	case argVal:
		a = vals[c.Arg].m(w)
	case argDesc:
		a = descSpecs[c.Arg].obj(w)
	}
	var res pm.Val
	th := pm.Try(func() { res = op.m(w, xo, key, a, pm.ObjVal(w.R)) })
	out, step := "", ""
	if th != nil {
		out = "throw:" + th.Class
		step = th.Step
	} else {
		out = "ok:" + pm.Repr(res)
	}
	dump := ""
	if c.TKind == tkObject {
		dump = T.Dump()
	}
	return out + "\n" + dump + "\n" + w.R.Dump() + "\n" + strings.Join(w.slog, " "), step
}

// ---- comparison and classification ----

type bWorker struct {
	run *core.Run
	eng *bEngine
}

func (bw *bWorker) engine() *bEngine {
	if bw.eng == nil || bw.eng.broken || bw.eng.used > 20000 {
		bw.eng = newBEngine()
	}
	return bw.eng
}

// evalB runs one case on both sides; returns the violation signature ("" if they agree) and a description.
func evalB(e *bEngine, c *BCase) (sig, what, got, want string) {
	want, step := c.model()
	got, panicked := e.run(c)
	fl := []string{"js", "js", "go"}[c.Flavour]
	if panicked != "" {
		return "B|" + c.Trap + "|" + fl + "|go-panic|" + normMsg(firstLine(panicked)), "Go panic escaped from the engine: " + c.describe() + ": " + panicked, "panic", want
	}
	g := strings.SplitN(got, "\n", 5)
	for len(g) < 5 {
		g = append(g, "")
	}
	msg := g[4]
	got = strings.Join(g[:4], "\n")
	if got == want {
		return "", "", got, want
	}
	m := strings.SplitN(want, "\n", 4)
	kindOf := func(s string) string {
		if strings.HasPrefix(s, "ok:") {
			return "ok"
		}
		return s
	}
	tk := targetClass(c)
	if !c.Bare && c.Fwd && !c.Revoke {
		// does the bare target alone already deviate from the ordinary-object model for this operation? Then the
		// disagreement is not the proxy's (it is property C04's subject) and gets its own signature class.
		bare := *c
		bare.Bare = true
		if bsig, bwhat, _, _ := evalB(e, &bare); bsig != "" {
			return "B|bare-target|" + strings.TrimPrefix(bsig, "B|"), "the bare target (no proxy involved) deviates from the ordinary-object semantics of ECMA-262 10.1: " + bwhat, got, want
		}
	}
	switch {
	case kindOf(g[0]) != kindOf(m[0]):
		// accept / reject disagreement: the core of the property
		sp, en := kindOf(m[0]), kindOf(g[0])
		if step != "" {
			sp += "@" + step
		}
		if en != "ok" {
			en += "[" + normMsg(msg) + "]"
		}
		sig = fmt.Sprintf("B|%s|%s|%s%s|spec=%s|engine=%s", c.Trap, fl, tk, argClass(c), sp, en)
		what = fmt.Sprintf("%s: engine %s (%s), ECMA-262 %s %s", c.describe(), g[0], msg, m[0], step)
	case g[0] != m[0]:
		sig = fmt.Sprintf("B|%s|%s|%s|result|spec=%s|engine=%s", c.Trap, fl, tk, abstract(m[0]), abstract(g[0]))
		what = fmt.Sprintf("%s: engine result %s, spec %s", c.describe(), g[0], m[0])
	case g[1] != m[1] || g[2] != m[2]:
		ds, de := firstDiffSegment(m[1]+"/"+m[2], g[1]+"/"+g[2])
		sig = fmt.Sprintf("B|%s|%s|%s|state|spec=%s|engine=%s", c.Trap, fl, tk, abstract(ds), abstract(de))
		what = fmt.Sprintf("%s: state after the operation: engine T{%s} R{%s}, spec T{%s} R{%s}", c.describe(), g[1], g[2], m[1], m[2])
	default:
		cls := classifySeq(g[3], m[3])
		if strings.HasPrefix(g[0], "throw:") {
			cls += "|both-throw|engine=[" + normMsg(msg) + "]|spec@" + step
		}
		sig = fmt.Sprintf("B|%s|%s|call-sequence|%s", c.Trap, fl, cls)
		what = fmt.Sprintf("%s: sequence of trap / accessor invocations: engine [%s], spec [%s]", c.describe(), g[3], m[3])
	}
	return
}

var (
	reQuoted   = regexp.MustCompile(`'[^']*'|"[^"]*"`)
	reNum      = regexp.MustCompile(`-?\b[0-9]+\b|NaN`)
	reBool     = regexp.MustCompile(`=[TF]\b|:[TF]\b`)
	reFn       = regexp.MustCompile(`[=:][fgs]\b`)
	reLeadTrap = regexp.MustCompile(`^'[A-Za-z]+' on proxy`)
	reKey      = regexp.MustCompile(`(^|;)@?[A-Za-z0-9]+<`)
)

// normMsg abstracts an engine error message: quoted names removed, length capped.
func normMsg(s string) string {
	lead := ""
	if m := reLeadTrap.FindString(s); m != "" { // keep the trap name the engine blames
		lead, s = m, s[len(m):]
	}
	s = lead + reQuoted.ReplaceAllString(s, "_")
	return capMsg(reNum.ReplaceAllString(s, "N"))
}

func capMsg(s string) string {
	if len(s) > 80 {
		s = s[:80]
	}
	return s
}

// abstract removes concrete values from a rendered result / state so that it names a shape.
func abstract(s string) string {
	s = reQuoted.ReplaceAllString(s, "S")
	s = reNum.ReplaceAllString(s, "N")
	s = reBool.ReplaceAllStringFunc(s, func(m string) string { return m[:1] + "B" })
	s = reFn.ReplaceAllStringFunc(s, func(m string) string { return m[:1] + "fn" })
	s = reKey.ReplaceAllStringFunc(s, func(m string) string {
		if m[0] == ';' {
			return ";K<"
		}
		return "K<"
	})
	if len(s) > 90 {
		s = s[:90]
	}
	return s
}

// firstDiffSegment returns the first ';'-separated segments in which two dumps differ.
func firstDiffSegment(a, b string) (string, string) {
	as, bs := strings.Split(a, ";"), strings.Split(b, ";")
	for i := 0; i < len(as) || i < len(bs); i++ {
		var x, y string
		if i < len(as) {
			x = as[i]
		}
		if i < len(bs) {
			y = bs[i]
		}
		if x != y {
			if x == "" {
				x = "(none)"
			}
			if y == "" {
				y = "(none)"
			}
			return x, y
		}
	}
	return a, b
}

// argClass names the kind of the descriptor argument of a defineProperty operation.
func argClass(c *BCase) string {
	if ops[c.Op].arg != argDesc {
		return ""
	}
	kind := "generic"
	for _, f := range descSpecs[c.Arg] {
		switch f.name {
		case "value", "writable":
			if kind == "accessor" {
				return "<-mixed"
			}
			kind = "data"
		case "get", "set":
			if kind == "data" {
				return "<-mixed"
			}
			kind = "accessor"
		}
	}
	return "<-" + kind
}

func targetClass(c *BCase) string {
	if c.Revoke {
		return "revoked"
	}
	switch c.TKind {
	case tkFunc:
		return "function"
	case tkArrow:
		return "arrow"
	}
	switch propCfgs[c.Cfg].kind {
	case 1:
		return "data"
	case 2:
		return "accessor"
	}
	return "absent"
}

func firstLine(s string) string {
	if i := strings.IndexByte(s, '\n'); i >= 0 {
		return s[:i]
	}
	return s
}

// classifySeq names the first position where two invocation logs diverge.
func classifySeq(got, want string) string {
	g, m := strings.Fields(got), strings.Fields(want)
	strip := func(s string) string {
		if i := strings.IndexAny(s, "(:"); i >= 0 {
			return s[:i]
		}
		return s
	}
	for i := 0; i < len(g) || i < len(m); i++ {
		var a, b string
		if i < len(g) {
			a = strip(g[i])
		}
		if i < len(m) {
			b = strip(m[i])
		}
		if i >= len(g) || i >= len(m) || g[i] != m[i] {
			if a == "" {
				a = "(end)"
			}
			if b == "" {
				b = "(end)"
			}
			return "engine:" + a + "|spec:" + b
		}
	}
	return "?"
}
