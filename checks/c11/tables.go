package c11

import (
	"fmt"
	"math"
	"strings"

	pm "verif/ref/proxymodel"
)

// The tables in this file are the single source of truth for both sides of the lock-step: every entry
// knows how to render itself as script text (for the engine) and how to build itself in proxymodel.

// world is the model-side universe of one case: the named objects the script harness also has.
type world struct {
	rl           *pm.Realm
	OP, FP, AP   *pm.Ordinary
	A, B         *pm.Ordinary
	f, g, s      *pm.Ordinary
	CA           *pm.Ordinary // constructor whose .prototype is A (instanceof)
	T            *pm.Ordinary
	TP           *pm.Ordinary // T.prototype when T is a function
	R            *pm.Ordinary // explicit receiver object
	H            *pm.Handler
	P            pm.Object // outermost proxy
	slog         []string
	unsupported  bool
	shortTrapLog bool // Go-handler flavour: trap log lines carry the key only
}

func (w *world) log(s string) { w.slog = append(w.slog, s) }

func newWorld() *world {
	w := &world{}
	w.OP = pm.NewOrdinary("OP", pm.Nul)
	w.FP = pm.NewFunction("FP", pm.ObjVal(w.OP), func(pm.Val, []pm.Val) pm.Val { return pm.Undef }, nil)
	w.AP = pm.NewOrdinary("AP", pm.ObjVal(w.OP))
	w.rl = &pm.Realm{ObjectProto: pm.ObjVal(w.OP), ArrayProto: pm.ObjVal(w.AP)}
	w.A = pm.NewOrdinary("A", pm.ObjVal(w.OP))
	w.B = pm.NewOrdinary("B", pm.Nul)
	fp := pm.ObjVal(w.FP)
	w.f = pm.NewFunction("f", fp, func(this pm.Val, _ []pm.Val) pm.Val { w.log("f(" + pm.Repr(this) + ")"); return pm.Str("vf") }, nil)
	w.g = pm.NewFunction("g", fp, func(this pm.Val, _ []pm.Val) pm.Val { w.log("g(" + pm.Repr(this) + ")"); return pm.Str("vg") }, nil)
	w.s = pm.NewFunction("s", fp, func(this pm.Val, a []pm.Val) pm.Val {
		w.log("s(" + pm.Repr(this) + "," + pm.Repr(arg(a, 0)) + ")")
		return pm.Undef
	}, nil)
	w.R = pm.NewOrdinary("R", pm.ObjVal(w.OP))
	return w
}

func arg(a []pm.Val, i int) pm.Val {
	if i < len(a) {
		return a[i]
	}
	return pm.Undef
}

// ---- value universe ----

type valSpec struct {
	js string
	m  func(w *world) pm.Val
}

func cv(v pm.Val) func(*world) pm.Val { return func(*world) pm.Val { return v } }

const (
	v1 = iota
	v2
	vUndef
	vNull
	vNaN
	vZero
	vNegZero
	vStr
	vTrue
	vFalse
	vEmptyStr
	vF
	vG
	vS
	vA
	vB
	vOP
	vSym
	vObj
	vArr
	nVals
)

var vals = [nVals]valSpec{
	v1:        {"1", cv(pm.Num(1))},
	v2:        {"2", cv(pm.Num(2))},
	vUndef:    {"undefined", cv(pm.Undef)},
	vNull:     {"null", cv(pm.Nul)},
	vNaN:      {"NaN", cv(pm.Num(math.NaN()))},
	vZero:     {"0", cv(pm.Num(0))},
	vNegZero:  {"-0", cv(pm.Num(math.Copysign(0, -1)))},
	vStr:      {`"s"`, cv(pm.Str("s"))},
	vTrue:     {"true", cv(pm.True)},
	vFalse:    {"false", cv(pm.False)},
	vEmptyStr: {`""`, cv(pm.Str(""))},
	vF:        {"f", func(w *world) pm.Val { return pm.ObjVal(w.f) }},
	vG:        {"g", func(w *world) pm.Val { return pm.ObjVal(w.g) }},
	vS:        {"s", func(w *world) pm.Val { return pm.ObjVal(w.s) }},
	vA:        {"A", func(w *world) pm.Val { return pm.ObjVal(w.A) }},
	vB:        {"B", func(w *world) pm.Val { return pm.ObjVal(w.B) }},
	vOP:       {"OP", func(w *world) pm.Val { return pm.ObjVal(w.OP) }},
	vSym:      {"SYM2", cv(pm.Sym("z"))},
	vObj:      {"({})", func(w *world) pm.Val { return pm.ObjVal(pm.NewOrdinary("", pm.ObjVal(w.OP))) }},
	vArr:      {"[]", func(w *world) pm.Val { return pm.ObjVal(pm.NewList(pm.ObjVal(w.AP), nil)) }},
}

// ---- keys ----

type keySpec struct {
	js string
	k  pm.Key
}

// key kinds: string, integer index, symbol; "q" is the second string key of the ownKeys sweep, "c" never exists.
var keys = []keySpec{
	{`"p"`, pm.SKey("p")},
	{`"0"`, pm.SKey("0")},
	{"SYM", pm.SymKey("y")},
	{`"q"`, pm.SKey("q")},
	{`"c"`, pm.SKey("c")},
	// the same property key as "0", written as a number: the engine routes integer-valued keys through separate
	// internal methods (getIdx / setIdx / ... and the *Idx traps of ProxyTrapConfig)
	{`0`, pm.SKey("0")},
}

// probeKeys are the keys used as the probed key: "p", "0", SYM and the number 0.
var probeKeys = []int{0, 1, 2, 5}

// ---- target property configurations ----

type propCfg struct {
	kind     int // 0 absent, 1 data, 2 accessor
	c, w, e  bool
	val      int // value index (data)
	get, set int // value index of f / g / s / undefined (accessor)
}

func (p propCfg) String() string {
	switch p.kind {
	case 0:
		return "absent"
	case 1:
		return fmt.Sprintf("data{v:%s,w:%v,e:%v,c:%v}", vals[p.val].js, p.w, p.e, p.c)
	}
	return fmt.Sprintf("accessor{get:%s,set:%s,e:%v,c:%v}", vals[p.get].js, vals[p.set].js, p.e, p.c)
}

// js is the statement that installs the property on `t` under key `k`.
func (p propCfg) js() string {
	switch p.kind {
	case 0:
		return ""
	case 1:
		return fmt.Sprintf("Object.defineProperty(t,k,{value:%s,writable:%v,enumerable:%v,configurable:%v});", vals[p.val].js, p.w, p.e, p.c)
	}
	return fmt.Sprintf("Object.defineProperty(t,k,{get:%s,set:%s,enumerable:%v,configurable:%v});", vals[p.get].js, vals[p.set].js, p.e, p.c)
}

func (p propCfg) desc(w *world) *pm.Desc {
	switch p.kind {
	case 0:
		return nil
	case 1:
		return &pm.Desc{HasValue: true, Value: vals[p.val].m(w), W: pm.TriOf(p.w), E: pm.TriOf(p.e), C: pm.TriOf(p.c)}
	}
	return &pm.Desc{HasGet: true, Get: vals[p.get].m(w), HasSet: true, Set: vals[p.set].m(w), E: pm.TriOf(p.e), C: pm.TriOf(p.c)}
}

var propCfgs = func() []propCfg {
	res := []propCfg{{kind: 0}}
	bools := []bool{true, false}
	for _, c := range bools {
		for _, w := range bools {
			for _, e := range bools {
				for _, v := range []int{v1, v2} {
					res = append(res, propCfg{kind: 1, c: c, w: w, e: e, val: v})
				}
			}
		}
	}
	for _, c := range bools {
		for _, e := range bools {
			for _, g := range []int{vF, vG, vUndef} {
				for _, s := range []int{vS, vUndef} {
					res = append(res, propCfg{kind: 2, c: c, e: e, get: g, set: s})
				}
			}
		}
	}
	// SameValue corner values on the only configuration where the value is pinned
	for _, v := range []int{vNaN, vZero, vNegZero} {
		res = append(res, propCfg{kind: 1, c: false, w: false, e: true, val: v})
	}
	return res
}()

// ---- descriptor objects (arguments of defineProperty, results of getOwnPropertyDescriptor traps) ----

type field struct {
	name string
	val  int
}

type descSpec []field

func (d descSpec) js() string {
	parts := make([]string, len(d))
	for i, f := range d {
		parts[i] = f.name + ":" + vals[f.val].js
	}
	return "({" + strings.Join(parts, ",") + "})"
}

// obj builds the descriptor as a model object with plain data properties in field order.
func (d descSpec) obj(w *world) pm.Val {
	o := pm.NewOrdinary("", pm.ObjVal(w.OP))
	for _, f := range d {
		o.Put(pm.SKey(f.name), pm.Desc{HasValue: true, Value: vals[f.val].m(w), W: pm.Yes, E: pm.Yes, C: pm.Yes})
	}
	return pm.ObjVal(o)
}

func triVals(name string) [][]field {
	return [][]field{nil, {{name, vTrue}}, {{name, vFalse}}}
}

// descSpecs enumerates the full product of well-formed partial descriptors, fields in
// FromPropertyDescriptor order (value, writable, get, set, enumerable, configurable), simplest first,
// followed by SameValue corner values and by malformed descriptor objects.
var descSpecs, nWellFormedDescs = func() ([]descSpec, int) {
	var bodies [][]field
	bodies = append(bodies, nil) // generic
	for _, v := range [][]field{nil, {{"value", v1}}, {{"value", v2}}} {
		for _, w := range triVals("writable") {
			if v == nil && w == nil {
				continue
			}
			bodies = append(bodies, append(append([]field{}, v...), w...))
		}
	}
	for _, g := range [][]field{nil, {{"get", vF}}, {{"get", vG}}, {{"get", vUndef}}} {
		for _, s := range [][]field{nil, {{"set", vS}}, {{"set", vUndef}}} {
			if g == nil && s == nil {
				continue
			}
			bodies = append(bodies, append(append([]field{}, g...), s...))
		}
	}
	var res []descSpec
	for _, b := range bodies {
		for _, e := range triVals("enumerable") {
			for _, c := range triVals("configurable") {
				res = append(res, descSpec(append(append(append([]field{}, b...), e...), c...)))
			}
		}
	}
	for _, v := range []int{vNaN, vZero, vNegZero, vUndef} {
		for _, w := range [][]field{nil, {{"writable", vFalse}}} {
			for _, c := range [][]field{nil, {{"configurable", vFalse}}} {
				res = append(res, descSpec(append(append([]field{{"value", v}}, w...), c...)))
			}
		}
	}
	n := len(res)
	// malformed: ToPropertyDescriptor must throw a TypeError
	res = append(res,
		descSpec{{"get", v1}},
		descSpec{{"set", vNull}},
		descSpec{{"get", vObj}},
		descSpec{{"value", v1}, {"get", vF}},
		descSpec{{"writable", vTrue}, {"set", vS}},
		descSpec{{"value", v1}, {"get", vUndef}},
		// truthy / falsy flag coercions (well-formed, non-boolean flags)
		descSpec{{"value", v1}, {"writable", v1}, {"enumerable", vStr}, {"configurable", vObj}},
		descSpec{{"value", v1}, {"writable", vZero}, {"enumerable", vEmptyStr}, {"configurable", vNaN}},
	)
	return res, n
}()

// ---- key lists (results of ownKeys traps) ----

type keyList struct {
	js    string
	items []int // value indices (strings / symbols / junk) when elems is nil
	m     func(w *world) pm.Val
}

// listKeyVals are the element values of enumerated key lists: "p", "0", SYM, "q", "c".
var listElems = []struct {
	js string
	v  pm.Val
}{
	{`"p"`, pm.Str("p")},
	{`"0"`, pm.Str("0")},
	{"SYM", pm.Sym("y")},
	{`"q"`, pm.Str("q")},
	{`"c"`, pm.Str("c")},
}

func mkList(elems []int) keyList {
	js := make([]string, len(elems))
	vs := make([]pm.Val, len(elems))
	for i, e := range elems {
		js[i] = listElems[e].js
		vs[i] = listElems[e].v
	}
	return keyList{js: "[" + strings.Join(js, ",") + "]", m: func(w *world) pm.Val {
		return pm.ObjVal(pm.NewList(pm.ObjVal(w.AP), vs))
	}}
}

// keyLists: every list of length <= maxLen over the five element values (duplicates included), simplest
// first, then malformed results.
func buildKeyLists(maxLen int) (res []keyList, nWellTyped int) {
	var rec func(prefix []int, n int)
	for n := 0; n <= maxLen; n++ {
		rec = func(prefix []int, left int) {
			if left == 0 {
				res = append(res, mkList(append([]int{}, prefix...)))
				return
			}
			for e := range listElems {
				rec(append(prefix, e), left-1)
			}
		}
		rec(nil, n)
	}
	nWellTyped = len(res)
	junk := func(js string, items ...pm.Val) keyList {
		return keyList{js: js, m: func(w *world) pm.Val { return pm.ObjVal(pm.NewList(pm.ObjVal(w.AP), items)) }}
	}
	prim := func(js string, v pm.Val) keyList { return keyList{js: js, m: cv(v)} }
	res = append(res,
		junk(`[1]`, pm.Num(1)),
		junk(`["p",undefined]`, pm.Str("p"), pm.Undef),
		junk(`[null]`, pm.Nul),
		junk(`[true]`, pm.True),
		keyList{js: `[{}]`, m: func(w *world) pm.Val {
			return pm.ObjVal(pm.NewList(pm.ObjVal(w.AP), []pm.Val{pm.ObjVal(pm.NewOrdinary("", pm.ObjVal(w.OP)))}))
		}},
		prim(`undefined`, pm.Undef),
		prim(`null`, pm.Nul),
		prim(`1`, pm.Num(1)),
		prim(`"pq"`, pm.Str("pq")),
		prim(`true`, pm.True),
		prim(`SYM`, pm.Sym("y")),
		// array-likes that are not arrays
		keyList{js: `({})`, m: func(w *world) pm.Val { return pm.ObjVal(pm.NewOrdinary("", pm.ObjVal(w.OP))) }},
		keyList{js: `({length:1,0:"p"})`, m: func(w *world) pm.Val {
			o := pm.NewOrdinary("", pm.ObjVal(w.OP))
			o.Put(pm.SKey("length"), pm.Desc{HasValue: true, Value: pm.Num(1), W: pm.Yes, E: pm.Yes, C: pm.Yes})
			o.Put(pm.SKey("0"), pm.Desc{HasValue: true, Value: pm.Str("p"), W: pm.Yes, E: pm.Yes, C: pm.Yes})
			return pm.ObjVal(o)
		}},
		keyList{js: `({length:2,0:"p"})`, m: func(w *world) pm.Val {
			o := pm.NewOrdinary("", pm.ObjVal(w.OP))
			o.Put(pm.SKey("length"), pm.Desc{HasValue: true, Value: pm.Num(2), W: pm.Yes, E: pm.Yes, C: pm.Yes})
			o.Put(pm.SKey("0"), pm.Desc{HasValue: true, Value: pm.Str("p"), W: pm.Yes, E: pm.Yes, C: pm.Yes})
			return pm.ObjVal(o)
		}},
		keyList{js: `f`, m: func(w *world) pm.Val { return pm.ObjVal(w.f) }},
	)
	return
}

// keyLists holds every list up to length 4; the quick tier uses those up to length 3 (the first nKeyListsLen3).
var keyLists, nWellTypedKeyLists = buildKeyLists(4)

const nKeyListsLen3 = 1 + 5 + 25 + 125
