package c11

import (
	"testing"
	"time"
)

func TestBenchB(t *testing.T) {
	compilePrograms()
	sw := partBSweeps(nil)
	for _, s := range sw[:8] {
		e := newBEngine()
		ix := make([]int, len(s.dims))
		n := s.size()
		step := n / 3000
		if step == 0 {
			step = 1
		}
		var tm, te time.Duration
		cnt := 0
		for rank := int64(0); rank < n; rank += step {
			c, ok := s.at(rank, ix)
			if !ok {
				continue
			}
			t0 := time.Now()
			c.model()
			t1 := time.Now()
			e.run(&c)
			t2 := time.Now()
			tm += t1.Sub(t0)
			te += t2.Sub(t1)
			cnt++
		}
		t.Logf("%s: n=%d sampled=%d model=%v/case engine=%v/case", s.name, n, cnt, tm/time.Duration(cnt), te/time.Duration(cnt))
	}
}
