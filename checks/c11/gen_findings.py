#!/usr/bin/env python3
"""Development aid: turns the replay files of a run made with an EMPTY findings list into
checks/c11/corpus.json (one case per signature) and findings.d/C11.jsonl.
usage: gen_findings.py [--merge]   (--merge keeps existing corpus entries whose signature is not in the new run)"""
import json, glob, re, sys, os

ROOT = '/verif'
RC = {
 1: "RC1 proxy.go __isCompatibleDescriptor compares getter/setter of a non-configurable accessor inverted: an honest (identical) accessor descriptor is rejected, a lying one accepted",
 2: "RC2 proxy.go __isCompatibleDescriptor accepts a data<->accessor kind change of a non-configurable property when the descriptor has no `configurable` field",
 3: "RC3 proxy.go proxyGetOwnPropertyDescriptor builds its result from the raw trap result object (toValueProp) instead of the completed descriptor: an absent `value` becomes a nil value (corrupt descriptor object, treated as accessor by isFrozen/freeze), an accessor with get and set undefined becomes a data property",
 4: "RC4 proxy.go proxyOwnKeys dereferences a missing element of the trap result (array-like with a hole): Go nil-pointer panic escapes to the host",
 5: "RC5 (bare target, no proxy involved; property C04's domain) ordinary [[DefineOwnProperty]] lets {writable:..} / {get|set:undefined} change the kind of a non-configurable property",
 6: "RC6 the defineProperty trap is handed the caller's descriptor object instead of FromPropertyDescriptor(Desc): a forwarding handler re-reads getter-backed descriptor fields",
 7: "RC7 (bare exotic target deviates, no proxy defect; property C04/C07's domain: array / function / arguments / String-wrapper objects mishandle setter-less accessors, enumerable:false on mapped arguments, isSealed, integer keys beyond a String wrapper's length) - the generic path through the proxy and the specialised bare path disagree",
 8: "RC8 (bare typed array, no proxy involved; property C17's domain) defineProperty without a value on an integer-indexed element: Go nil-pointer panic",
}
rules = [
    (r'bare-go-panic', 8),
    (r'go-panic', 4),
    (r'^B\|bare-target\|', 5),
    (r'getter-backed', 6),
    (r"^(?!.*\\|String\\|).*(Cannot redefine property|'defineProperty' on proxy: trap returned falsish|engine=\\[\\]\\|spec@false-status)", 3),
    (r'<listed by ownKeys but no descriptor>|engine=K<v=|engine=ok:B$|is a read-only and non-configurable data|Object\.freeze\|state-differs|Reflect\.getOwnPropertyDescriptor\|result-differs|call-sequence\|engine:defineProperty\|spec:defineProperty', 3),
    (r"accessor<-data\|spec=throw|data<-accessor\|spec=throw", 2),
    (r"trap returned descriptor for property|incompatible-descriptor\|engine=ok|engine=throw:TypeError\[\]|\[op:(Reflect|Object)\.(defineProperty|freeze|seal)\]", 1),
    (r"Reflect\.set=2|Receiver property|'set' on proxy|mappedArguments|strictArguments|\|function\|", 7),
]
def classify(sig):
    for rx, n in rules:
        if re.search(rx, sig):
            return RC[n]
    return "unclassified"

def label(sig, what):
    what = re.sub(r'^\[(RC\d|unclassified)[^\]]*\] ', '', what)
    return "[" + classify(sig) + "] " + what

def main():
    merge = '--merge' in sys.argv
    entries = {}
    if merge and os.path.exists(ROOT + '/checks/c11/corpus.json'):
        for e in json.load(open(ROOT + '/checks/c11/corpus.json')):
            entries[e['signature']] = e
    whats = {}
    if merge and os.path.exists(ROOT + '/findings.d/C11.jsonl'):
        for line in open(ROOT + '/findings.d/C11.jsonl'):
            line = line.strip()
            if line:
                o = json.loads(line)
                whats[o['signature']] = o['what']
    for fn in sorted(glob.glob(ROOT + '/replays/C11/*.json')):
        v = json.load(open(fn))
        sig = v['signature']
        if sig.startswith('nondeterministic') or sig == '…more' or v.get('case') is None:
            print('SKIP', sig)
            continue
        entries[sig] = {'signature': sig, 'case': v['case']}
        whats[sig] = v['what']
    out = [entries[k] for k in sorted(entries)]
    json.dump(out, open(ROOT + '/checks/c11/corpus.json', 'w'), indent=0, ensure_ascii=False)
    with open(ROOT + '/findings.d/C11.jsonl', 'w') as f:
        for k in sorted(entries):
            f.write(json.dumps({'property': 'C11', 'signature': k, 'what': label(k, whats.get(k, ''))}, ensure_ascii=False) + '\n')
    print(len(out), 'entries')

main()
