#!/usr/bin/env python3
"""Development aid: turns the replay files of a run made with an EMPTY findings list into
checks/c11/corpus.json (one case per signature) and findings.d/C11.jsonl.
usage: gen_findings.py [--merge]   (--merge keeps existing corpus entries whose signature is not in the new run)"""
import json, glob, re, sys, os

ROOT = '/verif'
rules = [
    (r'go-panic', 'RC4 proxyOwnKeys dereferences a nil element of the trap result (array-like with a hole): Go nil-pointer panic escapes to the host'),
    (r'^B\|bare-target\|', 'RC5 (bare target, no proxy involved; property C04 domain) ordinary [[DefineOwnProperty]] lets a writable-only / get-or-set-undefined descriptor change the kind of a non-configurable property'),
    (r'getter-backed', 'RC6 the defineProperty trap is handed the caller\'s descriptor object instead of FromPropertyDescriptor(Desc), so a forwarding handler reads getter-backed descriptor fields a second time'),
]
def classify(sig, what):
    for rx, label in rules:
        if re.search(rx, sig):
            return label
    return None

def main():
    merge = '--merge' in sys.argv
    entries = {}
    if merge and os.path.exists(ROOT + '/checks/c11/corpus.json'):
        for e in json.load(open(ROOT + '/checks/c11/corpus.json')):
            entries[e['signature']] = e
    whats = {}
    if merge and os.path.exists(ROOT + '/findings.d/C11.jsonl'):
        for line in open(ROOT + '/findings.d/C11.jsonl'):
            line = line.strip()
            if line:
                o = json.loads(line)
                whats[o['signature']] = o['what']
    for fn in sorted(glob.glob(ROOT + '/replays/C11/*.json')):
        v = json.load(open(fn))
        sig = v['signature']
        if sig.startswith('nondeterministic') or sig == '…more' or v.get('case') is None:
            print('SKIP', sig)
            continue
        entries[sig] = {'signature': sig, 'case': v['case']}
        whats[sig] = v['what']
    out = [entries[k] for k in sorted(entries)]
    json.dump(out, open(ROOT + '/checks/c11/corpus.json', 'w'), indent=0, ensure_ascii=False)
    with open(ROOT + '/findings.d/C11.jsonl', 'w') as f:
        for k in sorted(entries):
            f.write(json.dumps({'property': 'C11', 'signature': k, 'what': whats.get(k, '')}, ensure_ascii=False) + '\n')
    print(len(out), 'entries')

main()
