// Package c11 holds the check for property C11.
package c11
