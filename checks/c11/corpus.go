package c11

import (
	_ "embed"
	"encoding/json"

	"verif/core"
)

// corpus.json is the fixed regression corpus: one minimal failing case per listed finding (generated from the
// replay files of a full run by gen_findings.py). It is run first so that every listed finding is reached
// deterministically, whatever the budget.
//
//go:embed corpus.json
var corpusJSON []byte

type corpusEntry struct {
	Signature string          `json:"signature"`
	Case      json.RawMessage `json:"case"`
}

func runCorpus(r *core.Run) bool {
	var entries []corpusEntry
	if err := json.Unmarshal(corpusJSON, &entries); err != nil {
		r.Violation("corpus|unreadable", err.Error(), nil)
		return false
	}
	var be *bEngine
	var ae *aEngine
	n := int64(0)
	for _, en := range entries {
		if r.Expired() {
			return false
		}
		var head struct {
			Part string `json:"part"`
		}
		if json.Unmarshal(en.Case, &head) != nil {
			continue
		}
		switch head.Part {
		case "B":
			var c BCase
			if json.Unmarshal(en.Case, &c) != nil {
				continue
			}
			c.resolve()
			if be == nil || be.broken {
				be = newBEngine()
			}
			n++
			if sig, what, _, _ := evalB(be, &c); sig != "" {
				confirmB(r, &c, sig, what)
			}
		case "A":
			var c ACase
			if json.Unmarshal(en.Case, &c) != nil || c.Kind >= len(aKinds) || len(c.Variant) == 0 {
				continue
			}
			c.resolve()
			if ae == nil || ae.broken {
				ae = newAEngine()
			}
			n++
			if fails := evalA(ae, &c); len(fails) > 0 {
				confirmA(r, ae, &c)
			}
		}
	}
	r.Eval(n)
	r.Add("corpus_cases", n)
	return true
}
