// Command c02 runs the check for property C02 (see bin/check).
package main

import (
	_ "verif/checks/c02"
	"verif/core"
)

func main() { core.Main() }
