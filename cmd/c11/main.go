// Command c11 runs the check for property C11 (see bin/check).
package main

import (
	_ "verif/checks/c11"
	"verif/core"
)

func main() { core.Main() }
