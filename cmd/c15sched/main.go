// Command c15sched is the schedule-exploration harness of C15 (and must be built with the overlay produced by
// checks/c15: vm.go's "sync" and "sync/atomic" imports are rerouted to verif/lib/shim so that every mutex and
// atomic operation of the real Interrupt / ClearInterrupt / run-loop code is a scheduling point).
//
// It explores ALL interleavings up to a preemption bound of: a runner goroutine making two consecutive calls into
// a runtime, and 1..2 interrupter goroutines calling Runtime.Interrupt. Every execution is judged against a
// sequentially consistent reference model of the interrupt flag that is driven by the recorded trace.
package main

import (
	"encoding/json"
	"flag"
	"fmt"
	"os"
	"strings"
	"time"

	"verif/lib/sched"

	"github.com/dop251/goja"
)

const progSrc = `function main(){ var s=0; try { log('a'); for (var i=0;i<2;i++){ log('b'+i); s+=i } } catch(e){ log('catch') } finally { log('finally') } return 'done'+s }`

var runPrg = goja.MustCompile("run.js", "main()", false)
var setupPrg = goja.MustCompile("setup.js", progSrc, false)

type env struct {
	r     *goja.Runtime
	log   []string
	steps int
	main  goja.Callable
}

func newEnv() *env {
	e := &env{r: goja.New()}
	e.r.Set("log", func(c goja.FunctionCall) goja.Value {
		e.log = append(e.log, c.Argument(0).String())
		return goja.Undefined()
	})
	if _, err := e.r.RunProgram(setupPrg); err != nil {
		panic(err)
	}
	e.main, _ = goja.AssertFunction(e.r.Get("main"))
	goja.VerifSetStepHook(e.r, func(*goja.Runtime) { e.steps++ })
	return e
}

func (e *env) call(entry string) (goja.Value, error) {
	if entry == "run" {
		return e.r.RunProgram(runPrg)
	}
	return e.main(goja.Undefined())
}

type callObs struct {
	val, err, ival string
	interrupted    bool
	log            []string
	steps          int
}

type violation struct {
	Scenario string   `json:"scenario"`
	Sig      string   `json:"sig"`
	What     string   `json:"what"`
	Schedule []int    `json:"schedule"`
	Trace    []string `json:"trace,omitempty"`
}

type summary struct {
	Instrumented bool        `json:"instrumented"`
	Execs        int         `json:"execs"`
	Points       int         `json:"points"`
	MaxPreempt   int         `json:"max_preemptions_seen"`
	Bound        int         `json:"bound"`
	Exhausted    bool        `json:"exhausted"`
	Outcomes     []string    `json:"outcomes"`
	Violations   []violation `json:"violations"`
	Scenarios    []string    `json:"scenarios"`
	Sample       interface{} `json:"sample"`
}

type scenario struct {
	name         string
	entry        string
	interrupters int
	runner       int  // thread id of the runner (interrupters take the other ids in order)
	pre          bool // an interrupt "v0" is delivered sequentially while the runtime is idle, before the threads start
}

func (sc scenario) interrupterValue(thread int) string {
	k := thread
	if thread < sc.runner {
		k = thread + 1
	}
	return fmt.Sprintf("v%d", k)
}

func obsCall(e *env, entry string) callObs {
	l0, s0 := len(e.log), e.steps
	v, err := e.call(entry)
	o := callObs{log: append([]string{}, e.log[l0:]...), steps: e.steps - s0}
	if v != nil {
		o.val = v.String()
	}
	if err != nil {
		o.err = fmt.Sprintf("%T", err)
		if ie, ok := err.(*goja.InterruptedError); ok {
			o.interrupted = true
			o.ival = fmt.Sprint(ie.Value())
		}
	}
	return o
}

// judge replays the trace through the reference model and compares with what the runner observed.
func judge(sc scenario, res sched.Result, calls []callObs, base callObs, final callObs, flagAddr interface{}) (sig, what string) {
	// model state
	flag := uint32(0)
	delivered := map[string]bool{} // values whose flag store precedes the current point
	if sc.pre {
		flag = 1
		delivered["v0"] = true
	}
	callIdx := 0
	polls := 0           // runner polls within the current call
	hitAt := -1          // poll index at which the runner saw the flag, for the current call
	var allowed []string // values allowed for the current interrupted call
	type pred struct {
		interrupted bool
		allowed     []string
		pollsBefore int
	}
	var preds []pred
	tr := res.Trace
	for i := 0; i < len(tr); i++ {
		ev := tr[i]
		switch {
		case ev.Op == "callstart":
			polls, hitAt, allowed = 0, -1, nil
		case ev.Op == "callend":
			preds = append(preds, pred{hitAt >= 0, allowed, hitAt})
			if hitAt >= 0 {
				// an interrupted outermost call consumes the interrupt (documented: leaveAbrupt clears it)
				// unless the implementation's own clear happened earlier and a later Interrupt arrived after it
				if !clearedSince(tr, i) {
					flag = 0
				}
			}
			callIdx++
		case ev.Op == "store" && ev.Obj == flagAddr:
			v := ev.Val.(uint32)
			if ev.Thread != sc.runner {
				flag = v
				delivered[sc.interrupterValue(ev.Thread)] = true
			} else {
				flag = v // runner's own ClearInterrupt
				if v == 0 {
					markCleared(tr, i)
				}
			}
		case ev.Op == "load" && ev.Obj == flagAddr && ev.Thread == sc.runner:
			got := ev.Val.(uint32)
			if got != flag {
				return "model|flag-mismatch", fmt.Sprintf("runner poll %d of call %d loaded %d, model says %d", polls, callIdx, got, flag)
			}
			if flag == 1 && hitAt < 0 {
				hitAt = polls
			}
			polls++
		case ev.Op == "lock" && ev.Thread == sc.runner && hitAt >= 0 && allowed == nil:
			for v := range delivered {
				allowed = append(allowed, v)
			}
		}
	}
	if len(preds) != len(calls) {
		return "harness|calls", fmt.Sprintf("%d calls observed, %d in trace", len(calls), len(preds))
	}
	for i, c := range calls {
		p := preds[i]
		if p.interrupted != c.interrupted {
			return fmt.Sprintf("outcome|call%d|interrupted=%v,want=%v", i, c.interrupted, p.interrupted), fmt.Sprintf("call %d: interrupted=%v err=%s val=%s, model expects interrupted=%v", i, c.interrupted, c.err, c.val, p.interrupted)
		}
		if !c.interrupted {
			if c.err != "" || c.val != base.val || strings.Join(c.log, ",") != strings.Join(base.log, ",") {
				return fmt.Sprintf("outcome|call%d|normal-run-differs", i), fmt.Sprintf("call %d not interrupted but val=%s err=%s log=%v (isolated: val=%s log=%v)", i, c.val, c.err, c.log, base.val, base.log)
			}
			continue
		}
		ok := false
		for _, a := range p.allowed {
			if a == c.ival {
				ok = true
			}
		}
		if !ok {
			return fmt.Sprintf("value|call%d", i), fmt.Sprintf("call %d: InterruptedError carries %q, delivered before the runner read it: %v", i, c.ival, p.allowed)
		}
		// the runner must stop at the very poll that saw the flag: exactly pollsBefore instructions ran in this call
		if c.steps-(p.pollsBefore+1) > 128 {
			return fmt.Sprintf("late|call%d", i), fmt.Sprintf("call %d: %d instructions executed, flag was visible at poll %d", i, c.steps, p.pollsBefore)
		}
		want := strings.Join(base.log, ",")
		got := strings.Join(c.log, ",")
		if !strings.HasPrefix(want, got) {
			return fmt.Sprintf("log|call%d", i), fmt.Sprintf("call %d: log %v is not a prefix of the isolated log %v (cleanup code ran after the interrupt?)", i, c.log, base.log)
		}
		for _, t := range c.log {
			if t == "catch" || (t == "finally" && got != want) {
				return fmt.Sprintf("cleanup|call%d", i), fmt.Sprintf("call %d: %q ran in an interrupted call: %v", i, t, c.log)
			}
		}
	}
	// final call after all threads are done: interrupted immediately iff the model's flag is still set
	if (flag == 1) != final.interrupted {
		return fmt.Sprintf("final|interrupted=%v,want=%v", final.interrupted, flag == 1), fmt.Sprintf("after all threads finished the model flag is %d but the next call: err=%s val=%s", flag, final.err, final.val)
	}
	if final.interrupted && (len(final.log) != 0 || final.steps > 1) {
		return "final|ran", fmt.Sprintf("pending interrupt: next call ran %d instructions, log %v", final.steps, final.log)
	}
	return "", ""
}

// The implementation's own clear (store 0 by the runner) is the consumption point of an interrupted call.
var clearedAt = map[int]bool{}

func markCleared(tr []sched.Event, i int) { clearedAt[i] = true }
func clearedSince(tr []sched.Event, end int) bool {
	// was there a runner clear inside the call that ends at index end?
	for j := end; j >= 0; j-- {
		if tr[j].Op == "callstart" {
			return false
		}
		if clearedAt[j] {
			return true
		}
	}
	return false
}

func main() {
	bound := flag.Int("bound", 2, "preemption bound")
	budget := flag.Int("budget", 30, "seconds")
	replay := flag.String("replay", "", "scenario:comma-separated choices")
	raw := flag.Bool("raw", false, "hand-offs through raw pipe system calls (for builds with -race)")
	flag.Parse()
	sched.Raw = *raw
	deadline := time.Now().Add(time.Duration(*budget) * time.Second)
	scenarios := []scenario{
		{name: "call+1", entry: "call", interrupters: 1}, {name: "run+1", entry: "run", interrupters: 1},
		{name: "call+2", entry: "call", interrupters: 2}, {name: "run+2", entry: "run", interrupters: 2},
		// a pending (idle-delivered) interrupt plus an interrupter that is scheduled first
		{name: "pending+1first", entry: "call", interrupters: 1, runner: 1, pre: true},
		{name: "pending+2", entry: "run", interrupters: 2, runner: 1, pre: true},
	}
	sum := summary{Bound: *bound, Exhausted: true}
	outcomes := map[string]bool{}
	base := func(entry string) callObs { e := newEnv(); return obsCall(e, entry) }

	for _, sc := range scenarios {
		sum.Scenarios = append(sum.Scenarios, sc.name)
		b := base(sc.entry)
		var cur struct {
			e     *env
			calls []callObs
		}
		mk := func() []func() {
			if *raw {
				// so that a race report can be attributed to the schedule being executed
				fmt.Fprintf(os.Stderr, "SCHEDULE %s %s\n", sc.name, strings.Trim(strings.ReplaceAll(fmt.Sprint(sched.CurrentPrefix), " ", ","), "[]"))
			}
			e := newEnv()
			cur.e, cur.calls = e, nil
			if sc.pre {
				e.r.Interrupt("v0")
			}
			runner := func() {
				for i := 0; i < 2; i++ {
					sched.Active().Note("callstart", i)
					o := obsCall(e, sc.entry)
					sched.Active().Note("callend", i)
					cur.calls = append(cur.calls, o)
				}
			}
			var bodies []func()
			for t := 0; t <= sc.interrupters; t++ {
				if t == sc.runner {
					bodies = append(bodies, runner)
					continue
				}
				v := sc.interrupterValue(t)
				bodies = append(bodies, func() { e.r.Interrupt(v) })
			}
			return bodies
		}
		check := func(res sched.Result) bool {
			sum.Points += res.Points
			if res.Preemptions > sum.MaxPreempt {
				sum.MaxPreempt = res.Preemptions
			}
			e := cur.e
			var flagAddr interface{}
			for i, ev := range res.Trace {
				if ev.Op == "store" && ev.Thread != sc.runner && i >= 0 {
					flagAddr = ev.Obj
					sum.Instrumented = true
					break
				}
			}
			clearedAt = map[int]bool{}
			var sig, what string
			if res.Err != "" {
				sig, what = "sched|"+strings.SplitN(res.Err, ":", 2)[0], res.Err
			} else {
				final := obsCall(e, sc.entry) // outside the scheduler: plain primitives
				st := goja.VerifIdle(e.r)
				sig, what = judge(sc, res, cur.calls, b, final, flagAddr)
				if sig == "" && (st.SP != 0 || st.CallStack != 0 || st.TryStack != 0 || st.IterStack != 0 || st.RefStack != 0 || st.Jobs != 0 || !st.PrgNil) {
					sig, what = "idle", fmt.Sprintf("runtime not idle at the end: %+v", st)
				}
				ocs := ""
				for _, c := range cur.calls {
					ocs += fmt.Sprintf("[%v %s %d]", c.interrupted, c.ival, len(c.log))
				}
				outcomes[sc.name+ocs+fmt.Sprint(final.interrupted)] = true
			}
			if sig != "" {
				// replay the same schedule twice: identical observations are required before the failure is believed
				same := 0
				for k := 0; k < 2; k++ {
					r2 := sched.Run(res.Choices, 4000, mk())
					if fmt.Sprint(r2.Choices) == fmt.Sprint(res.Choices) && len(r2.Trace) == len(res.Trace) {
						same++
					}
				}
				if same != 2 {
					sig = "nondeterministic|" + sig
				}
				v := violation{Scenario: sc.name, Sig: sig, What: what, Schedule: res.Choices}
				for _, ev := range res.Trace {
					v.Trace = append(v.Trace, fmt.Sprintf("T%d %s", ev.Thread, ev.Op))
				}
				if len(v.Trace) > 400 {
					v.Trace = v.Trace[:400]
				}
				sum.Violations = append(sum.Violations, v)
				return len(sum.Violations) < 20
			}
			if sum.Sample == nil && res.Preemptions == *bound {
				var sw []string
				for i, c := range res.Choices {
					if c != 0 {
						sw = append(sw, fmt.Sprintf("point %d: switch to enabled[%d]", i, c))
					}
				}
				sum.Sample = map[string]interface{}{"scenario": sc.name, "scheduling_points": len(res.Choices), "non_default_choices": sw, "calls": fmt.Sprint(cur.calls)}
			}
			return true
		}
		if *replay != "" {
			parts := strings.SplitN(*replay, ":", 2)
			if parts[0] != sc.name {
				continue
			}
			var ch []int
			json.Unmarshal([]byte("["+parts[1]+"]"), &ch)
			res := sched.Run(ch, 4000, mk())
			sum.Execs++
			check(res)
			continue
		}
		n, ex := sched.Explore(*bound, 4000, mk, check, func() bool { return time.Now().After(deadline) })
		sum.Execs += n
		if !ex {
			sum.Exhausted = false
		}
	}
	for o := range outcomes {
		sum.Outcomes = append(sum.Outcomes, o)
	}
	json.NewEncoder(os.Stdout).Encode(sum)
}
