// Command c17 runs the check for property C17 (see bin/check).
package main

import (
	_ "verif/checks/c17"
	"verif/core"
)

func main() { core.Main() }
