// Command c05 runs the check for property C05 (see bin/check).
package main

import (
	_ "verif/checks/c05"
	"verif/core"
)

func main() { core.Main() }
